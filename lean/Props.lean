import Props.C01
import Props.C09
import Props.C15
import Props.C16
