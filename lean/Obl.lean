import Obl.Wire
import Obl.Hop
