import Obl.Wire
import Obl.Hop
import Obl.Proto
import Obl.Sub
import Obl.Ids
import Obl.Macat
import Obl.Opt
import Obl.Core
