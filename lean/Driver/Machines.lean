/-
  Driver/Machines.lean — dispatch of the stateful protocol machines for the line protocol.
  A machine line is   m.<machine> <op> <arg>* => <observation>
  `new` resets the machine; every other op is checked against the model's set of allowed outcomes
  and the state advances along the outcome that matches what the implementation did.
-/
import Model.Proto.Sub
import Model.Proto.Pub
open Model Model.Proto
namespace Driver.Machines

structure State where
  sub : Sub.State := Sub.init
  pub : Pub.State := Pub.init
  stuck : Bool := false      -- after a disagreement the scenario is abandoned until the next `new`

/-- pick the allowed outcome that matches the observation -/
def pick {σ : Type} (outs : List (σ × List Ev)) (o : String) : Option σ :=
  (outs.find? (fun x => obs x.2 == o)).map (·.1)

def render {σ : Type} (outs : List (σ × List Ev)) : String :=
  if outs.isEmpty then "<operation not enabled in the model>" else " | ".intercalate (outs.map (fun x => obs x.2))

/-- returns (new state, agrees?, expected rendering, branch) or none for an unknown tag -/
def step (s : State) (tag : String) (args : List String) (obs : String) : Option (State × Bool × String × String) :=
  let opName := args.headD ""
  if opName == "new" then
    match tag with
    | "m.sub" => some ({ s with sub := Sub.init, stuck := false }, true, "-", "new")
    | "m.pub" => some ({ s with pub := Pub.init, stuck := false }, true, "-", "new")
    | _ => none
  else if s.stuck then some (s, true, "(skipped after earlier disagreement)", "skipped") else
  match tag with
  | "m.sub" =>
    let outs := Sub.step s.sub args
    match pick outs obs with
    | some s' => some ({ s with sub := s' }, true, obs, opName)
    | none => some ({ s with stuck := true }, false, render outs, opName)
  | "m.pub" =>
    let outs := Pub.step s.pub args
    match pick outs obs with
    | some s' => some ({ s with pub := s' }, true, obs, opName)
    | none => some ({ s with stuck := true }, false, render outs, opName)
  | _ => none

end Driver.Machines
