/-
  Driver/Machines.lean — dispatch of the stateful protocol machines for the line protocol.
  A machine line is   m.<machine> <op> <arg>* => <observation>
  `new` resets the machine; every other op is checked against the model's set of allowed outcomes
  and the state advances along the outcome that matches what the implementation did.
-/
import Model.Proto.Sub
import Model.Proto.Pub
import Model.Proto.Pair
import Model.Proto.Push
import Model.Proto.Pull
import Model.Proto.Rep
import Model.Proto.Mesh
import Model.Proto.Surveyor
import Model.Proto.Req
import Model.Proto.Xreq
import Model.Proto.RawRecv
import Model.Core
import Model.Handshaker
import Model.AcceptQ
import Model.Inproc
import Model.InprocPipe
import Model.Ledger
import Model.Bytes
import Generated.Facts
open Model Model.Proto
namespace Driver.Machines

/-- the set of model states compatible with what has been observed so far (the model is
    non-deterministic where Go's `select` is); capped to keep runs linear -/
structure Cands (σ : Type) where
  states : List σ

def advance {σ : Type} [BEq σ] (cs : List σ) (stp : σ → List String → List (σ × List Ev)) (op : List String) (o : String) :
    List σ × String :=
  let outs := cs.flatMap (fun s => stp s op)
  let ok := (outs.filter (fun x => obs x.2 == o)).map (·.1)
  let dedup := ok.foldl (fun acc s => if acc.contains s then acc else acc ++ [s]) []
  let rendered := (outs.map (fun x => obs x.2)).foldl (fun acc s => if acc.contains s then acc else acc ++ [s]) []
  (dedup.take 64, if outs.isEmpty then "<operation not enabled in the model>" else " | ".intercalate rendered)

def advanceS {σ : Type} [BEq σ] (cs : List σ) (stp : σ → List String → List (σ × String)) (op : List String) (o : String) :
    List σ × String :=
  let outs := cs.flatMap (fun s => stp s op)
  let ok := (outs.filter (fun x => x.2 == o)).map (·.1)
  let dedup := ok.foldl (fun acc s => if acc.contains s then acc else acc ++ [s]) []
  let rendered := (outs.map (·.2)).foldl (fun acc s => if acc.contains s then acc else acc ++ [s]) []
  (dedup.take 64, if outs.isEmpty then "<operation not enabled in the model>" else " | ".intercalate rendered)

/-- the message ledger behind the line protocol: ids as the harness numbers buffers (first sight of a pointer) -/
def ledgerContents (s : Ledger.State) : String :=
  let live := s.msgs.filter (fun x => !x.pooled)
  if live.isEmpty then "-" else
  ",".intercalate (live.map (fun x => s!"{x.id}:{x.refcnt}:{toHexD (x.body.map (fun n => UInt8.ofNat n))}"))

def ledgerStep (s : Ledger.State) (op : List String) : List (Ledger.State × String) :=
  let nat (x : String) : Nat := x.toNat?.getD 0
  let reuse (x : String) : Option Nat := if x == "-" then none else x.toNat?
  match op with
  | ["newmsg", o, _, r] =>
    let (s', res) := Ledger.step s (.new (nat o) (reuse r))
    match res with
    | some id => [(s', s!"id:{id} empty:true {ledgerContents s'}")]
    | none => [(s', "refused:" ++ (s'.bad.getLast?.getD ""))]
  | ["clone", o, o2, m] =>
    let (s', res) := Ledger.step s (.clone (nat o) (nat o2) (nat m))
    [(s', if res.isSome then ledgerContents s' else "refused:" ++ (s'.bad.getLast?.getD ""))]
  | ["free", o, m] =>
    let before := s.bad.length
    let (s', _) := Ledger.step s (.free (nat o) (nat m))
    [(s', if s'.bad.length == before then ledgerContents s' else "refused:" ++ (s'.bad.getLast?.getD ""))]
  | ["unique", o, m, r] =>
    let (s', res) := Ledger.step s (.makeUnique (nat o) (nat m) (reuse r))
    match res with
    | some id => [(s', s!"same:{decide (id = nat m)} {ledgerContents s'}")]
    | none => [(s', "refused:" ++ (s'.bad.getLast?.getD ""))]
  | ["write", o, m, b] =>
    let before := s.bad.length
    let body := ((ofHex b).getD []).map (·.toNat)
    let (s', _) := Ledger.step s (.write (nat o) (nat m) body)
    [(s', if s'.bad.length == before then ledgerContents s' else "refused:" ++ (s'.bad.getLast?.getD ""))]
  | _ => []

/-- the connection handshaker behind the line protocol -/
def hsStep (s : Handshaker.State) (op : List String) : List (Handshaker.State × String) :=
  let nat (x : String) : Nat := x.toNat?.getD 0
  let o : Option Handshaker.Op := match op with
    | ["start", c, _] => some (.start (nat c))
    | ["finish", c, "ok"] => some (.finish (nat c) true)
    | ["finish", c, "bad"] => some (.finish (nat c) false)
    | ["wait", call] => some (.wait (nat call))
    | ["close"] => some .close
    | _ => none
  match o with
  | none => []
  | some o =>
    let r := Handshaker.step s o
    [(r.1, if r.2.isEmpty then "-" else " ".intercalate r.2)]

/-- the WebSocket listener's accept queue behind the line protocol -/
def wslStep (s : AcceptQ.State) (op : List String) : List (AcceptQ.State × String) :=
  let nat (x : String) : Nat := x.toNat?.getD 0
  let o : Option AcceptQ.Op := match op with
    | ["begin", c] => some (.begin (nat c))
    | ["finish", c] => some (.finish (nat c))
    | ["accept", call] => some (.accept (nat call))
    | ["close"] => some .close
    | _ => none
  match o with
  | none => []
  | some o =>
    let r := AcceptQ.step s o
    [(r.1, if r.2.isEmpty then "-" else " ".intercalate r.2)]

/-- the inproc transport's rendezvous behind the line protocol -/
def inprocStep (s : Inproc.State) (op : List String) : List (Inproc.State × String) :=
  let nat (x : String) : Nat := x.toNat?.getD 0
  let o : Option Inproc.Op := match op with
    | ["listen", l, a, sp, pp] => some (.listen (nat l) (nat a) (nat sp) (nat pp))
    | ["accept", l, call] => some (.accept (nat l) (nat call))
    | ["dial", d, call, a, sp, pp] => some (.dial (nat d) (nat call) (nat a) (nat sp) (nat pp))
    | ["closel", l] => some (.closeL (nat l))
    | ["closed", d] => some (.closeD (nat d))
    | _ => none
  match o with
  | none => []
  | some o => (Inproc.step s o).map (fun r => (r.1, if r.2.isEmpty then "-" else " ".intercalate r.2))

/-- an established inproc connection behind the line protocol -/
def ipipeStep (s : InprocPipe.State) (op : List String) : List (InprocPipe.State × String) :=
  let nat (x : String) : Nat := x.toNat?.getD 0
  let bytes (x : String) : List Nat := ((ofHex x).getD []).map (·.toNat)
  let o : Option InprocPipe.Op := match op with
    | ["send", d, call, h, b] => some (.send (nat d) (nat call) (bytes h) (bytes b))
    | ["recv", d, call] => some (.recv (nat d) (nat call))
    | ["close", e] => some (.close (nat e))
    | _ => none
  match o with
  | none => []
  | some o => (InprocPipe.step s o).map (fun r => (r.1, if r.2.isEmpty then "-" else " ".intercalate r.2))

instance : BEq Ledger.State := ⟨fun a b => a.msgs == b.msgs && a.next == b.next && a.bad == b.bad⟩

structure State where
  ledger : List Ledger.State := [{}]
  sub : List Sub.State := [Sub.init]
  pub : List Pub.State := [Pub.init]
  pair : List Pair.State := [Pair.init]
  push : List Push.State := [Push.init]
  pull : List Pull.State := [Pull.init]
  rep : List Rep.State := [Rep.init .rep Generated.hop_rep]
  mesh : List Mesh.State := [Mesh.init .bus Generated.hop_xstar_drop]
  surv : List Surveyor.State := [Surveyor.init]
  req : List Req.State := [Req.init]
  xreq : List Xreq.State := [Xreq.init]
  rawq : List RawRecv.State := [RawRecv.init]
  core : List Core.State := [Core.init]
  hs : List Handshaker.State := [Handshaker.init]
  wsl : List AcceptQ.State := [AcceptQ.init]
  inproc : List Inproc.State := [Inproc.init]
  ipipe : List InprocPipe.State := [InprocPipe.init]
  stuck : Bool := false      -- after a disagreement the scenario is abandoned until the next `new`

/-- returns (new state, agrees?, expected rendering, branch) or none for an unknown tag -/
def step (s : State) (tag : String) (args : List String) (o : String) : Option (State × Bool × String × String) :=
  let opName := args.headD ""
  if opName == "new" then
    match tag with
    | "m.sub" => some ({ s with sub := [Sub.init], stuck := false }, true, "-", "new")
    | "m.pub" => some ({ s with pub := [Pub.init], stuck := false }, true, "-", "new")
    | "m.pair" => some ({ s with pair := [Pair.init], stuck := false }, true, "-", "new")
    | "m.push" => some ({ s with push := [Push.init], stuck := false }, true, "-", "new")
    | "m.pull" => some ({ s with pull := [Pull.init], stuck := false }, true, "-", "new")
    | "m.surv" => some ({ s with surv := [Surveyor.init], stuck := false }, true, "-", "new")
    | "m.req" => some ({ s with req := [Req.init], stuck := false }, true, "-", "new")
    | "m.xreq" => some ({ s with xreq := [Xreq.init], stuck := false }, true, "-", "new")
    | "m.rawq" => some ({ s with rawq := [if args.getD 1 "" == "xsub" then RawRecv.initSub else RawRecv.init], stuck := false }, true, "-", "new")
    | "m.core" => some ({ s with core := [Core.init], stuck := false }, true, "-", "new")
    | "m.ledger" => some ({ s with ledger := [{}], stuck := false }, true, "-", "new")
    | "m.hs" => some ({ s with hs := [Handshaker.init], stuck := false }, true, "-", "new")
    | "m.wsl" => some ({ s with wsl := [AcceptQ.init], stuck := false }, true, "-", "new")
    | "m.inproc" => some ({ s with inproc := [Inproc.init], stuck := false }, true, "-", "new")
    | "m.ipipe" => some ({ s with ipipe := [InprocPipe.init], stuck := false }, true, "-", "new")
    | "m.mesh" =>
      let f := match args.getD 1 "" with
        | "bus" => Mesh.Flavor.bus
        | "xbus" => Mesh.Flavor.xbus
        | "star" => Mesh.Flavor.star
        | _ => Mesh.Flavor.xstar
      some ({ s with mesh := [Mesh.init f Generated.hop_xstar_drop], stuck := false }, true, "-", "new")
    | "m.rep" =>
      let st := match args.getD 1 "" with
        | "rep" => Rep.init .rep Generated.hop_rep
        | "respondent" => Rep.init .respondent Generated.hop_respondent
        | "xrep" => Rep.init .xrep Generated.hop_xrep
        | _ => Rep.init .xrespondent Generated.hop_xrespondent
      some ({ s with rep := [st], stuck := false }, true, "-", "new")
    | _ => none
  else if s.stuck then some (s, true, "(skipped after earlier disagreement)", "skipped") else
  match tag with
  | "m.sub" =>
    let (cs, exp) := advance s.sub Sub.step args o
    if cs.isEmpty then some ({ s with stuck := true }, false, exp, opName) else some ({ s with sub := cs }, true, o, opName)
  | "m.pub" =>
    let (cs, exp) := advance s.pub Pub.step args o
    if cs.isEmpty then some ({ s with stuck := true }, false, exp, opName) else some ({ s with pub := cs }, true, o, opName)
  | "m.pair" =>
    let (cs, exp) := advance s.pair Pair.step args o
    if cs.isEmpty then some ({ s with stuck := true }, false, exp, opName) else some ({ s with pair := cs }, true, o, opName)
  | "m.push" =>
    let (cs, exp) := advance s.push Push.step args o
    if cs.isEmpty then some ({ s with stuck := true }, false, exp, opName) else some ({ s with push := cs }, true, o, opName)
  | "m.pull" =>
    let (cs, exp) := advance s.pull Pull.step args o
    if cs.isEmpty then some ({ s with stuck := true }, false, exp, opName) else some ({ s with pull := cs }, true, o, opName)
  | "m.rep" =>
    let (cs, exp) := advance s.rep Rep.step args o
    if cs.isEmpty then some ({ s with stuck := true }, false, exp, opName) else some ({ s with rep := cs }, true, o, opName)
  | "m.mesh" =>
    let (cs, exp) := advance s.mesh Mesh.step args o
    if cs.isEmpty then some ({ s with stuck := true }, false, exp, opName) else some ({ s with mesh := cs }, true, o, opName)
  | "m.surv" =>
    let (cs, exp) := advance s.surv Surveyor.step args o
    if cs.isEmpty then some ({ s with stuck := true }, false, exp, opName) else some ({ s with surv := cs }, true, o, opName)
  | "m.xreq" =>
    let (cs, exp) := advance s.xreq Xreq.step args o
    if cs.isEmpty then some ({ s with stuck := true }, false, exp, opName) else some ({ s with xreq := cs }, true, o, opName)
  | "m.rawq" =>
    let (cs, exp) := advance s.rawq RawRecv.step args o
    if cs.isEmpty then some ({ s with stuck := true }, false, exp, opName) else some ({ s with rawq := cs }, true, o, opName)
  | "m.req" =>
    let (cs, exp) := advance s.req Req.step args o
    if cs.isEmpty then some ({ s with stuck := true }, false, exp, opName) else some ({ s with req := cs }, true, o, opName)
  | "m.ledger" =>
    let (cs, exp) := advanceS s.ledger ledgerStep args o
    if cs.isEmpty then some ({ s with stuck := true }, false, exp, opName) else some ({ s with ledger := cs }, true, o, opName)
  | "m.wsl" =>
    let (cs, exp) := advanceS s.wsl wslStep args o
    if cs.isEmpty then some ({ s with stuck := true }, false, exp, opName) else some ({ s with wsl := cs }, true, o, opName)
  | "m.ipipe" =>
    let (cs, exp) := advanceS s.ipipe ipipeStep args o
    if cs.isEmpty then some ({ s with stuck := true }, false, exp, opName) else some ({ s with ipipe := cs }, true, o, opName)
  | "m.inproc" =>
    let (cs, exp) := advanceS s.inproc inprocStep args o
    if cs.isEmpty then some ({ s with stuck := true }, false, exp, opName) else some ({ s with inproc := cs }, true, o, opName)
  | "m.hs" =>
    let (cs, exp) := advanceS s.hs hsStep args o
    if cs.isEmpty then some ({ s with stuck := true }, false, exp, opName) else some ({ s with hs := cs }, true, o, opName)
  | "m.core" =>
    let (cs, exp) := advanceS s.core Core.step args o
    if cs.isEmpty then some ({ s with stuck := true }, false, exp, opName) else some ({ s with core := cs }, true, o, opName)
  | _ => none

end Driver.Machines
