/-
  Driver/Machines.lean — dispatch of the stateful protocol machines for the line protocol.
  A machine line is   m.<machine> <op> <arg>* => <observation>
  `new` resets the machine; every other op is checked against the model's set of allowed outcomes
  and the state advances along the outcome that matches what the implementation did.
-/
import Model.Proto.Sub
import Model.Proto.Pub
import Model.Proto.Pair
import Model.Proto.Push
import Model.Proto.Pull
import Model.Proto.Rep
import Model.Proto.Mesh
import Model.Proto.Surveyor
import Model.Proto.Req
import Model.Core
import Generated.Facts
open Model Model.Proto
namespace Driver.Machines

/-- the set of model states compatible with what has been observed so far (the model is
    non-deterministic where Go's `select` is); capped to keep runs linear -/
structure Cands (σ : Type) where
  states : List σ

def advance {σ : Type} [BEq σ] (cs : List σ) (stp : σ → List String → List (σ × List Ev)) (op : List String) (o : String) :
    List σ × String :=
  let outs := cs.flatMap (fun s => stp s op)
  let ok := (outs.filter (fun x => obs x.2 == o)).map (·.1)
  let dedup := ok.foldl (fun acc s => if acc.contains s then acc else acc ++ [s]) []
  let rendered := (outs.map (fun x => obs x.2)).foldl (fun acc s => if acc.contains s then acc else acc ++ [s]) []
  (dedup.take 64, if outs.isEmpty then "<operation not enabled in the model>" else " | ".intercalate rendered)

def advanceS {σ : Type} [BEq σ] (cs : List σ) (stp : σ → List String → List (σ × String)) (op : List String) (o : String) :
    List σ × String :=
  let outs := cs.flatMap (fun s => stp s op)
  let ok := (outs.filter (fun x => x.2 == o)).map (·.1)
  let dedup := ok.foldl (fun acc s => if acc.contains s then acc else acc ++ [s]) []
  let rendered := (outs.map (·.2)).foldl (fun acc s => if acc.contains s then acc else acc ++ [s]) []
  (dedup.take 64, if outs.isEmpty then "<operation not enabled in the model>" else " | ".intercalate rendered)

structure State where
  sub : List Sub.State := [Sub.init]
  pub : List Pub.State := [Pub.init]
  pair : List Pair.State := [Pair.init]
  push : List Push.State := [Push.init]
  pull : List Pull.State := [Pull.init]
  rep : List Rep.State := [Rep.init .rep Generated.hop_rep]
  mesh : List Mesh.State := [Mesh.init .bus Generated.hop_xstar_drop]
  surv : List Surveyor.State := [Surveyor.init]
  req : List Req.State := [Req.init]
  core : List Core.State := [Core.init]
  stuck : Bool := false      -- after a disagreement the scenario is abandoned until the next `new`

/-- returns (new state, agrees?, expected rendering, branch) or none for an unknown tag -/
def step (s : State) (tag : String) (args : List String) (o : String) : Option (State × Bool × String × String) :=
  let opName := args.headD ""
  if opName == "new" then
    match tag with
    | "m.sub" => some ({ s with sub := [Sub.init], stuck := false }, true, "-", "new")
    | "m.pub" => some ({ s with pub := [Pub.init], stuck := false }, true, "-", "new")
    | "m.pair" => some ({ s with pair := [Pair.init], stuck := false }, true, "-", "new")
    | "m.push" => some ({ s with push := [Push.init], stuck := false }, true, "-", "new")
    | "m.pull" => some ({ s with pull := [Pull.init], stuck := false }, true, "-", "new")
    | "m.surv" => some ({ s with surv := [Surveyor.init], stuck := false }, true, "-", "new")
    | "m.req" => some ({ s with req := [Req.init], stuck := false }, true, "-", "new")
    | "m.core" => some ({ s with core := [Core.init], stuck := false }, true, "-", "new")
    | "m.mesh" =>
      let f := match args.getD 1 "" with
        | "bus" => Mesh.Flavor.bus
        | "xbus" => Mesh.Flavor.xbus
        | "star" => Mesh.Flavor.star
        | _ => Mesh.Flavor.xstar
      some ({ s with mesh := [Mesh.init f Generated.hop_xstar_drop], stuck := false }, true, "-", "new")
    | "m.rep" =>
      let st := match args.getD 1 "" with
        | "rep" => Rep.init .rep Generated.hop_rep
        | "respondent" => Rep.init .respondent Generated.hop_respondent
        | "xrep" => Rep.init .xrep Generated.hop_xrep
        | _ => Rep.init .xrespondent Generated.hop_xrespondent
      some ({ s with rep := [st], stuck := false }, true, "-", "new")
    | _ => none
  else if s.stuck then some (s, true, "(skipped after earlier disagreement)", "skipped") else
  match tag with
  | "m.sub" =>
    let (cs, exp) := advance s.sub Sub.step args o
    if cs.isEmpty then some ({ s with stuck := true }, false, exp, opName) else some ({ s with sub := cs }, true, o, opName)
  | "m.pub" =>
    let (cs, exp) := advance s.pub Pub.step args o
    if cs.isEmpty then some ({ s with stuck := true }, false, exp, opName) else some ({ s with pub := cs }, true, o, opName)
  | "m.pair" =>
    let (cs, exp) := advance s.pair Pair.step args o
    if cs.isEmpty then some ({ s with stuck := true }, false, exp, opName) else some ({ s with pair := cs }, true, o, opName)
  | "m.push" =>
    let (cs, exp) := advance s.push Push.step args o
    if cs.isEmpty then some ({ s with stuck := true }, false, exp, opName) else some ({ s with push := cs }, true, o, opName)
  | "m.pull" =>
    let (cs, exp) := advance s.pull Pull.step args o
    if cs.isEmpty then some ({ s with stuck := true }, false, exp, opName) else some ({ s with pull := cs }, true, o, opName)
  | "m.rep" =>
    let (cs, exp) := advance s.rep Rep.step args o
    if cs.isEmpty then some ({ s with stuck := true }, false, exp, opName) else some ({ s with rep := cs }, true, o, opName)
  | "m.mesh" =>
    let (cs, exp) := advance s.mesh Mesh.step args o
    if cs.isEmpty then some ({ s with stuck := true }, false, exp, opName) else some ({ s with mesh := cs }, true, o, opName)
  | "m.surv" =>
    let (cs, exp) := advance s.surv Surveyor.step args o
    if cs.isEmpty then some ({ s with stuck := true }, false, exp, opName) else some ({ s with surv := cs }, true, o, opName)
  | "m.req" =>
    let (cs, exp) := advance s.req Req.step args o
    if cs.isEmpty then some ({ s with stuck := true }, false, exp, opName) else some ({ s with req := cs }, true, o, opName)
  | "m.core" =>
    let (cs, exp) := advanceS s.core Core.step args o
    if cs.isEmpty then some ({ s with stuck := true }, false, exp, opName) else some ({ s with core := cs }, true, o, opName)
  | _ => none

end Driver.Machines
