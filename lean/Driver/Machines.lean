/-
  Driver/Machines.lean — dispatch of stateful protocol machines for the line protocol.
-/
import Model.Bytes
open Model
namespace Driver.Machines

structure State where
  dummy : Nat := 0

/-- returns (new state, agrees?, expected rendering, branch) or none for an unknown tag -/
def step (s : State) (tag : String) (args : List String) (obs : String) : Option (State × Bool × String × String) :=
  none

end Driver.Machines
