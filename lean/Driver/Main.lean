/-
  Driver/Main.lean — line-protocol driver (core only, linked as `driver`).
  Each input line is   <tag> <arg>* => <observed>
  The driver evaluates the model's executable definition for <tag> on the arguments, using the
  facts regenerated from the Go source (Generated.Facts), and compares with what the
  implementation was observed to do.  Output: one MISMATCH line per disagreement, COUNT lines
  (per tag and per model branch), and a final DONE line.
-/
import Model.Wire
import Model.Hop
import Model.Pool
import Model.Parse
import Model.Device
import Model.Macat
import Model.Opt
import Model.Core
import Model.Wait
import Model.Close
import Model.PipeFacts
import Model.Retry
import Model.DevicePlumb
import Generated.Facts
import Driver.Machines
open Model

namespace Driver

def natArg (s : String) : Nat := s.toNat?.getD 0
def hexArg (s : String) : Bytes := (ofHex s).getD []

def fmtOpt (r : Option (Bytes × Bytes)) : String :=
  match r with
  | none => "drop"
  | some (h, b) => toHexD h ++ " " ++ toHexD b

def protoNumber (const : String) : Nat :=
  match Generated.protoNumbers.find? (fun p => p.1 == const) with
  | some p => p.2
  | none => 0

def poolParams : Pool.Params :=
  { classes := Generated.poolClasses, pick := Generated.poolPick, free := Generated.poolFree,
    fallback := Generated.poolFallbackSize, bodyLen := Generated.newMsgBodyLen,
    bodyCap := Generated.newMsgBodyCap, bsize := Generated.newMsgBsize }

def macatParams : Macat.Params :=
  { escapes := Generated.macatEscapes,
    hexPrefix := if Generated.macatHexFormat == "\\x%02x" then [0x5c, 0x78] else [],
    bin8 := match Generated.macatBins.getD 0 (0, .ff) with | (t, g) => (t.toNat, g),
    bin16 := match Generated.macatBins.getD 1 (0, .ff) with | (t, g) => (t.toNat, g),
    bin32 := (Generated.macatBins.getD 2 (0, .ff)).1.toNat }

def macatFmt (fmt : String) (body : Bytes) : Option Bytes :=
  match fmt with
  | "raw" => some (Macat.fmtRaw body)
  | "ascii" => some (Macat.fmtAscii body)
  | "quoted" => some (Macat.fmtQuoted macatParams body)
  | "msgpack" => some (Macat.fmtMsgpack macatParams body)
  | "no" => some []
  | _ => none

/-- decode what the implementation printed with the decoders the theorems are about -/
def macatDecode (fmt : String) (out : Bytes) : Option Bytes :=
  match fmt with
  | "raw" => some out
  | "quoted" => if out.getLast? == some 0x0a then Macat.unquote out.dropLast else none
  | "msgpack" => match Macat.msgpackDecode out with
    | some (p, []) => some p
    | _ => none
  | _ => none

/-- stateless tags: expected output and the model branch taken -/
def evalStateless (tag : String) (a : List String) : Option (String × String) :=
  match tag, a with
  | "wire.enc", [ipc, h, b] =>
    some (toHexD (Wire.encode (ipc == "1") ⟨hexArg h, hexArg b⟩), "enc")
  | "wire.dec", [ipc, maxrx, s] =>
    let g := if ipc == "1" then Generated.ipcRecvGuard else Generated.connRecvGuard
    let bs := hexArg s
    let (ps, e) := Wire.decodeAll g (ipc == "1") (natArg maxrx) (bs.length + 1) bs
    let es := match e with | .clean => "eof" | .dropped => "dropped" | .partialFrame => "eof"
    some (String.intercalate "," (ps.map toHexD) ++ ";" ++ es, es)
  | "wire.fit", [maxrx, total] =>
    -- does a frame of this total size pass the receive guard read from conn.Recv?
    let r := Wire.rejects Generated.connRecvGuard (natArg total) (natArg maxrx)
    some (if r then "lost" else "delivered", if r then "refused" else "fits")
  | "dev.rt", [_, n, ttl, payload] =>
    -- a chain of n devices is transparent while the connections crossed (n + 1) do not exceed the server's TTL
    -- (Props.C09.deliver_iff along the chain); the test server answers "R:" ++ request
    if natArg n + 1 ≤ natArg ttl then some (toHexD ([0x52, 0x3a] ++ hexArg payload), "delivered") else some ("lost", "over-ttl")
  | "dev.path", [kind, srv, chain, idw, payload] =>
    -- a request through a chain of devices with the pipe ids observed on the real sockets (client side first), then
    -- the raw server's receiver: Model/Device.lean (Props.C09.request_through_devices / server_behind_devices)
    let pair (x : String) : Nat × Nat := match x.splitOn ":" with | [a, b] => (natArg a, natArg b) | _ => (0, 0)
    let ds := if chain == "-" then [] else (chain.splitOn ",").map pair
    let (st, sp) := pair srv
    let site := if kind == "reqrep" then Generated.hop_xrep else Generated.hop_xrespondent
    let atServer (w : Bytes) : Option (Bytes × Bytes) :=
      if kind != "reqrep" && w.length < 4 then none else Hop.recv site st (beEnc 4 sp) w
    let r := (Device.chainReq site ds (hexArg idw ++ hexArg payload)).bind atServer
    some (fmtOpt r, if r.isSome then "through" else "dropped-on-the-way")
  | "dev.back", [n, hdr, reply] =>
    -- the reply, sent by the raw server with the header it received: routed by its first word, then back through the
    -- n devices, then split by the client's raw socket (Props.C09.reply_retraces_request)
    let r := match Device.rawRoute (hexArg hdr) with
      | none => none
      | some (_, h') => match Device.chainRep (natArg n) (Device.wire (h', hexArg reply)) with
        | none => none
        | some (_, w) => Parse.recv .hdr4 0 w
    some (fmtOpt r, if r.isSome then "returned" else "lost")
  | "dev.plumb", [a, b, same] =>
    -- mangos.Device(s1, s2): Model/DevicePlumb.lean (Props.C09.device_joins_exactly_raw_peers)
    let sock (x : String) : Option DevicePlumb.Sock := match x.splitOn ":" with
      | [sf, pr, r] => some ⟨natArg sf, natArg pr, if r == "t" then some true else if r == "f" then some false else none⟩
      | _ => none
    let r := DevicePlumb.plumb (sock a) (sock b) (same == "same")
    some (DevicePlumb.render r, if r.isOk then "joined" else "refused")
  | "dial.persist", [_, _] => some ("redials", "persist")   -- an open dialer whose attempt failed, however it failed, tries again (Props.C14)
  | "opt.origin", [check] => some (if check == "true" then "refused" else "admitted", "origin")   -- the option in force is the policy applied
  | "hs.after-rejects", [_, _] => some ("served", "after-rejects")   -- peers whose handshake is rejected do not delay a well-behaved one (C16)
  | "opt.refused", [_, _] => some ("notraw/none", "refused")       -- a refused operation reports its error and has no effect (C19)
  | "opt.after", [_, _] => some ("received", "after")   -- a queue-length change never makes a connected peer's messages unreceivable
  | "mc.conflict", [_, k] => some (Macat.conflictVerdict (natArg k), "conflict")
  | "ws.enc", [h, b] =>
    -- WebSocket mapping: one binary frame (opcode 2) carrying protocol header then body
    some ("2:" ++ toHexD (hexArg h ++ hexArg b), "frame")
  | "ws.sub", [_] => some ("pair1" ++ ".sp.nanomsg.org", "sub")   -- "<peer-name>.sp.nanomsg.org" (Obl.Proto.ws_subprotocol ties the suffix to ws.go)
  | "lim.fit", [_, _, _, maxrx, total] =>
    -- the same verdict for a limit configured on a real transport by any route (socket, option map, SetOption, late)
    let r := Wire.rejects Generated.connRecvGuard (natArg total) (natArg maxrx)
    some (if r then "lost" else "delivered", if r then "refused" else "fits")
  | "hs.hdr", [proto] => some (toHexD (Wire.header (natArg proto)), "hdr")
  | "hs.chk", [peer, h] =>
    let r := Wire.checkHeaderGen Generated.hsChecks (natArg peer) (hexArg h)
    some (r, r)
  | "hop.rep", [ttl, h0, b] => let r := Hop.recv Generated.hop_rep (natArg ttl) (hexArg h0) (hexArg b); some (fmtOpt r, if r.isSome then "deliver" else "drop")
  | "hop.xrep", [ttl, h0, b] => let r := Hop.recv Generated.hop_xrep (natArg ttl) (hexArg h0) (hexArg b); some (fmtOpt r, if r.isSome then "deliver" else "drop")
  | "hop.respondent", [ttl, h0, b] => let r := Hop.recv Generated.hop_respondent (natArg ttl) (hexArg h0) (hexArg b); some (fmtOpt r, if r.isSome then "deliver" else "drop")
  | "hop.xrespondent", [ttl, h0, b] =>
    -- xrespondent drops bodies shorter than 4 bytes before anything else
    let body := hexArg b
    let r := if body.length < 4 then none else Hop.recv Generated.hop_xrespondent (natArg ttl) (hexArg h0) body
    some (fmtOpt r, if r.isSome then "deliver" else "drop")
  | "hop.xpair1", [ttl, b] => let r := Hop.pair1Recv Generated.hop_xpair1_drop (natArg ttl) (hexArg b); some (fmtOpt r, if r.isSome then "deliver" else "drop")
  | "hop.xstar", [ttl, b] => let r := Hop.starRecv Generated.hop_xstar_drop (natArg ttl) (hexArg b); some (fmtOpt r, if r.isSome then "deliver" else "drop")
  | "parse.plain", [_, b] => let r := Parse.recv .plain 0 (hexArg b); some (fmtOpt r, "deliver")
  | "parse.hdr4", [_, b] => let r := Parse.recv .hdr4 0 (hexArg b); some (fmtOpt r, if r.isSome then "deliver" else "drop")
  | "parse.bus", [pid, b] => let r := Parse.recv .bus (natArg pid) (hexArg b); some (fmtOpt r, "deliver")
  | "parse.sink", [_, b] => let r := Parse.recv .sink 0 (hexArg b); some (fmtOpt r, "drop")
  | "mc.fmt", [fmt, b] =>
    match macatFmt fmt (hexArg b) with
    | some o => some (toHexD o, fmt)
    | none => none
  | "mc.rt", [fmt, b, o] =>
    some (if macatDecode fmt (hexArg o) == some (hexArg b) then "ok" else "bad", fmt ++ "-decode")
  | "mc.dur", [n] =>
    match n.toInt? with
    | some k => some (toString (Macat.bareSeconds k), "seconds")
    | none => none
  | "opt.set", [kind, pkg, opt, ty, val] =>
    -- kind: sock | ctx ; the option is given by its wire name
    let chain := if kind == "ctx" then Opt.contextChain pkg
      else if kind == "dialer" then [("internal/core", "dialer"), ("transport/" ++ pkg, "dialer"), ("transport/" ++ pkg, "options")]
      else if kind == "listener" then [("transport/" ++ pkg, "listener"), ("transport/" ++ pkg, "options")]
      else Opt.socketChain pkg
    let r := Opt.resolve Generated.optTable chain (Opt.constOf Generated.optionNames opt) (Opt.parseVal ty val)
    some (r, r)
  | "ops.table", [proto, op] => let r := Opt.opsTable Generated.protoInfo proto op; some (r, op ++ "-" ++ r)
  | "alloc.get", [next, used] =>
    -- ids in use as a comma-separated list; result: the id handed out and the counter afterwards (mod 2^32)
    let us := if used == "-" then [] else (used.splitOn ",").map natArg
    match Core.allocScan us (us.length + 4) (natArg next) with
    | some (id, nx) => some (s!"{id} {nx % 4294967296}", if natArg next % 2147483648 == 0 then "skip-zero" else if us.contains (natArg next % 2147483648) then "skip-used" else "direct")
    | none => some ("exhausted", "exhausted")
  | "race.run", [_] => some ("done", "done")   -- a stress scenario must run to completion (no deadlock, no panic)
  | "pool.new", [sz] =>
    -- observed: "<len> <hlen> <cap>"; the model gives the admissible capacities (checkPool)
    if sz.isEmpty then none else none
  | _, _ => none

/-- pool.new is a membership check: observed cap must be one the model allows and ≥ sz -/
def checkPool (sz : Nat) (obs : String) : Bool × String :=
  match obs.splitOn " " with
  | [l, hl, c] =>
    let cap := natArg c
    let allowed : List Nat :=
      match Pool.classIdx poolParams sz with
      | some i => let cl := Generated.poolClasses.getD i (0, 0); [cl.1, cl.2]
      | none => [(Pool.newMsg poolParams (Generated.poolFallbackSize.evalI (Pool.env2 "sz" sz "" 0)).toNat).cap]
    (l == "0" && hl == "0" && allowed.contains cap && sz ≤ cap,
      "len=0 hlen=0 cap∈" ++ toString allowed)
  | _ => (false, "len hlen cap")

/-- w.run <pkg> <recv> <fn> <expire> <be> <fnp> <ready> <peers> <giveUp> <t:ev,…|-> => <out> <ms> | blocked :
    the site's parameters come from the source (Generated.waitSites); the observation must be admitted by the model -/
def checkWait (a : List String) (obs : String) : Option (Bool × String × String) :=
  match a with
  | [pkg, recv, fn, expire, be, fnp, ready, peers, giveUp, evs] =>
    match Generated.waitSites.find? (fun w => w.pkg == pkg && w.recv == recv && w.fn == fn) with
    | none => none
    | some w =>
      let site := Wait.siteOf w
      let cfg : Wait.Cfg := { expire := natArg expire, bestEffort := be == "1", failNoPeers := fnp == "1" }
      let st : Wait.Start := { ready := ready == "1", peers := peers == "1" }
      let evl : List (Nat × Wait.WEv) := if evs == "-" then [] else
        (evs.splitOn ",").filterMap (fun x => match x.splitOn ":" with
          | [t, e] => (Wait.wevOf e).map (fun ev => (natArg t, ev))
          | _ => none)
      let r := Wait.run site cfg st evl
      let o : Option (Option (Wait.Out × Nat)) := match obs.splitOn " " with
        | ["blocked"] => some none
        | [x, t] => (Wait.outOf x).map (fun y => some (y, natArg t))
        | _ => none
      let exp := match r with
        | none => "blocked"
        | some (x, t) => s!"{reprStr x} at {t}..{t + Wait.slack}"
      let br := match r with
        | none => "blocked"
        | some (x, t) => reprStr x ++ (if t == 0 then "-immediate" else "-waited") ++ (if site.rearm then "-rearm" else "")
      match o with
      | none => some (false, exp, br)
      | some ob => some (Wait.admits r ob (natArg giveUp), exp, br)
  | _ => none

structure St where
  lines : Nat := 0
  mismatches : Nat := 0
  counts : List (String × Nat) := []
  mach : Machines.State := {}

def bump (cs : List (String × Nat)) (k : String) : List (String × Nat) :=
  match cs.find? (fun p => p.1 == k) with
  | some _ => cs.map (fun p => if p.1 == k then (p.1, p.2 + 1) else p)
  | none => cs ++ [(k, 1)]

def processLine (st : St) (line : String) : St × Option String :=
  let line := line.trimAscii.toString
  if line.isEmpty || line.startsWith "#" then (st, none) else
  let st := { st with lines := st.lines + 1 }
  let (lhs, obs) := match line.splitOn " => " with
    | [l, r] => (l, r)
    | [l] => (l, "")
    | l :: rest => (l, " => ".intercalate rest)
    | [] => ("", "")
  match lhs.splitOn " " with
  | [] => (st, none)
  | tag :: args =>
    if tag == "pool.new" then
      let (ok, exp) := checkPool (natArg (args.headD "0")) obs
      let st := { st with counts := bump st.counts "pool.new" }
      if ok then (st, none) else
        ({ st with mismatches := st.mismatches + 1 },
          some s!"MISMATCH {st.lines} {lhs} expected={exp} observed={obs}")
    else if tag == "cl.check" then
      let what := args.headD ""
      let al := Close.allowed what
      let st := { st with counts := bump (bump st.counts tag) (tag ++ ":" ++ what ++ "=" ++ obs) }
      if al.contains obs then (st, none) else
        ({ st with mismatches := st.mismatches + 1 },
          some s!"MISMATCH {st.lines} {lhs} expected={al} observed={obs}")
    else if tag == "po.check" then
      match args with
      | [transport, _, fact] =>
        let al := PipeFacts.allowed transport fact
        let st := { st with counts := bump (bump st.counts tag) (tag ++ ":" ++ transport ++ ":" ++ fact ++ "=" ++ obs) }
        if al.contains obs then (st, none) else
          ({ st with mismatches := st.mismatches + 1 },
            some s!"MISMATCH {st.lines} {lhs} expected={al} observed={obs}")
      | _ => ({ st with mismatches := st.mismatches + 1 }, some s!"MISMATCH {st.lines} {lhs} expected=<bad arity> observed={obs}")
    else if tag == "er.follow" then
      match args with
      | [_, _, kind] =>
        let st := { st with counts := bump (bump st.counts tag) (tag ++ ":" ++ kind ++ "=" ++ obs) }
        if Retry.admits kind obs then (st, none) else
          ({ st with mismatches := st.mismatches + 1 },
            some s!"MISMATCH {st.lines} {lhs} expected={if kind == "ok" then "ok" else "any result but hang/panic"} observed={obs}")
      | _ => ({ st with mismatches := st.mismatches + 1 }, some s!"MISMATCH {st.lines} {lhs} expected=<bad arity> observed={obs}")
    else if tag == "w.run" then
      match checkWait args obs with
      | some (ok, exp, br) =>
        let st := { st with counts := bump (bump st.counts tag) (tag ++ ":" ++ br) }
        if ok then (st, none) else
          ({ st with mismatches := st.mismatches + 1 },
            some s!"MISMATCH {st.lines} {lhs} expected={exp} observed={obs}")
      | none => ({ st with mismatches := st.mismatches + 1 }, some s!"MISMATCH {st.lines} {lhs} expected=<unknown site or bad arity> observed={obs}")
    else
    match evalStateless tag args with
    | some (exp, br) =>
      let st := { st with counts := bump (bump st.counts tag) (tag ++ ":" ++ br) }
      if exp == obs then (st, none) else
        ({ st with mismatches := st.mismatches + 1 },
          some s!"MISMATCH {st.lines} {lhs} expected={exp} observed={obs}")
    | none =>
      match Machines.step st.mach tag args obs with
      | some (m', ok, exp, br) =>
        let st := { st with mach := m', counts := bump (bump st.counts tag) (tag ++ ":" ++ br) }
        if ok then (st, none) else
          ({ st with mismatches := st.mismatches + 1 },
            some s!"MISMATCH {st.lines} {lhs} expected={exp} observed={obs}")
      | none =>
        ({ st with mismatches := st.mismatches + 1 }, some s!"MISMATCH {st.lines} {lhs} expected=<unknown tag or bad arity> observed={obs}")

partial def loop (h : IO.FS.Stream) (st : St) : IO St := do
  let line ← h.getLine
  if line.isEmpty then return st
  let (st', out) := processLine st line
  match out with
  | some o => IO.println o
  | none => pure ()
  loop h st'

end Driver

def main : IO UInt32 := do
  let stdin ← IO.getStdin
  let st ← Driver.loop stdin {}
  for (k, n) in st.counts do
    IO.println s!"COUNT {k} {n}"
  IO.println s!"DONE lines={st.lines} mismatches={st.mismatches}"
  return (if st.mismatches == 0 then 0 else 1)
