import Model.Bytes
import Model.GExpr
import Model.Wire
