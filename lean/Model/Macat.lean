/-
  Model/Macat.lean — macat's output formats (macat/macat.go: printMsg) and their decoders, and the
  duration option.  Go's strconv.IsPrint on a Latin-1 rune: 0x20–0x7e and 0xa1–0xff except 0xad.
-/
import Model.Bytes
import Model.GExpr
namespace Model
namespace Macat

def isPrint (b : UInt8) : Bool :=
  (0x20 ≤ b.toNat && b.toNat ≤ 0x7e) || (0xa1 ≤ b.toNat && b.toNat != 0xad)

/-- facts regenerated from printMsg -/
structure Params where
  escapes : List (Nat × List Nat)   -- quoted: byte ↦ replacement bytes, in source order
  hexPrefix : List Nat              -- "\\x" before the two hex digits
  bin8 : Nat × GExpr                -- (tag, guard over len) for the 8-bit length form
  bin16 : Nat × GExpr
  bin32 : Nat
deriving Repr

def lenEnv (n : Nat) : Env := fun v => if v = "len" then (n : Int) else 0

def hexDigitLower (n : Nat) : UInt8 := if n < 10 then UInt8.ofNat (48 + n) else UInt8.ofNat (87 + n)

def fmtRaw (body : Bytes) : Bytes := body

def fmtAscii (body : Bytes) : Bytes := body.map (fun b => if isPrint b then b else 0x2e) ++ [0x0a]

def quoteByte (P : Params) (b : UInt8) : Bytes :=
  match P.escapes.find? (fun e => e.1 == b.toNat) with
  | some e => e.2.map UInt8.ofNat
  | none => if isPrint b then [b] else P.hexPrefix.map UInt8.ofNat ++ [hexDigitLower (b.toNat / 16), hexDigitLower (b.toNat % 16)]

def fmtQuoted (P : Params) (body : Bytes) : Bytes := body.flatMap (quoteByte P) ++ [0x0a]

def fmtMsgpack (P : Params) (body : Bytes) : Bytes :=
  let n := body.length
  if P.bin8.2.holds (lenEnv n) then [UInt8.ofNat P.bin8.1, UInt8.ofNat (n % 256)] ++ body
  else if P.bin16.2.holds (lenEnv n) then [UInt8.ofNat P.bin16.1] ++ beEnc 2 n ++ body
  else [UInt8.ofNat P.bin32] ++ beEnc 4 n ++ body

/-- the reference escape table and tags (what a consumer of the formats expects) -/
def refParams : Params :=
  { escapes := [(0x0a, [0x5c, 0x6e]), (0x0d, [0x5c, 0x72]), (0x5c, [0x5c, 0x5c]), (0x22, [0x5c, 0x22])],
    hexPrefix := [0x5c, 0x78],
    bin8 := (0xc4, .lt (.var "len") (.lit 256)),
    bin16 := (0xc5, .lt (.var "len") (.lit 65536)),
    bin32 := 0xc6 }

def hexVal8 (c : UInt8) : Option Nat :=
  if 48 ≤ c.toNat ∧ c.toNat ≤ 57 then some (c.toNat - 48)
  else if 97 ≤ c.toNat ∧ c.toNat ≤ 102 then some (c.toNat - 87)
  else none

/-- decoder of one quoted record (without the trailing newline) -/
def unquote : Bytes → Option Bytes
  | [] => some []
  | 0x5c :: 0x6e :: rest => (unquote rest).map (0x0a :: ·)
  | 0x5c :: 0x72 :: rest => (unquote rest).map (0x0d :: ·)
  | 0x5c :: 0x5c :: rest => (unquote rest).map (0x5c :: ·)
  | 0x5c :: 0x22 :: rest => (unquote rest).map (0x22 :: ·)
  | 0x5c :: 0x78 :: a :: b :: rest =>
    match hexVal8 a, hexVal8 b with
    | some x, some y => (unquote rest).map (UInt8.ofNat (x * 16 + y) :: ·)
    | _, _ => none
  | 0x5c :: _ => none
  | c :: rest => (unquote rest).map (c :: ·)

/-- decoder of one msgpack bin object at the head of a stream: (payload, rest) -/
def msgpackDecode : Bytes → Option (Bytes × Bytes)
  | 0xc4 :: n :: rest => if rest.length < n.toNat then none else some (rest.take n.toNat, rest.drop n.toNat)
  | 0xc5 :: a :: b :: rest =>
    let n := beDec [a, b]
    if rest.length < n then none else some (rest.take n, rest.drop n)
  | 0xc6 :: a :: b :: c :: d :: rest =>
    let n := beDec [a, b, c, d]
    if rest.length < n then none else some (rest.take n, rest.drop n)
  | _ => none

/-- a bare integer option value means seconds (nanoseconds returned) -/
def bareSeconds (n : Int) : Int := n * 1000000000

/-- "conflicting options are rejected": two or more options of one kind (payload: --data / -D / --file / -F; protocol;
    format) are refused whatever their values -/
def conflictVerdict (k : Nat) : String := if k ≥ 2 then "rejected" else "accepted"

theorem conflicts_rejected (k : Nat) (h : 2 ≤ k) : conflictVerdict k = "rejected" := by
  unfold conflictVerdict; simp [h]

end Macat
end Model
