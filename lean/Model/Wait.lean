/-
  Model/Wait.lean — one blocking API call (Send or Recv of any protocol socket / context).

  The implementation's mechanism is uniform (protocol/x*/x*.go, rep, respondent, sub, surveyor): under the socket
  lock the call snapshots the queue channels, arms `time.After(expire)` when `expire > 0` (or takes the always-ready
  `closedQ` when best-effort), pre-checks closed / fail-no-peers, then blocks in a `select` over
  {queue ready, closeQ, timer, sizeQ (queue replaced: reload and retry), noPeerQ}.  REQ does the same with
  `time.AfterFunc` and a condition variable.

  Here a call is a function of
    * the site (`rearm`: the timer is created inside the retry loop and therefore restarted by every
      resize — read from the source by cmd/extract; `hasBE`, `hasFNP`: the options the site implements),
    * the configuration (deadline in ms, best-effort, fail-no-peers),
    * the state it starts in (can complete at once?  any peer connected?), and
    * the timeline of what the world does while it is blocked: (ms since the call began, event).
  The result is `none` (still blocked when the timeline ends) or the outcome and the time it is due.
-/
import Model.Facts
namespace Model
namespace Wait

inductive WEv | ready | closed | resize | nopeers
deriving DecidableEq, Repr

inductive Out | ok | timeout | closed | nopeers
deriving DecidableEq, Repr

structure Site where
  rearm : Bool
  hasBE : Bool
  hasFNP : Bool
deriving DecidableEq, Repr

structure Cfg where
  expire : Nat
  bestEffort : Bool
  failNoPeers : Bool
deriving DecidableEq, Repr

structure Start where
  ready : Bool
  peers : Bool
deriving DecidableEq, Repr

/-- the blocked part: `armed` is when the deadline timer was (last) armed -/
def wait (site : Site) (cfg : Cfg) (armed : Nat) : List (Nat × WEv) → Option (Out × Nat)
  | [] => if 0 < cfg.expire then some (.timeout, armed + cfg.expire) else none
  | (t, e) :: rest =>
    if 0 < cfg.expire ∧ armed + cfg.expire < t then some (.timeout, armed + cfg.expire) else
    match e with
    | .ready => some (.ok, t)
    | .closed => some (.closed, t)
    | .nopeers => if site.hasFNP && cfg.failNoPeers then some (.nopeers, t) else wait site cfg armed rest
    | .resize => wait site cfg (if site.rearm then t else armed) rest

def run (site : Site) (cfg : Cfg) (st : Start) (evs : List (Nat × WEv)) : Option (Out × Nat) :=
  if site.hasFNP && cfg.failNoPeers && !st.peers then some (.nopeers, 0)
  else if st.ready then some (.ok, 0)
  else if site.hasBE && cfg.bestEffort then some (.ok, 0)
  else wait site cfg 0 evs

/-- what a site read from the source is, as a model site -/
def siteOf (w : WaitSite) : Site :=
  { rearm := w.timer == "loop" || w.timer == "loop-func",
    hasBE := w.bestEffort != "none",
    hasFNP := w.failNoPeers != .ff }

/-- upper bound on scheduling / timer latency the correspondence check tolerates, ms -/
def slack : Nat := 250

/-- an observation (outcome, elapsed ms; `none` = still blocked when the harness gave up at `giveUp` ms) is
    admitted when the model yields that outcome no later than observed and not more than `slack` earlier -/
def admits (r : Option (Out × Nat)) (obs : Option (Out × Nat)) (giveUp : Nat) : Bool :=
  match r, obs with
  | none, none => true
  | some (o, t), some (o', t') => o == o' && decide (t ≤ t') && decide (t' ≤ t + slack)
  | some (_, t), none => decide (giveUp < t)        -- due only after the harness stopped looking
  | none, some _ => false

def wevOf : String → Option WEv
  | "ready" => some .ready | "closed" => some .closed | "resize" => some .resize | "nopeers" => some .nopeers
  | _ => none

def outOf : String → Option Out
  | "ok" => some .ok | "timeout" => some .timeout | "closed" => some .closed | "nopeers" => some .nopeers
  | _ => none

end Wait
end Model
