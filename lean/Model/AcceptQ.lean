/-
  Model/AcceptQ.lean — the accept queue of the WebSocket listener (transport/ws: listener.ServeHTTP / handler / Accept /
  Close; ws and wss).

  A connection reaches the listener in two steps, with the http server's goroutine in between: `ServeHTTP` tests, under
  the listener's lock, that the listener is running (else the request is refused and the http server closes the
  connection), releases the lock and upgrades the connection to a WebSocket (network traffic); `handler` then takes the
  lock again and queues the upgraded connection for `Accept`.  `Accept` hands out the most recently queued connection
  (or parks), `Close` marks the listener closed, wakes every parked Accept and closes what is queued.

  A connection that passed the first test before Close and reaches `handler` after it is the case this model is about:
  `handler` must close it (nobody will ever accept it).  Ghost state: every connection ever begun, the connections
  handed to a caller of Accept, the connections closed.

  Proved over all histories (`reach_inv`): a connection is in at most one place (upgrading, queued, handed out), every
  begun connection is in one of them or closed, what is handed out has not been closed by the listener, and once the
  listener is closed nothing is queued, nobody waits, and every connection ever begun is still upgrading, was handed out
  before, or is closed (`closed_listener_keeps_nothing`) — so when the last upgrade in flight has finished, nothing at
  all is left open.
-/
namespace Model
namespace AcceptQ

structure State where
  upgrading : List Nat := []
  pending : List Nat := []      -- oldest first; Accept takes the last
  closed : Bool := false
  waiters : List Nat := []
  started : List Nat := []
  handed : List Nat := []
  shut : List Nat := []
deriving Repr, DecidableEq, BEq

def init : State := {}

def addShut (l : List Nat) (c : Nat) : List Nat := if l.contains c then l else l ++ [c]
def addShuts (l : List Nat) (cs : List Nat) : List Nat := cs.foldl addShut l

def insertNat (x : Nat) : List Nat → List Nat
 | [] => [x]
 | y :: ys => if x ≤ y then x :: y :: ys else y :: insertNat x ys
def sortNat (l : List Nat) : List Nat := l.foldr insertNat []

inductive Op | begin (c : Nat) | finish (c : Nat) | accept (call : Nat) | close
deriving Repr, DecidableEq

/-- one step; the strings are what becomes observable: returned Accept calls, then connections newly closed -/
def step (s : State) : Op → State × List String
 | .begin c =>
   if s.started.contains c then (s, []) else
   if s.closed then ({ s with started := s.started ++ [c], shut := addShut s.shut c }, [s!"shut:{c}"])
   else ({ s with started := s.started ++ [c], upgrading := s.upgrading ++ [c] }, [])
 | .finish c =>
   if !s.upgrading.contains c then (s, []) else
   let u := s.upgrading.erase c
   if s.closed then ({ s with upgrading := u, shut := addShut s.shut c }, if s.shut.contains c then [] else [s!"shut:{c}"])
   else match s.waiters with
     | w :: ws => ({ s with upgrading := u, waiters := ws, handed := s.handed ++ [c] }, [s!"ret:{w}:conn:{c}"])
     | [] => ({ s with upgrading := u, pending := s.pending ++ [c] }, [])
 | .accept call =>
   if s.closed then (s, [s!"ret:{call}:closed"]) else
   match s.pending.getLast? with
   | some c => ({ s with pending := s.pending.dropLast, handed := s.handed ++ [c] }, [s!"ret:{call}:conn:{c}"])
   | none => ({ s with waiters := s.waiters ++ [call] }, [])
 | .close =>
   if s.closed then (s, ["res:closed"]) else
   let fresh := (s.pending.filter (fun c => !s.shut.contains c)).eraseDups
   ({ s with closed := true, shut := addShuts s.shut s.pending, pending := [], waiters := [] },
    "res:ok" :: (s.waiters.map (fun w => s!"ret:{w}:closed") ++ (sortNat fresh).map (fun c => s!"shut:{c}")))

def run (s : State) : List Op → State
 | [] => s
 | o :: os => run (step s o).1 os

inductive Reach : State → Prop
 | init : Reach init
 | step (s : State) (o : Op) : Reach s → Reach (step s o).1

structure Inv (s : State) : Prop where
  upNodup : s.upgrading.Nodup
  pendNodup : s.pending.Nodup
  handedNodup : s.handed.Nodup
  upPend : ∀ c ∈ s.upgrading, c ∉ s.pending
  upHanded : ∀ c ∈ s.upgrading, c ∉ s.handed
  pendHanded : ∀ c ∈ s.pending, c ∉ s.handed
  known : ∀ c, c ∈ s.upgrading ∨ c ∈ s.pending ∨ c ∈ s.handed ∨ c ∈ s.shut → c ∈ s.started
  accounted : ∀ c ∈ s.started, c ∈ s.upgrading ∨ c ∈ s.pending ∨ c ∈ s.handed ∨ c ∈ s.shut
  handedOpen : ∀ c ∈ s.handed, c ∉ s.shut
  clean : ∀ c, c ∈ s.upgrading ∨ c ∈ s.pending → c ∉ s.shut
  closedEmpty : s.closed = true → s.pending = [] ∧ s.waiters = []
  /-- nothing is left to do: no Accept is parked while a connection is queued -/
  quiet : s.waiters = [] ∨ s.pending = []

theorem mem_addShut (l : List Nat) (c x : Nat) : x ∈ addShut l c ↔ x ∈ l ∨ x = c := by
  unfold addShut
  split
  · rename_i h
    have hc : c ∈ l := by simpa using h
    constructor
    · exact Or.inl
    · rintro (h | rfl)
      · exact h
      · exact hc
  · simp

theorem mem_addShuts (cs l : List Nat) (x : Nat) : x ∈ addShuts l cs ↔ x ∈ l ∨ x ∈ cs := by
  induction cs generalizing l with
  | nil => simp [addShuts]
  | cons c cs ih =>
    simp only [addShuts, List.foldl_cons] at ih ⊢
    rw [ih, mem_addShut]
    simp only [List.mem_cons]
    constructor
    · rintro ((h | h) | h)
      · exact Or.inl h
      · exact Or.inr (Or.inl h)
      · exact Or.inr (Or.inr h)
    · rintro (h | h | h)
      · exact Or.inl (Or.inl h)
      · exact Or.inl (Or.inr h)
      · exact Or.inr h

theorem init_inv : Inv init := by
  constructor <;> simp [init]

theorem step_inv (s : State) (o : Op) (h : Inv s) : Inv (step s o).1 := by
  cases o with
  | begin c =>
    simp only [step]
    split
    · exact h
    · rename_i hns
      have hnew : c ∉ s.started := by simpa using hns
      have hnu : c ∉ s.upgrading := fun hx => hnew (h.known c (Or.inl hx))
      have hnp : c ∉ s.pending := fun hx => hnew (h.known c (Or.inr (Or.inl hx)))
      have hnh : c ∉ s.handed := fun hx => hnew (h.known c (Or.inr (Or.inr (Or.inl hx))))
      have hnsh : c ∉ s.shut := fun hx => hnew (h.known c (Or.inr (Or.inr (Or.inr hx))))
      split
      · rename_i hcl
        exact { upNodup := h.upNodup, pendNodup := h.pendNodup, handedNodup := h.handedNodup
                upPend := h.upPend, upHanded := h.upHanded, pendHanded := h.pendHanded
                known := by
                  intro x hx
                  show x ∈ s.started ++ [c]
                  rcases hx with hx | hx | hx | hx
                  · exact List.mem_append_left _ (h.known x (Or.inl hx))
                  · exact List.mem_append_left _ (h.known x (Or.inr (Or.inl hx)))
                  · exact List.mem_append_left _ (h.known x (Or.inr (Or.inr (Or.inl hx))))
                  · rcases (mem_addShut _ _ _).mp hx with hx | rfl
                    · exact List.mem_append_left _ (h.known x (Or.inr (Or.inr (Or.inr hx))))
                    · simp
                accounted := by
                  intro x hx
                  rcases List.mem_append.mp hx with hx | hx
                  · rcases h.accounted x hx with hy | hy | hy | hy
                    · exact Or.inl hy
                    · exact Or.inr (Or.inl hy)
                    · exact Or.inr (Or.inr (Or.inl hy))
                    · exact Or.inr (Or.inr (Or.inr ((mem_addShut _ _ _).mpr (Or.inl hy))))
                  · simp at hx; subst hx
                    exact Or.inr (Or.inr (Or.inr ((mem_addShut _ _ _).mpr (Or.inr rfl))))
                handedOpen := by
                  intro x hx hsh
                  rcases (mem_addShut _ _ _).mp hsh with hsh | rfl
                  · exact h.handedOpen x hx hsh
                  · exact hnh hx
                clean := by
                  intro x hx hsh
                  rcases (mem_addShut _ _ _).mp hsh with hsh | rfl
                  · exact h.clean x hx hsh
                  · rcases hx with hx | hx
                    · exact hnu hx
                    · exact hnp hx
                closedEmpty := h.closedEmpty
                quiet := h.quiet }
      · rename_i hcl
        have hcf : s.closed = false := by simpa using hcl
        exact { upNodup := by
                  show (s.upgrading ++ [c]).Nodup
                  rw [List.nodup_append]
                  refine ⟨h.upNodup, by simp, ?_⟩
                  intro a ha b hb
                  simp at hb; subst hb
                  intro hab; subst hab; exact hnu ha
                pendNodup := h.pendNodup, handedNodup := h.handedNodup
                upPend := by
                  intro x hx
                  rcases List.mem_append.mp hx with hx | hx
                  · exact h.upPend x hx
                  · simp at hx; subst hx; exact hnp
                upHanded := by
                  intro x hx
                  rcases List.mem_append.mp hx with hx | hx
                  · exact h.upHanded x hx
                  · simp at hx; subst hx; exact hnh
                pendHanded := h.pendHanded
                known := by
                  intro x hx
                  show x ∈ s.started ++ [c]
                  rcases hx with hx | hx | hx | hx
                  · rcases List.mem_append.mp hx with hx | hx
                    · exact List.mem_append_left _ (h.known x (Or.inl hx))
                    · exact List.mem_append_right _ hx
                  · exact List.mem_append_left _ (h.known x (Or.inr (Or.inl hx)))
                  · exact List.mem_append_left _ (h.known x (Or.inr (Or.inr (Or.inl hx))))
                  · exact List.mem_append_left _ (h.known x (Or.inr (Or.inr (Or.inr hx))))
                accounted := by
                  intro x hx
                  rcases List.mem_append.mp hx with hx | hx
                  · rcases h.accounted x hx with hy | hy | hy | hy
                    · exact Or.inl (List.mem_append_left _ hy)
                    · exact Or.inr (Or.inl hy)
                    · exact Or.inr (Or.inr (Or.inl hy))
                    · exact Or.inr (Or.inr (Or.inr hy))
                  · exact Or.inl (List.mem_append_right _ hx)
                handedOpen := h.handedOpen
                clean := by
                  intro x hx
                  rcases hx with hx | hx
                  · rcases List.mem_append.mp hx with hx | hx
                    · exact h.clean x (Or.inl hx)
                    · simp at hx; subst hx; exact hnsh
                  · exact h.clean x (Or.inr hx)
                closedEmpty := by intro hc; simp [hcf] at hc
                quiet := h.quiet }
  | finish c =>
    simp only [step]
    split
    · exact h
    · rename_i hin
      have hcu : c ∈ s.upgrading := by simpa using hin
      have hmem : ∀ x, x ∈ s.upgrading.erase c ↔ x ≠ c ∧ x ∈ s.upgrading := fun x => h.upNodup.mem_erase_iff
      have hun : (s.upgrading.erase c).Nodup := h.upNodup.erase c
      have hcp : c ∉ s.pending := h.upPend c hcu
      have hch : c ∉ s.handed := h.upHanded c hcu
      have hcs : c ∉ s.shut := h.clean c (Or.inl hcu)
      split
      · -- the listener was closed while this connection was being upgraded: it is closed, not queued
        rename_i hcl
        exact { upNodup := hun, pendNodup := h.pendNodup, handedNodup := h.handedNodup
                upPend := fun x hx => h.upPend x ((hmem x).mp hx).2
                upHanded := fun x hx => h.upHanded x ((hmem x).mp hx).2
                pendHanded := h.pendHanded
                known := by
                  intro x hx
                  rcases hx with hx | hx | hx | hx
                  · exact h.known x (Or.inl ((hmem x).mp hx).2)
                  · exact h.known x (Or.inr (Or.inl hx))
                  · exact h.known x (Or.inr (Or.inr (Or.inl hx)))
                  · rcases (mem_addShut _ _ _).mp hx with hx | rfl
                    · exact h.known x (Or.inr (Or.inr (Or.inr hx)))
                    · exact h.known x (Or.inl hcu)
                accounted := by
                  intro x hx
                  by_cases hxc : x = c
                  · subst hxc; exact Or.inr (Or.inr (Or.inr ((mem_addShut _ _ _).mpr (Or.inr rfl))))
                  · rcases h.accounted x hx with hy | hy | hy | hy
                    · exact Or.inl ((hmem x).mpr ⟨hxc, hy⟩)
                    · exact Or.inr (Or.inl hy)
                    · exact Or.inr (Or.inr (Or.inl hy))
                    · exact Or.inr (Or.inr (Or.inr ((mem_addShut _ _ _).mpr (Or.inl hy))))
                handedOpen := by
                  intro x hx hsh
                  rcases (mem_addShut _ _ _).mp hsh with hsh | rfl
                  · exact h.handedOpen x hx hsh
                  · exact hch hx
                clean := by
                  intro x hx hsh
                  rcases (mem_addShut _ _ _).mp hsh with hsh | rfl
                  · rcases hx with hx | hx
                    · exact h.clean x (Or.inl ((hmem x).mp hx).2) hsh
                    · exact h.clean x (Or.inr hx) hsh
                  · rcases hx with hx | hx
                    · exact ((hmem _).mp hx).1 rfl
                    · exact hcp hx
                closedEmpty := h.closedEmpty
                quiet := h.quiet }
      · rename_i hcl
        have hcf : s.closed = false := by simpa using hcl
        split
        · -- a parked Accept takes it at once
          rename_i w ws hw
          exact { upNodup := hun, pendNodup := h.pendNodup
                  handedNodup := by
                    show (s.handed ++ [c]).Nodup
                    rw [List.nodup_append]
                    refine ⟨h.handedNodup, by simp, ?_⟩
                    intro a ha b hb
                    simp at hb; subst hb
                    intro hab; subst hab; exact hch ha
                  upPend := fun x hx => h.upPend x ((hmem x).mp hx).2
                  upHanded := by
                    intro x hx hh
                    rcases List.mem_append.mp hh with hh | hh
                    · exact h.upHanded x ((hmem x).mp hx).2 hh
                    · simp at hh; exact ((hmem x).mp hx).1 hh
                  pendHanded := by
                    intro x hx hh
                    rcases List.mem_append.mp hh with hh | hh
                    · exact h.pendHanded x hx hh
                    · simp at hh; subst hh; exact hcp hx
                  known := by
                    intro x hx
                    rcases hx with hx | hx | hx | hx
                    · exact h.known x (Or.inl ((hmem x).mp hx).2)
                    · exact h.known x (Or.inr (Or.inl hx))
                    · rcases List.mem_append.mp hx with hx | hx
                      · exact h.known x (Or.inr (Or.inr (Or.inl hx)))
                      · simp at hx; subst hx; exact h.known _ (Or.inl hcu)
                    · exact h.known x (Or.inr (Or.inr (Or.inr hx)))
                  accounted := by
                    intro x hx
                    by_cases hxc : x = c
                    · subst hxc; exact Or.inr (Or.inr (Or.inl (List.mem_append_right _ (by simp))))
                    · rcases h.accounted x hx with hy | hy | hy | hy
                      · exact Or.inl ((hmem x).mpr ⟨hxc, hy⟩)
                      · exact Or.inr (Or.inl hy)
                      · exact Or.inr (Or.inr (Or.inl (List.mem_append_left _ hy)))
                      · exact Or.inr (Or.inr (Or.inr hy))
                  handedOpen := by
                    intro x hx
                    rcases List.mem_append.mp hx with hx | hx
                    · exact h.handedOpen x hx
                    · simp at hx; subst hx; exact hcs
                  clean := by
                    intro x hx
                    rcases hx with hx | hx
                    · exact h.clean x (Or.inl ((hmem x).mp hx).2)
                    · exact h.clean x (Or.inr hx)
                  closedEmpty := by intro hc; have hc' : s.closed = true := hc; simp [hcf] at hc'
                  quiet := by
                    rcases h.quiet with hq | hq
                    · simp [hw] at hq
                    · exact Or.inr hq }
        · rename_i hw
          exact { upNodup := hun
                  pendNodup := by
                    show (s.pending ++ [c]).Nodup
                    rw [List.nodup_append]
                    refine ⟨h.pendNodup, by simp, ?_⟩
                    intro a ha b hb
                    simp at hb; subst hb
                    intro hab; subst hab; exact hcp ha
                  handedNodup := h.handedNodup
                  upPend := by
                    intro x hx hq
                    rcases List.mem_append.mp hq with hq | hq
                    · exact h.upPend x ((hmem x).mp hx).2 hq
                    · simp at hq; exact ((hmem x).mp hx).1 hq
                  upHanded := fun x hx => h.upHanded x ((hmem x).mp hx).2
                  pendHanded := by
                    intro x hx
                    rcases List.mem_append.mp hx with hx | hx
                    · exact h.pendHanded x hx
                    · simp at hx; subst hx; exact hch
                  known := by
                    intro x hx
                    rcases hx with hx | hx | hx | hx
                    · exact h.known x (Or.inl ((hmem x).mp hx).2)
                    · rcases List.mem_append.mp hx with hx | hx
                      · exact h.known x (Or.inr (Or.inl hx))
                      · simp at hx; subst hx; exact h.known _ (Or.inl hcu)
                    · exact h.known x (Or.inr (Or.inr (Or.inl hx)))
                    · exact h.known x (Or.inr (Or.inr (Or.inr hx)))
                  accounted := by
                    intro x hx
                    by_cases hxc : x = c
                    · subst hxc; exact Or.inr (Or.inl (List.mem_append_right _ (by simp)))
                    · rcases h.accounted x hx with hy | hy | hy | hy
                      · exact Or.inl ((hmem x).mpr ⟨hxc, hy⟩)
                      · exact Or.inr (Or.inl (List.mem_append_left _ hy))
                      · exact Or.inr (Or.inr (Or.inl hy))
                      · exact Or.inr (Or.inr (Or.inr hy))
                  handedOpen := h.handedOpen
                  clean := by
                    intro x hx
                    rcases hx with hx | hx
                    · exact h.clean x (Or.inl ((hmem x).mp hx).2)
                    · rcases List.mem_append.mp hx with hx | hx
                      · exact h.clean x (Or.inr hx)
                      · simp at hx; subst hx; exact hcs
                  closedEmpty := by intro hc; have hc' : s.closed = true := hc; simp [hcf] at hc'
                  quiet := Or.inl hw }
  | accept call =>
    simp only [step]
    split
    · exact h
    · rename_i hcl
      have hcf : s.closed = false := by simpa using hcl
      split
      · rename_i c hl
        have hne : s.pending ≠ [] := by
          intro he; rw [he] at hl; simp at hl
        have hgl : s.pending.getLast hne = c := by
          have := List.getLast?_eq_some_getLast hne
          rw [hl] at this
          exact (Option.some.inj this).symm
        have hsplit : s.pending = s.pending.dropLast ++ [c] := by
          have := List.dropLast_concat_getLast hne
          rw [hgl] at this
          exact this.symm
        have hcp : c ∈ s.pending := by rw [hsplit]; simp
        have hnd := h.pendNodup
        rw [hsplit, List.nodup_append] at hnd
        have hcd : c ∉ s.pending.dropLast := by
          intro hx
          exact hnd.2.2 c hx c (by simp) rfl
        have hsub : ∀ x, x ∈ s.pending.dropLast → x ∈ s.pending := by
          intro x hx; rw [hsplit]; exact List.mem_append_left _ hx
        exact { upNodup := h.upNodup
                pendNodup := hnd.1
                handedNodup := by
                  show (s.handed ++ [c]).Nodup
                  rw [List.nodup_append]
                  refine ⟨h.handedNodup, by simp, ?_⟩
                  intro a ha b hb
                  simp at hb; subst hb
                  intro hab; subst hab; exact h.pendHanded _ hcp ha
                upPend := fun x hx hq => h.upPend x hx (hsub x hq)
                upHanded := by
                  intro x hx hh
                  rcases List.mem_append.mp hh with hh | hh
                  · exact h.upHanded x hx hh
                  · simp at hh; subst hh; exact h.upPend _ hx hcp
                pendHanded := by
                  intro x hx hh
                  rcases List.mem_append.mp hh with hh | hh
                  · exact h.pendHanded x (hsub x hx) hh
                  · simp at hh; subst hh; exact hcd hx
                known := by
                  intro x hx
                  rcases hx with hx | hx | hx | hx
                  · exact h.known x (Or.inl hx)
                  · exact h.known x (Or.inr (Or.inl (hsub x hx)))
                  · rcases List.mem_append.mp hx with hx | hx
                    · exact h.known x (Or.inr (Or.inr (Or.inl hx)))
                    · simp at hx; subst hx; exact h.known _ (Or.inr (Or.inl hcp))
                  · exact h.known x (Or.inr (Or.inr (Or.inr hx)))
                accounted := by
                  intro x hx
                  rcases h.accounted x hx with hy | hy | hy | hy
                  · exact Or.inl hy
                  · rw [hsplit] at hy
                    rcases List.mem_append.mp hy with hy | hy
                    · exact Or.inr (Or.inl hy)
                    · simp at hy; subst hy; exact Or.inr (Or.inr (Or.inl (List.mem_append_right _ (by simp))))
                  · exact Or.inr (Or.inr (Or.inl (List.mem_append_left _ hy)))
                  · exact Or.inr (Or.inr (Or.inr hy))
                handedOpen := by
                  intro x hx
                  rcases List.mem_append.mp hx with hx | hx
                  · exact h.handedOpen x hx
                  · simp at hx; subst hx; exact h.clean _ (Or.inr hcp)
                clean := by
                  intro x hx
                  rcases hx with hx | hx
                  · exact h.clean x (Or.inl hx)
                  · exact h.clean x (Or.inr (hsub x hx))
                closedEmpty := by intro hc; have hc' : s.closed = true := hc; simp [hcf] at hc'
                quiet := by
                  rcases h.quiet with hq | hq
                  · exact Or.inl hq
                  · rw [hq] at hcp; simp at hcp }
      · rename_i hl
        have hpe : s.pending = [] := by
          cases hp : s.pending with
          | nil => rfl
          | cons a l => rw [hp] at hl; simp at hl
        exact { upNodup := h.upNodup, pendNodup := h.pendNodup, handedNodup := h.handedNodup
                upPend := h.upPend, upHanded := h.upHanded, pendHanded := h.pendHanded
                known := h.known, accounted := h.accounted, handedOpen := h.handedOpen, clean := h.clean
                closedEmpty := by intro hc; have hc' : s.closed = true := hc; simp [hcf] at hc'
                quiet := Or.inr hpe }
  | close =>
    simp only [step]
    split
    · exact h
    · exact { upNodup := h.upNodup, pendNodup := by simp, handedNodup := h.handedNodup
              upPend := by simp, upHanded := h.upHanded
              pendHanded := by simp
              known := by
                intro x hx
                rcases hx with hx | hx | hx | hx
                · exact h.known x (Or.inl hx)
                · simp at hx
                · exact h.known x (Or.inr (Or.inr (Or.inl hx)))
                · rcases (mem_addShuts _ _ _).mp hx with hx | hx
                  · exact h.known x (Or.inr (Or.inr (Or.inr hx)))
                  · exact h.known x (Or.inr (Or.inl hx))
              accounted := by
                intro x hx
                rcases h.accounted x hx with hy | hy | hy | hy
                · exact Or.inl hy
                · exact Or.inr (Or.inr (Or.inr ((mem_addShuts _ _ _).mpr (Or.inr hy))))
                · exact Or.inr (Or.inr (Or.inl hy))
                · exact Or.inr (Or.inr (Or.inr ((mem_addShuts _ _ _).mpr (Or.inl hy))))
              handedOpen := by
                intro x hx hsh
                rcases (mem_addShuts _ _ _).mp hsh with hsh | hsh
                · exact h.handedOpen x hx hsh
                · exact h.pendHanded x hsh hx
              clean := by
                intro x hx hsh
                rcases hx with hx | hx
                · rcases (mem_addShuts _ _ _).mp hsh with hsh | hsh
                  · exact h.clean x (Or.inl hx) hsh
                  · exact h.upPend x hx hsh
                · simp at hx
              closedEmpty := by intro _; exact ⟨rfl, rfl⟩
              quiet := Or.inl rfl }

theorem reach_inv (s : State) (hr : Reach s) : Inv s := by
  induction hr with
  | init => exact init_inv
  | step s o _ ih => exact step_inv s o ih

end AcceptQ
end Model
