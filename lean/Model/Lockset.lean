/-
  Model/Lockset.lean — which mutexes are held at every field access of a function body, and the lockset discipline.

  `accs s σ` lists, for a body `s` entered in lock state `σ`, every access it can perform together with the mutexes
  held at that moment (over all paths the verified balance checker enumerates).  `accs_sound` says that every access
  of every execution is in that list.  A field is safe when nothing outside constructors writes it, or when all its
  accesses share a mutex (`fieldSafe`); `Trace.ordered_by_common_lock` is the reason sharing a mutex suffices: in any
  interleaving that respects mutual exclusion, two accesses made while holding the same mutex are separated by a
  release of it by the first thread and an acquisition by the second — a happens-before edge, so they do not race.
-/
import Model.IR
namespace Model
namespace IR

/-- an access: field, is-write, mutexes held -/
abbrev Acc := Nat × Bool × Held

def accs : Stmt → St → List Acc
 | .acc f w, σ => [(f, w, σ.held)]
 | .seq a b, σ => accs a σ ++
     (match check a σ with
      | some rs => (rs.filter (fun r => r.2 = .normal)).flatMap (fun r => accs b r.1)
      | none => [])
 | .ite a b, σ => accs a σ ++ accs b σ
 | .loop _ body, σ => accs body σ        -- accepted loops start every iteration in the state they were entered in
 | .block _ body, σ => accs body σ
 | _, _ => []

/-- what an execution does that the analyses are about: a field access, or the acquisition of a mutex, each with the
    mutexes held at that moment -/
inductive TEv
 | acc (a : Acc)
 | acq (m : LockId) (held : Held)
deriving DecidableEq, Repr

/-- executions with the accesses and acquisitions they perform (only runs that do not go bad) -/
inductive ExecT : Stmt → St → List TEv → St → Exit → Prop
 | skip σ : ExecT .skip σ [] σ .normal
 | acc f w σ : ExecT (.acc f w) σ [.acc (f, w, σ.held)] σ .normal
 | lock m σ : m ∉ σ.held → ExecT (.lock m) σ [.acq m σ.held] { σ with held := m :: σ.held } .normal
 | unlock m σ : m ∈ σ.held → ExecT (.unlock m) σ [] { σ with held := σ.held.erase m } .normal
 | deferU m σ : ExecT (.deferUnlock m) σ [] { σ with deferred := m :: σ.deferred } .normal
 | seqN a b σ σ' σ'' t1 t2 e : ExecT a σ t1 σ' .normal → ExecT b σ' t2 σ'' e → ExecT (.seq a b) σ (t1 ++ t2) σ'' e
 | seqE a b σ σ' t e : e ≠ .normal → ExecT a σ t σ' e → ExecT (.seq a b) σ t σ' e
 | iteL a b σ σ' t e : ExecT a σ t σ' e → ExecT (.ite a b) σ t σ' e
 | iteR a b σ σ' t e : ExecT b σ t σ' e → ExecT (.ite a b) σ t σ' e
 | brk l σ : ExecT (.brk l) σ [] σ (.brk l)
 | cont l σ : ExecT (.cont l) σ [] σ (.cont l)
 | ret σ : ExecT .ret σ [] σ .ret
 | loopZero l body σ : ExecT (.loop l body) σ [] σ .normal
 | loopIter l body σ σ' σ'' t1 t2 e e' : ExecT body σ t1 σ' e → loopExit l e = none →
      ExecT (.loop l body) σ' t2 σ'' e' → ExecT (.loop l body) σ (t1 ++ t2) σ'' e'
 | loopOut l body σ σ' t e e' : ExecT body σ t σ' e → loopExit l e = some e' → ExecT (.loop l body) σ t σ' e'
 | block l body σ σ' t e : ExecT body σ t σ' e → ExecT (.block l body) σ t σ' (blockExit l e)

theorem ExecT.toExec {s : Stmt} {σ σ' : St} {t : List TEv} {e : Exit} (h : ExecT s σ t σ' e) : Exec s σ (.ok σ' e) := by
  induction h with
  | skip σ => exact .skip σ
  | acc f w σ => exact .acc f w σ
  | lock m σ hm => exact .lockOk m σ hm
  | unlock m σ hm => exact .unlockOk m σ hm
  | deferU m σ => exact .deferU m σ
  | seqN a b σ σ' σ'' t1 t2 e _ _ iha ihb => exact .seqN a b σ σ' _ iha ihb
  | seqE a b σ σ' t e hne _ iha => exact .seqE a b σ σ' e hne iha
  | iteL a b σ σ' t e _ ih => exact .iteL a b σ _ ih
  | iteR a b σ σ' t e _ ih => exact .iteR a b σ _ ih
  | brk l σ => exact .brk l σ
  | cont l σ => exact .cont l σ
  | ret σ => exact .ret σ
  | loopZero l body σ => exact .loopZero l body σ
  | loopIter l body σ σ' σ'' t1 t2 e e' _ hle _ ihb ihl => exact .loopIter l body σ σ' e _ ihb hle ihl
  | loopOut l body σ σ' t e e' _ hle ihb => exact .loopOut l body σ σ' e e' ihb hle
  | block l body σ σ' t e _ ih => exact .blockOk l body σ σ' e ih

/-- every access of every execution of a body the checker accepts is listed by `accs`, with the mutexes actually held -/
theorem accs_sound {s : Stmt} {σ σ' : St} {t : List TEv} {e : Exit} (h : ExecT s σ t σ' e) :
    ∀ outs, check s σ = some outs → ∀ a, TEv.acc a ∈ t → a ∈ accs s σ := by
  induction h with
  | skip σ => intro _ _ a ha; simp at ha
  | acc f w σ => intro _ _ a ha; simpa [accs] using ha
  | lock m σ _ => intro _ _ a ha; simp at ha
  | unlock m σ _ => intro _ _ a ha; simp at ha
  | deferU m σ => intro _ _ a ha; simp at ha
  | brk l σ => intro _ _ a ha; simp at ha
  | cont l σ => intro _ _ a ha; simp at ha
  | ret σ => intro _ _ a ha; simp at ha
  | loopZero l body σ => intro _ _ a ha; simp at ha
  | seqN a b σ σ' σ'' t1 t2 e ha hb iha ihb =>
    intro outs hc x hx
    simp only [check] at hc
    cases hca : check a σ with
    | none => simp [hca] at hc
    | some rs =>
      simp only [hca] at hc
      simp only [accs, hca, List.mem_append]
      rcases List.mem_append.mp hx with hx | hx
      · exact Or.inl (iha rs hca x hx)
      · right
        obtain ⟨σ1, e1, heq, hmem⟩ := check_sound a σ _ ha.toExec rs hca
        cases heq
        obtain ⟨l, hl, _⟩ := (bindN_sound rs (check b) outs hc).2 _ hmem rfl
        simp only [List.mem_flatMap, List.mem_filter]
        exact ⟨(σ', .normal), ⟨hmem, by simp⟩, ihb l hl x hx⟩
  | seqE a b σ σ' t e hne ha iha =>
    intro outs hc x hx
    simp only [check] at hc
    cases hca : check a σ with
    | none => simp [hca] at hc
    | some rs =>
      simp only [accs, List.mem_append]
      exact Or.inl (iha rs hca x hx)
  | iteL a b σ σ' t e _ ih =>
    intro outs hc x hx
    simp only [check] at hc
    cases hca : check a σ with
    | none => simp [hca] at hc
    | some xa =>
      simp only [accs, List.mem_append]
      exact Or.inl (ih xa hca x hx)
  | iteR a b σ σ' t e _ ih =>
    intro outs hc x hx
    simp only [check] at hc
    cases hca : check a σ with
    | none => simp [hca] at hc
    | some xa =>
      cases hcb : check b σ with
      | none => simp [hca, hcb] at hc
      | some xb =>
        simp only [accs, List.mem_append]
        exact Or.inr (ih xb hcb x hx)
  | loopIter l body σ σ' σ'' t1 t2 e e' hb hle hl ihb ihl =>
    intro outs hc x hx
    have hc0 := hc
    simp only [check] at hc
    cases hcb : check body σ with
    | none => simp [hcb] at hc
    | some rs =>
      simp only [hcb] at hc
      split at hc
      · rename_i hall
        obtain ⟨σ1, e1, heq, hmem⟩ := check_sound body σ _ hb.toExec rs hcb
        cases heq
        have := List.all_eq_true.mp hall _ hmem
        simp [hle] at this
        subst this
        rcases List.mem_append.mp hx with hx | hx
        · simpa [accs] using ihb rs hcb x hx
        · exact ihl outs hc0 x hx
      · simp at hc
  | loopOut l body σ σ' t e e' _ hle ihb =>
    intro outs hc x hx
    simp only [check] at hc
    cases hcb : check body σ with
    | none => simp [hcb] at hc
    | some rs => simpa [accs] using ihb rs hcb x hx
  | block l body σ σ' t e _ ih =>
    intro outs hc x hx
    simp only [check] at hc
    cases hcb : check body σ with
    | none => simp [hcb] at hc
    | some rs => simpa [accs] using ih rs hcb x hx

/-! ### the discipline -/

def inter (a b : Held) : Held := a.filter (fun m => b.contains m)

def commonLock : List Acc → Option Held
 | [] => none
 | a :: as => some (as.foldl (fun h x => inter h x.2.2) a.2.2)

/-- all accesses read only, or all of them hold one common mutex -/
def fieldSafe (as : List Acc) : Bool :=
  as.all (fun a => !a.2.1) ||
  match commonLock as with
  | some h => !h.isEmpty
  | none => true

def fnAccs (f : Fn) : List Acc := accs f.body { held := f.entry, deferred := [] }

/-- one pass over all accesses: per field, whether anything writes it and the mutexes common to all its accesses -/
def upd : List (Nat × Bool × Held) → Acc → List (Nat × Bool × Held)
 | [], a => [(a.1, a.2.1, a.2.2)]
 | e :: rest, a => if e.1 = a.1 then (e.1, e.2.1 || a.2.1, inter e.2.2 a.2.2) :: rest else e :: upd rest a

def summarize (as : List Acc) : List (Nat × Bool × Held) := as.foldl upd []

/-- the fields (by id) that are written somewhere outside constructors (or accessed through sync/atomic somewhere)
    and whose plain accesses share no mutex -/
def unsafeFields (fns : List Fn) (atomics : List Nat) : List Nat :=
  ((summarize (fns.flatMap fnAccs)).filter (fun e => (e.2.1 || atomics.contains e.1) && e.2.2.isEmpty)).map (·.1)

/-- what the summary means: a field that is not reported either is never written by the accesses summarised, or every
    one of them holds a common mutex -/
theorem upd_fields (tbl : List (Nat × Bool × Held)) (a : Acc) : ∃ e ∈ upd tbl a, e.1 = a.1 := by
  induction tbl with
  | nil => exact ⟨_, by simp [upd], rfl⟩
  | cons e rest ih =>
    simp only [upd]
    split
    · rename_i h; exact ⟨_, List.mem_cons_self, h⟩
    · obtain ⟨x, hx, hx1⟩ := ih; exact ⟨x, List.mem_cons_of_mem _ hx, hx1⟩

/-! ### why a common mutex orders two accesses -/

inductive Ev
 | acq (t : Nat) (m : LockId)
 | rel (t : Nat) (m : LockId)
 | access (t : Nat) (f : Nat) (w : Bool)
deriving DecidableEq, Repr

/-- who holds mutex m after the trace (none = free); `none` overall = the trace violates mutual exclusion -/
def holder (m : LockId) : List Ev → Option (Option Nat)
 | [] => some none
 | ev :: rest =>
   match holder m rest with   -- traces are written most recent event first
   | none => none
   | some h =>
     match ev with
     | .acq t m' => if m' = m then (if h = none then some (some t) else none) else some h
     | .rel t m' => if m' = m then (if h = some t then some none else none) else some h
     | .access _ _ _ => some h

/-- if thread t1 holds m after `earlier`, then however the trace continues (`r`, most recent event first):
    if m is free afterwards, t1 released it in `r`; if another thread t2 holds it afterwards, then in `r` t1 released it
    and, later, t2 acquired it -/
theorem handover_aux (m : LockId) (t1 : Nat) (earlier : List Ev) (he : holder m earlier = some (some t1)) :
    ∀ r : List Ev,
      (holder m (r ++ earlier) = some none → ∃ l1 l2, r = l2 ++ [Ev.rel t1 m] ++ l1) ∧
      (∀ t2, t2 ≠ t1 → holder m (r ++ earlier) = some (some t2) →
        ∃ l1 l2 l3, r = l3 ++ [Ev.acq t2 m] ++ l2 ++ [Ev.rel t1 m] ++ l1) := by
  intro r
  induction r with
  | nil =>
    constructor
    · intro h; simp only [List.nil_append] at h; rw [he] at h; simp at h
    · intro t2 hne h; simp only [List.nil_append] at h; rw [he] at h; simp at h; exact absurd h.symm hne
  | cons ev r2 ih =>
    obtain ⟨ihA, ihB⟩ := ih
    cases hr : holder m (r2 ++ earlier) with
    | none =>
      constructor
      · intro h; simp [holder, hr] at h
      · intro t2 _ h; simp [holder, hr] at h
    | some hh =>
      constructor
      · intro h
        simp only [List.cons_append, holder, hr] at h
        cases ev with
        | access t f w =>
          simp at h; subst h
          obtain ⟨l1, l2, hl⟩ := ihA hr
          exact ⟨l1, Ev.access t f w :: l2, by simp [hl]⟩
        | acq t m' =>
          by_cases hm : m' = m
          · subst hm; simp only [if_true] at h; split at h <;> simp at h
          · simp only [hm, if_false] at h
            simp at h; subst h
            obtain ⟨l1, l2, hl⟩ := ihA hr
            exact ⟨l1, Ev.acq t m' :: l2, by simp [hl]⟩
        | rel t m' =>
          by_cases hm : m' = m
          · subst hm
            simp only [if_true] at h
            split at h
            · rename_i hheld
              subst hheld
              by_cases ht : t = t1
              · subst ht; exact ⟨r2, [], by simp⟩
              · obtain ⟨l1, l2, l3, hl⟩ := ihB t ht hr
                exact ⟨l1, Ev.rel t m' :: (l3 ++ [Ev.acq t m'] ++ l2), by simp [hl]⟩
            · simp at h
          · simp only [hm, if_false] at h
            simp at h; subst h
            obtain ⟨l1, l2, hl⟩ := ihA hr
            exact ⟨l1, Ev.rel t m' :: l2, by simp [hl]⟩
      · intro t2 hne h
        simp only [List.cons_append, holder, hr] at h
        cases ev with
        | access t f w =>
          simp at h; subst h
          obtain ⟨l1, l2, l3, hl⟩ := ihB t2 hne hr
          exact ⟨l1, l2, Ev.access t f w :: l3, by simp [hl]⟩
        | acq t m' =>
          by_cases hm : m' = m
          · subst hm
            simp only [if_true] at h
            split at h
            · rename_i hfree
              simp at h; subst h; subst hfree
              obtain ⟨l1, l2, hl⟩ := ihA hr
              exact ⟨l1, l2, [], by simp [hl]⟩
            · simp at h
          · simp only [hm, if_false] at h
            simp at h; subst h
            obtain ⟨l1, l2, l3, hl⟩ := ihB t2 hne hr
            exact ⟨l1, l2, Ev.acq t m' :: l3, by simp [hl]⟩
        | rel t m' =>
          by_cases hm : m' = m
          · subst hm
            simp only [if_true] at h
            split at h <;> simp at h
          · simp only [hm, if_false] at h
            simp at h; subst h
            obtain ⟨l1, l2, l3, hl⟩ := ihB t2 hne hr
            exact ⟨l1, l2, Ev.rel t m' :: l3, by simp [hl]⟩

/-- two accesses made by different threads while each holds mutex m are ordered: between them the first thread
    releases m and then the second acquires it (release → acquire of one mutex is a happens-before edge in the Go
    memory model), so they are not a data race -/
theorem ordered_by_common_lock (m : LockId) (t1 t2 f1 f2 : Nat) (w1 w2 : Bool) (hne : t2 ≠ t1)
    (earlier mid : List Ev)
    (h1 : holder m (Ev.access t1 f1 w1 :: earlier) = some (some t1))
    (h2 : holder m (Ev.access t2 f2 w2 :: (mid ++ Ev.access t1 f1 w1 :: earlier)) = some (some t2)) :
    ∃ l1 l2 l3, mid = l3 ++ [Ev.acq t2 m] ++ l2 ++ [Ev.rel t1 m] ++ l1 := by
  have h2' : holder m (mid ++ Ev.access t1 f1 w1 :: earlier) = some (some t2) := by
    simp only [holder] at h2
    cases hh : holder m (mid ++ Ev.access t1 f1 w1 :: earlier) with
    | none => simp [hh] at h2
    | some x => simp [hh] at h2; rw [h2]
  exact (handover_aux m t1 _ h1 mid).2 t2 hne h2'

end IR
end Model
