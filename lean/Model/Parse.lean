/-
  Model/Parse.lean — what each pattern's receive path does with an arbitrary body handed up by a pipe
  (the `pipe.receiver` functions), for the patterns without hop counting.
  none = discarded; some (header, body) = handed to the application (raw view).
-/
import Model.Bytes
namespace Model
namespace Parse

inductive Kind where
  | plain        -- xpair, xpull, xsub, pair, pull, xpush?: body delivered untouched, no header
  | hdr4         -- xreq, xsurveyor: first four bytes become the header; shorter bodies are discarded
  | bus          -- xbus: header := big-endian id of the arrival pipe, body untouched
  | sink         -- xpub, xpush, pub, push: everything received is discarded
deriving Repr, DecidableEq

def recv (k : Kind) (pipeId : Nat) (body : Bytes) : Option (Bytes × Bytes) :=
  match k with
  | .plain => some ([], body)
  | .hdr4 => if body.length < 4 then none else some (body.take 4, body.drop 4)
  | .bus => some (beEnc 4 pipeId, body)
  | .sink => none

/-- nothing invented, nothing lost: what is delivered is the received body, split -/
theorem recv_conserves (k : Kind) (pid : Nat) (body h b : Bytes) (hr : recv k pid body = some (h, b)) :
    (k = .bus → h = beEnc 4 pid ∧ b = body) ∧ (k ≠ .bus → h ++ b = body) := by
  cases k <;> simp [recv] at hr ⊢
  · obtain ⟨rfl, rfl⟩ := hr; rfl
  · obtain ⟨_, rfl, rfl⟩ := hr; exact List.take_append_drop 4 body
  · obtain ⟨rfl, rfl⟩ := hr; exact ⟨rfl, rfl⟩

end Parse
end Model
