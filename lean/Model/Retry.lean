/-
  Model/Retry.lean — what a follow-up call after a failed operation may do (cmd/corr/c12.go, `er.follow` lines).
  C12: every follow-up on the same object returns (kind `any`); a follow-up issued after the cause of the failure was
  removed succeeds (kind `ok`: retry of Listen once the address is free or the TLS configuration set, retry of Dial
  once somebody listens, a well-behaved peer after a misbehaving one, …).
-/
namespace Model
namespace Retry

def admits (kind res : String) : Bool :=
  if kind == "ok" then res == "ok" else res != "hang" && res != "panic"

theorem never_hang (kind : String) : admits kind "hang" = false := by
  unfold admits; split <;> decide

theorem never_panic (kind : String) : admits kind "panic" = false := by
  unfold admits; split <;> decide

theorem corrected_must_succeed (res : String) (h : admits "ok" res = true) : res = "ok" := by
  simpa [admits] using h

end Retry
end Model
