/-
  Model/Pool.lean — the size-classed message pool of message.go.
  A buffer is (cap, bsize); `newMsg sz` makes (sz, sz).  sync.Pool is modelled as an
  arbitrary multiset of buffers previously `Put` (Get returns any of them, or `New()`).
-/
import Model.GExpr
namespace Model
namespace Pool

structure Params where
  classes : List (Nat × Nat)   -- (maxbody, size the pool's New allocates)
  pick    : GExpr              -- over sz, maxbody : NewMessage takes the first class with pick
  free    : GExpr              -- over bsize, maxbody : Free puts into the first class with free
  fallback : GExpr             -- newMsg argument when no class is picked (over sz)
  bodyLen : GExpr              -- make([]byte, bodyLen, bodyCap) in newMsg (over sz)
  bodyCap : GExpr
  bsize   : GExpr
deriving Repr

def env2 (a : String) (x : Int) (b : String) (y : Int) : Env := fun n => if n = a then x else if n = b then y else 0

def picks (P : Params) (sz mb : Nat) : Bool := P.pick.holds (env2 "sz" sz "maxbody" mb)
def frees (P : Params) (bsize mb : Nat) : Bool := P.free.holds (env2 "bsize" bsize "maxbody" mb)

structure Buf where
  cap : Nat
  bsize : Nat
deriving Repr, DecidableEq

/-- newMsg(sz) as read from the source -/
def newMsg (P : Params) (sz : Nat) : Buf :=
  { cap := (P.bodyCap.evalI (env2 "sz" sz "" 0)).toNat, bsize := (P.bsize.evalI (env2 "sz" sz "" 0)).toNat }

/-- pool contents: one list of buffers per class -/
abbrev State := List (List Buf)

def classIdx (P : Params) (sz : Nat) : Option Nat := P.classes.findIdx? (fun c => picks P sz c.1)
def freeIdx (P : Params) (b : Buf) : Option Nat := P.classes.findIdx? (fun c => frees P b.bsize c.1)

/-- possible results of NewMessage(sz): any pooled buffer of the picked class, or a fresh one -/
def NewResult (P : Params) (s : State) (sz : Nat) (b : Buf) : Prop :=
  match classIdx P sz with
  | some i => b ∈ s.getD i [] ∨ b = newMsg P ((P.classes.getD i (0,0)).2)
  | none => b = newMsg P (P.fallback.evalI (env2 "sz" sz "" 0)).toNat

/-- Free(b) with refcount reaching 0 -/
def free (P : Params) (s : State) (b : Buf) : State :=
  match freeIdx P b with
  | some i => s.modify i (fun l => b :: l)
  | none => s

/-- obligations on the regenerated facts -/
structure WellFormed (P : Params) : Prop where
  pick_le : ∀ c ∈ P.classes, ∀ sz : Nat, picks P sz c.1 = true → sz ≤ c.1 ∧ sz ≤ c.2
  free_eq : ∀ c ∈ P.classes, ∀ bs : Nat, frees P bs c.1 = true → bs = c.1
  fallback_ge : ∀ sz : Nat, sz ≤ (P.fallback.evalI (env2 "sz" sz "" 0)).toNat
  cap_eq : ∀ sz : Nat, (newMsg P sz).cap = sz ∧ (newMsg P sz).bsize = sz
  len_zero : ∀ sz : Nat, P.bodyLen.evalI (env2 "sz" sz "" 0) = 0

/-- invariant: a buffer pooled under class i has cap = bsize = maxbody_i -/
def Inv (P : Params) (s : State) : Prop :=
  ∀ i, ∀ b ∈ s.getD i [], b.cap = b.bsize ∧ b.bsize = (P.classes.getD i (0,0)).1 ∧ i < P.classes.length

end Pool
end Model
