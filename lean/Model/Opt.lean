/-
  Model/Opt.lean — the uniform option contract, evaluated over the table regenerated from every SetOption
  switch of the library (Generated.optTable) and the handler chains of each kind of object.
-/
import Model.Facts
namespace Model
namespace Opt

inductive Val where
  | int (n : Int)
  | dur (n : Int)          -- time.Duration in nanoseconds
  | bool (b : Bool)
  | other (goType : String)  -- any other dynamic type (string, nil, []byte, uint8, …)
deriving Repr, DecidableEq

def Val.goType : Val → String
  | .int _ => "int"
  | .dur _ => "time.Duration"
  | .bool _ => "bool"
  | .other t => t

def valEnv (v : Val) : Env := fun n =>
  if n = "v" then (match v with | .int k => k | .dur k => k | _ => 0) else 0

/-- outcome of one handler row for a value -/
def rowResult (r : OptRow) (v : Val) : String :=
  if r.ty == "special" then "special"
  else if !r.guard.recognised then "unknown"
  else if v.goType != r.ty then "badvalue"
  else if r.guard.holds (valEnv v) then "ok" else "badvalue"

/-- a handler is identified by (package, receiver type); the first handler of the chain that knows the
    option decides, otherwise the option is unsupported -/
def resolve (table : List OptRow) (chain : List (String × String)) (optConst : String) (v : Val) : String :=
  match chain.findSome? (fun h => table.find? (fun r => r.pkg == h.1 && r.recv == h.2 && r.opt == optConst)) with
  | some r => rowResult r v
  | none => "badoption"

/-- handler chains of the socket kinds (protocol socket, then its default context where the source delegates,
    then the core socket) and of contexts -/
def ctxPkgs : List String := ["rep", "req", "respondent", "sub", "surveyor"]
def wrapperOf (p : String) : String :=
  if ["pair", "pair1", "pub", "pull", "push", "bus", "star"].contains p then "x" ++ p else p

def socketChain (p : String) : List (String × String) :=
  let q := wrapperOf p
  [("protocol/" ++ q, "socket")] ++ (if ctxPkgs.contains q then [("protocol/" ++ q, "context")] else []) ++ [("internal/core", "socket")]
def contextChain (p : String) : List (String × String) := [("protocol/" ++ p, "context")]

def constOf (names : List (String × String)) (opt : String) : String :=
  match names.find? (fun n => n.2 == opt) with
  | some n => n.1
  | none => opt      -- not a documented option name

/-- operations a pattern does not have: the designated error (no side effect) -/
def opsTable (info : List ProtoRow) (proto op : String) : String :=
  let base := if proto.startsWith "x" then (proto.drop 1).toString else proto
  let raw := proto.startsWith "x"
  match op with
  | "recv" => if ["pub", "push"].contains base then "protoop" else "ok"
  | "send" => if ["sub", "pull"].contains base then "protoop" else "ok"
  | "openctx" => if ["req", "rep", "sub", "surveyor", "respondent"].contains proto then "ok" else "protoop"
  | "device-self" =>
    match info.find? (fun r => r.pkg == proto) with
    | some r => if r.self != r.peer then "badproto" else if !raw then "notraw" else "ok"
    | none => "?"
  | _ => "?"

/-- parse the harness's rendering of a value -/
def parseVal (ty val : String) : Val :=
  match ty with
  | "int" => .int (val.toInt?.getD 0)
  | "dur" => .dur (val.toInt?.getD 0)
  | "bool" => .bool (val == "true")
  | t => .other t

end Opt
end Model
