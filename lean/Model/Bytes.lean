/-
  Model/Bytes.lean — byte strings and big-endian integers (core Lean only).
  Go: encoding/binary.BigEndian.PutUint64 / Uint32 / binary.Read(int64).
-/
namespace Model

abbrev Bytes := List UInt8

/-- big-endian encoding of `n mod 256^k` in exactly `k` bytes -/
def beEnc : Nat → Nat → Bytes
  | 0, _ => []
  | k+1, n => beEnc k (n / 256) ++ [UInt8.ofNat (n % 256)]

/-- big-endian value of a byte string -/
def beDec (bs : Bytes) : Nat := bs.foldl (fun acc b => acc * 256 + b.toNat) 0

@[simp] theorem beEnc_length (k n : Nat) : (beEnc k n).length = k := by
  induction k generalizing n with
  | zero => rfl
  | succ k ih => simp [beEnc, ih]

theorem foldl_shift (b : Bytes) (acc : Nat) :
    b.foldl (fun acc x => acc * 256 + x.toNat) acc
      = acc * 256 ^ b.length + b.foldl (fun acc x => acc * 256 + x.toNat) 0 := by
  induction b generalizing acc with
  | nil => simp
  | cons x xs ih =>
    simp only [List.foldl_cons, List.length_cons]
    rw [ih (acc * 256 + x.toNat), ih (0 * 256 + x.toNat)]
    rw [Nat.pow_succ, Nat.add_mul]
    simp [Nat.mul_assoc, Nat.add_assoc, Nat.mul_comm 256]

theorem beDec_append (a b : Bytes) : beDec (a ++ b) = beDec a * 256 ^ b.length + beDec b := by
  unfold beDec
  rw [List.foldl_append, foldl_shift]

theorem toNat_ofNat_mod (n : Nat) : (UInt8.ofNat (n % 256)).toNat = n % 256 := by
  simp [UInt8.toNat_ofNat']

theorem beDec_beEnc (k n : Nat) : beDec (beEnc k n) = n % 256 ^ k := by
  induction k generalizing n with
  | zero => simp [beEnc, beDec, Nat.mod_one]
  | succ k ih =>
    simp only [beEnc]
    rw [beDec_append, ih]
    simp only [List.length_singleton, Nat.pow_one]
    have h1 : beDec [UInt8.ofNat (n % 256)] = n % 256 := by
      simp [beDec]
    rw [h1, Nat.pow_succ]
    -- (n/256 % 256^k) * 256 + n % 256 = n % (256^k * 256)
    rw [Nat.mul_comm (256 ^ k) 256, Nat.mod_mul]
    omega

theorem beDec_beEnc_of_lt (k n : Nat) (h : n < 256 ^ k) : beDec (beEnc k n) = n := by
  rw [beDec_beEnc, Nat.mod_eq_of_lt h]

theorem beDec_lt (bs : Bytes) : beDec bs < 256 ^ bs.length := by
  induction bs with
  | nil => simp [beDec]
  | cons x xs ih =>
    have h : beDec (x :: xs) = beDec [x] * 256 ^ xs.length + beDec xs := beDec_append [x] xs
    rw [h]
    have hx : beDec [x] = x.toNat := by simp [beDec]
    have hx2 : x.toNat < 256 := UInt8.toNat_lt x
    rw [hx, List.length_cons, Nat.pow_succ]
    have : x.toNat * 256 ^ xs.length + 256 ^ xs.length ≤ 256 * 256 ^ xs.length := by
      have : (x.toNat + 1) * 256 ^ xs.length ≤ 256 * 256 ^ xs.length :=
        Nat.mul_le_mul_right _ (by omega)
      rw [Nat.add_mul, Nat.one_mul] at this; exact this
    rw [Nat.mul_comm (256 ^ xs.length) 256]
    omega

def hexDigit (n : Nat) : Char :=
  if n < 10 then Char.ofNat (48 + n) else Char.ofNat (87 + n)

def toHex (bs : Bytes) : String :=
  String.ofList (bs.flatMap fun b => [hexDigit (b.toNat / 16), hexDigit (b.toNat % 16)])

def hexVal (c : Char) : Option Nat :=
  if '0' ≤ c ∧ c ≤ '9' then some (c.toNat - 48)
  else if 'a' ≤ c ∧ c ≤ 'f' then some (c.toNat - 87)
  else if 'A' ≤ c ∧ c ≤ 'F' then some (c.toNat - 55)
  else none

def ofHexChars : List Char → Option Bytes
  | [] => some []
  | [_] => none
  | a :: b :: rest =>
    match hexVal a, hexVal b, ofHexChars rest with
    | some x, some y, some r => some (UInt8.ofNat (x * 16 + y) :: r)
    | _, _, _ => none

/-- "-" denotes the empty string in the line protocol -/
def ofHex (s : String) : Option Bytes :=
  if s = "-" then some [] else ofHexChars s.toList

def toHexD (bs : Bytes) : String := if bs.isEmpty then "-" else toHex bs

end Model
