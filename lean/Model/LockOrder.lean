/-
  Model/LockOrder.lean — "acquire b while holding a" edges of a function body, a rank witness for their acyclicity, and
  why a rank excludes a wait-for cycle.
-/
import Model.IR
import Model.Lockset
namespace Model
namespace IR

/-- the pairs (held, acquired) over all paths of a body entered in state σ; calls into locking library functions
    (also through library interfaces) have been expanded to lock;unlock pairs by the generator, so edges through calls
    are included -/
def edges : Stmt → St → List (LockId × LockId)
 | .lock m, σ => σ.held.map (fun h => (h, m))
 | .seq a b, σ => edges a σ ++
     (match check a σ with
      | some rs => (rs.filter (fun r => r.2 = .normal)).flatMap (fun r => edges b r.1)
      | none => [])
 | .ite a b, σ => edges a σ ++ edges b σ
 | .loop _ body, σ => edges body σ
 | .block _ body, σ => edges body σ
 | _, _ => []

/-- every acquisition performed by any execution of an accepted body, while holding h, is an edge (h, m) of `edges` -/
theorem edges_sound {s : Stmt} {σ σ' : St} {t : List TEv} {e : Exit} (h : ExecT s σ t σ' e) :
    ∀ outs, check s σ = some outs → ∀ m H, TEv.acq m H ∈ t → ∀ x ∈ H, (x, m) ∈ edges s σ := by
  induction h with
  | skip σ => intro _ _ m H hm; simp at hm
  | acc f w σ => intro _ _ m H hm; simp at hm
  | lock m0 σ _ =>
    intro _ _ m H hm x hx
    simp only [List.mem_singleton, TEv.acq.injEq] at hm
    obtain ⟨rfl, rfl⟩ := hm
    simp only [edges, List.mem_map]
    exact ⟨x, hx, rfl⟩
  | unlock m0 σ _ => intro _ _ m H hm; simp at hm
  | deferU m0 σ => intro _ _ m H hm; simp at hm
  | brk l σ => intro _ _ m H hm; simp at hm
  | cont l σ => intro _ _ m H hm; simp at hm
  | ret σ => intro _ _ m H hm; simp at hm
  | loopZero l body σ => intro _ _ m H hm; simp at hm
  | seqN a b σ σ' σ'' t1 t2 e ha hb iha ihb =>
    intro outs hc m H hm x hx
    simp only [check] at hc
    cases hca : check a σ with
    | none => simp [hca] at hc
    | some rs =>
      simp only [hca] at hc
      simp only [edges, hca, List.mem_append]
      rcases List.mem_append.mp hm with hm | hm
      · exact Or.inl (iha rs hca m H hm x hx)
      · right
        obtain ⟨σ1, e1, heq, hmem⟩ := check_sound a σ _ ha.toExec rs hca
        cases heq
        obtain ⟨l, hl, _⟩ := (bindN_sound rs (check b) outs hc).2 _ hmem rfl
        simp only [List.mem_flatMap, List.mem_filter]
        exact ⟨(σ', .normal), ⟨hmem, by simp⟩, ihb l hl m H hm x hx⟩
  | seqE a b σ σ' t e hne ha iha =>
    intro outs hc m H hm x hx
    simp only [check] at hc
    cases hca : check a σ with
    | none => simp [hca] at hc
    | some rs =>
      simp only [edges, List.mem_append]
      exact Or.inl (iha rs hca m H hm x hx)
  | iteL a b σ σ' t e _ ih =>
    intro outs hc m H hm x hx
    simp only [check] at hc
    cases hca : check a σ with
    | none => simp [hca] at hc
    | some xa =>
      simp only [edges, List.mem_append]
      exact Or.inl (ih xa hca m H hm x hx)
  | iteR a b σ σ' t e _ ih =>
    intro outs hc m H hm x hx
    simp only [check] at hc
    cases hca : check a σ with
    | none => simp [hca] at hc
    | some xa =>
      cases hcb : check b σ with
      | none => simp [hca, hcb] at hc
      | some xb =>
        simp only [edges, List.mem_append]
        exact Or.inr (ih xb hcb m H hm x hx)
  | loopIter l body σ σ' σ'' t1 t2 e e' hb hle hl ihb ihl =>
    intro outs hc m H hm x hx
    have hc0 := hc
    simp only [check] at hc
    cases hcb : check body σ with
    | none => simp [hcb] at hc
    | some rs =>
      simp only [hcb] at hc
      split at hc
      · rename_i hall
        obtain ⟨σ1, e1, heq, hmem⟩ := check_sound body σ _ hb.toExec rs hcb
        cases heq
        have := List.all_eq_true.mp hall _ hmem
        simp [hle] at this
        subst this
        rcases List.mem_append.mp hm with hm | hm
        · simpa [edges] using ihb rs hcb m H hm x hx
        · exact ihl outs hc0 m H hm x hx
      · simp at hc
  | loopOut l body σ σ' t e e' _ hle ihb =>
    intro outs hc m H hm x hx
    simp only [check] at hc
    cases hcb : check body σ with
    | none => simp [hcb] at hc
    | some rs => simpa [edges] using ihb rs hcb m H hm x hx
  | block l body σ σ' t e _ ih =>
    intro outs hc m H hm x hx
    simp only [check] at hc
    cases hcb : check body σ with
    | none => simp [hcb] at hc
    | some rs => simpa [edges] using ih rs hcb m H hm x hx

def fnEdges (f : Fn) : List (LockId × LockId) := edges f.body { held := f.entry, deferred := [] }

def rankOf (r : List (LockId × Nat)) (m : LockId) : Nat :=
  match r.find? (fun p => p.1 == m) with
  | some p => p.2
  | none => 0

/-- every edge goes strictly upward in rank -/
def rankOK (r : List (LockId × Nat)) (es : List (LockId × LockId)) : Bool :=
  es.all (fun e => decide (rankOf r e.1 < rankOf r e.2))

/-- witness generator (longest-path layering by repeated relaxation); only `rankOK` of its result matters -/
def relax (es : List (LockId × LockId)) (r : List (LockId × Nat)) : List (LockId × Nat) :=
  r.map (fun p => (p.1, es.foldl (fun acc e => if e.2 == p.1 then max acc (rankOf r e.1 + 1) else acc) p.2))

def topo (locks : List LockId) (es : List (LockId × LockId)) : List (LockId × Nat) :=
  (List.range (locks.length + 1)).foldl (fun r _ => relax es r) (locks.map (fun m => (m, 0)))

/-- consecutive edges: each thread waits for the mutex the next one holds -/
def Chain : List (LockId × LockId) → Prop
 | [] => True
 | [_] => True
 | e :: e' :: rest => e.2 = e'.1 ∧ Chain (e' :: rest)

theorem chain_rank (r : List (LockId × Nat)) (es : List (LockId × LockId)) (hok : rankOK r es = true) :
    ∀ (c : List (LockId × LockId)) (e0 : LockId × LockId), (∀ e ∈ e0 :: c, e ∈ es) → Chain (e0 :: c) →
      rankOf r e0.1 < rankOf r ((e0 :: c).getLast (by simp)).2 := by
  intro c
  induction c with
  | nil =>
    intro e0 hmem _
    have := List.all_eq_true.mp hok e0 (hmem e0 (by simp))
    simpa using this
  | cons e1 rest ih =>
    intro e0 hmem hch
    have h0 := List.all_eq_true.mp hok e0 (hmem e0 (by simp))
    simp only [decide_eq_true_eq] at h0
    obtain ⟨hlink, hrest⟩ := hch
    have := ih e1 (fun e he => hmem e (List.mem_cons_of_mem _ he)) hrest
    rw [hlink] at h0
    simp only [List.getLast_cons (List.cons_ne_nil e1 rest)]
    omega

/-- no wait-for cycle: there is no non-empty chain of edges (thread i holds `e.1` and waits for `e.2`, which the next
    thread holds) that closes on itself, when every edge goes up in rank -/
theorem no_wait_cycle (r : List (LockId × Nat)) (es : List (LockId × LockId)) (hok : rankOK r es = true)
    (e0 : LockId × LockId) (c : List (LockId × LockId)) (hmem : ∀ e ∈ e0 :: c, e ∈ es) (hch : Chain (e0 :: c))
    (hclose : ((e0 :: c).getLast (by simp)).2 = e0.1) : False := by
  have := chain_rank r es hok c e0 hmem hch
  rw [hclose] at this
  omega

end IR
end Model
