/-
  Model/LockOrder.lean — "acquire b while holding a" edges of a function body, a rank witness for their acyclicity, and
  why a rank excludes a wait-for cycle.
-/
import Model.IR
namespace Model
namespace IR

/-- the pairs (held, acquired) over all paths of a body entered in state σ; calls into locking library functions
    (also through library interfaces) have been expanded to lock;unlock pairs by the generator, so edges through calls
    are included -/
def edges : Stmt → St → List (LockId × LockId)
 | .lock m, σ => σ.held.map (fun h => (h, m))
 | .seq a b, σ => edges a σ ++
     (match check a σ with
      | some rs => (rs.filter (fun r => r.2 = .normal)).flatMap (fun r => edges b r.1)
      | none => [])
 | .ite a b, σ => edges a σ ++ edges b σ
 | .loop _ body, σ => edges body σ
 | .block _ body, σ => edges body σ
 | _, _ => []

def fnEdges (f : Fn) : List (LockId × LockId) := edges f.body { held := f.entry, deferred := [] }

def rankOf (r : List (LockId × Nat)) (m : LockId) : Nat :=
  match r.find? (fun p => p.1 == m) with
  | some p => p.2
  | none => 0

/-- every edge goes strictly upward in rank -/
def rankOK (r : List (LockId × Nat)) (es : List (LockId × LockId)) : Bool :=
  es.all (fun e => decide (rankOf r e.1 < rankOf r e.2))

/-- witness generator (longest-path layering by repeated relaxation); only `rankOK` of its result matters -/
def relax (es : List (LockId × LockId)) (r : List (LockId × Nat)) : List (LockId × Nat) :=
  r.map (fun p => (p.1, es.foldl (fun acc e => if e.2 == p.1 then max acc (rankOf r e.1 + 1) else acc) p.2))

def topo (locks : List LockId) (es : List (LockId × LockId)) : List (LockId × Nat) :=
  (List.range (locks.length + 1)).foldl (fun r _ => relax es r) (locks.map (fun m => (m, 0)))

/-- consecutive edges: each thread waits for the mutex the next one holds -/
def Chain : List (LockId × LockId) → Prop
 | [] => True
 | [_] => True
 | e :: e' :: rest => e.2 = e'.1 ∧ Chain (e' :: rest)

theorem chain_rank (r : List (LockId × Nat)) (es : List (LockId × LockId)) (hok : rankOK r es = true) :
    ∀ (c : List (LockId × LockId)) (e0 : LockId × LockId), (∀ e ∈ e0 :: c, e ∈ es) → Chain (e0 :: c) →
      rankOf r e0.1 < rankOf r ((e0 :: c).getLast (by simp)).2 := by
  intro c
  induction c with
  | nil =>
    intro e0 hmem _
    have := List.all_eq_true.mp hok e0 (hmem e0 (by simp))
    simpa using this
  | cons e1 rest ih =>
    intro e0 hmem hch
    have h0 := List.all_eq_true.mp hok e0 (hmem e0 (by simp))
    simp only [decide_eq_true_eq] at h0
    obtain ⟨hlink, hrest⟩ := hch
    have := ih e1 (fun e he => hmem e (List.mem_cons_of_mem _ he)) hrest
    rw [hlink] at h0
    simp only [List.getLast_cons (List.cons_ne_nil e1 rest)]
    omega

/-- no wait-for cycle: there is no non-empty chain of edges (thread i holds `e.1` and waits for `e.2`, which the next
    thread holds) that closes on itself, when every edge goes up in rank -/
theorem no_wait_cycle (r : List (LockId × Nat)) (es : List (LockId × LockId)) (hok : rankOK r es = true)
    (e0 : LockId × LockId) (c : List (LockId × LockId)) (hmem : ∀ e ∈ e0 :: c, e ∈ es) (hch : Chain (e0 :: c))
    (hclose : ((e0 :: c).getLast (by simp)).2 = e0.1) : False := by
  have := chain_rank r es hok c e0 hmem hch
  rw [hclose] at this
  omega

end IR
end Model
