/-
  Model/IR.lean — structured lock IR of a Go function body and the verified lock-balance checker.

  cmd/irgen translates every function of the library into a `Stmt`: mutex operations are named by the type-checker's
  identity of the mutex (struct type + field path), branches of if / switch / select become `ite`, for / range become
  `loop`, switch / select bodies and functions with `defer` are `block`s that an unlabelled `break` (or `return`)
  leaves, `defer x.Unlock()` is `deferUnlock`.  A call to a function that itself takes lock m is `seq (lock m)
  (unlock m)` at the call site; a call to a helper documented to run with m held, and `cond.Wait()`, is
  `seq (unlock m) (lock m)`.

  `Exec` is the big-step semantics (any branch may be taken, a loop runs any number of times).  The outcome `bad` is
  a self-deadlock (locking a mutex the goroutine already holds — sync.Mutex is not reentrant), or unlocking a mutex it
  does not hold.  `balanced` accepts a body only if no execution goes bad and every execution leaves the function —
  by return or by falling off the end, after the deferred unlocks have run — holding nothing.  `balanced_sound` is
  the theorem that this is what the checker establishes.
-/
namespace Model
namespace IR

abbrev LockId := Nat
abbrev Held := List LockId

/-- held mutexes and pending deferred unlocks (most recent first) -/
structure St where
  held : Held
  deferred : List LockId
deriving DecidableEq, Repr

inductive Exit | normal | brk (l : Nat) | cont (l : Nat) | ret
deriving DecidableEq, Repr

inductive Stmt
 | skip
 | lock (m : LockId) | unlock (m : LockId) | deferUnlock (m : LockId)
 | seq (a b : Stmt) | ite (a b : Stmt)
 | loop (l : Nat) (body : Stmt)
 | block (l : Nat) (body : Stmt)
 | brk (l : Nat) | cont (l : Nat) | ret
 | abort                 -- panic: the process terminates here (no execution continues)
 | acc (f : Nat) (w : Bool)   -- a plain (non-atomic) read or write of struct field f
deriving Repr, DecidableEq

inductive Out | ok (σ : St) (e : Exit) | bad
deriving DecidableEq, Repr

/-- `none`: iterate again; `some e`: the loop ends with exit `e` -/
def loopExit (l : Nat) : Exit → Option Exit
 | .normal => none
 | .cont l' => if l' = l then none else some (.cont l')
 | .brk l' => if l' = l then some .normal else some (.brk l')
 | .ret => some .ret

def blockExit (l : Nat) : Exit → Exit
 | .brk l' => if l' = l then .normal else .brk l'
 | e => e

inductive Exec : Stmt → St → Out → Prop
 | skip σ : Exec .skip σ (.ok σ .normal)
 | acc f w σ : Exec (.acc f w) σ (.ok σ .normal)
 | lockOk m σ : m ∉ σ.held → Exec (.lock m) σ (.ok { σ with held := m :: σ.held } .normal)
 | lockBad m σ : m ∈ σ.held → Exec (.lock m) σ .bad
 | unlockOk m σ : m ∈ σ.held → Exec (.unlock m) σ (.ok { σ with held := σ.held.erase m } .normal)
 | unlockBad m σ : m ∉ σ.held → Exec (.unlock m) σ .bad
 | deferU m σ : Exec (.deferUnlock m) σ (.ok { σ with deferred := m :: σ.deferred } .normal)
 | seqN a b σ σ' o : Exec a σ (.ok σ' .normal) → Exec b σ' o → Exec (.seq a b) σ o
 | seqE a b σ σ' e : e ≠ .normal → Exec a σ (.ok σ' e) → Exec (.seq a b) σ (.ok σ' e)
 | seqBad a b σ : Exec a σ .bad → Exec (.seq a b) σ .bad
 | iteL a b σ o : Exec a σ o → Exec (.ite a b) σ o
 | iteR a b σ o : Exec b σ o → Exec (.ite a b) σ o
 | brk l σ : Exec (.brk l) σ (.ok σ (.brk l))
 | cont l σ : Exec (.cont l) σ (.ok σ (.cont l))
 | ret σ : Exec .ret σ (.ok σ .ret)
 | loopZero l body σ : Exec (.loop l body) σ (.ok σ .normal)
 | loopIter l body σ σ' e o : Exec body σ (.ok σ' e) → loopExit l e = none →
      Exec (.loop l body) σ' o → Exec (.loop l body) σ o
 | loopOut l body σ σ' e e' : Exec body σ (.ok σ' e) → loopExit l e = some e' →
      Exec (.loop l body) σ (.ok σ' e')
 | loopBad l body σ : Exec body σ .bad → Exec (.loop l body) σ .bad
 | blockOk l body σ σ' e : Exec body σ (.ok σ' e) → Exec (.block l body) σ (.ok σ' (blockExit l e))
 | blockBad l body σ : Exec body σ .bad → Exec (.block l body) σ .bad

/-- abstract result: the possible (state, exit) pairs; `none` = some execution may go bad -/
def bindN : List (St × Exit) → (St → Option (List (St × Exit))) → Option (List (St × Exit))
 | [], _ => some []
 | r :: rs, k =>
    match bindN rs k with
    | none => none
    | some accl =>
      if r.2 = .normal then
        match k r.1 with
        | none => none
        | some l => some (l ++ accl)
      else some (r :: accl)

def check : Stmt → St → Option (List (St × Exit))
 | .skip, σ => some [(σ, .normal)]
 | .acc _ _, σ => some [(σ, .normal)]
 | .lock m, σ => if m ∈ σ.held then none else some [({ σ with held := m :: σ.held }, .normal)]
 | .unlock m, σ => if m ∈ σ.held then some [({ σ with held := σ.held.erase m }, .normal)] else none
 | .deferUnlock m, σ => some [({ σ with deferred := m :: σ.deferred }, .normal)]
 | .seq a b, σ => match check a σ with
     | none => none
     | some rs => bindN rs (check b)
 | .ite a b, σ => match check a σ, check b σ with
     | some x, some y => some (x ++ y)
     | _, _ => none
 | .brk l, σ => some [(σ, .brk l)]
 | .cont l, σ => some [(σ, .cont l)]
 | .ret, σ => some [(σ, .ret)]
 | .abort, _ => some []
 | .loop l body, σ => match check body σ with
     | none => none
     | some rs =>
        -- an exit that iterates again must leave held mutexes and pending defers as they were
        if rs.all (fun r => match loopExit l r.2 with | none => decide (r.1 = σ) | some _ => true) then
          some ((σ, .normal) :: rs.filterMap (fun r => (loopExit l r.2).map (fun e => (r.1, e))))
        else none
 | .block l body, σ => match check body σ with
     | none => none
     | some rs => some (rs.map (fun r => (r.1, blockExit l r.2)))

theorem bindN_sound (rs : List (St × Exit)) (k : St → Option (List (St × Exit)))
    (out : List (St × Exit)) (hb : bindN rs k = some out) :
    (∀ r ∈ rs, r.2 ≠ .normal → r ∈ out) ∧
    (∀ r ∈ rs, r.2 = .normal → ∃ l, k r.1 = some l ∧ ∀ x ∈ l, x ∈ out) := by
  induction rs generalizing out with
  | nil => simp
  | cons r rs ih =>
    simp only [bindN] at hb
    cases hacc : bindN rs k with
    | none => simp [hacc] at hb
    | some accl =>
      have ih' := ih accl hacc
      simp only [hacc] at hb
      by_cases hn : r.2 = .normal
      · simp only [hn, if_true] at hb
        cases hk : k r.1 with
        | none => simp [hk] at hb
        | some l =>
          simp only [hk, Option.some.injEq] at hb
          subst hb
          constructor
          · intro x hx hne
            rcases List.mem_cons.mp hx with rfl | hx
            · exact absurd hn hne
            · exact List.mem_append_right _ (ih'.1 x hx hne)
          · intro x hx hxn
            rcases List.mem_cons.mp hx with rfl | hx
            · exact ⟨l, hk, fun y hy => List.mem_append_left _ hy⟩
            · obtain ⟨l', hl', hsub⟩ := ih'.2 x hx hxn
              exact ⟨l', hl', fun y hy => List.mem_append_right _ (hsub y hy)⟩
      · simp only [hn, if_false, Option.some.injEq] at hb
        subst hb
        constructor
        · intro x hx hne
          rcases List.mem_cons.mp hx with rfl | hx
          · exact List.mem_cons_self
          · exact List.mem_cons_of_mem _ (ih'.1 x hx hne)
        · intro x hx hxn
          rcases List.mem_cons.mp hx with rfl | hx
          · exact absurd hxn hn
          · obtain ⟨l', hl', hsub⟩ := ih'.2 x hx hxn
            exact ⟨l', hl', fun y hy => List.mem_cons_of_mem _ (hsub y hy)⟩

/-- every execution of `s` from `σ` is one of the outcomes the checker lists (and none goes bad) -/
theorem check_sound : ∀ (s : Stmt) (σ : St) (o : Out), Exec s σ o →
    ∀ outs, check s σ = some outs → ∃ σ' e, o = .ok σ' e ∧ (σ', e) ∈ outs := by
  intro s σ o hex
  induction hex with
  | skip σ => intro outs hc; simp [check] at hc; subst hc; exact ⟨σ, .normal, rfl, by simp⟩
  | acc f w σ => intro outs hc; simp [check] at hc; subst hc; exact ⟨σ, .normal, rfl, by simp⟩
  | lockOk m σ hm => intro outs hc; simp [check, hm] at hc; subst hc; exact ⟨_, _, rfl, by simp⟩
  | lockBad m σ hm => intro outs hc; simp [check, hm] at hc
  | unlockOk m σ hm => intro outs hc; simp [check, hm] at hc; subst hc; exact ⟨_, _, rfl, by simp⟩
  | unlockBad m σ hm => intro outs hc; simp [check, hm] at hc
  | deferU m σ => intro outs hc; simp [check] at hc; subst hc; exact ⟨_, _, rfl, by simp⟩
  | seqN a b σ σ' o _ _ iha ihb =>
    intro outs hc
    simp only [check] at hc
    cases hca : check a σ with
    | none => simp [hca] at hc
    | some rs =>
      simp only [hca] at hc
      obtain ⟨h1, e1, heq, hmem⟩ := iha rs hca
      cases heq
      obtain ⟨l, hl, hsub⟩ := (bindN_sound rs (check b) outs hc).2 _ hmem rfl
      obtain ⟨h2, e2, heq2, hmem2⟩ := ihb l hl
      exact ⟨h2, e2, heq2, hsub _ hmem2⟩
  | seqE a b σ σ' e hne _ iha =>
    intro outs hc
    simp only [check] at hc
    cases hca : check a σ with
    | none => simp [hca] at hc
    | some rs =>
      simp only [hca] at hc
      obtain ⟨h1, e1, heq, hmem⟩ := iha rs hca
      cases heq
      exact ⟨_, _, rfl, (bindN_sound rs (check b) outs hc).1 _ hmem hne⟩
  | seqBad a b σ _ iha =>
    intro outs hc
    simp only [check] at hc
    cases hca : check a σ with
    | none => simp [hca] at hc
    | some rs =>
      obtain ⟨h1, e1, heq, _⟩ := iha rs hca
      cases heq
  | iteL a b σ o _ ih =>
    intro outs hc
    simp only [check] at hc
    cases hca : check a σ with
    | none => simp [hca] at hc
    | some x =>
      cases hcb : check b σ with
      | none => simp [hca, hcb] at hc
      | some y =>
        simp [hca, hcb] at hc; subst hc
        obtain ⟨h', e, heq, hm⟩ := ih x hca
        exact ⟨h', e, heq, List.mem_append_left _ hm⟩
  | iteR a b σ o _ ih =>
    intro outs hc
    simp only [check] at hc
    cases hca : check a σ with
    | none => simp [hca] at hc
    | some x =>
      cases hcb : check b σ with
      | none => simp [hca, hcb] at hc
      | some y =>
        simp [hca, hcb] at hc; subst hc
        obtain ⟨h', e, heq, hm⟩ := ih y hcb
        exact ⟨h', e, heq, List.mem_append_right _ hm⟩
  | brk l σ => intro outs hc; simp [check] at hc; subst hc; exact ⟨_, _, rfl, by simp⟩
  | cont l σ => intro outs hc; simp [check] at hc; subst hc; exact ⟨_, _, rfl, by simp⟩
  | ret σ => intro outs hc; simp [check] at hc; subst hc; exact ⟨_, _, rfl, by simp⟩
  | loopZero l body σ =>
    intro outs hc
    simp only [check] at hc
    cases hcb : check body σ with
    | none => simp [hcb] at hc
    | some rs =>
      simp only [hcb] at hc
      split at hc
      · simp at hc; subst hc; exact ⟨σ, .normal, rfl, by simp⟩
      · simp at hc
  | loopIter l body σ σ' e o _ hle _ ihb ihl =>
    intro outs hc
    have hc0 := hc
    simp only [check] at hc
    cases hcb : check body σ with
    | none => simp [hcb] at hc
    | some rs =>
      simp only [hcb] at hc
      split at hc
      · rename_i hall
        obtain ⟨h1, e1, heq, hmem⟩ := ihb rs hcb
        cases heq
        have := List.all_eq_true.mp hall _ hmem
        simp [hle] at this
        subst this
        exact ihl outs hc0
      · simp at hc
  | loopOut l body σ σ' e e' _ hle ihb =>
    intro outs hc
    simp only [check] at hc
    cases hcb : check body σ with
    | none => simp [hcb] at hc
    | some rs =>
      simp only [hcb] at hc
      split at hc
      · simp at hc; subst hc
        obtain ⟨h1, e1, heq, hmem⟩ := ihb rs hcb
        cases heq
        refine ⟨σ', e', rfl, List.mem_cons_of_mem _ ?_⟩
        simp only [List.mem_filterMap]
        exact ⟨(σ', e), hmem, by simp [hle]⟩
      · simp at hc
  | loopBad l body σ _ ihb =>
    intro outs hc
    simp only [check] at hc
    cases hcb : check body σ with
    | none => simp [hcb] at hc
    | some rs =>
      obtain ⟨h1, e1, heq, _⟩ := ihb rs hcb
      cases heq
  | blockOk l body σ σ' e _ ihb =>
    intro outs hc
    simp only [check] at hc
    cases hcb : check body σ with
    | none => simp [hcb] at hc
    | some rs =>
      simp only [hcb, Option.some.injEq] at hc
      subst hc
      obtain ⟨h1, e1, heq, hmem⟩ := ihb rs hcb
      cases heq
      exact ⟨σ', blockExit l e, rfl, List.mem_map.mpr ⟨(σ', e), hmem, rfl⟩⟩
  | blockBad l body σ _ ihb =>
    intro outs hc
    simp only [check] at hc
    cases hcb : check body σ with
    | none => simp [hcb] at hc
    | some rs =>
      obtain ⟨h1, e1, heq, _⟩ := ihb rs hcb
      cases heq

/-- leaving the function: the deferred unlocks run, most recent first; each must find its mutex held -/
def runDefers : Held → List LockId → Option Held
 | h, [] => some h
 | h, m :: ms => if m ∈ h then runDefers (h.erase m) ms else none

/-- a function leaves properly if its body ends by `return` or by falling off the end (never by a stray break /
    continue), and after the deferred unlocks nothing is held -/
def exitClean (r : St × Exit) : Bool :=
  (r.2 == .normal || r.2 == .ret) && runDefers r.1.held r.1.deferred == some []

/-- a function body is balanced from the entry state `held₀` (∅ for API entry points and goroutine bodies) -/
def balancedFrom (held₀ : Held) (s : Stmt) : Bool :=
  match check s { held := held₀, deferred := [] } with
  | none => false
  | some outs => outs.all exitClean

def balanced (s : Stmt) : Bool := balancedFrom [] s

/-- soundness: if the checker accepts, no execution of the body self-deadlocks or unlocks an unheld mutex, every
    execution ends by return / fall-through, and after its deferred unlocks have run the goroutine holds no mutex -/
theorem balancedFrom_sound (h0 : Held) (s : Stmt) (hb : balancedFrom h0 s = true) (o : Out)
    (hex : Exec s { held := h0, deferred := [] } o) :
    ∃ σ e, o = .ok σ e ∧ (e = .normal ∨ e = .ret) ∧ runDefers σ.held σ.deferred = some [] := by
  unfold balancedFrom at hb
  cases hc : check s { held := h0, deferred := [] } with
  | none => simp [hc] at hb
  | some outs =>
    simp only [hc] at hb
    obtain ⟨σ', e, heq, hm⟩ := check_sound s _ o hex outs hc
    have := List.all_eq_true.mp hb _ hm
    simp only [exitClean, Bool.and_eq_true, Bool.or_eq_true, beq_iff_eq] at this
    exact ⟨σ', e, heq, this.1, this.2⟩

theorem balanced_sound (s : Stmt) (hb : balanced s = true) (o : Out) (hex : Exec s { held := [], deferred := [] } o) :
    ∃ σ e, o = .ok σ e ∧ (e = .normal ∨ e = .ret) ∧ runDefers σ.held σ.deferred = some [] :=
  balancedFrom_sound [] s hb o hex

/-- a function as the generator emits it -/
structure Fn where
  name : String            -- package-qualified name
  entry : List LockId      -- mutexes its callers hold (∅ for API entry points, goroutine bodies, callbacks)
  body : Stmt
deriving Repr

def Fn.ok (f : Fn) : Bool := balancedFrom f.entry f.body

/-- entry-held functions must give back exactly what they were given -/
def Fn.okKeeping (f : Fn) : Bool :=
  match check f.body { held := f.entry, deferred := [] } with
  | none => false
  | some outs => outs.all (fun r => (r.2 == .normal || r.2 == .ret) && runDefers r.1.held r.1.deferred == some f.entry)

theorem okKeeping_sound (f : Fn) (hb : f.okKeeping = true) (o : Out)
    (hex : Exec f.body { held := f.entry, deferred := [] } o) :
    ∃ σ e, o = .ok σ e ∧ (e = .normal ∨ e = .ret) ∧ runDefers σ.held σ.deferred = some f.entry := by
  unfold Fn.okKeeping at hb
  cases hc : check f.body { held := f.entry, deferred := [] } with
  | none => simp [hc] at hb
  | some outs =>
    simp only [hc] at hb
    obtain ⟨σ', e, heq, hm⟩ := check_sound f.body _ o hex outs hc
    have := List.all_eq_true.mp hb _ hm
    simp only [Bool.and_eq_true, Bool.or_eq_true, beq_iff_eq] at this
    exact ⟨σ', e, heq, this.1, this.2⟩

-- shapes of the two defects this checker was designed around, and their repairs
def addPipeBug : Stmt := .seq (.lock 1) (.seq (.ite (.seq (.lock 1) .ret) .skip) (.unlock 1))
def addPipeFixed : Stmt := .seq (.lock 1) (.seq (.ite (.seq (.unlock 1) .ret) .skip) (.unlock 1))
example : balanced addPipeBug = false := by decide
example : balanced addPipeFixed = true := by decide
def tlsListenBug : Stmt := .seq (.lock 2) (.seq (.ite .ret .skip) (.unlock 2))
example : balanced tlsListenBug = false := by decide
def deferShape : Stmt := .seq (.lock 3) (.seq (.deferUnlock 3) (.seq (.ite .ret .skip) (.loop 1 (.ite (.brk 1) (.cont 1)))))
example : balanced deferShape = true := by decide
def switchBreak : Stmt := .loop 1 (.seq (.lock 4) (.seq (.block 2 (.ite (.brk 2) .skip)) (.unlock 4)))
example : balanced switchBreak = true := by decide

end IR
end Model
