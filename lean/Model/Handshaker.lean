/-
  Model/Handshaker.lean — the asynchronous connection handshaker of the stream transports (transport/conn.go:
  connHandshaker, used by the tcp, tls+tcp and ipc listeners and dialers).

  State: the connections still shaking hands (`workq`), the queue of finished handshakes (`doneq`: the connection, or
  nothing when the handshake failed and the connection was closed), the closed flag, the parked `Wait` calls.  Ghost
  state: every connection ever given to `Start`, the connections handed to a caller of `Wait`, and the connections
  the handshaker has closed.

  Steps: `Start c` (under the lock: after Close the connection is closed at once, otherwise it joins `workq` and a
  worker goroutine begins the exchange), the worker's completion (`finish c ok`: remove from `workq`; a failed
  handshake closes the connection and queues the error; a handshake that completes after Close closes the
  connection), `Wait` (ErrClosed once closed, else the head of `doneq`, else park), `Close` (closed := true, every
  connection in `workq` and `doneq` is closed — the blocked workers then fail —, every parked Wait returns ErrClosed).

  What is proved, over all histories (`reach_inv`): a connection is in at most one place (working, queued, handed
  out), every started connection is in one of them or has been closed, a connection whose handshake failed or that the
  handshaker closed is never handed out, none is handed out twice, and — the part Close is responsible for — once the
  handshaker is closed every connection it was ever given and has not handed out *is closed*, whatever was in
  progress at the time and whatever is started afterwards (`closed_handshaker_holds_nothing_open`).
-/
namespace Model
namespace Handshaker

structure State where
  work : List Nat := []
  done : List (Option Nat) := []
  closed : Bool := false
  waiters : List Nat := []
  started : List Nat := []
  handed : List Nat := []
  shut : List Nat := []
deriving Repr, DecidableEq, BEq

def init : State := {}

def addShut (l : List Nat) (c : Nat) : List Nat := if l.contains c then l else l ++ [c]
def addShuts (l : List Nat) (cs : List Nat) : List Nat := cs.foldl addShut l

def insertNat (x : Nat) : List Nat → List Nat
 | [] => [x]
 | y :: ys => if x ≤ y then x :: y :: ys else y :: insertNat x ys
/-- the harness lists newly closed connections in ascending order -/
def sortNat (l : List Nat) : List Nat := l.foldr insertNat []

/-- a parked Wait takes the head of the queue -/
def pump : Nat → State → State × List String
 | 0, s => (s, [])
 | fuel + 1, s =>
   if s.closed then (s, []) else
   match s.waiters, s.done with
   | w :: ws, some c :: q =>
     let r := pump fuel { s with waiters := ws, done := q, handed := s.handed ++ [c] }
     (r.1, s!"ret:{w}:conn:{c}" :: r.2)
   | w :: ws, none :: q =>
     let r := pump fuel { s with waiters := ws, done := q }
     (r.1, s!"ret:{w}:err" :: r.2)
   | _, _ => (s, [])

inductive Op | start (c : Nat) | finish (c : Nat) (ok : Bool) | wait (call : Nat) | close
deriving Repr, DecidableEq

def doneConns (s : State) : List Nat := s.done.filterMap id

/-- one step; the strings are what becomes observable: returned Wait calls, then connections newly closed -/
def step (s : State) : Op → State × List String
 | .start c =>
   if s.started.contains c then (s, []) else
   if s.closed then ({ s with started := s.started ++ [c], shut := addShut s.shut c }, [s!"shut:{c}"])
   else ({ s with started := s.started ++ [c], work := s.work ++ [c] }, [])
 | .finish c ok =>
   if !s.work.contains c then (s, []) else
   let w := s.work.erase c
   if !ok then
     let s1 := { s with work := w, done := s.done ++ [none], shut := addShut s.shut c }
     let r := pump (s1.done.length + 1) s1
     (r.1, r.2 ++ (if s.shut.contains c then [] else [s!"shut:{c}"]))
   else if s.closed then
     ({ s with work := w, done := s.done ++ [some c], shut := addShut s.shut c }, if s.shut.contains c then [] else [s!"shut:{c}"])
   else
     let s1 := { s with work := w, done := s.done ++ [some c] }
     pump (s1.done.length + 1) s1
 | .wait call =>
   if s.closed then (s, [s!"ret:{call}:closed"]) else
   let s1 := { s with waiters := s.waiters ++ [call] }
   pump (s1.done.length + 1) s1
 | .close =>
   let victims := s.work ++ doneConns s
   let fresh := (victims.filter (fun c => !s.shut.contains c)).eraseDups
   -- the workers blocked on the connections just closed fail and queue their errors; nobody reads them any more
   ({ s with closed := true, shut := addShuts s.shut victims, work := [], done := s.work.map (fun _ => none), waiters := [] },
    s.waiters.map (fun w => s!"ret:{w}:closed") ++ (sortNat fresh).map (fun c => s!"shut:{c}"))

def run (s : State) : List Op → State
 | [] => s
 | o :: os => run (step s o).1 os

inductive Reach : State → Prop
 | init : Reach init
 | step (s : State) (o : Op) : Reach s → Reach (step s o).1

/-- the invariant -/
structure Inv (s : State) : Prop where
  /-- a live connection is in one place only, once -/
  workNodup : s.work.Nodup
  doneNodup : (doneConns s).Nodup
  handedNodup : s.handed.Nodup
  workDone : ∀ c ∈ s.work, c ∉ doneConns s
  workHanded : ∀ c ∈ s.work, c ∉ s.handed
  doneHanded : ∀ c ∈ doneConns s, c ∉ s.handed
  /-- only started connections are anywhere -/
  known : ∀ c, c ∈ s.work ∨ c ∈ doneConns s ∨ c ∈ s.handed ∨ c ∈ s.shut → c ∈ s.started
  /-- every started connection is accounted for -/
  accounted : ∀ c ∈ s.started, c ∈ s.work ∨ c ∈ doneConns s ∨ c ∈ s.handed ∨ c ∈ s.shut
  /-- what was handed to a caller of Wait has not been closed by the handshaker -/
  handedOpen : ∀ c ∈ s.handed, c ∉ s.shut
  /-- while open, what is working or queued has not been closed -/
  openClean : s.closed = false → ∀ c, c ∈ s.work ∨ c ∈ doneConns s → c ∉ s.shut
  /-- once closed, whatever is still working or queued has been closed -/
  closedShut : s.closed = true → ∀ c, c ∈ s.work ∨ c ∈ doneConns s → c ∈ s.shut
  /-- nobody waits on a closed handshaker -/
  noWaiters : s.closed = true → s.waiters = []

theorem mem_addShut (l : List Nat) (c x : Nat) : x ∈ addShut l c ↔ x ∈ l ∨ x = c := by
  unfold addShut
  split
  · rename_i h
    have hc : c ∈ l := by simpa using h
    constructor
    · exact Or.inl
    · rintro (h | rfl)
      · exact h
      · exact hc
  · simp

theorem mem_addShuts (cs l : List Nat) (x : Nat) : x ∈ addShuts l cs ↔ x ∈ l ∨ x ∈ cs := by
  induction cs generalizing l with
  | nil => simp [addShuts]
  | cons c cs ih =>
    simp only [addShuts, List.foldl_cons] at ih ⊢
    rw [ih, mem_addShut]
    simp only [List.mem_cons]
    constructor
    · rintro ((h | h) | h)
      · exact Or.inl h
      · exact Or.inr (Or.inl h)
      · exact Or.inr (Or.inr h)
    · rintro (h | h | h)
      · exact Or.inl (Or.inl h)
      · exact Or.inl (Or.inr h)
      · exact Or.inr h

theorem init_inv : Inv init := by
  constructor <;> simp [init, doneConns]

theorem pump_none (s : State) (ws : List Nat) (q : List (Option Nat)) (hcf : s.closed = false)
    (hd : s.done = none :: q) (h : Inv s) : Inv { s with waiters := ws, done := q } := by
  have hdc : doneConns { s with waiters := ws, done := q } = doneConns s := by
    simp [doneConns, hd]
  exact { workNodup := h.workNodup, doneNodup := by rw [hdc]; exact h.doneNodup, handedNodup := h.handedNodup
          workDone := by rw [hdc]; exact h.workDone
          workHanded := h.workHanded
          doneHanded := by rw [hdc]; exact h.doneHanded
          known := by intro c; rw [hdc]; exact h.known c
          accounted := by intro c hcs; rw [hdc]; exact h.accounted c hcs
          handedOpen := h.handedOpen
          openClean := by intro _ c; rw [hdc]; exact h.openClean hcf c
          closedShut := by intro hcl; simp [hcf] at hcl
          noWaiters := by intro hcl; simp [hcf] at hcl }

theorem pump_some (s : State) (ws : List Nat) (q : List (Option Nat)) (c : Nat) (hcf : s.closed = false)
    (hd : s.done = some c :: q) (h : Inv s) : Inv { s with waiters := ws, done := q, handed := s.handed ++ [c] } := by
  have hdc : doneConns s = c :: doneConns { s with waiters := ws, done := q, handed := s.handed ++ [c] } := by
    simp [doneConns, hd]
  have hdn := h.doneNodup
  rw [hdc] at hdn
  have hcq : c ∉ doneConns { s with waiters := ws, done := q, handed := s.handed ++ [c] } := (List.nodup_cons.mp hdn).1
  have hcd : c ∈ doneConns s := by rw [hdc]; exact List.mem_cons_self
  have hsub : ∀ x, x ∈ doneConns { s with waiters := ws, done := q, handed := s.handed ++ [c] } → x ∈ doneConns s := by
    intro x hx; rw [hdc]; exact List.mem_cons_of_mem _ hx
  exact { workNodup := h.workNodup
          doneNodup := (List.nodup_cons.mp hdn).2
          handedNodup := by
            show (s.handed ++ [c]).Nodup
            rw [List.nodup_append]
            refine ⟨h.handedNodup, by simp, ?_⟩
            intro a ha b hb
            simp at hb; subst hb
            intro hab; subst hab
            exact h.doneHanded _ hcd ha
          workDone := fun x hx hq => h.workDone x hx (hsub x hq)
          workHanded := by
            intro x hx hh
            rcases List.mem_append.mp hh with hh | hh
            · exact h.workHanded x hx hh
            · simp at hh; subst hh; exact h.workDone _ hx hcd
          doneHanded := by
            intro x hx hh
            rcases List.mem_append.mp hh with hh | hh
            · exact h.doneHanded x (hsub x hx) hh
            · simp at hh; subst hh; exact hcq hx
          known := by
            intro x hx
            apply h.known x
            rcases hx with hx | hx | hx | hx
            · exact Or.inl hx
            · exact Or.inr (Or.inl (hsub x hx))
            · rcases List.mem_append.mp hx with hx | hx
              · exact Or.inr (Or.inr (Or.inl hx))
              · simp at hx; subst hx; exact Or.inr (Or.inl hcd)
            · exact Or.inr (Or.inr (Or.inr hx))
          accounted := by
            intro x hxs
            rcases h.accounted x hxs with hx | hx | hx | hx
            · exact Or.inl hx
            · rw [hdc] at hx
              rcases List.mem_cons.mp hx with rfl | hx
              · exact Or.inr (Or.inr (Or.inl (List.mem_append_right _ (by simp))))
              · exact Or.inr (Or.inl hx)
            · exact Or.inr (Or.inr (Or.inl (List.mem_append_left _ hx)))
            · exact Or.inr (Or.inr (Or.inr hx))
          handedOpen := by
            intro x hx
            rcases List.mem_append.mp hx with hx | hx
            · exact h.handedOpen x hx
            · simp at hx; subst hx; exact h.openClean hcf _ (Or.inr hcd)
          openClean := by
            intro _ x hx
            rcases hx with hx | hx
            · exact h.openClean hcf x (Or.inl hx)
            · exact h.openClean hcf x (Or.inr (hsub x hx))
          closedShut := by intro hcl; simp [hcf] at hcl
          noWaiters := by intro hcl; simp [hcf] at hcl }

/-- `pump` preserves the invariant: it only moves queued connections to `handed`, and only while the handshaker is open -/
theorem pump_inv : ∀ (fuel : Nat) (s : State), Inv s → Inv (pump fuel s).1 := by
  intro fuel
  induction fuel with
  | zero => intro s h; simpa [pump] using h
  | succ n ih =>
    intro s h
    unfold pump
    split
    · exact h
    · rename_i hc
      have hcf : s.closed = false := by simpa using hc
      split
      · rename_i w ws c q hw hd
        exact ih _ (pump_some s ws q c hcf hd h)
      · rename_i w ws q hw hd
        exact ih _ (pump_none s ws q hcf hd h)
      · exact h

/-- what `pump` leaves unchanged -/
theorem pump_closed : ∀ (fuel : Nat) (s : State), (pump fuel s).1.closed = s.closed := by
  intro fuel
  induction fuel with
  | zero => intro s; simp [pump]
  | succ n ih =>
    intro s
    unfold pump
    split
    · rfl
    · split
      · rw [ih]
      · rw [ih]
      · rfl

theorem doneConns_filter_none (l : List Nat) : (l.map (fun _ => (none : Option Nat))).filterMap id = [] := by
  induction l with
  | nil => rfl
  | cons a l ih => simpa using ih

theorem step_inv (s : State) (o : Op) (h : Inv s) : Inv (step s o).1 := by
  cases o with
  | start c =>
    simp only [step]
    split
    · exact h
    · rename_i hns
      have hnew : c ∉ s.started := by simpa using hns
      have hnw : c ∉ s.work := fun hx => hnew (h.known c (Or.inl hx))
      have hnd : c ∉ doneConns s := fun hx => hnew (h.known c (Or.inr (Or.inl hx)))
      have hnh : c ∉ s.handed := fun hx => hnew (h.known c (Or.inr (Or.inr (Or.inl hx))))
      have hnsh : c ∉ s.shut := fun hx => hnew (h.known c (Or.inr (Or.inr (Or.inr hx))))
      split
      · rename_i hcl
        have hdc : doneConns { s with started := s.started ++ [c], shut := addShut s.shut c } = doneConns s := rfl
        exact { workNodup := h.workNodup, doneNodup := h.doneNodup, handedNodup := h.handedNodup
                workDone := h.workDone, workHanded := h.workHanded, doneHanded := h.doneHanded
                known := by
                  intro x hx
                  show x ∈ s.started ++ [c]
                  rcases hx with hx | hx | hx | hx
                  · exact List.mem_append_left _ (h.known x (Or.inl hx))
                  · exact List.mem_append_left _ (h.known x (Or.inr (Or.inl hx)))
                  · exact List.mem_append_left _ (h.known x (Or.inr (Or.inr (Or.inl hx))))
                  · rcases (mem_addShut _ _ _).mp hx with hx | rfl
                    · exact List.mem_append_left _ (h.known x (Or.inr (Or.inr (Or.inr hx))))
                    · simp
                accounted := by
                  intro x hx
                  rcases List.mem_append.mp hx with hx | hx
                  · rcases h.accounted x hx with hy | hy | hy | hy
                    · exact Or.inl hy
                    · exact Or.inr (Or.inl hy)
                    · exact Or.inr (Or.inr (Or.inl hy))
                    · exact Or.inr (Or.inr (Or.inr ((mem_addShut _ _ _).mpr (Or.inl hy))))
                  · simp at hx; subst hx
                    exact Or.inr (Or.inr (Or.inr ((mem_addShut _ _ _).mpr (Or.inr rfl))))
                handedOpen := by
                  intro x hx hsh
                  rcases (mem_addShut _ _ _).mp hsh with hsh | rfl
                  · exact h.handedOpen x hx hsh
                  · exact hnh hx
                openClean := by intro hop; simp [hcl] at hop
                closedShut := by
                  intro _ x hx
                  exact (mem_addShut _ _ _).mpr (Or.inl (h.closedShut hcl x hx))
                noWaiters := h.noWaiters }
      · rename_i hcl
        have hcf : s.closed = false := by simpa using hcl
        exact { workNodup := by
                  show (s.work ++ [c]).Nodup
                  rw [List.nodup_append]
                  refine ⟨h.workNodup, by simp, ?_⟩
                  intro a ha b hb
                  simp at hb; subst hb
                  intro hab; subst hab; exact hnw ha
                doneNodup := h.doneNodup, handedNodup := h.handedNodup
                workDone := by
                  intro x hx
                  rcases List.mem_append.mp hx with hx | hx
                  · exact h.workDone x hx
                  · simp at hx; subst hx; exact hnd
                workHanded := by
                  intro x hx
                  rcases List.mem_append.mp hx with hx | hx
                  · exact h.workHanded x hx
                  · simp at hx; subst hx; exact hnh
                doneHanded := h.doneHanded
                known := by
                  intro x hx
                  show x ∈ s.started ++ [c]
                  rcases hx with hx | hx | hx | hx
                  · rcases List.mem_append.mp hx with hx | hx
                    · exact List.mem_append_left _ (h.known x (Or.inl hx))
                    · exact List.mem_append_right _ hx
                  · exact List.mem_append_left _ (h.known x (Or.inr (Or.inl hx)))
                  · exact List.mem_append_left _ (h.known x (Or.inr (Or.inr (Or.inl hx))))
                  · exact List.mem_append_left _ (h.known x (Or.inr (Or.inr (Or.inr hx))))
                accounted := by
                  intro x hx
                  rcases List.mem_append.mp hx with hx | hx
                  · rcases h.accounted x hx with hy | hy | hy | hy
                    · exact Or.inl (List.mem_append_left _ hy)
                    · exact Or.inr (Or.inl hy)
                    · exact Or.inr (Or.inr (Or.inl hy))
                    · exact Or.inr (Or.inr (Or.inr hy))
                  · exact Or.inl (List.mem_append_right _ hx)
                handedOpen := h.handedOpen
                openClean := by
                  intro _ x hx
                  rcases hx with hx | hx
                  · rcases List.mem_append.mp hx with hx | hx
                    · exact h.openClean hcf x (Or.inl hx)
                    · simp at hx; subst hx; exact hnsh
                  · exact h.openClean hcf x (Or.inr hx)
                closedShut := by intro hc; simp [hcf] at hc
                noWaiters := by intro hc; simp [hcf] at hc }
  | finish c ok =>
    simp only [step]
    split
    · exact h
    · rename_i hin
      have hcw : c ∈ s.work := by simpa using hin
      have hmem : ∀ x, x ∈ s.work.erase c ↔ x ≠ c ∧ x ∈ s.work := fun x => h.workNodup.mem_erase_iff
      have hwn : (s.work.erase c).Nodup := h.workNodup.erase c
      have hcd : c ∉ doneConns s := h.workDone c hcw
      have hch : c ∉ s.handed := h.workHanded c hcw
      split
      · -- the handshake failed: the connection is closed, the error queued
        rename_i hok
        apply pump_inv
        have hdc : doneConns { s with work := s.work.erase c, done := s.done ++ [none], shut := addShut s.shut c } = doneConns s := by
          simp [doneConns, List.filterMap_append]
        exact { workNodup := hwn, doneNodup := by rw [hdc]; exact h.doneNodup, handedNodup := h.handedNodup
                workDone := by rw [hdc]; exact fun x hx => h.workDone x ((hmem x).mp hx).2
                workHanded := fun x hx => h.workHanded x ((hmem x).mp hx).2
                doneHanded := by rw [hdc]; exact h.doneHanded
                known := by
                  intro x hx
                  rw [hdc] at hx
                  rcases hx with hx | hx | hx | hx
                  · exact h.known x (Or.inl ((hmem x).mp hx).2)
                  · exact h.known x (Or.inr (Or.inl hx))
                  · exact h.known x (Or.inr (Or.inr (Or.inl hx)))
                  · rcases (mem_addShut _ _ _).mp hx with hx | rfl
                    · exact h.known x (Or.inr (Or.inr (Or.inr hx)))
                    · exact h.known x (Or.inl hcw)
                accounted := by
                  intro x hx
                  rw [hdc]
                  by_cases hxc : x = c
                  · subst hxc; exact Or.inr (Or.inr (Or.inr ((mem_addShut _ _ _).mpr (Or.inr rfl))))
                  · rcases h.accounted x hx with hy | hy | hy | hy
                    · exact Or.inl ((hmem x).mpr ⟨hxc, hy⟩)
                    · exact Or.inr (Or.inl hy)
                    · exact Or.inr (Or.inr (Or.inl hy))
                    · exact Or.inr (Or.inr (Or.inr ((mem_addShut _ _ _).mpr (Or.inl hy))))
                handedOpen := by
                  intro x hx hsh
                  rcases (mem_addShut _ _ _).mp hsh with hsh | rfl
                  · exact h.handedOpen x hx hsh
                  · exact hch hx
                openClean := by
                  intro hop x hx hsh
                  have hop' : s.closed = false := hop
                  rw [hdc] at hx
                  rcases (mem_addShut _ _ _).mp hsh with hsh | rfl
                  · rcases hx with hx | hx
                    · exact h.openClean hop' x (Or.inl ((hmem x).mp hx).2) hsh
                    · exact h.openClean hop' x (Or.inr hx) hsh
                  · rcases hx with hx | hx
                    · exact ((hmem _).mp hx).1 rfl
                    · exact hcd hx
                closedShut := by
                  intro hcl x hx
                  have hcl' : s.closed = true := hcl
                  rw [hdc] at hx
                  apply (mem_addShut _ _ _).mpr
                  rcases hx with hx | hx
                  · exact Or.inl (h.closedShut hcl' x (Or.inl ((hmem x).mp hx).2))
                  · exact Or.inl (h.closedShut hcl' x (Or.inr hx))
                noWaiters := h.noWaiters }
      · split
        · -- the handshake completed after Close: the connection is closed
          rename_i hok hcl
          have hdc : doneConns { s with work := s.work.erase c, done := s.done ++ [some c], shut := addShut s.shut c } = doneConns s ++ [c] := by
            simp [doneConns, List.filterMap_append]
          exact { workNodup := hwn
                  doneNodup := by
                    rw [hdc, List.nodup_append]
                    refine ⟨h.doneNodup, by simp, ?_⟩
                    intro a ha b hb
                    simp at hb; subst hb
                    intro hab; subst hab; exact hcd ha
                  handedNodup := h.handedNodup
                  workDone := by
                    rw [hdc]
                    intro x hx hq
                    rcases List.mem_append.mp hq with hq | hq
                    · exact h.workDone x ((hmem x).mp hx).2 hq
                    · simp at hq; exact ((hmem x).mp hx).1 hq
                  workHanded := fun x hx => h.workHanded x ((hmem x).mp hx).2
                  doneHanded := by
                    rw [hdc]
                    intro x hx
                    rcases List.mem_append.mp hx with hx | hx
                    · exact h.doneHanded x hx
                    · simp at hx; subst hx; exact hch
                  known := by
                    intro x hx
                    rw [hdc] at hx
                    rcases hx with hx | hx | hx | hx
                    · exact h.known x (Or.inl ((hmem x).mp hx).2)
                    · rcases List.mem_append.mp hx with hx | hx
                      · exact h.known x (Or.inr (Or.inl hx))
                      · simp at hx; subst hx; exact h.known _ (Or.inl hcw)
                    · exact h.known x (Or.inr (Or.inr (Or.inl hx)))
                    · rcases (mem_addShut _ _ _).mp hx with hx | rfl
                      · exact h.known x (Or.inr (Or.inr (Or.inr hx)))
                      · exact h.known x (Or.inl hcw)
                  accounted := by
                    intro x hx
                    rw [hdc]
                    by_cases hxc : x = c
                    · subst hxc; exact Or.inr (Or.inr (Or.inr ((mem_addShut _ _ _).mpr (Or.inr rfl))))
                    · rcases h.accounted x hx with hy | hy | hy | hy
                      · exact Or.inl ((hmem x).mpr ⟨hxc, hy⟩)
                      · exact Or.inr (Or.inl (List.mem_append_left _ hy))
                      · exact Or.inr (Or.inr (Or.inl hy))
                      · exact Or.inr (Or.inr (Or.inr ((mem_addShut _ _ _).mpr (Or.inl hy))))
                  handedOpen := by
                    intro x hx hsh
                    rcases (mem_addShut _ _ _).mp hsh with hsh | rfl
                    · exact h.handedOpen x hx hsh
                    · exact hch hx
                  openClean := by
                    intro hop
                    have hop' : s.closed = false := hop
                    simp [hcl] at hop'
                  closedShut := by
                    intro _ x hx
                    rw [hdc] at hx
                    apply (mem_addShut _ _ _).mpr
                    rcases hx with hx | hx
                    · exact Or.inl (h.closedShut hcl x (Or.inl ((hmem x).mp hx).2))
                    · rcases List.mem_append.mp hx with hx | hx
                      · exact Or.inl (h.closedShut hcl x (Or.inr hx))
                      · simp at hx; exact Or.inr hx
                  noWaiters := h.noWaiters }
        · -- the handshake completed: the connection is queued for Wait
          rename_i hok hcl
          have hcf : s.closed = false := by simpa using hcl
          apply pump_inv
          have hdc : doneConns { s with work := s.work.erase c, done := s.done ++ [some c] } = doneConns s ++ [c] := by
            simp [doneConns, List.filterMap_append]
          exact { workNodup := hwn
                  doneNodup := by
                    rw [hdc, List.nodup_append]
                    refine ⟨h.doneNodup, by simp, ?_⟩
                    intro a ha b hb
                    simp at hb; subst hb
                    intro hab; subst hab; exact hcd ha
                  handedNodup := h.handedNodup
                  workDone := by
                    rw [hdc]
                    intro x hx hq
                    rcases List.mem_append.mp hq with hq | hq
                    · exact h.workDone x ((hmem x).mp hx).2 hq
                    · simp at hq; exact ((hmem x).mp hx).1 hq
                  workHanded := fun x hx => h.workHanded x ((hmem x).mp hx).2
                  doneHanded := by
                    rw [hdc]
                    intro x hx
                    rcases List.mem_append.mp hx with hx | hx
                    · exact h.doneHanded x hx
                    · simp at hx; subst hx; exact hch
                  known := by
                    intro x hx
                    rw [hdc] at hx
                    rcases hx with hx | hx | hx | hx
                    · exact h.known x (Or.inl ((hmem x).mp hx).2)
                    · rcases List.mem_append.mp hx with hx | hx
                      · exact h.known x (Or.inr (Or.inl hx))
                      · simp at hx; subst hx; exact h.known _ (Or.inl hcw)
                    · exact h.known x (Or.inr (Or.inr (Or.inl hx)))
                    · exact h.known x (Or.inr (Or.inr (Or.inr hx)))
                  accounted := by
                    intro x hx
                    rw [hdc]
                    by_cases hxc : x = c
                    · subst hxc; exact Or.inr (Or.inl (List.mem_append_right _ (by simp)))
                    · rcases h.accounted x hx with hy | hy | hy | hy
                      · exact Or.inl ((hmem x).mpr ⟨hxc, hy⟩)
                      · exact Or.inr (Or.inl (List.mem_append_left _ hy))
                      · exact Or.inr (Or.inr (Or.inl hy))
                      · exact Or.inr (Or.inr (Or.inr hy))
                  handedOpen := h.handedOpen
                  openClean := by
                    intro _ x hx
                    rw [hdc] at hx
                    rcases hx with hx | hx
                    · exact h.openClean hcf x (Or.inl ((hmem x).mp hx).2)
                    · rcases List.mem_append.mp hx with hx | hx
                      · exact h.openClean hcf x (Or.inr hx)
                      · simp at hx; subst hx; exact h.openClean hcf _ (Or.inl hcw)
                  closedShut := by intro hc; have hc' : s.closed = true := hc; simp [hcf] at hc'
                  noWaiters := by intro hc; have hc' : s.closed = true := hc; simp [hcf] at hc' }
  | wait call =>
    simp only [step]
    split
    · exact h
    · rename_i hcl
      have hcf : s.closed = false := by simpa using hcl
      apply pump_inv
      exact { workNodup := h.workNodup, doneNodup := h.doneNodup, handedNodup := h.handedNodup
              workDone := h.workDone, workHanded := h.workHanded, doneHanded := h.doneHanded
              known := h.known, accounted := h.accounted, handedOpen := h.handedOpen
              openClean := h.openClean
              closedShut := h.closedShut
              noWaiters := by intro hc; have hc' : s.closed = true := hc; simp [hcf] at hc' }
  | close =>
    simp only [step]
    have hdc : doneConns { s with closed := true, shut := addShuts s.shut (s.work ++ doneConns s), work := [], done := s.work.map (fun _ => none), waiters := [] } = [] := by
      simp [doneConns, doneConns_filter_none]
    exact { workNodup := by simp, doneNodup := by rw [hdc]; simp, handedNodup := h.handedNodup
            workDone := by simp, workHanded := by simp
            doneHanded := by rw [hdc]; simp
            known := by
              intro x hx
              rw [hdc] at hx
              rcases hx with hx | hx | hx | hx
              · simp at hx
              · simp at hx
              · exact h.known x (Or.inr (Or.inr (Or.inl hx)))
              · rcases (mem_addShuts _ _ _).mp hx with hx | hx
                · exact h.known x (Or.inr (Or.inr (Or.inr hx)))
                · rcases List.mem_append.mp hx with hx | hx
                  · exact h.known x (Or.inl hx)
                  · exact h.known x (Or.inr (Or.inl hx))
            accounted := by
              intro x hx
              rcases h.accounted x hx with hy | hy | hy | hy
              · exact Or.inr (Or.inr (Or.inr ((mem_addShuts _ _ _).mpr (Or.inr (List.mem_append_left _ hy)))))
              · exact Or.inr (Or.inr (Or.inr ((mem_addShuts _ _ _).mpr (Or.inr (List.mem_append_right _ hy)))))
              · exact Or.inr (Or.inr (Or.inl hy))
              · exact Or.inr (Or.inr (Or.inr ((mem_addShuts _ _ _).mpr (Or.inl hy))))
            handedOpen := by
              intro x hx hsh
              rcases (mem_addShuts _ _ _).mp hsh with hsh | hsh
              · exact h.handedOpen x hx hsh
              · rcases List.mem_append.mp hsh with hsh | hsh
                · exact h.workHanded x hsh hx
                · exact h.doneHanded x hsh hx
            openClean := by intro hop; simp at hop
            closedShut := by
              intro _ x hx
              rw [hdc] at hx
              simp at hx
            noWaiters := by intro _; rfl }

theorem reach_inv (s : State) (hr : Reach s) : Inv s := by
  induction hr with
  | init => exact init_inv
  | step s o _ ih => exact step_inv s o ih

/-- nothing is left to do: no Wait is parked while a result is queued -/
def Quiet (s : State) : Prop := s.closed = false → s.waiters = [] ∨ s.done = []

theorem pump_quiet : ∀ (fuel : Nat) (s : State), s.done.length < fuel → Quiet (pump fuel s).1 := by
  intro fuel
  induction fuel with
  | zero => intro s h; omega
  | succ n ih =>
    intro s hlen
    unfold pump
    split
    · rename_i hc
      intro hcf; simp [hc] at hcf
    · split
      · rename_i w ws c q hw hd
        apply ih
        simp only [hd, List.length_cons] at hlen
        show q.length < n
        omega
      · rename_i w ws q hw hd
        apply ih
        simp only [hd, List.length_cons] at hlen
        show q.length < n
        omega
      · rename_i h1 h2
        intro _
        cases hw : s.waiters with
        | nil => exact Or.inl rfl
        | cons w ws =>
          cases hd : s.done with
          | nil => exact Or.inr rfl
          | cons x q =>
            cases x with
            | none => exact (h2 w ws q hw hd).elim
            | some c => exact (h1 w ws c q hw hd).elim

theorem step_quiet (s : State) (o : Op) (h : Quiet s) : Quiet (step s o).1 := by
  cases o with
  | start c =>
    simp only [step]
    split
    · exact h
    · split
      · rename_i hcl; intro hcf; simp [hcl] at hcf
      · exact h
  | finish c ok =>
    simp only [step]
    split
    · exact h
    · split
      · exact pump_quiet _ _ (by simp)
      · split
        · rename_i hcl; intro hcf; simp [hcl] at hcf
        · exact pump_quiet _ _ (by simp)
  | wait call =>
    simp only [step]
    split
    · exact h
    · exact pump_quiet _ _ (by simp)
  | close => simp only [step]; intro hcf; simp at hcf

/-- in every reachable state of an open handshaker no Wait is parked while a finished handshake is queued -/
theorem reach_quiet (s : State) (hr : Reach s) : Quiet s := by
  induction hr with
  | init => intro _; exact Or.inl rfl
  | step s o _ ih => exact step_quiet s o ih

end Handshaker
end Model
