/-
  Model/CoreClose.lean — accounting invariant of the core machine (every reserved pipe id belongs to a listed pipe, to a
  pipe whose Detached callback is still running, or to a pipe whose Attaching callback is still running) and what
  socket close leaves behind.
-/
import Model.CoreLemmas
namespace Model
namespace Core

/-- no id is reserved without an owner -/
def NoLeak (s : State) : Prop :=
  ∀ k ∈ s.used, k ∈ s.pipes.map (·.k) ∨ k ∈ s.heldDetached ∨ k ∈ s.attaching

theorem noLeak_of_fields (s s' : State) (h : NoLeak s) (h1 : s'.pipes = s.pipes) (h2 : s'.used = s.used)
    (h3 : s'.heldDetached = s.heldDetached) (h4 : s'.attaching = s.attaching) : NoLeak s' := by
  unfold NoLeak; rw [h1, h2, h3, h4]; exact h

theorem setDialer_noLeak (s : State) (d : Nat) (f : DialerSt → DialerSt) (h : NoLeak s) : NoLeak (setDialer s d f) :=
  noLeak_of_fields s _ h rfl rfl rfl rfl
theorem setListener_noLeak (s : State) (l : Nat) (f : ListenerSt → ListenerSt) (h : NoLeak s) : NoLeak (setListener s l f) :=
  noLeak_of_fields s _ h rfl rfl rfl rfl

theorem pipeGone_noLeak (s : State) (d : Option Nat) (now : Nat) (h : NoLeak s) : NoLeak (pipeGone s d now) := by
  unfold pipeGone; split
  · exact h
  · exact setDialer_noLeak _ _ _ h

theorem redial_noLeak (s : State) (d : Nat) (h : NoLeak s) : NoLeak (redial s d).1 := by
  unfold redial
  split
  · exact h
  · split
    · exact setDialer_noLeak _ _ _ h
    · split <;> exact setDialer_noLeak _ _ _ h

/-- whatever the redial timers do preserves every property that `redial` preserves -/
theorem timer_pres (P : State → Prop) (hP : ∀ s d, P s → P (redial s d).1) (s : State) (now : Nat) (h : P s) :
    ∀ st ∈ timerOutcomes s now, P st.1 := by
  unfold timerOutcomes
  have key : ∀ (l : List DialerSt) (acc : List (State × List CEv)), (∀ st ∈ acc, P st.1) →
      ∀ st ∈ l.foldl (fun (acc : List (State × List CEv)) d0 =>
        acc.flatMap (fun (st : State × List CEv) =>
          match getDialer st.1 d0.d with
          | none => [st]
          | some x =>
            match x.timer with
            | none => [st]
            | some t =>
              let mayFire := decide (t.tmin ≤ now)
              let mustFire := decide (t.tmax + slack ≤ now)
              let fired := let r := redial st.1 x.d; (r.1, st.2 ++ r.2)
              if mustFire then [fired] else if mayFire then [st, fired] else [st])) acc, P st.1 := by
    intro l
    induction l with
    | nil => intro acc hacc st hst; exact hacc st hst
    | cons v vs ih =>
      intro acc hacc
      simp only [List.foldl_cons]
      apply ih
      intro st hst
      simp only [List.mem_flatMap] at hst
      obtain ⟨st0, hst0, hst⟩ := hst
      have h0 := hacc st0 hst0
      split at hst
      · simp at hst; subst hst; exact h0
      · split at hst
        · simp at hst; subst hst; exact h0
        · try simp only [] at hst
          split at hst
          · simp at hst; subst hst; exact hP st0.1 _ h0
          · split at hst
            · simp at hst
              rcases hst with rfl | rfl
              · exact h0
              · exact hP st0.1 _ h0
            · simp at hst; subst hst; exact h0
  exact key s.dialers [(s, [])] (by intro st hst; simp at hst; subst hst; exact h)

theorem addPipe_noLeak (s : State) (d : Option Nat) (mode : String) (hi : Inv s) (h : NoLeak s) : NoLeak (addPipe s d mode).1 := by
  have hfresh := fresh_not_used s hi
  have rej : NoLeak { s with npipes := s.npipes + 1, used := (s.used ++ [s.npipes + 1]).erase (s.npipes + 1),
                             hooklog := s.hooklog ++ [(s.npipes + 1, "attaching")] } := by
    unfold NoLeak
    simp only [erase_append_self _ _ hfresh]
    exact h
  unfold addPipe
  simp only []
  split
  · exact rej
  · exact rej
  · split
    · exact rej
    · intro k hk
      simp only [List.mem_append, List.mem_singleton] at hk
      simp only [List.map_append, List.map_cons, List.map_nil, List.mem_append, List.mem_singleton]
      rcases hk with hk | rfl
      · rcases h k hk with h1 | h1 | h1
        · exact Or.inl (Or.inl h1)
        · exact Or.inr (Or.inl h1)
        · exact Or.inr (Or.inr h1)
      · exact Or.inl (Or.inr rfl)

theorem closePipe_noLeak (s : State) (k : Nat) (hi : Inv s) (h : NoLeak s) : NoLeak (closePipe s k).1 := by
  unfold closePipe
  split
  · exact h
  · split
    · -- Detached callback parked: the id moves to heldDetached
      intro j hj
      rcases h j hj with h1 | h1 | h1
      · by_cases hjk : j = k
        · right; left; simp [hjk]
        · left
          simp only [List.mem_map, List.mem_filter] at h1 ⊢
          obtain ⟨p, hp, rfl⟩ := h1
          exact ⟨p, ⟨hp, by simpa using hjk⟩, rfl⟩
      · right; left; exact List.mem_append_left _ h1
      · right; right; exact h1
    · intro j hj
      have hne : j ≠ k := by
        intro e; subst e
        exact (List.Nodup.mem_erase_iff hi.usedNodup).mp hj |>.1 rfl
      have hj' : j ∈ s.used := List.mem_of_mem_erase hj
      rcases h j hj' with h1 | h1 | h1
      · left
        simp only [List.mem_map, List.mem_filter] at h1 ⊢
        obtain ⟨p, hp, rfl⟩ := h1
        exact ⟨p, ⟨hp, by simpa using hne⟩, rfl⟩
      · right; left; exact h1
      · right; right; exact h1

theorem closeAll_both (l : List PipeSt) (acc : State × List CEv) (hi : Inv acc.1) (h : NoLeak acc.1) :
    NoLeak (l.foldl (fun (acc : State × List CEv) p => let r := closePipe acc.1 p.k; (r.1, acc.2 ++ r.2)) acc).1 := by
  induction l generalizing acc with
  | nil => simpa using h
  | cons p ps ih =>
    simp only [List.foldl_cons]
    exact ih _ (closePipe_inv _ _ hi) (closePipe_noLeak _ _ hi h)

theorem hookrelease_noLeak (s : State) (h : NoLeak s) :
    NoLeak { s with used := s.used.filter (fun k => !s.heldDetached.contains k), heldDetached := [], hookHold := false } := by
  intro j hj
  simp only [List.mem_filter, Bool.not_eq_true'] at hj
  rcases h j hj.1 with h1 | h1 | h1
  · exact Or.inl h1
  · have : s.heldDetached.contains j = true := by simpa using h1
    rw [this] at hj; exact absurd hj.2 (by simp)
  · exact Or.inr (Or.inr h1)

theorem core_noLeak (s : State) (now : Nat) (op : List String) (hi : Inv s) (h : NoLeak s) : ∀ r ∈ core s now op, NoLeak r.1 := by
  intro r hr
  unfold core at hr
  split at hr
  · simp at hr; subst hr; exact noLeak_of_fields s _ h rfl rfl rfl rfl
  · -- listen
    split at hr
    · simp at hr
    · split at hr
      · simp at hr; subst hr; exact h
      · split at hr
        · simp at hr; subst hr; exact h
        · split at hr
          · simp at hr; subst hr; exact h
          · simp at hr; subst hr; exact setListener_noLeak _ _ _ h
  · -- conn
    split at hr
    · simp at hr
    · split at hr
      · simp at hr; subst hr; exact h
      · split at hr
        · split at hr
          · simp at hr
          · try simp only [] at hr
            simp at hr; subst hr
            intro k hk
            simp only [List.mem_append, List.mem_singleton] at hk
            rcases hk with hk | rfl
            · rcases h k hk with h1 | h1 | h1
              · exact Or.inl h1
              · exact Or.inr (Or.inl h1)
              · rename_i hatt
                simp at hatt
                rw [hatt] at h1; simp at h1
            · right; right; simp
        · split at hr
          · try simp only [] at hr
            simp at hr; subst hr
            exact closePipe_noLeak _ _ (addPipe_inv _ _ _ hi) (addPipe_noLeak _ _ _ hi h)
          · try simp only [] at hr
            simp at hr; subst hr; exact addPipe_noLeak _ _ _ hi h
  · simp at hr; subst hr; exact noLeak_of_fields s _ h rfl rfl rfl rfl
  · -- dial
    split at hr
    · simp at hr
    · split at hr
      · simp at hr; subst hr; exact h
      · split at hr
        · simp at hr; subst hr; exact h
        · split at hr <;> (simp at hr; subst hr; exact setDialer_noLeak _ _ _ h)
  · -- dialres ok
    split at hr
    · simp at hr
    · split at hr
      · simp at hr
      · try simp only [] at hr
        simp at hr; subst hr
        split
        · exact setDialer_noLeak _ _ _ (addPipe_noLeak _ _ _ hi h)
        · simp only []
          exact pipeGone_noLeak _ _ _ (setDialer_noLeak _ _ _ (addPipe_noLeak _ _ _ hi h))
  · -- dialres fail
    split at hr
    · simp at hr
    · split at hr
      · simp at hr
      · split at hr
        · simp at hr; subst hr; exact setDialer_noLeak _ _ _ h
        · try simp only [] at hr
          simp at hr; subst hr; exact setDialer_noLeak _ _ _ h
  · -- attachrelease
    split at hr
    · rename_i k hk
      obtain ⟨_, _, a3, a4⟩ := hi.att k (by simp [hk])
      split at hr
      · simp at hr; subst hr
        intro j hj
        have hne : j ≠ k := by
          intro e; subst e
          exact (List.Nodup.mem_erase_iff hi.usedNodup).mp hj |>.1 rfl
        rcases h j (List.mem_of_mem_erase hj) with h1 | h1 | h1
        · exact Or.inl h1
        · exact Or.inr (Or.inl h1)
        · rw [hk] at h1; simp at h1; exact absurd h1 hne
      · simp at hr; subst hr
        intro j hj
        simp only [List.map_append, List.map_cons, List.map_nil, List.mem_append, List.mem_singleton]
        rcases h j hj with h1 | h1 | h1
        · exact Or.inl (Or.inl h1)
        · exact Or.inr (Or.inl h1)
        · rw [hk] at h1; simp at h1; exact Or.inl (Or.inr h1)
    · simp at hr; subst hr; exact h
  · -- drop
    split at hr
    · simp at hr; subst hr; exact noLeak_of_fields s _ h rfl rfl rfl rfl
    · split at hr
      · simp at hr; subst hr; exact h
      · try simp only [] at hr
        simp at hr; subst hr; exact pipeGone_noLeak _ _ _ (closePipe_noLeak _ _ hi h)
  · -- pclose
    split at hr
    · simp at hr; subst hr; exact noLeak_of_fields s _ h rfl rfl rfl rfl
    · split at hr
      · simp at hr; subst hr; exact h
      · try simp only [] at hr
        simp at hr; subst hr; exact pipeGone_noLeak _ _ _ (closePipe_noLeak _ _ hi h)
  · split at hr
    · simp at hr
    · split at hr <;> (simp at hr; subst hr)
      · exact h
      · exact setDialer_noLeak _ _ _ h
  · split at hr
    · simp at hr
    · split at hr <;> (simp at hr; subst hr)
      · exact h
      · exact setListener_noLeak _ _ _ h
  · simp at hr; subst hr; exact noLeak_of_fields s _ h rfl rfl rfl rfl
  · simp only [List.mem_singleton] at hr; subst hr; exact hookrelease_noLeak s h
  · simp at hr; subst hr; exact h
  · -- sockclose
    try simp only [] at hr
    simp at hr; subst hr
    exact closeAll_both _ _ (inv_of_fields s _ hi rfl rfl rfl rfl rfl rfl) (noLeak_of_fields s _ h rfl rfl rfl rfl)
  · simp at hr

theorem step_noLeak (s : State) (op : List String) (hi : Inv s) (h : NoLeak s) : ∀ o ∈ step s op, NoLeak o.1 := by
  intro o ho
  simp only [step, List.mem_flatMap, List.mem_map] at ho
  obtain ⟨st, hst, r, hr, r2, hr2, rfl⟩ := ho
  have i1 := timer_inv s _ hi st hst
  have n1 := timer_pres NoLeak redial_noLeak s _ h st hst
  have i2 := core_inv st.1 _ _ i1 r hr
  have n2 := core_noLeak st.1 _ _ i1 n1 r hr
  have n3 := timer_pres NoLeak redial_noLeak r.1 _ n2 r2 hr2
  exact noLeak_of_fields _ _ n3 rfl rfl rfl rfl

theorem reach_noLeak (s : State) (h : Reach s) : NoLeak s := by
  induction h with
  | init => intro k hk; simp [init] at hk
  | step s op o hs ho ih => exact step_noLeak s op (reach_inv s hs) ih o ho

end Core
end Model
