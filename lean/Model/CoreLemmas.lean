import Model.Core
namespace Model
namespace Core

/-! ### allocator -/

theorem allocScan_fresh (used : List Nat) : ∀ (fuel next id next' : Nat),
    allocScan used fuel next = some (id, next') → id ≠ 0 ∧ id < 0x80000000 ∧ id ∉ used := by
  intro fuel
  induction fuel with
  | zero => intro next id next' h; simp [allocScan] at h
  | succ n ih =>
    intro next id next' h
    simp only [allocScan] at h
    split at h
    · exact ih _ _ _ h
    · rename_i hc
      simp only [Option.some.injEq, Prod.mk.injEq] at h
      obtain ⟨rfl, _⟩ := h
      simp only [not_or, List.contains_iff_mem, Bool.not_eq_true, decide_eq_false_iff_not] at hc
      refine ⟨hc.1, Nat.mod_lt _ (by decide), ?_⟩
      intro hm
      exact hc.2 (by simpa using hm)

/-! ### lifecycle invariant -/

def hookOf (s : State) (k : Nat) : List String := (s.hooklog.filter (fun e => e.1 == k)).map (·.2)

/-- per pipe the hook sees Attaching first and once, then Attached at most once, then Detached at most once and only
    after Attached; a listed pipe has been reported Attached and not Detached, and its id is reserved; ids of pipes
    whose Detached callback has not returned are still reserved; no id is reserved twice -/
structure Inv (s : State) : Prop where
  bound : ∀ e ∈ s.hooklog, e.1 ≤ s.npipes
  shape : ∀ k, hookOf s k = [] ∨ hookOf s k = ["attaching"] ∨ hookOf s k = ["attaching", "attached"] ∨
               hookOf s k = ["attaching", "attached", "detached"]
  listed : ∀ p ∈ s.pipes, hookOf s p.k = ["attaching", "attached"] ∧ p.k ∈ s.used
  distinct : (s.pipes.map (·.k)).Nodup
  usedNodup : s.used.Nodup
  usedBound : ∀ k ∈ s.used, k ≤ s.npipes
  held : ∀ k ∈ s.heldDetached, k ∈ s.used ∧ k ∉ s.pipes.map (·.k)
  att : ∀ k ∈ s.attaching, hookOf s k = ["attaching"] ∧ k ∈ s.used ∧ k ∉ s.pipes.map (·.k) ∧ k ∉ s.heldDetached
  attOne : s.attaching.length ≤ 1

theorem hookOf_append (s : State) (k k' : Nat) (ev : String) (h : s.hooklog = l) :
    ((l ++ [(k', ev)]).filter (fun e => e.1 == k)).map (·.2) =
      (l.filter (fun e => e.1 == k)).map (·.2) ++ (if k' == k then [ev] else []) := by
  simp only [List.filter_append, List.map_append]
  congr 1
  by_cases hk : (k' == k) = true
  · simp [List.filter, hk]
  · simp [List.filter, hk]

theorem init_inv : Inv init := by
  constructor <;> simp [init, hookOf]

end Core
end Model

namespace Model
namespace Core

theorem hookOf_ext (s s' : State) (evs : List (Nat × String)) (h : s'.hooklog = s.hooklog ++ evs) (j : Nat) :
    hookOf s' j = hookOf s j ++ (evs.filter (fun e => e.1 == j)).map (·.2) := by
  simp [hookOf, h, List.filter_append, List.map_append]

theorem hookOf_fresh (s : State) (hb : ∀ e ∈ s.hooklog, e.1 ≤ s.npipes) (k : Nat) (hk : s.npipes < k) : hookOf s k = [] := by
  simp only [hookOf, List.map_eq_nil_iff, List.filter_eq_nil_iff]
  intro e he
  have := hb e he
  simp only [beq_iff_eq]
  omega

/-- states that agree on the lifecycle fields -/
theorem inv_of_fields (s s' : State) (h : Inv s) (h1 : s'.pipes = s.pipes) (h2 : s'.used = s.used) (h3 : s'.npipes = s.npipes)
    (h4 : s'.hooklog = s.hooklog) (h5 : s'.heldDetached = s.heldDetached) (h6 : s'.attaching = s.attaching) : Inv s' := by
  have hh : ∀ k, hookOf s' k = hookOf s k := by intro k; simp [hookOf, h4]
  constructor
  · rw [h4, h3]; exact h.bound
  · intro k; rw [hh]; exact h.shape k
  · rw [h1]; intro p hp; rw [hh, h2]; exact h.listed p hp
  · rw [h1]; exact h.distinct
  · rw [h2]; exact h.usedNodup
  · rw [h2, h3]; exact h.usedBound
  · rw [h5, h2, h1]; exact h.held
  · rw [h6, h2, h1, h5]; intro k hk; rw [hh]; exact h.att k hk
  · rw [h6]; exact h.attOne

theorem setDialer_inv (s : State) (d : Nat) (f : DialerSt → DialerSt) (h : Inv s) : Inv (setDialer s d f) :=
  inv_of_fields s _ h rfl rfl rfl rfl rfl rfl
theorem setListener_inv (s : State) (l : Nat) (f : ListenerSt → ListenerSt) (h : Inv s) : Inv (setListener s l f) :=
  inv_of_fields s _ h rfl rfl rfl rfl rfl rfl

theorem pipeGone_inv (s : State) (d : Option Nat) (now : Nat) (h : Inv s) : Inv (pipeGone s d now) := by
  unfold pipeGone
  split
  · exact h
  · exact setDialer_inv _ _ _ h

theorem erase_append_self (l : List Nat) (k : Nat) (h : k ∉ l) : (l ++ [k]).erase k = l := by
  induction l with
  | nil => simp
  | cons x xs ih =>
    simp only [List.mem_cons, not_or] at h
    have hx : (x == k) = false := by simpa using (Ne.symm h.1)
    simp [hx, ih h.2]

/-- a pipe that never reaches the protocol: only Attaching is logged, nothing stays reserved -/
theorem addPipe_rejected_inv (s : State) (h : Inv s) (extra : State → State)
    (hx : ∀ t, (extra t).pipes = t.pipes ∧ (extra t).used = t.used ∧ (extra t).npipes = t.npipes ∧ (extra t).hooklog = t.hooklog ∧ (extra t).heldDetached = t.heldDetached ∧ (extra t).attaching = t.attaching) :
    Inv (extra { s with npipes := s.npipes + 1, used := s.used, hooklog := s.hooklog ++ [(s.npipes + 1, "attaching")] }) := by
  obtain ⟨e1, e2, e3, e4, e5, e6⟩ := hx { s with npipes := s.npipes + 1, used := s.used, hooklog := s.hooklog ++ [(s.npipes + 1, "attaching")] }
  let t : State := { s with npipes := s.npipes + 1, used := s.used, hooklog := s.hooklog ++ [(s.npipes + 1, "attaching")] }
  have ht : Inv t := by
    have hext : ∀ j, hookOf t j = hookOf s j ++ (([(s.npipes + 1, "attaching")] : List (Nat × String)).filter (fun e => e.1 == j)).map (·.2) :=
      fun j => hookOf_ext s t _ rfl j
    have hne : ∀ j, j ≤ s.npipes → hookOf t j = hookOf s j := by
      intro j hj
      rw [hext]
      have : ((s.npipes + 1 == j) = false) := by simp; omega
      simp [List.filter, this]
    constructor
    · intro e he
      simp only [t, List.mem_append, List.mem_singleton] at he
      rcases he with he | rfl
      · have := h.bound e he; simp only [t]; omega
      · simp [t]
    · intro j
      by_cases hj : j ≤ s.npipes
      · rw [hne j hj]; exact h.shape j
      · by_cases hjk : j = s.npipes + 1
        · subst hjk
          rw [hext, hookOf_fresh s h.bound _ (by omega)]
          right; left; simp [List.filter]
        · rw [hext, hookOf_fresh s h.bound j (by omega)]
          have : ((s.npipes + 1 == j) = false) := by simp; omega
          left; simp [List.filter, this]
    · intro p hp
      have hk : p.k ≤ s.npipes := h.usedBound _ (h.listed p hp).2
      rw [hne _ hk]; exact h.listed p hp
    · exact h.distinct
    · exact h.usedNodup
    · intro k hk; have := h.usedBound k hk; simp only [t]; omega
    · exact h.held
    · intro k hk
      obtain ⟨a1, a2, a3, a4⟩ := h.att k hk
      exact ⟨by rw [hne k (h.usedBound k a2)]; exact a1, a2, a3, a4⟩
    · exact h.attOne
  exact inv_of_fields t _ ht e1 e2 e3 e4 e5 e6

end Core
end Model

namespace Model
namespace Core

theorem fresh_not_used (s : State) (h : Inv s) : s.npipes + 1 ∉ s.used := by
  intro hm; have := h.usedBound _ hm; omega

theorem rejected_state_inv (s : State) (h : Inv s) :
    Inv { s with npipes := s.npipes + 1, used := (s.used ++ [s.npipes + 1]).erase (s.npipes + 1),
                 hooklog := s.hooklog ++ [(s.npipes + 1, "attaching")] } := by
  rw [erase_append_self _ _ (fresh_not_used s h)]
  exact addPipe_rejected_inv s h id (fun _ => ⟨rfl, rfl, rfl, rfl, rfl, rfl⟩)

/-- the state after a pipe has been attached -/
def attachedState (s : State) (d : Option Nat) : State :=
  { s with npipes := s.npipes + 1, used := s.used ++ [s.npipes + 1], pipes := s.pipes ++ [{ k := s.npipes + 1, dialer := d, added := true, closed := false }], hooklog := (s.hooklog ++ [(s.npipes + 1, "attaching")]) ++ [(s.npipes + 1, "attached")] }

theorem attachedState_inv (s : State) (d : Option Nat) (h : Inv s) : Inv (attachedState s d) := by
  have hfresh := fresh_not_used s h
  have hk0 : hookOf s (s.npipes + 1) = [] := hookOf_fresh s h.bound _ (by omega)
  have hext : ∀ j, hookOf (attachedState s d) j = hookOf s j ++
      (([(s.npipes + 1, "attaching"), (s.npipes + 1, "attached")] : List (Nat × String)).filter (fun e => e.1 == j)).map (·.2) :=
    fun j => hookOf_ext s (attachedState s d) _ (by simp [attachedState]) j
  constructor
  · intro e he
    simp only [attachedState, List.mem_append, List.mem_singleton] at he
    rcases he with (he | rfl) | rfl
    · have := h.bound e he; simp only [attachedState]; omega
    · simp [attachedState]
    · simp [attachedState]
  · intro j
    rw [hext]
    by_cases hjk : j = s.npipes + 1
    · subst hjk; rw [hk0]; right; right; left; simp [List.filter]
    · have : ((s.npipes + 1 == j) = false) := by simpa using (Ne.symm hjk)
      simp only [List.filter, this, List.map_nil, List.append_nil]
      exact h.shape j
  · intro p hp
    simp only [attachedState, List.mem_append, List.mem_singleton] at hp
    rcases hp with hp | rfl
    · have hl := h.listed p hp
      have hne : p.k ≠ s.npipes + 1 := by
        intro e; exact hfresh (e ▸ hl.2)
      have : ((s.npipes + 1 == p.k) = false) := by simpa using (Ne.symm hne)
      rw [hext]
      simp only [List.filter, this, List.map_nil, List.append_nil]
      exact ⟨hl.1, by simp only [attachedState]; exact List.mem_append_left _ hl.2⟩
    · rw [hext, hk0]
      simp [List.filter, attachedState]
  · simp only [attachedState, List.map_append, List.map_cons, List.map_nil]
    rw [List.nodup_append]
    refine ⟨h.distinct, by simp, ?_⟩
    intro a ha b hb
    simp only [List.mem_singleton] at hb
    subst hb
    simp only [List.mem_map] at ha
    obtain ⟨p, hp, rfl⟩ := ha
    intro e
    exact hfresh (e ▸ (h.listed p hp).2)
  · simp only [attachedState]
    rw [List.nodup_append]
    refine ⟨h.usedNodup, by simp, ?_⟩
    intro a ha b hb
    simp only [List.mem_singleton] at hb
    subst hb
    intro e; exact hfresh (e ▸ ha)
  · intro j hj
    simp only [attachedState, List.mem_append, List.mem_singleton] at hj
    rcases hj with hj | rfl
    · have := h.usedBound j hj; simp only [attachedState]; omega
    · simp [attachedState]
  · intro j hj
    obtain ⟨h1, h2⟩ := h.held j hj
    refine ⟨by simp only [attachedState]; exact List.mem_append_left _ h1, ?_⟩
    simp only [attachedState, List.map_append, List.map_cons, List.map_nil, List.mem_append, List.mem_singleton, not_or]
    refine ⟨h2, ?_⟩
    intro e; exact hfresh (e ▸ h1)
  · intro j hj
    obtain ⟨a1, a2, a3, a4⟩ := h.att j hj
    have hne : j ≠ s.npipes + 1 := by intro e; exact hfresh (e ▸ a2)
    have : ((s.npipes + 1 == j) = false) := by simpa using (Ne.symm hne)
    refine ⟨?_, by simp only [attachedState]; exact List.mem_append_left _ a2, ?_, a4⟩
    · rw [hext]; simp only [List.filter, this, List.map_nil, List.append_nil]; exact a1
    · simp only [attachedState, List.map_append, List.map_cons, List.map_nil, List.mem_append, List.mem_singleton, not_or]
      exact ⟨a3, hne⟩
  · exact h.attOne

theorem addPipe_inv (s : State) (d : Option Nat) (mode : String) (h : Inv s) : Inv (addPipe s d mode).1 := by
  unfold addPipe
  simp only []
  split
  · exact rejected_state_inv s h
  · exact rejected_state_inv s h
  · split
    · exact rejected_state_inv s h
    · exact attachedState_inv s d h

end Core
end Model

namespace Model
namespace Core

def detachedLog (s : State) (k : Nat) : State := { s with pipes := s.pipes.filter (fun p => p.k != k), hooklog := s.hooklog ++ [(k, "detached")] }

theorem closePipe_inv (s : State) (k : Nat) (h : Inv s) : Inv (closePipe s k).1 := by
  unfold closePipe
  split
  · exact h
  · rename_i p hfind
    have hp : p ∈ s.pipes := List.mem_of_find?_eq_some hfind
    have hpk : p.k = k := by simpa using List.find?_some hfind
    obtain ⟨hlog, hused⟩ := h.listed p hp
    rw [hpk] at hlog hused
    have hext : ∀ (t : State), t.hooklog = s.hooklog ++ [(k, "detached")] → ∀ j, hookOf t j = hookOf s j ++ (if k == j then ["detached"] else []) := by
      intro t ht j
      rw [hookOf_ext s t _ ht j]
      by_cases hj : (k == j) = true
      · simp [List.filter, hj]
      · simp [List.filter, hj]
    have hkin : k ∈ s.pipes.map (·.k) := List.mem_map.mpr ⟨p, hp, hpk⟩
    have common : ∀ (t : State), t.hooklog = s.hooklog ++ [(k, "detached")] → t.npipes = s.npipes →
        t.pipes = s.pipes.filter (fun p => p.k != k) →
        (∀ e ∈ t.hooklog, e.1 ≤ t.npipes) ∧
        (∀ j, hookOf t j = [] ∨ hookOf t j = ["attaching"] ∨ hookOf t j = ["attaching", "attached"] ∨ hookOf t j = ["attaching", "attached", "detached"]) ∧
        (∀ q ∈ t.pipes, hookOf t q.k = ["attaching", "attached"] ∧ q.k ≠ k ∧ q.k ∈ s.used) ∧ (t.pipes.map (·.k)).Nodup := by
      intro t ht hn hpipes
      refine ⟨?_, ?_, ?_, ?_⟩
      · intro e he
        rw [ht] at he
        simp only [List.mem_append, List.mem_singleton] at he
        rcases he with he | rfl
        · rw [hn]; exact h.bound e he
        · rw [hn]; exact h.usedBound k hused
      · intro j
        rw [hext t ht j]
        by_cases hj : k = j
        · subst hj; simp [hlog]
        · have : (k == j) = false := by simpa using hj
          simp only [this, Bool.false_eq_true, if_false, List.append_nil]
          exact h.shape j
      · intro q hq
        rw [hpipes, List.mem_filter] at hq
        have hne : q.k ≠ k := by simpa using hq.2
        have : (k == q.k) = false := by simpa using (Ne.symm hne)
        rw [hext t ht q.k]
        simp only [this, Bool.false_eq_true, if_false, List.append_nil]
        exact ⟨(h.listed q hq.1).1, hne, (h.listed q hq.1).2⟩
      · rw [hpipes]
        exact (List.Sublist.map _ List.filter_sublist).nodup h.distinct
    split
    · -- the application's Detached callback is parked: the id stays reserved
      have c := common { detachedLog s k with heldDetached := s.heldDetached ++ [k] } rfl rfl rfl
      obtain ⟨c1, c2, c3, c4⟩ := c
      constructor
      · exact c1
      · exact c2
      · intro q hq; exact ⟨(c3 q hq).1, (c3 q hq).2.2⟩
      · exact c4
      · exact h.usedNodup
      · exact h.usedBound
      · intro j hj
        simp only [detachedLog, List.mem_append, List.mem_singleton] at hj
        rcases hj with hj | rfl
        · obtain ⟨h1, h2⟩ := h.held j hj
          refine ⟨h1, ?_⟩
          intro hm
          simp only [detachedLog, List.mem_map, List.mem_filter] at hm
          obtain ⟨q, ⟨hq, _⟩, rfl⟩ := hm
          exact h2 (List.mem_map.mpr ⟨q, hq, rfl⟩)
        · refine ⟨hused, ?_⟩
          intro hm
          simp only [detachedLog, List.mem_map, List.mem_filter] at hm
          obtain ⟨q, ⟨_, hq2⟩, hqk⟩ := hm
          simp [hqk] at hq2
      · intro j hj
        obtain ⟨a1, a2, a3, a4⟩ := h.att j hj
        have hne : j ≠ k := by intro e; exact a3 (e ▸ hkin)
        have hkj : (k == j) = false := by simpa using (Ne.symm hne)
        refine ⟨?_, a2, ?_, ?_⟩
        · rw [hext _ rfl j]; simp only [hkj, Bool.false_eq_true, if_false, List.append_nil]; exact a1
        · intro hm
          simp only [detachedLog, List.mem_map, List.mem_filter] at hm
          obtain ⟨q, ⟨hq, _⟩, rfl⟩ := hm
          exact a3 (List.mem_map.mpr ⟨q, hq, rfl⟩)
        · simp only [detachedLog, List.mem_append, List.mem_singleton, not_or]
          exact ⟨a4, hne⟩
      · exact h.attOne
    · have c := common { detachedLog s k with used := s.used.erase k } rfl rfl rfl
      obtain ⟨c1, c2, c3, c4⟩ := c
      constructor
      · exact c1
      · exact c2
      · intro q hq
        exact ⟨(c3 q hq).1, (List.mem_erase_of_ne (c3 q hq).2.1).mpr (c3 q hq).2.2⟩
      · exact c4
      · exact h.usedNodup.erase k
      · intro j hj; exact h.usedBound j (List.mem_of_mem_erase hj)
      · intro j hj
        obtain ⟨h1, h2⟩ := h.held j hj
        have hne : j ≠ k := by intro e; exact h2 (e ▸ hkin)
        refine ⟨(List.mem_erase_of_ne hne).mpr h1, ?_⟩
        intro hm
        simp only [detachedLog, List.mem_map, List.mem_filter] at hm
        obtain ⟨q, ⟨hq, _⟩, rfl⟩ := hm
        exact h2 (List.mem_map.mpr ⟨q, hq, rfl⟩)
      · intro j hj
        obtain ⟨a1, a2, a3, a4⟩ := h.att j hj
        have hne : j ≠ k := by intro e; exact a3 (e ▸ hkin)
        have hkj : (k == j) = false := by simpa using (Ne.symm hne)
        refine ⟨?_, (List.mem_erase_of_ne hne).mpr a2, ?_, a4⟩
        · rw [hext _ rfl j]; simp only [hkj, Bool.false_eq_true, if_false, List.append_nil]; exact a1
        · intro hm
          simp only [detachedLog, List.mem_map, List.mem_filter] at hm
          obtain ⟨q, ⟨hq, _⟩, rfl⟩ := hm
          exact a3 (List.mem_map.mpr ⟨q, hq, rfl⟩)
      · exact h.attOne

end Core
end Model

namespace Model
namespace Core

theorem closeAll_inv (l : List PipeSt) (acc : State × List CEv) (h : Inv acc.1) :
    Inv (l.foldl (fun (acc : State × List CEv) p => let r := closePipe acc.1 p.k; (r.1, acc.2 ++ r.2)) acc).1 := by
  induction l generalizing acc with
  | nil => simpa using h
  | cons p ps ih =>
    simp only [List.foldl_cons]
    exact ih _ (closePipe_inv _ _ h)

theorem hookrelease_inv (s : State) (h : Inv s) :
    Inv { s with used := s.used.filter (fun k => !s.heldDetached.contains k), heldDetached := [], hookHold := false } := by
  constructor
  · exact h.bound
  · exact h.shape
  · intro p hp
    refine ⟨(h.listed p hp).1, ?_⟩
    simp only [List.mem_filter, Bool.not_eq_true']
    refine ⟨(h.listed p hp).2, ?_⟩
    cases hc : s.heldDetached.contains p.k with
    | false => rfl
    | true =>
      have hm : p.k ∈ s.heldDetached := by simpa using hc
      exact absurd (List.mem_map.mpr ⟨p, hp, rfl⟩) (h.held _ hm).2
  · exact h.distinct
  · exact List.Nodup.sublist List.filter_sublist h.usedNodup
  · intro k hk; exact h.usedBound k (List.mem_filter.mp hk).1
  · intro j hj; simp at hj
  · intro j hj
    obtain ⟨a1, a2, a3, a4⟩ := h.att j hj
    refine ⟨a1, ?_, a3, by simp⟩
    simp only [List.mem_filter, Bool.not_eq_true']
    refine ⟨a2, ?_⟩
    cases hc : s.heldDetached.contains j with
    | false => rfl
    | true => exact absurd (by simpa using hc) a4
  · exact h.attOne

theorem redial_inv (s : State) (d : Nat) (h : Inv s) : Inv (redial s d).1 := by
  unfold redial
  split
  · exact h
  · split
    · exact setDialer_inv _ _ _ h
    · split <;> exact setDialer_inv _ _ _ h

theorem timer_inv (s : State) (now : Nat) (h : Inv s) : ∀ st ∈ timerOutcomes s now, Inv st.1 := by
  unfold timerOutcomes
  have key : ∀ (l : List DialerSt) (acc : List (State × List CEv)), (∀ st ∈ acc, Inv st.1) →
      ∀ st ∈ l.foldl (fun (acc : List (State × List CEv)) d0 =>
        acc.flatMap (fun (st : State × List CEv) =>
          match getDialer st.1 d0.d with
          | none => [st]
          | some x =>
            match x.timer with
            | none => [st]
            | some t =>
              let mayFire := decide (t.tmin ≤ now)
              let mustFire := decide (t.tmax + slack ≤ now)
              let fired := let r := redial st.1 x.d; (r.1, st.2 ++ r.2)
              if mustFire then [fired] else if mayFire then [st, fired] else [st])) acc, Inv st.1 := by
    intro l
    induction l with
    | nil => intro acc hacc st hst; exact hacc st hst
    | cons v vs ih =>
      intro acc hacc
      simp only [List.foldl_cons]
      apply ih
      intro st hst
      simp only [List.mem_flatMap] at hst
      obtain ⟨st0, hst0, hst⟩ := hst
      have h0 := hacc st0 hst0
      split at hst
      · simp at hst; subst hst; exact h0
      · split at hst
        · simp at hst; subst hst; exact h0
        · try simp only [] at hst
          split at hst
          · simp at hst; subst hst; exact redial_inv st0.1 _ h0
          · split at hst
            · simp at hst
              rcases hst with rfl | rfl
              · exact h0
              · exact redial_inv st0.1 _ h0
            · simp at hst; subst hst; exact h0
  exact key s.dialers [(s, [])] (by intro st hst; simp at hst; subst hst; exact h)

theorem hookpark_inv (s : State) (h : Inv s) :
    Inv { s with npipes := s.npipes + 1, used := s.used ++ [s.npipes + 1], hooklog := s.hooklog ++ [(s.npipes + 1, "attaching")],
                 attaching := [s.npipes + 1], attachClosed := false } := by
  have ht := addPipe_rejected_inv s h id (fun _ => ⟨rfl, rfl, rfl, rfl, rfl, rfl⟩)
  simp only [id] at ht
  have hfresh := fresh_not_used s h
  constructor
  · exact ht.bound
  · exact ht.shape
  · intro p hp; exact ⟨(ht.listed p hp).1, List.mem_append_left _ (ht.listed p hp).2⟩
  · exact ht.distinct
  · show (s.used ++ [s.npipes + 1]).Nodup
    rw [List.nodup_append]
    refine ⟨h.usedNodup, by simp, ?_⟩
    intro a ha b hb; simp only [List.mem_singleton] at hb; subst hb; intro e; exact hfresh (e ▸ ha)
  · intro j hj
    simp only [List.mem_append, List.mem_singleton] at hj
    rcases hj with hj | rfl
    · have := h.usedBound j hj; show j ≤ s.npipes + 1; omega
    · exact Nat.le_refl _
  · intro j hj; obtain ⟨h1, h2⟩ := ht.held j hj; exact ⟨List.mem_append_left _ h1, h2⟩
  · intro j hj
    simp only [List.mem_singleton] at hj; subst hj
    refine ⟨?_, by simp, ?_, ?_⟩
    · have hk0 : hookOf s (s.npipes + 1) = [] := hookOf_fresh s h.bound _ (by omega)
      simp only [hookOf] at hk0 ⊢
      simp [List.filter_append, hk0, List.filter]
    · intro hm; obtain ⟨p, hp, hpk⟩ := List.mem_map.mp hm; exact hfresh (hpk ▸ (h.listed p hp).2)
    · intro hm; exact hfresh (h.held _ hm).1
  · simp

theorem attachrelease_closed_inv (s : State) (h : Inv s) (k : Nat) (hk : s.attaching = [k]) :
    Inv { s with used := s.used.erase k, attaching := [], attachClosed := false } := by
  obtain ⟨_, a2, a3, a4⟩ := h.att k (by simp [hk])
  constructor
  · exact h.bound
  · exact h.shape
  · intro p hp
    have hne : p.k ≠ k := by intro e; exact a3 (List.mem_map.mpr ⟨p, hp, e⟩)
    exact ⟨(h.listed p hp).1, (List.mem_erase_of_ne hne).mpr (h.listed p hp).2⟩
  · exact h.distinct
  · exact h.usedNodup.erase k
  · intro j hj; exact h.usedBound j (List.mem_of_mem_erase hj)
  · intro j hj
    obtain ⟨h1, h2⟩ := h.held j hj
    have hne : j ≠ k := by intro e; exact a4 (e ▸ hj)
    exact ⟨(List.mem_erase_of_ne hne).mpr h1, h2⟩
  · intro j hj; simp at hj
  · simp

theorem attachrelease_ok_inv (s : State) (h : Inv s) (k : Nat) (hk : s.attaching = [k]) :
    Inv { s with pipes := s.pipes ++ [{ k := k, dialer := none, added := true, closed := false }],
                 hooklog := s.hooklog ++ [(k, "attached")], attaching := [] } := by
  obtain ⟨a1, a2, a3, a4⟩ := h.att k (by simp [hk])
  have hext : ∀ (t : State), t.hooklog = s.hooklog ++ [(k, "attached")] → ∀ j, hookOf t j = hookOf s j ++ (if k == j then ["attached"] else []) := by
    intro t ht j
    rw [hookOf_ext s t _ ht j]
    by_cases hj : (k == j) = true
    · simp [List.filter, hj]
    · simp [List.filter, hj]
  constructor
  · intro e he
    simp only [List.mem_append, List.mem_singleton] at he
    rcases he with he | rfl
    · exact h.bound e he
    · exact h.usedBound k a2
  · intro j
    rw [hext _ rfl j]
    by_cases hj : k = j
    · subst hj; simp [a1]
    · have : (k == j) = false := by simpa using hj
      simp only [this, Bool.false_eq_true, if_false, List.append_nil]
      exact h.shape j
  · intro p hp
    simp only [List.mem_append, List.mem_singleton] at hp
    rcases hp with hp | rfl
    · have hne : p.k ≠ k := by intro e; exact a3 (List.mem_map.mpr ⟨p, hp, e⟩)
      have : (k == p.k) = false := by simpa using (Ne.symm hne)
      rw [hext _ rfl p.k]
      simp only [this, Bool.false_eq_true, if_false, List.append_nil]
      exact h.listed p hp
    · rw [hext _ rfl k]; simp [a1, a2]
  · simp only [List.map_append, List.map_cons, List.map_nil]
    rw [List.nodup_append]
    refine ⟨h.distinct, by simp, ?_⟩
    intro a ha b hb
    simp only [List.mem_singleton] at hb
    subst hb
    intro e; exact a3 (e ▸ ha)
  · exact h.usedNodup
  · exact h.usedBound
  · intro j hj
    obtain ⟨h1, h2⟩ := h.held j hj
    refine ⟨h1, ?_⟩
    simp only [List.map_append, List.map_cons, List.map_nil, List.mem_append, List.mem_singleton, not_or]
    exact ⟨h2, fun e => a4 (e ▸ hj)⟩
  · intro j hj; simp at hj
  · simp

theorem core_inv (s : State) (now : Nat) (op : List String) (h : Inv s) : ∀ r ∈ core s now op, Inv r.1 := by
  intro r hr
  unfold core at hr
  split at hr
  · simp at hr; subst hr; exact inv_of_fields s _ h rfl rfl rfl rfl rfl rfl
  · -- listen
    split at hr
    · simp at hr
    · split at hr
      · simp at hr; subst hr; exact h
      · split at hr
        · simp at hr; subst hr; exact h
        · split at hr
          · simp at hr; subst hr; exact h
          · simp at hr; subst hr; exact setListener_inv _ _ _ h
  · -- conn
    split at hr
    · simp at hr
    · split at hr
      · simp at hr; subst hr; exact h
      · split at hr
        · split at hr
          · simp at hr
          · try simp only [] at hr
            simp at hr; subst hr; exact hookpark_inv s h
        · split at hr
          · try simp only [] at hr
            simp at hr; subst hr; exact closePipe_inv _ _ (addPipe_inv _ _ _ h)
          · try simp only [] at hr
            simp at hr; subst hr; exact addPipe_inv _ _ _ h
  · simp at hr; subst hr; exact inv_of_fields s _ h rfl rfl rfl rfl rfl rfl
  · -- dial
    split at hr
    · simp at hr
    · split at hr
      · simp at hr; subst hr; exact h
      · split at hr
        · simp at hr; subst hr; exact h
        · split at hr <;> (simp at hr; subst hr; exact setDialer_inv _ _ _ h)
  · -- dialres ok
    split at hr
    · simp at hr
    · split at hr
      · simp at hr
      · try simp only [] at hr
        simp at hr; subst hr
        split
        · exact setDialer_inv _ _ _ (addPipe_inv _ _ _ h)
        · simp only []
          exact pipeGone_inv _ _ _ (setDialer_inv _ _ _ (addPipe_inv _ _ _ h))
  · -- dialres fail
    split at hr
    · simp at hr
    · split at hr
      · simp at hr
      · split at hr
        · simp at hr; subst hr; exact setDialer_inv _ _ _ h
        · try simp only [] at hr
          simp at hr; subst hr; exact setDialer_inv _ _ _ h
  · -- attachrelease
    split at hr
    · rename_i k hk
      split at hr
      · simp at hr; subst hr; exact attachrelease_closed_inv s h k hk
      · simp at hr; subst hr; exact attachrelease_ok_inv s h k hk
    · simp at hr; subst hr; exact h
  · -- drop
    split at hr
    · simp at hr; subst hr; exact inv_of_fields s _ h rfl rfl rfl rfl rfl rfl
    · split at hr
      · simp at hr; subst hr; exact h
      · try simp only [] at hr
        simp at hr; subst hr; exact pipeGone_inv _ _ _ (closePipe_inv _ _ h)
  · -- pclose
    split at hr
    · simp at hr; subst hr; exact inv_of_fields s _ h rfl rfl rfl rfl rfl rfl
    · split at hr
      · simp at hr; subst hr; exact h
      · try simp only [] at hr
        simp at hr; subst hr; exact pipeGone_inv _ _ _ (closePipe_inv _ _ h)
  · split at hr
    · simp at hr
    · split at hr <;> (simp at hr; subst hr)
      · exact h
      · exact setDialer_inv _ _ _ h
  · split at hr
    · simp at hr
    · split at hr <;> (simp at hr; subst hr)
      · exact h
      · exact setListener_inv _ _ _ h
  · simp at hr; subst hr; exact inv_of_fields s _ h rfl rfl rfl rfl rfl rfl
  · simp only [List.mem_singleton] at hr; subst hr; exact hookrelease_inv s h
  · simp at hr; subst hr; exact h
  · -- sockclose
    try simp only [] at hr
    simp at hr; subst hr
    exact closeAll_inv _ _ (inv_of_fields s _ h rfl rfl rfl rfl rfl rfl)
  · simp at hr

theorem step_inv (s : State) (op : List String) (h : Inv s) : ∀ o ∈ step s op, Inv o.1 := by
  intro o ho
  simp only [step, List.mem_flatMap, List.mem_map] at ho
  obtain ⟨st, hst, r, hr, r2, hr2, rfl⟩ := ho
  exact inv_of_fields _ _ (timer_inv r.1 _ (core_inv st.1 _ _ (timer_inv s _ h st hst) r hr) r2 hr2) rfl rfl rfl rfl rfl rfl

inductive Reach : State → Prop
  | init : Reach init
  | step (s : State) (op : List String) (o : State × String) : Reach s → o ∈ step s op → Reach o.1

theorem reach_inv (s : State) (h : Reach s) : Inv s := by
  induction h with
  | init => exact init_inv
  | step s op o _ ho ih => exact step_inv s op ih o ho

end Core
end Model

namespace Model
namespace Core

theorem getDialer_setDialer (s : State) (d : Nat) (f : DialerSt → DialerSt) (hf : ∀ y, (f y).d = y.d) (e : Nat) :
    getDialer (setDialer s d f) e = (getDialer s e).map (fun y => if y.d = d then f y else y) := by
  unfold getDialer setDialer
  simp only [List.find?_map]
  have : ((fun x => decide (x.d = e)) ∘ fun x => if x.d = d then f x else x) = (fun x => decide (x.d = e)) := by
    funext y
    simp only [Function.comp]
    split
    · rw [hf]
    · rfl
  rw [this]

theorem getDialer_d (s : State) (d : Nat) (x : DialerSt) (h : getDialer s d = some x) : x.d = d := by
  unfold getDialer at h
  simpa using List.find?_some h

theorem getDialer_of_fields (s s' : State) (h : s'.dialers = s.dialers) (d : Nat) : getDialer s' d = getDialer s d := by
  simp [getDialer, h]

end Core
end Model
