/-
  Model/AllocTotal.lean — the pipe id allocator's scan finds an id whenever one is free:
  among `fuel` consecutive counter values (fuel ≤ 2^31) the masked candidates are pairwise distinct, so at most
  |used| + 1 of them can be rejected (the ids in use, and zero).
-/
import Model.Core
namespace Model
namespace Core

theorem length_le_of_nodup_subset {l l' : List Nat} (hn : l.Nodup) (hs : ∀ a ∈ l, a ∈ l') : l.length ≤ l'.length := by
  induction l generalizing l' with
  | nil => exact Nat.zero_le _
  | cons a t ih =>
    have ha : a ∈ l' := hs a (by simp)
    have hnt : t.Nodup := (List.nodup_cons.mp hn).2
    have hat : a ∉ t := (List.nodup_cons.mp hn).1
    have hsub : ∀ b ∈ t, b ∈ l'.erase a := by
      intro b hb
      have hne : b ≠ a := fun e => hat (e ▸ hb)
      exact (List.mem_erase_of_ne hne).mpr (hs b (List.mem_cons_of_mem _ hb))
    have := ih hnt hsub
    rw [List.length_erase_of_mem ha] at this
    have hpos : 0 < l'.length := List.length_pos_of_mem ha
    simp only [List.length_cons]
    omega

theorem nodup_map_of_inj_on {α β : Type} (f : α → β) (l : List α) (hl : l.Nodup)
    (hinj : ∀ a ∈ l, ∀ b ∈ l, f a = f b → a = b) : (l.map f).Nodup := by
  induction l with
  | nil => simp
  | cons x xs ih =>
    simp only [List.map_cons, List.nodup_cons, List.mem_map, not_exists, not_and]
    obtain ⟨hx, hxs⟩ := List.nodup_cons.mp hl
    refine ⟨?_, ih hxs (fun a ha b hb => hinj a (List.mem_cons_of_mem _ ha) b (List.mem_cons_of_mem _ hb))⟩
    intro y hy heq
    have := hinj y (List.mem_cons_of_mem _ hy) x (by simp) heq
    exact hx (this ▸ hy)

/-- if the scan gives up, every candidate it looked at was zero or in use -/
theorem allocScan_none (used : List Nat) : ∀ (fuel next : Nat), allocScan used fuel next = none →
    ∀ i, i < fuel → ((next + i) % 0x80000000 = 0 ∨ (next + i) % 0x80000000 ∈ used) := by
  intro fuel
  induction fuel with
  | zero => intro next _ i hi; omega
  | succ n ih =>
    intro next h i hi
    simp only [allocScan] at h
    split at h
    · rename_i hc
      cases i with
      | zero =>
        simp only [Nat.add_zero]
        rcases hc with h0 | hu
        · exact Or.inl h0
        · exact Or.inr (by simpa using hu)
      | succ j =>
        have := ih (next + 1) h j (by omega)
        have e : next + 1 + j = next + (j + 1) := by omega
        rw [e] at this
        exact this
    · simp at h

/-- the allocator always finds an id when fewer than `fuel - 1` ids are in use: the scan over `fuel` consecutive counter
    values (at most 2^31 of them) cannot be refused every time -/
theorem allocScan_total (used : List Nat) (fuel next : Nat) (hf : used.length + 1 < fuel) (hM : fuel ≤ 0x80000000) :
    (allocScan used fuel next).isSome = true := by
  cases h : allocScan used fuel next with
  | some r => rfl
  | none =>
    exfalso
    have hall := allocScan_none used fuel next h
    let cands := (List.range fuel).map (fun i => (next + i) % 0x80000000)
    have hnd : cands.Nodup := by
      apply nodup_map_of_inj_on _ _ List.nodup_range
      intro i hi j hj hij
      simp only [List.mem_range] at hi hj
      omega
    have hsub : ∀ a ∈ cands, a ∈ 0 :: used := by
      intro a ha
      simp only [cands, List.mem_map, List.mem_range] at ha
      obtain ⟨i, hi, rfl⟩ := ha
      rcases hall i hi with h0 | hu
      · simp [h0]
      · exact List.mem_cons_of_mem _ hu
    have := length_le_of_nodup_subset hnd hsub
    simp only [cands, List.length_map, List.length_range, List.length_cons] at this
    omega

/-- in particular with the fuel the model is run with (ids in use + 4) -/
theorem allocScan_total' (used : List Nat) (next : Nat) (hM : used.length + 4 ≤ 0x80000000) :
    (allocScan used (used.length + 4) next).isSome = true :=
  allocScan_total used _ next (by omega) hM

end Core
end Model
