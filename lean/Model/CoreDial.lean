/-
  Model/CoreDial.lean — dialers over every history of the core machine.
  (1) the reconnect delay of an active dialer is always inside the configured window: with no maximum it is the
      reconnect time itself; with a maximum it lies between the smaller and the larger of reconnect time and maximum
      (`cur ≤ curHi` are the ends of the interval the random back-off factor leaves it in);
  (2) a closed dialer stays closed: whatever follows, it is still there and still closed — so every later redial timer
      finds it closed and starts nothing, and every later Dial is refused (Props/C14).
-/
import Model.CoreClose
namespace Model
namespace Core

def lo (x : DialerSt) : Nat := if x.maxT = 0 then x.minT else min x.minT x.maxT
def hi (x : DialerSt) : Nat := if x.maxT = 0 then x.minT else max x.minT x.maxT

def DialOK (x : DialerSt) : Prop := x.active = true → lo x ≤ x.cur ∧ x.cur ≤ x.curHi ∧ x.curHi ≤ hi x

def ClosedAt (d : Nat) (s : State) : Prop := ∃ x, getDialer s d = some x ∧ x.closed = true

structure DI (cd : Option Nat) (s : State) : Prop where
  ok : ∀ x ∈ s.dialers, DialOK x
  closed : ∀ d, cd = some d → ClosedAt d s

theorem DI_of_dialers (cd : Option Nat) (s s' : State) (h : DI cd s) (e : s'.dialers = s.dialers) : DI cd s' := by
  constructor
  · rw [e]; exact h.ok
  · intro d hd
    obtain ⟨x, hx, hc⟩ := h.closed d hd
    exact ⟨x, by rw [getDialer_of_fields s s' e]; exact hx, hc⟩

theorem setDialer_DI (cd : Option Nat) (s : State) (e : Nat) (f : DialerSt → DialerSt)
    (hf : ∀ y, (f y).d = y.d ∧ (y.closed = true → (f y).closed = true) ∧ (DialOK y → DialOK (f y))) (h : DI cd s) :
    DI cd (setDialer s e f) := by
  constructor
  · intro x hx
    have hx' : x ∈ s.dialers.map (fun x => if x.d = e then f x else x) := hx
    simp only [List.mem_map] at hx'
    obtain ⟨y, hy, rfl⟩ := hx'
    split
    · exact (hf y).2.2 (h.ok y hy)
    · exact h.ok y hy
  · intro d hd
    obtain ⟨x, hx, hc⟩ := h.closed d hd
    refine ⟨if x.d = e then f x else x, ?_, ?_⟩
    · rw [getDialer_setDialer s e f (fun y => (hf y).1) d, hx]; rfl
    · split
      · exact (hf x).2.1 hc
      · exact hc

theorem backoff_ok (y : DialerSt) (h : DialOK y) : DialOK (backoff y) := by
  unfold backoff
  split
  · exact h
  · rename_i hm
    intro ha
    obtain ⟨h1, h2, h3⟩ := h ha
    unfold lo hi at *
    simp only [hm, if_false] at *
    refine ⟨?_, ?_, ?_⟩ <;> omega

theorem window (y : DialerSt) : lo y ≤ y.minT ∧ y.minT ≤ hi y := by
  unfold lo hi
  split
  · exact ⟨Nat.le_refl _, Nat.le_refl _⟩
  · exact ⟨Nat.min_le_left _ _, Nat.le_max_left _ _⟩

/-- (re)starting at the reconnect time -/
theorem reset_ok (y : DialerSt) (a : Bool) (dl : Option Nat) :
    DialOK { y with active := a, cur := y.minT, curHi := y.minT, dialing := dl } := by
  intro _
  exact ⟨(window y).1, Nat.le_refl _, (window y).2⟩

theorem pipeGone_DI (cd : Option Nat) (s : State) (d : Option Nat) (now : Nat) (h : DI cd s) : DI cd (pipeGone s d now) := by
  unfold pipeGone; split
  · exact h
  · exact setDialer_DI cd _ _ _ (fun y => ⟨rfl, fun hc => hc, fun hy => hy⟩) h

theorem redial_DI (cd : Option Nat) (s : State) (d : Nat) (h : DI cd s) : DI cd (redial s d).1 := by
  unfold redial
  split
  · exact h
  · split
    · exact setDialer_DI cd _ _ _ (fun y => ⟨rfl, fun hc => hc, fun hy => hy⟩) h
    · split <;> exact setDialer_DI cd _ _ _ (fun y => ⟨rfl, fun hc => hc, fun hy => hy⟩) h

theorem addPipe_dialers (s : State) (d : Option Nat) (mode : String) : (addPipe s d mode).1.dialers = s.dialers := by
  unfold addPipe
  simp only []
  split
  · rfl
  · rfl
  · split <;> rfl

theorem closePipe_dialers (s : State) (k : Nat) : (closePipe s k).1.dialers = s.dialers := by
  unfold closePipe
  split
  · rfl
  · simp only []
    split <;> rfl

theorem closeAll_dialers (l : List PipeSt) (acc : State × List CEv) :
    (l.foldl (fun (acc : State × List CEv) p => let r := closePipe acc.1 p.k; (r.1, acc.2 ++ r.2)) acc).1.dialers = acc.1.dialers := by
  induction l generalizing acc with
  | nil => rfl
  | cons p ps ih =>
    simp only [List.foldl_cons]
    rw [ih]
    exact closePipe_dialers _ _

theorem getDialer_append (s : State) (n : DialerSt) (d : Nat) (x : DialerSt) (h : getDialer s d = some x) :
    getDialer { s with dialers := s.dialers ++ [n] } d = some x := by
  unfold getDialer at h ⊢
  simp only [List.find?_append, h, Option.some_or]

theorem closeMarks_DI (cd : Option Nat) (s : State) (ls : List ListenerSt) (h : DI cd s) :
    DI cd { s with closed := true, attachClosed := true, listeners := ls, dialers := s.dialers.map (fun x => { x with closed := true }) } := by
  constructor
  · intro x hx
    have hx' : x ∈ s.dialers.map (fun x => { x with closed := true }) := hx
    simp only [List.mem_map] at hx'
    obtain ⟨y, hy, rfl⟩ := hx'
    exact h.ok y hy
  · intro d hd
    obtain ⟨x, hx, _⟩ := h.closed d hd
    refine ⟨{ x with closed := true }, ?_, rfl⟩
    unfold getDialer at hx ⊢
    show (s.dialers.map (fun x => { x with closed := true })).find? _ = _
    rw [List.find?_map]
    have : ((fun x : DialerSt => decide (x.d = d)) ∘ fun (x : DialerSt) => { x with closed := true }) = (fun (x : DialerSt) => decide (x.d = d)) := by
      funext y; rfl
    rw [this, hx]; rfl

theorem core_DI (cd : Option Nat) (s : State) (now : Nat) (op : List String) (h : DI cd s) : ∀ r ∈ core s now op, DI cd r.1 := by
  intro r hr
  unfold core at hr
  split at hr
  · simp at hr; subst hr; exact DI_of_dialers cd s _ h rfl
  · -- listen
    split at hr
    · simp at hr
    · split at hr
      · simp at hr; subst hr; exact h
      · split at hr
        · simp at hr; subst hr; exact h
        · split at hr
          · simp at hr; subst hr; exact h
          · simp at hr; subst hr; exact DI_of_dialers cd s _ h rfl
  · -- conn
    split at hr
    · simp at hr
    · split at hr
      · simp at hr; subst hr; exact h
      · split at hr
        · split at hr
          · simp at hr
          · try simp only [] at hr
            simp at hr; subst hr; exact DI_of_dialers cd s _ h rfl
        · split at hr
          · try simp only [] at hr
            simp at hr; subst hr
            exact DI_of_dialers cd s _ h (by rw [closePipe_dialers, addPipe_dialers])
          · try simp only [] at hr
            simp at hr; subst hr; exact DI_of_dialers cd s _ h (addPipe_dialers _ _ _)
  · -- newdialer
    simp at hr; subst hr
    constructor
    · intro x hx
      simp only [List.mem_append, List.mem_singleton] at hx
      rcases hx with hx | rfl
      · exact h.ok x hx
      · intro ha; cases ha
    · intro d hd
      obtain ⟨x, hx, hc⟩ := h.closed d hd
      exact ⟨x, getDialer_append s _ d x hx, hc⟩
  · -- dial
    split at hr
    · simp at hr
    · split at hr
      · simp at hr; subst hr; exact h
      · split at hr
        · simp at hr; subst hr; exact h
        · split at hr <;> (simp at hr; subst hr; exact setDialer_DI cd _ _ _ (fun y => ⟨rfl, fun hc => hc, fun _ => reset_ok y true _⟩) h)
  · -- dialres ok
    split at hr
    · simp at hr
    · split at hr
      · simp at hr
      · try simp only [] at hr
        simp at hr; subst hr
        have hf : ∀ (b : Bool) (y : DialerSt), DialOK y → DialOK { y with dialing := none, cur := if b then y.minT else y.cur, curHi := if b then y.minT else y.curHi } := by
          intro b y hy
          cases b
          · exact hy
          · intro _
            exact ⟨(window y).1, Nat.le_refl _, (window y).2⟩
        split
        · exact setDialer_DI cd _ _ _ (fun y => ⟨rfl, fun hc => hc, hf true y⟩) (DI_of_dialers cd s _ h (addPipe_dialers _ _ _))
        · simp only []
          exact pipeGone_DI cd _ _ _ (setDialer_DI cd _ _ _ (fun y => ⟨rfl, fun hc => hc, hf false y⟩) (DI_of_dialers cd s _ h (addPipe_dialers _ _ _)))
  · -- dialres fail
    split at hr
    · simp at hr
    · split at hr
      · simp at hr
      · split at hr
        · simp at hr; subst hr
          exact setDialer_DI cd _ _ _ (fun y => ⟨rfl, fun hc => hc, fun _ ha => by cases ha⟩) h
        · try simp only [] at hr
          simp at hr; subst hr
          refine setDialer_DI cd _ _ _ (fun y => ⟨?_, ?_, fun hy => backoff_ok y hy⟩) h
          · unfold backoff; split <;> rfl
          · intro hc; unfold backoff; split <;> exact hc
  · -- attachrelease
    split at hr
    · split at hr
      · simp at hr; subst hr; exact DI_of_dialers cd s _ h rfl
      · simp at hr; subst hr; exact DI_of_dialers cd s _ h rfl
    · simp at hr; subst hr; exact h
  · -- drop
    split at hr
    · simp at hr; subst hr; exact DI_of_dialers cd s _ h rfl
    · split at hr
      · simp at hr; subst hr; exact h
      · try simp only [] at hr
        simp at hr; subst hr; exact pipeGone_DI cd _ _ _ (DI_of_dialers cd s _ h (closePipe_dialers _ _))
  · -- pclose
    split at hr
    · simp at hr; subst hr; exact DI_of_dialers cd s _ h rfl
    · split at hr
      · simp at hr; subst hr; exact h
      · try simp only [] at hr
        simp at hr; subst hr; exact pipeGone_DI cd _ _ _ (DI_of_dialers cd s _ h (closePipe_dialers _ _))
  · -- closedialer
    split at hr
    · simp at hr
    · split at hr <;> (simp at hr; subst hr)
      · exact h
      · exact setDialer_DI cd _ _ _ (fun y => ⟨rfl, fun _ => rfl, fun hy => hy⟩) h
  · -- closelistener
    split at hr
    · simp at hr
    · split at hr <;> (simp at hr; subst hr)
      · exact h
      · exact DI_of_dialers cd s _ h rfl
  · simp at hr; subst hr; exact DI_of_dialers cd s _ h rfl
  · simp only [List.mem_singleton] at hr; subst hr; exact DI_of_dialers cd s _ h rfl
  · simp at hr; subst hr; exact h
  · -- sockclose
    try simp only [] at hr
    simp at hr; subst hr
    have h1 := closeMarks_DI cd s (s.listeners.map (fun x => { x with closed := true })) h
    exact DI_of_dialers cd _ _ h1 (closeAll_dialers _ _)
  · simp at hr

theorem step_DI (cd : Option Nat) (s : State) (op : List String) (h : DI cd s) : ∀ o ∈ step s op, DI cd o.1 := by
  intro o ho
  simp only [step, List.mem_flatMap, List.mem_map] at ho
  obtain ⟨st, hst, r, hr, r2, hr2, rfl⟩ := ho
  have n1 := timer_pres (DI cd) (redial_DI cd) s _ h st hst
  have n2 := core_DI cd st.1 _ _ n1 r hr
  have n3 := timer_pres (DI cd) (redial_DI cd) r.1 _ n2 r2 hr2
  exact DI_of_dialers cd _ _ n3 rfl

/-- over every history: the delay of every active dialer is inside the configured window -/
theorem reach_dialOK (s : State) (h : Reach s) : ∀ x ∈ s.dialers, DialOK x := by
  have : DI none s := by
    induction h with
    | init => exact ⟨by intro x hx; simp [init] at hx, by intro d hd; cases hd⟩
    | step s op o _ ho ih => exact step_DI none s op ih o ho
  exact this.ok

/-- the histories that continue from state s -/
inductive ReachFrom (s : State) : State → Prop
  | refl : ReachFrom s s
  | step (t : State) (op : List String) (o : State × String) : ReachFrom s t → o ∈ step t op → ReachFrom s o.1

/-- over every continuation of every history: a closed dialer is still there and still closed -/
theorem closed_stays_closed (s : State) (hs : Reach s) (d : Nat) (hc : ClosedAt d s) : ∀ t, ReachFrom s t → ClosedAt d t := by
  intro t ht
  have : DI (some d) t := by
    induction ht with
    | refl => exact ⟨reach_dialOK s hs, by intro d' hd'; cases hd'; exact hc⟩
    | step t op o _ ho ih => exact step_DI (some d) t op ih o ho
  exact this.closed d rfl

end Core
end Model
