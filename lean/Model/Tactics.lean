/-
  Model/Tactics.lean — closing tactics for per-run guard obligations: after the generated
  guard and its specification have been unfolded, reduce Bool equalities to propositional
  equivalences of linear integer facts and discharge them with `omega`.
-/
namespace Model

syntax "bool_omega" : tactic
macro_rules
  | `(tactic| bool_omega) =>
    `(tactic| (try simp) <;> first
      | done
      | omega
      | (rw [Bool.eq_iff_iff]
         simp only [Bool.or_eq_true, Bool.and_eq_true, Bool.not_eq_true', Bool.not_eq_eq_eq_not, Bool.not_true,
           decide_eq_true_eq, decide_eq_false_iff_not, Bool.true_and, Bool.and_true, true_and, and_true, ne_eq]
         omega))

syntax "close_guard" : tactic
macro_rules
  | `(tactic| close_guard) =>
    `(tactic| (repeat' split) <;> (first | rfl | omega | (exfalso; omega) | (simp_all; done) | (simp_all; omega)))

end Model
