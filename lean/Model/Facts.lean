/-
  Model/Facts.lean — record types of the facts `cmd/extract` regenerates from the Go source.
-/
import Model.GExpr
namespace Model

structure ProtoRow where
  pkg : String
  self : String       -- name of the Proto… constant
  peer : String
  selfName : String
  peerName : String
deriving Repr, DecidableEq

structure HopSite where
  init : Nat
  drop : GExpr        -- over "hops", "ttl"
  shape : List String -- statement order of the loop body, as read
deriving Repr, DecidableEq, BEq

structure OptRow where
  pkg : String
  recv : String
  opt : String
  ty : String
  guard : GExpr       -- over "v"; `ok` already replaced by tt
deriving Repr, DecidableEq

/-- a blocking API call site (SendMsg / RecvMsg of a protocol socket or context), as read from the source -/
structure WaitSite where
  pkg : String
  recv : String
  fn : String
  timer : String          -- "none" | "once" | "loop" (created inside the retry loop) | "once-func" | "loop-func" (time.AfterFunc)
  timerGuard : GExpr      -- over "expire": when the deadline timer is armed
  timerArg : String       -- "expire" when the timer's duration is the deadline option
  bestEffort : String     -- "closedQ": best-effort replaces the timer channel by the always-ready one; "none"
  failNoPeers : GExpr     -- guard of the early ErrNoPeers return, over "failNoPeers", "npipes" (ff = none)
  cases : List (String × String)  -- (communication, what the case does) of every select in the function
  condWaits : List String -- loop conditions of condition-variable waits
deriving Repr, DecidableEq

/-- one allocation of a message queue in a protocol: `target := make(chan *protocol.Message, cap)` -/
structure QueueAlloc where
  pkg : String
  fn : String
  target : String
  tkind : String      -- "send" | "recv" | "new" (a replacement queue built inside SetOption)
  cap : String
  ckind : String      -- "sendQLen" | "recvQLen" | "default" | "value" (the option value / a length passed in) | "other:…"
  optCase : String    -- the SetOption case the allocation sits in ("" outside SetOption)
deriving Repr, DecidableEq

end Model
