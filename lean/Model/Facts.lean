/-
  Model/Facts.lean — record types of the facts `cmd/extract` regenerates from the Go source.
-/
import Model.GExpr
namespace Model

structure ProtoRow where
  pkg : String
  self : String       -- name of the Proto… constant
  peer : String
  selfName : String
  peerName : String
deriving Repr, DecidableEq

structure HopSite where
  init : Nat
  drop : GExpr        -- over "hops", "ttl"
  shape : List String -- statement order of the loop body, as read
deriving Repr, DecidableEq, BEq

structure OptRow where
  pkg : String
  recv : String
  opt : String
  ty : String
  guard : GExpr       -- over "v"; `ok` already replaced by tt
deriving Repr, DecidableEq

end Model
