/-
  Model/Inproc.lean — the rendezvous of the inproc transport (transport/inproc/inproc.go: the process-wide table
  `listeners.byAddr`, `listener.Listen` / `Accept` / `Close`, `dialer.Dial` / `Close`), all under the one mutex
  `listeners.mx` with the condition variable `listeners.cv`.

  `Listen` binds the listener to its address unless the address is taken (ErrAddrInUse) or the listener closed.
  `Accept` puts a fresh half-connection on the listener's `accepters` and waits until a dialer has taken it or the
  listener is closed.  `Dial` looks the address up (nobody there: ErrConnRefused at once), compares the protocol
  numbers (ErrBadProto), takes the most recently offered accepter, or waits on the condition variable — without limit —
  until one of those answers changes; closing the dialer ends the wait (D25).  `Close` of a listener unbinds the
  address (only if it is the one bound there), fails every waiting Accept and wakes the waiting dials, which then find
  nobody at the address.

  Static facts of a listener or dialer (address, own and peer protocol number) travel with the operations; the state
  records them where the code's decision depends on them later (the binding, a parked dial).  Where several parked
  dials compete for one accepter the runtime chooses: `step` returns every outcome.

  Proved over all histories (`reach_inv`):
    * an address is bound to at most one listener, and only to a listener that listened and is not closed;
    * a closed listener is bound nowhere and has no Accept waiting (`closed_listener_keeps_nothing`);
    * no Dial waits for nothing: a parked Dial belongs to an open dialer, a live listener of the matching protocol is
      bound at its address, and that listener has no accepter on offer (`parked_dial_has_a_live_listener`) — so a
      waiting Dial and an Accept on offer never coexist at one address;
    * every call is in one place: the calls waiting in Accept, the calls waiting in Dial and the two ends of the
      connections made are pairwise distinct (`calls_are_in_one_place`) — an Accept is paired with exactly one Dial.
-/
namespace Model
namespace Inproc

structure Bind where
  addr : Nat
  lid : Nat
  self : Nat
  peer : Nat
deriving Repr, DecidableEq, BEq

structure Park where
  call : Nat
  did : Nat
  addr : Nat
  self : Nat
  peer : Nat
deriving Repr, DecidableEq, BEq

structure State where
  bound : List Bind := []
  activeL : List Nat := []
  closedL : List Nat := []
  closedD : List Nat := []
  accepters : List (Nat × Nat) := []     -- (listener, Accept call), oldest first; Dial takes the listener's last
  parked : List Park := []               -- Dial calls waiting on the condition variable
  conns : List (Nat × Nat) := []         -- ghost: (Accept call, Dial call) of every connection made
  used : List Nat := []                  -- ghost: call numbers seen
deriving Repr, DecidableEq, BEq

def init : State := {}

inductive Op
 | listen (lid addr self peer : Nat)
 | accept (lid call : Nat)
 | dial (did call addr self peer : Nat)
 | closeL (lid : Nat)
 | closeD (did : Nat)
deriving Repr, DecidableEq

def addNew (l : List Nat) (x : Nat) : List Nat := if l.contains x then l else l ++ [x]

def insertTok (x : Nat × String) : List (Nat × String) → List (Nat × String)
 | [] => [x]
 | y :: ys => if x.1 ≤ y.1 then x :: y :: ys else y :: insertTok x ys
def sortToks (l : List (Nat × String)) : List (Nat × String) := l.foldr insertTok []
def render (res : Option String) (rets : List (Nat × String)) : List String :=
  (match res with | some r => [s!"res:{r}"] | none => []) ++ (sortToks rets).map (fun t => s!"ret:{t.1}:{t.2}")

/-- the last accepter on offer at listener `lid` -/
def lastAcc (l : List (Nat × Nat)) (lid : Nat) : Option Nat :=
  ((l.filter (fun a => a.1 = lid)).getLast?).map (·.2)

def bindAt (s : State) (addr : Nat) : Option Bind := s.bound.find? (fun b => b.addr = addr)

/-- the parked dials that look at listener `lid` (their address is bound to it) -/
def lookingAt (s : State) (lid : Nat) : List Park :=
  s.parked.filter (fun p => s.bound.any (fun b => b.addr = p.addr ∧ b.lid = lid))

def useCall (s : State) (call : Nat) : State := { s with used := s.used ++ [call] }

def listenOk (s : State) (lid addr self peer : Nat) : State :=
  { s with bound := s.bound ++ [Bind.mk addr lid self peer],
           activeL := addNew s.activeL lid,
           parked := s.parked.filter (fun p => ¬ (p.addr = addr ∧ ¬ (p.self = peer ∧ p.peer = self))) }

def acceptPush (s : State) (lid call : Nat) : State := { s with accepters := s.accepters ++ [(lid, call)] }

def acceptPair (s : State) (call : Nat) (p : Park) : State :=
  { s with parked := s.parked.filter (fun q => q.call ≠ p.call), conns := s.conns ++ [(call, p.call)] }

def dialPair (s : State) (ac call : Nat) : State :=
  { s with accepters := s.accepters.filter (fun a => a.2 ≠ ac), conns := s.conns ++ [(ac, call)] }

def dialPark (s : State) (p : Park) : State := { s with parked := s.parked ++ [p] }

def goneAt (s : State) (lid : Nat) (p : Park) : Bool := (s.bound.filter (fun b => b.lid = lid)).any (fun b => b.addr = p.addr)

def closeLState (s : State) (lid : Nat) : State :=
  { s with bound := s.bound.filter (fun b => b.lid ≠ lid),
           closedL := addNew s.closedL lid,
           accepters := s.accepters.filter (fun a => a.1 ≠ lid),
           parked := s.parked.filter (fun p => ¬ goneAt s lid p) }

def closeDState (s : State) (did : Nat) : State :=
  { s with closedD := addNew s.closedD did, parked := s.parked.filter (fun p => p.did ≠ did) }

def step (s : State) : Op → List (State × List String)
 | .listen lid addr self peer =>
   if s.closedL.contains lid then [(s, render (some "closed") [])] else
   if (s.bound.any (fun b => b.addr = addr)) then [(s, render (some "addrinuse") [])] else
   -- woken dials at this address find the new listener: wrong protocol is told so, the others keep waiting
   [(listenOk s lid addr self peer,
     render (some "ok") ((s.parked.filter (fun p => p.addr = addr ∧ ¬ (p.self = peer ∧ p.peer = self))).map
       (fun p => (p.call, "badproto"))))]
 | .accept lid call =>
   if s.used.contains call then [] else
   let s := useCall s call
   if !s.activeL.contains lid || s.closedL.contains lid then [(s, render none [(call, "closed")])] else
   if (lookingAt s lid).isEmpty then [(acceptPush s lid call, render none [])] else
   (lookingAt s lid).map (fun p => (acceptPair s call p, render none [(call, "conn"), (p.call, "conn")]))
 | .dial did call addr self peer =>
   if s.used.contains call then [] else
   let s := useCall s call
   if s.closedD.contains did then [(s, render none [(call, "closed")])] else
   match bindAt s addr with
   | none => [(s, render none [(call, "refused")])]
   | some b =>
     if ¬ (self = b.peer ∧ peer = b.self) then [(s, render none [(call, "badproto")])] else
     match lastAcc s.accepters b.lid with
     | some ac => [(dialPair s ac call, render none [(ac, "conn"), (call, "conn")])]
     | none => [(dialPark s (Park.mk call did addr self peer), render none [])]
 | .closeL lid =>
   [(closeLState s lid,
     render (some "ok") ((s.accepters.filter (fun a => a.1 = lid)).map (fun a => (a.2, "closed")) ++
       (s.parked.filter (fun p => goneAt s lid p)).map (fun p => (p.call, "refused"))))]
 | .closeD did =>
   [(closeDState s did, render (some "ok") ((s.parked.filter (fun p => p.did = did)).map (fun p => (p.call, "closed"))))]

inductive Reach : State → Prop
 | init : Reach init
 | step (s : State) (o : Op) (r : State × List String) : Reach s → r ∈ step s o → Reach r.1

/-- the calls a state holds, place by place -/
def accCalls (s : State) : List Nat := s.accepters.map (·.2)
def parkCalls (s : State) : List Nat := s.parked.map (·.call)
def connCalls (s : State) : List Nat := s.conns.flatMap (fun c => [c.1, c.2])
def allCalls (s : State) : List Nat := accCalls s ++ parkCalls s ++ connCalls s

structure Inv (s : State) : Prop where
  boundNodup : (s.bound.map (·.addr)).Nodup
  boundLive : ∀ b ∈ s.bound, b.lid ∈ s.activeL ∧ b.lid ∉ s.closedL
  accLive : ∀ a ∈ s.accepters, a.1 ∈ s.activeL ∧ a.1 ∉ s.closedL
  parkedOK : ∀ p ∈ s.parked, p.did ∉ s.closedD ∧
      ∃ b ∈ s.bound, b.addr = p.addr ∧ p.self = b.peer ∧ p.peer = b.self ∧ ∀ a ∈ s.accepters, a.1 ≠ b.lid
  accNodup : (accCalls s).Nodup
  parkNodup : (parkCalls s).Nodup
  connNodup : (connCalls s).Nodup
  accPark : ∀ c ∈ accCalls s, c ∉ parkCalls s
  accConn : ∀ c ∈ accCalls s, c ∉ connCalls s
  parkConn : ∀ c ∈ parkCalls s, c ∉ connCalls s
  callsUsed : ∀ c, c ∈ accCalls s ∨ c ∈ parkCalls s ∨ c ∈ connCalls s → c ∈ s.used

theorem mem_addNew (l : List Nat) (y x : Nat) : x ∈ addNew l y ↔ x ∈ l ∨ x = y := by
  unfold addNew
  split
  · rename_i h
    have hy : y ∈ l := by simpa using h
    constructor
    · exact Or.inl
    · rintro (h | rfl)
      · exact h
      · exact hy
  · simp

theorem bindAt_some {s : State} {addr : Nat} {b : Bind} (h : bindAt s addr = some b) : b ∈ s.bound ∧ b.addr = addr := by
  unfold bindAt at h
  exact ⟨List.mem_of_find?_eq_some h, by simpa using List.find?_some h⟩

theorem lastAcc_some {l : List (Nat × Nat)} {lid ac : Nat} (h : lastAcc l lid = some ac) : (lid, ac) ∈ l := by
  unfold lastAcc at h
  cases hg : (l.filter (fun a => a.1 = lid)).getLast? with
  | none => simp [hg] at h
  | some a =>
    simp [hg] at h
    have hm : a ∈ l.filter (fun a => a.1 = lid) := List.mem_of_getLast? hg
    simp at hm
    obtain ⟨hm1, hm2⟩ := hm
    have : a = (lid, ac) := by cases a; simp_all
    exact this ▸ hm1

theorem lastAcc_none {l : List (Nat × Nat)} {lid : Nat} (h : lastAcc l lid = none) : ∀ a ∈ l, a.1 ≠ lid := by
  unfold lastAcc at h
  intro a ha he
  have : l.filter (fun a => a.1 = lid) = [] := by simpa using h
  have hm : a ∈ l.filter (fun a => a.1 = lid) := by simp [ha, he]
  rw [this] at hm
  cases hm

theorem init_inv : Inv init := by
  constructor <;> simp [init, accCalls, parkCalls, connCalls]

theorem useCall_inv (s : State) (call : Nat) (h : Inv s) : Inv (useCall s call) :=
  { boundNodup := h.boundNodup, boundLive := h.boundLive, accLive := h.accLive, parkedOK := h.parkedOK,
    accNodup := h.accNodup, parkNodup := h.parkNodup, connNodup := h.connNodup, accPark := h.accPark,
    accConn := h.accConn, parkConn := h.parkConn,
    callsUsed := fun c hc => by
      have := h.callsUsed c hc
      simp only [useCall, List.mem_append]
      exact Or.inl this }

theorem fresh_not_held (s : State) (call : Nat) (h : Inv s) (hf : call ∉ s.used) :
    call ∉ accCalls s ∧ call ∉ parkCalls s ∧ call ∉ connCalls s :=
  ⟨fun hx => hf (h.callsUsed _ (Or.inl hx)), fun hx => hf (h.callsUsed _ (Or.inr (Or.inl hx))),
   fun hx => hf (h.callsUsed _ (Or.inr (Or.inr hx)))⟩

theorem listenOk_inv (s : State) (lid addr self peer : Nat) (h : Inv s)
    (hc : lid ∉ s.closedL) (hb : ∀ b ∈ s.bound, b.addr ≠ addr) : Inv (listenOk s lid addr self peer) := by
  have hsub : (listenOk s lid addr self peer).parked.Sublist s.parked := List.filter_sublist
  constructor
  · simp only [listenOk, List.map_append, List.map_cons, List.map_nil]
    rw [List.nodup_append]
    refine ⟨h.boundNodup, by simp, ?_⟩
    intro a ha b hb2
    simp at hb2
    subst hb2
    simp only [List.mem_map] at ha
    obtain ⟨x, hx, rfl⟩ := ha
    exact hb x hx
  · intro b hb2
    simp only [listenOk, List.mem_append, List.mem_singleton] at hb2
    simp only [listenOk, mem_addNew]
    rcases hb2 with hb2 | rfl
    · exact ⟨Or.inl (h.boundLive b hb2).1, (h.boundLive b hb2).2⟩
    · exact ⟨Or.inr rfl, hc⟩
  · intro a ha
    simp only [listenOk, mem_addNew]
    exact ⟨Or.inl (h.accLive a ha).1, (h.accLive a ha).2⟩
  · intro p hp
    have hp' : p ∈ s.parked := hsub.subset hp
    obtain ⟨h1, b, hb1, hb2⟩ := h.parkedOK p hp'
    refine ⟨h1, b, ?_, hb2⟩
    simp only [listenOk, List.mem_append]
    exact Or.inl hb1
  · exact h.accNodup
  · exact (hsub.map _).nodup h.parkNodup
  · exact h.connNodup
  · intro c hc1 hc2
    exact h.accPark c hc1 ((hsub.map _).subset hc2)
  · exact h.accConn
  · intro c hc1
    exact h.parkConn c ((hsub.map _).subset hc1)
  · intro c hc1
    apply h.callsUsed c
    rcases hc1 with hc1 | hc1 | hc1
    · exact Or.inl hc1
    · exact Or.inr (Or.inl ((hsub.map _).subset hc1))
    · exact Or.inr (Or.inr hc1)

theorem mem_lookingAt {s : State} {lid : Nat} {p : Park} :
    p ∈ lookingAt s lid ↔ p ∈ s.parked ∧ ∃ b ∈ s.bound, b.addr = p.addr ∧ b.lid = lid := by
  simp [lookingAt]

theorem acceptPush_inv (s : State) (lid call : Nat) (h : Inv s) (hu : call ∈ s.used)
    (hn : call ∉ accCalls s ∧ call ∉ parkCalls s ∧ call ∉ connCalls s)
    (ha : lid ∈ s.activeL) (hc : lid ∉ s.closedL) (hl : lookingAt s lid = []) : Inv (acceptPush s lid call) := by
  obtain ⟨f1, f2, f3⟩ := hn
  constructor
  · exact h.boundNodup
  · exact h.boundLive
  · intro a ha2
    simp only [acceptPush, List.mem_append, List.mem_singleton] at ha2
    rcases ha2 with ha2 | rfl
    · exact h.accLive a ha2
    · exact ⟨ha, hc⟩
  · intro p hp
    obtain ⟨h1, b, hb1, hb2, hb3, hb4, hb5⟩ := h.parkedOK p hp
    refine ⟨h1, b, hb1, hb2, hb3, hb4, ?_⟩
    intro a ha2
    simp only [acceptPush, List.mem_append, List.mem_singleton] at ha2
    rcases ha2 with ha2 | rfl
    · exact hb5 a ha2
    · intro he
      have : p ∈ lookingAt s lid := mem_lookingAt.2 ⟨hp, b, hb1, hb2, he.symm⟩
      rw [hl] at this
      cases this
  · simp only [accCalls, acceptPush, List.map_append, List.map_cons, List.map_nil]
    rw [List.nodup_append]
    refine ⟨h.accNodup, by simp, ?_⟩
    intro a ha2 b hb
    simp at hb
    subst hb
    intro he
    subst he
    exact f1 ha2
  · exact h.parkNodup
  · exact h.connNodup
  · intro c hc1
    simp only [accCalls, acceptPush, List.map_append, List.map_cons, List.map_nil, List.mem_append, List.mem_singleton] at hc1
    rcases hc1 with hc1 | rfl
    · exact h.accPark c hc1
    · exact f2
  · intro c hc1
    simp only [accCalls, acceptPush, List.map_append, List.map_cons, List.map_nil, List.mem_append, List.mem_singleton] at hc1
    rcases hc1 with hc1 | rfl
    · exact h.accConn c hc1
    · exact f3
  · exact h.parkConn
  · intro c hc1
    simp only [accCalls, acceptPush, List.map_append, List.map_cons, List.map_nil, List.mem_append, List.mem_singleton] at hc1
    simp only [acceptPush]
    rcases hc1 with (hc1 | rfl) | hc1 | hc1
    · exact h.callsUsed c (Or.inl hc1)
    · exact hu
    · exact h.callsUsed c (Or.inr (Or.inl hc1))
    · exact h.callsUsed c (Or.inr (Or.inr hc1))

theorem mem_connCalls_snoc (l : List (Nat × Nat)) (a b x : Nat) :
    x ∈ (l ++ [(a, b)]).flatMap (fun c => [c.1, c.2]) ↔ x ∈ l.flatMap (fun c => [c.1, c.2]) ∨ x = a ∨ x = b := by
  simp

theorem connCalls_snoc_nodup (l : List (Nat × Nat)) (a b : Nat) (h : (l.flatMap (fun c => [c.1, c.2])).Nodup)
    (ha : a ∉ l.flatMap (fun c => [c.1, c.2])) (hb : b ∉ l.flatMap (fun c => [c.1, c.2])) (hab : a ≠ b) :
    ((l ++ [(a, b)]).flatMap (fun c => [c.1, c.2])).Nodup := by
  rw [List.flatMap_append, List.nodup_append]
  refine ⟨h, by simp [hab], ?_⟩
  intro x hx y hy
  simp at hy
  rcases hy with rfl | rfl
  · intro he; subst he; exact ha hx
  · intro he; subst he; exact hb hx

theorem acceptPair_inv (s : State) (call : Nat) (p : Park) (h : Inv s) (hu : call ∈ s.used)
    (hn : call ∉ accCalls s ∧ call ∉ parkCalls s ∧ call ∉ connCalls s) (hp : p ∈ s.parked) :
    Inv (acceptPair s call p) := by
  obtain ⟨f1, f2, f3⟩ := hn
  have hsub : (acceptPair s call p).parked.Sublist s.parked := List.filter_sublist
  have hpc : p.call ∈ parkCalls s := List.mem_map.2 ⟨p, hp, rfl⟩
  have hne : call ≠ p.call := fun he => f2 (he ▸ hpc)
  have hgone : p.call ∉ parkCalls (acceptPair s call p) := by
    simp only [parkCalls, acceptPair, List.mem_map, List.mem_filter]
    rintro ⟨q, ⟨_, hq2⟩, hq3⟩
    simp at hq2
    exact hq2 hq3
  constructor
  · exact h.boundNodup
  · exact h.boundLive
  · exact h.accLive
  · intro q hq
    exact h.parkedOK q (hsub.subset hq)
  · exact h.accNodup
  · exact (hsub.map _).nodup h.parkNodup
  · exact connCalls_snoc_nodup s.conns call p.call h.connNodup f3 (h.parkConn _ hpc) hne
  · intro c hc1 hc2
    exact h.accPark c hc1 ((hsub.map _).subset hc2)
  · intro c hc1 hc2
    have := (mem_connCalls_snoc s.conns call p.call c).1 hc2
    rcases this with h1 | rfl | rfl
    · exact h.accConn c hc1 h1
    · exact f1 hc1
    · exact h.accPark _ hc1 hpc
  · intro c hc1 hc2
    have hc1' : c ∈ parkCalls s := (hsub.map _).subset hc1
    have := (mem_connCalls_snoc s.conns call p.call c).1 hc2
    rcases this with h1 | rfl | rfl
    · exact h.parkConn c hc1' h1
    · exact f2 hc1'
    · exact hgone hc1
  · intro c hc1
    show c ∈ s.used
    rcases hc1 with hc1 | hc1 | hc1
    · exact h.callsUsed c (Or.inl hc1)
    · exact h.callsUsed c (Or.inr (Or.inl ((hsub.map _).subset hc1)))
    · have := (mem_connCalls_snoc s.conns call p.call c).1 hc1
      rcases this with h1 | rfl | rfl
      · exact h.callsUsed c (Or.inr (Or.inr h1))
      · exact hu
      · exact h.callsUsed _ (Or.inr (Or.inl hpc))

theorem dialPair_inv (s : State) (lid ac call : Nat) (h : Inv s) (hu : call ∈ s.used)
    (hn : call ∉ accCalls s ∧ call ∉ parkCalls s ∧ call ∉ connCalls s) (hac : (lid, ac) ∈ s.accepters) :
    Inv (dialPair s ac call) := by
  obtain ⟨f1, f2, f3⟩ := hn
  have hsub : (dialPair s ac call).accepters.Sublist s.accepters := List.filter_sublist
  have hacc : ac ∈ accCalls s := List.mem_map.2 ⟨(lid, ac), hac, rfl⟩
  have hne : ac ≠ call := fun he => f1 (he ▸ hacc)
  have hgone : ac ∉ accCalls (dialPair s ac call) := by
    simp only [accCalls, dialPair, List.mem_map, List.mem_filter]
    rintro ⟨q, ⟨_, hq2⟩, hq3⟩
    simp at hq2
    exact hq2 hq3
  constructor
  · exact h.boundNodup
  · exact h.boundLive
  · intro a ha
    exact h.accLive a (hsub.subset ha)
  · intro q hq
    obtain ⟨h1, b, hb1, hb2, hb3, hb4, hb5⟩ := h.parkedOK q hq
    exact ⟨h1, b, hb1, hb2, hb3, hb4, fun a ha => hb5 a (hsub.subset ha)⟩
  · exact (hsub.map _).nodup h.accNodup
  · exact h.parkNodup
  · exact connCalls_snoc_nodup s.conns ac call h.connNodup (h.accConn _ hacc) f3 hne
  · intro c hc1 hc2
    exact h.accPark c ((hsub.map _).subset hc1) hc2
  · intro c hc1 hc2
    have hc1' : c ∈ accCalls s := (hsub.map _).subset hc1
    have := (mem_connCalls_snoc s.conns ac call c).1 hc2
    rcases this with h1 | rfl | rfl
    · exact h.accConn c hc1' h1
    · exact hgone hc1
    · exact f1 hc1'
  · intro c hc1 hc2
    have := (mem_connCalls_snoc s.conns ac call c).1 hc2
    rcases this with h1 | rfl | rfl
    · exact h.parkConn c hc1 h1
    · exact h.accPark _ hacc hc1
    · exact f2 hc1
  · intro c hc1
    show c ∈ s.used
    rcases hc1 with hc1 | hc1 | hc1
    · exact h.callsUsed c (Or.inl ((hsub.map _).subset hc1))
    · exact h.callsUsed c (Or.inr (Or.inl hc1))
    · have := (mem_connCalls_snoc s.conns ac call c).1 hc1
      rcases this with h1 | rfl | rfl
      · exact h.callsUsed c (Or.inr (Or.inr h1))
      · exact h.callsUsed _ (Or.inl hacc)
      · exact hu

theorem dialPark_inv (s : State) (p : Park) (b : Bind) (h : Inv s) (hu : p.call ∈ s.used)
    (hn : p.call ∉ accCalls s ∧ p.call ∉ parkCalls s ∧ p.call ∉ connCalls s)
    (hd : p.did ∉ s.closedD) (hb : b ∈ s.bound) (hba : b.addr = p.addr) (hs : p.self = b.peer) (hp : p.peer = b.self)
    (hno : ∀ a ∈ s.accepters, a.1 ≠ b.lid) : Inv (dialPark s p) := by
  obtain ⟨f1, f2, f3⟩ := hn
  constructor
  · exact h.boundNodup
  · exact h.boundLive
  · exact h.accLive
  · intro q hq
    simp only [dialPark, List.mem_append, List.mem_singleton] at hq
    rcases hq with hq | rfl
    · exact h.parkedOK q hq
    · exact ⟨hd, b, hb, hba, hs, hp, hno⟩
  · exact h.accNodup
  · simp only [parkCalls, dialPark, List.map_append, List.map_cons, List.map_nil]
    rw [List.nodup_append]
    refine ⟨h.parkNodup, by simp, ?_⟩
    intro a ha2 c hc
    simp at hc
    subst hc
    intro he
    subst he
    exact f2 ha2
  · exact h.connNodup
  · intro c hc1 hc2
    simp only [parkCalls, dialPark, List.map_append, List.map_cons, List.map_nil, List.mem_append, List.mem_singleton] at hc2
    rcases hc2 with hc2 | rfl
    · exact h.accPark c hc1 hc2
    · exact f1 hc1
  · exact h.accConn
  · intro c hc1
    simp only [parkCalls, dialPark, List.map_append, List.map_cons, List.map_nil, List.mem_append, List.mem_singleton] at hc1
    rcases hc1 with hc1 | rfl
    · exact h.parkConn c hc1
    · exact f3
  · intro c hc1
    show c ∈ s.used
    simp only [parkCalls, dialPark, List.map_append, List.map_cons, List.map_nil, List.mem_append, List.mem_singleton] at hc1
    rcases hc1 with hc1 | (hc1 | rfl) | hc1
    · exact h.callsUsed c (Or.inl hc1)
    · exact h.callsUsed c (Or.inr (Or.inl hc1))
    · exact hu
    · exact h.callsUsed c (Or.inr (Or.inr hc1))

theorem closeL_inv (s : State) (lid : Nat) (h : Inv s) : Inv (closeLState s lid) := by
  have hsb : (closeLState s lid).bound.Sublist s.bound := List.filter_sublist
  have hsa : (closeLState s lid).accepters.Sublist s.accepters := List.filter_sublist
  have hsp : (closeLState s lid).parked.Sublist s.parked := List.filter_sublist
  constructor
  · exact (hsb.map _).nodup h.boundNodup
  · intro b hb
    simp only [closeLState, List.mem_filter] at hb
    obtain ⟨hb1, hb2⟩ := hb
    have hne : b.lid ≠ lid := by simpa using hb2
    simp only [closeLState, mem_addNew]
    exact ⟨(h.boundLive b hb1).1, fun hx => hx.elim (h.boundLive b hb1).2 hne⟩
  · intro a ha
    simp only [closeLState, List.mem_filter] at ha
    obtain ⟨ha1, ha2⟩ := ha
    have hne : a.1 ≠ lid := by simpa using ha2
    simp only [closeLState, mem_addNew]
    exact ⟨(h.accLive a ha1).1, fun hx => hx.elim (h.accLive a ha1).2 hne⟩
  · intro p hp
    simp only [closeLState, List.mem_filter] at hp
    obtain ⟨hp1, hp2⟩ := hp
    obtain ⟨h1, b, hb1, hb2, hb3, hb4, hb5⟩ := h.parkedOK p hp1
    refine ⟨h1, b, ?_, hb2, hb3, hb4, fun a ha => hb5 a (hsa.subset ha)⟩
    simp only [closeLState, List.mem_filter]
    refine ⟨hb1, ?_⟩
    have hne : b.lid ≠ lid := by
      intro he
      have : goneAt s lid p = true := by
        simp only [goneAt, List.any_eq_true, List.mem_filter]
        exact ⟨b, ⟨hb1, by simpa using he⟩, by simpa using hb2⟩
      simp [this] at hp2
    simpa using hne
  · exact (hsa.map _).nodup h.accNodup
  · exact (hsp.map _).nodup h.parkNodup
  · exact h.connNodup
  · intro c hc1 hc2
    exact h.accPark c ((hsa.map _).subset hc1) ((hsp.map _).subset hc2)
  · intro c hc1
    exact h.accConn c ((hsa.map _).subset hc1)
  · intro c hc1
    exact h.parkConn c ((hsp.map _).subset hc1)
  · intro c hc1
    apply h.callsUsed c
    rcases hc1 with hc1 | hc1 | hc1
    · exact Or.inl ((hsa.map _).subset hc1)
    · exact Or.inr (Or.inl ((hsp.map _).subset hc1))
    · exact Or.inr (Or.inr hc1)

theorem closeD_inv (s : State) (did : Nat) (h : Inv s) : Inv (closeDState s did) := by
  have hsp : (closeDState s did).parked.Sublist s.parked := List.filter_sublist
  constructor
  · exact h.boundNodup
  · exact h.boundLive
  · exact h.accLive
  · intro p hp
    simp only [closeDState, List.mem_filter] at hp
    obtain ⟨hp1, hp2⟩ := hp
    have hne : p.did ≠ did := by simpa using hp2
    obtain ⟨h1, rest⟩ := h.parkedOK p hp1
    refine ⟨?_, rest⟩
    simp only [closeDState, mem_addNew]
    exact fun hx => hx.elim h1 hne
  · exact h.accNodup
  · exact (hsp.map _).nodup h.parkNodup
  · exact h.connNodup
  · intro c hc1 hc2
    exact h.accPark c hc1 ((hsp.map _).subset hc2)
  · exact h.accConn
  · intro c hc1
    exact h.parkConn c ((hsp.map _).subset hc1)
  · intro c hc1
    apply h.callsUsed c
    rcases hc1 with hc1 | hc1 | hc1
    · exact Or.inl hc1
    · exact Or.inr (Or.inl ((hsp.map _).subset hc1))
    · exact Or.inr (Or.inr hc1)

theorem step_inv (s : State) (o : Op) (r : State × List String) (h : Inv s) (hr : r ∈ step s o) : Inv r.1 := by
  cases o with
  | listen lid addr self peer =>
    simp only [step] at hr
    split at hr
    · simp at hr; subst hr; exact h
    · rename_i hc
      split at hr
      · simp at hr; subst hr; exact h
      · rename_i hb
        simp at hr; subst hr
        apply listenOk_inv s lid addr self peer h
        · simpa using hc
        · intro b hb2
          simp at hb
          exact hb b hb2
  | accept lid call =>
    simp only [step] at hr
    split at hr
    · cases hr
    · rename_i hu
      have hf : call ∉ s.used := by simpa using hu
      have hn := fresh_not_held s call h hf
      have h' := useCall_inv s call h
      have hu' : call ∈ (useCall s call).used := by simp [useCall]
      split at hr
      · simp at hr; subst hr; exact h'
      · rename_i hlive
        simp only [Bool.or_eq_true, Bool.not_eq_true', not_or] at hlive
        have ha : lid ∈ (useCall s call).activeL := by
          have := hlive.1
          simpa using this
        have hc : lid ∉ (useCall s call).closedL := by
          have := hlive.2
          simpa using this
        split at hr
        · rename_i hemp
          simp at hr; subst hr
          exact acceptPush_inv _ lid call h' hu' hn ha hc (by simpa using hemp)
        · simp only [List.mem_map] at hr
          obtain ⟨p, hp, rfl⟩ := hr
          exact acceptPair_inv _ call p h' hu' hn (mem_lookingAt.1 hp).1
  | dial did call addr self peer =>
    simp only [step] at hr
    split at hr
    · cases hr
    · rename_i hu
      have hf : call ∉ s.used := by simpa using hu
      have hn := fresh_not_held s call h hf
      have h' := useCall_inv s call h
      have hu' : call ∈ (useCall s call).used := by simp [useCall]
      split at hr
      · simp at hr; subst hr; exact h'
      · rename_i hd
        have hd' : did ∉ (useCall s call).closedD := by simpa using hd
        split at hr
        · simp at hr; subst hr; exact h'
        · rename_i b hb
          obtain ⟨hb1, hb2⟩ := bindAt_some hb
          split at hr
          · simp at hr; subst hr; exact h'
          · rename_i hproto
            have hproto' : self = b.peer ∧ peer = b.self := by simpa using hproto
            split at hr
            · rename_i ac hac
              simp at hr; subst hr
              exact dialPair_inv _ b.lid ac call h' hu' hn (lastAcc_some hac)
            · rename_i hnone
              simp at hr; subst hr
              exact dialPark_inv _ (Park.mk call did addr self peer) b h' hu' hn hd' hb1 hb2 hproto'.1 hproto'.2
                (lastAcc_none hnone)
  | closeL lid =>
    simp only [step] at hr
    simp at hr; subst hr
    exact closeL_inv s lid h
  | closeD did =>
    simp only [step] at hr
    simp at hr; subst hr
    exact closeD_inv s did h

theorem reach_inv {s : State} (h : Reach s) : Inv s := by
  induction h with
  | init => exact init_inv
  | step s o r _ hr ih => exact step_inv s o r ih hr

theorem nodup_map_inj {α β : Type} (f : α → β) : ∀ (l : List α), (l.map f).Nodup → ∀ x ∈ l, ∀ y ∈ l, f x = f y → x = y
 | [], _, x, hx, _, _, _ => by cases hx
 | a :: l, h, x, hx, y, hy, he => by
   simp only [List.map_cons, List.nodup_cons, List.mem_map, not_exists, not_and] at h
   simp only [List.mem_cons] at hx hy
   rcases hx with rfl | hx
   · rcases hy with rfl | hy
     · rfl
     · exact absurd he.symm (h.1 y hy)
   · rcases hy with rfl | hy
     · exact absurd he (h.1 x hx)
     · exact nodup_map_inj f l h.2 x hx y hy he

end Inproc
end Model
