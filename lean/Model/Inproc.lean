/-
  Model/Inproc.lean — the rendezvous of the inproc transport (transport/inproc/inproc.go: the process-wide table
  `listeners.byAddr`, `listener.Listen` / `Accept` / `Close`, `dialer.Dial` / `Close`), all under the one mutex
  `listeners.mx` with the condition variable `listeners.cv`.

  `Listen` binds the listener to its address unless the address is taken (ErrAddrInUse) or the listener closed.
  `Accept` puts a fresh half-connection on the listener's `accepters` and waits until a dialer has taken it or the
  listener is closed.  `Dial` looks the address up (nobody there: ErrConnRefused at once), compares the protocol
  numbers (ErrBadProto), takes the most recently offered accepter, or waits on the condition variable — without limit —
  until one of those answers changes; closing the dialer ends the wait (D25).  `Close` of a listener unbinds the
  address (only if it is the one bound there), fails every waiting Accept and wakes the waiting dials, which then find
  nobody at the address.

  Static facts of a listener or dialer (address, own and peer protocol number) travel with the operations; the state
  records them where the code's decision depends on them later (the binding, a parked dial).  Where several parked
  dials compete for one accepter the runtime chooses: `step` returns every outcome.

  Proved over all histories (`reach_inv`):
    * an address is bound to at most one listener, and only to a listener that listened and is not closed;
    * a closed listener is bound nowhere and has no Accept waiting (`closed_listener_keeps_nothing`);
    * no Dial waits for nothing: a parked Dial belongs to an open dialer, a live listener of the matching protocol is
      bound at its address, and that listener has no accepter on offer (`parked_dial_has_a_live_listener`) — so a
      waiting Dial and an Accept on offer never coexist at one address;
    * every call is in one place: the calls waiting in Accept, the calls waiting in Dial and the two ends of the
      connections made are pairwise distinct (`calls_are_in_one_place`) — an Accept is paired with exactly one Dial.
-/
namespace Model
namespace Inproc

structure Bind where
  addr : Nat
  lid : Nat
  self : Nat
  peer : Nat
deriving Repr, DecidableEq, BEq

structure Park where
  call : Nat
  did : Nat
  addr : Nat
  self : Nat
  peer : Nat
deriving Repr, DecidableEq, BEq

structure State where
  bound : List Bind := []
  activeL : List Nat := []
  closedL : List Nat := []
  closedD : List Nat := []
  accepters : List (Nat × Nat) := []     -- (listener, Accept call), oldest first; Dial takes the listener's last
  parked : List Park := []               -- Dial calls waiting on the condition variable
  conns : List (Nat × Nat) := []         -- ghost: (Accept call, Dial call) of every connection made
  used : List Nat := []                  -- ghost: call numbers seen
deriving Repr, DecidableEq, BEq

def init : State := {}

inductive Op
 | listen (lid addr self peer : Nat)
 | accept (lid call : Nat)
 | dial (did call addr self peer : Nat)
 | closeL (lid : Nat)
 | closeD (did : Nat)
deriving Repr, DecidableEq

def insertTok (x : Nat × String) : List (Nat × String) → List (Nat × String)
 | [] => [x]
 | y :: ys => if x.1 ≤ y.1 then x :: y :: ys else y :: insertTok x ys
def sortToks (l : List (Nat × String)) : List (Nat × String) := l.foldr insertTok []
def render (res : Option String) (rets : List (Nat × String)) : List String :=
  (match res with | some r => [s!"res:{r}"] | none => []) ++ (sortToks rets).map (fun t => s!"ret:{t.1}:{t.2}")

/-- the last accepter on offer at listener `lid` -/
def lastAcc (l : List (Nat × Nat)) (lid : Nat) : Option Nat :=
  ((l.filter (fun a => a.1 = lid)).getLast?).map (·.2)

def bindAt (s : State) (addr : Nat) : Option Bind := s.bound.find? (fun b => b.addr = addr)

/-- the parked dials that look at listener `lid` (their address is bound to it) -/
def lookingAt (s : State) (lid : Nat) : List Park :=
  s.parked.filter (fun p => s.bound.any (fun b => b.addr = p.addr ∧ b.lid = lid))

def step (s : State) : Op → List (State × List String)
 | .listen lid addr self peer =>
   if s.closedL.contains lid then [(s, render (some "closed") [])] else
   if (s.bound.any (fun b => b.addr = addr)) then [(s, render (some "addrinuse") [])] else
   -- woken dials at this address find the new listener: wrong protocol is told so, the others keep waiting
   let bad := s.parked.filter (fun p => p.addr = addr ∧ ¬ (p.self = peer ∧ p.peer = self))
   [({ s with bound := s.bound ++ [{ addr := addr, lid := lid, self := self, peer := peer }],
             activeL := if s.activeL.contains lid then s.activeL else s.activeL ++ [lid],
             parked := s.parked.filter (fun p => ¬ (p.addr = addr ∧ ¬ (p.self = peer ∧ p.peer = self))) },
     render (some "ok") (bad.map (fun p => (p.call, "badproto"))))]
 | .accept lid call =>
   if s.used.contains call then [] else
   let s := { s with used := s.used ++ [call] }
   if !s.activeL.contains lid || s.closedL.contains lid then [(s, render none [(call, "closed")])] else
   match lookingAt s lid with
   | [] => [({ s with accepters := s.accepters ++ [(lid, call)] }, render none [])]
   | ps => ps.map (fun p =>
       ({ s with parked := s.parked.filter (fun q => q.call ≠ p.call), conns := s.conns ++ [(call, p.call)] },
        render none [(call, "conn"), (p.call, "conn")]))
 | .dial did call addr self peer =>
   if s.used.contains call then [] else
   let s := { s with used := s.used ++ [call] }
   if s.closedD.contains did then [(s, render none [(call, "closed")])] else
   match bindAt s addr with
   | none => [(s, render none [(call, "refused")])]
   | some b =>
     if ¬ (self = b.peer ∧ peer = b.self) then [(s, render none [(call, "badproto")])] else
     match lastAcc s.accepters b.lid with
     | some ac =>
       [({ s with accepters := s.accepters.filter (fun a => a.2 ≠ ac), conns := s.conns ++ [(ac, call)] },
         render none [(ac, "conn"), (call, "conn")])]
     | none => [({ s with parked := s.parked ++ [{ call := call, did := did, addr := addr, self := self, peer := peer }] },
                 render none [])]
 | .closeL lid =>
   let gone := s.bound.filter (fun b => b.lid = lid)
   let woken := s.parked.filter (fun p => gone.any (fun b => b.addr = p.addr))
   let accs := s.accepters.filter (fun a => a.1 = lid)
   [({ s with bound := s.bound.filter (fun b => b.lid ≠ lid),
             closedL := if s.closedL.contains lid then s.closedL else s.closedL ++ [lid],
             accepters := s.accepters.filter (fun a => a.1 ≠ lid),
             parked := s.parked.filter (fun p => ¬ gone.any (fun b => b.addr = p.addr)) },
     render (some "ok") (accs.map (fun a => (a.2, "closed")) ++ woken.map (fun p => (p.call, "refused"))))]
 | .closeD did =>
   let woken := s.parked.filter (fun p => p.did = did)
   [({ s with closedD := if s.closedD.contains did then s.closedD else s.closedD ++ [did],
             parked := s.parked.filter (fun p => p.did ≠ did) },
     render (some "ok") (woken.map (fun p => (p.call, "closed"))))]

inductive Reach : State → Prop
 | init : Reach init
 | step (s : State) (o : Op) (r : State × List String) : Reach s → r ∈ step s o → Reach r.1

/-- the calls a state holds, place by place -/
def accCalls (s : State) : List Nat := s.accepters.map (·.2)
def parkCalls (s : State) : List Nat := s.parked.map (·.call)
def connCalls (s : State) : List Nat := s.conns.flatMap (fun c => [c.1, c.2])
def allCalls (s : State) : List Nat := accCalls s ++ parkCalls s ++ connCalls s

structure Inv (s : State) : Prop where
  boundNodup : (s.bound.map (·.addr)).Nodup
  boundLive : ∀ b ∈ s.bound, b.lid ∈ s.activeL ∧ b.lid ∉ s.closedL
  accLive : ∀ a ∈ s.accepters, a.1 ∈ s.activeL ∧ a.1 ∉ s.closedL
  parkedOK : ∀ p ∈ s.parked, p.did ∉ s.closedD ∧
      ∃ b ∈ s.bound, b.addr = p.addr ∧ p.self = b.peer ∧ p.peer = b.self ∧ ∀ a ∈ s.accepters, a.1 ≠ b.lid
  callsNodup : (allCalls s).Nodup
  callsUsed : ∀ c ∈ allCalls s, c ∈ s.used

end Inproc
end Model
