/-
  Model/Close.lean — what the real-socket close scenarios (cmd/corr/c10.go, `cl.check` lines) may observe.
  C10: Close returns; every call in progress returns a closed error (or reports the unsupported operation: Recv on a
  send-only pattern and the like); later calls fail with a closed error, the unsupported-operation error, or — Recv
  only — return an already queued message; afterwards no library goroutine, pipe id, listening address or redial
  activity remains.
-/
namespace Model
namespace Close

def allowed : String → List String
  | "close" => ["ok"]
  | "recv-blocked" => ["closed", "protoop"]
  | "send-loop" => ["closed", "protoop"]
  | "after-send" => ["closed", "protoop"]
  | "after-send-bare" => ["closed", "protoop"]
  | "after-recv" => ["closed", "protoop", "ok"]
  | "after-close" => ["closed"]
  | "after-dial" => ["closed"]
  | "after-listen" => ["closed"]
  | "after-openctx" => ["closed", "protoop"]
  | "goroutines" => ["0"]
  | "ids" => ["0"]
  | "rebind" => ["ok"]
  | "redial" => ["0"]
  | "midhandshake-conn" => ["closed"]           -- a connection still shaking hands when the socket was closed
  | "accepted-at-close-conn" => ["closed"]      -- … and one accepted just before Close and given to the handshaker just after
  | "second-listen" => ["addrinuse"]            -- a second listener for an address in use
  | "bystander-dial" => ["ok"]                  -- … whose closing leaves the owner of the address in service
  | "listener-close-keeps-pipes" => ["kept"]   -- Listener.Close alone: the connections it accepted keep working
  | "dial-parked-at-close" => ["returned"]      -- a Dial waiting for a listener returns when that listener is closed
  | _ => []

/-- nothing but Close itself and a Recv that finds a queued message reports success on a closed socket, and nothing
    is allowed to hang -/
theorem success_only_where_stated (what : String) (h : "ok" ∈ allowed what) : what = "close" ∨ what = "after-recv" ∨ what = "rebind" ∨ what = "bystander-dial" := by
  unfold allowed at h
  split at h <;> simp at h <;> simp

theorem never_hangs (what : String) : "hang" ∉ allowed what := by
  unfold allowed
  split <;> simp

end Close
end Model
