/-
  Model/Hop.lean — routing-header parsing and hop limits.
  * `parseBT`: the word-moving loop of rep/xrep/respondent/xrespondent `pipe.receiver`
    ("move 32-bit words from body to header until one has the top bit set"),
    parametrised by the `HopSite` regenerated from each receiver.
  * `pair1Recv`, `starRecv`: the hop byte of xpair1 / xstar.
-/
import Model.Bytes
import Model.Facts
namespace Model
namespace Hop

def hopEnv (hops ttl : Nat) : Env := fun n => if n = "hops" then (hops : Int) else if n = "ttl" then (ttl : Int) else 0

/-- the drop test as read from the source -/
def drops (P : HopSite) (hops ttl : Nat) : Bool := P.drop.holds (hopEnv hops ttl)

/-- per-iteration: test hops, bump, need 4 bytes, move the word, stop on top bit -/
def parseBT (P : HopSite) (ttl : Nat) : Nat → Bytes → Bytes → Option (Bytes × Bytes)
  | hops, hdr, body =>
    if drops P hops ttl then none
    else match body with
      | a :: b :: c :: d :: rest =>
        if a &&& 0x80 != 0 then some (hdr ++ [a, b, c, d], rest)
        else parseBT P ttl (hops + 1) (hdr ++ [a, b, c, d]) rest
      | _ => none

/-- entry point: `hdr0` is what the receiver put in the header before the loop
    (nothing for rep/respondent, the 4-byte pipe id for xrep/xrespondent) -/
def recv (P : HopSite) (ttl : Nat) (hdr0 body : Bytes) : Option (Bytes × Bytes) :=
  parseBT P ttl P.init hdr0 body

/-- the obligation on a regenerated hop site: at iteration i (hops = init + i) the
    message is dropped iff i + 1 > ttl -/
def WellFormed (P : HopSite) : Prop := ∀ i ttl : Nat, drops P (P.init + i) ttl = decide (i + 1 > ttl)

structure Word where
  a : UInt8
  b : UInt8
  c : UInt8
  d : UInt8
deriving Repr, DecidableEq

def Word.bytes (w : Word) : Bytes := [w.a, w.b, w.c, w.d]
def Word.top (w : Word) : Bool := w.a &&& 0x80 != 0
def flat (ws : List Word) : Bytes := ws.flatMap Word.bytes

/-- xpair1 receiver on a body: none = dropped, some (header, body) -/
def pair1Env (hops ttl : Nat) : Env := hopEnv hops ttl

def pair1Recv (drop : GExpr) (ttl : Nat) (body : Bytes) : Option (Bytes × Bytes) :=
  match body with
  | a :: b :: c :: d :: rest =>
    let hops := beDec [a, b, c, d]
    if drop.holds (pair1Env hops ttl) then none
    else some ([a, b, c, UInt8.ofNat ((hops + 1) % 256)], rest)
  | _ => none

def starEnv (blen : Nat) (b0 b1 b2 b3 : UInt8) (ttl : Nat) : Env := fun n =>
  if n = "blen" then (blen : Int) else if n = "b0" then b0.toNat else if n = "b1" then b1.toNat
  else if n = "b2" then b2.toNat else if n = "b3" then b3.toNat else if n = "ttl" then (ttl : Int) else 0

/-- xstar receiver: none = dropped, some (header with bumped hop byte, body) -/
def starRecv (drop : GExpr) (ttl : Nat) (body : Bytes) : Option (Bytes × Bytes) :=
  match body with
  | a :: b :: c :: d :: rest =>
    if drop.holds (starEnv body.length a b c d ttl) then none
    else some ([a, b, c, d + 1], rest)
  | _ => if drop.holds (starEnv body.length 0 0 0 0 ttl) then none else none

end Hop
end Model
