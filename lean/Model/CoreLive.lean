/-
  Model/CoreLive.lean — a started dialer is never stranded, over every history of the core machine.
  In every reachable state, an active, open dialer has an attempt in progress, or its redial timer armed, or a connection
  of its own attached: whatever sequence of failed attempts, refused, rejected and lost connections, hooks closing pipes
  and timers firing led there, something will dial again or a connection exists.
-/
import Model.CoreDial
namespace Model
namespace Core

/-- dialer d is looked after (`ex`: the one dialer exempt in the middle of an operation) -/
def DLx (ex : Option Nat) (s : State) : Prop :=
  ∀ d x, getDialer s d = some x → some d ≠ ex → x.active = true → x.closed = false →
    x.dialing.isSome = true ∨ x.timer.isSome = true ∨ ∃ p ∈ s.pipes, p.dialer = some d

abbrev DL (s : State) : Prop := DLx none s

theorem DLx_of (ex : Option Nat) (s s' : State) (h : DLx ex s) (hd : s'.dialers = s.dialers) (hp : ∀ p ∈ s.pipes, p ∈ s'.pipes) : DLx ex s' := by
  intro d x hx hne ha hc
  rw [getDialer_of_fields s s' hd] at hx
  rcases h d x hx hne ha hc with h1 | h1 | ⟨p, hp1, hp2⟩
  · exact Or.inl h1
  · exact Or.inr (Or.inl h1)
  · exact Or.inr (Or.inr ⟨p, hp p hp1, hp2⟩)

/-- an update of the dialers named e whose result is looked after -/
theorem setDialer_DLx (ex ex' : Option Nat) (s : State) (e : Nat) (f : DialerSt → DialerSt) (hfd : ∀ y, (f y).d = y.d)
    (hf : ∀ y, getDialer s e = some y → (f y).active = true → (f y).closed = false →
      (f y).dialing.isSome = true ∨ (f y).timer.isSome = true ∨ ∃ p ∈ s.pipes, p.dialer = some e)
    (hex : ∀ d, some d ≠ ex' → d ≠ e → some d ≠ ex)
    (h : DLx ex s) : DLx ex' (setDialer s e f) := by
  intro d x' hx' hne ha hc
  rw [getDialer_setDialer s e f hfd d] at hx'
  cases hg : getDialer s d with
  | none => rw [hg] at hx'; cases hx'
  | some x =>
    rw [hg] at hx'
    simp only [Option.map_some, Option.some.injEq] at hx'
    have hxd := getDialer_d s d x hg
    by_cases hde : d = e
    · subst hde
      rw [if_pos hxd] at hx'
      subst hx'
      exact hf x hg ha hc
    · rw [if_neg (by rw [hxd]; exact hde)] at hx'
      subst hx'
      exact h d x hg (hex d hne hde) ha hc

/-- an update of the dialers named e, who are exempt afterwards -/
theorem setDialer_DLx_self (s : State) (e : Nat) (f : DialerSt → DialerSt) (hfd : ∀ y, (f y).d = y.d) (h : DL s) :
    DLx (some e) (setDialer s e f) := by
  intro d x' hx' hne ha hc
  rw [getDialer_setDialer s e f hfd d] at hx'
  cases hg : getDialer s d with
  | none => rw [hg] at hx'; cases hx'
  | some x =>
    rw [hg] at hx'
    simp only [Option.map_some, Option.some.injEq] at hx'
    have hxd := getDialer_d s d x hg
    have hde : d ≠ e := fun e' => hne (by rw [e'])
    rw [if_neg (by rw [hxd]; exact hde)] at hx'
    subst hx'
    exact h d x hg (by intro e'; cases e') ha hc

theorem pipeGone_DL (s : State) (d : Option Nat) (now : Nat) (h : DLx d s) : DL (pipeGone s d now) := by
  unfold pipeGone
  split
  · exact h
  · rename_i dd
    refine setDialer_DLx (some dd) none s dd _ (fun y => rfl) (fun y _ _ _ => Or.inr (Or.inl rfl)) ?_ h
    intro d' _ hne e
    cases e
    exact hne rfl

theorem redial_DL (s : State) (d : Nat) (h : DL s) : DL (redial s d).1 := by
  unfold redial
  split
  · exact h
  · rename_i x hx
    split
    · rename_i hcl
      refine setDialer_DLx none none s d _ (fun y => rfl) ?_ (fun _ hn _ => hn) h
      intro y hy _ hc
      rw [hx] at hy; cases hy
      rw [hcl] at hc; cases hc
    · split
      · rename_i hdl
        refine setDialer_DLx none none s d _ (fun y => rfl) ?_ (fun _ hn _ => hn) h
        intro y hy _ _
        rw [hx] at hy; cases hy
        exact Or.inl hdl
      · exact setDialer_DLx none none s d _ (fun y => rfl) (fun y _ _ _ => Or.inl rfl) (fun _ hn _ => hn) h

theorem addPipe_pipes (s : State) (d : Option Nat) (mode : String) : ∀ p ∈ s.pipes, p ∈ (addPipe s d mode).1.pipes := by
  intro p hp
  unfold addPipe
  simp only []
  split
  · exact hp
  · exact hp
  · split
    · exact hp
    · exact List.mem_append_left _ hp

theorem addPipe_DL (s : State) (d : Option Nat) (mode : String) (h : DL s) : DL (addPipe s d mode).1 :=
  DLx_of none s _ h (addPipe_dialers s d mode) (addPipe_pipes s d mode)

theorem eq_of_nodup_k (l : List PipeSt) (h : (l.map (·.k)).Nodup) (a b : PipeSt) (ha : a ∈ l) (hb : b ∈ l) (e : a.k = b.k) : a = b := by
  induction l with
  | nil => cases ha
  | cons x xs ih =>
    simp only [List.map_cons, List.nodup_cons, List.mem_map, not_exists, not_and] at h
    simp only [List.mem_cons] at ha hb
    rcases ha with rfl | ha <;> rcases hb with rfl | hb
    · rfl
    · exact absurd e.symm (h.1 b hb)
    · exact absurd e (h.1 a ha)
    · exact ih h.2 ha hb

theorem find_k (l : List PipeSt) (k : Nat) (p : PipeSt) (h : l.find? (fun q => decide (q.k = k)) = some p) : p.k = k := by
  simpa using List.find?_some h

theorem addPipe_plain_pipes (s : State) (d : Option Nat) :
    (addPipe s d "plain").1.pipes = s.pipes ∨
    (addPipe s d "plain").1.pipes = s.pipes ++ [{ k := s.npipes + 1, dialer := d, added := true, closed := false }] := by
  unfold addPipe
  simp only []
  split
  · rename_i hm; exact absurd hm (by decide)
  · rename_i hm; exact absurd hm (by decide)
  · split
    · exact Or.inl rfl
    · exact Or.inr rfl

/-- closing an attached pipe leaves every dialer but its own looked after -/
theorem closePipe_DLx (s : State) (k : Nat) (p : PipeSt) (hi : Inv s) (hp : s.pipes.find? (fun q => q.k = k) = some p) (h : DL s) :
    DLx p.dialer (closePipe s k).1 := by
  have hpm : p ∈ s.pipes := List.mem_of_find?_eq_some hp
  have hpk : p.k = k := by simpa using List.find?_some hp
  intro d x hx hne ha hc
  rw [getDialer_of_fields s _ (closePipe_dialers s k)] at hx
  rcases h d x hx (by intro e; cases e) ha hc with h1 | h1 | ⟨q, hq1, hq2⟩
  · exact Or.inl h1
  · exact Or.inr (Or.inl h1)
  · refine Or.inr (Or.inr ⟨q, ?_, hq2⟩)
    have hqp : q ≠ p := by
      intro e; subst e
      exact hne hq2.symm
    have hqk : q.k ≠ k := by
      intro e
      -- two listed pipes with one number
      have : q = p := eq_of_nodup_k s.pipes hi.distinct q p hq1 hpm (e.trans hpk.symm)
      exact hqp this
    unfold closePipe
    rw [hp]
    simp only []
    split
    · exact List.mem_filter.mpr ⟨hq1, by simpa using hqk⟩
    · exact List.mem_filter.mpr ⟨hq1, by simpa using hqk⟩

theorem core_DL (s : State) (now : Nat) (op : List String) (hi : Inv s) (h : DL s) : ∀ r ∈ core s now op, DL r.1 := by
  intro r hr
  have hsame : ∀ s' : State, s'.dialers = s.dialers → s'.pipes = s.pipes → DL s' :=
    fun s' hd hp => DLx_of none s s' h hd (fun p hpm => by rw [hp]; exact hpm)
  unfold core at hr
  split at hr
  · simp at hr; subst hr; exact hsame _ rfl rfl
  · -- listen
    split at hr
    · simp at hr
    · split at hr
      · simp at hr; subst hr; exact h
      · split at hr
        · simp at hr; subst hr; exact h
        · split at hr
          · simp at hr; subst hr; exact h
          · simp at hr; subst hr; exact hsame _ rfl rfl
  · -- conn
    split at hr
    · simp at hr
    · split at hr
      · simp at hr; subst hr; exact h
      · split at hr
        · split at hr
          · simp at hr
          · try simp only [] at hr
            simp at hr; subst hr; exact hsame _ rfl rfl
        · split at hr
          · -- deadpeer: the new pipe is closed at once; it belongs to no dialer
            try simp only [] at hr
            simp at hr; subst hr
            have h1 := addPipe_DL s none "plain" h
            have hi1 := addPipe_inv s none "plain" hi
            cases hf : (addPipe s none "plain").1.pipes.find? (fun q => q.k = s.npipes + 1) with
            | none =>
              have : (closePipe (addPipe s none "plain").1 (s.npipes + 1)).1 = (addPipe s none "plain").1 := by
                unfold closePipe; rw [hf]
              rw [this]; exact h1
            | some p =>
              have hx := closePipe_DLx _ (s.npipes + 1) p hi1 hf h1
              -- that pipe was created by a listener
              have hpd : p.dialer = none := by
                have hpm := List.mem_of_find?_eq_some hf
                have hpk : p.k = s.npipes + 1 := by simpa using List.find?_some hf
                have hold : ∀ q ∈ s.pipes, q.k ≠ s.npipes + 1 := by
                  intro q hq e
                  have := hi.usedBound _ (hi.listed q hq).2
                  omega
                rcases addPipe_plain_pipes s none with e | e
                · rw [e] at hpm; exact absurd hpk (hold p hpm)
                · rw [e] at hpm
                  simp only [List.mem_append, List.mem_singleton] at hpm
                  rcases hpm with hpm | rfl
                  · exact absurd hpk (hold p hpm)
                  · rfl
              rw [hpd] at hx
              exact hx
          · try simp only [] at hr
            simp at hr; subst hr; exact addPipe_DL _ _ _ h
  · -- newdialer
    rename_i dstr a mn mx
    simp at hr; subst hr
    intro d x hx _ ha hc
    unfold getDialer at hx
    show _ ∨ _ ∨ ∃ p ∈ s.pipes, _
    rw [List.find?_append] at hx
    cases hg : s.dialers.find? (fun y => decide (y.d = d)) with
    | some y =>
      rw [hg, Option.some_or] at hx
      cases hx
      exact h d _ hg (by intro e; cases e) ha hc
    | none =>
      rw [hg] at hx
      simp only [Option.none_or, List.find?_cons, List.find?_nil] at hx
      split at hx
      · cases hx; cases ha
      · cases hx
  · -- dial
    split at hr
    · simp at hr
    · split at hr
      · simp at hr; subst hr; exact h
      · split at hr
        · simp at hr; subst hr; exact h
        · split at hr <;> (simp at hr; subst hr; exact setDialer_DLx none none s _ _ (fun y => rfl) (fun y _ _ _ => Or.inl rfl) (fun _ hn _ => hn) h)
  · -- dialres ok
    rename_i dstr mode
    split at hr
    · simp at hr
    · rename_i x hx
      have hxd := getDialer_d s _ x hx
      split at hr
      · simp at hr
      · try simp only [] at hr
        simp at hr; subst hr
        have h1 := addPipe_DL s (some x.d) mode h
        split
        · rename_i hatt
          -- attached: the dialer has a connection of its own
          refine setDialer_DLx none none _ x.d _ (fun y => rfl) ?_ (fun _ hn _ => hn) h1
          intro y _ _ _
          refine Or.inr (Or.inr ?_)
          unfold addPipe
          simp only []
          split
          · exact absurd rfl hatt.1.1
          · exact absurd rfl hatt.1.2
          · rw [if_neg (by rw [hatt.2]; simp)]
            exact ⟨{ k := s.npipes + 1, dialer := some x.d, added := true, closed := false }, by simp, rfl⟩
        · simp only []
          apply pipeGone_DL
          exact setDialer_DLx_self _ x.d _ (fun y => rfl) h1
  · -- dialres fail
    split at hr
    · simp at hr
    · rename_i x hx
      split at hr
      · simp at hr
      · split at hr
        · simp at hr; subst hr
          refine setDialer_DLx none none s x.d _ (fun y => rfl) ?_ (fun _ hn _ => hn) h
          intro y _ ha _; cases ha
        · try simp only [] at hr
          simp at hr; subst hr
          refine setDialer_DLx none none s x.d _ ?_ (fun y _ _ _ => Or.inr (Or.inl rfl)) (fun _ hn _ => hn) h
          intro y; unfold backoff; split <;> rfl
  · -- attachrelease
    split at hr
    · split at hr
      · simp at hr; subst hr; exact hsame _ rfl rfl
      · simp at hr; subst hr
        exact DLx_of none s _ h rfl (fun p hp => List.mem_append_left _ hp)
    · simp at hr; subst hr; exact h
  · -- drop
    split at hr
    · simp at hr; subst hr; exact hsame _ rfl rfl
    · split at hr
      · simp at hr; subst hr; exact h
      · rename_i p hp
        try simp only [] at hr
        simp at hr; subst hr
        have hpk := find_k s.pipes _ p hp
        apply pipeGone_DL
        have := closePipe_DLx s p.k p hi (by rw [hpk]; exact hp) h
        exact this
  · -- pclose
    split at hr
    · simp at hr; subst hr; exact hsame _ rfl rfl
    · split at hr
      · simp at hr; subst hr; exact h
      · rename_i p hp
        try simp only [] at hr
        simp at hr; subst hr
        have hpk := find_k s.pipes _ p hp
        apply pipeGone_DL
        have := closePipe_DLx s p.k p hi (by rw [hpk]; exact hp) h
        exact this
  · -- closedialer
    split at hr
    · simp at hr
    · rename_i x hx
      split at hr <;> (simp at hr; subst hr)
      · exact h
      · refine setDialer_DLx none none s x.d _ (fun y => rfl) ?_ (fun _ hn _ => hn) h
        intro y _ _ hc; cases hc
  · -- closelistener
    split at hr
    · simp at hr
    · split at hr <;> (simp at hr; subst hr)
      · exact h
      · exact hsame _ rfl rfl
  · simp at hr; subst hr; exact hsame _ rfl rfl
  · simp only [List.mem_singleton] at hr; subst hr; exact hsame _ rfl rfl
  · simp at hr; subst hr; exact h
  · -- sockclose: every dialer is closed
    try simp only [] at hr
    simp at hr; subst hr
    intro d x hx _ _ hc
    unfold closeAllPipes at hx
    rw [getDialer_of_fields _ _ (closeAll_dialers _ _)] at hx
    unfold getDialer at hx
    have hx' : (s.dialers.map (fun x => ({ x with closed := true } : DialerSt))).find? (fun y => decide (y.d = d)) = some x := hx
    have hm := List.mem_of_find?_eq_some hx'
    simp only [List.mem_map] at hm
    obtain ⟨y, _, rfl⟩ := hm
    cases hc
  · simp at hr

theorem step_DL (s : State) (op : List String) (hi : Inv s) (h : DL s) : ∀ o ∈ step s op, DL o.1 := by
  intro o ho
  simp only [step, List.mem_flatMap, List.mem_map] at ho
  obtain ⟨st, hst, r, hr, r2, hr2, rfl⟩ := ho
  have i1 := timer_inv s _ hi st hst
  have n1 := timer_pres DL redial_DL s _ h st hst
  have n2 := core_DL st.1 _ _ i1 n1 r hr
  have n3 := timer_pres DL redial_DL r.1 _ n2 r2 hr2
  exact DLx_of none _ _ n3 rfl (fun p hp => hp)

/-- over every history: a started dialer is never stranded — an active, open dialer has an attempt in progress, or its
    redial timer armed, or a connection of its own attached -/
theorem reach_DL (s : State) (h : Reach s) : DL s := by
  induction h with
  | init => intro d x hx; simp [init, getDialer] at hx
  | step s op o hs ho ih => exact step_DL s op (reach_inv s hs) ih o ho

end Core
end Model
