/-
  Model/DevicePlumb.lean — `mangos.Device(s1, s2)` (device.go) before it starts forwarding: which pairs of sockets it
  accepts, with which error it refuses the others, and how many forwarder goroutines it starts.

  The code: a nil socket is replaced by the other one (loop-back device); both nil is ErrClosed; the two sockets must
  name each other as peer protocol (ErrBadProto); each must answer OptionRaw with `true` (the option's error, or
  ErrNotRaw, first socket first); then one forwarder per direction — one only when both arguments are the same socket.
-/
namespace Model
namespace DevicePlumb

structure Sock where
  self : Nat
  peer : Nat
  raw : Option Bool      -- what GetOption(OptionRaw) yields: `none` = the call fails, `some b` = its value
deriving Repr, DecidableEq

inductive Res where
 | closed | badproto | notraw | opterr
 | ok (forwarders : Nat)
deriving Repr, DecidableEq

def Res.isOk : Res → Bool
 | .ok _ => true
 | _ => false

/-- the sockets Device works with after replacing a nil argument by the other one -/
def first (a b : Option Sock) : Option Sock := match a with | some x => some x | none => b
def second (a b : Option Sock) : Option Sock := match b with | some y => some y | none => first a b

/-- `same`: both arguments are one and the same socket -/
def plumb (a b : Option Sock) (same : Bool) : Res :=
  match first a b, second a b with
  | some x, some y =>
    if x.self ≠ y.peer ∨ y.self ≠ x.peer then .badproto else
    match x.raw with
    | none => .opterr
    | some false => .notraw
    | some true =>
      match y.raw with
      | none => .opterr
      | some false => .notraw
      | some true => .ok (if same || a.isNone || b.isNone then 1 else 2)
  | _, _ => .closed

def render : Res → String
 | .closed => "closed"
 | .badproto => "badproto"
 | .notraw => "notraw"
 | .opterr => "opterr"
 | .ok n => s!"ok:{n}"

/-- Device succeeds exactly for two raw sockets that are each other's peer protocol -/
theorem plumb_ok_iff (x y : Sock) (same : Bool) :
    (plumb (some x) (some y) same).isOk = true ↔
      x.self = y.peer ∧ y.self = x.peer ∧ x.raw = some true ∧ y.raw = some true := by
  obtain ⟨xs, xp, xr⟩ := x
  obtain ⟨ys, yp, yr⟩ := y
  simp only [plumb, first, second]
  by_cases h : xs ≠ yp ∨ ys ≠ xp
  · simp only [h, if_true, Res.isOk]
    constructor
    · intro hf; cases hf
    · rintro ⟨h1, h2, _, _⟩
      rcases h with h | h
      · exact absurd h1 h
      · exact absurd h2 h
  · simp only [h, if_false]
    have h' : xs = yp ∧ ys = xp := by
      constructor
      · exact Classical.byContradiction (fun hx => h (Or.inl hx))
      · exact Classical.byContradiction (fun hx => h (Or.inr hx))
    rcases xr with _ | _ | _ <;> rcases yr with _ | _ | _ <;> simp [Res.isOk, h'.1, h'.2]

/-- the order of the two sockets does not matter for success -/
theorem plumb_ok_symm (x y : Sock) (same : Bool) :
    (plumb (some x) (some y) same).isOk = (plumb (some y) (some x) same).isOk := by
  have h1 := plumb_ok_iff x y same
  have h2 := plumb_ok_iff y x same
  cases hx : (plumb (some x) (some y) same).isOk <;> cases hy : (plumb (some y) (some x) same).isOk <;> simp_all

/-- a cooked socket on either side is refused (with ErrNotRaw when the protocols fit and the other side answers) -/
theorem plumb_cooked_refused (x y : Sock) (same : Bool) (hc : x.raw = some false ∨ y.raw = some false) :
    (plumb (some x) (some y) same).isOk = false := by
  cases h : (plumb (some x) (some y) same).isOk
  · rfl
  · have := (plumb_ok_iff x y same).1 h
    rcases hc with hc | hc
    · rw [this.2.2.1] at hc; cases hc
    · rw [this.2.2.2] at hc; cases hc

/-- a loop-back device (one socket, the other nil) works exactly for a raw socket whose protocol is its own peer, and
    then runs a single forwarder -/
theorem plumb_loopback (x : Sock) :
    plumb (some x) none false = (if x.self = x.peer ∧ x.raw = some true then .ok 1
      else if x.self ≠ x.peer then .badproto else if x.raw = none then .opterr else .notraw) ∧
    plumb none (some x) false = plumb (some x) none false := by
  obtain ⟨xs, xp, xr⟩ := x
  constructor
  · simp only [plumb, first, second]
    by_cases h : xs = xp
    · subst h
      rcases xr with _ | _ | _ <;> simp
    · simp [h]
  · simp only [plumb, first, second]
    by_cases h : xs = xp
    · subst h
      rcases xr with _ | _ | _ <;> simp
    · simp [h]

/-- both nil: nothing to forward between -/
theorem plumb_nil (same : Bool) : plumb none none same = .closed := rfl

/-- two different sockets get a forwarder per direction, one socket given twice gets one -/
theorem plumb_forwarders (x y : Sock) (same : Bool) (n : Nat) (h : plumb (some x) (some y) same = .ok n) :
    n = if same then 1 else 2 := by
  simp only [plumb, first, second] at h
  split at h
  · cases h
  · split at h
    · cases h
    · cases h
    · split at h
      · cases h
      · cases h
      · cases same <;> simp_all

end DevicePlumb
end Model
