/-
  Model/GExpr.lean — the small guard-expression language the extractor translates
  Go boolean/integer guard expressions into (DESIGN 3.2).  Core Lean only.
-/
namespace Model

abbrev Env := String → Int

inductive GExpr where
  | var (n : String)
  | lit (i : Int)
  | add (a b : GExpr)
  | sub (a b : GExpr)
  | band (a : GExpr) (m : Nat)          -- a & const   (non-negative operands)
  | lt (a b : GExpr) | le (a b : GExpr) | gt (a b : GExpr) | ge (a b : GExpr)
  | eq (a b : GExpr) | ne (a b : GExpr)
  | and (a b : GExpr) | or (a b : GExpr) | not (a : GExpr)
  | tt | ff
  | unknown (what : String)             -- the extractor did not recognise the site
deriving Repr, DecidableEq, Inhabited, BEq

namespace GExpr

/-- integer value (boolean sub-terms count as 0/1) -/
def evalI (ρ : Env) : GExpr → Int
  | var n => ρ n
  | lit i => i
  | add a b => evalI ρ a + evalI ρ b
  | sub a b => evalI ρ a - evalI ρ b
  | band a m => Int.ofNat ((evalI ρ a).toNat &&& m)
  | lt a b => if evalI ρ a < evalI ρ b then 1 else 0
  | le a b => if evalI ρ a ≤ evalI ρ b then 1 else 0
  | gt a b => if evalI ρ a > evalI ρ b then 1 else 0
  | ge a b => if evalI ρ a ≥ evalI ρ b then 1 else 0
  | eq a b => if evalI ρ a = evalI ρ b then 1 else 0
  | ne a b => if evalI ρ a ≠ evalI ρ b then 1 else 0
  | and a b => if evalI ρ a ≠ 0 ∧ evalI ρ b ≠ 0 then 1 else 0
  | or a b => if evalI ρ a ≠ 0 ∨ evalI ρ b ≠ 0 then 1 else 0
  | not a => if evalI ρ a ≠ 0 then 0 else 1
  | tt => 1
  | ff => 0
  | unknown w => ρ ("?" ++ w)

/-- truth value -/
def holds (ρ : Env) : GExpr → Bool
  | lt a b => decide (evalI ρ a < evalI ρ b)
  | le a b => decide (evalI ρ a ≤ evalI ρ b)
  | gt a b => decide (evalI ρ a > evalI ρ b)
  | ge a b => decide (evalI ρ a ≥ evalI ρ b)
  | eq a b => decide (evalI ρ a = evalI ρ b)
  | ne a b => decide (evalI ρ a ≠ evalI ρ b)
  | and a b => holds ρ a && holds ρ b
  | or a b => holds ρ a || holds ρ b
  | not a => !holds ρ a
  | tt => true
  | ff => false
  | e => decide (evalI ρ e ≠ 0)

/-- does the expression contain an unrecognised site? -/
def recognised : GExpr → Bool
  | unknown _ => false
  | add a b | sub a b | lt a b | le a b | gt a b | ge a b | eq a b | ne a b | and a b | or a b =>
      recognised a && recognised b
  | band a _ | not a => recognised a
  | _ => true

end GExpr

/-- environment from an association list (unbound names are 0) -/
def envOf (l : List (String × Int)) : Env := fun n =>
  match l.find? (fun p => p.1 == n) with
  | some p => p.2
  | none => 0

end Model
