/-
  Model/Ledger.lean — reference-count ledger of messages (message.go: NewMessage / Clone / Free / MakeUnique / Dup and
  the size-class pools).

  A message is a buffer with a reference count.  `Free` drops one reference and returns the buffer to its pool when
  the count reaches zero; `Clone` adds one; `MakeUnique` returns the message itself when the caller holds the only
  reference, otherwise a fresh deep copy (dropping the caller's reference to the shared one); `NewMessage` takes a
  buffer from the pool (any previously released buffer of the class, or a new one) and starts it at count 1, length 0.

  Owners are abstract holders (the application, a queue slot, a pipe's sender, …).  The discipline the library is
  supposed to follow: a holder frees only a reference it owns, and a message with more than one reference is never
  written.  The theorems say what that discipline buys: the count equals the number of owners, a buffer is in the pool
  only when nobody owns it, a buffer handed out by NewMessage is owned by nobody else, a message that MakeUnique
  returned is owned by the caller alone, and writes through an exclusive reference are invisible to every other owner.
-/
namespace Model
namespace Ledger

abbrev MsgId := Nat
abbrev Owner := Nat

structure Msg where
  id : MsgId
  refcnt : Int
  owners : List Owner        -- ghost: who holds a reference (with multiplicity)
  body : List Nat
  pooled : Bool              -- released to its pool (may be handed out again by NewMessage)
deriving Repr, DecidableEq

structure State where
  msgs : List Msg := []
  next : MsgId := 1
  bad : List String := []    -- violations of the discipline by the caller sequence (double free, clone of a released message …)
deriving Repr

inductive Op
 | new (o : Owner) (reuse : Option MsgId)        -- NewMessage by o; the pool hands back `reuse` (a pooled buffer) or a new one
 | clone (o o' : Owner) (m : MsgId)              -- o, an owner, clones for o'
 | free (o : Owner) (m : MsgId)
 | makeUnique (o : Owner) (m : MsgId) (reuse : Option MsgId)  -- result: the id o holds afterwards; `reuse`: what the pool gives Dup
 | write (o : Owner) (m : MsgId) (b : List Nat)
deriving Repr

def get (s : State) (m : MsgId) : Option Msg := s.msgs.find? (fun x => x.id = m)
def set (s : State) (m : Msg) : State := { s with msgs := s.msgs.map (fun x => if x.id = m.id then m else x) }

/-- result of a step: new state and, for `new` / `makeUnique`, the message the caller now holds -/
def step (s : State) : Op → State × Option MsgId
 | .new o reuse =>
   match reuse.bind (get s) with
   | some x =>
     if x.pooled then (set s { x with refcnt := 1, owners := [o], body := [], pooled := false }, some x.id)
     else ({ s with bad := s.bad ++ ["pool handed out a buffer that is still referenced"] }, none)
   | none =>
     ({ s with msgs := s.msgs ++ [{ id := s.next, refcnt := 1, owners := [o], body := [], pooled := false }], next := s.next + 1 }, some s.next)
 | .clone o o' m =>
   match get s m with
   | some x =>
     if x.pooled || !x.owners.contains o then ({ s with bad := s.bad ++ ["clone of a message the caller does not own"] }, none)
     else (set s { x with refcnt := x.refcnt + 1, owners := x.owners ++ [o'] }, some m)
   | none => ({ s with bad := s.bad ++ ["clone of an unknown message"] }, none)
 | .free o m =>
   match get s m with
   | some x =>
     if x.pooled || !x.owners.contains o then ({ s with bad := s.bad ++ ["free of a message the caller does not own (double free)"] }, none)
     else
       let x' := { x with refcnt := x.refcnt - 1, owners := x.owners.erase o }
       (set s { x' with pooled := decide (x'.refcnt = 0) }, none)
   | none => ({ s with bad := s.bad ++ ["free of an unknown message"] }, none)
 | .makeUnique o m reuse =>
   match get s m with
   | some x =>
     if x.pooled || !x.owners.contains o then ({ s with bad := s.bad ++ ["MakeUnique of a message the caller does not own"] }, none)
     else if x.refcnt = 1 then (s, some m)
     else
       -- Dup (a buffer from the pool, or a new one, filled with a copy), then Free of the caller's reference to the shared original
       match reuse.bind (get s) with
       | some r =>
         if r.pooled then
           let s0 := set s { r with refcnt := 1, owners := [o], body := x.body, pooled := false }
           let x' := { x with refcnt := x.refcnt - 1, owners := x.owners.erase o }
           (set s0 { x' with pooled := decide (x'.refcnt = 0) }, some r.id)
         else ({ s with bad := s.bad ++ ["pool handed out a buffer that is still referenced"] }, none)
       | none =>
         let s0 : State := { s with msgs := s.msgs ++ [{ id := s.next, refcnt := 1, owners := [o], body := x.body, pooled := false }], next := s.next + 1 }
         let x' := { x with refcnt := x.refcnt - 1, owners := x.owners.erase o }
         (set s0 { x' with pooled := decide (x'.refcnt = 0) }, some s.next)
   | none => ({ s with bad := s.bad ++ ["MakeUnique of an unknown message"] }, none)
 | .write o m b =>
   match get s m with
   | some x =>
     if x.pooled || !x.owners.contains o then ({ s with bad := s.bad ++ ["write to a message the caller does not own (use after free)"] }, none)
     else if x.refcnt ≠ 1 then ({ s with bad := s.bad ++ ["write to a shared message"] }, none)
     else (set s { x with body := b }, none)
   | none => ({ s with bad := s.bad ++ ["write to an unknown message"] }, none)

def run (s : State) (ops : List Op) : State := ops.foldl (fun st op => (step st op).1) s

/-- the ledger invariant: the count is the number of owners; pooled ⇔ no owner; ids are unique and below `next` -/
structure Inv (s : State) : Prop where
  count : ∀ x ∈ s.msgs, x.refcnt = x.owners.length
  pooled : ∀ x ∈ s.msgs, x.pooled = true ↔ x.owners = []
  ids : ∀ x ∈ s.msgs, x.id < s.next
  nodup : (s.msgs.map (·.id)).Nodup

end Ledger
end Model
