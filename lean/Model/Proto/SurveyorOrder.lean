/-
  Model/Proto/SurveyorOrder.lean — SURVEYOR: every respondent's pipe is handed each survey at most once and in order,
  over every history.
-/
import Model.Proto.SurveyorGone
import Model.Proto.MeshOrder
namespace Model
namespace Proto
namespace Surveyor

def POrd (s : State) : Prop := ∀ p ∈ s.pipes, p.Ord

theorem POrd_of (s s' : State) (h : POrd s) (hp : s'.pipes = s.pipes) : POrd s' := by
  unfold POrd; rw [hp]; exact h

theorem cancel_pord (s : State) (id : Nat) (e : String) (h : POrd s) : POrd (cancel s id e).1 := POrd_of s _ h rfl

theorem setCtx_pord (s : State) (id : Nat) (f : Ctx → Ctx) (h : POrd s) : POrd (setCtx s id f) := POrd_of s _ h rfl

theorem expire_pord (s : State) (now : Nat) (h : POrd s) : ∀ st ∈ expireOutcomes s now, POrd st.1 := by
  unfold expireOutcomes
  have key : ∀ (l : List Survey) (acc : List (State × List (Nat × Ev))), (∀ st ∈ acc, POrd st.1) →
      ∀ st ∈ l.foldl (fun (acc : List (State × List (Nat × Ev))) v =>
        let mayFire := v.expire != 0 && decide (v.tmin + v.expire ≤ now)
        let mustFire := v.expire != 0 && decide (v.tmax + v.expire + slack ≤ now)
        acc.flatMap (fun (st : State × List (Nat × Ev)) =>
          let fired := let r := cancel st.1 v.id "protostate"; (r.1, st.2 ++ r.2)
          if mustFire then [fired] else if mayFire then [st, fired] else [st])) acc, POrd st.1 := by
    intro l
    induction l with
    | nil => intro acc hacc st hst; exact hacc st hst
    | cons v vs ih =>
      intro acc hacc
      simp only [List.foldl_cons]
      apply ih
      intro st hst
      simp only [List.mem_flatMap] at hst
      obtain ⟨st0, hst0, hst⟩ := hst
      have h0 := hacc st0 hst0
      split at hst
      · simp at hst; subst hst; exact (cancel_pord st0.1 v.id "protostate" h0)
      · split at hst
        · simp at hst
          rcases hst with rfl | rfl
          · exact h0
          · exact (cancel_pord st0.1 v.id "protostate" h0)
        · simp at hst; subst hst; exact h0
  exact key s.surveys [(s, [])] (by intro st hst; simp at hst; subst hst; exact h)

theorem core_pord (s : State) (now : Nat) (op : List String) (h : POrd s) : ∀ r ∈ core s now op, POrd r.1 := by
  intro r hr
  unfold core at hr
  split at hr
  · split at hr <;> simp at hr <;> subst hr
    · exact h
    · intro p hp
      simp only [List.mem_append, List.mem_singleton] at hp
      rcases hp with hp | rfl
      · exact h p hp
      · exact ⟨by simp, fun _ => rfl⟩
  · simp at hr; subst hr
    intro p hp
    exact h p (List.mem_filter.mp hp).1
  · -- inject
    try simp only [] at hr
    split at hr
    · simp at hr; subst hr; exact h
    · split at hr
      · simp at hr; subst hr; exact h
      · try simp only [] at hr
        split at hr
        · simp at hr; subst hr; exact POrd_of s _ h rfl
        · split at hr
          · simp at hr; subst hr; exact POrd_of s _ h rfl
          · simp at hr; subst hr; exact h
  · -- send
    try simp only [] at hr
    split at hr
    · simp at hr
    · split at hr
      · simp at hr; subst hr; exact POrd_of s _ h rfl
      · rename_i c _ _
        have hs1 : POrd (match c.surv with
            | some old => cancel { s with nsent := s.nsent + 1 } old "canceled"
            | none => ({ s with nsent := s.nsent + 1 }, [])).1 := by
          split
          · exact cancel_pord _ _ _ (POrd_of s _ h rfl)
          · exact POrd_of s _ h rfl
        try simp only [] at hr
        simp at hr; subst hr
        intro p hp
        refine fanout_ord _ _ _ ?_ p hp
        exact hs1
  · -- recv
    try simp only [] at hr
    split at hr
    · simp at hr; subst hr; exact h
    · split at hr
      · simp at hr
      · split at hr
        · simp at hr; subst hr; exact h
        · split at hr
          · simp at hr; subst hr; exact h
          · split at hr
            · simp at hr; subst hr; exact POrd_of s _ h rfl
            · simp at hr; subst hr; exact POrd_of s _ h rfl
  · simp at hr; subst hr; exact POrd_of s _ h rfl
  · simp at hr; subst hr; exact POrd_of s _ h rfl
  · simp at hr; subst hr; exact POrd_of s _ h rfl
  · -- hold
    simp at hr; subst hr
    intro p hp
    simp only [modifyPipe, List.mem_map] at hp
    obtain ⟨p0, hp0, rfl⟩ := hp
    split
    · exact ⟨(h p0 hp0).sub, (h p0 hp0).idle⟩
    · exact h p0 hp0
  · -- release ok
    split at hr
    · simp at hr
    · rename_i x hx
      try simp only [] at hr
      simp at hr; subst hr
      have hxm : x ∈ s.pipes := List.mem_of_find?_eq_some hx
      intro p hp
      simp only [modifyPipe, List.mem_map] at hp
      obtain ⟨p0, hp0, rfl⟩ := hp
      split
      · exact OutPipe.releaseOk_ord x (h x hxm)
      · exact h p0 hp0
  · simp at hr; subst hr
    intro p hp
    exact h p (List.mem_filter.mp hp).1
  · split at hr
    · simp at hr; subst hr; exact h
    · split at hr
      · simp at hr
      · simp at hr; subst hr; exact POrd_of s _ h rfl
  · -- closectx
    split at hr
    · simp at hr
    · split at hr
      · simp at hr; subst hr; exact h
      · try simp only [] at hr
        simp at hr; subst hr
        apply setCtx_pord
        split
        · exact cancel_pord _ _ _ (POrd_of s _ h rfl)
        · exact POrd_of s _ h rfl
  · simp at hr; subst hr; exact h
  · split at hr
    · simp at hr; subst hr; exact h
    · try simp only [] at hr
      simp at hr; subst hr
      exact POrd_of s _ h rfl
  · simp at hr

theorem reach_pord (s : State) (h : Reach s) : POrd s := by
  induction h with
  | init => intro p hp; simp [init] at hp
  | step s op o _ ho ih =>
    simp only [step, List.mem_flatMap, List.mem_map] at ho
    obtain ⟨st, hst, r, hr, r2, hr2, rfl⟩ := ho
    exact expire_pord { r.1 with tprev := opTime op } _ (POrd_of r.1 _ (core_pord st.1 _ _ (expire_pord s _ ih st hst) r hr) rfl) r2 hr2

/-- over every history: for every respondent, the surveys handed to its pipe — completed, in progress, queued — are,
    in order, part of what was offered to that pipe: a survey is sent to a respondent at most once, in order -/
theorem per_respondent_order (s : State) (h : Reach s) :
    ∀ p ∈ s.pipes, (p.sent ++ p.inflight.toList ++ p.q).Sublist p.offered :=
  fun p hp => (reach_pord s h p hp).sub

end Surveyor
end Proto
end Model
