/-
  Model/Proto/Fanout.lean — the per-pipe output side shared by XPUB, XBUS, XSTAR, (X)SURVEYOR:
  a bounded queue drained by one sender goroutine that hands one message at a time to the pipe.
  `hold` is the harness's switch that parks the pipe's SendMsg (a slow peer).
-/
import Model.Proto.Common
namespace Model
namespace Proto

abbrev Msg := Bytes × Bytes      -- (header, body)

structure OutPipe where
  id : Nat
  q : List Msg := []
  cap : Nat
  hold : Bool := false
  inflight : Option Msg := none  -- handed to the pipe's SendMsg, which has not returned yet
  -- ghost: every copy offered to this pipe, and every copy its SendMsg completed, in order
  offered : List Msg := []
  sent : List Msg := []
deriving Repr, BEq

namespace OutPipe

/-- non-blocking enqueue of one copy: idle sender takes it at once; otherwise queue if room, else drop.
    Returns the events and whether the copy was accepted. -/
def offer (p : OutPipe) (m : Msg) : OutPipe × List (Nat × Ev) × Bool :=
  match p.inflight with
  | none =>
    if p.hold then ({ p with inflight := some m, offered := p.offered ++ [m] }, [], true)
    else ({ p with offered := p.offered ++ [m], sent := p.sent ++ [m] }, [(p.id, txEv p.id m.1 m.2)], true)
  | some _ =>
    if p.q.length < p.cap then ({ p with q := p.q ++ [m], offered := p.offered ++ [m] }, [], true)
    else ({ p with offered := p.offered ++ [m] }, [], false)

/-- after the in-flight send has completed: the sender goes on draining the queue -/
def drain : Nat → OutPipe → OutPipe × List (Nat × Ev)
  | 0, p => (p, [])
  | fuel+1, p =>
    match p.q with
    | [] => (p, [])
    | m :: rest =>
      if p.hold then ({ p with q := rest, inflight := some m }, [])
      else
        let (p', evs) := drain fuel { p with q := rest, sent := p.sent ++ [m] }
        (p', (p.id, txEv p.id m.1 m.2) :: evs)

/-- the pipe's SendMsg returns successfully -/
def releaseOk (p : OutPipe) : OutPipe × List (Nat × Ev) :=
  match p.inflight with
  | none => (p, [])
  | some m =>
    let (p', evs) := drain (p.q.length + 1) { p with inflight := none, sent := p.sent ++ [m] }
    (p', (p.id, txEv p.id m.1 m.2) :: evs)

end OutPipe

def findPipe (ps : List OutPipe) (id : Nat) : Option OutPipe := ps.find? (fun p => p.id = id)
def modifyPipe (ps : List OutPipe) (id : Nat) (f : OutPipe → OutPipe) : List OutPipe :=
  ps.map (fun p => if p.id = id then f p else p)
def removePipe (ps : List OutPipe) (id : Nat) : List OutPipe := ps.filter (fun p => p.id != id)

/-- clone-and-offer to every pipe for which `sel` holds -/
def fanout (ps : List OutPipe) (sel : OutPipe → Bool) (m : Msg) : List OutPipe × List (Nat × Ev) :=
  let rs := ps.map (fun p => if sel p then let r := p.offer m; (r.1, r.2.1) else (p, []))
  (rs.map (·.1), rs.flatMap (·.2))

end Proto
end Model
