/-
  Model/Proto/RepClose.lean — cooked REP / RESPONDENT: every parked call belongs to an open context (invariant L over
  all histories), closing a context wakes its own waiters, and Close leaves nothing parked.
-/
import Model.Proto.RepLemmas
namespace Model
namespace Proto
namespace Rep

structure L (s : State) : Prop where
  wlive : s.flavor.cooked = true → ∀ w ∈ s.waiting, ∃ x ∈ s.ctxs, x.id = w.1 ∧ x.closed = false
  slive : s.flavor.cooked = true → ∀ p ∈ s.parkedSend, ∃ x ∈ s.ctxs, x.id = p.ctx ∧ x.closed = false

theorem L_sub (s s' : State) (h : L s) (hf : s'.flavor = s.flavor) (hc : s'.ctxs = s.ctxs)
    (hw : ∀ w ∈ s'.waiting, w ∈ s.waiting) (hs : ∀ p ∈ s'.parkedSend, p ∈ s.parkedSend) : L s' := by
  constructor
  · intro hk w hw'; rw [hc]; exact h.wlive (hf ▸ hk) w (hw w hw')
  · intro hk p hp; rw [hc]; exact h.slive (hf ▸ hk) p (hs p hp)

theorem L_same (s s' : State) (h : L s) (hf : s'.flavor = s.flavor) (hc : s'.ctxs = s.ctxs)
    (hw : s'.waiting = s.waiting) (hs : s'.parkedSend = s.parkedSend) : L s' :=
  L_sub s s' h hf hc (by rw [hw]; intro w h; exact h) (by rw [hs]; intro p h; exact h)

theorem setCtx_mem' (s : State) (c : Nat) (f : Ctx → Ctx) (x : Ctx) (hx : x ∈ s.ctxs) :
    (if x.id = c then f x else x) ∈ (setCtx s c f).ctxs := by
  simp only [setCtx, List.mem_map]
  exact ⟨x, hx, rfl⟩

theorem setCtx_L (s : State) (c : Nat) (f : Ctx → Ctx) (hf : ∀ y, (f y).id = y.id ∧ (f y).closed = y.closed) (h : L s) :
    L (setCtx s c f) := by
  constructor
  · intro hk w hw
    obtain ⟨x, hx, h1, h2⟩ := h.wlive hk w hw
    refine ⟨_, setCtx_mem' s c f x hx, ?_⟩
    split
    · exact ⟨(hf x).1.trans h1, (hf x).2.trans h2⟩
    · exact ⟨h1, h2⟩
  · intro hk p hp
    obtain ⟨x, hx, h1, h2⟩ := h.slive hk p hp
    refine ⟨_, setCtx_mem' s c f x hx, ?_⟩
    split
    · exact ⟨(hf x).1.trans h1, (hf x).2.trans h2⟩
    · exact ⟨h1, h2⟩

theorem deliverTo_L (s : State) (c call p : Nat) (m : Msg) (h : L s) : L (deliverTo s c call p m).1 := by
  unfold deliverTo
  split
  · exact setCtx_L s c _ (fun y => ⟨rfl, rfl⟩) h
  · exact h

theorem nextBacklog_L (s : State) (h : L s) (s' : State) (evs) (hp : progress.nextBacklog s = some (s', evs)) : L s' := by
  unfold progress.nextBacklog at hp
  split at hp
  · simp only [] at hp
    split at hp <;> (simp only [Option.some.injEq, Prod.mk.injEq] at hp; obtain ⟨rfl, _⟩ := hp; exact L_same s _ h rfl rfl rfl rfl)
  · simp at hp

theorem progress_L (s : State) (h : L s) (s' : State) (evs) (hp : progress s = some (s', evs)) : L s' := by
  unfold progress at hp
  split at hp
  · split at hp
    · simp only [] at hp
      simp only [Option.some.injEq, Prod.mk.injEq] at hp
      obtain ⟨rfl, _⟩ := hp
      exact L_sub s _ h rfl rfl (fun w hw => hw) (fun p hp => (List.mem_filter.mp hp).1)
    · simp at hp
  · split at hp
    · rename_i c call rest p m q hwq hrq
      simp only [] at hp
      simp only [Option.some.injEq, Prod.ext_iff] at hp
      rw [← hp.1]
      refine deliverTo_L _ _ _ _ _ (L_sub s _ h rfl rfl ?_ (fun p hp => hp))
      intro w hw
      show w ∈ s.waiting
      rw [hwq]; exact List.mem_cons_of_mem _ hw
    · split at hp
      · split at hp
        · rename_i hwq
          simp only [] at hp
          simp only [Option.some.injEq, Prod.ext_iff] at hp
          rw [← hp.1]
          refine deliverTo_L _ _ _ _ _ (L_sub s _ h rfl rfl ?_ (fun p hp => hp))
          intro w hw
          show w ∈ s.waiting
          rw [hwq]; exact List.mem_cons_of_mem _ hw
        · split at hp
          · simp only [Option.some.injEq, Prod.mk.injEq] at hp
            obtain ⟨rfl, _⟩ := hp
            exact L_same s _ h rfl rfl rfl rfl
          · exact nextBacklog_L s h s' evs hp
      · exact nextBacklog_L s h s' evs hp

theorem settle_L (fuel : Nat) (s : State) (h : L s) : L (settle fuel s).1 := by
  induction fuel generalizing s with
  | zero => simpa [settle] using h
  | succ n ih =>
    simp only [settle]
    cases hp : progress s with
    | none => simpa using h
    | some r =>
      obtain ⟨s', evs⟩ := r
      exact ih s' (progress_L s h s' evs hp)

theorem settled_L (s : State) (pre evs) (h : L s) : L (settled s pre evs).1 := by
  simp only [settled]; exact settle_L _ s h

theorem dropPipe_L (s : State) (p : Nat) (h : L s) : L (dropPipe s p).1 := by
  unfold dropPipe
  simp only []
  split <;> exact L_sub s _ h rfl rfl (fun w hw => hw) (fun q hq => (List.mem_filter.mp hq).1)

/-- closing a context removes exactly what was parked on it; everything else keeps its (open) context -/
theorem closeCtx_L (s : State) (c : Nat) (h : L s) : L (closeCtx s c).1 := by
  unfold closeCtx
  simp only []
  constructor
  · intro hk w hw
    have hw0 : w ∈ s.waiting ∧ w.1 ≠ c := by
      have := List.mem_filter.mp hw
      exact ⟨this.1, by simpa using this.2⟩
    obtain ⟨x, hx, h1, h2⟩ := h.wlive hk w hw0.1
    refine ⟨x, ?_, h1, h2⟩
    have := setCtx_mem' { s with waiting := s.waiting.filter (fun x => x.1 != c), parkedSend := s.parkedSend.filter (fun x => x.ctx != c) } c (fun x => { x with closed := true, recvWait := false }) x hx
    have hxc : ¬ x.id = c := by rw [h1]; exact hw0.2
    simpa [hxc] using this
  · intro hk p hp
    have hp0 : p ∈ s.parkedSend ∧ p.ctx ≠ c := by
      have := List.mem_filter.mp hp
      exact ⟨this.1, by simpa using this.2⟩
    obtain ⟨x, hx, h1, h2⟩ := h.slive hk p hp0.1
    refine ⟨x, ?_, h1, h2⟩
    have := setCtx_mem' { s with waiting := s.waiting.filter (fun x => x.1 != c), parkedSend := s.parkedSend.filter (fun x => x.ctx != c) } c (fun x => { x with closed := true, recvWait := false }) x hx
    have hxc : ¬ x.id = c := by rw [h1]; exact hp0.2
    simpa [hxc] using this

/-- … and nothing stays parked on the closed context -/
theorem closeCtx_clears (s : State) (c : Nat) :
    (∀ w ∈ (closeCtx s c).1.waiting, w.1 ≠ c) ∧ (∀ p ∈ (closeCtx s c).1.parkedSend, p.ctx ≠ c) := by
  unfold closeCtx
  simp only []
  constructor
  · intro w hw
    have := (List.mem_filter.mp hw).2
    simpa using this
  · intro p hp
    have := (List.mem_filter.mp hp).2
    simpa using this

theorem sendTo_L (s : State) (call ctx p : Nat) (m : Msg) (orig : Bytes) (rp : Nat) (rh : Bytes) (h : L s)
    (hw : s.flavor.cooked = true → ∃ x ∈ s.ctxs, x.id = ctx ∧ x.closed = false) : ∀ o ∈ sendTo s call ctx p m orig rp rh, L o.1 := by
  intro o ho
  have hsent : ∀ ps rs, L { s with pipes := ps, replies := rs } := fun ps rs => L_same s _ h rfl rfl rfl rfl
  unfold sendTo at ho
  split at ho
  · split at ho
    · simp at ho
    · simp at ho; subst ho; exact h
  · split at ho
    · simp at ho; subst ho; exact h
    · try simp only [] at ho
      split at ho
      · split at ho
        · simp at ho
          rcases ho with rfl | rfl
          · exact settled_L _ _ _ (hsent _ _)
          · exact h
        · simp at ho; subst ho; exact h
      · split at ho
        · simp at ho; subst ho; exact settled_L _ _ _ (hsent _ _)
        · simp at ho; subst ho
          constructor
          · intro hk w hw'; exact h.wlive hk w hw'
          · intro hk q hq
            simp only [List.mem_append, List.mem_singleton] at hq
            rcases hq with hq | rfl
            · exact h.slive hk q hq
            · exact hw hk

theorem getCtx_id' (s : State) (id : Nat) (c : Ctx) (h : getCtx s id = some c) : c.id = id := by
  unfold getCtx at h
  simpa using List.find?_some h

theorem L_addWaiting (s : State) (w : Nat × Nat) (h : L s)
    (hw : s.flavor.cooked = true → ∃ x ∈ s.ctxs, x.id = w.1 ∧ x.closed = false) : L { s with waiting := s.waiting ++ [w] } := by
  constructor
  · intro hk v hv
    simp only [List.mem_append, List.mem_singleton] at hv
    rcases hv with hv | rfl
    · exact h.wlive hk v hv
    · exact hw hk
  · exact h.slive

theorem closeAll_L (l : List Ctx) (acc : State × List (Nat × Ev)) (h : L acc.1) :
    L (l.foldl (fun (acc : State × List (Nat × Ev)) c => if c.closed then acc else
                let (s', evs) := closeCtx acc.1 c.id; (s', acc.2 ++ evs)) acc).1 := by
  induction l generalizing acc with
  | nil => simpa using h
  | cons c cs ih =>
    simp only [List.foldl_cons]
    apply ih
    split
    · exact h
    · exact closeCtx_L _ _ h

theorem step_L (s : State) (op : List String) (h : L s) : ∀ o ∈ step s op, L o.1 := by
  intro o ho
  unfold step at ho
  split at ho
  · -- addpipe
    split at ho <;> simp at ho <;> subst ho
    · exact h
    · exact L_same s _ h rfl rfl rfl rfl
  · -- rmpipe
    (try simp only [] at ho); simp at ho; subst ho
    exact settled_L _ _ _ (dropPipe_L s _ h)
  · -- inject
    split at ho
    · simp at ho; subst ho; exact settled_L _ _ _ (L_same s _ h rfl rfl rfl rfl)
    · simp at ho; subst ho; exact h
  · -- recv
    try simp only [] at ho
    split at ho
    · rename_i hcooked
      split at ho
      · simp at ho
      · rename_i c hget
        split at ho
        · simp at ho; subst ho; exact h
        · rename_i hopen
          split at ho
          · simp at ho; subst ho; exact h
          · try simp only [] at ho
            simp at ho; subst ho
            apply settled_L
            have hcm := getCtx_mem s _ c hget
            have hopen' : c.closed = false := by simpa using hopen
            split
            · refine L_addWaiting _ _ (setCtx_L s _ _ (fun y => ⟨rfl, rfl⟩) h) (fun _ => ⟨_, setCtx_mem' s c.id _ c hcm, ?_⟩)
              simp [hopen']
            · refine L_addWaiting _ _ (setCtx_L s _ _ (fun y => ⟨rfl, rfl⟩) h) (fun _ => ⟨_, setCtx_mem' s c.id _ c hcm, ?_⟩)
              simp [hopen']
    · rename_i hraw
      have hnc : s.flavor.cooked = false := by simpa using hraw
      split at ho
      · split at ho
        · simp at ho; subst ho; exact h
        · simp at ho
          rcases ho with rfl | rfl
          · exact h
          · apply settled_L
            constructor <;> (intro hk; simp [hnc] at hk)
      · simp at ho; subst ho
        apply settled_L
        constructor <;> (intro hk; simp [hnc] at hk)
  · -- send
    try simp only [] at ho
    split at ho
    · split at ho
      · simp at ho
      · rename_i c hget
        split at ho
        · simp at ho; subst ho; exact h
        · rename_i hopen
          split at ho
          · simp at ho; subst ho; exact h
          · rename_i bt hbt
            try simp only [] at ho
            split at ho
            · simp at ho
            · rename_i p hrp
              have hs1 : L (setCtx s c.id (fun x => { x with backtrace := none, recvPipe := none })) :=
                setCtx_L s _ _ (fun y => ⟨rfl, rfl⟩) h
              refine sendTo_L _ _ _ _ _ _ _ _ hs1 ?_ o ho
              intro _
              have hcm := getCtx_mem s _ c hget
              have hopen' : c.closed = false := by
                simp only [Bool.or_eq_true, not_or, Bool.not_eq_true] at hopen
                exact hopen.2
              refine ⟨_, setCtx_mem' s c.id _ c hcm, ?_⟩
              simp [hopen']
    · rename_i hraw
      have hnc : s.flavor.cooked = false := by simpa using hraw
      split at ho
      · simp at ho; subst ho; exact h
      · try simp only [] at ho
        split at ho
        · simp at ho; subst ho; exact h
        · refine sendTo_L _ _ _ _ _ _ _ _ h ?_ o ho
          intro hk; simp [hnc] at hk
  · simp at ho; subst ho; exact L_same s _ h rfl rfl rfl rfl
  · simp at ho; subst ho; exact L_same s _ h rfl rfl rfl rfl
  · simp at ho; subst ho; exact L_same s _ h rfl rfl rfl rfl
  · simp at ho; subst ho; exact h
  · -- expire
    split at ho
    · simp at ho
    · simp at ho; subst ho
      exact L_sub s _ h rfl rfl (fun w hw => hw) (fun p hp => (List.mem_filter.mp hp).1)
  · simp at ho; subst ho; exact L_same s _ h rfl rfl rfl rfl
  · -- release ok
    split at ho
    · simp at ho
    · simp only [] at ho; simp at ho; subst ho
      exact settled_L _ _ _ (L_same s _ h rfl rfl rfl rfl)
  · -- release err
    (try simp only [] at ho); simp at ho; subst ho
    exact settled_L _ _ _ (dropPipe_L s _ h)
  · -- openctx
    split at ho
    · simp at ho; subst ho; exact h
    · split at ho
      · simp at ho; subst ho; exact h
      · simp at ho; subst ho
        constructor
        · intro hk w hw
          obtain ⟨x, hx, hr⟩ := h.wlive hk w hw
          exact ⟨x, List.mem_append_left _ hx, hr⟩
        · intro hk p hp
          obtain ⟨x, hx, hr⟩ := h.slive hk p hp
          exact ⟨x, List.mem_append_left _ hx, hr⟩
  · -- closectx
    split at ho
    · simp at ho
    · split at ho
      · simp at ho; subst ho; exact h
      · simp only [] at ho; simp at ho; subst ho
        exact closeCtx_L s _ h
  · -- close
    split at ho
    · simp at ho; subst ho; exact h
    · split at ho
      · simp only [] at ho; simp at ho; subst ho
        exact L_same _ _ (closeAll_L s.ctxs (s, []) h) rfl rfl rfl rfl
      · rename_i hraw
        have hnc : s.flavor.cooked = false := by simpa using hraw
        simp only [] at ho; simp at ho; subst ho
        constructor <;> (intro hk; simp [hnc] at hk)
  · simp at ho

theorem init_L (f : Flavor) (site : HopSite) : L (init f site) := by
  cases f <;> (constructor <;> simp [init])

theorem reach_L (f : Flavor) (site : HopSite) (s : State) (h : Reach f site s) : L s := by
  induction h with
  | init => exact init_L f site
  | step s op o _ ho ih => exact step_L s op ih o ho

/-! ### Close -/

def clo (s : State) : List (Nat × Bool) := s.ctxs.map (fun y => (y.id, y.closed))

theorem closeCtx_clo (s : State) (c : Nat) : clo (closeCtx s c).1 = (clo s).map (fun e => if e.1 = c then (e.1, true) else e) := by
  unfold closeCtx
  simp only [clo, setCtx, List.map_map]
  apply List.map_congr_left
  intro y _
  simp only [Function.comp]
  split <;> rfl

theorem closeCtx_flavor (s : State) (c : Nat) : (closeCtx s c).1.flavor = s.flavor := by
  unfold closeCtx; rfl

abbrev closeStep (acc : State × List (Nat × Ev)) (c : Ctx) : State × List (Nat × Ev) :=
  if c.closed then acc else
    let (s', evs) := closeCtx acc.1 c.id; (s', acc.2 ++ evs)

theorem closeFold_flavor : ∀ (l : List Ctx) (acc : State × List (Nat × Ev)), (l.foldl closeStep acc).1.flavor = acc.1.flavor := by
  intro l
  induction l with
  | nil => intro acc; rfl
  | cons c t ih =>
    intro acc
    simp only [List.foldl_cons]
    rw [ih]
    unfold closeStep
    split
    · rfl
    · exact closeCtx_flavor _ _

theorem closeFold_all_closed : ∀ (l : List Ctx) (acc : State × List (Nat × Ev)),
    (∀ e ∈ clo acc.1, e.2 = false → ∃ c ∈ l, c.id = e.1 ∧ c.closed = false) → ∀ e ∈ clo (l.foldl closeStep acc).1, e.2 = true := by
  intro l
  induction l with
  | nil =>
    intro acc h e he
    cases hb : e.2 with
    | true => rfl
    | false => obtain ⟨c, hc, _⟩ := h e he hb; simp at hc
  | cons c t ih =>
    intro acc h
    simp only [List.foldl_cons]
    apply ih
    intro e' he' hopen
    unfold closeStep at he'
    split at he'
    · rename_i hcc
      obtain ⟨c', hc', hid, hcl⟩ := h e' he' hopen
      simp only [List.mem_cons] at hc'
      rcases hc' with rfl | hc'
      · rw [hcc] at hcl; cases hcl
      · exact ⟨c', hc', hid, hcl⟩
    · simp only [] at he'
      rw [closeCtx_clo] at he'
      simp only [List.mem_map] at he'
      obtain ⟨e, he, rfl⟩ := he'
      split at hopen
      · cases hopen
      · rename_i hne
        obtain ⟨c', hc', hid, hcl⟩ := h e he hopen
        simp only [List.mem_cons] at hc'
        rcases hc' with rfl | hc'
        · exact absurd hid.symm hne
        · refine ⟨c', hc', ?_, hcl⟩
          simp only [hne, if_false]; exact hid

/-- **Close wakes every call** (cooked REP / RESPONDENT): in every reachable state of an open socket, after Close no
    Recv and no Send is parked on any context and the socket is closed -/
theorem close_wakes_all (f : Flavor) (site : HopSite) (s : State) (hs : Reach f site s) (hk : s.flavor.cooked = true)
    (hopen : s.closed = false) : ∀ o ∈ step s ["close"], o.1.closed = true ∧ o.1.waiting = [] ∧ o.1.parkedSend = [] := by
  intro o ho
  have hL := step_L s ["close"] (reach_L f site s hs) o ho
  simp only [step, hopen, hk] at ho
  simp at ho; subst ho
  have hall := closeFold_all_closed s.ctxs (s, []) (by
    intro e he hopen
    simp only [clo, List.mem_map] at he
    obtain ⟨y, hy, rfl⟩ := he
    exact ⟨y, hy, rfl, hopen⟩)
  have hfl : (s.ctxs.foldl closeStep (s, [])).1.flavor.cooked = true := by rw [closeFold_flavor]; exact hk
  refine ⟨rfl, ?_, ?_⟩
  · cases hp : (s.ctxs.foldl closeStep (s, [])).1.waiting with
    | nil => rfl
    | cons w t =>
      exfalso
      obtain ⟨x, hx, _, hcl⟩ := hL.wlive hfl w (by show w ∈ (s.ctxs.foldl closeStep (s, [])).1.waiting; rw [hp]; simp)
      have := hall (x.id, x.closed) (by simp only [clo, List.mem_map]; exact ⟨x, hx, rfl⟩)
      simp only at this
      rw [hcl] at this; cases this
  · cases hp : (s.ctxs.foldl closeStep (s, [])).1.parkedSend with
    | nil => rfl
    | cons p t =>
      exfalso
      obtain ⟨x, hx, _, hcl⟩ := hL.slive hfl p (by show p ∈ (s.ctxs.foldl closeStep (s, [])).1.parkedSend; rw [hp]; simp)
      have := hall (x.id, x.closed) (by simp only [clo, List.mem_map]; exact ⟨x, hx, rfl⟩)
      simp only at this
      rw [hcl] at this; cases this

end Rep
end Proto
end Model
