/-
  Model/Proto/MeshQuiet.lean — BUS / STAR: in every reachable state nothing is left to do: a Recv is blocked only when
  no message is queued, none is held by a receiver and none is waiting to be read.
-/
import Model.Proto.MeshLemmas
namespace Model
namespace Proto
namespace Mesh

inductive Reach (f : Flavor) (g : GExpr) : State → Prop
  | init : Reach f g (init f g)
  | step (s : State) (op : List String) (o : State × List Ev) : Reach f g s → o ∈ step s op → Reach f g o.1

def measure (s : State) : Nat := 3 * s.backlog.length + 2 * s.blocked.length + s.recvQ.length + s.waiting.length

theorem nextBacklog_measure (s : State) (s' : State) (evs) (hp : progress.nextBacklog s = some (s', evs)) : measure s' < measure s := by
  unfold progress.nextBacklog at hp
  split at hp
  · rename_i p b hfind
    have hmem : (p, b) ∈ s.backlog := List.mem_of_find?_eq_some hfind
    have hlen := List.length_erase_of_mem hmem
    have hpos : 0 < s.backlog.length := List.length_pos_of_mem hmem
    simp only [] at hp
    split at hp
    · split at hp
      · simp only [Option.some.injEq, Prod.mk.injEq] at hp
        obtain ⟨rfl, _⟩ := hp
        unfold measure
        simp only [hlen]
        omega
      · simp only [Option.some.injEq, Prod.mk.injEq] at hp
        obtain ⟨rfl, _⟩ := hp
        unfold measure
        simp only [List.length_append, List.length_cons, List.length_nil, hlen]
        omega
    · simp only [Option.some.injEq, Prod.mk.injEq] at hp
      obtain ⟨rfl, _⟩ := hp
      unfold measure
      simp only [List.length_append, List.length_cons, List.length_nil, hlen]
      omega
  · simp at hp

theorem progress_measure (s : State) (s' : State) (evs) (hp : progress s = some (s', evs)) : measure s' < measure s := by
  unfold progress at hp
  split at hp
  · rename_i call rest m q hw hq
    simp only [Option.some.injEq, Prod.mk.injEq] at hp
    obtain ⟨rfl, _⟩ := hp
    unfold measure
    simp only [hw, hq, List.length_cons]
    omega
  · split at hp
    · rename_i p m bl hbl
      split at hp
      · rename_i call rest hw
        simp only [Option.some.injEq, Prod.mk.injEq] at hp
        obtain ⟨rfl, _⟩ := hp
        unfold measure
        simp only [hw, hbl, List.length_cons]
        omega
      · split at hp
        · simp only [Option.some.injEq, Prod.mk.injEq] at hp
          obtain ⟨rfl, _⟩ := hp
          unfold measure
          simp only [hbl, List.length_cons, List.length_append, List.length_nil]
          omega
        · exact nextBacklog_measure s s' evs hp
    · exact nextBacklog_measure s s' evs hp

theorem settle_quiet : ∀ (fuel : Nat) (s : State), measure s ≤ fuel → progress (settle fuel s).1 = none := by
  intro fuel
  induction fuel with
  | zero =>
    intro s hm
    show progress s = none
    cases hp : progress s with
    | none => rfl
    | some r =>
      have := progress_measure s r.1 r.2 hp
      omega
  | succ n ih =>
    intro s hm
    simp only [settle]
    cases hp : progress s with
    | none => exact hp
    | some r =>
      obtain ⟨s', evs⟩ := r
      have := progress_measure s s' evs hp
      exact ih s' (by omega)

theorem settled_quiet (s : State) (pre evs) : progress (settled s pre evs).1 = none := by
  simp only [settled]
  apply settle_quiet
  unfold measure; omega

def QuietP (s : State) : Prop :=
  (s.waiting = [] ∨ s.recvQ = []) ∧
  (s.blocked ≠ [] → s.waiting = [] ∧ ¬ s.recvQ.length < s.recvCap) ∧
  s.backlog.find? (fun pb => !(s.blocked.any (fun x => x.1 == pb.1))) = none

theorem nextBacklog_none_iff (s : State) : progress.nextBacklog s = none ↔
    s.backlog.find? (fun pb => !(s.blocked.any (fun x => x.1 == pb.1))) = none := by
  unfold progress.nextBacklog
  cases hf : s.backlog.find? (fun pb => !(s.blocked.any (fun x => x.1 == pb.1))) with
  | none => simp
  | some pb =>
    obtain ⟨p, b⟩ := pb
    simp only []
    split
    · split <;> simp
    · simp

theorem quiet_iff (s : State) : progress s = none ↔ QuietP s := by
  unfold progress QuietP
  cases hw : s.waiting with
  | nil =>
    simp only []
    cases hb : s.blocked with
    | nil => simp [nextBacklog_none_iff, hb]
    | cons x bl =>
      obtain ⟨p, m⟩ := x
      simp only []
      by_cases hroom : s.recvQ.length < s.recvCap
      · simp [hroom]
      · simp [hroom, nextBacklog_none_iff, hb]
  | cons call rest =>
    cases hq : s.recvQ with
    | cons m q => simp
    | nil =>
      simp only []
      cases hb : s.blocked with
      | nil => simp [nextBacklog_none_iff, hb]
      | cons x bl =>
        obtain ⟨p, m⟩ := x
        simp

theorem quiet_of (s s' : State) (h : progress s = none) (h1 : s'.recvQ = s.recvQ) (h2 : s'.recvCap = s.recvCap) (h3 : s'.blocked = s.blocked)
    (h4 : s'.backlog = s.backlog) (h5 : s'.waiting = s.waiting) : progress s' = none := by
  rw [quiet_iff] at h ⊢
  unfold QuietP at h ⊢
  rw [h1, h2, h3, h4, h5]
  exact h

theorem quiet_waiting (s : State) (h : progress s = none) (hne : s.waiting ≠ []) : s.recvQ = [] ∧ s.blocked = [] ∧ s.backlog = [] := by
  obtain ⟨h1, h2, h3⟩ := (quiet_iff s).mp h
  have hq : s.recvQ = [] := by
    rcases h1 with e | e
    · exact absurd e hne
    · exact e
  have hb : s.blocked = [] := by
    cases hb : s.blocked with
    | nil => rfl
    | cons x bl => exact absurd (h2 (by rw [hb]; simp)).1 hne
  refine ⟨hq, hb, ?_⟩
  cases hbk : s.backlog with
  | nil => rfl
  | cons x t =>
    rw [hbk, hb] at h3
    simp at h3

/-- removing pipes one after the other -/
theorem dropAll (l : List Nat) : ∀ (s : State),
    (l.foldl dropPipe s).blocked = s.blocked.filter (fun x => !l.contains x.1) ∧
    (l.foldl dropPipe s).backlog = s.backlog.filter (fun x => !l.contains x.1) ∧
    (l.foldl dropPipe s).recvQ = s.recvQ ∧ (l.foldl dropPipe s).recvCap = s.recvCap ∧ (l.foldl dropPipe s).waiting = s.waiting := by
  induction l with
  | nil =>
    intro s
    have ft : ∀ (l : List (Nat × Msg)), l.filter (fun _ => true) = l := by
      intro l; induction l with
      | nil => rfl
      | cons a t ih => simp
    have ft2 : ∀ (l : List (Nat × Bytes)), l.filter (fun _ => true) = l := by
      intro l; induction l with
      | nil => rfl
      | cons a t ih => simp
    refine ⟨?_, ?_, rfl, rfl, rfl⟩
    · show s.blocked = s.blocked.filter (fun x => !([] : List Nat).contains x.1)
      simp only [List.contains_nil, Bool.not_false]
      exact (ft _).symm
    · show s.backlog = s.backlog.filter (fun x => !([] : List Nat).contains x.1)
      simp only [List.contains_nil, Bool.not_false]
      exact (ft2 _).symm
  | cons p ps ih =>
    intro s
    simp only [List.foldl_cons]
    obtain ⟨i1, i2, i3, i4, i5⟩ := ih (dropPipe s p)
    refine ⟨?_, ?_, i3, i4, i5⟩
    · rw [i1]
      show (s.blocked.filter (fun x => x.1 != p)).filter _ = _
      rw [List.filter_filter]
      congr 1
      funext x
      simp only [List.contains_cons, Bool.not_or, bne, Bool.and_comm]
    · rw [i2]
      show (s.backlog.filter (fun x => x.1 != p)).filter _ = _
      rw [List.filter_filter]
      congr 1
      funext x
      simp only [List.contains_cons, Bool.not_or, bne, Bool.and_comm]

theorem step_quiet (s : State) (op : List String) (h : progress s = none) : ∀ o ∈ step s op, progress o.1 = none := by
  intro o ho
  unfold step at ho
  split at ho
  · split at ho
    · simp at ho; subst ho; exact h
    · simp at ho; subst ho; exact quiet_of s _ h rfl rfl rfl rfl rfl
  · simp at ho; subst ho; exact settled_quiet _ _ _
  · split at ho
    · simp at ho; subst ho; exact settled_quiet _ _ _
    · simp at ho; subst ho; exact h
  · -- send
    split at ho
    · simp at ho; subst ho; exact h
    · split at ho
      · simp at ho; subst ho; exact h
      · simp only [] at ho
        simp at ho; subst ho
        exact quiet_of s _ h rfl rfl rfl rfl rfl
  · -- recv
    split at ho
    · split at ho
      · split at ho
        · simp at ho; subst ho; exact h
        · simp at ho
          rcases ho with rfl | rfl
          · exact h
          · exact settled_quiet _ _ _
      · simp at ho
        rcases ho with rfl | rfl
        · exact h
        · exact settled_quiet _ _ _
    · simp at ho; subst ho; exact settled_quiet _ _ _
  · simp at ho; subst ho; exact quiet_of s _ h rfl rfl rfl rfl rfl
  · simp at ho; subst ho; exact quiet_of s _ h rfl rfl rfl rfl rfl
  · -- READQ-LEN
    split at ho
    · simp at ho; subst ho; exact settled_quiet _ _ _
    · split at ho
      · simp at ho; subst ho; exact settled_quiet _ _ _
      · simp at ho
  · simp at ho; subst ho; exact quiet_of s _ h rfl rfl rfl rfl rfl
  · split at ho
    · simp at ho
    · simp only [] at ho
      simp at ho; subst ho; exact settled_quiet _ _ _
  · simp at ho; subst ho; exact settled_quiet _ _ _
  · simp at ho; subst ho; exact h
  · -- close
    split at ho
    · simp at ho; subst ho; exact h
    · simp only [] at ho
      simp at ho; subst ho
      obtain ⟨q1, q2, q3⟩ := (quiet_iff s).mp h
      rw [quiet_iff]
      by_cases hstar : s.flavor.isStar = true
      · simp only [hstar, if_true]
        obtain ⟨d1, d2, d3, d4, d5⟩ := dropAll (s.blocked.map (·.1)) s
        have hbl : ((s.blocked.map (·.1)).foldl dropPipe s).blocked = [] := by
          rw [d1]
          apply List.filter_eq_nil_iff.mpr
          intro x hx
          simp only [Bool.not_eq_true, Bool.not_eq_false', List.contains_eq_mem, decide_eq_true_eq]
          exact List.mem_map.mpr ⟨x, hx, rfl⟩
        have hbk : ((s.blocked.map (·.1)).foldl dropPipe s).backlog = [] := by
          rw [d2]
          apply List.filter_eq_nil_iff.mpr
          intro x hx
          simp only [Bool.not_eq_true, Bool.not_eq_false', List.contains_eq_mem, decide_eq_true_eq]
          have := List.find?_eq_none.mp q3 x hx
          simp only [Bool.not_eq_true, Bool.not_eq_false', List.any_eq_true, beq_iff_eq] at this
          obtain ⟨y, hy, hyx⟩ := this
          exact List.mem_map.mpr ⟨y, hy, hyx⟩
        refine ⟨Or.inl rfl, ?_, ?_⟩
        · intro hne
          exact absurd hbl hne
        · show List.find? _ ((s.blocked.map (·.1)).foldl dropPipe s).backlog = none
          rw [hbk]; rfl
      · simp only [hstar, Bool.false_eq_true, if_false, List.foldl_nil]
        refine ⟨Or.inl rfl, ?_, q3⟩
        intro hne
        exact ⟨rfl, (q2 hne).2⟩
  · simp at ho

theorem reach_quiet (f : Flavor) (g : GExpr) (s : State) (h : Reach f g s) : progress s = none := by
  induction h with
  | init => rw [quiet_iff]; exact ⟨Or.inl rfl, by intro hne; simp [init] at hne, by simp [init]⟩
  | step s op o _ ho ih => exact step_quiet s op ih o ho

/-- over every history of a BUS or STAR socket (cooked or raw): a Recv is blocked only when nothing is there for it —
    no message queued, none held by a receiver, none waiting to be read from any peer -/
theorem recv_blocks_only_when_nothing_is_there (f : Flavor) (g : GExpr) (s : State) (h : Reach f g s) (hne : s.waiting ≠ []) :
    s.recvQ = [] ∧ s.blocked = [] ∧ s.backlog = [] :=
  quiet_waiting s (reach_quiet f g s h) hne

end Mesh
end Proto
end Model
