/-
  Model/Proto/Xreq.lean — the send side of XREQ (protocol/xreq/xreq.go), the raw REQ socket devices are made of: one
  send queue; every pipe has a sender goroutine that takes the next message from the queue whenever it is not inside
  the pipe's SendMsg.  Which of several waiting goroutines takes a message is the runtime's choice: the machine returns
  every outcome.  (The receive side — first four bytes of the body become the header — is `Parse.recv .hdr4`.)

  Ghost state: `handed`, the messages in the order in which sender goroutines took them (with the pipe).  The theorem:
  in every state the machine can reach, the messages taken so far, followed by the queue, followed by the messages of
  the blocked Sends, is exactly the sequence of messages the socket accepted or is still being asked to accept, in the
  order of the calls — every accepted message is taken by one pipe, once, in order; nothing is invented, nothing lost
  while the socket is open (`line_is_what_was_asked`).
-/
import Model.Proto.Fanout
namespace Model
namespace Proto
namespace Xreq

structure Pipe where
  id : Nat
  hold : Bool := false
  inflight : Option Msg := none
deriving Repr, BEq

structure State where
  sendQ : List Msg := []
  sendCap : Nat := 128
  pipes : List Pipe := []
  parkedSend : List (Nat × Msg) := []
  bestEffort : Bool := false
  closed : Bool := false
  -- ghosts: what sender goroutines took, in order; what the socket accepted or is still asked to accept, in call order
  handed : List (Nat × Msg) := []
  asked : List Msg := []
deriving Repr, BEq

def init : State := {}

def getPipe (s : State) (id : Nat) : Option Pipe := s.pipes.find? (fun p => p.id = id)
def setPipe (s : State) (id : Nat) (f : Pipe → Pipe) : State :=
  { s with pipes := s.pipes.map (fun p => if p.id = id then f p else p) }

/-- the sender goroutines that are waiting for the queue -/
def takers (s : State) : List Pipe := s.pipes.filter (fun p => p.inflight.isNone)

/-- a blocked Send finds room -/
def admitOne (s : State) : State × List (Nat × Ev) :=
  match s.parkedSend with
  | (call, m) :: rest =>
    if s.sendQ.length < s.sendCap then ({ s with parkedSend := rest, sendQ := s.sendQ ++ [m] }, [(call, Ev.retErr call "ok")])
    else (s, [])
  | [] => (s, [])

/-- pipe `p` takes the head of the queue -/
def take (s : State) (p : Pipe) (m : Msg) (q : List Msg) : State × List (Nat × Ev) :=
  let s1 := { s with sendQ := q, handed := s.handed ++ [(p.id, m)] }
  if p.hold then (setPipe s1 p.id (fun x => { x with inflight := some m }), [])
  else (s1, [(p.id, Ev.tx p.id m.1 m.2)])

/-- every way the waiting goroutines can drain the queue -/
def settleAll : Nat → State → List (State × List (Nat × Ev))
  | 0, s => [(s, [])]
  | fuel+1, s =>
    let (s0, ev0) := admitOne s
    match s0.sendQ with
    | [] => [(s0, ev0)]
    | m :: q =>
      match takers s0 with
      | [] => [(s0, ev0)]
      | ts => ts.flatMap (fun p =>
          let (s1, ev1) := take s0 p m q
          (settleAll fuel s1).map (fun r => (r.1, ev0 ++ ev1 ++ r.2)))

def fuelOf (s : State) : Nat := 2 * (s.sendQ.length + s.parkedSend.length) + 4

def settledAll (s : State) (pre : List Ev) (evs : List (Nat × Ev)) : List (State × List Ev) :=
  (settleAll (fuelOf s) s).map (fun r => (r.1, pre ++ sortByKey (evs ++ r.2)))

def dropPipe (s : State) (p : Nat) : State := { s with pipes := s.pipes.filter (fun x => x.id != p) }

def step (s : State) (op : List String) : List (State × List Ev) :=
  match op with
  | ["addpipe", p] =>
    if s.closed then [(s, [Ev.res "closed"])]
    else settledAll { s with pipes := s.pipes ++ [{ id := natOf p }] } [Ev.res "ok"] []
  | ["rmpipe", p] => settledAll (dropPipe s (natOf p)) [] [(natOf p, Ev.closed (natOf p))]
  | ["send", call, _, h, b] =>
    let call := natOf call
    let m : Msg := (bytesOf h, bytesOf b)
    if s.closed then [(s, [Ev.retErr call "closed"])] else
    let room := s.sendQ.length < s.sendCap && s.parkedSend.isEmpty   -- (a full channel with blocked senders has no room)
    -- best effort: the select has both the queue and the (already closed) time-out channel ready, and may drop the message
    if room then settledAll { s with sendQ := s.sendQ ++ [m], asked := s.asked ++ [m] } [] [(call, Ev.retErr call "ok")]
                  ++ (if s.bestEffort then [(s, [Ev.retErr call "ok"])] else [])
    else if s.bestEffort then [(s, [Ev.retErr call "ok"])]
    else [({ s with parkedSend := s.parkedSend ++ [(call, m)], asked := s.asked ++ [m] }, [])]
  | ["recv", _, _] => []
  | ["setopt", _, "BEST-EFFORT", v] => [({ s with bestEffort := v == "true" }, [Ev.res "ok"])]
  | ["setopt", _, "WRITEQ-LEN", n] =>
    -- only issued on a socket that has not been used yet
    if s.sendQ.isEmpty && s.parkedSend.isEmpty then [({ s with sendCap := natOf n }, [Ev.res "ok"])] else []
  | ["hold", p, v] => [(setPipe s (natOf p) (fun x => { x with hold := v == "1" }), [])]
  | ["release", p, "ok"] =>
    match getPipe s (natOf p) with
    | some pp =>
      match pp.inflight with
      | some m => settledAll (setPipe s pp.id (fun x => { x with inflight := none })) [] [(pp.id, Ev.tx pp.id m.1 m.2)]
      | none => []
    | none => []
  | ["release", p, "err"] => settledAll (dropPipe s (natOf p)) [] [(natOf p, Ev.closed (natOf p))]
  | ["openctx", _] => [(s, [Ev.res "protoop"])]
  | ["close"] =>
    if s.closed then [(s, [Ev.res "closed"])] else
    let evs := s.parkedSend.map (fun c => (c.1, Ev.retErr c.1 "closed"))
    -- the blocked Sends give up: their messages stay with their callers
    [({ s with closed := true, parkedSend := [], asked := s.asked.take (s.asked.length - s.parkedSend.length) },
      Ev.res "ok" :: sortByKey evs)]
  | _ => []

/-- what the socket holds or has passed on, in order: taken by a pipe, queued, still being offered by a blocked Send -/
def line (s : State) : List Msg := s.handed.map (·.2) ++ s.sendQ ++ s.parkedSend.map (·.2)

@[simp] theorem line_setPipe (s : State) (id : Nat) (f : Pipe → Pipe) : line (setPipe s id f) = line s := rfl
@[simp] theorem asked_setPipe (s : State) (id : Nat) (f : Pipe → Pipe) : (setPipe s id f).asked = s.asked := rfl
@[simp] theorem line_dropPipe (s : State) (p : Nat) : line (dropPipe s p) = line s := rfl
@[simp] theorem asked_dropPipe (s : State) (p : Nat) : (dropPipe s p).asked = s.asked := rfl

theorem admitOne_line (s : State) : line (admitOne s).1 = line s ∧ (admitOne s).1.asked = s.asked := by
  unfold admitOne
  split
  · rename_i call m rest hp
    split
    · simp [line, hp, List.append_assoc]
    · exact ⟨rfl, rfl⟩
  · exact ⟨rfl, rfl⟩

theorem take_line (s : State) (p : Pipe) (m : Msg) (q : List Msg) (hq : s.sendQ = m :: q) :
    line (take s p m q).1 = line s ∧ (take s p m q).1.asked = s.asked := by
  unfold take
  split
  · simp [line, setPipe, hq, List.append_assoc]
  · simp [line, hq, List.append_assoc]

theorem settleAll_line : ∀ (fuel : Nat) (s : State) (r : State × List (Nat × Ev)), r ∈ settleAll fuel s →
    line r.1 = line s ∧ r.1.asked = s.asked := by
  intro fuel
  induction fuel with
  | zero => intro s r hr; simp [settleAll] at hr; subst hr; exact ⟨rfl, rfl⟩
  | succ n ih =>
    intro s r hr
    have ha := admitOne_line s
    simp only [settleAll] at hr
    generalize hadm : admitOne s = a at hr ha
    obtain ⟨s0, ev0⟩ := a
    simp only at hr ha
    cases hq : s0.sendQ with
    | nil => simp [hq] at hr; subst hr; exact ha
    | cons m q =>
      simp only [hq] at hr
      cases ht : takers s0 with
      | nil => simp [ht] at hr; subst hr; exact ha
      | cons t ts =>
        simp only [ht, List.mem_flatMap, List.mem_map] at hr
        obtain ⟨p, _, r', hr', rfl⟩ := hr
        have htk := take_line s0 p m q hq
        have := ih _ r' hr'
        exact ⟨this.1.trans (htk.1.trans ha.1), this.2.trans (htk.2.trans ha.2)⟩

theorem settledAll_line (s : State) (pre : List Ev) (evs : List (Nat × Ev)) (r : State × List Ev)
    (hr : r ∈ settledAll s pre evs) : line r.1 = line s ∧ r.1.asked = s.asked := by
  simp only [settledAll, List.mem_map] at hr
  obtain ⟨r', hr', rfl⟩ := hr
  exact settleAll_line _ s r' hr'

inductive Reach : State → Prop
  | init : Reach init
  | step (s : State) (op : List String) (r : State × List Ev) : Reach s → r ∈ step s op → Reach r.1

/-- one step keeps the line equal to what was asked -/
theorem step_line (s : State) (op : List String) (r : State × List Ev) (h : line s = s.asked) (hr : r ∈ step s op) :
    line r.1 = r.1.asked := by
  unfold step at hr
  split at hr
  · -- addpipe
    split at hr
    · simp at hr; subst hr; exact h
    · have := settledAll_line _ _ _ r hr
      rw [this.1, this.2]; exact h
  · have := settledAll_line _ _ _ r hr
    rw [this.1, this.2]; simpa using h
  · -- send
    rename_i call _ hh b
    simp only at hr
    split at hr
    · simp at hr; subst hr; exact h
    · split at hr
      · rename_i hroom
        have hpe : s.parkedSend = [] := by
          simp only [Bool.and_eq_true, List.isEmpty_iff] at hroom
          exact hroom.2
        rcases List.mem_append.mp hr with hr | hr
        · have := settledAll_line _ _ _ r hr
          rw [this.1, this.2]
          simp only [line, hpe, List.map_nil, List.append_nil] at h ⊢
          rw [← h]; simp [List.append_assoc]
        · split at hr
          · simp at hr; subst hr; exact h
          · simp at hr
      · split at hr
        · simp at hr; subst hr; exact h
        · simp at hr; subst hr
          simp only [line, List.map_append, List.map_cons, List.map_nil] at h ⊢
          rw [← h]; simp [List.append_assoc]
  · simp at hr
  · simp at hr; subst hr; exact h
  · split at hr
    · simp at hr; subst hr; exact h
    · simp at hr
  · simp at hr; subst hr; simpa using h
  · -- release ok
    split at hr
    · split at hr
      · have := settledAll_line _ _ _ r hr
        rw [this.1, this.2]; simpa using h
      · simp at hr
    · simp at hr
  · have := settledAll_line _ _ _ r hr
    rw [this.1, this.2]; simpa using h
  · simp at hr; subst hr; exact h
  · -- close
    split at hr
    · simp at hr; subst hr; exact h
    · simp at hr; subst hr
      simp only [line, List.map_nil, List.append_nil] at h ⊢
      rw [← h]
      have hlen : (List.map (fun x => x.2) s.handed ++ s.sendQ ++ List.map (fun x => x.2) s.parkedSend).length - s.parkedSend.length
          = (List.map (fun x => x.2) s.handed ++ s.sendQ).length := by
        simp [List.length_append]; omega
      rw [hlen, List.take_left']
      rfl
  · simp at hr

/-- in every reachable state: what sender goroutines have taken, then the queue, then the messages of the blocked Sends is
    the sequence of messages the socket accepted (or is still asked to accept), in call order -/
theorem line_is_what_was_asked (s : State) (hr : Reach s) : line s = s.asked := by
  induction hr with
  | init => rfl
  | step s op r _ hmem ih => exact step_line s op r ih hmem

/-- so every accepted message is taken by exactly one pipe, in order: the taken messages are a prefix of what was asked -/
theorem taken_is_a_prefix_of_asked (s : State) (hr : Reach s) : (s.handed.map (·.2)) <+: s.asked := by
  rw [← line_is_what_was_asked s hr]
  exact ⟨s.sendQ ++ s.parkedSend.map (·.2), by simp [line, List.append_assoc]⟩

end Xreq
end Proto
end Model
