/-
  Model/Proto/Pub.lean — XPUB / PUB (protocol/xpub/xpub.go): every Send is cloned to every pipe's queue
  (dropped for a pipe whose queue is full); whatever is received is discarded; no Recv, no contexts.
-/
import Model.Proto.Fanout
namespace Model
namespace Proto
namespace Pub

structure State where
  pipes : List OutPipe := []
  sendQLen : Nat := 128
  closed : Bool := false
deriving Repr, BEq

def init : State := {}

def step (s : State) (op : List String) : List (State × List Ev) :=
  match op with
  | ["addpipe", p] =>
    if s.closed then [(s, [Ev.res "closed"])]
    else [({ s with pipes := s.pipes ++ [{ id := natOf p, cap := s.sendQLen }] }, [Ev.res "ok"])]
  | ["rmpipe", p] => [({ s with pipes := removePipe s.pipes (natOf p) }, [closedEv (natOf p)])]
  | ["inject", _, _] => [(s, [])]
  | ["send", call, _, h, b] =>
    if s.closed then [(s, [retErr (natOf call) "closed"])] else
    let (ps, evs) := fanout s.pipes (fun _ => true) (bytesOf h, bytesOf b)
    [({ s with pipes := ps }, (retErr (natOf call) "ok" :: sortByKey evs))]
  | ["recv", call, _] => [(s, [retErr (natOf call) "protoop"])]
  | ["setopt", _, "WRITEQ-LEN", n] => [({ s with sendQLen := natOf n }, [Ev.res "ok"])]
  -- XSURVEYOR: the receive queue length is another matter (it never changes what a respondent's send queue holds)
  | ["setopt", _, "READQ-LEN", _] => [(s, [Ev.res "ok"])]
  | ["hold", p, v] => [({ s with pipes := modifyPipe s.pipes (natOf p) (fun x => { x with hold := v == "1" }) }, [])]
  | ["release", p, "ok"] =>
    match findPipe s.pipes (natOf p) with
    | none => []
    | some x =>
      let (x', evs) := x.releaseOk
      [({ s with pipes := modifyPipe s.pipes x.id (fun _ => x') }, sortByKey evs)]
  | ["release", p, "err"] =>
    -- the send fails: the message is freed and the protocol closes that pipe
    [({ s with pipes := removePipe s.pipes (natOf p) }, [closedEv (natOf p)])]
  | ["openctx", _] => [(s, [Ev.res "protoop"])]
  | ["close"] => if s.closed then [(s, [Ev.res "closed"])] else [({ s with closed := true }, [Ev.res "ok"])]
  | _ => []

end Pub
end Proto
end Model
