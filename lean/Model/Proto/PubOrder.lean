/-
  Model/Proto/PubOrder.lean — PUB (and every per-peer output queue of the fan-out protocols): what a subscriber's pipe
  has been handed is, in order and at most once, part of what was offered to it, over every history.
  Ghost histories of a pipe: `offered` (every copy offered to it, accepted or dropped) and `sent` (every copy its
  SendMsg completed).
-/
import Model.Proto.Pub
namespace Model
namespace Proto

/-- completed sends, then the send in progress, then the queue are, in order, part of what was offered; and an idle
    sender has an empty queue -/
structure OutPipe.Ord (p : OutPipe) : Prop where
  sub : (p.sent ++ p.inflight.toList ++ p.q).Sublist p.offered
  idle : p.inflight = none → p.q = []

theorem OutPipe.offer_ord (p : OutPipe) (m : Msg) (h : p.Ord) : (p.offer m).1.Ord := by
  unfold OutPipe.offer
  cases hin : p.inflight with
  | none =>
    have hq := h.idle hin
    have hs := h.sub
    rw [hin, hq] at hs
    simp only [Option.toList_none, List.append_nil] at hs
    simp only []
    split
    · constructor
      · show (p.sent ++ (some m).toList ++ p.q).Sublist (p.offered ++ [m])
        rw [hq]
        simp only [Option.toList_some, List.append_nil]
        exact List.Sublist.append hs (List.Sublist.refl _)
      · intro hn; cases hn
    · constructor
      · show ((p.sent ++ [m]) ++ (none : Option Msg).toList ++ p.q).Sublist (p.offered ++ [m])
        rw [hq]
        simp only [Option.toList_none, List.append_nil]
        exact List.Sublist.append hs (List.Sublist.refl _)
      · intro _; exact hq
  | some x =>
    have hs := h.sub
    rw [hin] at hs
    simp only []
    split
    · constructor
      · show (p.sent ++ (some x).toList ++ (p.q ++ [m])).Sublist (p.offered ++ [m])
        rw [← List.append_assoc]
        exact List.Sublist.append hs (List.Sublist.refl _)
      · intro hn; cases hn
    · constructor
      · show (p.sent ++ (some x).toList ++ p.q).Sublist (p.offered ++ [m])
        exact List.Sublist.trans hs (List.sublist_append_left _ _)
      · intro hn; cases hn

theorem OutPipe.drain_ord : ∀ (fuel : Nat) (p : OutPipe), p.inflight = none → (p.sent ++ p.q).Sublist p.offered → p.q.length < fuel →
    (OutPipe.drain fuel p).1.Ord := by
  intro fuel
  induction fuel with
  | zero => intro p _ _ hl; cases hl
  | succ n ih =>
    intro p hin hs hl
    unfold OutPipe.drain
    cases hq : p.q with
    | nil =>
      simp only []
      constructor
      · rw [hin, hq]; rw [hq] at hs; simpa using hs
      · intro _; exact hq
    | cons m rest =>
      simp only []
      split
      · constructor
        · show (p.sent ++ (some m).toList ++ rest).Sublist p.offered
          rw [hq] at hs
          simpa using hs
        · intro hn; cases hn
      · simp only []
        apply ih
        · exact hin
        · show ((p.sent ++ [m]) ++ rest).Sublist p.offered
          rw [hq] at hs
          simpa using hs
        · show rest.length < n
          rw [hq] at hl
          simp only [List.length_cons] at hl
          omega

theorem OutPipe.releaseOk_ord (p : OutPipe) (h : p.Ord) : p.releaseOk.1.Ord := by
  unfold OutPipe.releaseOk
  cases hin : p.inflight with
  | none => exact h
  | some m =>
    simp only []
    apply OutPipe.drain_ord
    · rfl
    · show ((p.sent ++ [m]) ++ p.q).Sublist p.offered
      have := h.sub
      rw [hin] at this
      simpa using this
    · show p.q.length < p.q.length + 1
      omega

namespace Pub

inductive Reach : State → Prop
  | init : Reach init
  | step (s : State) (op : List String) (o : State × List Ev) : Reach s → o ∈ step s op → Reach o.1

def Inv (s : State) : Prop := ∀ p ∈ s.pipes, p.Ord

theorem step_inv (s : State) (op : List String) (h : Inv s) : ∀ o ∈ step s op, Inv o.1 := by
  intro o ho
  unfold step at ho
  split at ho
  · split at ho
    · simp at ho; subst ho; exact h
    · simp at ho; subst ho
      intro p hp
      simp only [List.mem_append, List.mem_singleton] at hp
      rcases hp with hp | rfl
      · exact h p hp
      · exact ⟨by simp, fun _ => rfl⟩
  · simp at ho; subst ho
    intro p hp
    exact h p (List.mem_filter.mp hp).1
  · simp at ho; subst ho; exact h
  · split at ho
    · simp at ho; subst ho; exact h
    · simp only [] at ho
      simp at ho; subst ho
      intro p hp
      simp only [fanout, List.map_map, List.mem_map, Function.comp] at hp
      obtain ⟨p0, hp0, rfl⟩ := hp
      exact OutPipe.offer_ord p0 _ (h p0 hp0)
  · simp at ho; subst ho; exact h
  · simp at ho; subst ho; exact h
  · simp at ho; subst ho; exact h
  · simp at ho; subst ho
    intro p hp
    simp only [modifyPipe, List.mem_map] at hp
    obtain ⟨p0, hp0, rfl⟩ := hp
    split
    · exact ⟨(h p0 hp0).sub, (h p0 hp0).idle⟩
    · exact h p0 hp0
  · split at ho
    · simp at ho
    · rename_i x hx
      simp only [] at ho
      simp at ho; subst ho
      have hxm : x ∈ s.pipes := List.mem_of_find?_eq_some hx
      intro p hp
      simp only [modifyPipe, List.mem_map] at hp
      obtain ⟨p0, hp0, rfl⟩ := hp
      split
      · exact OutPipe.releaseOk_ord x (h x hxm)
      · exact h p0 hp0
  · simp at ho; subst ho
    intro p hp
    exact h p (List.mem_filter.mp hp).1
  · simp at ho; subst ho; exact h
  · split at ho <;> (simp at ho; subst ho; exact h)
  · simp at ho

theorem reach_inv (s : State) (h : Reach s) : Inv s := by
  induction h with
  | init => intro p hp; simp [init] at hp
  | step s op o _ ho ih => exact step_inv s op ih o ho

/-- over every history of a PUB socket: for every subscriber pipe, the copies its SendMsg completed, then the one in
    progress, then the queued ones are, in order, part of what was offered to it — each published message reaches a
    subscriber at most once and in the publisher's order; losses happen only by the queue-full drop -/
theorem per_subscriber_order (s : State) (h : Reach s) :
    ∀ p ∈ s.pipes, (p.sent ++ p.inflight.toList ++ p.q).Sublist p.offered :=
  fun p hp => (reach_inv s h p hp).sub

end Pub
end Proto
end Model
