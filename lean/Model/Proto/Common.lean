/-
  Model/Proto/Common.lean — shared vocabulary of the protocol state machines: observations
  (what becomes visible between two quiescent states) and small list helpers.
-/
import Model.Bytes
namespace Model
namespace Proto

/-- what becomes observable between two quiescent states -/
inductive Ev where
  | retMsg (call : Nat) (hdr body : Bytes)   -- a parked or immediate Recv returned a message
  | retErr (call : Nat) (e : String)          -- an API call returned (ok or an error name)
  | tx (pipe : Nat) (hdr body : Bytes)        -- the protocol handed a message to a pipe
  | closed (pipe : Nat)                       -- the protocol (or the peer) closed a pipe
  | res (e : String)                          -- result of a synchronous call (option, context, close, AddPipe)
deriving Repr, DecidableEq

def Ev.render : Ev → String
  | .retMsg call hdr body => s!"ret:{call}:msg:{toHexD hdr}:{toHexD body}"
  | .retErr call e => s!"ret:{call}:{e}"
  | .tx pipe hdr body => s!"tx:{pipe}:{toHexD hdr}:{toHexD body}"
  | .closed pipe => s!"closed:{pipe}"
  | .res e => s!"res:{e}"

/-- render a list of events the way the harness does -/
def obs (evs : List Ev) : String := if evs.isEmpty then "-" else " ".intercalate (evs.map Ev.render)

abbrev retMsg := Ev.retMsg
abbrev retErr := Ev.retErr
abbrev txEv := Ev.tx
abbrev closedEv := Ev.closed

/-- bounded FIFO: enqueue if room -/
def enqueue? (q : List α) (cap : Nat) (x : α) : Option (List α) :=
  if q.length < cap then some (q ++ [x]) else none

def isPrefix : Bytes → Bytes → Bool
  | [], _ => true
  | _ :: _, [] => false
  | a :: as, b :: bs => a == b && isPrefix as bs

def natOf (s : String) : Nat := s.toNat?.getD 0
def bytesOf (s : String) : Bytes := (ofHex s).getD []

/-- sort event strings (the harness sorts completed calls by id and transmissions by pipe) -/
def insertSorted (x : Nat × Ev) : List (Nat × Ev) → List (Nat × Ev)
  | [] => [x]
  | y :: ys => if x.1 < y.1 then x :: y :: ys else y :: insertSorted x ys

/-- the harness lists completed calls (by call id), then transmissions (by pipe, in order), then closed pipes -/
def Ev.rank : Ev → Nat
  | .retMsg .. | .retErr .. => 0
  | .tx .. => 1
  | .closed .. => 2
  | .res .. => 0

def sortByKey (l : List (Nat × Ev)) : List Ev :=
  ((l.map (fun x => (x.2.rank * 1000000000000 + x.1, x.2))).foldl (fun acc x => insertSorted x acc) []).map (·.2)

end Proto
end Model
