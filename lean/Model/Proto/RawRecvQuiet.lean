/-
  Model/Proto/RawRecvQuiet.lean — XREQ / XSURVEYOR / XSUB receive side: in every reachable state nothing is left to do: a
  Recv is blocked only when no message is queued, none is held by a receiver and none is waiting to be read.
-/
import Model.Proto.RawRecv
namespace Model
namespace Proto
namespace RawRecv

def measure (s : State) : Nat := 3 * s.backlog.length + 2 * s.held.length + s.recvQ.length + s.parkedRecv.length

theorem nextBacklog_measure (s : State) (s' : State) (evs) (hp : nextBacklog s = some (s', evs)) : measure s' < measure s := by
  unfold nextBacklog at hp
  split at hp
  · rename_i p b hfind
    have hmem : (p, b) ∈ s.backlog := List.mem_of_find?_eq_some hfind
    have hlen := List.length_erase_of_mem hmem
    have hpos : 0 < s.backlog.length := List.length_pos_of_mem hmem
    split at hp <;>
      (simp only [Option.some.injEq, Prod.mk.injEq] at hp
       obtain ⟨rfl, _⟩ := hp
       unfold measure
       simp only [List.length_append, List.length_cons, List.length_nil, hlen]
       omega)
  · simp at hp

theorem progress_measure (s : State) (s' : State) (evs) (hp : progress s = some (s', evs)) : measure s' < measure s := by
  unfold progress at hp
  split at hp
  · rename_i call rest m q hpr hq
    simp only [Option.some.injEq, Prod.mk.injEq] at hp
    obtain ⟨rfl, _⟩ := hp
    unfold measure
    simp only [hpr, hq, List.length_cons]
    omega
  · split at hp
    · rename_i p m bl hbl
      split at hp
      · rename_i call rest hpr
        simp only [Option.some.injEq, Prod.mk.injEq] at hp
        obtain ⟨rfl, _⟩ := hp
        unfold measure
        simp only [hpr, hbl, List.length_cons]
        omega
      · split at hp
        · simp only [Option.some.injEq, Prod.mk.injEq] at hp
          obtain ⟨rfl, _⟩ := hp
          unfold measure
          simp only [hbl, List.length_cons, List.length_append, List.length_nil]
          omega
        · split at hp
          · exact nextBacklog_measure s s' evs hp
          · simp only [Option.some.injEq, Prod.mk.injEq] at hp
            obtain ⟨rfl, _⟩ := hp
            unfold measure
            simp only [hbl, List.length_cons]
            omega
    · exact nextBacklog_measure s s' evs hp

theorem settle_quiet : ∀ (fuel : Nat) (s : State), measure s ≤ fuel → progress (settle fuel s).1 = none := by
  intro fuel
  induction fuel with
  | zero =>
    intro s hm
    show progress s = none
    cases hp : progress s with
    | none => rfl
    | some r =>
      have := progress_measure s r.1 r.2 hp
      omega
  | succ n ih =>
    intro s hm
    simp only [settle]
    cases hp : progress s with
    | none => exact hp
    | some r =>
      obtain ⟨s', evs⟩ := r
      have := progress_measure s s' evs hp
      exact ih s' (by omega)

theorem settled_quiet (s : State) (pre : List Ev) (evs) : progress (settled s pre evs).1 = none := by
  simp only [settled]
  apply settle_quiet
  unfold measure; omega

/-- quiescence, as a condition on the queues -/
def QuietP (s : State) : Prop :=
  (s.parkedRecv = [] ∨ s.recvQ = []) ∧
  (s.held ≠ [] → s.parkedRecv = [] ∧ ¬ s.recvQ.length < s.recvCap ∧ s.holds = true) ∧
  s.backlog.find? (fun pb => !(s.held.any (fun x => x.1 == pb.1))) = none

theorem nextBacklog_none_iff (s : State) : nextBacklog s = none ↔
    s.backlog.find? (fun pb => !(s.held.any (fun x => x.1 == pb.1))) = none := by
  unfold nextBacklog
  cases hf : s.backlog.find? (fun pb => !(s.held.any (fun x => x.1 == pb.1))) with
  | none => simp
  | some pb =>
    obtain ⟨p, b⟩ := pb
    simp only []
    split <;> simp

theorem quiet_iff (s : State) : progress s = none ↔ QuietP s := by
  unfold progress QuietP
  cases hp : s.parkedRecv with
  | nil =>
    simp only []
    cases hb : s.held with
    | nil => simp [nextBacklog_none_iff, hb]
    | cons x bl =>
      obtain ⟨p, m⟩ := x
      simp only []
      by_cases hroom : s.recvQ.length < s.recvCap
      · simp [hroom]
      · cases hh : s.holds
        · simp [hroom]
        · simp [hroom, nextBacklog_none_iff, hb]
  | cons call rest =>
    cases hq : s.recvQ with
    | cons m q => simp
    | nil =>
      simp only []
      cases hb : s.held with
      | nil => simp [nextBacklog_none_iff, hb]
      | cons x bl =>
        obtain ⟨p, m⟩ := x
        simp

/-- quiescence does not look at the pipe list or the closed flag -/
theorem quiet_of (s s' : State) (h : progress s = none) (h1 : s'.recvQ = s.recvQ) (h2 : s'.recvCap = s.recvCap) (h3 : s'.held = s.held)
    (h4 : s'.backlog = s.backlog) (h5 : s'.parkedRecv = s.parkedRecv) (h6 : s'.holds = s.holds) : progress s' = none := by
  rw [quiet_iff] at h ⊢
  unfold QuietP at h ⊢
  rw [h1, h2, h3, h4, h5, h6]
  exact h

/-- what quiescence means for a blocked Recv -/
theorem quiet_parked (s : State) (h : progress s = none) (hne : s.parkedRecv ≠ []) : s.recvQ = [] ∧ s.held = [] ∧ s.backlog = [] := by
  obtain ⟨q1, q2, q3⟩ := (quiet_iff s).1 h
  have hq : s.recvQ = [] := q1.resolve_left hne
  have hb : s.held = [] := by
    cases hb : s.held with
    | nil => rfl
    | cons x bl => exact absurd (q2 (by rw [hb]; simp)).1 hne
  refine ⟨hq, hb, ?_⟩
  cases hbk : s.backlog with
  | nil => rfl
  | cons x t =>
    rw [hbk, hb] at q3
    simp at q3

theorem step_quiet (s : State) (op : List String) (h : progress s = none) : ∀ o ∈ step s op, progress o.1 = none := by
  intro o ho
  unfold step at ho
  split at ho
  · split at ho
    · simp at ho; subst ho; exact h
    · simp at ho; subst ho; exact quiet_of s _ h rfl rfl rfl rfl rfl rfl
  · simp at ho; subst ho; exact settled_quiet _ _ _
  · split at ho
    · simp at ho; subst ho; exact settled_quiet _ _ _
    · simp at ho; subst ho; exact h
  · split at ho
    · split at ho
      · simp at ho; subst ho; exact h
      · simp at ho
        rcases ho with rfl | rfl
        · exact h
        · exact settled_quiet _ _ _
    · simp at ho; subst ho; exact settled_quiet _ _ _
  · simp at ho; subst ho; exact settled_quiet _ _ _
  · simp at ho; subst ho; exact h
  · split at ho
    · simp at ho; subst ho; exact h
    · simp at ho; subst ho
      -- the blocked Recvs leave: if there were any, nothing was available; otherwise nothing changes
      cases hp : s.parkedRecv with
      | nil =>
        refine quiet_of s _ h rfl rfl rfl rfl ?_ rfl
        simp [hp]
      | cons c rest =>
        obtain ⟨h1, h2, h3⟩ := quiet_parked s h (by rw [hp]; simp)
        rw [quiet_iff]
        unfold QuietP
        simp [h1, h2, h3]
  · simp at ho

theorem reach_quiet (s : State) (h : Reach s) : progress s = none := by
  induction h with
  | init => rw [quiet_iff]; unfold QuietP; simp [init]
  | initSub => rw [quiet_iff]; unfold QuietP; simp [initSub]
  | step s op o _ ho ih => exact step_quiet s op ih o ho

/-- over every history: a Recv is blocked only when nothing is there for it — no message queued, none held by a
    receiver, none waiting to be read from any connection -/
theorem recv_blocks_only_when_nothing_is_there (s : State) (h : Reach s) (hne : s.parkedRecv ≠ []) :
    s.recvQ = [] ∧ s.held = [] ∧ s.backlog = [] :=
  quiet_parked s (reach_quiet s h) hne

end RawRecv
end Proto
end Model
