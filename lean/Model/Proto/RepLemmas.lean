import Model.Proto.Rep
namespace Model
namespace Proto
namespace Rep

def Ctx.Inv (c : Ctx) : Prop := ∀ bt p, c.backtrace = some bt → c.recvPipe = some p → c.req = some (p, bt)

/-- every context that holds a backtrace holds that of the request its last Recv returned, together with
    that request's pipe; and every reply handed to a pipe went to the pipe of the request it answers with
    exactly that request's routing header -/
def Inv (s : State) : Prop :=
  (∀ c ∈ s.ctxs, c.Inv) ∧ (∀ r ∈ s.replies, r.1 = r.2.2.1 ∧ r.2.1 = r.2.2.2)

theorem inv_of_eq (s s' : State) (h : Inv s) (h1 : s'.ctxs = s.ctxs) (h2 : s'.replies = s.replies) : Inv s' := by
  unfold Inv; rw [h1, h2]; exact h

theorem setCtx_inv (s : State) (id : Nat) (f : Ctx → Ctx) (hf : ∀ c, c.Inv → (f c).Inv) (h : Inv s) : Inv (setCtx s id f) := by
  refine ⟨?_, h.2⟩
  intro c hc
  simp only [setCtx, List.mem_map] at hc
  obtain ⟨c0, hc0, rfl⟩ := hc
  split
  · exact hf _ (h.1 c0 hc0)
  · exact h.1 c0 hc0

theorem deliverTo_inv (s : State) (c call p : Nat) (m : Msg) (h : Inv s) : Inv (deliverTo s c call p m).1 := by
  unfold deliverTo
  split
  · apply setCtx_inv _ _ _ _ h
    intro x _ bt q hb hq
    simp only [Option.some.injEq] at hb hq
    subst hb hq; rfl
  · exact h

theorem nextBacklog_inv (s : State) (h : Inv s) (s' : State) (evs) (hp : progress.nextBacklog s = some (s', evs)) : Inv s' := by
  unfold progress.nextBacklog at hp
  split at hp
  · simp only [] at hp
    split at hp <;> (simp only [Option.some.injEq, Prod.mk.injEq] at hp; obtain ⟨rfl, _⟩ := hp; exact inv_of_eq s _ h rfl rfl)
  · simp at hp

theorem progress_inv (s : State) (h : Inv s) (s' : State) (evs) (hp : progress s = some (s', evs)) : Inv s' := by
  unfold progress at hp
  split at hp
  · split at hp
    · simp only [] at hp
      simp only [Option.some.injEq, Prod.mk.injEq] at hp
      obtain ⟨rfl, _⟩ := hp
      exact inv_of_eq s _ h rfl rfl
    · simp at hp
  · split at hp
    · simp only [] at hp
      simp only [Option.some.injEq, Prod.ext_iff] at hp
      rw [← hp.1]
      exact deliverTo_inv _ _ _ _ _ (inv_of_eq s _ h rfl rfl)
    · split at hp
      · split at hp
        · simp only [] at hp
          simp only [Option.some.injEq, Prod.ext_iff] at hp
          rw [← hp.1]
          exact deliverTo_inv _ _ _ _ _ (inv_of_eq s _ h rfl rfl)
        · split at hp
          · simp only [Option.some.injEq, Prod.mk.injEq] at hp
            obtain ⟨rfl, _⟩ := hp
            exact inv_of_eq s _ h rfl rfl
          · exact nextBacklog_inv s h s' evs hp
      · exact nextBacklog_inv s h s' evs hp

theorem settle_inv (fuel : Nat) (s : State) (h : Inv s) : Inv (settle fuel s).1 := by
  induction fuel generalizing s with
  | zero => simpa [settle] using h
  | succ n ih =>
    simp only [settle]
    cases hp : progress s with
    | none => simpa using h
    | some r =>
      obtain ⟨s', evs⟩ := r
      exact ih s' (progress_inv s h s' evs hp)

theorem settled_inv (s : State) (pre evs) (h : Inv s) : Inv (settled s pre evs).1 := by
  simp only [settled]; exact settle_inv _ s h

theorem dropPipe_inv (s : State) (p : Nat) (h : Inv s) : Inv (dropPipe s p).1 := by
  unfold dropPipe
  simp only []
  split <;> exact inv_of_eq s _ h rfl rfl

theorem closeCtx_inv (s : State) (c : Nat) (h : Inv s) : Inv (closeCtx s c).1 := by
  unfold closeCtx
  simp only []
  apply setCtx_inv
  · intro x hx bt p hb hp; exact hx bt p hb hp
  · exact inv_of_eq s _ h rfl rfl

/-- sending a reply whose recorded destination agrees with the request keeps the invariant -/
theorem sendTo_inv (s : State) (call ctx p : Nat) (m : Msg) (orig : Bytes) (rp : Nat) (rh : Bytes)
    (h : Inv s) (hp : p = rp) (hh : m.1 = rh) : ∀ o ∈ sendTo s call ctx p m orig rp rh, Inv o.1 := by
  intro o ho
  have hrep : ∀ r ∈ s.replies ++ [(p, m.1, rp, rh)], r.1 = r.2.2.1 ∧ r.2.1 = r.2.2.2 := by
    intro r hr
    simp only [List.mem_append, List.mem_singleton] at hr
    rcases hr with hr | rfl
    · exact h.2 r hr
    · exact ⟨hp, hh⟩
  have hsent : ∀ ps, Inv { s with pipes := ps, replies := s.replies ++ [(p, m.1, rp, rh)] } := fun ps => ⟨h.1, hrep⟩
  unfold sendTo at ho
  split at ho
  · split at ho
    · simp at ho
    · simp at ho; subst ho; exact h
  · split at ho
    · simp at ho; subst ho; exact h
    · try simp only [] at ho
      split at ho
      · split at ho
        · simp at ho
          rcases ho with rfl | rfl
          · exact settled_inv _ _ _ (hsent _)
          · exact h
        · simp at ho; subst ho; exact h
      · split at ho
        · simp at ho; subst ho; exact settled_inv _ _ _ (hsent _)
        · simp at ho; subst ho
          exact ⟨h.1, hrep⟩

theorem getCtx_mem (s : State) (id : Nat) (c : Ctx) (h : getCtx s id = some c) : c ∈ s.ctxs := by
  unfold getCtx at h
  exact List.mem_of_find?_eq_some h

theorem closeAll_inv (l : List Ctx) (acc : State × List (Nat × Ev)) (h : Inv acc.1) :
    Inv (l.foldl (fun (acc : State × List (Nat × Ev)) c => if c.closed then acc else
                let (s', evs) := closeCtx acc.1 c.id; (s', acc.2 ++ evs)) acc).1 := by
  induction l generalizing acc with
  | nil => simpa using h
  | cons c cs ih =>
    simp only [List.foldl_cons]
    apply ih
    split
    · exact h
    · exact closeCtx_inv _ _ h

end Rep
end Proto
end Model

namespace Model
namespace Proto
namespace Rep

theorem step_inv (s : State) (op : List String) (h : Inv s) : ∀ o ∈ step s op, Inv o.1 := by
  intro o ho
  unfold step at ho
  split at ho
  · -- addpipe
    split at ho <;> simp at ho <;> subst ho
    · exact h
    · exact inv_of_eq s _ h rfl rfl
  · -- rmpipe
    (try simp only [] at ho); simp at ho; subst ho
    exact settled_inv _ _ _ (dropPipe_inv s _ h)
  · -- inject
    split at ho
    · simp at ho; subst ho; exact settled_inv _ _ _ (inv_of_eq s _ h rfl rfl)
    · simp at ho; subst ho; exact h
  · -- recv
    try simp only [] at ho
    split at ho
    · split at ho
      · simp at ho
      · split at ho
        · simp at ho; subst ho; exact h
        · split at ho
          · simp at ho; subst ho; exact h
          · try simp only [] at ho
            simp at ho; subst ho
            apply settled_inv
            refine inv_of_eq _ _ ?_ rfl rfl
            split
            · apply setCtx_inv _ _ _ _ h
              intro x _ bt p hb _; simp at hb
            · apply setCtx_inv _ _ _ _ h
              intro x hx bt p hb hp; exact hx bt p hb hp
    · split at ho
      · split at ho
        · simp at ho; subst ho; exact h
        · simp at ho
          rcases ho with rfl | rfl
          · exact h
          · exact settled_inv _ _ _ (inv_of_eq s _ h rfl rfl)
      · simp at ho; subst ho; exact settled_inv _ _ _ (inv_of_eq s _ h rfl rfl)
  · -- send
    try simp only [] at ho
    split at ho
    · split at ho
      · simp at ho
      · rename_i c hget
        split at ho
        · simp at ho; subst ho; exact h
        · split at ho
          · simp at ho; subst ho; exact h
          · rename_i bt hbt
            try simp only [] at ho
            split at ho
            · simp at ho
            · rename_i p hrp
              have hc := h.1 c (getCtx_mem s _ c hget) bt p hbt hrp
              have hs1 : Inv (setCtx s c.id (fun x => { x with backtrace := none, recvPipe := none })) := by
                apply setCtx_inv _ _ _ _ h
                intro x _ bt p hb _; simp at hb
              refine sendTo_inv _ _ _ _ _ _ _ _ hs1 ?_ ?_ o ho
              · simp [hc]
              · simp [hc]
    · split at ho
      · simp at ho; subst ho; exact h
      · try simp only [] at ho
        split at ho
        · simp at ho; subst ho; exact h
        · exact sendTo_inv _ _ _ _ _ _ _ _ h rfl rfl o ho
  · simp at ho; subst ho; exact inv_of_eq s _ h rfl rfl
  · simp at ho; subst ho; exact inv_of_eq s _ h rfl rfl
  · simp at ho; subst ho; exact inv_of_eq s _ h rfl rfl
  · simp at ho; subst ho; exact h
  · -- expire
    split at ho
    · simp at ho
    · simp at ho; subst ho; exact inv_of_eq s _ h rfl rfl
  · simp at ho; subst ho; exact inv_of_eq s _ h rfl rfl
  · -- release ok
    split at ho
    · simp at ho
    · simp only [] at ho; simp at ho; subst ho
      exact settled_inv _ _ _ (inv_of_eq s _ h rfl rfl)
  · -- release err
    (try simp only [] at ho); simp at ho; subst ho
    exact settled_inv _ _ _ (dropPipe_inv s _ h)
  · -- openctx
    split at ho
    · simp at ho; subst ho; exact h
    · split at ho
      · simp at ho; subst ho; exact h
      · simp at ho; subst ho
        refine ⟨?_, h.2⟩
        intro c hc
        simp only [List.mem_append, List.mem_singleton] at hc
        rcases hc with hc | rfl
        · exact h.1 c hc
        · intro bt p hb _; simp at hb
  · -- closectx
    split at ho
    · simp at ho
    · split at ho
      · simp at ho; subst ho; exact h
      · simp only [] at ho; simp at ho; subst ho
        exact closeCtx_inv s _ h
  · -- close
    split at ho
    · simp at ho; subst ho; exact h
    · split at ho
      · simp only [] at ho; simp at ho; subst ho
        exact inv_of_eq _ _ (closeAll_inv s.ctxs (s, []) h) rfl rfl
      · simp only [] at ho; simp at ho; subst ho
        exact inv_of_eq s _ h rfl rfl
  · simp at ho

inductive Reach (f : Flavor) (site : HopSite) : State → Prop
  | init : Reach f site (init f site)
  | step (s : State) (op : List String) (o : State × List Ev) : Reach f site s → o ∈ step s op → Reach f site o.1

theorem init_inv (f : Flavor) (site : HopSite) : Inv (init f site) := by
  cases f <;> (refine ⟨?_, ?_⟩ <;> simp [init, Ctx.Inv])

theorem reach_inv (f : Flavor) (site : HopSite) (s : State) (h : Reach f site s) : Inv s := by
  induction h with
  | init => exact init_inv f site
  | step s op o _ ho ih => exact step_inv s op ih o ho

end Rep
end Proto
end Model
