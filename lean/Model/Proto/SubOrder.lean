/-
  Model/Proto/SubOrder.lean — SUB: every context receives its matching messages at most once and in arrival order,
  over every history.  Ghost histories: `arrived` (socket: every published message that reached it, in order), `seen`
  (context: the matching ones offered while it was open) and `got` (context: what its Recvs returned, in order).
  Invariant: per context, what was returned followed by what is queued is, in order, part of `seen`, which is, in
  order, part of `arrived`; and a context with a blocked Recv has an empty queue (a hand-off never overtakes the queue).
-/
import Model.Proto.SubLemmas
namespace Model
namespace Proto
namespace Sub

structure Ctx.Ord (c : Ctx) : Prop where
  sub : (c.got ++ c.q).Sublist c.seen
  idle : c.parked ≠ [] → c.q = []

structure Ord (s : State) : Prop where
  uniq : (s.ctxs.map (·.id)).Nodup
  ctx : ∀ c ∈ s.ctxs, c.Ord ∧ c.seen.Sublist s.arrived

theorem offer_ord (c : Ctx) (b : Bytes) (h : c.Ord) : (c.offer b).1.Ord := by
  unfold Ctx.offer
  split
  · exact h
  · split
    · rename_i call rest hp
      have hq : c.q = [] := h.idle (by rw [hp]; simp)
      constructor
      · show ((c.got ++ [b]) ++ c.q).Sublist (c.seen ++ [b])
        have := h.sub
        rw [hq, List.append_nil] at this ⊢
        exact List.Sublist.append this (List.Sublist.refl _)
      · intro _; exact hq
    · rename_i hp
      split
      · constructor
        · show (c.got ++ (c.q ++ [b])).Sublist (c.seen ++ [b])
          rw [← List.append_assoc]
          exact List.Sublist.append h.sub (List.Sublist.refl _)
        · intro hne; exact absurd hp hne
      · split
        · exact h
        · constructor
          · show (c.got ++ (c.q.tail ++ [b])).Sublist (c.seen ++ [b])
            rw [← List.append_assoc]
            refine List.Sublist.append ?_ (List.Sublist.refl _)
            exact List.Sublist.trans (List.Sublist.append (List.Sublist.refl _) (List.tail_sublist c.q)) h.sub
          · intro hne; exact absurd hp hne

theorem offer_seen (c : Ctx) (b : Bytes) : (c.offer b).1.seen = c.seen ∨ (c.offer b).1.seen = c.seen ++ [b] := by
  unfold Ctx.offer
  split
  · exact Or.inl rfl
  · split
    · exact Or.inr rfl
    · split
      · exact Or.inr rfl
      · split
        · exact Or.inl rfl
        · exact Or.inr rfl

theorem offer_id (c : Ctx) (b : Bytes) : (c.offer b).1.id = c.id := by
  unfold Ctx.offer
  split
  · rfl
  · split
    · rfl
    · split
      · rfl
      · split <;> rfl

theorem deliver_ord (s : State) (b : Bytes) (h : Ord s) : Ord (deliver s b).1 := by
  constructor
  · show (((s.ctxs.map (fun c => c.offer b)).map (·.1)).map (·.id)).Nodup
    simp only [List.map_map]
    have : ((fun c : Ctx => c.id) ∘ (fun x : Ctx × List (Nat × Ev) => x.1) ∘ fun c => c.offer b) = (fun c : Ctx => c.id) := by
      funext c; exact offer_id c b
    rw [this]; exact h.uniq
  · intro c hc
    simp only [deliver, List.map_map, List.mem_map, Function.comp] at hc
    obtain ⟨c0, hc0, rfl⟩ := hc
    obtain ⟨h1, h2⟩ := h.ctx c0 hc0
    refine ⟨offer_ord c0 b h1, ?_⟩
    show (c0.offer b).1.seen.Sublist (s.arrived ++ [b])
    rcases offer_seen c0 b with e | e
    · rw [e]; exact List.Sublist.trans h2 (List.sublist_append_left _ _)
    · rw [e]; exact List.Sublist.append h2 (List.Sublist.refl _)

theorem modifyCtx_ids (s : State) (id : Nat) (f : Ctx → Ctx) (hid : ∀ c, (f c).id = c.id) :
    (modifyCtx s id f).ctxs.map (·.id) = s.ctxs.map (·.id) := by
  simp only [modifyCtx, List.map_map]
  congr 1
  funext c
  simp only [Function.comp]
  split
  · exact hid c
  · rfl

/-- an update of the contexts named `id`: f is applied to those for which `P` holds of the original -/
theorem modifyCtx_ord (s : State) (id : Nat) (f : Ctx → Ctx) (hid : ∀ c, (f c).id = c.id)
    (hf : ∀ c ∈ s.ctxs, c.id = id → c.Ord → (f c).Ord ∧ (f c).seen = c.seen) (h : Ord s) : Ord (modifyCtx s id f) := by
  constructor
  · rw [modifyCtx_ids s id f hid]; exact h.uniq
  · intro c hc
    simp only [modifyCtx, List.mem_map] at hc
    obtain ⟨c0, hc0, rfl⟩ := hc
    obtain ⟨h1, h2⟩ := h.ctx c0 hc0
    split
    · rename_i hi
      refine ⟨(hf c0 hc0 hi h1).1, ?_⟩
      rw [(hf c0 hc0 hi h1).2]; exact h2
    · exact ⟨h1, h2⟩

/-- Recv takes the head of the queue: what was returned followed by what is queued does not change -/
theorem take_ord (c : Ctx) (h : c.Ord) : ({ c with q := c.q.tail, got := c.got ++ c.q.take 1 } : Ctx).Ord ∧
    ({ c with q := c.q.tail, got := c.got ++ c.q.take 1 } : Ctx).seen = c.seen := by
  refine ⟨⟨?_, ?_⟩, rfl⟩
  · show ((c.got ++ c.q.take 1) ++ c.q.tail).Sublist c.seen
    have : (c.got ++ c.q.take 1) ++ c.q.tail = c.got ++ c.q := by
      rw [List.append_assoc]
      congr 1
      cases c.q <;> rfl
    rw [this]; exact h.sub
  · intro hne
    show c.q.tail = []
    rw [h.idle hne]; rfl

theorem unsubscribe_ord (c c' : Ctx) (t : Bytes) (hu : c.unsubscribe t = some c') (h : c.Ord) : c'.Ord ∧ c'.seen = c.seen ∧ c'.id = c.id := by
  unfold Ctx.unsubscribe at hu
  split at hu
  · simp only [Option.some.injEq] at hu
    subst hu
    refine ⟨⟨?_, ?_⟩, rfl, rfl⟩
    · exact List.Sublist.trans (List.Sublist.append (List.Sublist.refl _) List.filter_sublist) h.sub
    · intro hne
      show c.q.filter _ = []
      rw [h.idle hne]; rfl
  · simp at hu

theorem eq_of_nodup_ids (l : List Ctx) (h : (l.map (·.id)).Nodup) (a b : Ctx) (ha : a ∈ l) (hb : b ∈ l) (e : a.id = b.id) : a = b := by
  induction l with
  | nil => cases ha
  | cons x xs ih =>
    simp only [List.map_cons, List.nodup_cons, List.mem_map, not_exists, not_and] at h
    simp only [List.mem_cons] at ha hb
    rcases ha with rfl | ha <;> rcases hb with rfl | hb
    · rfl
    · exact absurd e.symm (h.1 b hb)
    · exact absurd e (h.1 a ha)
    · exact ih h.2 ha hb

theorem subscribe_ord (c : Ctx) (t : Bytes) (h : c.Ord) : (c.subscribe t).Ord ∧ (c.subscribe t).seen = c.seen := by
  unfold Ctx.subscribe
  split
  · exact ⟨h, rfl⟩
  · exact ⟨⟨h.sub, h.idle⟩, rfl⟩

theorem step_ord (s : State) (op : List String) (h : Ord s) : ∀ o ∈ step s op, Ord o.1 := by
  intro o ho
  unfold step at ho
  split at ho
  · split at ho <;> simp at ho <;> subst ho
    · exact h
    · exact ⟨h.uniq, h.ctx⟩
  · simp at ho; subst ho; exact ⟨h.uniq, h.ctx⟩
  · simp at ho; subst ho; exact deliver_ord s _ h
  · simp at ho; subst ho; exact h
  · -- recv
    split at ho
    · simp at ho
    · rename_i c hc
      obtain ⟨hcm, hcid⟩ := getCtx_mem s _ c hc
      split at ho
      · split at ho
        · simp at ho; subst ho; exact h
        · simp at ho
          rcases ho with rfl | rfl
          · exact h
          · exact modifyCtx_ord s _ _ (fun c => rfl) (fun c _ _ hc => take_ord c hc) h
      · split at ho
        · simp at ho; subst ho
          exact modifyCtx_ord s _ _ (fun c => rfl) (fun c _ _ hc => take_ord c hc) h
        · rename_i hq
          simp at ho; subst ho
          -- parking: the context looked up (the only one with this id) has an empty queue
          refine modifyCtx_ord s _ _ (fun c => rfl) ?_ h
          intro c0 hc0 hid hord
          have : c0 = c := eq_of_nodup_ids s.ctxs h.uniq c0 c hc0 hcm hid
          subst this
          exact ⟨⟨hord.sub, fun _ => hq⟩, rfl⟩
  · -- subscribe
    simp at ho; subst ho
    refine modifyCtx_ord s _ _ ?_ (fun c _ _ hc => subscribe_ord c _ hc) h
    intro c; unfold Ctx.subscribe; split <;> rfl
  · -- unsubscribe
    split at ho
    · simp at ho
    · rename_i c hc
      obtain ⟨hcm, hcid⟩ := getCtx_mem s _ c hc
      split at ho
      · rename_i c' hu
        simp at ho; subst ho
        have hu' := unsubscribe_ord c c' _ hu
        constructor
        · show ((s.ctxs.map (fun x => if x.id = c.id then c' else x)).map (·.id)).Nodup
          simp only [List.map_map]
          have : ((fun x : Ctx => x.id) ∘ fun x => if x.id = c.id then c' else x) = (fun x : Ctx => x.id) := by
            funext x
            simp only [Function.comp]
            split
            · rename_i hx
              rw [(hu' (h.ctx c hcm).1).2.2, hx]
            · rfl
          rw [this]; exact h.uniq
        · intro x hx
          simp only [modifyCtx, List.mem_map] at hx
          obtain ⟨c0, hc0, rfl⟩ := hx
          split
          · rename_i hid
            have : c0 = c := eq_of_nodup_ids s.ctxs h.uniq c0 c hc0 hcm hid
            subst this
            obtain ⟨h1, h2⟩ := h.ctx c0 hc0
            refine ⟨(hu' h1).1, ?_⟩
            rw [(hu' h1).2.1]; exact h2
          · exact h.ctx c0 hc0
      · simp at ho; subst ho; exact h
  · -- resize: the new queue is empty
    simp at ho; subst ho
    refine modifyCtx_ord s _ _ (fun c => rfl) ?_ h
    intro c _ _ hc
    refine ⟨⟨?_, fun _ => rfl⟩, rfl⟩
    show (c.got ++ []).Sublist c.seen
    exact List.Sublist.trans (List.Sublist.append (List.Sublist.refl _) (List.nil_sublist c.q)) hc.sub
  · -- openctx
    rename_i id
    split at ho
    · simp at ho; subst ho; exact h
    · split at ho
      · simp at ho
      rename_i hnew
      simp at ho; subst ho
      constructor
      · show ((s.ctxs ++ [_]).map (fun c : Ctx => c.id)).Nodup
        rw [List.map_append, List.nodup_append]
        refine ⟨h.uniq, by simp, ?_⟩
        intro a ha b hb
        simp only [List.map_cons, List.map_nil, List.mem_singleton] at hb
        subst hb
        simp only [List.mem_map] at ha
        obtain ⟨x, hx, rfl⟩ := ha
        intro e
        -- a context with that id exists: the guard excludes it
        have : (getCtx s (natOf id)).isSome = true := by
          unfold getCtx
          rw [List.find?_isSome]
          exact ⟨x, hx, by simpa using e⟩
        exact hnew this
      · intro c hc
        simp only [List.mem_append, List.mem_singleton] at hc
        rcases hc with hc | rfl
        · exact h.ctx c hc
        · exact ⟨⟨List.nil_sublist _, fun _ => rfl⟩, List.nil_sublist _⟩
  · -- closectx
    split at ho
    · simp at ho
    · split at ho
      · simp at ho; subst ho; exact h
      · simp at ho; subst ho
        exact modifyCtx_ord s _ _ (fun c => rfl) (fun c _ _ hc => ⟨⟨hc.sub, fun hne => absurd rfl hne⟩, rfl⟩) h
  · -- close
    split at ho
    · simp at ho; subst ho; exact h
    · simp at ho; subst ho
      constructor
      · show ((s.ctxs.map (fun c => ({ c with closed := true, parked := [] } : Ctx))).map (·.id)).Nodup
        simp only [List.map_map]
        exact h.uniq
      · intro c hc
        simp only [List.mem_map] at hc
        obtain ⟨c0, hc0, rfl⟩ := hc
        obtain ⟨h1, h2⟩ := h.ctx c0 hc0
        exact ⟨⟨h1.sub, fun hne => absurd rfl hne⟩, h2⟩
  · simp at ho

theorem reach_ord (s : State) (h : Reach s) : Ord s := by
  induction h with
  | init =>
    constructor
    · simp [init]
    · intro c hc
      simp [init] at hc; subst hc
      exact ⟨⟨List.nil_sublist _, fun _ => rfl⟩, List.nil_sublist _⟩
  | step s op o _ ho ih => exact step_ord s op ih o ho

/-- over every history: for every context, what its Recvs have returned followed by what is queued for it is, in
    order, part of the matching messages that were offered to it, which are, in order, part of the messages that
    reached the socket — so a context receives each arrival at most once, in arrival order, and nothing that did not
    arrive (and did not match when it arrived) -/
theorem recv_in_order_at_most_once (s : State) (h : Reach s) :
    ∀ c ∈ s.ctxs, (c.got ++ c.q).Sublist c.seen ∧ c.seen.Sublist s.arrived :=
  fun c hc => ⟨((reach_ord s h).ctx c hc).1.sub, ((reach_ord s h).ctx c hc).2⟩

/-- the ghost list `got` is what the context's Recvs return: an arriving message either produces no event and leaves
    `got` alone, or is handed to the first blocked Recv — one "Recv returned" event carrying it — and is appended -/
theorem offer_logs_what_it_hands (c : Ctx) (b : Bytes) :
    ((c.offer b).2 = [] ∧ (c.offer b).1.got = c.got) ∨
    (∃ call, (c.offer b).2 = [(call, retMsg call [] b)] ∧ (c.offer b).1.got = c.got ++ [b]) := by
  unfold Ctx.offer
  split
  · exact Or.inl ⟨rfl, rfl⟩
  · split
    · rename_i call rest _
      exact Or.inr ⟨call, rfl, rfl⟩
    · split
      · exact Or.inl ⟨rfl, rfl⟩
      · split <;> exact Or.inl ⟨rfl, rfl⟩

end Sub
end Proto
end Model
