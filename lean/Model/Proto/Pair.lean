/-
  Model/Proto/Pair.lean — XPAIR / PAIR (protocol/xpair/xpair.go): one admitted peer, a send queue drained
  in order by the peer's sender goroutine, a receive queue fed by the peer's receiver goroutine.
-/
import Model.Proto.Fanout
namespace Model
namespace Proto
namespace Pair

structure State where
  peer : Option Nat := none
  sendQ : List Msg := []
  sendCap : Nat := 128
  recvQ : List Msg := []
  recvCap : Nat := 128
  inflight : Option Msg := none        -- the sender goroutine is inside the pipe's SendMsg
  hold : Bool := false                 -- harness: the peer's SendMsg parks until released
  inhand : Option Msg := none          -- the receiver goroutine holds a message, queue full
  backlog : List Bytes := []           -- bytes the peer sent that the receiver has not read yet
  parkedSend : List (Nat × Msg) := []  -- blocked Send calls, FIFO
  parkedRecv : List Nat := []          -- blocked Recv calls, FIFO
  bestEffort : Bool := false
  closed : Bool := false
  -- ghost history (never read by the machine): what entered the send queue, what the peer was handed,
  -- what the receiver read from the peer, what Recv returned
  enq : List Msg := []
  txd : List Msg := []
  rin : List Msg := []
  rout : List Msg := []
deriving Repr, BEq

def init : State := {}

/-- can a non-blocking `sendQ <- m` succeed right now?  (capacity 0: only if the sender goroutine is waiting) -/
def sendRoom (s : State) : Bool :=
  if s.sendCap = 0 then s.peer.isSome && s.inflight.isNone && s.sendQ.isEmpty else s.sendQ.length < s.sendCap

/-- one pass of internal progress; returns none when nothing can move -/
def progress (s : State) : Option (State × List (Nat × Ev)) :=
  -- the sender goroutine takes the head of the send queue
  match s.peer, s.inflight, s.sendQ with
  | some p, none, m :: rest =>
    if s.hold then some ({ s with sendQ := rest, inflight := some m }, [])
    else some ({ s with sendQ := rest, txd := s.txd ++ [m] }, [(p, Ev.tx p m.1 m.2)])
  | _, _, _ =>
  -- a blocked Send gets room
  match s.parkedSend with
  | (call, m) :: rest =>
    if sendRoom s then some ({ s with parkedSend := rest, sendQ := s.sendQ ++ [m], enq := s.enq ++ [m] }, [(call, Ev.retErr call "ok")])
    else progressRecv s
  | [] => progressRecv s
where
  progressRecv (s : State) : Option (State × List (Nat × Ev)) :=
    -- queued message to a blocked Recv
    match s.parkedRecv, s.recvQ with
    | call :: rest, m :: q => some ({ s with parkedRecv := rest, recvQ := q, rout := s.rout ++ [m] }, [(call, Ev.retMsg call m.1 m.2)])
    | _, _ =>
    match s.inhand with
    | some m =>
      match s.parkedRecv with
      | call :: rest => some ({ s with parkedRecv := rest, inhand := none, rout := s.rout ++ [m] }, [(call, Ev.retMsg call m.1 m.2)])
      | [] => if s.recvQ.length < s.recvCap then some ({ s with recvQ := s.recvQ ++ [m], inhand := none }, []) else none
    | none =>
      match s.peer, s.backlog with
      | some _, b :: rest => some ({ s with backlog := rest, inhand := some ([], b), rin := s.rin ++ [([], b)] }, [])
      | _, _ => none

def settle : Nat → State → State × List (Nat × Ev)
  | 0, s => (s, [])
  | fuel+1, s =>
    match progress s with
    | none => (s, [])
    | some (s', evs) =>
      let (s'', evs') := settle fuel s'
      (s'', evs ++ evs')

def fuelOf (s : State) : Nat := 4 * (s.sendQ.length + s.parkedSend.length + s.backlog.length + s.recvQ.length + s.parkedRecv.length) + 16

def settled (s : State) (pre : List Ev) (evs : List (Nat × Ev)) : State × List Ev :=
  let (s', more) := settle (fuelOf s) s
  (s', pre ++ sortByKey (evs ++ more))

/-- the peer goes away (peer-side drop, send failure, or the harness closing the pipe) -/
def dropPeer (s : State) : State := { s with peer := none, inflight := none, inhand := none, backlog := [], hold := false }

def step (s : State) (op : List String) : List (State × List Ev) :=
  match op with
  | ["addpipe", p] =>
    if s.closed then [(s, [Ev.res "closed"])]
    else if s.peer.isSome then [(s, [Ev.res "protostate"])]
    else [settled { s with peer := some (natOf p), hold := false } [Ev.res "ok"] []]
  | ["rmpipe", p] =>
    if s.peer = some (natOf p) then [settled (dropPeer s) [] [(natOf p, Ev.closed (natOf p))]]
    else [(s, [Ev.closed (natOf p)])]
  | ["inject", p, b] =>
    if s.peer = some (natOf p) then [settled { s with backlog := s.backlog ++ [bytesOf b] } [] []] else [(s, [])]
  | ["send", call, _, h, b] =>
    let call := natOf call
    let m : Msg := (bytesOf h, bytesOf b)
    if s.closed then [(s, [Ev.retErr call "closed"])] else
    if s.bestEffort then
      -- select between the always-ready drop channel and the queue: both may be ready
      let dropped := (s, [Ev.retErr call "ok"])
      if sendRoom s then [settled { s with sendQ := s.sendQ ++ [m], enq := s.enq ++ [m] } [] [(call, Ev.retErr call "ok")], dropped] else [dropped]
    else if sendRoom s then [settled { s with sendQ := s.sendQ ++ [m], enq := s.enq ++ [m] } [] [(call, Ev.retErr call "ok")]]
    else [({ s with parkedSend := s.parkedSend ++ [(call, m)] }, [])]
  | ["recv", call, _] =>
    let call := natOf call
    if s.closed then
      match s.recvQ with
      | [] =>
        -- nothing queued; a receiver goroutine still holding a message (capacity 0, or it arrived after the queue
        -- filled) is still offering it: the select may take it instead of the closed channel
        match s.inhand with
        | none => [(s, [Ev.retErr call "closed"])]
        | some m => [(s, [Ev.retErr call "closed"]), settled { s with inhand := none, rout := s.rout ++ [m] } [] [(call, Ev.retMsg call m.1 m.2)]]
      | m :: q => [(s, [Ev.retErr call "closed"]), settled { s with recvQ := q, rout := s.rout ++ [m] } [] [(call, Ev.retMsg call m.1 m.2)]]
    else [settled { s with parkedRecv := s.parkedRecv ++ [call] } [] []]
  | ["setopt", _, "BEST-EFFORT", v] => [({ s with bestEffort := v == "true" }, [Ev.res "ok"])]
  | ["setopt", _, "READQ-LEN", n] =>
    -- fresh empty receive queue; the wake-up makes blocked Sends return (their message is discarded),
    -- and the receiver drops the message it was holding
    let evs := s.parkedSend.map (fun c => (c.1, Ev.retErr c.1 "ok"))
    [settled { s with recvQ := [], recvCap := natOf n, inhand := none, parkedSend := [] } [Ev.res "ok"] evs]
  | ["setopt", _, "WRITEQ-LEN", n] =>
    let evs := s.parkedSend.map (fun c => (c.1, Ev.retErr c.1 "ok"))
    [settled { s with sendQ := [], sendCap := natOf n, inhand := none, parkedSend := [] } [Ev.res "ok"] evs]
  | ["hold", p, v] => if s.peer = some (natOf p) then [({ s with hold := v == "1" }, [])] else [(s, [])]
  | ["release", p, "ok"] =>
    match s.inflight with
    | some m => if s.peer = some (natOf p) then [settled { s with inflight := none, txd := s.txd ++ [m] } [] [(natOf p, Ev.tx (natOf p) m.1 m.2)]] else []
    | none => []
  | ["release", p, "err"] =>
    if s.peer = some (natOf p) then [settled (dropPeer s) [] [(natOf p, Ev.closed (natOf p))]] else []
  | ["openctx", _] => [(s, [Ev.res "protoop"])]
  | ["close"] =>
    if s.closed then [(s, [Ev.res "closed"])] else
    let evs := s.parkedSend.map (fun c => (c.1, Ev.retErr c.1 "closed")) ++ s.parkedRecv.map (fun c => (c, Ev.retErr c "closed"))
    [({ s with closed := true, parkedSend := [], parkedRecv := [] }, Ev.res "ok" :: sortByKey evs)]
  | _ => []

end Pair
end Proto
end Model
