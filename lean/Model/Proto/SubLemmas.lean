import Model.Proto.Sub
namespace Model
namespace Proto
namespace Sub

theorem isPrefix_iff (a b : Bytes) : isPrefix a b = true ↔ a <+: b := by
  induction a generalizing b with
  | nil => simp [isPrefix]
  | cons x xs ih =>
    cases b with
    | nil => simp [isPrefix]
    | cons y ys =>
      simp only [isPrefix, Bool.and_eq_true, beq_iff_eq, ih, List.cons_prefix_cons]

def Ctx.Inv (c : Ctx) : Prop := ∀ m ∈ c.q, c.matches m = true
def Inv (s : State) : Prop := ∀ c ∈ s.ctxs, c.Inv

theorem matches_mono (c : Ctx) (t m : Bytes) (h : c.matches m = true) :
    ({ c with subs := c.subs ++ [t] } : Ctx).matches m = true := by
  unfold Ctx.matches at h ⊢
  simp only [List.any_append, h, Bool.true_or]

theorem offer_inv (c : Ctx) (b : Bytes) (h : c.Inv) : (c.offer b).1.Inv := by
  unfold Ctx.offer
  split
  · exact h
  · rename_i hm
    simp only [Bool.or_eq_true, Bool.not_eq_eq_eq_not, Bool.not_true, not_or, Bool.not_eq_true] at hm
    have hmatch : c.matches b = true := by
      cases hh : c.matches b <;> simp_all
    split
    · exact h
    · split
      · intro m hmem
        simp only [List.mem_append, List.mem_singleton] at hmem
        rcases hmem with hmem | rfl
        · exact h m hmem
        · exact hmatch
      · split
        · exact h
        · intro m hmem
          simp only [List.mem_append, List.mem_singleton] at hmem
          rcases hmem with hmem | rfl
          · exact h m (List.mem_of_mem_tail hmem)
          · exact hmatch

theorem subscribe_inv (c : Ctx) (t : Bytes) (h : c.Inv) : (c.subscribe t).Inv := by
  unfold Ctx.subscribe
  split
  · exact h
  · intro m hmem; exact matches_mono c t m (h m hmem)

theorem unsubscribe_inv (c c' : Ctx) (t : Bytes) (hu : c.unsubscribe t = some c') : c'.Inv := by
  unfold Ctx.unsubscribe at hu
  split at hu
  · simp only [Option.some.injEq] at hu
    subst hu
    intro m hmem
    simp only [List.mem_filter] at hmem
    exact hmem.2
  · simp at hu

theorem modifyCtx_inv (s : State) (id : Nat) (f : Ctx → Ctx)
    (hf : ∀ c, c.Inv → (f c).Inv) (h : Inv s) : Inv (modifyCtx s id f) := by
  intro c hc
  simp only [modifyCtx, List.mem_map] at hc
  obtain ⟨c0, hc0, rfl⟩ := hc
  split
  · exact hf _ (h c0 hc0)
  · exact h c0 hc0

theorem deliver_inv (s : State) (b : Bytes) (h : Inv s) : Inv (deliver s b).1 := by
  intro c hc
  simp only [deliver, List.map_map, List.mem_map, Function.comp] at hc
  obtain ⟨c0, hc0, rfl⟩ := hc
  exact offer_inv c0 b (h c0 hc0)

theorem getCtx_mem (s : State) (id : Nat) (c : Ctx) (h : getCtx s id = some c) : c ∈ s.ctxs ∧ c.id = id := by
  unfold getCtx at h
  exact ⟨List.mem_of_find?_eq_some h, by simpa using List.find?_some h⟩

theorem tail_inv (c : Ctx) (h : c.Inv) : ({ c with q := c.q.tail } : Ctx).Inv :=
  fun m hm => h m (List.mem_of_mem_tail hm)

/-- every outcome of every operation preserves "every queued message matches the context's
    current subscriptions" -/
theorem step_inv (s : State) (op : List String) (h : Inv s) : ∀ o ∈ step s op, Inv o.1 := by
  intro o ho
  unfold step at ho
  split at ho
  · -- addpipe
    split at ho <;> simp at ho <;> subst ho <;> exact h
  · -- rmpipe
    simp at ho; subst ho; exact h
  · -- inject
    simp at ho; subst ho; exact deliver_inv s _ h
  · -- send
    simp at ho; subst ho; exact h
  · -- recv
    split at ho
    · simp at ho
    · split at ho
      · split at ho
        · simp at ho; subst ho; exact h
        · simp at ho
          rcases ho with rfl | rfl
          · exact h
          · exact modifyCtx_inv s _ _ (fun c hc => tail_inv c hc) h
      · split at ho
        · simp at ho; subst ho
          exact modifyCtx_inv s _ _ (fun c hc => tail_inv c hc) h
        · simp at ho; subst ho
          exact modifyCtx_inv s _ _ (fun c hc => hc) h
  · -- subscribe
    simp at ho; subst ho
    exact modifyCtx_inv s _ _ (fun c hc => subscribe_inv c _ hc) h
  · -- unsubscribe
    split at ho
    · simp at ho
    · split at ho
      · rename_i c' hu
        simp at ho; subst ho
        exact modifyCtx_inv s _ _ (fun _ _ => unsubscribe_inv _ c' _ hu) h
      · simp at ho; subst ho; exact h
  · -- resize: the new queue is empty
    simp at ho; subst ho
    exact modifyCtx_inv s _ _ (fun c _ m hm => by simp at hm) h
  · -- openctx
    split at ho
    · simp at ho; subst ho; exact h
    · split at ho
      · simp at ho
      simp at ho; subst ho
      intro c hc
      simp only [List.mem_append, List.mem_singleton] at hc
      rcases hc with hc | rfl
      · exact h c hc
      · intro m hm; simp at hm
  · -- closectx
    split at ho
    · simp at ho
    · split at ho
      · simp at ho; subst ho; exact h
      · simp at ho; subst ho
        exact modifyCtx_inv s _ _ (fun c hc => hc) h
  · -- close
    split at ho
    · simp at ho; subst ho; exact h
    · simp at ho; subst ho
      intro c hc
      simp only [List.mem_map] at hc
      obtain ⟨c0, hc0, rfl⟩ := hc
      exact h c0 hc0
  · simp at ho

/-- reachability: any finite sequence of operations, any allowed outcome at each step -/
inductive Reach : State → Prop
  | init : Reach init
  | step (s : State) (op : List String) (o : State × List Ev) : Reach s → o ∈ step s op → Reach o.1

theorem reach_inv (s : State) (h : Reach s) : Inv s := by
  induction h with
  | init => intro c hc; simp [init] at hc; subst hc; intro m hm; simp at hm
  | step s op o _ ho ih => exact step_inv s op ih o ho

end Sub
end Proto
end Model
