/-
  Model/Proto/ReqGone.lean — REQ: a reply to an earlier, cancelled, timed-out or already answered request is never
  delivered, over every continuation of every history.  For a request number k that is no context's current request,
  invariant E k dl says that this stays so (numbers are given out once) and that the replies Recv returned for k are
  exactly the list dl: however late, duplicated or misdirected replies carrying k arrive, nothing is added.
-/
import Model.Proto.ReqOnce
namespace Model
namespace Proto
namespace Req

/-- the replies returned by Recv for request number k -/
def repliesFor (k : Nat) (s : State) : List Nat := s.deliveredFor.filter (· == k)

structure E (k : Nat) (dl : List Nat) (s : State) : Prop where
  nz : k ≠ 0
  le : k ≤ s.nsent
  gone : ∀ d x, getCtx s d = some x → x.reqID ≠ k
  log : repliesFor k s = dl

theorem E_same (k : Nat) (dl : List Nat) (s s' : State) (h : E k dl s) (hc : s'.ctxs = s.ctxs)
    (hd : s'.deliveredFor = s.deliveredFor) (hn : s.nsent ≤ s'.nsent) : E k dl s' := by
  have hg : ∀ d, getCtx s' d = getCtx s d := fun d => by unfold getCtx; rw [hc]
  refine ⟨h.nz, Nat.le_trans h.le hn, ?_, ?_⟩
  · intro d x hx; exact h.gone d x (by rw [← hg]; exact hx)
  · unfold repliesFor; rw [hd]; exact h.log

theorem setCtx_E (k : Nat) (dl : List Nat) (s : State) (c : Nat) (f : Ctx → Ctx) (hid : ∀ y, (f y).id = y.id)
    (hf : ∀ y, getCtx s c = some y → (f y).reqID ≠ k) (h : E k dl s) : E k dl (setCtx s c f) := by
  refine ⟨h.nz, h.le, ?_, h.log⟩
  intro d x' hx'
  by_cases hdc : d = c
  · subst hdc
    cases hg : getCtx s d with
    | none => rw [getCtx_setCtx_none s d f hid hg d, hg] at hx'; cases hx'
    | some y =>
      rw [getCtx_setCtx_eq s d f hid y hg] at hx'; cases hx'
      exact hf y hg
  · rw [getCtx_setCtx_ne s c d f hid hdc] at hx'
    exact h.gone d x' hx'

theorem cancelSend_E (k : Nat) (dl : List Nat) (s : State) (c : Nat) (h : E k dl s) : E k dl (cancelSend s c) := by
  unfold cancelSend
  have h1 : E k dl { s with sendQ := s.sendQ.filter (· != c) } := E_same k dl s _ h rfl rfl (Nat.le_refl _)
  exact setCtx_E k dl _ c _ (fun y => rfl) (fun y hy => h1.gone c y hy) h1

theorem cancel_E (k : Nat) (dl : List Nat) (s : State) (c : Nat) (h : E k dl s) : E k dl (cancel s c) := by
  unfold cancel
  simp only []
  have h1 := cancelSend_E k dl s c h
  split
  · exact h1
  · rename_i x hx
    have h2 : E k dl { cancelSend s c with ctxByID := (cancelSend s c).ctxByID.filter (fun e => !(e.1 == x.reqID && x.reqID != 0) && e.2 != c) } :=
      E_same k dl _ _ h1 rfl rfl (Nat.le_refl _)
    exact setCtx_E k dl _ c _ (fun y => rfl) (fun y _ e0 => h.nz e0.symm) h2

theorem wakeSends_E (k : Nat) (dl : List Nat) (s : State) (c : Nat) (x : Ctx) (h : E k dl s) : E k dl (wakeSends s c x).1 := by
  simp only [wakeSends]
  have h1 : E k dl { s with parkedSend := s.parkedSend.filter (fun p => !((s.parkedSend.filter (fun p => p.ctx == c &&
      (!(x.sendMsg.isSome && x.sendFor == p.rid) || p.expired || x.closed || (x.failNoPeers && s.pipes.isEmpty) || x.sendAbort))).any (fun q => q.call == p.call))) } :=
    E_same k dl s _ h rfl rfl (Nat.le_refl _)
  split
  · have h2 := cancelSend_E k dl _ c h1
    have h3 : E k dl { (cancelSend { s with parkedSend := s.parkedSend.filter (fun p => !((s.parkedSend.filter (fun p => p.ctx == c &&
        (!(x.sendMsg.isSome && x.sendFor == p.rid) || p.expired || x.closed || (x.failNoPeers && s.pipes.isEmpty) || x.sendAbort))).any (fun q => q.call == p.call))) } c) with
        ctxByID := s.ctxByID.filter (fun e => e.2 != c) } := E_same k dl _ _ h2 rfl rfl (Nat.le_refl _)
    exact setCtx_E k dl _ c _ (fun y => rfl) (fun y _ e0 => h.nz e0.symm) h3
  · exact h1

theorem filter_append_ne' (l : List Nat) (k x : Nat) (h : x ≠ k) : (l ++ [x]).filter (· == k) = l.filter (· == k) := by
  rw [List.filter_append]
  have : ([x] : List Nat).filter (· == k) = [] := by simp [h]
  rw [this, List.append_nil]

/-- a reply is returned only for the context's current request — which is not k -/
theorem wakeRecv_E (k : Nat) (dl : List Nat) (s : State) (c : Nat) (np : Bool) (evs : List (Nat × Ev)) (h : E k dl s) :
    E k dl (wakeRecv s c np evs).1 := by
  unfold wakeRecv
  split
  · exact h
  · rename_i pr _
    split
    · exact h
    · rename_i y hy
      split
      · exact h
      · simp only []
        have h3 : ∀ (dl' : List (Nat × Nat × Nat)) (reg : List (Nat × Nat)),
            E k dl { s with parkedRecv := s.parkedRecv.filter (fun p => p.call != pr.call), delivered := dl', ctxByID := reg } :=
          fun dl' reg => E_same k dl s _ h rfl rfl (Nat.le_refl _)
        split
        · exact setCtx_E k dl _ c _ (fun y => rfl) (fun y hy => (h3 _ _).gone c y hy) (h3 _ _)
        · split
          · rename_i m hm
            have hne : y.reqID ≠ k := h.gone c y hy
            have h4 : E k dl { s with parkedRecv := s.parkedRecv.filter (fun p => p.call != pr.call), delivered := s.delivered ++ [(c, beDec m.1, enc y.reqID)], ctxByID := s.ctxByID.filter (fun e => e.2 != c), deliveredFor := s.deliveredFor ++ [y.reqID] } := by
              refine ⟨h.nz, h.le, h.gone, ?_⟩
              show (s.deliveredFor ++ [y.reqID]).filter (· == k) = dl
              rw [filter_append_ne' _ _ _ hne]; exact h.log
            exact setCtx_E k dl _ c _ (fun z => rfl) (fun z _ e0 => h.nz e0.symm) h4
          · exact h3 _ _

theorem wake_E (k : Nat) (dl : List Nat) (s : State) (c : Nat) (h : E k dl s) : E k dl (wake s c).1 := by
  unfold wake
  split
  · exact h
  · exact wakeRecv_E k dl _ c _ _ (wakeSends_E k dl s c _ h)

theorem ite_wake_E (k : Nat) (dl : List Nat) (b : Bool) (s2 : State) (c : Nat) (h : E k dl s2) :
    E k dl (if b = true then wake s2 c else (s2, [])).1 := by
  cases b
  · exact h
  · exact wake_E k dl s2 c h

theorem pumpTail_E (k : Nat) (dl : List Nat) (r3 : State × List (Nat × Ev)) (hold : Bool) (p : Nat) (f : Pipe → Pipe) (ev : List (Nat × Ev))
    (h : E k dl r3.1) :
    E k dl (if hold = true then (setPipe r3.1 p f, r3.2) else ({ r3.1 with readyQ := r3.1.readyQ ++ [p] }, r3.2 ++ ev)).1 := by
  cases hold
  · exact E_same k dl _ _ h rfl rfl (Nat.le_refl _)
  · exact E_same k dl _ _ h rfl rfl (Nat.le_refl _)

theorem pumpStep_E (k : Nat) (dl : List Nat) (arm : Nat × Nat) (s : State) (c p : Nat) (sq rq : List Nat) (x : Ctx) (pp : Pipe)
    (h : E k dl s) : E k dl (pumpStep arm s c p sq rq x pp).1 := by
  have h1 : E k dl { s with sendQ := sq, readyQ := rq, ctxByID := if x.sendMsg.isSome then s.ctxByID.filter (fun e => e.2 != c) ++ [(x.reqID, c)] else s.ctxByID, txlog := s.txlog ++ [(p, x.reqID, (x.sendMsg.orElse (fun _ => x.reqMsg)).getD [])] } :=
    E_same k dl s _ h rfl rfl (Nat.le_refl _)
  have h2 := setCtx_E k dl _ c (fun y => { y with queued := false, reqMsg := some ((x.sendMsg.orElse (fun _ => x.reqMsg)).getD []), sendMsg := none, lastPipe := some p, timer := if y.resendTime > 0 then some { id := y.reqID, tmin := arm.1, tmax := arm.2, period := y.resendTime } else y.timer })
    (fun y => rfl) (fun y hy => h1.gone c y hy) h1
  unfold pumpStep
  exact pumpTail_E k dl _ _ _ _ _ (ite_wake_E k dl _ _ _ h2)

theorem pump_E (k : Nat) (dl : List Nat) : ∀ (fuel : Nat) (arm : Nat × Nat) (s : State), E k dl s → E k dl (pump fuel arm s).1 := by
  intro fuel
  induction fuel with
  | zero => intro arm s h; exact h
  | succ n ih =>
    intro arm s h
    simp only [pump]
    split
    · split
      · rename_i x pp hx hp
        exact ih arm _ (pumpStep_E k dl arm s _ _ _ _ x pp h)
      · exact E_same k dl s _ h rfl rfl (Nat.le_refl _)
    · exact h

theorem resend_E (k : Nat) (dl : List Nat) (s : State) (arm : Nat × Nat) (c id : Nat) (h : E k dl s) : E k dl (resend s arm c id).1 := by
  unfold resend
  split
  · exact h
  · split
    · apply pump_E
      have h1 : E k dl { s with sendQ := s.sendQ ++ [c] } := E_same k dl s _ h rfl rfl (Nat.le_refl _)
      exact setCtx_E k dl _ c (fun y => { y with queued := true }) (fun y => rfl) (fun y hy => h1.gone c y hy) h1
    · exact h

theorem readyVariants_E (k : Nat) (dl : List Nat) (st : State × List (Nat × Ev)) (h : E k dl st.1) : ∀ r ∈ readyVariants st, E k dl r.1 := by
  intro r hr
  unfold readyVariants at hr
  simp only [] at hr
  split at hr
  · simp at hr; subst hr; exact h
  · simp only [List.mem_map] at hr
    obtain ⟨m, _, rfl⟩ := hr
    exact E_same k dl st.1 _ h rfl rfl (Nat.le_refl _)

theorem timerRound_E (k : Nat) (dl : List Nat) (now : Nat) (acc0 : List (State × List (Nat × Ev))) (ids : List Nat) (h : ∀ st ∈ acc0, E k dl st.1) :
    ∀ st ∈ timerRound now acc0 ids, E k dl st.1 := by
  unfold timerRound
  apply foldl_flatMap_all (fun st : State × List (Nat × Ev) => E k dl st.1) _ _ ids acc0 h
  intro cid st hst r hr
  split at hr
  · simp at hr; subst hr; exact hst
  · rename_i c _
    split at hr
    · simp at hr; subst hr; exact hst
    · rename_i t _
      have hf : E k dl (resend (setCtx st.1 c.id (fun y => { y with timer := none })) (t.tmin + t.period, now) c.id t.id).1 :=
        resend_E k dl _ _ _ _ (setCtx_E k dl _ _ _ (fun y => rfl) (fun y hy => hst.gone _ y hy) hst)
      simp only [] at hr
      split at hr
      · refine readyVariants_E k dl _ ?_ r hr; exact hf
      · split at hr
        · rw [List.mem_cons] at hr
          rcases hr with rfl | hr
          · exact hst
          · refine readyVariants_E k dl _ ?_ r hr; exact hf
        · simp at hr; subst hr; exact hst

theorem deadlineFired_E (k : Nat) (dl : List Nat) (st : State × List (Nat × Ev)) (isRecv : Bool) (p : Parked) (h : E k dl st.1) :
    E k dl (deadlineFired st isRecv p).1 := by
  unfold deadlineFired
  cases isRecv
  · simp only [Bool.false_eq_true, if_false]
    split
    · exact h
    · have hm : ∀ still : Bool, E k dl { st.1 with parkedSend := st.1.parkedSend.map (fun q => if q.call == p.call then { q with expired := still, deadline := none } else q) } :=
        fun still => E_same k dl st.1 _ h rfl rfl (Nat.le_refl _)
      split
      · exact wake_E k dl _ _ (cancel_E k dl _ _ (hm _))
      · exact hm _
  · simp only [if_true]
    split
    · exact h
    · have hm : ∀ still : Bool, E k dl { st.1 with parkedRecv := st.1.parkedRecv.map (fun q => if q.call == p.call then { q with expired := still, deadline := none } else q) } :=
        fun still => E_same k dl st.1 _ h rfl rfl (Nat.le_refl _)
      split
      · exact wake_E k dl _ _ (cancel_E k dl _ _ (hm _))
      · exact hm _

theorem expireSends_E (k : Nat) (dl : List Nat) (now : Nat) (s : State) (c : Nat) (h : E k dl s) : E k dl (expireSends now s c) :=
  E_same k dl s _ h rfl rfl (Nat.le_refl _)

theorem deadlineFire_E (k : Nat) (dl : List Nat) (now : Nat) (st : State × List (Nat × Ev)) (isRecv : Bool) (p : Parked) (t : Timer) (h : E k dl st.1) :
    ∀ r ∈ deadlineFire now st isRecv p t, E k dl r.1 := by
  intro r hr
  have hE : E k dl (expireSends now st.1 p.ctx) := expireSends_E k dl now st.1 p.ctx h
  have hfired : ∀ r ∈ (if (isRecv && recvStill st.1 p && expireSends now st.1 p.ctx != st.1) = true
      then [deadlineFired st isRecv p, deadlineFired (expireSends now st.1 p.ctx, st.2) isRecv p]
      else [deadlineFired st isRecv p]), E k dl r.1 := by
    intro r hr
    split at hr
    · simp at hr
      rcases hr with rfl | rfl
      · exact deadlineFired_E k dl st isRecv p h
      · exact deadlineFired_E k dl (_, _) isRecv p hE
    · simp at hr; subst hr; exact deadlineFired_E k dl st isRecv p h
  unfold deadlineFire at hr
  simp only [] at hr
  split at hr
  · exact hfired r hr
  · split at hr
    · rw [List.mem_cons] at hr
      rcases hr with rfl | hr
      · exact h
      · exact hfired r hr
    · simp at hr; subst hr; exact h

theorem deadlineRound_E (k : Nat) (dl : List Nat) (now : Nat) (acc0 : List (State × List (Nat × Ev))) (calls : List Nat) (h : ∀ st ∈ acc0, E k dl st.1) :
    ∀ st ∈ deadlineRound now acc0 calls, E k dl st.1 := by
  unfold deadlineRound
  apply foldl_flatMap_all (fun st : State × List (Nat × Ev) => E k dl st.1) _ _ calls acc0 h
  intro call st hst r hr
  split at hr
  · split at hr
    · exact deadlineFire_E k dl now st true _ _ hst r hr
    · simp at hr; subst hr; exact hst
  · split at hr
    · exact deadlineFire_E k dl now st false _ _ hst r hr
    · simp at hr; subst hr; exact hst
  · simp at hr; subst hr; exact hst

theorem timerOutcomes_E (k : Nat) (dl : List Nat) (s : State) (now : Nat) (h : E k dl s) : ∀ st ∈ timerOutcomes s now, E k dl st.1 := by
  intro st hst
  unfold timerOutcomes at hst
  simp only [] at hst
  have h0 : ∀ st ∈ dedup (deadlineRound now [(s, [])] (s.parkedRecv.map (·.call) ++ s.parkedSend.map (·.call))), E k dl st.1 :=
    fun st hst => deadlineRound_E k dl now _ _ (by intro b hb; simp at hb; subst hb; exact h) st (mem_dedup _ st hst)
  have h1 := fun st hst => timerRound_E k dl now _ (s.ctxs.map (·.id)) h0 st (mem_dedup _ st hst)
  have h2 := fun st hst => timerRound_E k dl now _ (s.ctxs.map (·.id)) h1 st (mem_dedup _ st hst)
  have h3 := fun st hst => timerRound_E k dl now _ (s.ctxs.map (·.id)) h2 st (mem_dedup _ st hst)
  have h4 := fun st hst => timerRound_E k dl now _ (s.ctxs.map (·.id)) h3 st (mem_dedup _ st hst)
  exact h4 st (List.mem_of_mem_take hst)

theorem dropOne_E (k : Nat) (dl : List Nat) (p : Nat) (acc : State × List (Nat × Ev) × List (Nat × Nat)) (c0 : Ctx) (h : E k dl acc.1) : E k dl (dropOne p acc c0).1 := by
  unfold dropOne
  split
  · exact h
  · rename_i c _
    split
    · exact wake_E k dl _ _ (cancel_E k dl _ _ h)
    · split
      · have h2 := setCtx_E k dl acc.1 c.id (fun y => { y with lastPipe := none }) (fun y => rfl) (fun y hy => h.gone _ y hy) h
        split
        · exact wake_E k dl _ _ (cancel_E k dl _ _ h2)
        · exact cancelSend_E k dl _ _ h2
      · exact h

theorem dropResends_E (k : Nat) (dl : List Nat) (arm : Nat × Nat) (todo : List (Nat × Nat)) (start : State × List (Nat × Ev)) (order : List Nat)
    (h : E k dl start.1) : E k dl (dropResends arm todo start order).1 := by
  unfold dropResends
  apply foldl_K _ (fun acc : State × List (Nat × Ev) => E k dl acc.1) _ order start h
  intro acc cid hacc
  split
  · exact hacc
  · exact resend_E k dl _ _ _ _ hacc

theorem dropPipe_E (k : Nat) (dl : List Nat) (s : State) (arm : Nat × Nat) (p : Nat) (h : E k dl s) : ∀ r ∈ dropPipe s arm p, E k dl r.1 := by
  intro r hr
  unfold dropPipe at hr
  simp only [List.mem_flatMap] at hr
  obtain ⟨order, _, hr⟩ := hr
  refine readyVariants_E k dl _ ?_ r hr
  apply dropResends_E
  apply foldl_K (dropOne p) (fun acc : State × List (Nat × Ev) × List (Nat × Nat) => E k dl acc.1) (fun b a hb => dropOne_E k dl p b a hb)
  exact E_same k dl s _ h rfl rfl (Nat.le_refl _)

theorem closeOne_E (k : Nat) (dl : List Nat) (acc : State × List (Nat × Ev)) (c : Ctx) (h : E k dl acc.1) : E k dl (closeOne acc c).1 := by
  unfold closeOne
  split
  · exact h
  · exact wake_E k dl _ _ (cancel_E k dl _ _ (setCtx_E k dl _ _ _ (fun y => rfl) (fun y hy => h.gone _ y hy) h))

theorem E_appendCtx (k : Nat) (dl : List Nat) (s : State) (n : Ctx) (h0 : n.reqID = 0) (h : E k dl s) :
    E k dl { s with ctxs := s.ctxs ++ [n] } := by
  refine ⟨h.nz, h.le, ?_, h.log⟩
  intro d x hx
  rw [getCtx_append] at hx
  cases hg : getCtx s d with
  | some y =>
    rw [hg] at hx; simp at hx; subst hx
    exact h.gone d y hg
  | none =>
    rw [hg] at hx
    simp only [Option.none_or] at hx
    split at hx
    · cases hx; rw [h0]; exact fun e0 => h.nz e0.symm
    · cases hx

theorem core_E (k : Nat) (dl : List Nat) (s : State) (now : Nat) (op : List String) (h : E k dl s) : ∀ r ∈ core s now op, E k dl r.1 := by
  intro r hr
  unfold core at hr
  split at hr
  · -- addpipe
    split at hr
    · simp at hr; subst hr; exact h
    · simp at hr; subst hr
      exact pump_E k dl _ _ _ (E_same k dl s _ h rfl rfl (Nat.le_refl _))
  · -- rmpipe
    simp only [List.mem_map] at hr
    obtain ⟨r0, hr0, rfl⟩ := hr
    exact dropPipe_E k dl s _ _ h r0 hr0
  · -- inject
    rename_i p b
    try simp only [] at hr
    split at hr
    · simp at hr; subst hr; exact h
    · split at hr
      · simp at hr; subst hr; exact h
      · try simp only [] at hr
        have h0 : ∀ q, E k dl ({ s with readyQ := q } : State) := fun q => E_same k dl s _ h rfl rfl (Nat.le_refl _)
        split at hr
        · simp at hr; subst hr; exact h0 _
        · rename_i rid c hfind
          simp at hr; subst hr
          apply wake_E
          have h1 := cancelSend_E k dl _ c (h0 (swapFront s.readyQ (natOf p)))
          have h2 : E k dl { (cancelSend { s with readyQ := swapFront s.readyQ (natOf p) } c) with ctxByID := (cancelSend { s with readyQ := swapFront s.readyQ (natOf p) } c).ctxByID.filter (fun e => e.1 != rid) } :=
            E_same k dl _ _ h1 rfl rfl (Nat.le_refl _)
          exact setCtx_E k dl _ c _ (fun y => rfl) (fun y hy => h2.gone c y hy) h2
  · -- send
    rename_i call ctx hd b
    simp only [] at hr
    split at hr
    · simp at hr
    · rename_i c hc
      have h0 : E k dl { s with nsent := s.nsent + 1, sent := s.sent ++ [(s.nsent + 1, bytesOf b)] } := E_same k dl s _ h rfl rfl (Nat.le_succ _)
      split at hr
      · simp at hr; subst hr; exact h0
      · split at hr
        · simp at hr; subst hr; exact h0
        · split at hr
          · simp at hr
          have h1 := cancel_E k dl _ c.id h0
          have h1' : E k dl { (cancel { s with nsent := s.nsent + 1, sent := s.sent ++ [(s.nsent + 1, bytesOf b)] } c.id) with sendQ := (cancel { s with nsent := s.nsent + 1, sent := s.sent ++ [(s.nsent + 1, bytesOf b)] } c.id).sendQ ++ [c.id] } :=
            E_same k dl _ _ h1 rfl rfl (Nat.le_refl _)
          have h2 : E k dl (setCtx { (cancel { s with nsent := s.nsent + 1, sent := s.sent ++ [(s.nsent + 1, bytesOf b)] } c.id) with sendQ := (cancel { s with nsent := s.nsent + 1, sent := s.sent ++ [(s.nsent + 1, bytesOf b)] } c.id).sendQ ++ [c.id] } c.id (fun y => { y with reqID := s.nsent + 1, queued := true, sendMsg := some (bytesOf b), sendFor := s.nsent + 1, sendAbort := false })) := by
            refine setCtx_E k dl _ c.id _ (fun y => rfl) ?_ h1'
            intro y _
            have := h.le
            show s.nsent + 1 ≠ k
            omega
          have h3 := wake_E k dl _ c.id h2
          have hadd : ∀ (ps : List Parked), E k dl { (wake (setCtx { (cancel { s with nsent := s.nsent + 1, sent := s.sent ++ [(s.nsent + 1, bytesOf b)] } c.id) with sendQ := (cancel { s with nsent := s.nsent + 1, sent := s.sent ++ [(s.nsent + 1, bytesOf b)] } c.id).sendQ ++ [c.id] } c.id (fun y => { y with reqID := s.nsent + 1, queued := true, sendMsg := some (bytesOf b), sendFor := s.nsent + 1, sendAbort := false })) c.id).1 with parkedSend := ps } :=
            fun ps => E_same k dl _ _ h3 rfl rfl (Nat.le_refl _)
          split at hr
          · simp at hr; subst hr
            refine E_same k dl (pump _ _ _).1 _ ?_ rfl rfl (Nat.le_refl _)
            exact pump_E k dl _ _ _ (hadd _)
          · simp at hr; subst hr
            exact pump_E k dl _ _ _ (hadd _)
  · -- recv
    rename_i call ctx
    simp only [] at hr
    split at hr
    · simp at hr
    · rename_i c hc
      split at hr
      · simp at hr; subst hr; exact h
      · split at hr
        · simp at hr; subst hr; exact h
        · split at hr
          · simp at hr; subst hr; exact h
          · split at hr
            · simp at hr
            simp at hr; subst hr
            apply wake_E
            have h1 : E k dl { s with parkedRecv := s.parkedRecv ++ [{ call := natOf call, ctx := c.id, rid := c.reqID, deadline := if c.recvExpire > 0 then some { id := c.reqID, tmin := s.tprev, tmax := now, period := c.recvExpire } else none }] } :=
              E_same k dl s _ h rfl rfl (Nat.le_refl _)
            exact setCtx_E k dl _ _ _ (fun y => rfl) (fun y hy => h1.gone _ y hy) h1
  · simp at hr; subst hr; exact setCtx_E k dl s _ _ (fun y => rfl) (fun y hy => h.gone _ y hy) h
  · simp at hr; subst hr; exact setCtx_E k dl s _ _ (fun y => rfl) (fun y hy => h.gone _ y hy) h
  · simp at hr; subst hr; exact setCtx_E k dl s _ _ (fun y => rfl) (fun y hy => h.gone _ y hy) h
  · simp at hr; subst hr; exact setCtx_E k dl s _ _ (fun y => rfl) (fun y hy => h.gone _ y hy) h
  · simp at hr; subst hr; exact setCtx_E k dl s _ _ (fun y => rfl) (fun y hy => h.gone _ y hy) h
  · simp at hr; subst hr; exact E_same k dl s _ h rfl rfl (Nat.le_refl _)
  · -- release ok
    split at hr
    · simp at hr
    · rename_i pp hpp
      split at hr
      · simp at hr
      · simp only [] at hr
        simp at hr; subst hr
        have h1 : E k dl (setPipe s pp.id (fun x => { x with inflight := none })) := E_same k dl s _ h rfl rfl (Nat.le_refl _)
        apply pump_E k dl
        split
        · exact h1
        · exact E_same k dl _ _ h1 rfl rfl (Nat.le_refl _)
  · -- release err
    simp only [List.mem_map] at hr
    obtain ⟨r0, hr0, rfl⟩ := hr
    exact dropPipe_E k dl s _ _ h r0 hr0
  · -- openctx
    split at hr
    · simp at hr; subst hr; exact h
    · split at hr
      · simp at hr
      · split at hr
        · simp at hr
        · simp at hr; subst hr
          exact E_appendCtx k dl s _ rfl h
  · -- closectx
    split at hr
    · simp at hr
    · rename_i c hc
      split at hr
      · simp at hr; subst hr; exact h
      · simp at hr; subst hr
        exact wake_E k dl _ _ (cancel_E k dl _ _ (setCtx_E k dl _ _ _ (fun y => rfl) (fun y hy => h.gone _ y hy) h))
  · simp at hr; subst hr; exact h
  · -- close
    split at hr
    · simp at hr; subst hr; exact h
    · simp at hr; subst hr
      exact foldl_K closeOne (fun acc : State × List (Nat × Ev) => E k dl acc.1) (fun b a hb => closeOne_E k dl b a hb) s.ctxs _
        (E_same k dl s _ h rfl rfl (Nat.le_refl _))
  · simp at hr

theorem step_E (k : Nat) (dl : List Nat) (s : State) (op : List String) (h : E k dl s) : ∀ o ∈ step s op, E k dl o.1 := by
  intro o ho
  simp only [step, List.mem_flatMap, List.mem_map] at ho
  obtain ⟨st, hst, r, hr, r2, hr2, rfl⟩ := ho
  have h1 := timerOutcomes_E k dl s _ h st hst
  have h2 := core_E k dl st.1 _ _ h1 r hr
  exact timerOutcomes_E k dl { r.1 with tprev := opTime op } _ (E_same k dl r.1 _ h2 rfl rfl (Nat.le_refl _)) r2 hr2

/-- over every continuation: once request number k is no context's current request — a newer Send replaced it, its
    Send or Recv deadline expired, its pipe was lost with retries disabled, its context or the socket was closed, or
    its reply was returned — no reply is ever returned for it again, whatever replies carrying its id still arrive, on
    whichever pipes, however often -/
theorem abandoned_request_never_delivers (s : State) (k : Nat) (hnz : k ≠ 0) (hle : k ≤ s.nsent)
    (hgone : ∀ d x, getCtx s d = some x → x.reqID ≠ k) : ∀ t, ReachFrom s t → repliesFor k t = repliesFor k s := by
  intro t ht
  have : E k (repliesFor k s) t := by
    induction ht with
    | refl => exact ⟨hnz, hle, hgone, rfl⟩
    | step t op o _ ho ih => exact step_E k _ t op ih o ho
  exact this.log

/-- cancel puts the context's request into that condition: afterwards it is nobody's current request -/
theorem cancel_abandons (s : State) (hT : T s) (c : Nat) (x : Ctx) (hx : getCtx s c = some x) (hnz : x.reqID ≠ 0) :
    ∀ d y, getCtx (cancel s c) d = some y → y.reqID ≠ x.reqID := by
  intro d y hy hk
  by_cases hdc : d = c
  · subst hdc
    have := cancel_reqID s d y hy
    rw [this] at hk; exact hnz hk.symm
  · have hother : getCtx (cancel s c) d = getCtx s d := by
      unfold cancel
      simp only []
      split
      · rw [getCtx_cancelSend]
        cases hg : getCtx s d with
        | none => rfl
        | some z =>
          have := getCtx_id s d z hg
          simp [this, hdc]
      · rw [getCtx_setCtx_ne (h := hdc)]
        case hf => intro y; rfl
        show getCtx (cancelSend s c) d = _
        rw [getCtx_cancelSend]
        cases hg : getCtx s d with
        | none => rfl
        | some z =>
          have := getCtx_id s d z hg
          simp [this, hdc]
    rw [hother] at hy
    exact hdc (hT.uniq d c y x hy hx hk (by rw [hk]; exact hnz))

end Req
end Proto
end Model
