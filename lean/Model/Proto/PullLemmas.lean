import Model.Proto.Pull
namespace Model
namespace Proto
namespace Pull

/-- what Recv returned, then what is queued, then what blocked receivers hold, is — in order — part of what
    the receivers read from the pipes; restricted to one pipe this is that connection's send order -/
def Inv (s : State) : Prop := (s.rout ++ s.recvQ ++ s.blocked).Sublist s.rin

theorem nextBacklog_inv (s : State) (h : Inv s) (s' : State) (evs) (hp : progress.nextBacklog s = some (s', evs)) : Inv s' := by
  unfold progress.nextBacklog at hp
  split at hp
  · rename_i p b _
    simp only [Option.some.injEq, Prod.mk.injEq] at hp
    obtain ⟨rfl, _⟩ := hp
    unfold Inv at h ⊢
    have := List.Sublist.append h (List.Sublist.refl [((p, (([] : Bytes), b)) : Nat × Msg)])
    simpa [List.append_assoc] using this
  · simp at hp

theorem progress_inv (s : State) (h : Inv s) (s' : State) (evs) (hp : progress s = some (s', evs)) : Inv s' := by
  unfold progress at hp
  split at hp
  · rename_i call rest m q hpr hq
    simp only [Option.some.injEq, Prod.mk.injEq] at hp
    obtain ⟨rfl, _⟩ := hp
    unfold Inv at h ⊢
    simp only [hq] at h
    simpa [List.append_assoc] using h
  · rename_i hno
    split at hp
    · rename_i p m bl hbl
      split at hp
      · rename_i call rest hpr
        simp only [Option.some.injEq, Prod.mk.injEq] at hp
        obtain ⟨rfl, _⟩ := hp
        have hq : s.recvQ = [] := by
          cases hrq : s.recvQ with
          | nil => rfl
          | cons x xs => exact absurd hrq (by intro hh; exact hno call rest x xs hpr hh)
        unfold Inv at h ⊢
        simp only [hbl, hq, List.append_nil] at h
        simpa [hq, List.append_assoc] using h
      · split at hp
        · simp only [Option.some.injEq, Prod.mk.injEq] at hp
          obtain ⟨rfl, _⟩ := hp
          unfold Inv at h ⊢
          simp only [hbl] at h
          simpa [List.append_assoc] using h
        · exact nextBacklog_inv s h s' evs hp
    · exact nextBacklog_inv s h s' evs hp

theorem settle_inv (fuel : Nat) (s : State) (h : Inv s) : Inv (settle fuel s).1 := by
  induction fuel generalizing s with
  | zero => simpa [settle] using h
  | succ n ih =>
    simp only [settle]
    cases hp : progress s with
    | none => simpa using h
    | some r =>
      obtain ⟨s', evs⟩ := r
      exact ih s' (progress_inv s h s' evs hp)

theorem settled_inv (s : State) (pre evs) (h : Inv s) : Inv (settled s pre evs).1 := by
  simp only [settled]; exact settle_inv _ s h

theorem step_inv (s : State) (op : List String) (h : Inv s) : ∀ o ∈ step s op, Inv o.1 := by
  intro o ho
  unfold step at ho
  split at ho
  · split at ho <;> simp at ho <;> subst ho <;> first | exact h | (simpa [Inv] using h)
  · -- rmpipe
    simp only [] at ho
    simp at ho; subst ho
    apply settled_inv
    unfold Inv at h ⊢
    simp only
    refine List.Sublist.trans ?_ h
    exact List.Sublist.append (List.Sublist.refl _) (List.filter_sublist)
  · split at ho
    · simp at ho; subst ho; exact settled_inv _ _ _ (by simpa [Inv] using h)
    · simp at ho; subst ho; exact h
  · simp at ho; subst ho; exact h
  · -- recv
    simp only [] at ho
    split at ho
    · split at ho
      · simp at ho; subst ho; exact h
      · rename_i m q hq
        simp at ho
        rcases ho with rfl | rfl
        · exact h
        · apply settled_inv
          unfold Inv at h ⊢
          simp only [hq] at h
          simpa [List.append_assoc] using h
    · simp at ho; subst ho; exact settled_inv _ _ _ (by simpa [Inv] using h)
  · -- READQ-LEN
    simp at ho; subst ho
    apply settled_inv
    unfold Inv at h ⊢
    simp only
    refine List.Sublist.trans ?_ h
    exact List.Sublist.append (List.Sublist.append (List.Sublist.refl _) (List.take_sublist _ _)) (List.Sublist.refl _)
  · simp at ho; subst ho; exact h
  · split at ho
    · simp at ho; subst ho; exact h
    · simp at ho; subst ho; simpa [Inv] using h
  · simp at ho

inductive Reach : State → Prop
  | init : Reach init
  | step (s : State) (op : List String) (o : State × List Ev) : Reach s → o ∈ step s op → Reach o.1

theorem reach_inv (s : State) (h : Reach s) : Inv s := by
  induction h with
  | init => simp [Inv, init]
  | step s op o _ ho ih => exact step_inv s op ih o ho

end Pull
end Proto
end Model
