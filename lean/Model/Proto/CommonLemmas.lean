import Model.Proto.Common
namespace Model
namespace Proto

theorem mem_insertSorted (x y : Nat × Ev) (l : List (Nat × Ev)) : x ∈ insertSorted y l ↔ x = y ∨ x ∈ l := by
  induction l with
  | nil => simp [insertSorted]
  | cons z zs ih =>
    simp only [insertSorted]
    split
    · simp
    · simp only [List.mem_cons, ih]
      constructor
      · rintro (h | h | h)
        · exact Or.inr (Or.inl h)
        · exact Or.inl h
        · exact Or.inr (Or.inr h)
      · rintro (h | h | h)
        · exact Or.inr (Or.inl h)
        · exact Or.inl h
        · exact Or.inr (Or.inr h)

theorem mem_foldl_insertSorted (x : Nat × Ev) (l acc : List (Nat × Ev)) :
    x ∈ l.foldl (fun acc y => insertSorted y acc) acc ↔ x ∈ l ∨ x ∈ acc := by
  induction l generalizing acc with
  | nil => simp
  | cons y ys ih =>
    simp only [List.foldl_cons, ih, mem_insertSorted, List.mem_cons]
    constructor
    · rintro (h | h | h)
      · exact Or.inl (Or.inr h)
      · exact Or.inl (Or.inl h)
      · exact Or.inr h
    · rintro ((h | h) | h)
      · exact Or.inr (Or.inl h)
      · exact Or.inl h
      · exact Or.inr (Or.inr h)

/-- sorting only reorders: an event is in the sorted observation iff it was produced under some key -/
theorem mem_sortByKey (ev : Ev) (l : List (Nat × Ev)) : ev ∈ sortByKey l ↔ ∃ k, (k, ev) ∈ l := by
  simp only [sortByKey, List.mem_map]
  constructor
  · rintro ⟨x, hx, rfl⟩
    rw [mem_foldl_insertSorted] at hx
    simp only [List.mem_map, List.not_mem_nil, or_false] at hx
    obtain ⟨y, hy, rfl⟩ := hx
    exact ⟨y.1, hy⟩
  · rintro ⟨k, hk⟩
    refine ⟨(ev.rank * 1000000000000 + k, ev), ?_, rfl⟩
    rw [mem_foldl_insertSorted]
    left
    simp only [List.mem_map]
    exact ⟨(k, ev), hk, rfl⟩

end Proto
end Model
