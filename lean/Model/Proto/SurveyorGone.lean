/-
  Model/Proto/SurveyorGone.lean — SURVEYOR: a survey that has expired, was abandoned by a newer one or whose context was
  closed never delivers again.  For a survey number k that is no longer registered, invariant G k dl says that this stays so
  (numbers are given out once), that no Recv is blocked on it, and that the responses delivered for k are exactly dl.
-/
import Model.Proto.SurveyorLemmas
namespace Model
namespace Proto
namespace Surveyor

/-- the deliveries made for survey number k -/
def forSurvey (k : Nat) (s : State) : List Nat := s.deliveredFor.filter (· == k)

structure G (k : Nat) (dl : List Nat) (s : State) : Prop where
  le : k ≤ s.nsent
  unreg : ∀ v ∈ s.surveys, v.id ≠ k
  unparked : ∀ p ∈ s.parked, p.2.2 ≠ k
  log : forSurvey k s = dl

theorem G_of_eq (k : Nat) (dl : List Nat) (s s' : State) (h : G k dl s) (h1 : s'.surveys = s.surveys) (h2 : s'.parked = s.parked)
    (h3 : s'.deliveredFor = s.deliveredFor) (h4 : s.nsent ≤ s'.nsent) : G k dl s' :=
  ⟨Nat.le_trans h.le h4, by rw [h1]; exact h.unreg, by rw [h2]; exact h.unparked, by unfold forSurvey; rw [h3]; exact h.log⟩

theorem cancel_G (k : Nat) (dl : List Nat) (s : State) (id : Nat) (e : String) (h : G k dl s) : G k dl (cancel s id e).1 := by
  refine ⟨h.le, ?_, ?_, h.log⟩
  · intro v hv
    simp only [cancel, List.mem_filter] at hv
    exact h.unreg v hv.1
  · intro p hp
    simp only [cancel, List.mem_filter] at hp
    exact h.unparked p hp.1

theorem setCtx_G (k : Nat) (dl : List Nat) (s : State) (id : Nat) (f : Ctx → Ctx) (h : G k dl s) : G k dl (setCtx s id f) :=
  G_of_eq k dl s _ h rfl rfl rfl (Nat.le_refl _)

theorem expire_G (k : Nat) (dl : List Nat) (s : State) (now : Nat) (h : G k dl s) : ∀ st ∈ expireOutcomes s now, G k dl st.1 := by
  unfold expireOutcomes
  have key : ∀ (l : List Survey) (acc : List (State × List (Nat × Ev))), (∀ st ∈ acc, G k dl st.1) →
      ∀ st ∈ l.foldl (fun (acc : List (State × List (Nat × Ev))) v =>
        let mayFire := v.expire != 0 && decide (v.tmin + v.expire ≤ now)
        let mustFire := v.expire != 0 && decide (v.tmax + v.expire + slack ≤ now)
        acc.flatMap (fun (st : State × List (Nat × Ev)) =>
          let fired := let r := cancel st.1 v.id "protostate"; (r.1, st.2 ++ r.2)
          if mustFire then [fired] else if mayFire then [st, fired] else [st])) acc, G k dl st.1 := by
    intro l
    induction l with
    | nil => intro acc hacc st hst; exact hacc st hst
    | cons v vs ih =>
      intro acc hacc
      simp only [List.foldl_cons]
      apply ih
      intro st hst
      simp only [List.mem_flatMap] at hst
      obtain ⟨st0, hst0, hst⟩ := hst
      have h0 := hacc st0 hst0
      split at hst
      · simp at hst; subst hst; exact (cancel_G k dl st0.1 v.id "protostate" h0)
      · split at hst
        · simp at hst
          rcases hst with rfl | rfl
          · exact h0
          · exact (cancel_G k dl st0.1 v.id "protostate" h0)
        · simp at hst; subst hst; exact h0
  exact key s.surveys [(s, [])] (by intro st hst; simp at hst; subst hst; exact h)

theorem filter_append_ne (l : List Nat) (k x : Nat) (h : x ≠ k) : (l ++ [x]).filter (· == k) = l.filter (· == k) := by
  rw [List.filter_append]
  have : ([x] : List Nat).filter (· == k) = [] := by simp [h]
  rw [this, List.append_nil]

theorem core_G (k : Nat) (dl : List Nat) (s : State) (now : Nat) (op : List String) (h : G k dl s) : ∀ r ∈ core s now op, G k dl r.1 := by
  intro r hr
  unfold core at hr
  split at hr
  · split at hr <;> simp at hr <;> subst hr
    · exact h
    · exact G_of_eq k dl s _ h rfl rfl rfl (Nat.le_refl _)
  · simp at hr; subst hr; exact G_of_eq k dl s _ h rfl rfl rfl (Nat.le_refl _)
  · -- inject
    try simp only [] at hr
    split at hr
    · simp at hr; subst hr; exact h
    · split at hr
      · simp at hr; subst hr; exact h
      · rename_i v hfind
        have hvmem : v ∈ s.surveys := List.mem_of_find?_eq_some hfind
        try simp only [] at hr
        split at hr
        · rename_i call ctx sid hp
          simp at hr; subst hr
          have hpm := List.mem_of_find?_eq_some hp
          have hsid : sid ≠ k := h.unparked _ hpm
          refine ⟨h.le, h.unreg, ?_, ?_⟩
          · intro p hpp
            simp only [List.mem_filter] at hpp
            exact h.unparked p hpp.1
          · show (s.deliveredFor ++ [sid]).filter (· == k) = dl
            rw [filter_append_ne _ _ _ hsid]; exact h.log
        · split at hr
          · simp at hr; subst hr
            refine ⟨h.le, ?_, h.unparked, h.log⟩
            intro w hw
            simp only [List.mem_map] at hw
            obtain ⟨w0, hw0, rfl⟩ := hw
            split
            · exact h.unreg w0 hw0
            · exact h.unreg w0 hw0
          · simp at hr; subst hr; exact h
  · -- send
    try simp only [] at hr
    split at hr
    · simp at hr
    · split at hr
      · simp at hr; subst hr; exact G_of_eq k dl s _ h rfl rfl rfl (Nat.le_succ _)
      · rename_i c _ _
        have hs0 : G k dl { s with nsent := s.nsent + 1 } := G_of_eq k dl s _ h rfl rfl rfl (Nat.le_succ _)
        have hs1 : G k dl (match c.surv with
            | some old => cancel { s with nsent := s.nsent + 1 } old "canceled"
            | none => ({ s with nsent := s.nsent + 1 }, [])).1 := by
          split
          · exact cancel_G k dl _ _ _ hs0
          · exact hs0
        try simp only [] at hr
        simp at hr; subst hr
        refine ⟨hs1.le, ?_, hs1.unparked, hs1.log⟩
        intro v hv
        simp only [setCtx, List.mem_append, List.mem_singleton] at hv
        rcases hv with hv | rfl
        · exact hs1.unreg v hv
        · have := h.le
          show s.nsent + 1 ≠ k
          omega
  · -- recv
    try simp only [] at hr
    split at hr
    · simp at hr; subst hr; exact h
    · split at hr
      · simp at hr
      · split at hr
        · simp at hr; subst hr; exact h
        · split at hr
          · simp at hr; subst hr; exact h
          · rename_i _ sid _ _ v hget
            obtain ⟨hvmem, hvid⟩ := getSurvey_spec s sid v hget
            have hsid : sid ≠ k := by rw [← hvid]; exact h.unreg v hvmem
            split at hr
            · simp at hr; subst hr
              refine ⟨h.le, ?_, h.unparked, ?_⟩
              · intro w hw
                simp only [List.mem_map] at hw
                obtain ⟨w0, hw0, rfl⟩ := hw
                split
                · exact h.unreg w0 hw0
                · exact h.unreg w0 hw0
              · show (s.deliveredFor ++ [sid]).filter (· == k) = dl
                rw [filter_append_ne _ _ _ hsid]; exact h.log
            · simp at hr; subst hr
              refine ⟨h.le, h.unreg, ?_, h.log⟩
              intro p hp
              simp only [List.mem_append, List.mem_singleton] at hp
              rcases hp with hp | rfl
              · exact h.unparked p hp
              · exact hsid
  · simp at hr; subst hr; exact G_of_eq k dl s _ h rfl rfl rfl (Nat.le_refl _)
  · simp at hr; subst hr; exact G_of_eq k dl s _ h rfl rfl rfl (Nat.le_refl _)
  · simp at hr; subst hr; exact G_of_eq k dl s _ h rfl rfl rfl (Nat.le_refl _)
  · simp at hr; subst hr; exact G_of_eq k dl s _ h rfl rfl rfl (Nat.le_refl _)
  · split at hr
    · simp at hr
    · try simp only [] at hr
      simp at hr; subst hr; exact G_of_eq k dl s _ h rfl rfl rfl (Nat.le_refl _)
  · simp at hr; subst hr; exact G_of_eq k dl s _ h rfl rfl rfl (Nat.le_refl _)
  · split at hr
    · simp at hr; subst hr; exact h
    · split at hr
      · simp at hr
      · simp at hr; subst hr; exact G_of_eq k dl s _ h rfl rfl rfl (Nat.le_refl _)
  · -- closectx
    split at hr
    · simp at hr
    · rename_i c _
      split at hr
      · simp at hr; subst hr; exact h
      · try simp only [] at hr
        simp at hr; subst hr
        have h1 : G k dl { s with parked := s.parked.filter (fun p => p.2.1 != c.id) } :=
          ⟨h.le, h.unreg, fun p hp => h.unparked p (List.mem_filter.mp hp).1, h.log⟩
        apply setCtx_G
        split
        · exact cancel_G k dl _ _ _ h1
        · exact h1
  · simp at hr; subst hr; exact h
  · split at hr
    · simp at hr; subst hr; exact h
    · try simp only [] at hr
      simp at hr; subst hr
      exact ⟨h.le, by intro v hv; simp at hv, by intro p hp; simp at hp, h.log⟩
  · simp at hr

theorem step_G (k : Nat) (dl : List Nat) (s : State) (op : List String) (h : G k dl s) : ∀ o ∈ step s op, G k dl o.1 := by
  intro o ho
  simp only [step, List.mem_flatMap, List.mem_map] at ho
  obtain ⟨st, hst, r, hr, r2, hr2, rfl⟩ := ho
  exact expire_G k dl { r.1 with tprev := opTime op } _
    (G_of_eq k dl r.1 _ (core_G k dl st.1 _ _ (expire_G k dl s _ h st hst) r hr) rfl rfl rfl (Nat.le_refl _)) r2 hr2

/-- the histories that continue from state s -/
inductive ReachFrom (s : State) : State → Prop
  | refl : ReachFrom s s
  | step (t : State) (op : List String) (o : State × List Ev) : ReachFrom s t → o ∈ step t op → ReachFrom s o.1

/-- over every continuation: once survey number k is no longer registered (it expired, a newer survey replaced it, its
    context or the socket was closed) and no Recv is blocked on it, nothing is ever delivered for it again — however
    late its responses arrive, whatever else is started -/
theorem gone_survey_never_delivers (s : State) (k : Nat) (hle : k ≤ s.nsent) (hunreg : ∀ v ∈ s.surveys, v.id ≠ k)
    (hunparked : ∀ p ∈ s.parked, p.2.2 ≠ k) : ∀ t, ReachFrom s t → forSurvey k t = forSurvey k s := by
  intro t ht
  have : G k (forSurvey k s) t := by
    induction ht with
    | refl => exact ⟨hle, hunreg, hunparked, rfl⟩
    | step t op o _ ho ih => exact step_G k _ t op ih o ho
  exact this.log

/-- cancel (expiry, replacement by a new survey, closing the context) puts survey `id` into that condition -/
theorem cancel_makes_gone (s : State) (id : Nat) (e : String) :
    (∀ v ∈ (cancel s id e).1.surveys, v.id ≠ id) ∧ (∀ p ∈ (cancel s id e).1.parked, p.2.2 ≠ id) := by
  constructor
  · intro v hv
    simp only [cancel, List.mem_filter] at hv
    simpa using hv.2
  · intro p hp
    simp only [cancel, List.mem_filter] at hp
    simpa using hp.2

/-! ### the ghost list names the surveys of the delivered responses -/

def Tied (s : State) : Prop := s.delivered.map (·.2.2) = s.deliveredFor.map enc

theorem tied_of_eq (s s' : State) (h : Tied s) (h1 : s'.delivered = s.delivered) (h2 : s'.deliveredFor = s.deliveredFor) : Tied s' := by
  unfold Tied; rw [h1, h2]; exact h

theorem cancel_tied (s : State) (id : Nat) (e : String) (h : Tied s) : Tied (cancel s id e).1 := tied_of_eq s _ h rfl rfl

theorem setCtx_tied (s : State) (id : Nat) (f : Ctx → Ctx) (h : Tied s) : Tied (setCtx s id f) := tied_of_eq s _ h rfl rfl

theorem expire_tied (s : State) (now : Nat) (h : Tied s) : ∀ st ∈ expireOutcomes s now, Tied st.1 := by
  unfold expireOutcomes
  have key : ∀ (l : List Survey) (acc : List (State × List (Nat × Ev))), (∀ st ∈ acc, Tied st.1) →
      ∀ st ∈ l.foldl (fun (acc : List (State × List (Nat × Ev))) v =>
        let mayFire := v.expire != 0 && decide (v.tmin + v.expire ≤ now)
        let mustFire := v.expire != 0 && decide (v.tmax + v.expire + slack ≤ now)
        acc.flatMap (fun (st : State × List (Nat × Ev)) =>
          let fired := let r := cancel st.1 v.id "protostate"; (r.1, st.2 ++ r.2)
          if mustFire then [fired] else if mayFire then [st, fired] else [st])) acc, Tied st.1 := by
    intro l
    induction l with
    | nil => intro acc hacc st hst; exact hacc st hst
    | cons v vs ih =>
      intro acc hacc
      simp only [List.foldl_cons]
      apply ih
      intro st hst
      simp only [List.mem_flatMap] at hst
      obtain ⟨st0, hst0, hst⟩ := hst
      have h0 := hacc st0 hst0
      split at hst
      · simp at hst; subst hst; exact (cancel_tied st0.1 v.id "protostate" h0)
      · split at hst
        · simp at hst
          rcases hst with rfl | rfl
          · exact h0
          · exact (cancel_tied st0.1 v.id "protostate" h0)
        · simp at hst; subst hst; exact h0
  exact key s.surveys [(s, [])] (by intro st hst; simp at hst; subst hst; exact h)

theorem core_tied (s : State) (now : Nat) (op : List String) (h : Tied s) : ∀ r ∈ core s now op, Tied r.1 := by
  intro r hr
  unfold core at hr
  split at hr
  · split at hr <;> simp at hr <;> subst hr
    · exact h
    · exact tied_of_eq s _ h rfl rfl
  · simp at hr; subst hr; exact tied_of_eq s _ h rfl rfl
  · -- inject
    try simp only [] at hr
    split at hr
    · simp at hr; subst hr; exact h
    · split at hr
      · simp at hr; subst hr; exact h
      · try simp only [] at hr
        split at hr
        · simp at hr; subst hr
          unfold Tied at h ⊢
          simp only [List.map_append, List.map_cons, List.map_nil, h]
        · split at hr
          · simp at hr; subst hr; exact tied_of_eq s _ h rfl rfl
          · simp at hr; subst hr; exact h
  · -- send
    try simp only [] at hr
    split at hr
    · simp at hr
    · split at hr
      · simp at hr; subst hr; exact tied_of_eq s _ h rfl rfl
      · rename_i c _ _
        have hs1 : Tied (match c.surv with
            | some old => cancel { s with nsent := s.nsent + 1 } old "canceled"
            | none => ({ s with nsent := s.nsent + 1 }, [])).1 := by
          split
          · exact cancel_tied _ _ _ (tied_of_eq s _ h rfl rfl)
          · exact tied_of_eq s _ h rfl rfl
        try simp only [] at hr
        simp at hr; subst hr
        exact tied_of_eq _ _ hs1 rfl rfl
  · -- recv
    try simp only [] at hr
    split at hr
    · simp at hr; subst hr; exact h
    · split at hr
      · simp at hr
      · split at hr
        · simp at hr; subst hr; exact h
        · split at hr
          · simp at hr; subst hr; exact h
          · split at hr
            · simp at hr; subst hr
              unfold Tied at h ⊢
              simp only [List.map_append, List.map_cons, List.map_nil, h]
            · simp at hr; subst hr; exact tied_of_eq s _ h rfl rfl
  · simp at hr; subst hr; exact tied_of_eq s _ h rfl rfl
  · simp at hr; subst hr; exact tied_of_eq s _ h rfl rfl
  · simp at hr; subst hr; exact tied_of_eq s _ h rfl rfl
  · simp at hr; subst hr; exact tied_of_eq s _ h rfl rfl
  · split at hr
    · simp at hr
    · try simp only [] at hr
      simp at hr; subst hr; exact tied_of_eq s _ h rfl rfl
  · simp at hr; subst hr; exact tied_of_eq s _ h rfl rfl
  · split at hr
    · simp at hr; subst hr; exact h
    · split at hr
      · simp at hr
      · simp at hr; subst hr; exact tied_of_eq s _ h rfl rfl
  · -- closectx
    split at hr
    · simp at hr
    · split at hr
      · simp at hr; subst hr; exact h
      · try simp only [] at hr
        simp at hr; subst hr
        apply setCtx_tied
        split
        · exact cancel_tied _ _ _ (tied_of_eq s _ h rfl rfl)
        · exact tied_of_eq s _ h rfl rfl
  · simp at hr; subst hr; exact h
  · split at hr
    · simp at hr; subst hr; exact h
    · try simp only [] at hr
      simp at hr; subst hr
      exact tied_of_eq s _ h rfl rfl
  · simp at hr

/-- in every reachable state the ghost list `deliveredFor` names, entry by entry, the survey whose 32-bit id the
    delivered response was checked against (`delivered`, the list `recv_only_current` is about) -/
theorem reach_tied (s : State) (h : Reach s) : Tied s := by
  induction h with
  | init => simp [Tied, init]
  | step s op o _ ho ih =>
    simp only [step, List.mem_flatMap, List.mem_map] at ho
    obtain ⟨st, hst, r, hr, r2, hr2, rfl⟩ := ho
    exact expire_tied { r.1 with tprev := opTime op } _ (tied_of_eq r.1 _ (core_tied st.1 _ _ (expire_tied s _ ih st hst) r hr) rfl rfl) r2 hr2

end Surveyor
end Proto
end Model
