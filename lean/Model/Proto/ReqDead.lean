/-
  Model/Proto/ReqDead.lean — REQ: once answered, cancelled or closed a request is never transmitted again.
  For a request number k that no context is still working on (no context has it as its current number without a stored
  reply), invariant D k tl says that this stays so and that the transmissions logged under k are exactly the list tl:
  whatever operations, timers, pipe losses and late replies follow, nothing is added to them.
-/
import Model.Proto.ReqTx
namespace Model
namespace Proto
namespace Req

/-- the logged transmissions under request number k -/
def txOf (k : Nat) (s : State) : List (Nat × Nat × Bytes) := s.txlog.filter (fun e => e.2.1 == k)

structure D (k : Nat) (tl : List (Nat × Nat × Bytes)) (s : State) : Prop where
  nz : k ≠ 0
  le : k ≤ s.nsent
  dead : ∀ d x, getCtx s d = some x → x.reqID = k → x.repMsg.isSome = true
  log : txOf k s = tl

theorem D_same (k : Nat) (tl : List (Nat × Nat × Bytes)) (s s' : State) (h : D k tl s) (hc : s'.ctxs = s.ctxs)
    (ht : s'.txlog = s.txlog) (hn : s.nsent ≤ s'.nsent) : D k tl s' := by
  have hg : ∀ d, getCtx s' d = getCtx s d := fun d => by unfold getCtx; rw [hc]
  refine ⟨h.nz, Nat.le_trans h.le hn, ?_, ?_⟩
  · intro d x hx; exact h.dead d x (by rw [← hg]; exact hx)
  · unfold txOf; rw [ht]; exact h.log

/-- an update of context c whose result, if it carries number k, has a stored reply -/
theorem setCtx_D (k : Nat) (tl : List (Nat × Nat × Bytes)) (s : State) (c : Nat) (f : Ctx → Ctx) (hid : ∀ y, (f y).id = y.id)
    (hf : ∀ y, getCtx s c = some y → (f y).reqID = k → (f y).repMsg.isSome = true) (h : D k tl s) : D k tl (setCtx s c f) := by
  refine ⟨h.nz, h.le, ?_, h.log⟩
  intro d x' hx' hk
  by_cases hdc : d = c
  · subst hdc
    cases hg : getCtx s d with
    | none =>
      rw [getCtx_setCtx_none s d f hid hg d, hg] at hx'; cases hx'
    | some y =>
      rw [getCtx_setCtx_eq s d f hid y hg] at hx'; cases hx'
      exact hf y hg hk
  · rw [getCtx_setCtx_ne s c d f hid hdc] at hx'
    exact h.dead d x' hx' hk

theorem cancelSend_D (k : Nat) (tl : List (Nat × Nat × Bytes)) (s : State) (c : Nat) (h : D k tl s) : D k tl (cancelSend s c) := by
  unfold cancelSend
  have h1 : D k tl { s with sendQ := s.sendQ.filter (· != c) } := D_same k tl s _ h rfl rfl (Nat.le_refl _)
  exact setCtx_D k tl _ c _ (fun y => rfl) (fun y hy hk => h1.dead c y hy hk) h1

theorem cancel_D (k : Nat) (tl : List (Nat × Nat × Bytes)) (s : State) (c : Nat) (h : D k tl s) : D k tl (cancel s c) := by
  unfold cancel
  simp only []
  have h1 := cancelSend_D k tl s c h
  split
  · exact h1
  · rename_i x hx
    have h2 : D k tl { cancelSend s c with ctxByID := (cancelSend s c).ctxByID.filter (fun e => !(e.1 == x.reqID && x.reqID != 0) && e.2 != c) } :=
      D_same k tl _ _ h1 rfl rfl (Nat.le_refl _)
    exact setCtx_D k tl _ c _ (fun y => rfl) (fun y _ hk => absurd hk.symm h.nz) h2

theorem wakeSends_D (k : Nat) (tl : List (Nat × Nat × Bytes)) (s : State) (c : Nat) (x : Ctx) (h : D k tl s) : D k tl (wakeSends s c x).1 := by
  simp only [wakeSends]
  have h1 : D k tl { s with parkedSend := s.parkedSend.filter (fun p => !((s.parkedSend.filter (fun p => p.ctx == c &&
      (!(x.sendMsg.isSome && x.sendFor == p.rid) || p.expired || x.closed || (x.failNoPeers && s.pipes.isEmpty) || x.sendAbort))).any (fun q => q.call == p.call))) } :=
    D_same k tl s _ h rfl rfl (Nat.le_refl _)
  split
  · have h2 := cancelSend_D k tl _ c h1
    have h3 : D k tl { (cancelSend { s with parkedSend := s.parkedSend.filter (fun p => !((s.parkedSend.filter (fun p => p.ctx == c &&
        (!(x.sendMsg.isSome && x.sendFor == p.rid) || p.expired || x.closed || (x.failNoPeers && s.pipes.isEmpty) || x.sendAbort))).any (fun q => q.call == p.call))) } c) with
        ctxByID := s.ctxByID.filter (fun e => e.2 != c) } := D_same k tl _ _ h2 rfl rfl (Nat.le_refl _)
    exact setCtx_D k tl _ c _ (fun y => rfl) (fun y _ hk => absurd hk.symm h.nz) h3
  · exact h1

theorem wakeRecv_D (k : Nat) (tl : List (Nat × Nat × Bytes)) (s : State) (c : Nat) (np : Bool) (evs : List (Nat × Ev)) (h : D k tl s) :
    D k tl (wakeRecv s c np evs).1 := by
  unfold wakeRecv
  split
  · exact h
  · rename_i pr _
    split
    · exact h
    · rename_i y hy
      split
      · exact h
      · simp only []
        have h3 : ∀ (dl : List (Nat × Nat × Nat)) (reg : List (Nat × Nat)) (df : List Nat),
            D k tl { s with parkedRecv := s.parkedRecv.filter (fun p => p.call != pr.call), delivered := dl, ctxByID := reg, deliveredFor := df } :=
          fun dl reg df => D_same k tl s _ h rfl rfl (Nat.le_refl _)
        split
        · exact setCtx_D k tl _ c _ (fun y => rfl) (fun y hy hk => (h3 _ _ _).dead c y hy hk) (h3 _ _ _)
        · split
          · exact setCtx_D k tl _ c _ (fun y => rfl) (fun y _ hk => absurd hk.symm h.nz) (h3 _ _ _)
          · exact h3 _ _ _

theorem wake_D (k : Nat) (tl : List (Nat × Nat × Bytes)) (s : State) (c : Nat) (h : D k tl s) : D k tl (wake s c).1 := by
  unfold wake
  split
  · exact h
  · exact wakeRecv_D k tl _ c _ _ (wakeSends_D k tl s c _ h)

theorem ite_wake_D (k : Nat) (tl : List (Nat × Nat × Bytes)) (b : Bool) (s2 : State) (c : Nat) (h : D k tl s2) :
    D k tl (if b = true then wake s2 c else (s2, [])).1 := by
  cases b
  · exact h
  · exact wake_D k tl s2 c h

theorem pumpTail_D (k : Nat) (tl : List (Nat × Nat × Bytes)) (r3 : State × List (Nat × Ev)) (hold : Bool) (p : Nat) (f : Pipe → Pipe) (ev : List (Nat × Ev))
    (h : D k tl r3.1) :
    D k tl (if hold = true then (setPipe r3.1 p f, r3.2) else ({ r3.1 with readyQ := r3.1.readyQ ++ [p] }, r3.2 ++ ev)).1 := by
  cases hold
  · exact D_same k tl _ _ h rfl rfl (Nat.le_refl _)
  · exact D_same k tl _ _ h rfl rfl (Nat.le_refl _)

/-- the scheduler transmits only for contexts that are still working on their request: never under k -/
theorem pumpStep_D (k : Nat) (tl : List (Nat × Nat × Bytes)) (arm : Nat × Nat) (s : State) (c p : Nat) (sq rq : List Nat) (x : Ctx) (pp : Pipe)
    (hs : s.sendQ = c :: sq) (hx : getCtx s c = some x) (hT : T s) (h : D k tl s) : D k tl (pumpStep arm s c p sq rq x pp).1 := by
  obtain ⟨x0, hx0, _, hrep, _⟩ := hT.queued c (by rw [hs]; simp)
  rw [hx] at hx0; cases hx0
  have hne : x.reqID ≠ k := by
    intro e
    have := h.dead c x hx e
    rw [hrep] at this; cases this
  have h1 : D k tl { s with sendQ := sq, readyQ := rq, ctxByID := if x.sendMsg.isSome then s.ctxByID.filter (fun e => e.2 != c) ++ [(x.reqID, c)] else s.ctxByID, txlog := s.txlog ++ [(p, x.reqID, (x.sendMsg.orElse (fun _ => x.reqMsg)).getD [])] } := by
    refine ⟨h.nz, h.le, h.dead, ?_⟩
    show (s.txlog ++ [(p, x.reqID, (x.sendMsg.orElse (fun _ => x.reqMsg)).getD [])]).filter (fun e => e.2.1 == k) = tl
    rw [List.filter_append]
    have : ([(p, x.reqID, (x.sendMsg.orElse (fun _ => x.reqMsg)).getD [])] : List (Nat × Nat × Bytes)).filter (fun e => e.2.1 == k) = [] := by
      simp [hne]
    rw [this, List.append_nil]
    exact h.log
  have h2 := setCtx_D k tl _ c (fun y => { y with queued := false, reqMsg := some ((x.sendMsg.orElse (fun _ => x.reqMsg)).getD []), sendMsg := none, lastPipe := some p, timer := if y.resendTime > 0 then some { id := y.reqID, tmin := arm.1, tmax := arm.2, period := y.resendTime } else y.timer })
    (fun y => rfl) (fun y hy hk => h1.dead c y hy hk) h1
  unfold pumpStep
  exact pumpTail_D k tl _ _ _ _ _ (ite_wake_D k tl _ _ _ h2)

theorem pump_D (k : Nat) (tl : List (Nat × Nat × Bytes)) : ∀ (fuel : Nat) (arm : Nat × Nat) (s : State), T s → D k tl s → D k tl (pump fuel arm s).1 := by
  intro fuel
  induction fuel with
  | zero => intro arm s _ h; exact h
  | succ n ih =>
    intro arm s hT h
    simp only [pump]
    split
    · rename_i c sq p rq hsq hrq
      split
      · rename_i x pp hx hp
        exact ih arm _ (pumpStep_T arm s c p sq rq x pp hsq hx hT) (pumpStep_D k tl arm s c p sq rq x pp hsq hx hT h)
      · exact D_same k tl s _ h rfl rfl (Nat.le_refl _)
    · exact h

/-- both invariants together -/
def TD (k : Nat) (tl : List (Nat × Nat × Bytes)) (s : State) : Prop := T s ∧ D k tl s

theorem resend_TD (k : Nat) (tl : List (Nat × Nat × Bytes)) (s : State) (arm : Nat × Nat) (c id : Nat) (h : TD k tl s) :
    TD k tl (resend s arm c id).1 := by
  refine ⟨resend_T s arm c id h.1, ?_⟩
  obtain ⟨hT, hD⟩ := h
  unfold resend
  split
  · exact hD
  · rename_i x hx
    split
    · rename_i hc
      simp only [Bool.and_eq_true] at hc
      have hcx := hT.ctx c x hx
      have hrep : x.repMsg = none := by
        cases hr : x.repMsg with
        | none => rfl
        | some r =>
          have := hcx.replied (by rw [hr]; rfl)
          rw [this] at hc; exact absurd hc.1.2 (by simp)
      have hT1 := T_enqueue s c x hx (hcx.named hc.1.2) hrep (Or.inr hc.1.2) hT
      have hD1 : D k tl { s with sendQ := s.sendQ ++ [c] } := D_same k tl s _ hD rfl rfl (Nat.le_refl _)
      apply pump_D k tl
      · exact setCtx_T _ c (fun y => { y with queued := true }) (fun y => ⟨rfl, rfl, rfl, rfl, rfl⟩) hT1
      · exact setCtx_D k tl _ c _ (fun y => rfl) (fun y hy hk => hD1.dead c y hy hk) hD1
    · exact hD

theorem readyVariants_D (k : Nat) (tl : List (Nat × Nat × Bytes)) (st : State × List (Nat × Ev)) (h : D k tl st.1) : ∀ r ∈ readyVariants st, D k tl r.1 := by
  intro r hr
  unfold readyVariants at hr
  simp only [] at hr
  split at hr
  · simp at hr; subst hr; exact h
  · simp only [List.mem_map] at hr
    obtain ⟨m, _, rfl⟩ := hr
    exact D_same k tl st.1 _ h rfl rfl (Nat.le_refl _)

theorem readyVariants_TD (k : Nat) (tl : List (Nat × Nat × Bytes)) (st : State × List (Nat × Ev)) (h : TD k tl st.1) : ∀ r ∈ readyVariants st, TD k tl r.1 :=
  fun r hr => ⟨readyVariants_T st h.1 r hr, readyVariants_D k tl st h.2 r hr⟩

theorem timerRound_TD (k : Nat) (tl : List (Nat × Nat × Bytes)) (now : Nat) (acc0 : List (State × List (Nat × Ev))) (ids : List Nat) (h : ∀ st ∈ acc0, TD k tl st.1) :
    ∀ st ∈ timerRound now acc0 ids, TD k tl st.1 := by
  unfold timerRound
  apply foldl_flatMap_all (fun st : State × List (Nat × Ev) => TD k tl st.1) _ _ ids acc0 h
  intro cid st hst r hr
  split at hr
  · simp at hr; subst hr; exact hst
  · rename_i c _
    split at hr
    · simp at hr; subst hr; exact hst
    · rename_i t _
      have hf : TD k tl (resend (setCtx st.1 c.id (fun y => { y with timer := none })) (t.tmin + t.period, now) c.id t.id).1 :=
        resend_TD k tl _ _ _ _ ⟨setCtx_T _ _ _ (fun y => ⟨rfl, rfl, rfl, rfl, rfl⟩) hst.1,
          setCtx_D k tl _ _ _ (fun y => rfl) (fun y hy hk => hst.2.dead _ y hy hk) hst.2⟩
      simp only [] at hr
      split at hr
      · refine readyVariants_TD k tl _ ?_ r hr; exact hf
      · split at hr
        · rw [List.mem_cons] at hr
          rcases hr with rfl | hr
          · exact hst
          · refine readyVariants_TD k tl _ ?_ r hr; exact hf
        · simp at hr; subst hr; exact hst

theorem deadlineFired_D (k : Nat) (tl : List (Nat × Nat × Bytes)) (st : State × List (Nat × Ev)) (isRecv : Bool) (p : Parked) (h : D k tl st.1) :
    D k tl (deadlineFired st isRecv p).1 := by
  unfold deadlineFired
  cases isRecv
  · simp only [Bool.false_eq_true, if_false]
    split
    · exact h
    · have hm : ∀ still : Bool, D k tl { st.1 with parkedSend := st.1.parkedSend.map (fun q => if q.call == p.call then { q with expired := still, deadline := none } else q) } :=
        fun still => D_same k tl st.1 _ h rfl rfl (Nat.le_refl _)
      split
      · exact wake_D k tl _ _ (cancel_D k tl _ _ (hm _))
      · exact hm _
  · simp only [if_true]
    split
    · exact h
    · have hm : ∀ still : Bool, D k tl { st.1 with parkedRecv := st.1.parkedRecv.map (fun q => if q.call == p.call then { q with expired := still, deadline := none } else q) } :=
        fun still => D_same k tl st.1 _ h rfl rfl (Nat.le_refl _)
      split
      · exact wake_D k tl _ _ (cancel_D k tl _ _ (hm _))
      · exact hm _

theorem deadlineFired_TD (k : Nat) (tl : List (Nat × Nat × Bytes)) (st : State × List (Nat × Ev)) (isRecv : Bool) (p : Parked) (h : TD k tl st.1) :
    TD k tl (deadlineFired st isRecv p).1 := ⟨deadlineFired_T st isRecv p h.1, deadlineFired_D k tl st isRecv p h.2⟩

theorem expireSends_TD (k : Nat) (tl : List (Nat × Nat × Bytes)) (now : Nat) (s : State) (c : Nat) (h : TD k tl s) : TD k tl (expireSends now s c) :=
  ⟨expireSends_T now s c h.1, D_same k tl s _ h.2 rfl rfl (Nat.le_refl _)⟩

theorem deadlineFire_TD (k : Nat) (tl : List (Nat × Nat × Bytes)) (now : Nat) (st : State × List (Nat × Ev)) (isRecv : Bool) (p : Parked) (t : Timer) (h : TD k tl st.1) :
    ∀ r ∈ deadlineFire now st isRecv p t, TD k tl r.1 := by
  intro r hr
  have hE : TD k tl (expireSends now st.1 p.ctx) := expireSends_TD k tl now st.1 p.ctx h
  have hfired : ∀ r ∈ (if (isRecv && recvStill st.1 p && expireSends now st.1 p.ctx != st.1) = true
      then [deadlineFired st isRecv p, deadlineFired (expireSends now st.1 p.ctx, st.2) isRecv p]
      else [deadlineFired st isRecv p]), TD k tl r.1 := by
    intro r hr
    split at hr
    · simp at hr
      rcases hr with rfl | rfl
      · exact deadlineFired_TD k tl st isRecv p h
      · exact deadlineFired_TD k tl (_, _) isRecv p hE
    · simp at hr; subst hr; exact deadlineFired_TD k tl st isRecv p h
  unfold deadlineFire at hr
  simp only [] at hr
  split at hr
  · exact hfired r hr
  · split at hr
    · rw [List.mem_cons] at hr
      rcases hr with rfl | hr
      · exact h
      · exact hfired r hr
    · simp at hr; subst hr; exact h

theorem deadlineRound_TD (k : Nat) (tl : List (Nat × Nat × Bytes)) (now : Nat) (acc0 : List (State × List (Nat × Ev))) (calls : List Nat) (h : ∀ st ∈ acc0, TD k tl st.1) :
    ∀ st ∈ deadlineRound now acc0 calls, TD k tl st.1 := by
  unfold deadlineRound
  apply foldl_flatMap_all (fun st : State × List (Nat × Ev) => TD k tl st.1) _ _ calls acc0 h
  intro call st hst r hr
  split at hr
  · split at hr
    · exact deadlineFire_TD k tl now st true _ _ hst r hr
    · simp at hr; subst hr; exact hst
  · split at hr
    · exact deadlineFire_TD k tl now st false _ _ hst r hr
    · simp at hr; subst hr; exact hst
  · simp at hr; subst hr; exact hst

theorem timerOutcomes_TD (k : Nat) (tl : List (Nat × Nat × Bytes)) (s : State) (now : Nat) (h : TD k tl s) : ∀ st ∈ timerOutcomes s now, TD k tl st.1 := by
  intro st hst
  unfold timerOutcomes at hst
  simp only [] at hst
  have h0 : ∀ st ∈ dedup (deadlineRound now [(s, [])] (s.parkedRecv.map (·.call) ++ s.parkedSend.map (·.call))), TD k tl st.1 :=
    fun st hst => deadlineRound_TD k tl now _ _ (by intro b hb; simp at hb; subst hb; exact h) st (mem_dedup _ st hst)
  have h1 := fun st hst => timerRound_TD k tl now _ (s.ctxs.map (·.id)) h0 st (mem_dedup _ st hst)
  have h2 := fun st hst => timerRound_TD k tl now _ (s.ctxs.map (·.id)) h1 st (mem_dedup _ st hst)
  have h3 := fun st hst => timerRound_TD k tl now _ (s.ctxs.map (·.id)) h2 st (mem_dedup _ st hst)
  have h4 := fun st hst => timerRound_TD k tl now _ (s.ctxs.map (·.id)) h3 st (mem_dedup _ st hst)
  exact h4 st (List.mem_of_mem_take hst)

theorem dropOne_D (k : Nat) (tl : List (Nat × Nat × Bytes)) (p : Nat) (acc : State × List (Nat × Ev) × List (Nat × Nat)) (c0 : Ctx) (h : D k tl acc.1) : D k tl (dropOne p acc c0).1 := by
  unfold dropOne
  split
  · exact h
  · rename_i c _
    split
    · exact wake_D k tl _ _ (cancel_D k tl _ _ h)
    · split
      · have h2 := setCtx_D k tl acc.1 c.id (fun y => { y with lastPipe := none }) (fun y => rfl) (fun y hy hk => h.dead _ y hy hk) h
        split
        · exact wake_D k tl _ _ (cancel_D k tl _ _ h2)
        · exact cancelSend_D k tl _ _ h2
      · exact h

theorem dropOne_TD (k : Nat) (tl : List (Nat × Nat × Bytes)) (p : Nat) (acc : State × List (Nat × Ev) × List (Nat × Nat)) (c0 : Ctx) (h : TD k tl acc.1) : TD k tl (dropOne p acc c0).1 :=
  ⟨dropOne_T p acc c0 h.1, dropOne_D k tl p acc c0 h.2⟩

theorem dropResends_TD (k : Nat) (tl : List (Nat × Nat × Bytes)) (arm : Nat × Nat) (todo : List (Nat × Nat)) (start : State × List (Nat × Ev)) (order : List Nat)
    (h : TD k tl start.1) : TD k tl (dropResends arm todo start order).1 := by
  unfold dropResends
  apply foldl_K _ (fun acc : State × List (Nat × Ev) => TD k tl acc.1) _ order start h
  intro acc cid hacc
  split
  · exact hacc
  · exact resend_TD k tl _ _ _ _ hacc

theorem dropPipe_TD (k : Nat) (tl : List (Nat × Nat × Bytes)) (s : State) (arm : Nat × Nat) (p : Nat) (h : TD k tl s) : ∀ r ∈ dropPipe s arm p, TD k tl r.1 := by
  intro r hr
  unfold dropPipe at hr
  simp only [List.mem_flatMap] at hr
  obtain ⟨order, _, hr⟩ := hr
  refine readyVariants_TD k tl _ ?_ r hr
  apply dropResends_TD
  apply foldl_K (dropOne p) (fun acc : State × List (Nat × Ev) × List (Nat × Nat) => TD k tl acc.1) (fun b a hb => dropOne_TD k tl p b a hb)
  exact ⟨T_same s _ h.1 rfl rfl rfl rfl (fun q hq => hq), D_same k tl s _ h.2 rfl rfl (Nat.le_refl _)⟩

theorem closeOne_TD (k : Nat) (tl : List (Nat × Nat × Bytes)) (acc : State × List (Nat × Ev)) (c : Ctx) (h : TD k tl acc.1) : TD k tl (closeOne acc c).1 := by
  refine ⟨closeOne_T acc c h.1, ?_⟩
  unfold closeOne
  split
  · exact h.2
  · exact wake_D k tl _ _ (cancel_D k tl _ _ (setCtx_D k tl _ _ _ (fun y => rfl) (fun y hy hk => h.2.dead _ y hy hk) h.2))

theorem D_appendCtx (k : Nat) (tl : List (Nat × Nat × Bytes)) (s : State) (n : Ctx) (h0 : n.reqID = 0) (h : D k tl s) :
    D k tl { s with ctxs := s.ctxs ++ [n] } := by
  refine ⟨h.nz, h.le, ?_, h.log⟩
  intro d x hx hk
  rw [getCtx_append] at hx
  cases hg : getCtx s d with
  | some y =>
    rw [hg] at hx; simp at hx; subst hx
    exact h.dead d y hg hk
  | none =>
    rw [hg] at hx
    simp only [Option.none_or] at hx
    split at hx
    · cases hx; rw [h0] at hk; exact absurd hk.symm h.nz
    · cases hx

theorem core_D (k : Nat) (tl : List (Nat × Nat × Bytes)) (s : State) (now : Nat) (op : List String) (hT : T s) (h : D k tl s) :
    ∀ r ∈ core s now op, D k tl r.1 := by
  intro r hr
  unfold core at hr
  split at hr
  · -- addpipe
    split at hr
    · simp at hr; subst hr; exact h
    · simp at hr; subst hr
      exact pump_D k tl _ _ _ (T_same s _ hT rfl rfl rfl rfl (fun q hq => hq)) (D_same k tl s _ h rfl rfl (Nat.le_refl _))
  · -- rmpipe
    simp only [List.mem_map] at hr
    obtain ⟨r0, hr0, rfl⟩ := hr
    exact (dropPipe_TD k tl s _ _ ⟨hT, h⟩ r0 hr0).2
  · -- inject
    rename_i p b
    try simp only [] at hr
    split at hr
    · simp at hr; subst hr; exact h
    · split at hr
      · simp at hr; subst hr; exact h
      · try simp only [] at hr
        have h0 : ∀ q, D k tl ({ s with readyQ := q } : State) := fun q => D_same k tl s _ h rfl rfl (Nat.le_refl _)
        split at hr
        · simp at hr; subst hr; exact h0 _
        · rename_i rid c hfind
          simp at hr; subst hr
          apply wake_D
          have h1 := cancelSend_D k tl _ c (h0 (swapFront s.readyQ (natOf p)))
          exact setCtx_D k tl _ c _ (fun y => rfl) (fun y _ _ => rfl) (D_same k tl _ _ h1 rfl rfl (Nat.le_refl _))
  · -- send
    rename_i call ctx hd b
    simp only [] at hr
    split at hr
    · simp at hr
    · rename_i c hc
      have h0 : D k tl { s with nsent := s.nsent + 1, sent := s.sent ++ [(s.nsent + 1, bytesOf b)] } := D_same k tl s _ h rfl rfl (Nat.le_succ _)
      have hT0 : T { s with nsent := s.nsent + 1, sent := s.sent ++ [(s.nsent + 1, bytesOf b)] } := T_bump s (bytesOf b) hT
      split at hr
      · simp at hr; subst hr; exact h0
      · split at hr
        · simp at hr; subst hr; exact h0
        · split at hr
          · simp at hr
          have hcid : c.id = natOf ctx := getCtx_id s _ c hc
          have hc0 : getCtx s c.id = some c := by rw [hcid]; exact hc
          obtain ⟨y1, hy1, hrm, hrp⟩ := cancel_getCtx_cleared s c.id c hc0
          have hT2 : T (setCtx { (cancel { s with nsent := s.nsent + 1, sent := s.sent ++ [(s.nsent + 1, bytesOf b)] } c.id) with sendQ := (cancel { s with nsent := s.nsent + 1, sent := s.sent ++ [(s.nsent + 1, bytesOf b)] } c.id).sendQ ++ [c.id] } c.id (fun y => { y with reqID := s.nsent + 1, queued := true, sendMsg := some (bytesOf b), sendFor := s.nsent + 1, sendAbort := false })) := by
            rw [cancel_nsent_comm]
            have hse : (cancel s c.id).sent = s.sent := by
              unfold cancel cancelSend
              simp only []
              split <;> rfl
            have := send_T (cancel s c.id) c.id (s.nsent + 1) y1 (bytesOf b) (by rw [cancel_nsent]; omega) hy1 hrm hrp (cancel_T s c.id hT)
            rw [hse] at this
            exact this
          have h1 := cancel_D k tl _ c.id h0
          have h2 : D k tl (setCtx { (cancel { s with nsent := s.nsent + 1, sent := s.sent ++ [(s.nsent + 1, bytesOf b)] } c.id) with sendQ := (cancel { s with nsent := s.nsent + 1, sent := s.sent ++ [(s.nsent + 1, bytesOf b)] } c.id).sendQ ++ [c.id] } c.id (fun y => { y with reqID := s.nsent + 1, queued := true, sendMsg := some (bytesOf b), sendFor := s.nsent + 1, sendAbort := false })) := by
            refine setCtx_D k tl _ c.id _ (fun y => rfl) ?_ (D_same k tl _ _ h1 rfl rfl (Nat.le_refl _))
            intro y _ hk
            have hk' : s.nsent + 1 = k := hk
            have := h.le
            omega
          have hT3 := wake_T _ c.id hT2
          have h3 := wake_D k tl _ c.id h2
          have hTadd : ∀ (ps : List Parked), T { (wake (setCtx { (cancel { s with nsent := s.nsent + 1, sent := s.sent ++ [(s.nsent + 1, bytesOf b)] } c.id) with sendQ := (cancel { s with nsent := s.nsent + 1, sent := s.sent ++ [(s.nsent + 1, bytesOf b)] } c.id).sendQ ++ [c.id] } c.id (fun y => { y with reqID := s.nsent + 1, queued := true, sendMsg := some (bytesOf b), sendFor := s.nsent + 1, sendAbort := false })) c.id).1 with parkedSend := ps } :=
            fun ps => T_same _ _ hT3 rfl rfl rfl rfl (fun q hq => hq)
          have hadd : ∀ (ps : List Parked), D k tl { (wake (setCtx { (cancel { s with nsent := s.nsent + 1, sent := s.sent ++ [(s.nsent + 1, bytesOf b)] } c.id) with sendQ := (cancel { s with nsent := s.nsent + 1, sent := s.sent ++ [(s.nsent + 1, bytesOf b)] } c.id).sendQ ++ [c.id] } c.id (fun y => { y with reqID := s.nsent + 1, queued := true, sendMsg := some (bytesOf b), sendFor := s.nsent + 1, sendAbort := false })) c.id).1 with parkedSend := ps } :=
            fun ps => D_same k tl _ _ h3 rfl rfl (Nat.le_refl _)
          split at hr
          · simp at hr; subst hr
            refine D_same k tl (pump _ _ _).1 _ ?_ rfl rfl (Nat.le_refl _)
            exact pump_D k tl _ _ _ (hTadd _) (hadd _)
          · simp at hr; subst hr
            exact pump_D k tl _ _ _ (hTadd _) (hadd _)
  · -- recv
    rename_i call ctx
    simp only [] at hr
    split at hr
    · simp at hr
    · rename_i c hc
      split at hr
      · simp at hr; subst hr; exact h
      · split at hr
        · simp at hr; subst hr; exact h
        · split at hr
          · simp at hr; subst hr; exact h
          · split at hr
            · simp at hr
            simp at hr; subst hr
            apply wake_D
            have h1 : D k tl { s with parkedRecv := s.parkedRecv ++ [{ call := natOf call, ctx := c.id, rid := c.reqID, deadline := if c.recvExpire > 0 then some { id := c.reqID, tmin := s.tprev, tmax := now, period := c.recvExpire } else none }] } :=
              D_same k tl s _ h rfl rfl (Nat.le_refl _)
            exact setCtx_D k tl _ _ _ (fun y => rfl) (fun y hy hk => h1.dead _ y hy hk) h1
  · simp at hr; subst hr; exact setCtx_D k tl s _ _ (fun y => rfl) (fun y hy hk => h.dead _ y hy hk) h
  · simp at hr; subst hr; exact setCtx_D k tl s _ _ (fun y => rfl) (fun y hy hk => h.dead _ y hy hk) h
  · simp at hr; subst hr; exact setCtx_D k tl s _ _ (fun y => rfl) (fun y hy hk => h.dead _ y hy hk) h
  · simp at hr; subst hr; exact setCtx_D k tl s _ _ (fun y => rfl) (fun y hy hk => h.dead _ y hy hk) h
  · simp at hr; subst hr; exact setCtx_D k tl s _ _ (fun y => rfl) (fun y hy hk => h.dead _ y hy hk) h
  · simp at hr; subst hr; exact D_same k tl s _ h rfl rfl (Nat.le_refl _)
  · -- release ok
    split at hr
    · simp at hr
    · rename_i pp hpp
      split at hr
      · simp at hr
      · simp only [] at hr
        simp at hr; subst hr
        have hT1 : T (setPipe s pp.id (fun x => { x with inflight := none })) := T_same s _ hT rfl rfl rfl rfl (fun q hq => hq)
        have h1 : D k tl (setPipe s pp.id (fun x => { x with inflight := none })) := D_same k tl s _ h rfl rfl (Nat.le_refl _)
        apply pump_D k tl
        · split
          · exact hT1
          · exact T_same _ _ hT1 rfl rfl rfl rfl (fun q hq => hq)
        · split
          · exact h1
          · exact D_same k tl _ _ h1 rfl rfl (Nat.le_refl _)
  · -- release err
    simp only [List.mem_map] at hr
    obtain ⟨r0, hr0, rfl⟩ := hr
    exact (dropPipe_TD k tl s _ _ ⟨hT, h⟩ r0 hr0).2
  · -- openctx
    rename_i id
    split at hr
    · simp at hr; subst hr; exact h
    · split at hr
      · simp at hr
      · split at hr
        · simp at hr
        · simp at hr; subst hr
          exact D_appendCtx k tl s _ rfl h
  · -- closectx
    split at hr
    · simp at hr
    · rename_i c hc
      split at hr
      · simp at hr; subst hr; exact h
      · simp at hr; subst hr
        exact wake_D k tl _ _ (cancel_D k tl _ _ (setCtx_D k tl _ _ _ (fun y => rfl) (fun y hy hk => h.dead _ y hy hk) h))
  · simp at hr; subst hr; exact h
  · -- close
    split at hr
    · simp at hr; subst hr; exact h
    · simp at hr; subst hr
      exact (foldl_K closeOne (fun acc : State × List (Nat × Ev) => TD k tl acc.1) (fun b a hb => closeOne_TD k tl b a hb) s.ctxs _
        ⟨T_same s _ hT rfl rfl rfl rfl (fun q hq => hq), D_same k tl s _ h rfl rfl (Nat.le_refl _)⟩).2
  · simp at hr

theorem step_TD (k : Nat) (tl : List (Nat × Nat × Bytes)) (s : State) (op : List String) (h : TD k tl s) : ∀ o ∈ step s op, TD k tl o.1 := by
  intro o ho
  simp only [step, List.mem_flatMap, List.mem_map] at ho
  obtain ⟨st, hst, r, hr, r2, hr2, rfl⟩ := ho
  have h1 := timerOutcomes_TD k tl s _ h st hst
  have h2T := core_T st.1 _ _ h1.1 r hr
  have h2D := core_D k tl st.1 _ _ h1.1 h1.2 r hr
  exact timerOutcomes_TD k tl { r.1 with tprev := opTime op } _
    ⟨T_same r.1 _ h2T rfl rfl rfl rfl (fun q hq => hq), D_same k tl r.1 _ h2D rfl rfl (Nat.le_refl _)⟩ r2 hr2

/-- the histories that continue from state s -/
inductive ReachFrom (s : State) : State → Prop
  | refl : ReachFrom s s
  | step (t : State) (op : List String) (o : State × List Ev) : ReachFrom s t → o ∈ step t op → ReachFrom s o.1

theorem reachFrom_reach (s t : State) (hs : Reach s) (h : ReachFrom s t) : Reach t := by
  induction h with
  | refl => exact hs
  | step t op o _ ho ih => exact Reach.step t op o ih ho

/-- over every continuation of every history: if in state s no context is still working on request number k (none has it
    as its current number without a stored reply — it was answered, cancelled, timed out, replaced or its context closed),
    then whatever follows — timers firing, pipes lost and added, late or duplicate replies, further Sends, Close — adds
    no transmission under k: the transmissions logged under k stay exactly what they were in s -/
theorem retired_request_is_never_transmitted_again (s : State) (hs : Reach s) (k : Nat) (hnz : k ≠ 0) (hle : k ≤ s.nsent)
    (hdead : ∀ d x, getCtx s d = some x → x.reqID = k → x.repMsg.isSome = true) :
    ∀ t, ReachFrom s t → txOf k t = txOf k s := by
  intro t ht
  have h0 : TD k (txOf k s) s := ⟨reach_T s hs, ⟨hnz, hle, hdead, rfl⟩⟩
  have : TD k (txOf k s) t := by
    induction ht with
    | refl => exact h0
    | step t op o _ ho ih => exact step_TD k (txOf k s) t op ih o ho
  exact this.2.log

/-- how a request gets there: cancel (a new Send, a deadline, a lost pipe with retries disabled, Close) -/
theorem cancel_retires (s : State) (hT : T s) (c : Nat) (x : Ctx) (hx : getCtx s c = some x) (hnz : x.reqID ≠ 0) :
    ∀ d y, getCtx (cancel s c) d = some y → y.reqID = x.reqID → y.repMsg.isSome = true := by
  intro d y hy hk
  by_cases hdc : d = c
  · subst hdc
    have := cancel_reqID s d y hy
    rw [this] at hk; exact absurd hk.symm hnz
  · -- another context never shares the number
    have hother : getCtx (cancel s c) d = getCtx s d := by
      unfold cancel
      simp only []
      split
      · rw [getCtx_cancelSend]
        cases hg : getCtx s d with
        | none => rfl
        | some z =>
          have := getCtx_id s d z hg
          simp [this, hdc]
      · rw [getCtx_setCtx_ne (h := hdc)]
        case hf => intro y; rfl
        show getCtx (cancelSend s c) d = _
        rw [getCtx_cancelSend]
        cases hg : getCtx s d with
        | none => rfl
        | some z =>
          have := getCtx_id s d z hg
          simp [this, hdc]
    rw [hother] at hy
    exact absurd (hT.uniq d c y x hy hx hk (by rw [hk]; exact hnz)) hdc

end Req
end Proto
end Model
