/-
  Model/Proto/PairQuiet.lean — PAIR: in every reachable state nothing is left to do: an accepted message waits only
  while there is no peer or the peer's send is in progress, a Send is blocked only while the queue has no room, and a
  Recv is blocked only when nothing is there for it.
-/
import Model.Proto.PairLemmas
namespace Model
namespace Proto
namespace Pair

def measure (s : State) : Nat :=
  3 * s.parkedSend.length + 2 * s.sendQ.length + 3 * s.backlog.length + (if s.inhand.isSome then 2 else 0) + s.recvQ.length + s.parkedRecv.length

theorem progressRecv_measure (s : State) (s' : State) (evs) (hp : progress.progressRecv s = some (s', evs)) : measure s' < measure s := by
  unfold progress.progressRecv at hp
  split at hp
  · rename_i call rest m q hpr hq
    simp only [Option.some.injEq, Prod.mk.injEq] at hp
    obtain ⟨rfl, _⟩ := hp
    unfold measure
    simp only [hpr, hq, List.length_cons]
    omega
  · split at hp
    · rename_i m hin
      split at hp
      · rename_i call rest hpr
        simp only [Option.some.injEq, Prod.mk.injEq] at hp
        obtain ⟨rfl, _⟩ := hp
        unfold measure
        simp only [hpr, hin, List.length_cons, Option.isSome_some, Option.isSome_none, if_true]
        simp
        omega
      · split at hp
        · simp only [Option.some.injEq, Prod.mk.injEq] at hp
          obtain ⟨rfl, _⟩ := hp
          unfold measure
          simp only [hin, List.length_append, List.length_cons, List.length_nil, Option.isSome_some, Option.isSome_none, if_true]
          simp
          omega
        · simp at hp
    · rename_i hin
      split at hp
      · rename_i p b rest hpe hb
        simp only [Option.some.injEq, Prod.mk.injEq] at hp
        obtain ⟨rfl, _⟩ := hp
        unfold measure
        simp only [hin, hb, List.length_cons, Option.isSome_some, Option.isSome_none, if_true]
        simp
        omega
      · simp at hp

theorem progress_measure (s : State) (s' : State) (evs) (hp : progress s = some (s', evs)) : measure s' < measure s := by
  unfold progress at hp
  split at hp
  · rename_i p m rest hpe hin hq
    split at hp
    · simp only [Option.some.injEq, Prod.mk.injEq] at hp
      obtain ⟨rfl, _⟩ := hp
      unfold measure
      simp only [hq, List.length_cons]
      omega
    · simp only [Option.some.injEq, Prod.mk.injEq] at hp
      obtain ⟨rfl, _⟩ := hp
      unfold measure
      simp only [hq, List.length_cons]
      omega
  · split at hp
    · rename_i call m rest hps
      split at hp
      · simp only [Option.some.injEq, Prod.mk.injEq] at hp
        obtain ⟨rfl, _⟩ := hp
        unfold measure
        simp only [hps, List.length_cons, List.length_append, List.length_nil]
        omega
      · exact progressRecv_measure s s' evs hp
    · exact progressRecv_measure s s' evs hp

theorem settle_quiet : ∀ (fuel : Nat) (s : State), measure s ≤ fuel → progress (settle fuel s).1 = none := by
  intro fuel
  induction fuel with
  | zero =>
    intro s hm
    show progress s = none
    cases hp : progress s with
    | none => rfl
    | some r =>
      have := progress_measure s r.1 r.2 hp
      omega
  | succ n ih =>
    intro s hm
    simp only [settle]
    cases hp : progress s with
    | none => exact hp
    | some r =>
      obtain ⟨s', evs⟩ := r
      have := progress_measure s s' evs hp
      exact ih s' (by omega)

theorem settled_quiet (s : State) (pre evs) : progress (settled s pre evs).1 = none := by
  simp only [settled]
  apply settle_quiet
  unfold measure fuelOf
  split <;> omega

/-- quiescence, as a condition on the queues -/
structure QuietP (s : State) : Prop where
  a : ¬ (s.peer.isSome = true ∧ s.inflight = none ∧ s.sendQ ≠ [])
  b : s.parkedSend ≠ [] → sendRoom s = false
  r1 : s.parkedRecv = [] ∨ s.recvQ = []
  r2 : s.inhand.isSome = true → s.parkedRecv = [] ∧ ¬ s.recvQ.length < s.recvCap
  r3 : s.inhand = none → ¬ (s.peer.isSome = true ∧ s.backlog ≠ [])

theorem progressRecv_none_iff (s : State) : progress.progressRecv s = none ↔
    (s.parkedRecv = [] ∨ s.recvQ = []) ∧ (s.inhand.isSome = true → s.parkedRecv = [] ∧ ¬ s.recvQ.length < s.recvCap) ∧
    (s.inhand = none → ¬ (s.peer.isSome = true ∧ s.backlog ≠ [])) := by
  unfold progress.progressRecv
  cases hpr : s.parkedRecv with
  | nil =>
    simp only []
    cases hin : s.inhand with
    | some m =>
      simp only []
      by_cases hroom : s.recvQ.length < s.recvCap
      · simp [hroom]
      · simp [hroom]
    | none =>
      simp only []
      cases hpe : s.peer with
      | none => simp
      | some p =>
        cases hb : s.backlog with
        | nil => simp
        | cons b rest => simp
  | cons call rest =>
    cases hq : s.recvQ with
    | cons m q => simp
    | nil =>
      simp only []
      cases hin : s.inhand with
      | some m => simp
      | none =>
        simp only []
        cases hpe : s.peer with
        | none => simp
        | some p =>
          cases hb : s.backlog with
          | nil => simp
          | cons b rest => simp

theorem quiet_iff (s : State) : progress s = none ↔ QuietP s := by
  constructor
  · intro h
    have hA : ¬ (s.peer.isSome = true ∧ s.inflight = none ∧ s.sendQ ≠ []) := by
      intro ⟨h1, h2, h3⟩
      cases hpe : s.peer with
      | none => rw [hpe] at h1; cases h1
      | some p =>
        cases hq : s.sendQ with
        | nil => exact h3 hq
        | cons m rest =>
          unfold progress at h
          simp only [hpe, h2, hq] at h
          split at h <;> cases h
    -- with the first arm out of the way, progress is the second match
    have hrest : (match s.parkedSend with
        | (call, m) :: rest => if sendRoom s then some (({ s with parkedSend := rest, sendQ := s.sendQ ++ [m], enq := s.enq ++ [m] } : State), [(call, Ev.retErr call "ok")]) else progress.progressRecv s
        | [] => progress.progressRecv s) = none := by
      unfold progress at h
      split at h
      · rename_i p m rest hpe hin hq
        exact absurd ⟨by rw [hpe]; rfl, hin, by rw [hq]; simp⟩ hA
      · exact h
    cases hps : s.parkedSend with
    | nil =>
      rw [hps] at hrest
      simp only [] at hrest
      obtain ⟨r1, r2, r3⟩ := (progressRecv_none_iff s).mp hrest
      exact ⟨hA, by intro hne; exact absurd hps hne, r1, r2, r3⟩
    | cons x rest =>
      obtain ⟨call, m⟩ := x
      rw [hps] at hrest
      simp only [] at hrest
      by_cases hroom : sendRoom s = true
      · rw [if_pos hroom] at hrest; cases hrest
      · rw [if_neg hroom] at hrest
        obtain ⟨r1, r2, r3⟩ := (progressRecv_none_iff s).mp hrest
        exact ⟨hA, by intro _; simpa using hroom, r1, r2, r3⟩
  · intro ⟨hA, hB, r1, r2, r3⟩
    have hR := (progressRecv_none_iff s).mpr ⟨r1, r2, r3⟩
    unfold progress
    split
    · rename_i p m rest hpe hin hq
      exact absurd ⟨by rw [hpe]; rfl, hin, by rw [hq]; simp⟩ hA
    · split
      · rename_i call m rest hps
        have := hB (by rw [hps]; simp)
        rw [this]
        simpa using hR
      · exact hR

theorem quiet_of (s s' : State) (h : progress s = none) (h1 : s'.peer = s.peer) (h2 : s'.inflight = s.inflight) (h3 : s'.sendQ = s.sendQ)
    (h4 : s'.sendCap = s.sendCap) (h5 : s'.recvQ = s.recvQ) (h6 : s'.recvCap = s.recvCap) (h7 : s'.inhand = s.inhand)
    (h8 : s'.backlog = s.backlog) (h9 : s'.parkedSend = s.parkedSend ∨ s'.parkedSend = []) (h10 : s'.parkedRecv = s.parkedRecv ∨ s'.parkedRecv = []) :
    progress s' = none := by
  rw [quiet_iff] at h ⊢
  obtain ⟨a, b, r1, r2, r3⟩ := h
  refine ⟨by rw [h1, h2, h3]; exact a, ?_, ?_, ?_, by rw [h7, h1, h8]; exact r3⟩
  · intro hne
    have hroom : sendRoom s' = sendRoom s := by unfold sendRoom; rw [h1, h2, h3, h4]
    rw [hroom]
    rcases h9 with e | e
    · rw [e] at hne; exact b hne
    · exact absurd e hne
  · rcases h10 with e | e
    · rw [e, h5]; exact r1
    · exact Or.inl e
  · intro hin
    rw [h7] at hin
    obtain ⟨x1, x2⟩ := r2 hin
    refine ⟨?_, by rw [h5, h6]; exact x2⟩
    rcases h10 with e | e
    · rw [e]; exact x1
    · exact e

theorem step_quiet (s : State) (op : List String) (h : progress s = none) : ∀ o ∈ step s op, progress o.1 = none := by
  intro o ho
  unfold step at ho
  split at ho
  · -- addpipe
    split at ho
    · simp at ho; subst ho; exact h
    · split at ho
      · simp at ho; subst ho; exact h
      · simp at ho; subst ho; exact settled_quiet _ _ _
  · split at ho
    · simp at ho; subst ho; exact settled_quiet _ _ _
    · simp at ho; subst ho; exact h
  · split at ho
    · simp at ho; subst ho; exact settled_quiet _ _ _
    · simp at ho; subst ho; exact h
  · -- send
    split at ho
    · simp at ho; subst ho; exact h
    · split at ho
      · split at ho
        · simp at ho
          rcases ho with rfl | rfl
          · exact settled_quiet _ _ _
          · exact h
        · simp at ho; subst ho; exact h
      · split at ho
        · simp at ho; subst ho; exact settled_quiet _ _ _
        · rename_i hroom
          simp at ho; subst ho
          rw [quiet_iff] at h ⊢
          obtain ⟨a, b, r1, r2, r3⟩ := h
          refine ⟨a, ?_, r1, r2, r3⟩
          intro _
          show sendRoom s = false
          simpa using hroom
  · -- recv
    split at ho
    · split at ho
      · split at ho
        · simp at ho; subst ho; exact h
        · simp at ho
          rcases ho with rfl | rfl
          · exact h
          · exact settled_quiet _ _ _
      · simp at ho
        rcases ho with rfl | rfl
        · exact h
        · exact settled_quiet _ _ _
    · simp at ho; subst ho; exact settled_quiet _ _ _
  · simp at ho; subst ho; exact quiet_of s _ h rfl rfl rfl rfl rfl rfl rfl rfl (Or.inl rfl) (Or.inl rfl)
  · simp at ho; subst ho; exact settled_quiet _ _ _
  · simp at ho; subst ho; exact settled_quiet _ _ _
  · split at ho <;> simp at ho <;> subst ho
    · exact quiet_of s _ h rfl rfl rfl rfl rfl rfl rfl rfl (Or.inl rfl) (Or.inl rfl)
    · exact h
  · split at ho
    · split at ho
      · simp at ho; subst ho; exact settled_quiet _ _ _
      · simp at ho
    · simp at ho
  · split at ho
    · simp at ho; subst ho; exact settled_quiet _ _ _
    · simp at ho
  · simp at ho; subst ho; exact h
  · split at ho
    · simp at ho; subst ho; exact h
    · simp at ho; subst ho
      exact quiet_of s _ h rfl rfl rfl rfl rfl rfl rfl rfl (Or.inr rfl) (Or.inr rfl)
  · simp at ho

theorem reach_quiet (s : State) (h : Reach s) : progress s = none := by
  induction h with
  | init =>
    rw [quiet_iff]
    exact ⟨by simp [init], by intro hne; simp [init] at hne, Or.inl rfl, by intro hin; simp [init] at hin, by simp [init]⟩
  | step s op o _ ho ih => exact step_quiet s op ih o ho

/-- over every history: an accepted message waits in the send queue only while there is no peer or the peer's send is
    still in progress; a Send is blocked only while the queue has no room for its message; a Recv is blocked only when
    nothing is queued, nothing is in the receiver's hand and nothing is waiting to be read -/
theorem nothing_left_to_do (s : State) (h : Reach s) :
    (s.sendQ ≠ [] → s.peer = none ∨ s.inflight.isSome = true) ∧
    (s.parkedSend ≠ [] → sendRoom s = false) ∧
    (s.parkedRecv ≠ [] → s.recvQ = [] ∧ s.inhand = none ∧ (s.peer = none ∨ s.backlog = [])) := by
  obtain ⟨a, b, r1, r2, r3⟩ := (quiet_iff s).mp (reach_quiet s h)
  refine ⟨?_, b, ?_⟩
  · intro hq
    cases hpe : s.peer with
    | none => exact Or.inl rfl
    | some p =>
      right
      cases hin : s.inflight with
      | some m => rfl
      | none => exact absurd ⟨by rw [hpe]; rfl, hin, hq⟩ a
  · intro hne
    have hq : s.recvQ = [] := by
      rcases r1 with e | e
      · exact absurd e hne
      · exact e
    have hin : s.inhand = none := by
      cases hin : s.inhand with
      | none => rfl
      | some m => exact absurd (r2 (by rw [hin]; rfl)).1 hne
    refine ⟨hq, hin, ?_⟩
    cases hpe : s.peer with
    | none => exact Or.inl rfl
    | some p =>
      right
      cases hb : s.backlog with
      | nil => rfl
      | cons b rest => exact absurd ⟨by rw [hpe]; rfl, by rw [hb]; simp⟩ (r3 hin)

end Pair
end Proto
end Model
