/-
  Model/Proto/ReqTx.lean — REQ: every transmission of a request carries the same bytes.
  Invariant T over all histories (ghost transmission log `txlog` of (pipe, request number, body)): numbers in the log are
  positive and never exceed the number of Sends so far; a context's retained request is what every logged transmission
  under its number carried; a request still waiting for its first transmission has not been transmitted and nothing is
  retained beside it; a stored reply means nothing is retained; a queued context has a number and something to transmit;
  request numbers are not shared between contexts; and any two logged transmissions under one number carry the same body.
-/
import Model.Proto.ReqDeadline
namespace Model
namespace Proto
namespace Req

/-- what the invariant says about one context -/
structure CtxT (s : State) (x : Ctx) : Prop where
  cid : x.reqID ≤ s.nsent
  kept : ∀ b, x.reqMsg = some b → ∀ e ∈ s.txlog, e.2.1 = x.reqID → e.2.2 = b
  fresh : x.sendMsg.isSome = true → ∀ e ∈ s.txlog, e.2.1 ≠ x.reqID
  excl : x.sendMsg.isSome = true → x.reqMsg = none
  named : x.reqMsg.isSome = true → x.reqID ≠ 0
  replied : x.repMsg.isSome = true → x.reqMsg = none
  pend : ∀ b, x.sendMsg = some b → x.reqID ≠ 0 → (x.reqID, b) ∈ s.sent
  keptS : ∀ b, x.reqMsg = some b → (x.reqID, b) ∈ s.sent

structure T (s : State) : Prop where
  ids : ∀ e ∈ s.txlog, e.2.1 ≤ s.nsent ∧ e.2.1 ≠ 0
  ctx : ∀ d x, getCtx s d = some x → CtxT s x
  queued : ∀ c ∈ s.sendQ, ∃ x, getCtx s c = some x ∧ x.reqID ≠ 0 ∧ x.repMsg = none ∧ (x.sendMsg.isSome = true ∨ x.reqMsg.isSome = true)
  uniq : ∀ d d' x y, getCtx s d = some x → getCtx s d' = some y → x.reqID = y.reqID → x.reqID ≠ 0 → d = d'
  same : ∀ e1 ∈ s.txlog, ∀ e2 ∈ s.txlog, e1.2.1 = e2.2.1 → e1.2.2 = e2.2.2
  sentIds : ∀ e ∈ s.sent, e.1 ≤ s.nsent
  sentFun : ∀ e1 ∈ s.sent, ∀ e2 ∈ s.sent, e1.1 = e2.1 → e1.2 = e2.2
  logged : ∀ e ∈ s.txlog, (e.2.1, e.2.2) ∈ s.sent

theorem CtxT_of (s s' : State) (x : Ctx) (h : CtxT s x) (ht : s'.txlog = s.txlog) (hn : s'.nsent = s.nsent) (hse : s'.sent = s.sent) : CtxT s' x :=
  ⟨by rw [hn]; exact h.cid, by rw [ht]; exact h.kept, by rw [ht]; exact h.fresh, h.excl, h.named, h.replied,
   by rw [hse]; exact h.pend, by rw [hse]; exact h.keptS⟩

/-- the invariant looks only at txlog, nsent, sendQ and the contexts -/
theorem T_same (s s' : State) (h : T s) (hc : s'.ctxs = s.ctxs) (ht : s'.txlog = s.txlog) (hn : s'.nsent = s.nsent)
    (hse : s'.sent = s.sent) (hq : ∀ c ∈ s'.sendQ, c ∈ s.sendQ) : T s' := by
  have hg : ∀ d, getCtx s' d = getCtx s d := fun d => by unfold getCtx; rw [hc]
  constructor
  · rw [ht, hn]; exact h.ids
  · intro d x hx; exact CtxT_of s s' x (h.ctx d x (by rw [← hg]; exact hx)) ht hn hse
  · intro c hcq
    obtain ⟨x, hx, hr⟩ := h.queued c (hq c hcq)
    exact ⟨x, by rw [hg]; exact hx, hr⟩
  · intro d d' x y hx hy; exact h.uniq d d' x y (by rw [← hg]; exact hx) (by rw [← hg]; exact hy)
  · rw [ht]; exact h.same
  · rw [hse, hn]; exact h.sentIds
  · rw [hse]; exact h.sentFun
  · rw [ht, hse]; exact h.logged

/-- a context update that keeps request number, retained request, pending message and stored reply -/
theorem setCtx_T (s : State) (c : Nat) (f : Ctx → Ctx)
    (hf : ∀ y, (f y).id = y.id ∧ (f y).reqID = y.reqID ∧ (f y).reqMsg = y.reqMsg ∧ (f y).sendMsg = y.sendMsg ∧ (f y).repMsg = y.repMsg)
    (h : T s) : T (setCtx s c f) := by
  have hid : ∀ y, (f y).id = y.id := fun y => (hf y).1
  -- every context of the new state is (f of) a context of the old one with the same four fields
  have hback : ∀ d x', getCtx (setCtx s c f) d = some x' → ∃ x, getCtx s d = some x ∧ x'.reqID = x.reqID ∧ x'.reqMsg = x.reqMsg ∧ x'.sendMsg = x.sendMsg ∧ x'.repMsg = x.repMsg := by
    intro d x' hx'
    rw [getCtx_setCtx s c f hid d] at hx'
    cases hg : getCtx s d with
    | none => rw [hg] at hx'; cases hx'
    | some x =>
      rw [hg] at hx'
      simp only [Option.map_some, Option.some.injEq] at hx'
      subst hx'
      refine ⟨x, rfl, ?_⟩
      split
      · exact ⟨(hf x).2.1, (hf x).2.2.1, (hf x).2.2.2.1, (hf x).2.2.2.2⟩
      · exact ⟨rfl, rfl, rfl, rfl⟩
  constructor
  · exact h.ids
  · intro d x' hx'
    obtain ⟨x, hx, e1, e2, e3, e4⟩ := hback d x' hx'
    have hc := h.ctx d x hx
    exact ⟨by rw [e1]; exact hc.cid, by rw [e1, e2]; exact hc.kept, by rw [e1, e3]; exact hc.fresh, by rw [e2, e3]; exact hc.excl,
      by rw [e1, e2]; exact hc.named, by rw [e2, e4]; exact hc.replied, by rw [e1, e3]; exact hc.pend, by rw [e1, e2]; exact hc.keptS⟩
  · intro q hq
    obtain ⟨x, hx, h1, h2, h3⟩ := h.queued q hq
    by_cases hqc : q = c
    · subst hqc
      refine ⟨f x, getCtx_setCtx_eq s q f hid x hx, ?_, ?_, ?_⟩
      · rw [(hf x).2.1]; exact h1
      · rw [(hf x).2.2.2.2]; exact h2
      · rw [(hf x).2.2.2.1, (hf x).2.2.1]; exact h3
    · exact ⟨x, by rw [getCtx_setCtx_ne s c q f hid hqc]; exact hx, h1, h2, h3⟩
  · intro d d' x' y' hx' hy' he hnz
    obtain ⟨x, hx, e1, _⟩ := hback d x' hx'
    obtain ⟨y, hy, e1', _⟩ := hback d' y' hy'
    exact h.uniq d d' x y hx hy (by rw [← e1, ← e1']; exact he) (by rw [← e1]; exact hnz)
  · exact h.same
  · exact h.sentIds
  · exact h.sentFun
  · exact h.logged

theorem getCtx_setCtx_none (s : State) (c : Nat) (f : Ctx → Ctx) (hid : ∀ y, (f y).id = y.id) (hn : getCtx s c = none) (d : Nat) :
    getCtx (setCtx s c f) d = getCtx s d := by
  by_cases hdc : d = c
  · subst hdc
    rw [getCtx_setCtx s d f hid d, hn]; rfl
  · exact getCtx_setCtx_ne s c d f hid hdc

/-- an arbitrary update of context c, given what the invariant needs of the new value -/
theorem setCtx_T_at (s : State) (c : Nat) (f : Ctx → Ctx) (hid : ∀ y, (f y).id = y.id) (x : Ctx) (hx : getCtx s c = some x)
    (hnew : CtxT s (f x))
    (hq : c ∈ s.sendQ → (f x).reqID ≠ 0 ∧ (f x).repMsg = none ∧ ((f x).sendMsg.isSome = true ∨ (f x).reqMsg.isSome = true))
    (hu : ∀ d' y, d' ≠ c → getCtx s d' = some y → (f x).reqID = y.reqID → (f x).reqID = 0)
    (h : T s) : T (setCtx s c f) := by
  have hc' : getCtx (setCtx s c f) c = some (f x) := getCtx_setCtx_eq s c f hid x hx
  have hne : ∀ d, d ≠ c → getCtx (setCtx s c f) d = getCtx s d := fun d hd => getCtx_setCtx_ne s c d f hid hd
  constructor
  · exact h.ids
  · intro d x' hx'
    by_cases hdc : d = c
    · subst hdc
      rw [hc'] at hx'; cases hx'
      exact CtxT_of s _ _ hnew rfl rfl rfl
    · rw [hne d hdc] at hx'
      exact CtxT_of s _ _ (h.ctx d x' hx') rfl rfl rfl
  · intro q hqm
    by_cases hqc : q = c
    · subst hqc
      exact ⟨f x, hc', hq hqm⟩
    · obtain ⟨y, hy, hr⟩ := h.queued q hqm
      exact ⟨y, by rw [hne q hqc]; exact hy, hr⟩
  · intro d d' x' y' hx' hy' he hnz
    by_cases hdc : d = c <;> by_cases hdc' : d' = c
    · rw [hdc, hdc']
    · subst hdc
      rw [hc'] at hx'; cases hx'
      rw [hne d' hdc'] at hy'
      exact absurd (hu d' y' hdc' hy' he) hnz
    · subst hdc'
      rw [hc'] at hy'; cases hy'
      rw [hne d hdc] at hx'
      exact absurd (hu d x' hdc hx' he.symm) (by rw [← he]; exact hnz)
    · rw [hne d hdc] at hx'; rw [hne d' hdc'] at hy'
      exact h.uniq d d' x' y' hx' hy' he hnz
  · exact h.same
  · exact h.sentIds
  · exact h.sentFun
  · exact h.logged

theorem setCtx_T_none (s : State) (c : Nat) (f : Ctx → Ctx) (hid : ∀ y, (f y).id = y.id) (hn : getCtx s c = none) (h : T s) :
    T (setCtx s c f) := by
  have hg := getCtx_setCtx_none s c f hid hn
  constructor
  · exact h.ids
  · intro d x hx; exact CtxT_of s _ _ (h.ctx d x (by rw [← hg]; exact hx)) rfl rfl rfl
  · intro q hq
    obtain ⟨y, hy, hr⟩ := h.queued q hq
    exact ⟨y, by rw [hg]; exact hy, hr⟩
  · intro d d' x y hx hy; exact h.uniq d d' x y (by rw [← hg]; exact hx) (by rw [← hg]; exact hy)
  · exact h.same
  · exact h.sentIds
  · exact h.sentFun
  · exact h.logged

theorem cancelSend_T (s : State) (c : Nat) (h : T s) : T (cancelSend s c) := by
  unfold cancelSend
  exact setCtx_T _ c _ (fun y => ⟨rfl, rfl, rfl, rfl, rfl⟩) (T_same s _ h rfl rfl rfl rfl (fun q hq => (List.mem_filter.mp hq).1))

theorem cancelSend_not_queued (s : State) (c : Nat) : c ∉ (cancelSend s c).sendQ := by
  unfold cancelSend
  intro hm
  have : c ∈ s.sendQ.filter (· != c) := hm
  have := (List.mem_filter.mp this).2
  simp at this

theorem cancel_T (s : State) (c : Nat) (h : T s) : T (cancel s c) := by
  unfold cancel
  simp only []
  have h1 := cancelSend_T s c h
  split
  · exact h1
  · rename_i x hx
    have h2 : T { cancelSend s c with ctxByID := (cancelSend s c).ctxByID.filter (fun e => !(e.1 == x.reqID && x.reqID != 0) && e.2 != c) } :=
      T_same _ _ h1 rfl rfl rfl rfl (fun q hq => hq)
    have hcx := h1.ctx c x hx
    refine setCtx_T_at _ c _ (fun y => rfl) x hx ?_ ?_ ?_ h2
    · constructor
      · exact Nat.zero_le _
      · intro b hb; cases hb
      · intro _ e he; exact (h1.ids e he).2
      · intro _; rfl
      · intro hb; cases hb
      · intro hb; cases hb
      · intro b _ hnz; exact absurd rfl hnz
      · intro b hb; cases hb
    · intro hm; exact absurd hm (cancelSend_not_queued s c)
    · intro _ _ _ _ _; rfl

theorem wakeSends_T (s : State) (c : Nat) (x : Ctx) (hx : getCtx s c = some x) (h : T s) : T (wakeSends s c x).1 := by
  simp only [wakeSends]
  have h1 : T { s with parkedSend := s.parkedSend.filter (fun p => !((s.parkedSend.filter (fun p => p.ctx == c &&
      (!(x.sendMsg.isSome && x.sendFor == p.rid) || p.expired || x.closed || (x.failNoPeers && s.pipes.isEmpty) || x.sendAbort))).any (fun q => q.call == p.call))) } :=
    T_same s _ h rfl rfl rfl rfl (fun q hq => hq)
  split
  · rename_i hany
    -- a pending first transmission is withdrawn: nothing was retained beside it
    obtain ⟨q, _, hqm⟩ := List.any_eq_true.mp hany
    simp only [Bool.and_eq_true] at hqm
    have hsome : x.sendMsg.isSome = true := hqm.1
    have h2 := cancelSend_T _ c h1
    have h3 : T { (cancelSend { s with parkedSend := s.parkedSend.filter (fun p => !((s.parkedSend.filter (fun p => p.ctx == c &&
        (!(x.sendMsg.isSome && x.sendFor == p.rid) || p.expired || x.closed || (x.failNoPeers && s.pipes.isEmpty) || x.sendAbort))).any (fun q => q.call == p.call))) } c) with
        ctxByID := s.ctxByID.filter (fun e => e.2 != c) } := T_same _ _ h2 rfl rfl rfl rfl (fun q hq => hq)
    have hx2 : getCtx (cancelSend { s with parkedSend := s.parkedSend.filter (fun p => !((s.parkedSend.filter (fun p => p.ctx == c &&
        (!(x.sendMsg.isSome && x.sendFor == p.rid) || p.expired || x.closed || (x.failNoPeers && s.pipes.isEmpty) || x.sendAbort))).any (fun q => q.call == p.call))) } c) c = some { x with queued := false } := by
      rw [getCtx_cancelSend]
      show (getCtx s c).map _ = _
      rw [hx]
      have := getCtx_id s c x hx
      simp [this]
    have hcx := h.ctx c x hx
    refine setCtx_T_at _ c _ (fun y => rfl) { x with queued := false } hx2 ?_ ?_ ?_ h3
    · constructor
      · exact Nat.zero_le _
      · intro b hb
        have : x.reqMsg = none := hcx.excl hsome
        rw [this] at hb; cases hb
      · intro hb; cases hb
      · intro hb; cases hb
      · intro hb
        have : x.reqMsg = none := hcx.excl hsome
        rw [this] at hb; cases hb
      · intro hb; cases hb
      · intro b hb; cases hb
      · intro b hb
        have : x.reqMsg = none := hcx.excl hsome
        rw [this] at hb; cases hb
    · intro hm; exact absurd hm (cancelSend_not_queued _ c)
    · intro _ _ _ _ _; rfl
  · exact h1

theorem wakeRecv_T (s : State) (c : Nat) (np : Bool) (evs : List (Nat × Ev)) (h : T s) : T (wakeRecv s c np evs).1 := by
  unfold wakeRecv
  split
  · exact h
  · rename_i pr _
    split
    · exact h
    · rename_i y hy
      split
      · exact h
      · simp only []
        have h3 : ∀ (dl : List (Nat × Nat × Nat)) (reg : List (Nat × Nat)) (df : List Nat),
            T { s with parkedRecv := s.parkedRecv.filter (fun p => p.call != pr.call), delivered := dl, ctxByID := reg, deliveredFor := df } :=
          fun dl reg df => T_same s _ h rfl rfl rfl rfl (fun q hq => hq)
        split
        · exact setCtx_T _ c _ (fun y => ⟨rfl, rfl, rfl, rfl, rfl⟩) (h3 _ _ _)
        · split
          · rename_i m hm
            have hcy := h.ctx c y hy
            have hnone : y.reqMsg = none := hcy.replied (by rw [hm]; rfl)
            refine setCtx_T_at _ c _ (fun z => rfl) y hy ?_ ?_ ?_ (h3 _ _ _)
            · constructor
              · exact Nat.zero_le _
              · intro b hb
                have : y.reqMsg = some b := hb
                rw [hnone] at this; cases this
              · intro _ e he; exact (h.ids e he).2
              · exact hcy.excl
              · intro hb
                have : y.reqMsg.isSome = true := hb
                rw [hnone] at this; cases this
              · intro hb; cases hb
              · intro b _ hnz; exact absurd rfl hnz
              · intro b hb
                have : y.reqMsg = some b := hb
                rw [hnone] at this; cases this
            · intro hq
              -- a context with a stored reply is not queued
              obtain ⟨z, hz, _, hrep, _⟩ := h.queued c hq
              rw [hy] at hz; cases hz
              rw [hm] at hrep; cases hrep
            · intro _ _ _ _ _; rfl
          · exact h3 _ _ _

theorem wake_T (s : State) (c : Nat) (h : T s) : T (wake s c).1 := by
  unfold wake
  split
  · exact h
  · rename_i x hx
    exact wakeRecv_T _ c _ _ (wakeSends_T s c x hx h)

theorem ite_wake_T (b : Bool) (s2 : State) (c : Nat) (h : T s2) :
    T (if b = true then wake s2 c else (s2, [])).1 := by
  cases b
  · exact h
  · exact wake_T s2 c h

theorem pumpTail_T (r3 : State × List (Nat × Ev)) (hold : Bool) (p : Nat) (f : Pipe → Pipe) (ev : List (Nat × Ev))
    (h : T r3.1) :
    T (if hold = true then (setPipe r3.1 p f, r3.2) else ({ r3.1 with readyQ := r3.1.readyQ ++ [p] }, r3.2 ++ ev)).1 := by
  cases hold
  · exact T_same _ _ h rfl rfl rfl rfl (fun q hq => hq)
  · exact T_same _ _ h rfl rfl rfl rfl (fun q hq => hq)

/-- one hand-off of the scheduler, before the waiting Send is woken -/
theorem pumpMid_T (arm : Nat × Nat) (s : State) (c p : Nat) (sq rq : List Nat) (x : Ctx)
    (hs : s.sendQ = c :: sq) (hx : getCtx s c = some x) (h : T s) :
    T (setCtx { s with sendQ := sq, readyQ := rq, ctxByID := if x.sendMsg.isSome then s.ctxByID.filter (fun e => e.2 != c) ++ [(x.reqID, c)] else s.ctxByID, txlog := s.txlog ++ [(p, x.reqID, (x.sendMsg.orElse (fun _ => x.reqMsg)).getD [])] } c
      (fun y => { y with queued := false, reqMsg := some ((x.sendMsg.orElse (fun _ => x.reqMsg)).getD []), sendMsg := none, lastPipe := some p, timer := if y.resendTime > 0 then some { id := y.reqID, tmin := arm.1, tmax := arm.2, period := y.resendTime } else y.timer })) := by
  -- what the queue invariant says about the head
  obtain ⟨x0, hx0, hnz, hrep, hmsg⟩ := h.queued c (by rw [hs]; simp)
  rw [hx] at hx0; cases hx0
  have hcx := h.ctx c x hx
  -- the body handed over, and why every earlier transmission under this number carried it
  have hbody : ∀ e ∈ s.txlog, e.2.1 = x.reqID → e.2.2 = (x.sendMsg.orElse (fun _ => x.reqMsg)).getD [] := by
    intro e he heid
    cases hsm : x.sendMsg with
    | some b0 => exact absurd heid (hcx.fresh (by rw [hsm]; rfl) e he)
    | none =>
      rcases hmsg with hm | hm
      · rw [hsm] at hm; cases hm
      · cases hrm : x.reqMsg with
        | none => rw [hrm] at hm; cases hm
        | some b0 =>
          simp only [Option.orElse, Option.getD]
          exact hcx.kept b0 hrm e he heid
  have hbodyS : (x.reqID, (x.sendMsg.orElse (fun _ => x.reqMsg)).getD []) ∈ s.sent := by
    cases hsm : x.sendMsg with
    | some b0 => exact hcx.pend b0 hsm hnz
    | none =>
      rcases hmsg with hm | hm
      · rw [hsm] at hm; cases hm
      · cases hrm : x.reqMsg with
        | none => rw [hrm] at hm; cases hm
        | some b0 =>
          simp only [Option.orElse, Option.getD]
          exact hcx.keptS b0 hrm
  have hid : ∀ y : Ctx, ({ y with queued := false, reqMsg := some ((x.sendMsg.orElse (fun _ => x.reqMsg)).getD []), sendMsg := none, lastPipe := some p, timer := if y.resendTime > 0 then some { id := y.reqID, tmin := arm.1, tmax := arm.2, period := y.resendTime } else y.timer } : Ctx).id = y.id := fun y => rfl
  have hT2 : T (setCtx { s with sendQ := sq, readyQ := rq, ctxByID := if x.sendMsg.isSome then s.ctxByID.filter (fun e => e.2 != c) ++ [(x.reqID, c)] else s.ctxByID, txlog := s.txlog ++ [(p, x.reqID, (x.sendMsg.orElse (fun _ => x.reqMsg)).getD [])] } c
      (fun y => { y with queued := false, reqMsg := some ((x.sendMsg.orElse (fun _ => x.reqMsg)).getD []), sendMsg := none, lastPipe := some p, timer := if y.resendTime > 0 then some { id := y.reqID, tmin := arm.1, tmax := arm.2, period := y.resendTime } else y.timer })) := by
    have hg1 : ∀ d, getCtx { s with sendQ := sq, readyQ := rq, ctxByID := if x.sendMsg.isSome then s.ctxByID.filter (fun e => e.2 != c) ++ [(x.reqID, c)] else s.ctxByID, txlog := s.txlog ++ [(p, x.reqID, (x.sendMsg.orElse (fun _ => x.reqMsg)).getD [])] } d = getCtx s d := fun d => rfl
    have hc2 := getCtx_setCtx_eq { s with sendQ := sq, readyQ := rq, ctxByID := if x.sendMsg.isSome then s.ctxByID.filter (fun e => e.2 != c) ++ [(x.reqID, c)] else s.ctxByID, txlog := s.txlog ++ [(p, x.reqID, (x.sendMsg.orElse (fun _ => x.reqMsg)).getD [])] } c _ hid x (by rw [hg1]; exact hx)
    have hne2 : ∀ d, d ≠ c → getCtx (setCtx { s with sendQ := sq, readyQ := rq, ctxByID := if x.sendMsg.isSome then s.ctxByID.filter (fun e => e.2 != c) ++ [(x.reqID, c)] else s.ctxByID, txlog := s.txlog ++ [(p, x.reqID, (x.sendMsg.orElse (fun _ => x.reqMsg)).getD [])] } c
        (fun y => { y with queued := false, reqMsg := some ((x.sendMsg.orElse (fun _ => x.reqMsg)).getD []), sendMsg := none, lastPipe := some p, timer := if y.resendTime > 0 then some { id := y.reqID, tmin := arm.1, tmax := arm.2, period := y.resendTime } else y.timer })) d = getCtx s d :=
      fun d hd => (getCtx_setCtx_ne _ c d _ hid hd).trans (hg1 d)
    constructor
    · intro e he
      show e.2.1 ≤ s.nsent ∧ e.2.1 ≠ 0
      have he' : e ∈ s.txlog ++ [(p, x.reqID, (x.sendMsg.orElse (fun _ => x.reqMsg)).getD [])] := he
      simp only [List.mem_append, List.mem_singleton] at he'
      rcases he' with he' | rfl
      · exact h.ids e he'
      · exact ⟨hcx.cid, hnz⟩
    · intro d y' hy'
      by_cases hdc : d = c
      · subst hdc
        rw [hc2] at hy'; cases hy'
        constructor
        · exact hcx.cid
        · intro b hb e he heid
          simp only [Option.some.injEq] at hb
          subst hb
          have he' : e ∈ s.txlog ++ [(p, x.reqID, (x.sendMsg.orElse (fun _ => x.reqMsg)).getD [])] := he
          simp only [List.mem_append, List.mem_singleton] at he'
          rcases he' with he' | rfl
          · exact hbody e he' heid
          · rfl
        · intro hb; cases hb
        · intro hb; cases hb
        · intro _; exact hnz
        · intro hb
          have : x.repMsg.isSome = true := hb
          rw [hrep] at this; cases this
        · intro b hb; cases hb
        · intro b hb
          simp only [Option.some.injEq] at hb
          subst hb
          exact hbodyS
      · rw [hne2 d hdc] at hy'
        have hcy := h.ctx d y' hy'
        have hnew : y'.reqID ≠ x.reqID := by
          intro e
          exact hdc (h.uniq d c y' x hy' hx e (by rw [e]; exact hnz))
        constructor
        · exact hcy.cid
        · intro b hb e he heid
          have he' : e ∈ s.txlog ++ [(p, x.reqID, (x.sendMsg.orElse (fun _ => x.reqMsg)).getD [])] := he
          simp only [List.mem_append, List.mem_singleton] at he'
          rcases he' with he' | rfl
          · exact hcy.kept b hb e he' heid
          · exact absurd heid.symm hnew
        · intro hb e he
          have he' : e ∈ s.txlog ++ [(p, x.reqID, (x.sendMsg.orElse (fun _ => x.reqMsg)).getD [])] := he
          simp only [List.mem_append, List.mem_singleton] at he'
          rcases he' with he' | rfl
          · exact hcy.fresh hb e he'
          · exact fun e => hnew e.symm
        · exact hcy.excl
        · exact hcy.named
        · exact hcy.replied
        · exact hcy.pend
        · exact hcy.keptS
    · intro q hq
      have hq' : q ∈ sq := hq
      by_cases hqc : q = c
      · subst hqc
        exact ⟨_, hc2, hnz, hrep, Or.inr rfl⟩
      · obtain ⟨y, hy, hr⟩ := h.queued q (by rw [hs]; exact List.mem_cons_of_mem _ hq')
        exact ⟨y, by rw [hne2 q hqc]; exact hy, hr⟩
    · intro d d' x' y' hx' hy' he hnz'
      have hback : ∀ d z', getCtx (setCtx { s with sendQ := sq, readyQ := rq, ctxByID := if x.sendMsg.isSome then s.ctxByID.filter (fun e => e.2 != c) ++ [(x.reqID, c)] else s.ctxByID, txlog := s.txlog ++ [(p, x.reqID, (x.sendMsg.orElse (fun _ => x.reqMsg)).getD [])] } c
          (fun y => { y with queued := false, reqMsg := some ((x.sendMsg.orElse (fun _ => x.reqMsg)).getD []), sendMsg := none, lastPipe := some p, timer := if y.resendTime > 0 then some { id := y.reqID, tmin := arm.1, tmax := arm.2, period := y.resendTime } else y.timer })) d = some z' →
          ∃ z, getCtx s d = some z ∧ z'.reqID = z.reqID := by
        intro d z' hz'
        by_cases hdc : d = c
        · subst hdc
          rw [hc2] at hz'; cases hz'
          exact ⟨x, hx, rfl⟩
        · rw [hne2 d hdc] at hz'
          exact ⟨z', hz', rfl⟩
      obtain ⟨x1, hx1, e1⟩ := hback d x' hx'
      obtain ⟨y1, hy1, e2⟩ := hback d' y' hy'
      exact h.uniq d d' x1 y1 hx1 hy1 (by rw [← e1, ← e2]; exact he) (by rw [← e1]; exact hnz')
    · intro e1 he1 e2 he2 heq
      have he1' : e1 ∈ s.txlog ++ [(p, x.reqID, (x.sendMsg.orElse (fun _ => x.reqMsg)).getD [])] := he1
      have he2' : e2 ∈ s.txlog ++ [(p, x.reqID, (x.sendMsg.orElse (fun _ => x.reqMsg)).getD [])] := he2
      simp only [List.mem_append, List.mem_singleton] at he1' he2'
      rcases he1' with he1' | rfl <;> rcases he2' with he2' | rfl
      · exact h.same e1 he1' e2 he2' heq
      · exact hbody e1 he1' heq
      · exact (hbody e2 he2' heq.symm).symm
      · rfl
    · exact h.sentIds
    · exact h.sentFun
    · intro e he
      have he' : e ∈ s.txlog ++ [(p, x.reqID, (x.sendMsg.orElse (fun _ => x.reqMsg)).getD [])] := he
      simp only [List.mem_append, List.mem_singleton] at he'
      rcases he' with he' | rfl
      · exact h.logged e he'
      · exact hbodyS
  exact hT2

/-- one hand-off of the scheduler: the context at the head of the send queue is transmitted -/
theorem pumpStep_T (arm : Nat × Nat) (s : State) (c p : Nat) (sq rq : List Nat) (x : Ctx) (pp : Pipe)
    (hs : s.sendQ = c :: sq) (hx : getCtx s c = some x) (h : T s) : T (pumpStep arm s c p sq rq x pp).1 := by
  unfold pumpStep
  exact pumpTail_T _ _ _ _ _ (ite_wake_T _ _ _ (pumpMid_T arm s c p sq rq x hs hx h))

theorem pump_T : ∀ (fuel : Nat) (arm : Nat × Nat) (s : State), T s → T (pump fuel arm s).1 := by
  intro fuel
  induction fuel with
  | zero => intro arm s h; exact h
  | succ n ih =>
    intro arm s h
    simp only [pump]
    split
    · rename_i c sq p rq hsq hrq
      split
      · rename_i x pp hx hp
        exact ih arm _ (pumpStep_T arm s c p sq rq x pp hsq hx h)
      · exact T_same s _ h rfl rfl rfl rfl (fun q hq => by rw [hsq]; exact List.mem_cons_of_mem _ hq)
    · exact h

/-- a context with a number, no stored reply and something to transmit may join the send queue -/
theorem T_enqueue (s : State) (c : Nat) (x : Ctx) (hx : getCtx s c = some x) (hnz : x.reqID ≠ 0) (hrep : x.repMsg = none)
    (hmsg : x.sendMsg.isSome = true ∨ x.reqMsg.isSome = true) (h : T s) : T { s with sendQ := s.sendQ ++ [c] } := by
  constructor
  · exact h.ids
  · intro d y hy; exact CtxT_of s _ y (h.ctx d y hy) rfl rfl rfl
  · intro q hq
    have hq' : q ∈ s.sendQ ++ [c] := hq
    simp only [List.mem_append, List.mem_singleton] at hq'
    rcases hq' with hq' | rfl
    · exact h.queued q hq'
    · exact ⟨x, hx, hnz, hrep, hmsg⟩
  · exact h.uniq
  · exact h.same
  · exact h.sentIds
  · exact h.sentFun
  · exact h.logged

theorem resend_T (s : State) (arm : Nat × Nat) (c id : Nat) (h : T s) : T (resend s arm c id).1 := by
  unfold resend
  split
  · exact h
  · rename_i x hx
    split
    · rename_i hc
      simp only [Bool.and_eq_true] at hc
      have hcx := h.ctx c x hx
      have hrep : x.repMsg = none := by
        cases hr : x.repMsg with
        | none => rfl
        | some r =>
          have := hcx.replied (by rw [hr]; rfl)
          rw [this] at hc; exact absurd hc.1.2 (by simp)
      apply pump_T
      exact setCtx_T _ c (fun y => { y with queued := true }) (fun y => ⟨rfl, rfl, rfl, rfl, rfl⟩)
        (T_enqueue s c x hx (hcx.named hc.1.2) hrep (Or.inr hc.1.2) h)
    · exact h

theorem readyVariants_T (st : State × List (Nat × Ev)) (h : T st.1) : ∀ r ∈ readyVariants st, T r.1 := by
  intro r hr
  unfold readyVariants at hr
  simp only [] at hr
  split at hr
  · simp at hr; subst hr; exact h
  · simp only [List.mem_map] at hr
    obtain ⟨m, _, rfl⟩ := hr
    exact T_same st.1 _ h rfl rfl rfl rfl (fun q hq => hq)

theorem timerRound_T (now : Nat) (acc0 : List (State × List (Nat × Ev))) (ids : List Nat) (h : ∀ st ∈ acc0, T st.1) :
    ∀ st ∈ timerRound now acc0 ids, T st.1 := by
  unfold timerRound
  apply foldl_flatMap_all (fun st : State × List (Nat × Ev) => T st.1) _ _ ids acc0 h
  intro cid st hst r hr
  split at hr
  · simp at hr; subst hr; exact hst
  · rename_i c _
    split at hr
    · simp at hr; subst hr; exact hst
    · rename_i t _
      have hf : T (resend (setCtx st.1 c.id (fun y => { y with timer := none })) (t.tmin + t.period, now) c.id t.id).1 :=
        resend_T _ _ _ _ (setCtx_T _ _ _ (fun y => ⟨rfl, rfl, rfl, rfl, rfl⟩) hst)
      simp only [] at hr
      split at hr
      · refine readyVariants_T _ ?_ r hr; exact hf
      · split at hr
        · rw [List.mem_cons] at hr
          rcases hr with rfl | hr
          · exact hst
          · refine readyVariants_T _ ?_ r hr; exact hf
        · simp at hr; subst hr; exact hst

theorem deadlineFired_T (st : State × List (Nat × Ev)) (isRecv : Bool) (p : Parked) (h : T st.1) :
    T (deadlineFired st isRecv p).1 := by
  unfold deadlineFired
  cases isRecv
  · simp only [Bool.false_eq_true, if_false]
    split
    · exact h
    · have hm : ∀ still : Bool, T { st.1 with parkedSend := st.1.parkedSend.map (fun q => if q.call == p.call then { q with expired := still, deadline := none } else q) } :=
        fun still => T_same st.1 _ h rfl rfl rfl rfl (fun q hq => hq)
      split
      · exact wake_T _ _ (cancel_T _ _ (hm _))
      · exact hm _
  · simp only [if_true]
    split
    · exact h
    · have hm : ∀ still : Bool, T { st.1 with parkedRecv := st.1.parkedRecv.map (fun q => if q.call == p.call then { q with expired := still, deadline := none } else q) } :=
        fun still => T_same st.1 _ h rfl rfl rfl rfl (fun q hq => hq)
      split
      · exact wake_T _ _ (cancel_T _ _ (hm _))
      · exact hm _

theorem expireSends_T (now : Nat) (s : State) (c : Nat) (h : T s) : T (expireSends now s c) :=
  T_same s _ h rfl rfl rfl rfl (fun q hq => hq)

theorem deadlineFire_T (now : Nat) (st : State × List (Nat × Ev)) (isRecv : Bool) (p : Parked) (t : Timer) (h : T st.1) :
    ∀ r ∈ deadlineFire now st isRecv p t, T r.1 := by
  intro r hr
  have hE : T (expireSends now st.1 p.ctx) := expireSends_T now st.1 p.ctx h
  have hfired : ∀ r ∈ (if (isRecv && recvStill st.1 p && expireSends now st.1 p.ctx != st.1) = true
      then [deadlineFired st isRecv p, deadlineFired (expireSends now st.1 p.ctx, st.2) isRecv p]
      else [deadlineFired st isRecv p]), T r.1 := by
    intro r hr
    split at hr
    · simp at hr
      rcases hr with rfl | rfl
      · exact deadlineFired_T st isRecv p h
      · exact deadlineFired_T (_, _) isRecv p hE
    · simp at hr; subst hr; exact deadlineFired_T st isRecv p h
  unfold deadlineFire at hr
  simp only [] at hr
  split at hr
  · exact hfired r hr
  · split at hr
    · rw [List.mem_cons] at hr
      rcases hr with rfl | hr
      · exact h
      · exact hfired r hr
    · simp at hr; subst hr; exact h

theorem deadlineRound_T (now : Nat) (acc0 : List (State × List (Nat × Ev))) (calls : List Nat) (h : ∀ st ∈ acc0, T st.1) :
    ∀ st ∈ deadlineRound now acc0 calls, T st.1 := by
  unfold deadlineRound
  apply foldl_flatMap_all (fun st : State × List (Nat × Ev) => T st.1) _ _ calls acc0 h
  intro call st hst r hr
  split at hr
  · split at hr
    · exact deadlineFire_T now st true _ _ hst r hr
    · simp at hr; subst hr; exact hst
  · split at hr
    · exact deadlineFire_T now st false _ _ hst r hr
    · simp at hr; subst hr; exact hst
  · simp at hr; subst hr; exact hst

theorem timerOutcomes_T (s : State) (now : Nat) (h : T s) : ∀ st ∈ timerOutcomes s now, T st.1 := by
  intro st hst
  unfold timerOutcomes at hst
  simp only [] at hst
  have h0 : ∀ st ∈ dedup (deadlineRound now [(s, [])] (s.parkedRecv.map (·.call) ++ s.parkedSend.map (·.call))), T st.1 :=
    fun st hst => deadlineRound_T now _ _ (by intro b hb; simp at hb; subst hb; exact h) st (mem_dedup _ st hst)
  have h1 := fun st hst => timerRound_T now _ (s.ctxs.map (·.id)) h0 st (mem_dedup _ st hst)
  have h2 := fun st hst => timerRound_T now _ (s.ctxs.map (·.id)) h1 st (mem_dedup _ st hst)
  have h3 := fun st hst => timerRound_T now _ (s.ctxs.map (·.id)) h2 st (mem_dedup _ st hst)
  have h4 := fun st hst => timerRound_T now _ (s.ctxs.map (·.id)) h3 st (mem_dedup _ st hst)
  exact h4 st (List.mem_of_mem_take hst)

theorem dropOne_T (p : Nat) (acc : State × List (Nat × Ev) × List (Nat × Nat)) (c0 : Ctx) (h : T acc.1) : T (dropOne p acc c0).1 := by
  unfold dropOne
  split
  · exact h
  · rename_i c _
    split
    · exact wake_T _ _ (cancel_T _ _ h)
    · split
      · have h2 := setCtx_T acc.1 c.id (fun y => { y with lastPipe := none }) (fun y => ⟨rfl, rfl, rfl, rfl, rfl⟩) h
        split
        · exact wake_T _ _ (cancel_T _ _ h2)
        · exact cancelSend_T _ _ h2
      · exact h

theorem dropResends_T (arm : Nat × Nat) (todo : List (Nat × Nat)) (start : State × List (Nat × Ev)) (order : List Nat)
    (h : T start.1) : T (dropResends arm todo start order).1 := by
  unfold dropResends
  apply foldl_K _ (fun acc : State × List (Nat × Ev) => T acc.1) _ order start h
  intro acc cid hacc
  split
  · exact hacc
  · exact resend_T _ _ _ _ hacc

theorem dropPipe_T (s : State) (arm : Nat × Nat) (p : Nat) (h : T s) : ∀ r ∈ dropPipe s arm p, T r.1 := by
  intro r hr
  unfold dropPipe at hr
  simp only [List.mem_flatMap] at hr
  obtain ⟨order, _, hr⟩ := hr
  refine readyVariants_T _ ?_ r hr
  apply dropResends_T
  apply foldl_K (dropOne p) (fun acc : State × List (Nat × Ev) × List (Nat × Nat) => T acc.1) (fun b a hb => dropOne_T p b a hb)
  exact T_same s _ h rfl rfl rfl rfl (fun q hq => hq)

theorem closeOne_T (acc : State × List (Nat × Ev)) (c : Ctx) (h : T acc.1) : T (closeOne acc c).1 := by
  unfold closeOne
  split
  · exact h
  · exact wake_T _ _ (cancel_T _ _ (setCtx_T _ _ _ (fun y => ⟨rfl, rfl, rfl, rfl, rfl⟩) h))

/-! ### the operations -/

theorem cancel_nsent_comm (s : State) (n c : Nat) (l : List (Nat × Bytes)) :
    cancel { s with nsent := n, sent := l } c = { cancel s c with nsent := n, sent := l } := by
  unfold cancel
  simp only []
  have hg : getCtx (cancelSend { s with nsent := n, sent := l } c) c = getCtx (cancelSend s c) c := rfl
  rw [hg]
  cases getCtx (cancelSend s c) c <;> rfl

theorem cancel_getCtx_cleared (s : State) (c : Nat) (x : Ctx) (hx : getCtx s c = some x) :
    ∃ y, getCtx (cancel s c) c = some y ∧ y.reqMsg = none ∧ y.repMsg = none := by
  have h1 : getCtx (cancelSend s c) c = some { x with queued := false } := by
    rw [getCtx_cancelSend, hx]
    have := getCtx_id s c x hx
    simp [this]
  unfold cancel
  simp only [h1]
  refine ⟨{ x with queued := false, reqID := 0, repMsg := none, reqMsg := none, timer := none, sendAbort := x.sendMsg.isSome }, ?_, rfl, rfl⟩
  exact getCtx_setCtx_eq _ c (fun y => { y with reqID := 0, repMsg := none, reqMsg := none, timer := none, sendAbort := y.sendMsg.isSome }) (fun y => rfl) { x with queued := false } h1

/-- Send on context c: the request gets a number no context and no transmission has carried, and joins the send queue -/
theorem send_T (t : State) (c n : Nat) (y1 : Ctx) (b : Bytes) (hn : t.nsent < n) (hy : getCtx t c = some y1)
    (hrm : y1.reqMsg = none) (hrp : y1.repMsg = none) (h : T t) :
    T (setCtx { t with nsent := n, sent := t.sent ++ [(n, b)], sendQ := t.sendQ ++ [c] } c
      (fun y => { y with reqID := n, queued := true, sendMsg := some b, sendFor := n, sendAbort := false })) := by
  have hid : ∀ y : Ctx, ({ y with reqID := n, queued := true, sendMsg := some b, sendFor := n, sendAbort := false } : Ctx).id = y.id := fun y => rfl
  have hg1 : ∀ d, getCtx { t with nsent := n, sent := t.sent ++ [(n, b)], sendQ := t.sendQ ++ [c] } d = getCtx t d := fun d => rfl
  have hc2 := getCtx_setCtx_eq { t with nsent := n, sent := t.sent ++ [(n, b)], sendQ := t.sendQ ++ [c] } c _ hid y1 (by rw [hg1]; exact hy)
  have hne2 : ∀ d, d ≠ c → getCtx (setCtx { t with nsent := n, sent := t.sent ++ [(n, b)], sendQ := t.sendQ ++ [c] } c
      (fun y => { y with reqID := n, queued := true, sendMsg := some b, sendFor := n, sendAbort := false })) d = getCtx t d :=
    fun d hd => (getCtx_setCtx_ne _ c d _ hid hd).trans (hg1 d)
  have hnz : n ≠ 0 := by omega
  constructor
  · intro e he
    have := h.ids e he
    show e.2.1 ≤ n ∧ e.2.1 ≠ 0
    exact ⟨by omega, this.2⟩
  · intro d y' hy'
    by_cases hdc : d = c
    · subst hdc
      rw [hc2] at hy'; cases hy'
      constructor
      · exact Nat.le_refl _
      · intro b' hb'
        have : y1.reqMsg = some b' := hb'
        rw [hrm] at this; cases this
      · intro _ e he
        have := (h.ids e he).1
        show e.2.1 ≠ n
        omega
      · intro _; exact hrm
      · intro hb'
        have : y1.reqMsg.isSome = true := hb'
        rw [hrm] at this; cases this
      · intro _; exact hrm
      · intro b' hb' _
        have : some b = some b' := hb'
        cases this
        show (n, b) ∈ t.sent ++ [(n, b)]
        simp
      · intro b' hb'
        have : y1.reqMsg = some b' := hb'
        rw [hrm] at this; cases this
    · rw [hne2 d hdc] at hy'
      have hcy := h.ctx d y' hy'
      exact ⟨by have := hcy.cid; show y'.reqID ≤ n; omega, hcy.kept, hcy.fresh, hcy.excl, hcy.named, hcy.replied,
        fun b' hb' hz => List.mem_append_left _ (hcy.pend b' hb' hz), fun b' hb' => List.mem_append_left _ (hcy.keptS b' hb')⟩
  · intro q hq
    have hq' : q ∈ t.sendQ ++ [c] := hq
    by_cases hqc : q = c
    · subst hqc
      exact ⟨_, hc2, hnz, hrp, Or.inl rfl⟩
    · simp only [List.mem_append, List.mem_singleton] at hq'
      rcases hq' with hq' | hq'
      · obtain ⟨y, hy', hr⟩ := h.queued q hq'
        exact ⟨y, by rw [hne2 q hqc]; exact hy', hr⟩
      · exact absurd hq' hqc
  · intro d d' x' y' hx' hy' he hnz'
    by_cases hdc : d = c <;> by_cases hdc' : d' = c
    · rw [hdc, hdc']
    · subst hdc
      rw [hc2] at hx'; cases hx'
      rw [hne2 d' hdc'] at hy'
      have := (h.ctx d' y' hy').cid
      have he' : n = y'.reqID := he
      omega
    · subst hdc'
      rw [hc2] at hy'; cases hy'
      rw [hne2 d hdc] at hx'
      have := (h.ctx d x' hx').cid
      have he' : x'.reqID = n := he
      omega
    · rw [hne2 d hdc] at hx'
      rw [hne2 d' hdc'] at hy'
      exact h.uniq d d' x' y' hx' hy' he hnz'
  · exact h.same
  · intro e he
    have he' : e ∈ t.sent ++ [(n, b)] := he
    simp only [List.mem_append, List.mem_singleton] at he'
    show e.1 ≤ n
    rcases he' with he' | rfl
    · have := h.sentIds e he'; omega
    · exact Nat.le_refl _
  · intro e1 he1 e2 he2 heq
    have he1' : e1 ∈ t.sent ++ [(n, b)] := he1
    have he2' : e2 ∈ t.sent ++ [(n, b)] := he2
    simp only [List.mem_append, List.mem_singleton] at he1' he2'
    rcases he1' with he1' | rfl <;> rcases he2' with he2' | rfl
    · exact h.sentFun e1 he1' e2 he2' heq
    · have := h.sentIds e1 he1'
      have heq' : e1.1 = n := heq
      omega
    · have := h.sentIds e2 he2'
      have heq' : n = e2.1 := heq
      omega
    · rfl
  · intro e he
    exact List.mem_append_left _ (h.logged e he)

/-- a reply for context c is stored: nothing is retained beside it -/
theorem storeReply_T (s : State) (c : Nat) (rep : Msg) (hnq : c ∉ s.sendQ) (h : T s) :
    T (setCtx s c (fun y => { y with reqMsg := none, repMsg := some rep, timer := none })) := by
  cases hx : getCtx s c with
  | none => exact setCtx_T_none s c _ (fun y => rfl) hx h
  | some x =>
    have hcx := h.ctx c x hx
    refine setCtx_T_at s c _ (fun y => rfl) x hx ?_ ?_ ?_ h
    · exact ⟨hcx.cid, (by intro b hb; cases hb), hcx.fresh, fun _ => rfl, (by intro hb; cases hb), fun _ => rfl, hcx.pend, (by intro b hb; cases hb)⟩
    · intro hm; exact absurd hm hnq
    · intro d' y hd hy he
      by_cases h0 : x.reqID = 0
      · exact h0
      · exact absurd (h.uniq c d' x y hx hy he h0).symm hd

theorem getCtx_append (s : State) (n : Ctx) (d : Nat) :
    getCtx { s with ctxs := s.ctxs ++ [n] } d = (getCtx s d).or (if n.id = d then some n else none) := by
  unfold getCtx
  simp only [List.find?_append, List.find?_cons, List.find?_nil]
  by_cases hnd : n.id = d <;> simp [hnd]

/-- a new context (no request, nothing stored) -/
theorem T_appendCtx (s : State) (n : Ctx) (hnew : getCtx s n.id = none) (h0 : n.reqID = 0) (h1 : n.reqMsg = none)
    (h2 : n.sendMsg = none) (h3 : n.repMsg = none) (h : T s) : T { s with ctxs := s.ctxs ++ [n] } := by
  have hback : ∀ d x, getCtx { s with ctxs := s.ctxs ++ [n] } d = some x → getCtx s d = some x ∨ (x = n ∧ d = n.id) := by
    intro d x hx
    rw [getCtx_append] at hx
    cases hg : getCtx s d with
    | some y => rw [hg] at hx; simp at hx; left; rw [hx]
    | none =>
      rw [hg] at hx
      simp only [Option.none_or] at hx
      split at hx
      · rename_i hnd
        cases hx; right; exact ⟨rfl, hnd.symm⟩
      · cases hx
  have hnT : CtxT s n := by
    refine ⟨by rw [h0]; exact Nat.zero_le _, ?_, ?_, fun _ => h1, ?_, fun _ => h1, ?_, ?_⟩
    · intro b hb; rw [h1] at hb; cases hb
    · intro hb; rw [h2] at hb; cases hb
    · intro hb; rw [h1] at hb; cases hb
    · intro b hb; rw [h2] at hb; cases hb
    · intro b hb; rw [h1] at hb; cases hb
  constructor
  · exact h.ids
  · intro d x hx
    rcases hback d x hx with hx | ⟨rfl, _⟩
    · exact CtxT_of s _ x (h.ctx d x hx) rfl rfl rfl
    · exact CtxT_of s _ _ hnT rfl rfl rfl
  · intro q hq
    obtain ⟨x, hx, hr⟩ := h.queued q hq
    exact ⟨x, getCtx_appendCtx s n q x hx, hr⟩
  · intro d d' x y hx hy he hnz
    rcases hback d x hx with hx | ⟨rfl, _⟩
    · rcases hback d' y hy with hy | ⟨rfl, _⟩
      · exact h.uniq d d' x y hx hy he hnz
      · rw [h0] at he; exact absurd he hnz
    · exact absurd h0 hnz
  · exact h.same
  · exact h.sentIds
  · exact h.sentFun
  · exact h.logged

theorem T_bump (s : State) (b : Bytes) (h : T s) : T { s with nsent := s.nsent + 1, sent := s.sent ++ [(s.nsent + 1, b)] } := by
  constructor
  · intro e he
    have := h.ids e he
    show e.2.1 ≤ s.nsent + 1 ∧ e.2.1 ≠ 0
    exact ⟨by omega, this.2⟩
  · intro d x hx
    have hcx := h.ctx d x hx
    exact ⟨by have := hcx.cid; show x.reqID ≤ s.nsent + 1; omega, hcx.kept, hcx.fresh, hcx.excl, hcx.named, hcx.replied,
      fun b' hb' hz => List.mem_append_left _ (hcx.pend b' hb' hz), fun b' hb' => List.mem_append_left _ (hcx.keptS b' hb')⟩
  · exact h.queued
  · exact h.uniq
  · exact h.same
  · intro e he
    have he' : e ∈ s.sent ++ [(s.nsent + 1, b)] := he
    simp only [List.mem_append, List.mem_singleton] at he'
    show e.1 ≤ s.nsent + 1
    rcases he' with he' | rfl
    · have := h.sentIds e he'; omega
    · exact Nat.le_refl _
  · intro e1 he1 e2 he2 heq
    have he1' : e1 ∈ s.sent ++ [(s.nsent + 1, b)] := he1
    have he2' : e2 ∈ s.sent ++ [(s.nsent + 1, b)] := he2
    simp only [List.mem_append, List.mem_singleton] at he1' he2'
    rcases he1' with he1' | rfl <;> rcases he2' with he2' | rfl
    · exact h.sentFun e1 he1' e2 he2' heq
    · have := h.sentIds e1 he1'
      have heq' : e1.1 = s.nsent + 1 := heq
      omega
    · have := h.sentIds e2 he2'
      have heq' : s.nsent + 1 = e2.1 := heq
      omega
    · rfl
  · intro e he
    exact List.mem_append_left _ (h.logged e he)

theorem core_T (s : State) (now : Nat) (op : List String) (h : T s) : ∀ r ∈ core s now op, T r.1 := by
  intro r hr
  unfold core at hr
  split at hr
  · -- addpipe
    split at hr
    · simp at hr; subst hr; exact h
    · simp at hr; subst hr
      exact pump_T _ _ _ (T_same s _ h rfl rfl rfl rfl (fun q hq => hq))
  · -- rmpipe
    simp only [List.mem_map] at hr
    obtain ⟨r0, hr0, rfl⟩ := hr
    exact dropPipe_T s _ _ h r0 hr0
  · -- inject
    rename_i p b
    try simp only [] at hr
    split at hr
    · simp at hr; subst hr; exact h
    · split at hr
      · simp at hr; subst hr; exact h
      · try simp only [] at hr
        have h0 : ∀ q, T ({ s with readyQ := q } : State) := fun q => T_same s _ h rfl rfl rfl rfl (fun q hq => hq)
        split at hr
        · simp at hr; subst hr; exact h0 _
        · rename_i rid c hfind
          simp at hr; subst hr
          apply wake_T
          have h1 := cancelSend_T _ c (h0 (swapFront s.readyQ (natOf p)))
          exact storeReply_T _ c _ (cancelSend_not_queued _ c) (T_same _ _ h1 rfl rfl rfl rfl (fun q hq => hq))
  · -- send
    rename_i call ctx hd b
    simp only [] at hr
    split at hr
    · simp at hr
    · rename_i c hc
      have h0 : T { s with nsent := s.nsent + 1, sent := s.sent ++ [(s.nsent + 1, bytesOf b)] } := T_bump s (bytesOf b) h
      split at hr
      · simp at hr; subst hr; exact h0
      · split at hr
        · simp at hr; subst hr; exact h0
        · split at hr
          · simp at hr
          have hcid : c.id = natOf ctx := getCtx_id s _ c hc
          have hc0 : getCtx s c.id = some c := by rw [hcid]; exact hc
          obtain ⟨y1, hy1, hrm, hrp⟩ := cancel_getCtx_cleared s c.id c hc0
          have h2 : T (setCtx { (cancel { s with nsent := s.nsent + 1, sent := s.sent ++ [(s.nsent + 1, bytesOf b)] } c.id) with sendQ := (cancel { s with nsent := s.nsent + 1, sent := s.sent ++ [(s.nsent + 1, bytesOf b)] } c.id).sendQ ++ [c.id] } c.id (fun y => { y with reqID := s.nsent + 1, queued := true, sendMsg := some (bytesOf b), sendFor := s.nsent + 1, sendAbort := false })) := by
            rw [cancel_nsent_comm]
            have hse : (cancel s c.id).sent = s.sent := by
              unfold cancel cancelSend
              simp only []
              split <;> rfl
            have := send_T (cancel s c.id) c.id (s.nsent + 1) y1 (bytesOf b) (by rw [cancel_nsent]; omega) hy1 hrm hrp (cancel_T s c.id h)
            rw [hse] at this
            exact this
          have h3 := wake_T _ c.id h2
          have hadd : ∀ (ps : List Parked), T { (wake (setCtx { (cancel { s with nsent := s.nsent + 1, sent := s.sent ++ [(s.nsent + 1, bytesOf b)] } c.id) with sendQ := (cancel { s with nsent := s.nsent + 1, sent := s.sent ++ [(s.nsent + 1, bytesOf b)] } c.id).sendQ ++ [c.id] } c.id (fun y => { y with reqID := s.nsent + 1, queued := true, sendMsg := some (bytesOf b), sendFor := s.nsent + 1, sendAbort := false })) c.id).1 with parkedSend := ps } :=
            fun ps => T_same _ _ h3 rfl rfl rfl rfl (fun q hq => hq)
          split at hr
          · simp at hr; subst hr
            refine T_same (pump _ _ _).1 _ ?_ rfl rfl rfl rfl (fun q hq => hq)
            apply pump_T
            exact hadd _
          · simp at hr; subst hr
            apply pump_T
            exact hadd _
  · -- recv
    rename_i call ctx
    simp only [] at hr
    split at hr
    · simp at hr
    · rename_i c hc
      split at hr
      · simp at hr; subst hr; exact h
      · split at hr
        · simp at hr; subst hr; exact h
        · split at hr
          · simp at hr; subst hr; exact h
          · split at hr
            · simp at hr
            simp at hr; subst hr
            apply wake_T
            refine setCtx_T _ _ _ (fun y => ⟨rfl, rfl, rfl, rfl, rfl⟩) ?_
            exact T_same s _ h rfl rfl rfl rfl (fun q hq => hq)
  · simp at hr; subst hr; exact setCtx_T s _ _ (fun y => ⟨rfl, rfl, rfl, rfl, rfl⟩) h
  · simp at hr; subst hr; exact setCtx_T s _ _ (fun y => ⟨rfl, rfl, rfl, rfl, rfl⟩) h
  · simp at hr; subst hr; exact setCtx_T s _ _ (fun y => ⟨rfl, rfl, rfl, rfl, rfl⟩) h
  · simp at hr; subst hr; exact setCtx_T s _ _ (fun y => ⟨rfl, rfl, rfl, rfl, rfl⟩) h
  · simp at hr; subst hr; exact setCtx_T s _ _ (fun y => ⟨rfl, rfl, rfl, rfl, rfl⟩) h
  · simp at hr; subst hr; exact T_same s _ h rfl rfl rfl rfl (fun q hq => hq)
  · -- release ok
    split at hr
    · simp at hr
    · rename_i pp hpp
      split at hr
      · simp at hr
      · simp only [] at hr
        simp at hr; subst hr
        apply pump_T
        have h1 : T (setPipe s pp.id (fun x => { x with inflight := none })) := T_same s _ h rfl rfl rfl rfl (fun q hq => hq)
        split
        · exact h1
        · exact T_same _ _ h1 rfl rfl rfl rfl (fun q hq => hq)
  · -- release err
    simp only [List.mem_map] at hr
    obtain ⟨r0, hr0, rfl⟩ := hr
    exact dropPipe_T s _ _ h r0 hr0
  · -- openctx
    rename_i id
    split at hr
    · simp at hr; subst hr; exact h
    · split at hr
      · simp at hr
      · rename_i hnone
        split at hr
        · simp at hr
        · simp at hr; subst hr
          refine T_appendCtx s _ ?_ rfl rfl rfl rfl h
          show getCtx s (natOf id) = none
          cases hg : getCtx s (natOf id) with
          | none => rfl
          | some y => rw [hg] at hnone; simp at hnone
  · -- closectx
    split at hr
    · simp at hr
    · rename_i c hc
      split at hr
      · simp at hr; subst hr; exact h
      · simp at hr; subst hr
        exact wake_T _ _ (cancel_T _ _ (setCtx_T _ _ _ (fun y => ⟨rfl, rfl, rfl, rfl, rfl⟩) h))
  · simp at hr; subst hr; exact h
  · -- close
    split at hr
    · simp at hr; subst hr; exact h
    · simp at hr; subst hr
      exact foldl_K closeOne (fun acc : State × List (Nat × Ev) => T acc.1) (fun b a hb => closeOne_T b a hb) s.ctxs _
        (T_same s _ h rfl rfl rfl rfl (fun q hq => hq))
  · simp at hr

theorem init_T : T init := by
  constructor
  · intro e he; simp [init] at he
  · intro d x hx
    have : x = { id := 0 } := by
      unfold getCtx at hx
      have := List.mem_of_find?_eq_some hx
      simpa [init] using this
    subst this
    exact ⟨Nat.zero_le _, (by intro b hb; cases hb), (by intro hb; cases hb), fun _ => rfl, (by intro hb; cases hb), fun _ => rfl,
      (by intro b hb; cases hb), (by intro b hb; cases hb)⟩
  · intro c hc; simp [init] at hc
  · intro d d' x y hx hy
    have hx' : x = { id := 0 } := by
      unfold getCtx at hx
      have := List.mem_of_find?_eq_some hx
      simpa [init] using this
    subst hx'
    intro _ hnz; exact absurd rfl hnz
  · intro e he; simp [init] at he
  · intro e he; simp [init] at he
  · intro e he; simp [init] at he
  · intro e he; simp [init] at he

theorem step_T (s : State) (op : List String) (h : T s) : ∀ o ∈ step s op, T o.1 := by
  intro o ho
  simp only [step, List.mem_flatMap, List.mem_map] at ho
  obtain ⟨st, hst, r, hr, r2, hr2, rfl⟩ := ho
  have h1 := timerOutcomes_T s _ h st hst
  have h2 := core_T st.1 _ _ h1 r hr
  exact timerOutcomes_T { r.1 with tprev := opTime op } _ (T_same r.1 _ h2 rfl rfl rfl rfl (fun q hq => hq)) r2 hr2

/-- over every history: the invariant holds -/
theorem reach_T (s : State) (h : Reach s) : T s := by
  induction h with
  | init => exact init_T
  | step s op o _ ho ih => exact step_T s op ih o ho

/-- over every history: any two transmissions under one request number — the first one and every retry, on whatever
    pipe, after whatever timers, cancellations, pipe losses and replies — carried the same bytes -/
theorem retransmissions_identical (s : State) (h : Reach s) :
    ∀ e1 ∈ s.txlog, ∀ e2 ∈ s.txlog, e1.2.1 = e2.2.1 → e1.2.2 = e2.2.2 :=
  (reach_T s h).same

/-- over every history: what is transmitted under a request number is exactly what the application gave to the Send
    call that got that number (`sent` records each accepted Send: numbers are given out once) -/
theorem transmissions_are_what_was_sent (s : State) (h : Reach s) :
    (∀ e ∈ s.txlog, (e.2.1, e.2.2) ∈ s.sent) ∧ (∀ e1 ∈ s.sent, ∀ e2 ∈ s.sent, e1.1 = e2.1 → e1.2 = e2.2) :=
  ⟨(reach_T s h).logged, (reach_T s h).sentFun⟩

/-! ### the ghost log is what the model emits -/

theorem wakeSends_txlog (s : State) (c : Nat) (x : Ctx) : (wakeSends s c x).1.txlog = s.txlog := by
  simp only [wakeSends]
  split <;> rfl

theorem wakeRecv_txlog (s : State) (c : Nat) (np : Bool) (evs : List (Nat × Ev)) : (wakeRecv s c np evs).1.txlog = s.txlog := by
  unfold wakeRecv
  split
  · rfl
  · split
    · rfl
    · split
      · rfl
      · simp only []
        split
        · rfl
        · split <;> rfl

theorem wake_txlog (s : State) (c : Nat) : (wake s c).1.txlog = s.txlog := by
  unfold wake
  split
  · rfl
  · rw [wakeRecv_txlog, wakeSends_txlog]

/-- one hand-off appends exactly one entry to the ghost log, and that entry is what the model emits as the transmission:
    at once as the event `tx p id body` when the pipe's send returns, or as the pipe's in-flight message (emitted as
    the same event when the held send is released) -/
theorem pumpStep_logs_what_it_emits (arm : Nat × Nat) (s : State) (c p : Nat) (sq rq : List Nat) (x : Ctx) (pp : Pipe) :
    (pumpStep arm s c p sq rq x pp).1.txlog = s.txlog ++ [(p, x.reqID, (x.sendMsg.orElse (fun _ => x.reqMsg)).getD [])] ∧
    (pp.hold = false → (pumpStep arm s c p sq rq x pp).2.getLast? = some (p, Ev.tx p (idBytes x.reqID) ((x.sendMsg.orElse (fun _ => x.reqMsg)).getD []))) := by
  unfold pumpStep
  constructor
  · cases pp.hold <;> cases x.sendMsg.isSome <;> simp [wake_txlog, setPipe, setCtx]
  · intro hh
    simp [hh]

end Req
end Proto
end Model
