/-
  Model/Proto/Mesh.lean — BUS / XBUS (protocol/xbus, protocol/bus) and STAR / XSTAR (protocol/xstar, protocol/star):
  a Send is cloned to the peers' queues (BUS: all but the pipe named in the raw header; STAR: all), whatever
  arrives is handed to the application, and a STAR socket also forwards it to all its other peers.
-/
import Model.Proto.Fanout
import Model.Hop
namespace Model
namespace Proto
namespace Mesh

inductive Flavor where | bus | xbus | star | xstar
deriving Repr, BEq, DecidableEq

def Flavor.isStar : Flavor → Bool
  | .star | .xstar => true
  | _ => false
def Flavor.cooked : Flavor → Bool
  | .bus | .star => true
  | _ => false

structure State where
  flavor : Flavor
  starDrop : GExpr                   -- xstar receiver's drop guard, regenerated from the source
  ttl : Nat := 8
  pipes : List OutPipe := []
  sendQLen : Nat := 128
  recvQ : List Msg := []
  recvCap : Nat := 128
  blocked : List (Nat × Msg) := []   -- receivers holding a message for the application
  backlog : List (Nat × Bytes) := []
  waiting : List Nat := []
  closed : Bool := false
deriving Repr, BEq

def init (f : Flavor) (g : GExpr) : State := { flavor := f, starDrop := g }

/-- what the application sees of a received message -/
def userView (s : State) (m : Msg) : Msg := if s.flavor.cooked then ([], m.2) else m

/-- targets of a fan-out: every pipe except `src` -/
def others (src : Nat) (p : OutPipe) : Bool := p.id != src

def progress (s : State) : Option (State × List (Nat × Ev)) :=
  match s.waiting, s.recvQ with
  | call :: rest, m :: q => some ({ s with waiting := rest, recvQ := q }, [(call, Ev.retMsg call (userView s m).1 (userView s m).2)])
  | _, _ =>
  match s.blocked with
  | (_, m) :: bl =>
    match s.waiting with
    | call :: rest => some ({ s with waiting := rest, blocked := bl }, [(call, Ev.retMsg call (userView s m).1 (userView s m).2)])
    | [] => if s.recvQ.length < s.recvCap then some ({ s with recvQ := s.recvQ ++ [m], blocked := bl }, []) else nextBacklog s
  | [] => nextBacklog s
where
  nextBacklog (s : State) : Option (State × List (Nat × Ev)) :=
    match s.backlog.find? (fun pb => !(s.blocked.any (fun x => x.1 == pb.1))) with
    | some (p, b) =>
      let s1 := { s with backlog := s.backlog.erase (p, b) }
      if s.flavor.isStar then
        match Hop.starRecv s.starDrop s.ttl b with
        | none => some (s1, [])
        | some (h, body) =>
          -- forward to every other peer, then hand a private copy up
          let (ps, evs) := fanout s1.pipes (others p) (h, body)
          some ({ s1 with pipes := ps, blocked := s1.blocked ++ [(p, (h, body))] }, evs)
      else some ({ s1 with blocked := s1.blocked ++ [(p, (beEnc 4 p, b))] }, [])
    | none => none

def settle : Nat → State → State × List (Nat × Ev)
  | 0, s => (s, [])
  | fuel+1, s =>
    match progress s with
    | none => (s, [])
    | some (s', evs) =>
      let (s'', evs') := settle fuel s'
      (s'', evs ++ evs')

def settled (s : State) (pre : List Ev) (evs : List (Nat × Ev)) : State × List Ev :=
  let (s', more) := settle (4 * (s.recvQ.length + s.blocked.length + s.backlog.length + s.waiting.length) + 8) s
  (s', pre ++ sortByKey (evs ++ more))

def dropPipe (s : State) (p : Nat) : State :=
  { s with pipes := removePipe s.pipes p, blocked := s.blocked.filter (fun x => x.1 != p), backlog := s.backlog.filter (fun x => x.1 != p) }

/-- (source pipe to skip, header to transmit) of a Send, or none when the message is discarded -/
def sendPlan (s : State) (hdr : Bytes) : Option (Nat × Bytes) :=
  match s.flavor with
  | .bus => some (0, [])
  | .xbus => if hdr.length = 4 then some (beDec hdr, []) else some (0, hdr)
  | .star => some (0, [0, 0, 0, 0])
  | .xstar => if hdr.length = 4 then some (0, hdr) else none

def step (s : State) (op : List String) : List (State × List Ev) :=
  match op with
  | ["addpipe", p] =>
    if s.closed then [(s, [Ev.res "closed"])]
    else [({ s with pipes := s.pipes ++ [{ id := natOf p, cap := s.sendQLen }] }, [Ev.res "ok"])]
  | ["rmpipe", p] => [settled (dropPipe s (natOf p)) [] [(natOf p, Ev.closed (natOf p))]]
  | ["inject", p, b] =>
    if (findPipe s.pipes (natOf p)).isSome then [settled { s with backlog := s.backlog ++ [(natOf p, bytesOf b)] } [] []] else [(s, [])]
  | ["send", call, _, h, b] =>
    let call := natOf call
    if s.closed then [(s, [Ev.retErr call "closed"])] else
    match sendPlan s (bytesOf h) with
    | none => [(s, [Ev.retErr call "ok"])]
    | some (src, hdr) =>
      let (ps, evs) := fanout s.pipes (fun p => s.flavor.isStar || others src p) (hdr, bytesOf b)
      [({ s with pipes := ps }, Ev.retErr call "ok" :: sortByKey evs)]
  | ["recv", call, _] =>
    let call := natOf call
    if s.closed then
      match s.recvQ with
      | [] =>
        -- nothing queued; a BUS receiver still holding a message keeps offering it (it only watches its own pipe):
        -- the select may take it instead of the closed channel
        match s.blocked with
        | [] => [(s, [Ev.retErr call "closed"])]
        | (_, m) :: bl => [(s, [Ev.retErr call "closed"]), settled { s with blocked := bl } [] [(call, Ev.retMsg call (userView s m).1 (userView s m).2)]]
      | m :: q => [(s, [Ev.retErr call "closed"]), settled { s with recvQ := q } [] [(call, Ev.retMsg call (userView s m).1 (userView s m).2)]]
    else [settled { s with waiting := s.waiting ++ [call] } [] []]
  | ["setopt", _, "TTL", n] => [({ s with ttl := natOf n }, [Ev.res "ok"])]
  | ["setopt", _, "WRITEQ-LEN", n] => [({ s with sendQLen := natOf n }, [Ev.res "ok"])]
  -- a fresh, empty receive queue of the new length.  STAR: receivers holding a message for the old queue discard it
  -- and carry on (D20 repaired).  BUS: such a receiver leaves its loop and the peer is disconnected (known finding D6,
  -- not modelled): the operation is only admitted while no receiver is holding a message
  | ["setopt", _, "READQ-LEN", n] =>
    if s.flavor.isStar then [settled { s with recvQ := [], recvCap := natOf n, blocked := [] } [Ev.res "ok"] []]
    else if s.blocked.isEmpty then [settled { s with recvQ := [], recvCap := natOf n } [Ev.res "ok"] []]
    else []
  | ["hold", p, v] => [({ s with pipes := modifyPipe s.pipes (natOf p) (fun x => { x with hold := v == "1" }) }, [])]
  | ["release", p, "ok"] =>
    match findPipe s.pipes (natOf p) with
    | none => []
    | some x =>
      let (x', evs) := x.releaseOk
      [settled { s with pipes := modifyPipe s.pipes x.id (fun _ => x') } [] evs]
  | ["release", p, "err"] => [settled (dropPipe s (natOf p)) [] [(natOf p, Ev.closed (natOf p))]]
  | ["openctx", _] => [(s, [Ev.res "protoop"])]
  | ["close"] =>
    if s.closed then [(s, [Ev.res "closed"])] else
    let evs := s.waiting.map (fun c => (c, Ev.retErr c "closed"))
    -- STAR: a pipe receiver that is holding a message for a full queue sees the socket close, drops the message and
    -- closes its pipe (BUS receivers only watch their own pipe)
    let gone := if s.flavor.isStar then s.blocked.map (·.1) else []
    let s1 := gone.foldl dropPipe s
    [({ s1 with closed := true, waiting := [] }, Ev.res "ok" :: sortByKey (evs ++ gone.map (fun p => (p, Ev.closed p))))]
  | _ => []

end Mesh
end Proto
end Model
