/-
  Model/Proto/ReqReady.lean — REQ: no request waits while a pipe is ready, over every history.
  R: every pipe in the ready queue is connected.  Q: the send queue or the ready queue is empty — whenever an operation
  (with the timers that fired before and after it) has been processed, every context waiting to transmit has been paired
  with every pipe able to transmit, as far as either lasts.
-/
import Model.Proto.ReqTx
namespace Model
namespace Proto
namespace Req

def R (s : State) : Prop := ∀ p ∈ s.readyQ, (getPipe s p).isSome = true
def Q (s : State) : Prop := s.sendQ = [] ∨ s.readyQ = []

theorem perms_mem_aux : ∀ (n : Nat) (l : List Nat), l.length = n → ∀ m ∈ perms l, ∀ x ∈ m, x ∈ l := by
  intro n
  induction n with
  | zero =>
    intro l hl m hm x hx
    have : l = [] := List.length_eq_zero_iff.mp hl
    subst this
    rw [perms] at hm
    simp at hm; subst hm; cases hx
  | succ n ih =>
    intro l hl m hm x hx
    cases l with
    | nil => simp at hl
    | cons a t =>
      rw [perms] at hm
      case x_1 => intro h; cases h
      have hm := List.mem_of_mem_take hm
      simp only [List.mem_flatMap, List.mem_map] at hm
      obtain ⟨y, hy, p, hp, rfl⟩ := hm
      have hlen : ((a :: t).erase y).length = n := by
        rw [List.length_erase_of_mem hy]; simp at hl ⊢; omega
      simp only [List.mem_cons] at hx
      rcases hx with rfl | hx
      · exact hy
      · exact List.mem_of_mem_erase (ih _ hlen p hp x hx)

theorem perms_mem (l m : List Nat) (h : m ∈ perms l) : ∀ x ∈ m, x ∈ l := perms_mem_aux l.length l rfl m h

/-! ### what the context-level functions leave alone -/

theorem cancelSend_pr (s : State) (c : Nat) : (cancelSend s c).pipes = s.pipes ∧ (cancelSend s c).readyQ = s.readyQ ∧
    (cancelSend s c).sendQ = s.sendQ.filter (· != c) := ⟨rfl, rfl, rfl⟩

theorem cancel_pr (s : State) (c : Nat) : (cancel s c).pipes = s.pipes ∧ (cancel s c).readyQ = s.readyQ ∧
    (cancel s c).sendQ = s.sendQ.filter (· != c) := by
  unfold cancel
  simp only []
  split <;> exact ⟨rfl, rfl, rfl⟩

theorem wakeSends_pr (s : State) (c : Nat) (x : Ctx) : (wakeSends s c x).1.pipes = s.pipes ∧ (wakeSends s c x).1.readyQ = s.readyQ ∧
    ((wakeSends s c x).1.sendQ = s.sendQ ∨ (wakeSends s c x).1.sendQ = s.sendQ.filter (· != c)) := by
  simp only [wakeSends]
  split
  · exact ⟨rfl, rfl, Or.inr rfl⟩
  · exact ⟨rfl, rfl, Or.inl rfl⟩

theorem wakeRecv_pr (s : State) (c : Nat) (np : Bool) (evs : List (Nat × Ev)) :
    (wakeRecv s c np evs).1.pipes = s.pipes ∧ (wakeRecv s c np evs).1.readyQ = s.readyQ ∧ (wakeRecv s c np evs).1.sendQ = s.sendQ := by
  unfold wakeRecv
  split
  · exact ⟨rfl, rfl, rfl⟩
  · split
    · exact ⟨rfl, rfl, rfl⟩
    · split
      · exact ⟨rfl, rfl, rfl⟩
      · simp only []
        split
        · exact ⟨rfl, rfl, rfl⟩
        · split <;> exact ⟨rfl, rfl, rfl⟩

theorem wake_pr (s : State) (c : Nat) : (wake s c).1.pipes = s.pipes ∧ (wake s c).1.readyQ = s.readyQ ∧
    ((wake s c).1.sendQ = s.sendQ ∨ (wake s c).1.sendQ = s.sendQ.filter (· != c)) := by
  unfold wake
  split
  · exact ⟨rfl, rfl, Or.inl rfl⟩
  · obtain ⟨a1, a2, a3⟩ := wakeRecv_pr (wakeSends s c _).1 c (_) (wakeSends s c _).2
    obtain ⟨b1, b2, b3⟩ := wakeSends_pr s c (by assumption)
    refine ⟨a1.trans b1, a2.trans b2, ?_⟩
    rw [a3]; exact b3

/-- R and Q look only at pipes, readyQ, sendQ -/
theorem R_same (s s' : State) (h : R s) (hp : s'.pipes = s.pipes) (hr : ∀ p ∈ s'.readyQ, p ∈ s.readyQ) : R s' := by
  intro p hpm
  have := h p (hr p hpm)
  unfold getPipe at this ⊢
  rw [hp]; exact this

theorem Q_shrink (s s' : State) (h : Q s) (hs : s.sendQ = [] → s'.sendQ = []) (hr : s.readyQ = [] → s'.readyQ = []) : Q s' := by
  rcases h with h | h
  · exact Or.inl (hs h)
  · exact Or.inr (hr h)

theorem filter_nil_of_nil {α} (l : List α) (f : α → Bool) (h : l = []) : l.filter f = [] := by rw [h]; rfl

theorem wake_R (s : State) (c : Nat) (h : R s) : R (wake s c).1 :=
  R_same s _ h (wake_pr s c).1 (fun p hp => by rw [(wake_pr s c).2.1] at hp; exact hp)

theorem wake_Q (s : State) (c : Nat) (h : Q s) : Q (wake s c).1 := by
  refine Q_shrink s _ h ?_ ?_
  · intro e
    rcases (wake_pr s c).2.2 with e' | e'
    · rw [e', e]
    · rw [e', e]; rfl
  · intro e; rw [(wake_pr s c).2.1, e]

theorem cancel_R (s : State) (c : Nat) (h : R s) : R (cancel s c) :=
  R_same s _ h (cancel_pr s c).1 (fun p hp => by rw [(cancel_pr s c).2.1] at hp; exact hp)

theorem cancel_Q (s : State) (c : Nat) (h : Q s) : Q (cancel s c) := by
  refine Q_shrink s _ h ?_ ?_
  · intro e; rw [(cancel_pr s c).2.2, e]; rfl
  · intro e; rw [(cancel_pr s c).2.1, e]

theorem cancelSend_R (s : State) (c : Nat) (h : R s) : R (cancelSend s c) := R_same s _ h rfl (fun p hp => hp)

theorem cancelSend_Q (s : State) (c : Nat) (h : Q s) : Q (cancelSend s c) := by
  refine Q_shrink s _ h ?_ ?_
  · intro e; show s.sendQ.filter _ = []; rw [e]; rfl
  · intro e; exact e

theorem wake_sendQ_le (s : State) (c : Nat) : (wake s c).1.sendQ.length ≤ s.sendQ.length := by
  rcases (wake_pr s c).2.2 with e | e
  · rw [e]; exact Nat.le_refl _
  · rw [e]; exact List.length_filter_le _ _

theorem getPipe_setPipe (s : State) (p : Nat) (f : Pipe → Pipe) (hf : ∀ y, (f y).id = y.id) (q : Nat) :
    getPipe (setPipe s p f) q = (getPipe s q).map (fun y => if y.id = p then f y else y) := by
  unfold getPipe setPipe
  simp only [List.find?_map]
  have : ((fun x => decide (x.id = q)) ∘ fun x => if x.id = p then f x else x) = (fun x : Pipe => decide (x.id = q)) := by
    funext y
    simp only [Function.comp]
    split
    · rw [hf]
    · rfl
  rw [this]

theorem setPipe_R (s : State) (p : Nat) (f : Pipe → Pipe) (hf : ∀ y, (f y).id = y.id) (h : R s) : R (setPipe s p f) := by
  intro q hq
  rw [getPipe_setPipe s p f hf q]
  have := h q hq
  cases hg : getPipe s q with
  | none => rw [hg] at this; cases this
  | some y => rfl

theorem pumpStep_R (arm : Nat × Nat) (s : State) (c p : Nat) (sq rq : List Nat) (x : Ctx) (pp : Pipe)
    (hr : s.readyQ = p :: rq) (h : R s) : R (pumpStep arm s c p sq rq x pp).1 := by
  have hp : (getPipe s p).isSome = true := h p (by rw [hr]; simp)
  have h1 : R { s with sendQ := sq, readyQ := rq, ctxByID := if x.sendMsg.isSome then s.ctxByID.filter (fun e => e.2 != c) ++ [(x.reqID, c)] else s.ctxByID, txlog := s.txlog ++ [(p, x.reqID, (x.sendMsg.orElse (fun _ => x.reqMsg)).getD [])] } :=
    R_same s _ h rfl (fun q hq => by rw [hr]; exact List.mem_cons_of_mem _ hq)
  have hp1 : (getPipe { s with sendQ := sq, readyQ := rq, ctxByID := if x.sendMsg.isSome then s.ctxByID.filter (fun e => e.2 != c) ++ [(x.reqID, c)] else s.ctxByID, txlog := s.txlog ++ [(p, x.reqID, (x.sendMsg.orElse (fun _ => x.reqMsg)).getD [])] } p).isSome = true := hp
  have h2 : R (setCtx { s with sendQ := sq, readyQ := rq, ctxByID := if x.sendMsg.isSome then s.ctxByID.filter (fun e => e.2 != c) ++ [(x.reqID, c)] else s.ctxByID, txlog := s.txlog ++ [(p, x.reqID, (x.sendMsg.orElse (fun _ => x.reqMsg)).getD [])] } c
      (fun y => { y with queued := false, reqMsg := some ((x.sendMsg.orElse (fun _ => x.reqMsg)).getD []), sendMsg := none, lastPipe := some p, timer := if y.resendTime > 0 then some { id := y.reqID, tmin := arm.1, tmax := arm.2, period := y.resendTime } else y.timer })) :=
    R_same _ _ h1 rfl (fun q hq => hq)
  have key : ∀ (r3 : State × List (Nat × Ev)), R r3.1 → (getPipe r3.1 p).isSome = true → ∀ (f : Pipe → Pipe), (∀ y, (f y).id = y.id) → ∀ ev,
      R (if pp.hold = true then (setPipe r3.1 p f, r3.2) else ({ r3.1 with readyQ := r3.1.readyQ ++ [p] }, r3.2 ++ ev)).1 := by
    intro r3 hr3 hp3 f hf ev
    cases pp.hold
    · intro q hq
      have hq' : q ∈ r3.1.readyQ ++ [p] := hq
      simp only [List.mem_append, List.mem_singleton] at hq'
      rcases hq' with hq' | rfl
      · exact hr3 q hq'
      · exact hp3
    · exact setPipe_R _ _ _ hf hr3
  unfold pumpStep
  refine key _ ?_ ?_ (fun q => { q with inflight := some (idBytes x.reqID, (x.sendMsg.orElse (fun _ => x.reqMsg)).getD []) }) (fun y => rfl) _
  · cases x.sendMsg.isSome
    · exact h2
    · exact wake_R _ c h2
  · cases x.sendMsg.isSome
    · exact hp
    · show (getPipe (wake _ c).1 p).isSome = true
      unfold getPipe
      rw [(wake_pr _ c).1]
      exact hp

theorem pumpStep_sendQ_le (arm : Nat × Nat) (s : State) (c p : Nat) (sq rq : List Nat) (x : Ctx) (pp : Pipe) :
    (pumpStep arm s c p sq rq x pp).1.sendQ.length ≤ sq.length := by
  unfold pumpStep
  have key : ∀ (r3 : State × List (Nat × Ev)), r3.1.sendQ.length ≤ sq.length → ∀ (f : Pipe → Pipe) ev,
      (if pp.hold = true then (setPipe r3.1 p f, r3.2) else ({ r3.1 with readyQ := r3.1.readyQ ++ [p] }, r3.2 ++ ev)).1.sendQ.length ≤ sq.length := by
    intro r3 h3 f ev
    cases pp.hold <;> exact h3
  refine key _ ?_ _ _
  cases x.sendMsg.isSome
  · exact Nat.le_refl _
  · exact wake_sendQ_le _ c

/-- after the scheduler has run, the send queue or the ready queue is empty -/
theorem pump_TRQ : ∀ (fuel : Nat) (arm : Nat × Nat) (s : State), T s → R s → s.sendQ.length ≤ fuel →
    R (pump fuel arm s).1 ∧ Q (pump fuel arm s).1 := by
  intro fuel
  induction fuel with
  | zero =>
    intro arm s _ hR hl
    exact ⟨hR, Or.inl (List.length_eq_zero_iff.mp (Nat.le_zero.mp hl))⟩
  | succ n ih =>
    intro arm s hT hR hl
    simp only [pump]
    split
    · rename_i c sq p rq hsq hrq
      split
      · rename_i x pp hx hp
        apply ih arm _ (pumpStep_T arm s c p sq rq x pp hsq hx hT) (pumpStep_R arm s c p sq rq x pp hrq hR)
        have := pumpStep_sendQ_le arm s c p sq rq x pp
        rw [hsq] at hl
        simp only [List.length_cons] at hl
        omega
      · -- the head of the send queue names a context and the head of the ready queue a connected pipe
        rename_i hno
        obtain ⟨x, hx, _⟩ := hT.queued c (by rw [hsq]; simp)
        have hp := hR p (by rw [hrq]; simp)
        cases hg : getPipe s p with
        | none => rw [hg] at hp; cases hp
        | some pp => exact absurd hg (hno x pp hx)
    · rename_i hno
      refine ⟨hR, ?_⟩
      cases hs : s.sendQ with
      | nil => exact Or.inl hs
      | cons c sq =>
        cases hr : s.readyQ with
        | nil => exact Or.inr hr
        | cons p rq => exact absurd hr (hno c sq p rq hs)

/-- the three together -/
def W (s : State) : Prop := T s ∧ R s ∧ Q s

theorem W_same (s s' : State) (h : W s) (hc : s'.ctxs = s.ctxs) (ht : s'.txlog = s.txlog) (hn : s'.nsent = s.nsent)
    (hse : s'.sent = s.sent) (hq : s'.sendQ = s.sendQ) (hp : s'.pipes = s.pipes) (hr : s'.readyQ = s.readyQ) : W s' :=
  ⟨T_same s s' h.1 hc ht hn hse (fun c hcq => by rw [hq] at hcq; exact hcq),
   R_same s s' h.2.1 hp (fun p hpm => by rw [hr] at hpm; exact hpm),
   Q_shrink s s' h.2.2 (fun e => by rw [hq, e]) (fun e => by rw [hr, e])⟩

theorem setCtx_W (s : State) (c : Nat) (f : Ctx → Ctx)
    (hf : ∀ y, (f y).id = y.id ∧ (f y).reqID = y.reqID ∧ (f y).reqMsg = y.reqMsg ∧ (f y).sendMsg = y.sendMsg ∧ (f y).repMsg = y.repMsg)
    (h : W s) : W (setCtx s c f) :=
  ⟨setCtx_T s c f hf h.1, R_same s _ h.2.1 rfl (fun p hp => hp), h.2.2⟩

theorem cancel_W (s : State) (c : Nat) (h : W s) : W (cancel s c) := ⟨cancel_T s c h.1, cancel_R s c h.2.1, cancel_Q s c h.2.2⟩
theorem cancelSend_W (s : State) (c : Nat) (h : W s) : W (cancelSend s c) := ⟨cancelSend_T s c h.1, cancelSend_R s c h.2.1, cancelSend_Q s c h.2.2⟩
theorem wake_W (s : State) (c : Nat) (h : W s) : W (wake s c).1 := ⟨wake_T s c h.1, wake_R s c h.2.1, wake_Q s c h.2.2⟩

theorem resend_W (s : State) (arm : Nat × Nat) (c id : Nat) (h : W s) : W (resend s arm c id).1 := by
  refine ⟨resend_T s arm c id h.1, ?_⟩
  obtain ⟨hT, hR, hQ⟩ := h
  unfold resend
  split
  · exact ⟨hR, hQ⟩
  · rename_i x hx
    split
    · rename_i hc
      simp only [Bool.and_eq_true] at hc
      have hcx := hT.ctx c x hx
      have hrep : x.repMsg = none := by
        cases hr : x.repMsg with
        | none => rfl
        | some r =>
          have := hcx.replied (by rw [hr]; rfl)
          rw [this] at hc; exact absurd hc.1.2 (by simp)
      have hT1 := T_enqueue s c x hx (hcx.named hc.1.2) hrep (Or.inr hc.1.2) hT
      have hR1 : R { s with sendQ := s.sendQ ++ [c] } := R_same s _ hR rfl (fun p hp => hp)
      apply pump_TRQ
      · exact setCtx_T _ c (fun y => { y with queued := true }) (fun y => ⟨rfl, rfl, rfl, rfl, rfl⟩) hT1
      · exact R_same _ _ hR1 rfl (fun p hp => hp)
      · show (s.sendQ ++ [c]).length ≤ fuelOf s + 2
        unfold fuelOf
        simp only [List.length_append, List.length_cons, List.length_nil]
        omega
    · exact ⟨hR, hQ⟩

theorem readyVariants_W (st : State × List (Nat × Ev)) (h : W st.1) : ∀ r ∈ readyVariants st, W r.1 := by
  intro r hr
  refine ⟨readyVariants_T st h.1 r hr, ?_⟩
  unfold readyVariants at hr
  simp only [] at hr
  split at hr
  · simp at hr; subst hr; exact h.2
  · rename_i hcond
    simp only [List.mem_map] at hr
    obtain ⟨m, hm, rfl⟩ := hr
    constructor
    · intro p hp
      have hp' : p ∈ st.1.readyQ.filter (fun p => !(txPipes st.2).contains p) ++ m := hp
      simp only [List.mem_append] at hp'
      have : p ∈ st.1.readyQ := by
        rcases hp' with hp' | hp'
        · exact (List.mem_filter.mp hp').1
        · exact (List.mem_filter.mp (perms_mem _ m hm p hp')).1
      have := h.2.1 p this
      exact this
    · rcases h.2.2 with e | e
      · exact Or.inl e
      · -- an empty ready queue has nothing to permute
        exfalso
        apply hcond
        rw [e]
        simp

theorem timerRound_W (now : Nat) (acc0 : List (State × List (Nat × Ev))) (ids : List Nat) (h : ∀ st ∈ acc0, W st.1) :
    ∀ st ∈ timerRound now acc0 ids, W st.1 := by
  unfold timerRound
  apply foldl_flatMap_all (fun st : State × List (Nat × Ev) => W st.1) _ _ ids acc0 h
  intro cid st hst r hr
  split at hr
  · simp at hr; subst hr; exact hst
  · rename_i c _
    split at hr
    · simp at hr; subst hr; exact hst
    · rename_i t _
      have hf : W (resend (setCtx st.1 c.id (fun y => { y with timer := none })) (t.tmin + t.period, now) c.id t.id).1 :=
        resend_W _ _ _ _ (setCtx_W _ _ _ (fun y => ⟨rfl, rfl, rfl, rfl, rfl⟩) hst)
      simp only [] at hr
      split at hr
      · refine readyVariants_W _ ?_ r hr; exact hf
      · split at hr
        · rw [List.mem_cons] at hr
          rcases hr with rfl | hr
          · exact hst
          · refine readyVariants_W _ ?_ r hr; exact hf
        · simp at hr; subst hr; exact hst

theorem deadlineFired_W (st : State × List (Nat × Ev)) (isRecv : Bool) (p : Parked) (h : W st.1) :
    W (deadlineFired st isRecv p).1 := by
  unfold deadlineFired
  cases isRecv
  · simp only [Bool.false_eq_true, if_false]
    split
    · exact h
    · have hm : ∀ still : Bool, W { st.1 with parkedSend := st.1.parkedSend.map (fun q => if q.call == p.call then { q with expired := still, deadline := none } else q) } :=
        fun still => W_same st.1 _ h rfl rfl rfl rfl rfl rfl rfl
      split
      · exact wake_W _ _ (cancel_W _ _ (hm _))
      · exact hm _
  · simp only [if_true]
    split
    · exact h
    · have hm : ∀ still : Bool, W { st.1 with parkedRecv := st.1.parkedRecv.map (fun q => if q.call == p.call then { q with expired := still, deadline := none } else q) } :=
        fun still => W_same st.1 _ h rfl rfl rfl rfl rfl rfl rfl
      split
      · exact wake_W _ _ (cancel_W _ _ (hm _))
      · exact hm _

theorem expireSends_W (now : Nat) (s : State) (c : Nat) (h : W s) : W (expireSends now s c) :=
  W_same s _ h rfl rfl rfl rfl rfl rfl rfl

theorem deadlineFire_W (now : Nat) (st : State × List (Nat × Ev)) (isRecv : Bool) (p : Parked) (t : Timer) (h : W st.1) :
    ∀ r ∈ deadlineFire now st isRecv p t, W r.1 := by
  intro r hr
  have hE : W (expireSends now st.1 p.ctx) := expireSends_W now st.1 p.ctx h
  have hfired : ∀ r ∈ (if (isRecv && recvStill st.1 p && expireSends now st.1 p.ctx != st.1) = true
      then [deadlineFired st isRecv p, deadlineFired (expireSends now st.1 p.ctx, st.2) isRecv p]
      else [deadlineFired st isRecv p]), W r.1 := by
    intro r hr
    split at hr
    · simp at hr
      rcases hr with rfl | rfl
      · exact deadlineFired_W st isRecv p h
      · exact deadlineFired_W (_, _) isRecv p hE
    · simp at hr; subst hr; exact deadlineFired_W st isRecv p h
  unfold deadlineFire at hr
  simp only [] at hr
  split at hr
  · exact hfired r hr
  · split at hr
    · rw [List.mem_cons] at hr
      rcases hr with rfl | hr
      · exact h
      · exact hfired r hr
    · simp at hr; subst hr; exact h

theorem deadlineRound_W (now : Nat) (acc0 : List (State × List (Nat × Ev))) (calls : List Nat) (h : ∀ st ∈ acc0, W st.1) :
    ∀ st ∈ deadlineRound now acc0 calls, W st.1 := by
  unfold deadlineRound
  apply foldl_flatMap_all (fun st : State × List (Nat × Ev) => W st.1) _ _ calls acc0 h
  intro call st hst r hr
  split at hr
  · split at hr
    · exact deadlineFire_W now st true _ _ hst r hr
    · simp at hr; subst hr; exact hst
  · split at hr
    · exact deadlineFire_W now st false _ _ hst r hr
    · simp at hr; subst hr; exact hst
  · simp at hr; subst hr; exact hst

theorem timerOutcomes_W (s : State) (now : Nat) (h : W s) : ∀ st ∈ timerOutcomes s now, W st.1 := by
  intro st hst
  unfold timerOutcomes at hst
  simp only [] at hst
  have h0 : ∀ st ∈ dedup (deadlineRound now [(s, [])] (s.parkedRecv.map (·.call) ++ s.parkedSend.map (·.call))), W st.1 :=
    fun st hst => deadlineRound_W now _ _ (by intro b hb; simp at hb; subst hb; exact h) st (mem_dedup _ st hst)
  have h1 := fun st hst => timerRound_W now _ (s.ctxs.map (·.id)) h0 st (mem_dedup _ st hst)
  have h2 := fun st hst => timerRound_W now _ (s.ctxs.map (·.id)) h1 st (mem_dedup _ st hst)
  have h3 := fun st hst => timerRound_W now _ (s.ctxs.map (·.id)) h2 st (mem_dedup _ st hst)
  have h4 := fun st hst => timerRound_W now _ (s.ctxs.map (·.id)) h3 st (mem_dedup _ st hst)
  exact h4 st (List.mem_of_mem_take hst)

theorem dropOne_W (p : Nat) (acc : State × List (Nat × Ev) × List (Nat × Nat)) (c0 : Ctx) (h : W acc.1) : W (dropOne p acc c0).1 := by
  unfold dropOne
  split
  · exact h
  · rename_i c _
    split
    · exact wake_W _ _ (cancel_W _ _ h)
    · split
      · have h2 := setCtx_W acc.1 c.id (fun y => { y with lastPipe := none }) (fun y => ⟨rfl, rfl, rfl, rfl, rfl⟩) h
        split
        · exact wake_W _ _ (cancel_W _ _ h2)
        · exact cancelSend_W _ _ h2
      · exact h

theorem dropResends_W (arm : Nat × Nat) (todo : List (Nat × Nat)) (start : State × List (Nat × Ev)) (order : List Nat)
    (h : W start.1) : W (dropResends arm todo start order).1 := by
  unfold dropResends
  apply foldl_K _ (fun acc : State × List (Nat × Ev) => W acc.1) _ order start h
  intro acc cid hacc
  split
  · exact hacc
  · exact resend_W _ _ _ _ hacc

theorem getPipe_filter_ne (s : State) (p q : Nat) (hne : q ≠ p) :
    getPipe { s with pipes := s.pipes.filter (fun x => x.id != p), readyQ := s.readyQ.filter (· != p) } q = getPipe s q := by
  unfold getPipe
  show (s.pipes.filter (fun x => x.id != p)).find? _ = s.pipes.find? _
  induction s.pipes with
  | nil => rfl
  | cons a t ih =>
    by_cases ha : a.id = p
    · have h1 : (a.id != p) = false := by simp [ha]
      have h2 : decide (a.id = q) = false := by
        simp only [decide_eq_false_iff_not]
        intro e; exact hne (e.symm.trans ha)
      simp only [List.filter_cons, h1, List.find?_cons, h2]
      exact ih
    · have h1 : (a.id != p) = true := by simp [ha]
      simp only [List.filter_cons, h1, if_true, List.find?_cons]
      cases decide (a.id = q)
      · exact ih
      · rfl

theorem dropPipe_W (s : State) (arm : Nat × Nat) (p : Nat) (h : W s) : ∀ r ∈ dropPipe s arm p, W r.1 := by
  intro r hr
  unfold dropPipe at hr
  simp only [List.mem_flatMap] at hr
  obtain ⟨order, _, hr⟩ := hr
  refine readyVariants_W _ ?_ r hr
  apply dropResends_W
  apply foldl_K (dropOne p) (fun acc : State × List (Nat × Ev) × List (Nat × Nat) => W acc.1) (fun b a hb => dropOne_W p b a hb)
  refine ⟨T_same s _ h.1 rfl rfl rfl rfl (fun q hq => hq), ?_, ?_⟩
  · intro q hq
    have hq' : q ∈ s.readyQ.filter (· != p) := hq
    obtain ⟨hq1, hq2⟩ := List.mem_filter.mp hq'
    have hne : q ≠ p := by simpa using hq2
    rw [getPipe_filter_ne s p q hne]
    exact h.2.1 q hq1
  · refine Q_shrink s _ h.2.2 (fun e => e) ?_
    intro e
    show s.readyQ.filter _ = []
    rw [e]; rfl

theorem closeOne_W (acc : State × List (Nat × Ev)) (c : Ctx) (h : W acc.1) : W (closeOne acc c).1 := by
  unfold closeOne
  split
  · exact h
  · exact wake_W _ _ (cancel_W _ _ (setCtx_W _ _ _ (fun y => ⟨rfl, rfl, rfl, rfl, rfl⟩) h))

theorem getPipe_id (s : State) (q : Nat) (pp : Pipe) (h : getPipe s q = some pp) : pp.id = q := by
  unfold getPipe at h
  simpa using List.find?_some h

theorem W_rq (s : State) (h : W s) : R s ∧ Q s := h.2

theorem closeAll_W (l : List Ctx) (acc : State × List (Nat × Ev)) (h : W acc.1) : W (l.foldl closeOne acc).1 :=
  foldl_K closeOne (fun acc : State × List (Nat × Ev) => W acc.1) (fun b a hb => closeOne_W b a hb) l acc h

theorem swapFront_mem (q : List Nat) (p x : Nat) (h : x ∈ swapFront q p) : x ∈ q ∨ x = p := by
  unfold swapFront at h
  split at h
  · cases h
  · rename_i hd tl
    split at h
    · exact Or.inl h
    · split at h
      · rename_i i _
        simp only [List.mem_cons] at h
        rcases h with rfl | h
        · exact Or.inr rfl
        · rcases List.mem_or_eq_of_mem_set h with h | rfl
          · exact Or.inl (List.mem_cons_of_mem _ h)
          · exact Or.inl (by simp)
      · exact Or.inl h

theorem swapFront_nil (p : Nat) : swapFront [] p = [] := rfl

theorem getPipe_append (s : State) (n : Pipe) (q : Nat) (h : (getPipe s q).isSome = true) (rq : List Nat) :
    (getPipe { s with pipes := s.pipes ++ [n], readyQ := rq } q).isSome = true := by
  unfold getPipe at h ⊢
  show ((s.pipes ++ [n]).find? _).isSome = true
  rw [List.find?_append]
  cases hf : s.pipes.find? (fun p => decide (p.id = q)) with
  | none => rw [hf] at h; cases h
  | some y => rfl

theorem fuelOf_ge (s : State) : s.sendQ.length ≤ fuelOf s := by unfold fuelOf; omega

theorem core_W (s : State) (now : Nat) (op : List String) (h : W s) : ∀ r ∈ core s now op, W r.1 := by
  intro r hr
  obtain ⟨hT, hR, hQ⟩ := h
  have hT' := core_T s now op hT r hr
  refine ⟨hT', ?_⟩
  unfold core at hr
  split at hr
  · -- addpipe
    rename_i p
    split at hr
    · simp at hr; subst hr; exact ⟨hR, hQ⟩
    · simp at hr; subst hr
      apply pump_TRQ
      · exact T_same s _ hT rfl rfl rfl rfl (fun q hq => hq)
      · intro q hq
        have hq' : q ∈ s.readyQ ++ [natOf p] := hq
        simp only [List.mem_append, List.mem_singleton] at hq'
        rcases hq' with hq' | rfl
        · exact getPipe_append s _ q (hR q hq') _
        · unfold getPipe
          show ((s.pipes ++ [({ id := natOf p } : Pipe)]).find? _).isSome = true
          rw [List.find?_isSome]
          exact ⟨{ id := natOf p }, by simp, by simp⟩
      · exact fuelOf_ge _
  · -- rmpipe
    simp only [List.mem_map] at hr
    obtain ⟨r0, hr0, rfl⟩ := hr
    exact W_rq _ (dropPipe_W s _ _ ⟨hT, hR, hQ⟩ r0 hr0)
  · -- inject
    rename_i p b
    try simp only [] at hr
    split at hr
    · simp at hr; subst hr; exact ⟨hR, hQ⟩
    · rename_i hpipe
      split at hr
      · simp at hr; subst hr; exact ⟨hR, hQ⟩
      · try simp only [] at hr
        have halive : (getPipe s (natOf p)).isSome = true := by
          cases hg : getPipe s (natOf p) with
          | none => rw [hg] at hpipe; simp at hpipe
          | some y => rfl
        have h0 : W ({ s with readyQ := swapFront s.readyQ (natOf p) } : State) := by
          refine ⟨T_same s _ hT rfl rfl rfl rfl (fun q hq => hq), ?_, ?_⟩
          · intro q hq
            rcases swapFront_mem s.readyQ (natOf p) q hq with hq' | rfl
            · exact hR q hq'
            · exact halive
          · refine Q_shrink s _ hQ (fun e => e) ?_
            intro e
            show swapFront s.readyQ (natOf p) = []
            rw [e]; rfl
        split at hr
        · simp at hr; subst hr; exact h0.2
        · rename_i rid c hfind
          simp at hr; subst hr
          have h1 := cancelSend_W _ c h0
          have hR2 : R (setCtx { (cancelSend { s with readyQ := swapFront s.readyQ (natOf p) } c) with ctxByID := (cancelSend { s with readyQ := swapFront s.readyQ (natOf p) } c).ctxByID.filter (fun e => e.1 != rid) } c
              (fun y => { y with reqMsg := none, repMsg := some ((bytesOf b).take 4, (bytesOf b).drop 4), timer := none })) :=
            R_same _ _ h1.2.1 rfl (fun q hq => hq)
          have hQ2 : Q (setCtx { (cancelSend { s with readyQ := swapFront s.readyQ (natOf p) } c) with ctxByID := (cancelSend { s with readyQ := swapFront s.readyQ (natOf p) } c).ctxByID.filter (fun e => e.1 != rid) } c
              (fun y => { y with reqMsg := none, repMsg := some ((bytesOf b).take 4, (bytesOf b).drop 4), timer := none })) :=
            Q_shrink _ _ h1.2.2 (fun e => e) (fun e => e)
          exact ⟨wake_R _ c hR2, wake_Q _ c hQ2⟩
  · -- send
    rename_i call ctx hd b
    simp only [] at hr
    split at hr
    · simp at hr
    · rename_i c hc
      have h0 : R { s with nsent := s.nsent + 1, sent := s.sent ++ [(s.nsent + 1, bytesOf b)] } ∧ Q { s with nsent := s.nsent + 1, sent := s.sent ++ [(s.nsent + 1, bytesOf b)] } :=
        ⟨R_same s _ hR rfl (fun q hq => hq), Q_shrink s _ hQ (fun e => e) (fun e => e)⟩
      split at hr
      · simp at hr; subst hr; exact h0
      · split at hr
        · simp at hr; subst hr; exact h0
        · split at hr
          · simp at hr
          have hcid : c.id = natOf ctx := getCtx_id s _ c hc
          have hc0 : getCtx s c.id = some c := by rw [hcid]; exact hc
          obtain ⟨y1, hy1, hrm, hrp⟩ := cancel_getCtx_cleared s c.id c hc0
          have hT2 : T (setCtx { (cancel { s with nsent := s.nsent + 1, sent := s.sent ++ [(s.nsent + 1, bytesOf b)] } c.id) with sendQ := (cancel { s with nsent := s.nsent + 1, sent := s.sent ++ [(s.nsent + 1, bytesOf b)] } c.id).sendQ ++ [c.id] } c.id (fun y => { y with reqID := s.nsent + 1, queued := true, sendMsg := some (bytesOf b), sendFor := s.nsent + 1, sendAbort := false })) := by
            rw [cancel_nsent_comm]
            have hse : (cancel s c.id).sent = s.sent := by
              unfold cancel cancelSend
              simp only []
              split <;> rfl
            have := send_T (cancel s c.id) c.id (s.nsent + 1) y1 (bytesOf b) (by rw [cancel_nsent]; omega) hy1 hrm hrp (cancel_T s c.id hT)
            rw [hse] at this
            exact this
          have hR1 := cancel_R _ c.id h0.1
          have hR2 : R (setCtx { (cancel { s with nsent := s.nsent + 1, sent := s.sent ++ [(s.nsent + 1, bytesOf b)] } c.id) with sendQ := (cancel { s with nsent := s.nsent + 1, sent := s.sent ++ [(s.nsent + 1, bytesOf b)] } c.id).sendQ ++ [c.id] } c.id (fun y => { y with reqID := s.nsent + 1, queued := true, sendMsg := some (bytesOf b), sendFor := s.nsent + 1, sendAbort := false })) :=
            R_same _ _ hR1 rfl (fun q hq => hq)
          have hT3 := wake_T _ c.id hT2
          have hR3 := wake_R _ c.id hR2
          have hTadd : ∀ (ps : List Parked), T { (wake (setCtx { (cancel { s with nsent := s.nsent + 1, sent := s.sent ++ [(s.nsent + 1, bytesOf b)] } c.id) with sendQ := (cancel { s with nsent := s.nsent + 1, sent := s.sent ++ [(s.nsent + 1, bytesOf b)] } c.id).sendQ ++ [c.id] } c.id (fun y => { y with reqID := s.nsent + 1, queued := true, sendMsg := some (bytesOf b), sendFor := s.nsent + 1, sendAbort := false })) c.id).1 with parkedSend := ps } :=
            fun ps => T_same _ _ hT3 rfl rfl rfl rfl (fun q hq => hq)
          have hRadd : ∀ (ps : List Parked), R { (wake (setCtx { (cancel { s with nsent := s.nsent + 1, sent := s.sent ++ [(s.nsent + 1, bytesOf b)] } c.id) with sendQ := (cancel { s with nsent := s.nsent + 1, sent := s.sent ++ [(s.nsent + 1, bytesOf b)] } c.id).sendQ ++ [c.id] } c.id (fun y => { y with reqID := s.nsent + 1, queued := true, sendMsg := some (bytesOf b), sendFor := s.nsent + 1, sendAbort := false })) c.id).1 with parkedSend := ps } :=
            fun ps => R_same _ _ hR3 rfl (fun q hq => hq)
          have keyRQ : ∀ S : State, (R S ∧ Q S) → ∀ f : Parked → Bool, R { S with parkedSend := S.parkedSend.filter f } ∧ Q { S with parkedSend := S.parkedSend.filter f } :=
            fun S hS f => ⟨R_same S _ hS.1 rfl (fun q hq => hq), Q_shrink S _ hS.2 (fun e => e) (fun e => e)⟩
          split at hr
          · simp at hr; subst hr
            exact keyRQ _ (pump_TRQ _ _ _ (hTadd _) (hRadd _) (fuelOf_ge _)) _
          · simp at hr; subst hr
            exact pump_TRQ _ _ _ (hTadd _) (hRadd _) (fuelOf_ge _)
  · -- recv
    rename_i call ctx
    simp only [] at hr
    split at hr
    · simp at hr
    · rename_i c hc
      split at hr
      · simp at hr; subst hr; exact ⟨hR, hQ⟩
      · split at hr
        · simp at hr; subst hr; exact ⟨hR, hQ⟩
        · split at hr
          · simp at hr; subst hr; exact ⟨hR, hQ⟩
          · split at hr
            · simp at hr
            simp at hr; subst hr
            have h1R : R (setCtx { s with parkedRecv := s.parkedRecv ++ [{ call := natOf call, ctx := c.id, rid := c.reqID, deadline := if c.recvExpire > 0 then some { id := c.reqID, tmin := s.tprev, tmax := now, period := c.recvExpire } else none }] } c.id (fun y => { y with receiveWait := true })) :=
              R_same s _ hR rfl (fun q hq => hq)
            have h1Q : Q (setCtx { s with parkedRecv := s.parkedRecv ++ [{ call := natOf call, ctx := c.id, rid := c.reqID, deadline := if c.recvExpire > 0 then some { id := c.reqID, tmin := s.tprev, tmax := now, period := c.recvExpire } else none }] } c.id (fun y => { y with receiveWait := true })) :=
              Q_shrink s _ hQ (fun e => e) (fun e => e)
            exact ⟨wake_R _ _ h1R, wake_Q _ _ h1Q⟩
  · simp at hr; subst hr; exact ⟨R_same s _ hR rfl (fun q hq => hq), Q_shrink s _ hQ (fun e => e) (fun e => e)⟩
  · simp at hr; subst hr; exact ⟨R_same s _ hR rfl (fun q hq => hq), Q_shrink s _ hQ (fun e => e) (fun e => e)⟩
  · simp at hr; subst hr; exact ⟨R_same s _ hR rfl (fun q hq => hq), Q_shrink s _ hQ (fun e => e) (fun e => e)⟩
  · simp at hr; subst hr; exact ⟨R_same s _ hR rfl (fun q hq => hq), Q_shrink s _ hQ (fun e => e) (fun e => e)⟩
  · simp at hr; subst hr; exact ⟨R_same s _ hR rfl (fun q hq => hq), Q_shrink s _ hQ (fun e => e) (fun e => e)⟩
  · -- hold
    simp at hr; subst hr
    exact ⟨setPipe_R s _ _ (fun y => rfl) hR, Q_shrink s _ hQ (fun e => e) (fun e => e)⟩
  · -- release ok
    split at hr
    · simp at hr
    · rename_i pp hpp
      split at hr
      · simp at hr
      · simp only [] at hr
        simp at hr; subst hr
        have hid := getPipe_id s _ pp hpp
        have hT1 : T (setPipe s pp.id (fun x => { x with inflight := none })) := T_same s _ hT rfl rfl rfl rfl (fun q hq => hq)
        have hR1 : R (setPipe s pp.id (fun x => { x with inflight := none })) := setPipe_R s _ _ (fun y => rfl) hR
        have halive : (getPipe (setPipe s pp.id (fun x => { x with inflight := none })) pp.id).isSome = true := by
          rw [getPipe_setPipe s pp.id (fun x => { x with inflight := none }) (fun y => rfl) pp.id, hid, hpp]; rfl
        apply pump_TRQ
        · split
          · exact hT1
          · exact T_same _ _ hT1 rfl rfl rfl rfl (fun q hq => hq)
        · split
          · exact hR1
          · intro q hq
            have hq' : q ∈ (setPipe s pp.id (fun x => { x with inflight := none })).readyQ ++ [pp.id] := hq
            simp only [List.mem_append, List.mem_singleton] at hq'
            rcases hq' with hq' | rfl
            · exact hR1 q hq'
            · exact halive
        · exact fuelOf_ge _
  · -- release err
    simp only [List.mem_map] at hr
    obtain ⟨r0, hr0, rfl⟩ := hr
    exact W_rq _ (dropPipe_W s _ _ ⟨hT, hR, hQ⟩ r0 hr0)
  · -- openctx
    split at hr
    · simp at hr; subst hr; exact ⟨hR, hQ⟩
    · split at hr
      · simp at hr
      · split at hr
        · simp at hr
        · simp at hr; subst hr
          exact ⟨R_same s _ hR rfl (fun q hq => hq), Q_shrink s _ hQ (fun e => e) (fun e => e)⟩
  · -- closectx
    split at hr
    · simp at hr
    · rename_i c hc
      split at hr
      · simp at hr; subst hr; exact ⟨hR, hQ⟩
      · simp at hr; subst hr
        have h1 := setCtx_W s c.id (fun y => { y with closed := true }) (fun y => ⟨rfl, rfl, rfl, rfl, rfl⟩) ⟨hT, hR, hQ⟩
        have h2 := cancel_W _ c.id h1
        have h3 := wake_W _ c.id h2
        exact W_rq _ h3
  · simp at hr; subst hr; exact ⟨hR, hQ⟩
  · -- close
    split at hr
    · simp at hr; subst hr; exact ⟨hR, hQ⟩
    · simp at hr; subst hr
      have hW0 : W ({ s with closed := true } : State) := W_same s _ ⟨hT, hR, hQ⟩ rfl rfl rfl rfl rfl rfl rfl
      exact W_rq _ (closeAll_W s.ctxs ({ s with closed := true }, []) hW0)
  · simp at hr

theorem step_W (s : State) (op : List String) (h : W s) : ∀ o ∈ step s op, W o.1 := by
  intro o ho
  simp only [step, List.mem_flatMap, List.mem_map] at ho
  obtain ⟨st, hst, r, hr, r2, hr2, rfl⟩ := ho
  have h1 := timerOutcomes_W s _ h st hst
  have h2 := core_W st.1 _ _ h1 r hr
  exact timerOutcomes_W { r.1 with tprev := opTime op } _ (W_same r.1 _ h2 rfl rfl rfl rfl rfl rfl rfl) r2 hr2

theorem reach_W (s : State) (h : Reach s) : W s := by
  induction h with
  | init => exact ⟨init_T, by intro p hp; simp [init] at hp, Or.inl rfl⟩
  | step s op o _ ho ih => exact step_W s op ih o ho

/-- over every history: "transmitted to a ready peer as soon as …" — whenever an operation and the timers around it have
    been processed, no context is waiting to transmit while a connected pipe is ready to take a message: the send queue
    or the ready queue is empty; and every pipe in the ready queue is connected -/
theorem no_request_waits_while_a_pipe_is_ready (s : State) (h : Reach s) :
    (s.sendQ = [] ∨ s.readyQ = []) ∧ ∀ p ∈ s.readyQ, (getPipe s p).isSome = true :=
  ⟨(reach_W s h).2.2, (reach_W s h).2.1⟩

end Req
end Proto
end Model
