/-
  Model/Proto/ReqDeadline.lean — REQ: a Send that is still parked is still wanted.
  Invariant N over all histories: every parked Send is the one its context is currently trying to transmit (the
  message is still pending, carries this call's request number, has not been abandoned, the context is open, the call
  has not expired) — so nothing can leave a Send parked that no event will ever wake (D17 was exactly such a state:
  timer stopped, queue entry gone, call asleep).  `N (some c)`: the same with context c exempted, between an update of
  c and the re-evaluation (`wake`) of its waiters.
-/
import Model.Proto.ReqClose
namespace Model
namespace Proto
namespace Req

def OKp (s : State) (p : Parked) : Prop :=
  ∃ x, getCtx s p.ctx = some x ∧ x.sendMsg.isSome = true ∧ x.sendFor = p.rid ∧ x.sendAbort = false ∧ x.closed = false ∧ p.expired = false

structure N (ex : Option Nat) (s : State) : Prop where
  ok : ∀ p ∈ s.parkedSend, some p.ctx ≠ ex → OKp s p
  rids : (s.parkedSend.map (·.rid)).Nodup
  bound : ∀ p ∈ s.parkedSend, p.rid ≤ s.nsent
  calls : ((s.parkedRecv ++ s.parkedSend).map (·.call)).Nodup

theorem getCtx_setCtx_ne (s : State) (c d : Nat) (f : Ctx → Ctx) (hf : ∀ y, (f y).id = y.id) (h : d ≠ c) :
    getCtx (setCtx s c f) d = getCtx s d := by
  rw [getCtx_setCtx s c f hf d]
  cases hg : getCtx s d with
  | none => rfl
  | some y =>
    have := getCtx_id s d y hg
    simp [this, h]

theorem getCtx_setCtx_eq (s : State) (c : Nat) (f : Ctx → Ctx) (hf : ∀ y, (f y).id = y.id) (x : Ctx) (hx : getCtx s c = some x) :
    getCtx (setCtx s c f) c = some (f x) := by
  rw [getCtx_setCtx s c f hf c, hx]
  have := getCtx_id s c x hx
  simp [this]

/-- the invariant only looks at parkedSend, nsent and the contexts' (sendMsg, sendFor, sendAbort, closed) -/
theorem N_sub (ex : Option Nat) (s s' : State) (h : N ex s) (hc : ∀ d, getCtx s' d = getCtx s d)
    (hs : s'.parkedSend.Sublist s.parkedSend) (hr : s'.parkedRecv.Sublist s.parkedRecv) (hn : s.nsent ≤ s'.nsent) : N ex s' := by
  constructor
  · intro p hp hne
    obtain ⟨x, hx, hr⟩ := h.ok p (hs.subset hp) hne
    exact ⟨x, by rw [hc]; exact hx, hr⟩
  · exact nodup_map_sublist _ hs h.rids
  · intro p hp; exact Nat.le_trans (h.bound p (hs.subset hp)) hn
  · exact nodup_map_sublist _ (List.Sublist.append hr hs) h.calls

theorem N_same (ex : Option Nat) (s s' : State) (h : N ex s) (hc : s'.ctxs = s.ctxs)
    (hs : s'.parkedSend = s.parkedSend) (hr : s'.parkedRecv = s.parkedRecv) (hn : s'.nsent = s.nsent) : N ex s' :=
  N_sub ex s s' h (fun d => by unfold getCtx; rw [hc]) (by rw [hs]; exact List.Sublist.refl _) (by rw [hr]; exact List.Sublist.refl _)
    (by rw [hn]; exact Nat.le_refl _)

/-- a context update that keeps what the invariant looks at -/
theorem setCtx_N (ex : Option Nat) (s : State) (c : Nat) (f : Ctx → Ctx)
    (hf : ∀ y, (f y).id = y.id ∧ (f y).sendMsg = y.sendMsg ∧ (f y).sendFor = y.sendFor ∧ (f y).sendAbort = y.sendAbort ∧ (f y).closed = y.closed)
    (h : N ex s) : N ex (setCtx s c f) := by
  constructor
  · intro p hp hne
    obtain ⟨x, hx, h1, h2, h3, h4, h5⟩ := h.ok p hp hne
    by_cases hpc : p.ctx = c
    · refine ⟨f x, ?_, ?_, ?_, ?_, ?_, h5⟩
      · rw [hpc]; exact getCtx_setCtx_eq s c f (fun y => (hf y).1) x (by rw [← hpc]; exact hx)
      · rw [(hf x).2.1]; exact h1
      · rw [(hf x).2.2.1]; exact h2
      · rw [(hf x).2.2.2.1]; exact h3
      · rw [(hf x).2.2.2.2]; exact h4
    · exact ⟨x, by rw [getCtx_setCtx_ne s c p.ctx f (fun y => (hf y).1) hpc]; exact hx, h1, h2, h3, h4, h5⟩
  · exact h.rids
  · exact h.bound
  · exact h.calls

/-- any update of context c, as long as c is exempt -/
theorem setCtx_N_ex (ex : Option Nat) (s : State) (c : Nat) (f : Ctx → Ctx) (hf : ∀ y, (f y).id = y.id)
    (hex : ∀ d, ex = some d → d = c) (h : N ex s) : N (some c) (setCtx s c f) := by
  constructor
  · intro p hp hne
    have hpc : p.ctx ≠ c := fun e => hne (by rw [e])
    have hex' : some p.ctx ≠ ex := by
      intro e
      exact hpc (hex p.ctx e.symm)
    obtain ⟨x, hx, hr⟩ := h.ok p hp hex'
    exact ⟨x, by rw [getCtx_setCtx_ne s c p.ctx f hf hpc]; exact hx, hr⟩
  · exact h.rids
  · exact h.bound
  · exact h.calls

theorem N_weaken (s : State) (c : Nat) (h : N none s) : N (some c) s :=
  ⟨fun p hp _ => h.ok p hp (by simp), h.rids, h.bound, h.calls⟩

theorem cancelSend_N (ex : Option Nat) (s : State) (c : Nat) (h : N ex s) : N ex (cancelSend s c) := by
  unfold cancelSend
  exact setCtx_N ex _ c _ (fun y => ⟨rfl, rfl, rfl, rfl, rfl⟩) (N_same ex s _ h rfl rfl rfl rfl)

theorem cancel_N (ex : Option Nat) (s : State) (c : Nat) (hex : ∀ d, ex = some d → d = c) (h : N ex s) : N (some c) (cancel s c) := by
  unfold cancel
  simp only []
  have h1 := cancelSend_N ex s c h
  split
  · -- no such context: nothing changes beyond cancelSend
    constructor
    · intro p hp hne
      exact h1.ok p hp (by intro e; exact hne (by rw [hex p.ctx e.symm]))
    · exact h1.rids
    · exact h1.bound
    · exact h1.calls
  · exact setCtx_N_ex ex _ c _ (fun y => rfl) hex (N_same ex _ _ h1 rfl rfl rfl rfl)

theorem eq_of_nodup_map_rid (l : List Parked) (h : (l.map (·.rid)).Nodup) (a b : Parked) (ha : a ∈ l) (hb : b ∈ l)
    (hf : a.rid = b.rid) : a = b := by
  induction l with
  | nil => simp at ha
  | cons x xs ih =>
    simp only [List.map_cons, List.nodup_cons, List.mem_map, not_exists, not_and] at h
    simp only [List.mem_cons] at ha hb
    rcases ha with rfl | ha <;> rcases hb with rfl | hb
    · rfl
    · exact absurd hf.symm (h.1 b hb)
    · exact absurd hf (h.1 a ha)
    · exact ih h.2 ha hb

/-- re-evaluating the Sends parked on context c restores the invariant for c: what stays parked is the call whose
    message is still pending, not abandoned, not expired, on an open context -/
theorem wakeSends_N (s : State) (c : Nat) (x : Ctx) (hx : getCtx s c = some x) (h : N (some c) s) : N none (wakeSends s c x).1 := by
  simp only [wakeSends]
  -- abbreviations
  have hsub : (s.parkedSend.filter (fun p => !((s.parkedSend.filter (fun p => p.ctx == c &&
      (!(x.sendMsg.isSome && x.sendFor == p.rid) || p.expired || x.closed || (x.failNoPeers && s.pipes.isEmpty) || x.sendAbort))).any (fun q => q.call == p.call)))).Sublist s.parkedSend :=
    List.filter_sublist
  -- a Send on c that stays parked satisfied none of the reasons to leave
  have hstay : ∀ p ∈ s.parkedSend.filter (fun p => !((s.parkedSend.filter (fun p => p.ctx == c &&
      (!(x.sendMsg.isSome && x.sendFor == p.rid) || p.expired || x.closed || (x.failNoPeers && s.pipes.isEmpty) || x.sendAbort))).any (fun q => q.call == p.call))),
      p.ctx = c → x.sendMsg.isSome = true ∧ x.sendFor = p.rid ∧ p.expired = false ∧ x.closed = false ∧ x.sendAbort = false := by
    intro p hp hpc
    obtain ⟨hp0, hnot⟩ := List.mem_filter.mp hp
    have hnl : p ∉ s.parkedSend.filter (fun p => p.ctx == c &&
      (!(x.sendMsg.isSome && x.sendFor == p.rid) || p.expired || x.closed || (x.failNoPeers && s.pipes.isEmpty) || x.sendAbort)) := by
      intro hin
      have : (s.parkedSend.filter (fun p => p.ctx == c &&
        (!(x.sendMsg.isSome && x.sendFor == p.rid) || p.expired || x.closed || (x.failNoPeers && s.pipes.isEmpty) || x.sendAbort))).any (fun q => q.call == p.call) = true :=
        List.any_eq_true.mpr ⟨p, hin, by simp⟩
      rw [this] at hnot; cases hnot
    have hcond : (p.ctx == c && (!(x.sendMsg.isSome && x.sendFor == p.rid) || p.expired || x.closed || (x.failNoPeers && s.pipes.isEmpty) || x.sendAbort)) = false := by
      cases hb : (p.ctx == c && (!(x.sendMsg.isSome && x.sendFor == p.rid) || p.expired || x.closed || (x.failNoPeers && s.pipes.isEmpty) || x.sendAbort)) with
      | false => rfl
      | true => exact absurd (List.mem_filter.mpr ⟨hp0, hb⟩) hnl
    simp only [hpc, beq_self_eq_true, Bool.true_and, Bool.or_eq_false_iff, Bool.not_eq_false', Bool.and_eq_true, beq_iff_eq] at hcond
    obtain ⟨⟨⟨⟨h1, h2⟩, h3⟩, _⟩, h5⟩ := hcond
    exact ⟨h1.1, h1.2, h2, h3, h5⟩
  split
  · -- a pending Send gave up: the message is withdrawn; no Send on c stays parked
    rename_i hany
    have hnone : ∀ p ∈ s.parkedSend.filter (fun p => !((s.parkedSend.filter (fun p => p.ctx == c &&
        (!(x.sendMsg.isSome && x.sendFor == p.rid) || p.expired || x.closed || (x.failNoPeers && s.pipes.isEmpty) || x.sendAbort))).any (fun q => q.call == p.call))), p.ctx ≠ c := by
      intro p hp hpc
      obtain ⟨q, hq, hqm⟩ := List.any_eq_true.mp hany
      simp only [Bool.and_eq_true, beq_iff_eq] at hqm
      have hs := hstay p hp hpc
      have hq0 : q ∈ s.parkedSend := (List.mem_filter.mp hq).1
      have hp0 : p ∈ s.parkedSend := (List.mem_filter.mp hp).1
      have : p = q := eq_of_nodup_map_rid s.parkedSend h.rids p q hp0 hq0 (hs.2.1.symm.trans hqm.2)
      have hnot := (List.mem_filter.mp hp).2
      have : (s.parkedSend.filter (fun p => p.ctx == c &&
        (!(x.sendMsg.isSome && x.sendFor == p.rid) || p.expired || x.closed || (x.failNoPeers && s.pipes.isEmpty) || x.sendAbort))).any (fun r => r.call == p.call) = true :=
        List.any_eq_true.mpr ⟨q, hq, by rw [this]; simp⟩
      rw [this] at hnot; cases hnot
    constructor
    · intro p hp _
      have hpc := hnone p hp
      obtain ⟨y, hy, hr⟩ := h.ok p (hsub.subset hp) (by intro e; exact hpc (by simpa using e))
      refine ⟨y, ?_, hr⟩
      rw [getCtx_setCtx_ne (h := hpc)]
      case hf => intro y; rfl
      show getCtx (cancelSend _ c) p.ctx = some y
      rw [getCtx_cancelSend]
      show (getCtx s p.ctx).map _ = some y
      rw [hy]
      have hyid := getCtx_id s p.ctx y hy
      simp [hyid, hpc]
    · exact nodup_map_sublist _ hsub h.rids
    · intro p hp; exact h.bound p (hsub.subset hp)
    · exact nodup_map_sublist _ (List.Sublist.append (List.Sublist.refl _) hsub) h.calls
  · constructor
    · intro p hp _
      by_cases hpc : p.ctx = c
      · obtain ⟨h1, h2, h3, h4, h5⟩ := hstay p hp hpc
        exact ⟨x, by rw [hpc]; exact hx, h1, h2, h5, h4, h3⟩
      · obtain ⟨y, hy, hr⟩ := h.ok p (hsub.subset hp) (by intro e; exact hpc (by simpa using e))
        exact ⟨y, hy, hr⟩
    · exact nodup_map_sublist _ hsub h.rids
    · intro p hp; exact h.bound p (hsub.subset hp)
    · exact nodup_map_sublist _ (List.Sublist.append (List.Sublist.refl _) hsub) h.calls

theorem wakeRecv_N (ex : Option Nat) (s : State) (c : Nat) (np : Bool) (evs : List (Nat × Ev)) (h : N ex s) : N ex (wakeRecv s c np evs).1 := by
  unfold wakeRecv
  split
  · exact h
  · split
    · exact h
    · split
      · exact h
      · simp only []
        have h3 : ∀ (dl : List (Nat × Nat × Nat)) (reg : List (Nat × Nat)) (df : List Nat) (call : Nat),
            N ex { s with parkedRecv := s.parkedRecv.filter (fun p => p.call != call), delivered := dl, ctxByID := reg, deliveredFor := df } :=
          fun dl reg df call => N_sub ex s _ h (fun d => rfl) (List.Sublist.refl _) List.filter_sublist (Nat.le_refl _)
        split
        · exact setCtx_N ex _ c _ (fun y => ⟨rfl, rfl, rfl, rfl, rfl⟩) (h3 _ _ _ _)
        · split
          · exact setCtx_N ex _ c _ (fun y => ⟨rfl, rfl, rfl, rfl, rfl⟩) (h3 _ _ _ _)
          · exact h3 _ _ _ _

/-- the waiters of context c re-evaluate their conditions: the invariant holds again for c -/
theorem wake_N (s : State) (c : Nat) (hex : (getCtx s c).isSome = true) (h : N (some c) s) : N none (wake s c).1 := by
  unfold wake
  split
  · rename_i hn; rw [hn] at hex; cases hex
  · rename_i x hx
    exact wakeRecv_N none _ c _ _ (wakeSends_N s c x hx h)

theorem wake_N0 (s : State) (c : Nat) (h : N none s) : N none (wake s c).1 := by
  cases hg : getCtx s c with
  | none => unfold wake; simp only [hg]; exact h
  | some x => exact wake_N s c (by rw [hg]; rfl) (N_weaken s c h)

theorem N_unexempt (s : State) (c : Nat) (h : N (some c) s) (hs : ∀ q ∈ s.parkedSend, q.ctx ≠ c) : N none s :=
  ⟨fun p hp _ => h.ok p hp (by intro e; exact hs p hp (by simpa using e)), h.rids, h.bound, h.calls⟩

theorem wakeIf_N (t : State) (c : Nat) (b : Bool) (hex : (getCtx t c).isSome = true) (h : N (some c) t) (hb : b = false → N none t) :
    N none (if b = true then wake t c else (t, [])).1 := by
  cases b
  · exact hb rfl
  · exact wake_N t c hex h

theorem pumpStep_N (arm : Nat × Nat) (s : State) (c p : Nat) (sq rq : List Nat) (x : Ctx) (pp : Pipe)
    (hx : getCtx s c = some x) (h : N none s) : N none (pumpStep arm s c p sq rq x pp).1 := by
  have h1 : N none { s with sendQ := sq, readyQ := rq, ctxByID := if x.sendMsg.isSome then s.ctxByID.filter (fun e => e.2 != c) ++ [(x.reqID, c)] else s.ctxByID, txlog := s.txlog ++ [(p, x.reqID, (x.sendMsg.orElse (fun _ => x.reqMsg)).getD [])] } := N_same none s _ h rfl rfl rfl rfl
  have hx1 : getCtx { s with sendQ := sq, readyQ := rq, ctxByID := if x.sendMsg.isSome then s.ctxByID.filter (fun e => e.2 != c) ++ [(x.reqID, c)] else s.ctxByID, txlog := s.txlog ++ [(p, x.reqID, (x.sendMsg.orElse (fun _ => x.reqMsg)).getD [])] } c = some x := hx
  have hs2 := setCtx_N_ex none _ c (fun y => { y with queued := false, reqMsg := some ((x.sendMsg.orElse (fun _ => x.reqMsg)).getD []), sendMsg := none, lastPipe := some p, timer := if y.resendTime > 0 then some { id := y.reqID, tmin := arm.1, tmax := arm.2, period := y.resendTime } else y.timer })
    (fun y => rfl) (by intro d hd; cases hd) h1
  have hex2 := getCtx_setCtx_eq _ c (fun y => { y with queued := false, reqMsg := some ((x.sendMsg.orElse (fun _ => x.reqMsg)).getD []), sendMsg := none, lastPipe := some p, timer := if y.resendTime > 0 then some { id := y.reqID, tmin := arm.1, tmax := arm.2, period := y.resendTime } else y.timer })
    (fun y => rfl) x hx1
  -- a retransmission (nothing pending): no Send is parked on c, so the update of c is harmless
  have hnot : x.sendMsg.isSome = false → N none (setCtx { s with sendQ := sq, readyQ := rq, ctxByID := if x.sendMsg.isSome then s.ctxByID.filter (fun e => e.2 != c) ++ [(x.reqID, c)] else s.ctxByID, txlog := s.txlog ++ [(p, x.reqID, (x.sendMsg.orElse (fun _ => x.reqMsg)).getD [])] } c
      (fun y => { y with queued := false, reqMsg := some ((x.sendMsg.orElse (fun _ => x.reqMsg)).getD []), sendMsg := none, lastPipe := some p, timer := if y.resendTime > 0 then some { id := y.reqID, tmin := arm.1, tmax := arm.2, period := y.resendTime } else y.timer })) := by
    intro hno
    apply N_unexempt _ c hs2
    intro q hq hqc
    obtain ⟨y, hy, hsome, _⟩ := h.ok q hq (by simp)
    rw [hqc, hx] at hy
    cases hy
    rw [hno] at hsome; cases hsome
  simp only [pumpStep]
  have hr3 := wakeIf_N _ c x.sendMsg.isSome (by rw [hex2]; rfl) hs2 hnot
  split
  · exact N_same none _ _ hr3 rfl rfl rfl rfl
  · exact N_same none _ _ hr3 rfl rfl rfl rfl

theorem pump_N : ∀ (fuel : Nat) (arm : Nat × Nat) (s : State), N none s → N none (pump fuel arm s).1 := by
  intro fuel
  induction fuel with
  | zero => intro arm s h; exact h
  | succ n ih =>
    intro arm s h
    simp only [pump]
    split
    · split
      · rename_i x pp hx hp
        exact ih arm _ (pumpStep_N arm s _ _ _ _ x pp hx h)
      · exact N_same none s _ h rfl rfl rfl rfl
    · exact h

theorem resend_N (s : State) (arm : Nat × Nat) (c id : Nat) (h : N none s) : N none (resend s arm c id).1 := by
  unfold resend
  split
  · exact h
  · split
    · apply pump_N
      exact setCtx_N none _ c (fun y => { y with queued := true }) (fun y => ⟨rfl, rfl, rfl, rfl, rfl⟩) (N_same none s _ h rfl rfl rfl rfl)
    · exact h

theorem readyVariants_N (st : State × List (Nat × Ev)) (h : N none st.1) : ∀ r ∈ readyVariants st, N none r.1 := by
  intro r hr
  unfold readyVariants at hr
  simp only [] at hr
  split at hr
  · simp at hr; subst hr; exact h
  · simp only [List.mem_map] at hr
    obtain ⟨m, _, rfl⟩ := hr
    exact N_same none st.1 _ h rfl rfl rfl rfl

theorem timerRound_N (now : Nat) (acc0 : List (State × List (Nat × Ev))) (ids : List Nat) (h : ∀ st ∈ acc0, N none st.1) :
    ∀ st ∈ timerRound now acc0 ids, N none st.1 := by
  unfold timerRound
  apply foldl_flatMap_all (fun st : State × List (Nat × Ev) => N none st.1) _ _ ids acc0 h
  intro cid st hst r hr
  split at hr
  · simp at hr; subst hr; exact hst
  · rename_i c _
    split at hr
    · simp at hr; subst hr; exact hst
    · rename_i t _
      have hf : N none (resend (setCtx st.1 c.id (fun y => { y with timer := none })) (t.tmin + t.period, now) c.id t.id).1 :=
        resend_N _ _ _ _ (setCtx_N none _ _ _ (fun y => ⟨rfl, rfl, rfl, rfl, rfl⟩) hst)
      simp only [] at hr
      split at hr
      · refine readyVariants_N _ ?_ r hr; exact hf
      · split at hr
        · rw [List.mem_cons] at hr
          rcases hr with rfl | hr
          · exact hst
          · refine readyVariants_N _ ?_ r hr; exact hf
        · simp at hr; subst hr; exact hst

theorem N_markRecv (ex : Option Nat) (s : State) (fr : Parked → Parked) (hr : ∀ q, (fr q).call = q.call) (h : N ex s) :
    N ex { s with parkedRecv := s.parkedRecv.map fr } := by
  constructor
  · exact h.ok
  · exact h.rids
  · exact h.bound
  · show (((s.parkedRecv.map fr) ++ s.parkedSend).map (·.call)).Nodup
    have : ((s.parkedRecv.map fr) ++ s.parkedSend).map (·.call) = (s.parkedRecv ++ s.parkedSend).map (·.call) := by
      simp only [List.map_append, List.map_map]
      congr 1
      apply List.map_congr_left
      intro q _; exact hr q
    rw [this]; exact h.calls

theorem nodup_calls_send (s : State) (h : ((s.parkedRecv ++ s.parkedSend).map (·.call)).Nodup) : (s.parkedSend.map (·.call)).Nodup := by
  rw [List.map_append] at h
  exact (List.nodup_append.mp h).2.1

theorem eq_of_nodup_map_call (l : List Parked) (h : (l.map (·.call)).Nodup) (a b : Parked) (ha : a ∈ l) (hb : b ∈ l)
    (hf : a.call = b.call) : a = b := by
  induction l with
  | nil => simp at ha
  | cons x xs ih =>
    simp only [List.map_cons, List.nodup_cons, List.mem_map, not_exists, not_and] at h
    simp only [List.mem_cons] at ha hb
    rcases ha with rfl | ha <;> rcases hb with rfl | hb
    · rfl
    · exact absurd hf.symm (h.1 b hb)
    · exact absurd hf (h.1 a ha)
    · exact ih h.2 ha hb

/-- a conditional update of the expired flag / deadline of parked Sends -/
def markIf (b : Parked → Bool) (v : Bool) (q : Parked) : Parked := if b q then { q with expired := v, deadline := none } else q

theorem markIf_fields (b : Parked → Bool) (v : Bool) (q : Parked) :
    (markIf b v q).call = q.call ∧ (markIf b v q).rid = q.rid ∧ (markIf b v q).ctx = q.ctx := by
  unfold markIf; cases b q <;> exact ⟨rfl, rfl, rfl⟩

theorem markIf_expired (b : Parked → Bool) (v : Bool) (q : Parked) :
    (markIf b v q).expired = if b q then v else q.expired := by
  unfold markIf; cases b q <;> rfl

theorem N_mapSend (ex ex' : Option Nat) (s : State) (g : Parked → Parked)
    (hg : ∀ q, (g q).call = q.call ∧ (g q).rid = q.rid ∧ (g q).ctx = q.ctx)
    (hE : ∀ q ∈ s.parkedSend, some q.ctx ≠ ex' → some q.ctx ≠ ex ∧ (g q).expired = false)
    (h : N ex s) : N ex' { s with parkedSend := s.parkedSend.map g } := by
  constructor
  · intro q hq hne
    simp only [List.mem_map] at hq
    obtain ⟨q0, hq0, rfl⟩ := hq
    rw [(hg q0).2.2] at hne
    obtain ⟨hne0, hexp⟩ := hE q0 hq0 hne
    obtain ⟨x, hx, h1, h2, h3, h4, _⟩ := h.ok q0 hq0 hne0
    refine ⟨x, ?_, h1, ?_, h3, h4, hexp⟩
    · rw [(hg q0).2.2]; exact hx
    · rw [(hg q0).2.1]; exact h2
  · simp only [List.map_map]
    have : ((fun x => x.rid) ∘ g) = (fun x => x.rid) := by funext q; exact (hg q).2.1
    rw [this]; exact h.rids
  · intro q hq
    simp only [List.mem_map] at hq
    obtain ⟨q0, hq0, rfl⟩ := hq
    rw [(hg q0).2.1]; exact h.bound q0 hq0
  · show ((s.parkedRecv ++ s.parkedSend.map g).map (·.call)).Nodup
    have : (s.parkedRecv ++ s.parkedSend.map g).map (·.call) = (s.parkedRecv ++ s.parkedSend).map (·.call) := by
      simp only [List.map_append, List.map_map]
      congr 1
      apply List.map_congr_left
      intro q _; exact (hg q).1
    rw [this]; exact h.calls

/-- marking the parked Send p: only p changes, so only p's context needs re-evaluation -/
theorem N_markSend_ex (s : State) (p : Parked) (hp : p ∈ s.parkedSend) (v : Bool) (h : N none s) :
    N (some p.ctx) { s with parkedSend := s.parkedSend.map (markIf (fun q => q.call == p.call) v) } := by
  have hcs := nodup_calls_send s h.calls
  apply N_mapSend none (some p.ctx) s _ (markIf_fields _ v) _ h
  intro q hq hne
  refine ⟨by simp, ?_⟩
  rw [markIf_expired]
  by_cases hc : (q.call == p.call) = true
  · have : q = p := eq_of_nodup_map_call s.parkedSend hcs q p hq hp (by simpa using hc)
    subst this
    exact absurd rfl hne
  · simp only [hc, if_false]
    obtain ⟨_, _, _, _, _, _, h5⟩ := h.ok q hq (by simp)
    exact h5

theorem N_markSend_false (s : State) (p : Parked) (h : N none s) :
    N none { s with parkedSend := s.parkedSend.map (markIf (fun q => q.call == p.call) false) } := by
  apply N_mapSend none none s _ (markIf_fields _ false) _ h
  intro q hq _
  refine ⟨by simp, ?_⟩
  rw [markIf_expired]
  obtain ⟨_, _, _, _, _, _, h5⟩ := h.ok q hq (by simp)
  cases (q.call == p.call) <;> simp [h5]

/-- the due Send deadlines of context c fire together with a Recv deadline of c: only c needs re-evaluation -/
theorem expireSends_N (now : Nat) (s : State) (c : Nat) (h : N none s) :
    N (some c) { s with parkedSend := s.parkedSend.map (markIf (fun q => q.ctx == c && (match q.deadline with | some t => decide (t.tmin + t.period ≤ now) | none => false)) true) } := by
  apply N_mapSend none (some c) s _ (markIf_fields _ true) _ h
  intro q hq hne
  refine ⟨by simp, ?_⟩
  rw [markIf_expired]
  have hqc : (q.ctx == c) = false := by
    cases hb : (q.ctx == c) with
    | false => rfl
    | true => exact absurd (by rw [beq_iff_eq.mp hb]) hne
  obtain ⟨_, _, _, _, _, _, h5⟩ := h.ok q hq (by simp)
  simp [hqc, h5]

theorem expireSends_eq (now : Nat) (s : State) (c : Nat) :
    expireSends now s c = { s with parkedSend := s.parkedSend.map (markIf (fun q => q.ctx == c && (match q.deadline with | some t => decide (t.tmin + t.period ≤ now) | none => false)) true) } := by
  unfold expireSends markIf
  rfl

theorem deadlineFired_send_N (st : State × List (Nat × Ev)) (p : Parked) (hp : p ∈ st.1.parkedSend) (h : N none st.1) :
    N none (deadlineFired st false p).1 := by
  unfold deadlineFired
  simp only [Bool.false_eq_true, if_false]
  split
  · exact h
  · rename_i x hx
    split
    · -- still pending: the call is marked expired, the request cancelled, the waiters re-evaluate
      have hm : N (some p.ctx) { st.1 with parkedSend := st.1.parkedSend.map (markIf (fun q => q.call == p.call) (x.sendMsg.isSome && x.sendFor == p.rid)) } :=
        N_markSend_ex st.1 p hp _ h
      have hc := cancel_N (some p.ctx) _ p.ctx (by intro d hd; cases hd; rfl) hm
      refine wake_N _ p.ctx ?_ hc
      apply cancel_getCtx_isSome
      show (getCtx st.1 p.ctx).isSome = true
      rw [hx]; rfl
    · rename_i hns
      have hv : (x.sendMsg.isSome && x.sendFor == p.rid) = false := by simpa using hns
      have := N_markSend_false st.1 p h
      rw [hv]
      exact this

theorem deadlineFired_recv_N (st : State × List (Nat × Ev)) (p : Parked) (h : N none st.1) :
    N none (deadlineFired st true p).1 := by
  unfold deadlineFired
  simp only [if_true]
  split
  · exact h
  · rename_i x hx
    have hm : ∀ v : Bool, N none { st.1 with parkedRecv := st.1.parkedRecv.map (fun q => if q.call == p.call then { q with expired := v, deadline := none } else q) } :=
      fun v => N_markRecv none st.1 _ (fun q => by split <;> rfl) h
    split
    · refine wake_N _ p.ctx ?_ (cancel_N none _ p.ctx (by intro d hd; cases hd) (hm _))
      apply cancel_getCtx_isSome
      show (getCtx st.1 p.ctx).isSome = true
      rw [hx]; rfl
    · exact hm _

/-- a Recv deadline of context c fires together with c's due Send deadlines -/
theorem deadlineFired_recv_N_ex (st : State × List (Nat × Ev)) (p : Parked) (h : N (some p.ctx) st.1) (hstill : recvStill st.1 p = true) :
    N none (deadlineFired st true p).1 := by
  unfold deadlineFired
  simp only [if_true]
  unfold recvStill at hstill
  split
  · rename_i hn; rw [hn] at hstill; cases hstill
  · rename_i x hx
    rw [hx] at hstill
    simp only [] at hstill
    have hm : ∀ v : Bool, N (some p.ctx) { st.1 with parkedRecv := st.1.parkedRecv.map (fun q => if q.call == p.call then { q with expired := v, deadline := none } else q) } :=
      fun v => N_markRecv (some p.ctx) st.1 _ (fun q => by split <;> rfl) h
    simp only [hstill, if_true]
    have hc := cancel_N (some p.ctx) _ p.ctx (by intro d hd; cases hd; rfl) (hm true)
    refine wake_N _ p.ctx ?_ hc
    apply cancel_getCtx_isSome
    show (getCtx st.1 p.ctx).isSome = true
    rw [hx]; rfl

theorem recvStill_expireSends (now : Nat) (s : State) (c : Nat) (p : Parked) : recvStill (expireSends now s c) p = recvStill s p := by
  unfold recvStill expireSends
  rfl

theorem deadlineFire_N (now : Nat) (st : State × List (Nat × Ev)) (isRecv : Bool) (p : Parked) (t : Timer)
    (hp : isRecv = false → p ∈ st.1.parkedSend) (h : N none st.1) : ∀ r ∈ deadlineFire now st isRecv p t, N none r.1 := by
  intro r hr
  have hbase : N none (deadlineFired st isRecv p).1 := by
    cases isRecv
    · exact deadlineFired_send_N st p (hp rfl) h
    · exact deadlineFired_recv_N st p h
  have hfired : ∀ r ∈ (if (isRecv && recvStill st.1 p && expireSends now st.1 p.ctx != st.1) = true
      then [deadlineFired st isRecv p, deadlineFired (expireSends now st.1 p.ctx, st.2) isRecv p]
      else [deadlineFired st isRecv p]), N none r.1 := by
    intro r hr
    split at hr
    · rename_i hcond
      simp only [Bool.and_eq_true] at hcond
      simp at hr
      rcases hr with rfl | rfl
      · exact hbase
      · have hisr : isRecv = true := hcond.1.1
        subst hisr
        apply deadlineFired_recv_N_ex (expireSends now st.1 p.ctx, st.2) p
        · show N (some p.ctx) (expireSends now st.1 p.ctx)
          rw [expireSends_eq]; exact expireSends_N now st.1 p.ctx h
        · show recvStill (expireSends now st.1 p.ctx) p = true
          rw [recvStill_expireSends]; exact hcond.1.2
    · simp at hr; subst hr; exact hbase
  unfold deadlineFire at hr
  simp only [] at hr
  split at hr
  · exact hfired r hr
  · split at hr
    · rw [List.mem_cons] at hr
      rcases hr with rfl | hr
      · exact h
      · exact hfired r hr
    · simp at hr; subst hr; exact h

theorem deadlineRound_N (now : Nat) (acc0 : List (State × List (Nat × Ev))) (calls : List Nat) (h : ∀ st ∈ acc0, N none st.1) :
    ∀ st ∈ deadlineRound now acc0 calls, N none st.1 := by
  unfold deadlineRound
  apply foldl_flatMap_all (fun st : State × List (Nat × Ev) => N none st.1) _ _ calls acc0 h
  intro call st hst r hr
  split at hr
  · split at hr
    · exact deadlineFire_N now st true _ _ (by intro e; cases e) hst r hr
    · simp at hr; subst hr; exact hst
  · rename_i p _ hfind
    split at hr
    · exact deadlineFire_N now st false _ _ (fun _ => List.mem_of_find?_eq_some hfind) hst r hr
    · simp at hr; subst hr; exact hst
  · simp at hr; subst hr; exact hst

theorem timerOutcomes_N (s : State) (now : Nat) (h : N none s) : ∀ st ∈ timerOutcomes s now, N none st.1 := by
  intro st hst
  unfold timerOutcomes at hst
  simp only [] at hst
  have h0 : ∀ st ∈ dedup (deadlineRound now [(s, [])] (s.parkedRecv.map (·.call) ++ s.parkedSend.map (·.call))), N none st.1 :=
    fun st hst => deadlineRound_N now _ _ (by intro b hb; simp at hb; subst hb; exact h) st (mem_dedup _ st hst)
  have h1 := fun st hst => timerRound_N now _ (s.ctxs.map (·.id)) h0 st (mem_dedup _ st hst)
  have h2 := fun st hst => timerRound_N now _ (s.ctxs.map (·.id)) h1 st (mem_dedup _ st hst)
  have h3 := fun st hst => timerRound_N now _ (s.ctxs.map (·.id)) h2 st (mem_dedup _ st hst)
  have h4 := fun st hst => timerRound_N now _ (s.ctxs.map (·.id)) h3 st (mem_dedup _ st hst)
  exact h4 st (List.mem_of_mem_take hst)

theorem dropOne_N (p : Nat) (acc : State × List (Nat × Ev) × List (Nat × Nat)) (c0 : Ctx) (h : N none acc.1) : N none (dropOne p acc c0).1 := by
  unfold dropOne
  split
  · exact h
  · rename_i c hc
    have hsome : (getCtx acc.1 c.id).isSome = true := by
      have := getCtx_id acc.1 c0.id c hc
      rw [this, hc]; rfl
    split
    · exact wake_N _ c.id (cancel_getCtx_isSome _ _ hsome) (cancel_N none _ c.id (by intro d hd; cases hd) h)
    · split
      · have h2 := setCtx_N none acc.1 c.id (fun y => { y with lastPipe := none }) (fun y => ⟨rfl, rfl, rfl, rfl, rfl⟩) h
        have hsome2 : (getCtx (setCtx acc.1 c.id (fun y => { y with lastPipe := none })) c.id).isSome = true := by
          rw [getCtx_setCtx]
          case hf => intro y; rfl
          cases hg : getCtx acc.1 c.id with
          | none => rw [hg] at hsome; cases hsome
          | some z => rfl
        split
        · exact wake_N _ c.id (cancel_getCtx_isSome _ _ hsome2) (cancel_N none _ c.id (by intro d hd; cases hd) h2)
        · exact cancelSend_N none _ _ h2
      · exact h

theorem dropResends_N (arm : Nat × Nat) (todo : List (Nat × Nat)) (start : State × List (Nat × Ev)) (order : List Nat)
    (h : N none start.1) : N none (dropResends arm todo start order).1 := by
  unfold dropResends
  apply foldl_K _ (fun acc : State × List (Nat × Ev) => N none acc.1) _ order start h
  intro acc cid hacc
  split
  · exact hacc
  · exact resend_N _ _ _ _ hacc

theorem dropPipe_N (s : State) (arm : Nat × Nat) (p : Nat) (h : N none s) : ∀ r ∈ dropPipe s arm p, N none r.1 := by
  intro r hr
  unfold dropPipe at hr
  simp only [List.mem_flatMap] at hr
  obtain ⟨order, _, hr⟩ := hr
  refine readyVariants_N _ ?_ r hr
  apply dropResends_N
  apply foldl_K (dropOne p) (fun acc : State × List (Nat × Ev) × List (Nat × Nat) => N none acc.1) (fun b a hb => dropOne_N p b a hb)
  exact N_same none s _ h rfl rfl rfl rfl

theorem closeCtx_N (s : State) (c : Nat) (hex : (getCtx s c).isSome = true) (h : N none s) :
    N none (wake (cancel (setCtx s c (fun y => { y with closed := true })) c) c).1 := by
  have h1 := setCtx_N_ex none s c (fun y => { y with closed := true }) (fun y => rfl) (by intro d hd; cases hd) h
  have hex1 : (getCtx (setCtx s c (fun y => { y with closed := true })) c).isSome = true := by
    rw [getCtx_setCtx]
    case hf => intro y; rfl
    cases hg : getCtx s c with
    | none => rw [hg] at hex; cases hex
    | some z => rfl
  exact wake_N _ c (cancel_getCtx_isSome _ _ hex1) (cancel_N (some c) _ c (by intro d hd; cases hd; rfl) h1)

theorem closeOne_N (acc : State × List (Nat × Ev)) (c : Ctx) (hex : (getCtx acc.1 c.id).isSome = true) (h : N none acc.1) :
    N none (closeOne acc c).1 := by
  unfold closeOne
  split
  · exact h
  · exact closeCtx_N acc.1 c.id hex h

/-! ### what `wake` leaves alone -/

theorem cancel_nsent (s : State) (c : Nat) : (cancel s c).nsent = s.nsent := by
  unfold cancel cancelSend
  simp only []
  split <;> rfl

theorem cancel_parkedSend (s : State) (c : Nat) : (cancel s c).parkedSend = s.parkedSend := by
  unfold cancel cancelSend
  simp only []
  split <;> rfl

theorem wakeSends_nsent (s : State) (c : Nat) (x : Ctx) : (wakeSends s c x).1.nsent = s.nsent := by
  simp only [wakeSends]
  split <;> rfl

theorem wakeRecv_nsent (s : State) (c : Nat) (np : Bool) (evs : List (Nat × Ev)) : (wakeRecv s c np evs).1.nsent = s.nsent := by
  unfold wakeRecv
  split
  · rfl
  · split
    · rfl
    · split
      · rfl
      · simp only []
        split
        · rfl
        · split <;> rfl

theorem wake_nsent (s : State) (c : Nat) : (wake s c).1.nsent = s.nsent := by
  unfold wake
  split
  · rfl
  · rw [wakeRecv_nsent, wakeSends_nsent]

theorem wakeSends_parkedSend_sub (s : State) (c : Nat) (x : Ctx) : (wakeSends s c x).1.parkedSend.Sublist s.parkedSend := by
  simp only [wakeSends]
  split
  · exact List.filter_sublist
  · exact List.filter_sublist

theorem wakeRecv_parkedRecv_sub (s : State) (c : Nat) (np : Bool) (evs : List (Nat × Ev)) : (wakeRecv s c np evs).1.parkedRecv.Sublist s.parkedRecv := by
  unfold wakeRecv
  split
  · exact List.Sublist.refl _
  · split
    · exact List.Sublist.refl _
    · split
      · exact List.Sublist.refl _
      · simp only []
        split
        · exact List.filter_sublist
        · split
          · exact List.filter_sublist
          · exact List.filter_sublist

theorem wake_parked_sub (s : State) (c : Nat) :
    (wake s c).1.parkedSend.Sublist s.parkedSend ∧ (wake s c).1.parkedRecv.Sublist s.parkedRecv := by
  unfold wake
  split
  · exact ⟨List.Sublist.refl _, List.Sublist.refl _⟩
  · constructor
    · rw [wakeRecv_parkedSend]; exact wakeSends_parkedSend_sub s c _
    · refine List.Sublist.trans (wakeRecv_parkedRecv_sub _ c _ _) ?_
      rw [wakeSends_parkedRecv]; exact List.Sublist.refl _

/-- when no parked Send is the pending one, re-evaluation leaves the context's pending message alone -/
theorem wake_keeps_pending (s : State) (c : Nat) (x : Ctx) (hx : getCtx s c = some x)
    (hno : ∀ q ∈ s.parkedSend, (x.sendMsg.isSome && x.sendFor == q.rid) = false) :
    ∃ y, getCtx (wake s c).1 c = some y ∧ y.sendMsg = x.sendMsg ∧ y.sendFor = x.sendFor ∧ y.sendAbort = x.sendAbort ∧ y.closed = x.closed := by
  unfold wake
  simp only [hx]
  have hws : getCtx (wakeSends s c x).1 c = some x := by
    simp only [wakeSends]
    split
    · rename_i hany
      obtain ⟨q, hq, hqm⟩ := List.any_eq_true.mp hany
      have := hno q (List.mem_filter.mp hq).1
      rw [this] at hqm; cases hqm
    · exact hx
  unfold wakeRecv
  split
  · exact ⟨x, hws, rfl, rfl, rfl, rfl⟩
  · split
    · rename_i hn; rw [hws] at hn; cases hn
    · rename_i y hy
      rw [hws] at hy; cases hy
      split
      · exact ⟨x, hws, rfl, rfl, rfl, rfl⟩
      · simp only []
        split
        · refine ⟨{ x with receiveWait := false }, ?_, rfl, rfl, rfl, rfl⟩
          exact getCtx_setCtx_eq _ c (fun z => { z with receiveWait := false }) (fun z => rfl) x hws
        · split
          · refine ⟨{ x with reqID := 0, repMsg := none, receiveWait := false }, ?_, rfl, rfl, rfl, rfl⟩
            exact getCtx_setCtx_eq _ c (fun z => { z with reqID := 0, repMsg := none, receiveWait := false }) (fun z => rfl) x hws
          · exact ⟨x, hws, rfl, rfl, rfl, rfl⟩

theorem cancel_getCtx_closed (s : State) (c : Nat) (x : Ctx) (hx : getCtx s c = some x) :
    ∃ y, getCtx (cancel s c) c = some y ∧ y.closed = x.closed := by
  have h1 : getCtx (cancelSend s c) c = some { x with queued := false } := by
    rw [getCtx_cancelSend, hx]
    have := getCtx_id s c x hx
    simp [this]
  unfold cancel
  simp only [h1]
  refine ⟨{ x with queued := false, reqID := 0, repMsg := none, reqMsg := none, timer := none, sendAbort := x.sendMsg.isSome }, ?_, rfl⟩
  exact getCtx_setCtx_eq _ c (fun y => { y with reqID := 0, repMsg := none, reqMsg := none, timer := none, sendAbort := y.sendMsg.isSome }) (fun y => rfl) { x with queued := false } h1

theorem N_addSend (s : State) (np : Parked) (hok : OKp s np) (hrid : ∀ q ∈ s.parkedSend, q.rid ≠ np.rid) (hb : np.rid ≤ s.nsent)
    (hcall : ∀ q ∈ s.parkedRecv ++ s.parkedSend, q.call ≠ np.call) (h : N none s) :
    N none { s with parkedSend := s.parkedSend ++ [np] } := by
  constructor
  · intro q hq _
    simp only [List.mem_append, List.mem_singleton] at hq
    rcases hq with hq | rfl
    · obtain ⟨x, hx, hr⟩ := h.ok q hq (by simp)
      exact ⟨x, hx, hr⟩
    · obtain ⟨x, hx, hr⟩ := hok
      exact ⟨x, hx, hr⟩
  · show ((s.parkedSend ++ [np]).map (·.rid)).Nodup
    simp only [List.map_append, List.map_cons, List.map_nil]
    rw [List.nodup_append]
    refine ⟨h.rids, by simp, ?_⟩
    intro a ha b hb'
    simp only [List.mem_singleton] at hb'
    subst hb'
    simp only [List.mem_map] at ha
    obtain ⟨q, hq, rfl⟩ := ha
    exact hrid q hq
  · intro q hq
    simp only [List.mem_append, List.mem_singleton] at hq
    rcases hq with hq | rfl
    · exact h.bound q hq
    · exact hb
  · show ((s.parkedRecv ++ (s.parkedSend ++ [np])).map (·.call)).Nodup
    rw [← List.append_assoc]
    simp only [List.map_append, List.map_cons, List.map_nil]
    rw [List.nodup_append]
    refine ⟨by rw [← List.map_append]; exact h.calls, by simp, ?_⟩
    intro a ha b hb'
    simp only [List.mem_singleton] at hb'
    subst hb'
    rw [← List.map_append] at ha
    simp only [List.mem_map] at ha
    obtain ⟨q, hq, rfl⟩ := ha
    exact hcall q hq

theorem N_addRecv (ex : Option Nat) (s : State) (np : Parked) (hcall : ∀ q ∈ s.parkedRecv ++ s.parkedSend, q.call ≠ np.call) (h : N ex s) :
    N ex { s with parkedRecv := s.parkedRecv ++ [np] } := by
  constructor
  · exact h.ok
  · exact h.rids
  · exact h.bound
  · show (((s.parkedRecv ++ [np]) ++ s.parkedSend).map (·.call)).Nodup
    have hperm : ((s.parkedRecv ++ [np]) ++ s.parkedSend).Perm ((s.parkedRecv ++ s.parkedSend) ++ [np]) := by
      rw [List.append_assoc, List.append_assoc]
      exact List.Perm.append_left _ List.perm_append_comm
    refine (List.Perm.nodup_iff (List.Perm.map _ hperm)).mpr ?_
    simp only [List.map_append, List.map_cons, List.map_nil]
    rw [List.nodup_append]
    refine ⟨by rw [← List.map_append]; exact h.calls, by simp, ?_⟩
    intro a ha b hb'
    simp only [List.mem_singleton] at hb'
    subst hb'
    rw [← List.map_append] at ha
    simp only [List.mem_map] at ha
    obtain ⟨q, hq, rfl⟩ := ha
    exact hcall q hq

theorem getCtx_appendCtx (s : State) (n : Ctx) (d : Nat) (x : Ctx) (h : getCtx s d = some x) :
    getCtx { s with ctxs := s.ctxs ++ [n] } d = some x := by
  unfold getCtx at h ⊢
  simp only [List.find?_append, h, Option.some_or]

theorem N_appendCtx (s : State) (n : Ctx) (h : N none s) : N none { s with ctxs := s.ctxs ++ [n] } := by
  constructor
  · intro p hp _
    obtain ⟨x, hx, hr⟩ := h.ok p hp (by simp)
    exact ⟨x, getCtx_appendCtx s n p.ctx x hx, hr⟩
  · exact h.rids
  · exact h.bound
  · exact h.calls

theorem callBusy_false (s : State) (call : Nat) (h : callBusy s call = false) : ∀ q ∈ s.parkedRecv ++ s.parkedSend, q.call ≠ call := by
  intro q hq e
  unfold callBusy at h
  simp only [Bool.or_eq_false_iff] at h
  simp only [List.mem_append] at hq
  rcases hq with hq | hq
  · have := List.any_eq_false.mp h.2 q hq
    simp [e] at this
  · have := List.any_eq_false.mp h.1 q hq
    simp [e] at this

theorem core_N (s : State) (now : Nat) (op : List String) (h : N none s) : ∀ r ∈ core s now op, N none r.1 := by
  intro r hr
  unfold core at hr
  split at hr
  · -- addpipe
    split at hr
    · simp at hr; subst hr; exact h
    · simp at hr; subst hr
      exact pump_N _ _ _ (N_same none s _ h rfl rfl rfl rfl)
  · -- rmpipe
    simp only [List.mem_map] at hr
    obtain ⟨r0, hr0, rfl⟩ := hr
    exact dropPipe_N s _ _ h r0 hr0
  · -- inject
    rename_i p b
    try simp only [] at hr
    split at hr
    · simp at hr; subst hr; exact h
    · split at hr
      · simp at hr; subst hr; exact h
      · try simp only [] at hr
        have h0 : ∀ q, N none ({ s with readyQ := q } : State) := fun q => N_same none s _ h rfl rfl rfl rfl
        split at hr
        · simp at hr; subst hr; exact h0 _
        · rename_i rid c hfind
          simp at hr; subst hr
          apply wake_N0
          have h1 := cancelSend_N none _ c (h0 (swapFront s.readyQ (natOf p)))
          exact setCtx_N none _ c _ (fun y => ⟨rfl, rfl, rfl, rfl, rfl⟩) (N_same none _ _ h1 rfl rfl rfl rfl)
  · -- send
    rename_i call ctx hd b
    simp only [] at hr
    split at hr
    · simp at hr
    · rename_i c hc
      have h0 : N none { s with nsent := s.nsent + 1, sent := s.sent ++ [(s.nsent + 1, bytesOf b)] } :=
        N_sub none s _ h (fun d => rfl) (List.Sublist.refl _) (List.Sublist.refl _) (Nat.le_succ _)
      split at hr
      · simp at hr; subst hr; exact h0
      · rename_i hclosed
        split at hr
        · simp at hr; subst hr; exact h0
        · split at hr
          · simp at hr
          rename_i hbusy
          have hcid : c.id = natOf ctx := getCtx_id s _ c hc
          have hopen : c.closed = false := by
            simp only [Bool.or_eq_true, not_or, Bool.not_eq_true] at hclosed
            exact hclosed.2
          have hc0 : getCtx { s with nsent := s.nsent + 1, sent := s.sent ++ [(s.nsent + 1, bytesOf b)] } c.id = some c := by rw [hcid]; exact hc
          obtain ⟨y1, hy1, hy1c⟩ := cancel_getCtx_closed { s with nsent := s.nsent + 1, sent := s.sent ++ [(s.nsent + 1, bytesOf b)] } c.id c hc0
          have h1 := cancel_N none _ c.id (by intro d hd; cases hd) h0
          have h2 : N (some c.id) (setCtx { (cancel { s with nsent := s.nsent + 1, sent := s.sent ++ [(s.nsent + 1, bytesOf b)] } c.id) with sendQ := (cancel { s with nsent := s.nsent + 1, sent := s.sent ++ [(s.nsent + 1, bytesOf b)] } c.id).sendQ ++ [c.id] } c.id (fun y => { y with reqID := s.nsent + 1, queued := true, sendMsg := some (bytesOf b), sendFor := s.nsent + 1, sendAbort := false })) :=
            setCtx_N_ex (some c.id) _ c.id _ (fun y => rfl) (by intro d hd; cases hd; rfl) (N_same (some c.id) _ _ h1 rfl rfl rfl rfl)
          have hx2 : getCtx (setCtx { (cancel { s with nsent := s.nsent + 1, sent := s.sent ++ [(s.nsent + 1, bytesOf b)] } c.id) with sendQ := (cancel { s with nsent := s.nsent + 1, sent := s.sent ++ [(s.nsent + 1, bytesOf b)] } c.id).sendQ ++ [c.id] } c.id (fun y => { y with reqID := s.nsent + 1, queued := true, sendMsg := some (bytesOf b), sendFor := s.nsent + 1, sendAbort := false })) c.id
              = some { y1 with reqID := s.nsent + 1, queued := true, sendMsg := some (bytesOf b), sendFor := s.nsent + 1, sendAbort := false } :=
            getCtx_setCtx_eq _ c.id (fun y => { y with reqID := s.nsent + 1, queued := true, sendMsg := some (bytesOf b), sendFor := s.nsent + 1, sendAbort := false }) (fun y => rfl) y1 hy1
          have h3 := wake_N _ c.id (by rw [hx2]; rfl) h2
          -- no parked Send carries the new request number
          have hps2 : (setCtx { (cancel { s with nsent := s.nsent + 1, sent := s.sent ++ [(s.nsent + 1, bytesOf b)] } c.id) with sendQ := (cancel { s with nsent := s.nsent + 1, sent := s.sent ++ [(s.nsent + 1, bytesOf b)] } c.id).sendQ ++ [c.id] } c.id (fun y => { y with reqID := s.nsent + 1, queued := true, sendMsg := some (bytesOf b), sendFor := s.nsent + 1, sendAbort := false })).parkedSend = s.parkedSend := by
            show (cancel { s with nsent := s.nsent + 1, sent := s.sent ++ [(s.nsent + 1, bytesOf b)] } c.id).parkedSend = s.parkedSend
            rw [cancel_parkedSend]
          have hpr2 : (setCtx { (cancel { s with nsent := s.nsent + 1, sent := s.sent ++ [(s.nsent + 1, bytesOf b)] } c.id) with sendQ := (cancel { s with nsent := s.nsent + 1, sent := s.sent ++ [(s.nsent + 1, bytesOf b)] } c.id).sendQ ++ [c.id] } c.id (fun y => { y with reqID := s.nsent + 1, queued := true, sendMsg := some (bytesOf b), sendFor := s.nsent + 1, sendAbort := false })).parkedRecv = s.parkedRecv := by
            show (cancel { s with nsent := s.nsent + 1, sent := s.sent ++ [(s.nsent + 1, bytesOf b)] } c.id).parkedRecv = s.parkedRecv
            rw [cancel_parkedRecv]
          obtain ⟨y3, hy3, hm3, hf3, ha3, hcl3⟩ := wake_keeps_pending _ c.id _ hx2 (by
            intro q hq
            rw [hps2] at hq
            have := h.bound q hq
            simp only [Option.isSome_some, Bool.true_and, beq_eq_false_iff_ne, ne_eq]
            omega)
          obtain ⟨hsubS, hsubR⟩ := wake_parked_sub (setCtx { (cancel { s with nsent := s.nsent + 1, sent := s.sent ++ [(s.nsent + 1, bytesOf b)] } c.id) with sendQ := (cancel { s with nsent := s.nsent + 1, sent := s.sent ++ [(s.nsent + 1, bytesOf b)] } c.id).sendQ ++ [c.id] } c.id (fun y => { y with reqID := s.nsent + 1, queued := true, sendMsg := some (bytesOf b), sendFor := s.nsent + 1, sendAbort := false })) c.id
          rw [hps2] at hsubS
          rw [hpr2] at hsubR
          have hns3 : (wake (setCtx { (cancel { s with nsent := s.nsent + 1, sent := s.sent ++ [(s.nsent + 1, bytesOf b)] } c.id) with sendQ := (cancel { s with nsent := s.nsent + 1, sent := s.sent ++ [(s.nsent + 1, bytesOf b)] } c.id).sendQ ++ [c.id] } c.id (fun y => { y with reqID := s.nsent + 1, queued := true, sendMsg := some (bytesOf b), sendFor := s.nsent + 1, sendAbort := false })) c.id).1.nsent = s.nsent + 1 := by
            rw [wake_nsent]
            show (cancel { s with nsent := s.nsent + 1, sent := s.sent ++ [(s.nsent + 1, bytesOf b)] } c.id).nsent = s.nsent + 1
            rw [cancel_nsent]
          have hadd : ∀ (dl : Option Timer), N none { (wake (setCtx { (cancel { s with nsent := s.nsent + 1, sent := s.sent ++ [(s.nsent + 1, bytesOf b)] } c.id) with sendQ := (cancel { s with nsent := s.nsent + 1, sent := s.sent ++ [(s.nsent + 1, bytesOf b)] } c.id).sendQ ++ [c.id] } c.id (fun y => { y with reqID := s.nsent + 1, queued := true, sendMsg := some (bytesOf b), sendFor := s.nsent + 1, sendAbort := false })) c.id).1 with
              parkedSend := (wake (setCtx { (cancel { s with nsent := s.nsent + 1, sent := s.sent ++ [(s.nsent + 1, bytesOf b)] } c.id) with sendQ := (cancel { s with nsent := s.nsent + 1, sent := s.sent ++ [(s.nsent + 1, bytesOf b)] } c.id).sendQ ++ [c.id] } c.id (fun y => { y with reqID := s.nsent + 1, queued := true, sendMsg := some (bytesOf b), sendFor := s.nsent + 1, sendAbort := false })) c.id).1.parkedSend ++ [{ call := natOf call, ctx := c.id, rid := s.nsent + 1, deadline := dl }] } := by
            intro dl
            apply N_addSend _ _ _ _ _ _ h3
            · refine ⟨y3, hy3, ?_, ?_, ?_, ?_, rfl⟩
              · rw [hm3]; rfl
              · rw [hf3]
              · rw [ha3]
              · rw [hcl3]; show y1.closed = false; rw [hy1c]; exact hopen
            · intro q hq
              have := h.bound q (hsubS.subset hq)
              show q.rid ≠ s.nsent + 1
              omega
            · show s.nsent + 1 ≤ _
              rw [hns3]; exact Nat.le_refl _
            · intro q hq
              simp only [List.mem_append] at hq
              have hbf := callBusy_false s (natOf call) (by simpa using hbusy)
              rcases hq with hq | hq
              · exact hbf q (List.mem_append_left _ (hsubR.subset hq))
              · exact hbf q (List.mem_append_right _ (hsubS.subset hq))
          split at hr
          · simp at hr; subst hr
            refine N_sub none (pump _ _ _).1 _ ?_ (fun d => rfl) List.filter_sublist (List.Sublist.refl _) (Nat.le_refl _)
            apply pump_N
            exact hadd _
          · simp at hr; subst hr
            apply pump_N
            exact hadd _
  · -- recv
    rename_i call ctx
    simp only [] at hr
    split at hr
    · simp at hr
    · rename_i c hc
      split at hr
      · simp at hr; subst hr; exact h
      · split at hr
        · simp at hr; subst hr; exact h
        · split at hr
          · simp at hr; subst hr; exact h
          · split at hr
            · simp at hr
            rename_i hbusy
            simp at hr; subst hr
            apply wake_N0
            refine setCtx_N none _ _ _ (fun y => ⟨rfl, rfl, rfl, rfl, rfl⟩) ?_
            exact N_addRecv none s _ (callBusy_false s (natOf call) (by simpa using hbusy)) h
  · simp at hr; subst hr; exact setCtx_N none s _ _ (fun y => ⟨rfl, rfl, rfl, rfl, rfl⟩) h
  · simp at hr; subst hr; exact setCtx_N none s _ _ (fun y => ⟨rfl, rfl, rfl, rfl, rfl⟩) h
  · simp at hr; subst hr; exact setCtx_N none s _ _ (fun y => ⟨rfl, rfl, rfl, rfl, rfl⟩) h
  · simp at hr; subst hr; exact setCtx_N none s _ _ (fun y => ⟨rfl, rfl, rfl, rfl, rfl⟩) h
  · simp at hr; subst hr; exact setCtx_N none s _ _ (fun y => ⟨rfl, rfl, rfl, rfl, rfl⟩) h
  · simp at hr; subst hr; exact N_same none s _ h rfl rfl rfl rfl
  · -- release ok
    split at hr
    · simp at hr
    · rename_i pp hpp
      split at hr
      · simp at hr
      · simp only [] at hr
        simp at hr; subst hr
        apply pump_N
        have h1 : N none (setPipe s pp.id (fun x => { x with inflight := none })) := N_same none s _ h rfl rfl rfl rfl
        split
        · exact h1
        · exact N_same none _ _ h1 rfl rfl rfl rfl
  · -- release err
    simp only [List.mem_map] at hr
    obtain ⟨r0, hr0, rfl⟩ := hr
    exact dropPipe_N s _ _ h r0 hr0
  · -- openctx
    split at hr
    · simp at hr; subst hr; exact h
    · split at hr
      · simp at hr
      · split at hr
        · simp at hr
        · simp at hr; subst hr
          exact N_appendCtx s _ h
  · -- closectx
    split at hr
    · simp at hr
    · rename_i c hc
      split at hr
      · simp at hr; subst hr; exact h
      · simp at hr; subst hr
        have hcid := getCtx_id s _ c hc
        apply closeCtx_N s c.id _ h
        rw [hcid, hc]; rfl
  · simp at hr; subst hr; exact h
  · -- close
    split at hr
    · simp at hr; subst hr; exact h
    · simp at hr; subst hr
      have := foldl_mem closeOne (fun acc : State × List (Nat × Ev) => N none acc.1 ∧ (clo acc.1).map Prod.fst = (clo s).map Prod.fst)
        s.ctxs ({ s with closed := true }, []) ?_ ⟨N_same none s _ h rfl rfl rfl rfl, rfl⟩
      · exact this.1
      · intro acc c hcm hacc
        refine ⟨closeOne_N acc c ?_ hacc.1, (closeOne_ids acc c).trans hacc.2⟩
        apply getCtx_isSome_of_ids
        rw [hacc.2]
        simp only [clo, List.map_map, List.mem_map]
        exact ⟨c, hcm, rfl⟩
  · simp at hr

theorem init_N : N none init := by
  constructor <;> simp [init]

theorem step_N (s : State) (op : List String) (h : N none s) : ∀ o ∈ step s op, N none o.1 := by
  intro o ho
  simp only [step, List.mem_flatMap, List.mem_map] at ho
  obtain ⟨st, hst, r, hr, r2, hr2, rfl⟩ := ho
  have h1 := timerOutcomes_N s _ h st hst
  have h2 := core_N st.1 _ _ h1 r hr
  exact timerOutcomes_N { r.1 with tprev := opTime op } _ (N_same none r.1 _ h2 rfl rfl rfl rfl) r2 hr2

theorem reach_N (s : State) (h : Reach s) : N none s := by
  induction h with
  | init => exact init_N
  | step s op o _ ho ih => exact step_N s op ih o ho

end Req
end Proto
end Model
