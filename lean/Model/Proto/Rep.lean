/-
  Model/Proto/Rep.lean — the four reply-side sockets:
    rep, respondent (cooked, contexts, backtrace kept per context) and xrep, xrespondent (raw, routed by
    the first header word).  Receive side: each pipe's receiver parses the routing header (Model.Hop) and
    offers the message; reply side: one bounded queue and one sender goroutine per pipe.
-/
import Model.Proto.Fanout
import Model.Hop
namespace Model
namespace Proto
namespace Rep

inductive Flavor where | rep | respondent | xrep | xrespondent
deriving Repr, BEq, DecidableEq

def Flavor.cooked : Flavor → Bool
  | .rep | .respondent => true
  | _ => false

structure Ctx where
  id : Nat
  closed : Bool := false
  backtrace : Option Bytes := none
  recvPipe : Option Nat := none
  recvWait : Bool := false           -- rep only: a Recv is in progress on this context
  req : Option (Nat × Bytes) := none -- ghost: pipe and routing header of the request this context's last Recv returned
deriving Repr, BEq

structure Parked where
  call : Nat
  ctx : Nat
  pipe : Nat
  msg : Msg
  orig : Bytes                        -- header as the caller passed it (restored on error, raw flavors)
deriving Repr, BEq

structure State where
  flavor : Flavor
  site : HopSite
  ttl : Nat := 8
  sendQLen : Nat
  recvQ : List (Nat × Msg) := []
  recvCap : Nat
  blocked : List (Nat × Msg) := []   -- receivers holding a parsed message (offer order)
  backlog : List (Nat × Bytes) := []
  pipes : List OutPipe := []
  gone : List Nat := []              -- pipes that have been removed (their closeQ is closed)
  ctxs : List Ctx := [{ id := 0 }]
  waiting : List (Nat × Nat) := []   -- blocked Recv calls (ctx, call), FIFO
  parkedSend : List Parked := []
  bestEffort : Bool := false
  closed : Bool := false
  -- ghost: every reply handed to a pipe together with the request it answers: (pipe written, header written, pipe and header of the request)
  replies : List (Nat × Bytes × Nat × Bytes) := []
deriving Repr, BEq

def init (f : Flavor) (site : HopSite) : State :=
  match f with
  | .rep => { flavor := f, site := site, sendQLen := 0, recvCap := 0 }
  | .respondent => { flavor := f, site := site, sendQLen := 0, recvCap := 128 }
  | .xrep | .xrespondent => { flavor := f, site := site, sendQLen := 128, recvCap := 128 }

def getCtx (s : State) (id : Nat) : Option Ctx := s.ctxs.find? (fun c => c.id = id)
def setCtx (s : State) (id : Nat) (f : Ctx → Ctx) : State := { s with ctxs := s.ctxs.map (fun c => if c.id = id then f c else c) }

/-- the receiver's parse of a body arriving on pipe p -/
def parse (s : State) (p : Nat) (body : Bytes) : Option Msg :=
  match s.flavor with
  | .rep | .respondent => Hop.recv s.site s.ttl [] body
  | .xrep => Hop.recv s.site s.ttl (beEnc 4 p) body
  | .xrespondent => if body.length < 4 then none else Hop.recv s.site s.ttl (beEnc 4 p) body

/-- hand a received (pipe, header, body) to a Recv call on context c -/
def deliverTo (s : State) (c call p : Nat) (m : Msg) : State × List (Nat × Ev) :=
  if s.flavor.cooked then
    (setCtx s c (fun x => { x with backtrace := some m.1, recvPipe := some p, recvWait := false, req := some (p, m.1) }), [(call, Ev.retMsg call [] m.2)])
  else (s, [(call, Ev.retMsg call m.1 m.2)])

def progress (s : State) : Option (State × List (Nat × Ev)) :=
  -- a blocked Send finds room in its pipe's queue
  match s.parkedSend.find? (fun ps => match findPipe s.pipes ps.pipe with
      | some p => p.inflight.isNone || p.q.length < p.cap
      | none => false) with
  | some ps =>
    match findPipe s.pipes ps.pipe with
    | some p =>
      let (p', evs, _) := p.offer ps.msg
      some ({ s with parkedSend := s.parkedSend.filter (fun x => x.call != ps.call), pipes := modifyPipe s.pipes p.id (fun _ => p') },
            (ps.call, Ev.retErr ps.call "ok") :: evs)
    | none => none
  | none =>
  match s.waiting, s.recvQ with
  | (c, call) :: rest, (p, m) :: q =>
    let (s', evs) := deliverTo { s with waiting := rest, recvQ := q } c call p m
    some (s', evs)
  | _, _ =>
  match s.blocked with
  | (p, m) :: bl =>
    match s.waiting with
    | (c, call) :: rest =>
      let (s', evs) := deliverTo { s with waiting := rest, blocked := bl } c call p m
      some (s', evs)
    | [] => if s.recvQ.length < s.recvCap then some ({ s with recvQ := s.recvQ ++ [(p, m)], blocked := bl }, []) else nextBacklog s
  | [] => nextBacklog s
where
  nextBacklog (s : State) : Option (State × List (Nat × Ev)) :=
    match s.backlog.find? (fun pb => !(s.blocked.any (fun x => x.1 == pb.1))) with
    | some (p, b) =>
      let s1 := { s with backlog := s.backlog.erase (p, b) }
      match parse s p b with
      | some m => some ({ s1 with blocked := s1.blocked ++ [(p, m)] }, [])
      | none => some (s1, [])
    | none => none

def settle : Nat → State → State × List (Nat × Ev)
  | 0, s => (s, [])
  | fuel+1, s =>
    match progress s with
    | none => (s, [])
    | some (s', evs) =>
      let (s'', evs') := settle fuel s'
      (s'', evs ++ evs')

def settled (s : State) (pre : List Ev) (evs : List (Nat × Ev)) : State × List Ev :=
  let (s', more) := settle (4 * (s.recvQ.length + s.blocked.length + s.backlog.length + s.waiting.length + s.parkedSend.length) + 8) s
  (s', pre ++ sortByKey (evs ++ more))

/-- the pipe goes away: its queued and in-flight replies are lost; Sends blocked on it return -/
def dropPipe (s : State) (p : Nat) : State × List (Nat × Ev) :=
  let lost := s.parkedSend.filter (fun x => x.pipe == p)
  let evs := lost.map (fun x => (x.call, if s.flavor == .xrep then Ev.retErr x.call "closed" else Ev.retErr x.call "ok"))
  let s1 := { s with pipes := removePipe s.pipes p, gone := s.gone ++ [p], parkedSend := s.parkedSend.filter (fun x => x.pipe != p),
                     backlog := s.backlog.filter (fun x => x.1 != p) }
  -- rep, xrep, xrespondent receivers give up their offer when their pipe closes; respondent's keeps it
  let s2 := if s.flavor == .respondent then s1 else { s1 with blocked := s1.blocked.filter (fun x => x.1 != p) }
  (s2, evs)

def closeCtx (s : State) (c : Nat) : State × List (Nat × Ev) :=
  let w := s.waiting.filter (fun x => x.1 == c)
  let ps := s.parkedSend.filter (fun x => x.ctx == c)
  (setCtx { s with waiting := s.waiting.filter (fun x => x.1 != c), parkedSend := s.parkedSend.filter (fun x => x.ctx != c) } c
      (fun x => { x with closed := true, recvWait := false }),
   w.map (fun x => (x.2, Ev.retErr x.2 "closed")) ++ ps.map (fun x => (x.call, Ev.retErr x.call "closed")))

/-- route a reply to pipe p -/
def sendTo (s : State) (call ctx p : Nat) (m : Msg) (orig : Bytes) (reqPipe : Nat) (reqHdr : Bytes) : List (State × List Ev) :=
  if s.gone.contains p || (findPipe s.pipes p).isNone then
    -- the requesting connection has gone: the reply is discarded
    if s.flavor == .xrep && s.gone.contains p && (findPipe s.pipes p).isSome then [] else [(s, [Ev.retErr call "ok"])]
  else
  match findPipe s.pipes p with
  | none => [(s, [Ev.retErr call "ok"])]
  | some op =>
    let (op', evs, accepted) := op.offer m
    let sent := { s with pipes := modifyPipe s.pipes p (fun _ => op'), replies := s.replies ++ [(p, m.1, reqPipe, reqHdr)] }
    let dropped := (s, [Ev.retErr call "ok"])
    if s.bestEffort then
      if accepted then [settled sent [] ((call, Ev.retErr call "ok") :: evs), dropped] else [dropped]
    else if accepted then [settled sent [] ((call, Ev.retErr call "ok") :: evs)]
    else [({ s with parkedSend := s.parkedSend ++ [{ call := call, ctx := ctx, pipe := p, msg := m, orig := orig }],
                    replies := s.replies ++ [(p, m.1, reqPipe, reqHdr)] }, [])]

def step (s : State) (op : List String) : List (State × List Ev) :=
  match op with
  | ["addpipe", p] =>
    if s.closed then [(s, [Ev.res "closed"])]
    else [({ s with pipes := s.pipes ++ [{ id := natOf p, cap := s.sendQLen }] }, [Ev.res "ok"])]
  | ["rmpipe", p] =>
    let (s', evs) := dropPipe s (natOf p)
    [settled s' [] ((natOf p, Ev.closed (natOf p)) :: evs)]
  | ["inject", p, b] =>
    if (findPipe s.pipes (natOf p)).isSome then [settled { s with backlog := s.backlog ++ [(natOf p, bytesOf b)] } [] []] else [(s, [])]
  | ["recv", call, ctx] =>
    let call := natOf call
    if s.flavor.cooked then
      match getCtx s (natOf ctx) with
      | none => []
      | some c =>
        if c.closed then [(s, [Ev.retErr call "closed"])]
        else if s.flavor == .rep && c.recvWait then [(s, [Ev.retErr call "protostate"])]
        else
          let s1 := if s.flavor == .respondent then setCtx s c.id (fun x => { x with backtrace := none, recvPipe := none })
                    else setCtx s c.id (fun x => { x with recvWait := true })
          [settled { s1 with waiting := s1.waiting ++ [(c.id, call)] } [] []]
    else
      if s.closed then
        match s.recvQ with
        | [] => [(s, [Ev.retErr call "closed"])]
        | (_, m) :: q => [(s, [Ev.retErr call "closed"]), settled { s with recvQ := q } [] [(call, Ev.retMsg call m.1 m.2)]]
      else [settled { s with waiting := s.waiting ++ [(0, call)] } [] []]
  | ["send", call, ctx, h, b] =>
    let call := natOf call
    if s.flavor.cooked then
      match getCtx s (natOf ctx) with
      | none => []
      | some c =>
        if s.closed || c.closed then [(s, [Ev.retErr call "closed"])]
        else match c.backtrace with
          | none => [(s, [Ev.retErr call "protostate"])]
          | some bt =>
            let s1 := setCtx s c.id (fun x => { x with backtrace := none, recvPipe := none })
            match c.recvPipe with
            | none => []
            | some p => sendTo s1 call c.id p (bt, bytesOf b) (bytesOf h) (c.req.getD (0, [])).1 (c.req.getD (0, [])).2
    else
      if s.closed then [(s, [Ev.retErr call "closed"])] else
      let hdr := bytesOf h
      if hdr.length < 4 then [(s, [Ev.retErr call "ok"])] else
      let p := beDec (hdr.take 4)
      sendTo s call 0 p (hdr.drop 4, bytesOf b) hdr p (hdr.drop 4)
  | ["setopt", _, "BEST-EFFORT", v] => [({ s with bestEffort := v == "true" }, [Ev.res "ok"])]
  | ["setopt", _, "TTL", n] => [({ s with ttl := natOf n }, [Ev.res "ok"])]
  | ["setopt", _, "WRITEQ-LEN", n] => [({ s with sendQLen := natOf n }, [Ev.res "ok"])]
  | ["setopt", _, "SEND-DEADLINE", _] => [(s, [Ev.res "ok"])]
  -- the send deadline of a blocked Send elapses (the harness sleeps across it): the call gives up; what it had taken
  -- from its context (backtrace, pipe) is not put back — a survey / request received meanwhile stays the pending one
  | ["expire", call] =>
    match s.parkedSend.find? (fun x => x.call == natOf call) with
    | none => []
    | some ps => [({ s with parkedSend := s.parkedSend.filter (fun x => x.call != ps.call) }, [Ev.retErr ps.call "sendtimeout"])]
  | ["hold", p, v] => [({ s with pipes := modifyPipe s.pipes (natOf p) (fun x => { x with hold := v == "1" }) }, [])]
  | ["release", p, "ok"] =>
    match findPipe s.pipes (natOf p) with
    | none => []
    | some x =>
      let (x', evs) := x.releaseOk
      [settled { s with pipes := modifyPipe s.pipes x.id (fun _ => x') } [] evs]
  | ["release", p, "err"] =>
    let (s', evs) := dropPipe s (natOf p)
    [settled s' [] ((natOf p, Ev.closed (natOf p)) :: evs)]
  | ["openctx", id] =>
    if !s.flavor.cooked then [(s, [Ev.res "protoop"])]
    else if s.closed then [(s, [Ev.res "closed"])]
    else [({ s with ctxs := s.ctxs ++ [{ id := natOf id }] }, [Ev.res "ok"])]
  | ["closectx", id] =>
    match getCtx s (natOf id) with
    | none => []
    | some c =>
      if c.closed then [(s, [Ev.res "closed"])] else
      let (s', evs) := closeCtx s c.id
      [(s', Ev.res "ok" :: sortByKey evs)]
  | ["close"] =>
    if s.closed then [(s, [Ev.res "closed"])] else
    if s.flavor.cooked then
      let r := s.ctxs.foldl (fun (acc : State × List (Nat × Ev)) c => if c.closed then acc else
                let (s', evs) := closeCtx acc.1 c.id; (s', acc.2 ++ evs)) (s, [])
      [({ r.1 with closed := true }, Ev.res "ok" :: sortByKey r.2)]
    else
      let evs := s.waiting.map (fun x => (x.2, Ev.retErr x.2 "closed"))
      [({ s with closed := true, waiting := [] }, Ev.res "ok" :: sortByKey evs)]
  | _ => []

end Rep
end Proto
end Model
