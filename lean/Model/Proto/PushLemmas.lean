import Model.Proto.Push
namespace Model
namespace Proto
namespace Push

/-- messages handed to pipes, then the queued ones, form — in order — part of what entered the send queue:
    each accepted message is handed to at most one pipe, never duplicated, reordered or invented -/
def Inv (s : State) : Prop := (s.handed.map (·.2) ++ s.sendQ).Sublist s.enq

theorem setPipe_fields (s : State) (id : Nat) (f : Pipe → Pipe) :
    (setPipe s id f).handed = s.handed ∧ (setPipe s id f).sendQ = s.sendQ ∧ (setPipe s id f).enq = s.enq := by
  simp [setPipe]

theorem progress_inv (s : State) (h : Inv s) (s' : State) (evs) (hp : progress s = some (s', evs)) : Inv s' := by
  unfold progress at hp
  split at hp
  · rename_i p ready m q hr hq
    split at hp
    · simp only [Option.some.injEq, Prod.mk.injEq] at hp
      obtain ⟨rfl, _⟩ := hp
      simpa [Inv] using h
    · split at hp
      · simp only [Option.some.injEq, Prod.mk.injEq] at hp
        obtain ⟨rfl, _⟩ := hp
        unfold Inv at h ⊢
        simp only [hq] at h
        simp only [setPipe, List.map_append, List.map_cons, List.map_nil]
        simpa [List.append_assoc] using h
      · simp only [Option.some.injEq, Prod.mk.injEq] at hp
        obtain ⟨rfl, _⟩ := hp
        unfold Inv at h ⊢
        simp only [hq] at h
        simpa [List.append_assoc] using h
  · split at hp
    · split at hp
      · rename_i call m rest hps hroom
        simp only [Option.some.injEq, Prod.mk.injEq] at hp
        obtain ⟨rfl, _⟩ := hp
        unfold Inv at h ⊢
        have := List.Sublist.append h (List.Sublist.refl [m])
        simpa [List.append_assoc] using this
      · simp at hp
    · simp at hp

theorem settle_inv (fuel : Nat) (s : State) (h : Inv s) : Inv (settle fuel s).1 := by
  induction fuel generalizing s with
  | zero => simpa [settle] using h
  | succ n ih =>
    simp only [settle]
    cases hp : progress s with
    | none => simpa using h
    | some r =>
      obtain ⟨s', evs⟩ := r
      exact ih s' (progress_inv s h s' evs hp)

theorem settled_inv (s : State) (pre evs) (h : Inv s) : Inv (settled s pre evs).1 := by
  simp only [settled]; exact settle_inv _ s h

theorem dropPipe_inv (s : State) (p : Nat) (h : Inv s) : Inv (dropPipe s p).1 := by
  unfold dropPipe
  simp only []
  split <;> simpa [Inv] using h

theorem step_inv (s : State) (op : List String) (h : Inv s) : ∀ o ∈ step s op, Inv o.1 := by
  intro o ho
  unfold step at ho
  have henq : ∀ m : Msg, Inv { s with sendQ := s.sendQ ++ [m], enq := s.enq ++ [m] } := by
    intro m
    unfold Inv at h ⊢
    have := List.Sublist.append h (List.Sublist.refl [m])
    simpa [List.append_assoc] using this
  split at ho
  · split at ho
    · simp at ho; subst ho; exact h
    · simp at ho; subst ho; exact settled_inv _ _ _ (by simpa [Inv] using h)
  · simp at ho; subst ho; exact settled_inv _ _ _ (dropPipe_inv s _ h)
  · simp at ho; subst ho; exact h
  · split at ho
    · simp at ho; subst ho; exact h
    · split at ho
      · simp at ho; subst ho; exact h
      · simp only [] at ho
        split at ho
        · split at ho
          · simp at ho
            rcases ho with rfl | rfl
            · exact settled_inv _ _ _ (henq _)
            · exact h
          · simp at ho; subst ho; exact h
        · split at ho
          · simp at ho; subst ho; exact settled_inv _ _ _ (henq _)
          · simp at ho; subst ho; exact h
  · simp at ho; subst ho; exact h
  · simp at ho; subst ho; exact h
  · simp at ho; subst ho; exact h
  · -- WRITEQ-LEN
    simp at ho; subst ho
    apply settled_inv
    unfold Inv at h ⊢
    simp only
    have h1 : (List.map (·.2) s.handed ++ (s.sendQ ++ List.map (·.2) s.parkedSend)).Sublist (s.enq ++ List.map (·.2) s.parkedSend) := by
      have := List.Sublist.append h (List.Sublist.refl (List.map (·.2) s.parkedSend))
      simpa [List.append_assoc] using this
    refine List.Sublist.trans ?_ h1
    exact List.Sublist.append (List.Sublist.refl _) (List.take_sublist _ _)
  · simp at ho; subst ho; simpa [Inv, setPipe] using h
  · -- release ok
    split at ho
    · split at ho
      · simp at ho; subst ho
        apply settled_inv
        split <;> simpa [Inv, setPipe] using h
      · simp at ho
    · simp at ho
  · simp at ho; subst ho; exact settled_inv _ _ _ (dropPipe_inv s _ h)
  · simp at ho; subst ho; exact h
  · split at ho
    · simp at ho; subst ho; exact h
    · simp at ho; subst ho; simpa [Inv] using h
  · simp at ho

inductive Reach : State → Prop
  | init : Reach init
  | step (s : State) (op : List String) (o : State × List Ev) : Reach s → o ∈ step s op → Reach o.1

theorem reach_inv (s : State) (h : Reach s) : Inv s := by
  induction h with
  | init => simp [Inv, init]
  | step s op o _ ho ih => exact step_inv s op ih o ho

/-- the scheduler step is enabled whenever a message is queued and a pipe is ready -/
theorem progress_enabled (s : State) (p : Nat) (ready : List Nat) (m : Msg) (q : List Msg)
    (hr : s.readyQ = p :: ready) (hq : s.sendQ = m :: q) : (progress s).isSome = true := by
  unfold progress
  simp only [hr, hq]
  split <;> (try split) <;> simp

end Push
end Proto
end Model
