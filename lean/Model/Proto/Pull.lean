/-
  Model/Proto/Pull.lean — XPULL / PULL (protocol/xpull/xpull.go): every pipe's receiver feeds one bounded
  queue and holds its message while the queue is full.
-/
import Model.Proto.Fanout
namespace Model
namespace Proto
namespace Pull

structure State where
  recvQ : List (Nat × Msg) := []      -- (pipe it came from, message)
  recvCap : Nat := 128
  pipes : List Nat := []
  blocked : List (Nat × Msg) := []       -- receivers holding a message, in the order they blocked
  backlog : List (Nat × Bytes) := []     -- sent by peers, not yet read by the receivers (arrival order)
  parkedRecv : List Nat := []
  closed : Bool := false
  -- ghost history: what the receivers read from each pipe; what Recv returned
  rin : List (Nat × Msg) := []
  rout : List (Nat × Msg) := []
deriving Repr, BEq

def init : State := {}

def progress (s : State) : Option (State × List (Nat × Ev)) :=
  match s.parkedRecv, s.recvQ with
  | call :: rest, m :: q => some ({ s with parkedRecv := rest, recvQ := q, rout := s.rout ++ [m] }, [(call, Ev.retMsg call m.2.1 m.2.2)])
  | _, _ =>
  match s.blocked with
  | (p, m) :: bl =>
    match s.parkedRecv with
    | call :: rest => some ({ s with parkedRecv := rest, blocked := bl, rout := s.rout ++ [(p, m)] }, [(call, Ev.retMsg call m.1 m.2)])
    | [] => if s.recvQ.length < s.recvCap then some ({ s with recvQ := s.recvQ ++ [(p, m)], blocked := bl }, []) else nextBacklog s
  | [] => nextBacklog s
where
  nextBacklog (s : State) : Option (State × List (Nat × Ev)) :=
    -- a receiver that holds nothing reads the next message of its pipe
    match s.backlog.find? (fun pb => !(s.blocked.any (fun x => x.1 == pb.1))) with
    | some (p, b) => some ({ s with backlog := s.backlog.erase (p, b), blocked := s.blocked ++ [(p, ([], b))], rin := s.rin ++ [(p, ([], b))] }, [])
    | none => none

def settle : Nat → State → State × List (Nat × Ev)
  | 0, s => (s, [])
  | fuel+1, s =>
    match progress s with
    | none => (s, [])
    | some (s', evs) =>
      let (s'', evs') := settle fuel s'
      (s'', evs ++ evs')

def settled (s : State) (pre : List Ev) (evs : List (Nat × Ev)) : State × List Ev :=
  let (s', more) := settle (4 * (s.recvQ.length + s.blocked.length + s.backlog.length + s.parkedRecv.length) + 8) s
  (s', pre ++ sortByKey (evs ++ more))

def step (s : State) (op : List String) : List (State × List Ev) :=
  match op with
  | ["addpipe", p] =>
    if s.closed then [(s, [Ev.res "closed"])] else [({ s with pipes := s.pipes ++ [natOf p] }, [Ev.res "ok"])]
  | ["rmpipe", p] =>
    let p := natOf p
    [settled { s with pipes := s.pipes.erase p, blocked := s.blocked.filter (fun x => x.1 != p),
                      backlog := s.backlog.filter (fun x => x.1 != p) } [] [(p, Ev.closed p)]]
  | ["inject", p, b] =>
    if s.pipes.contains (natOf p) then [settled { s with backlog := s.backlog ++ [(natOf p, bytesOf b)] } [] []] else [(s, [])]
  | ["send", call, _, _, _] => [(s, [Ev.retErr (natOf call) "protoop"])]
  | ["recv", call, _] =>
    let call := natOf call
    if s.closed then
      match s.recvQ with
      | [] => [(s, [Ev.retErr call "closed"])]
      | m :: q => [(s, [Ev.retErr call "closed"]), settled { s with recvQ := q, rout := s.rout ++ [m] } [] [(call, Ev.retMsg call m.2.1 m.2.2)]]
    else [settled { s with parkedRecv := s.parkedRecv ++ [call] } [] []]
  | ["setopt", _, "READQ-LEN", n] =>
    -- queued messages migrate to the new queue as far as they fit
    [settled { s with recvQ := s.recvQ.take (natOf n), recvCap := natOf n } [Ev.res "ok"] []]
  | ["openctx", _] => [(s, [Ev.res "protoop"])]
  | ["close"] =>
    if s.closed then [(s, [Ev.res "closed"])] else
    let evs := s.parkedRecv.map (fun c => (c, Ev.retErr c "closed"))
    [({ s with closed := true, parkedRecv := [] }, Ev.res "ok" :: sortByKey evs)]
  | _ => []

end Pull
end Proto
end Model
