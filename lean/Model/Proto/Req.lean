/-
  Model/Proto/Req.lean — REQ (protocol/req/req.go): contexts, request ids, the send queue / ready-pipe
  pairing, reply matching by id, cancellation, and the retry timer.
  Time: every operation line carries the harness clock (ms); a retry timer may fire once due and must have
  fired once overdue by more than `slack`.
-/
import Model.Proto.Fanout
namespace Model
namespace Proto
namespace Req

def slack : Nat := 250

def enc (n : Nat) : Nat := 0x80000000 + n % 0x80000000
def idBytes (n : Nat) : Bytes := beEnc 4 (enc n)

structure Timer where
  id : Nat          -- request the timer was armed for
  tmin : Nat
  tmax : Nat
  period : Nat
deriving Repr, BEq

structure Ctx where
  id : Nat
  closed : Bool := false
  reqID : Nat := 0                 -- 0 = no request outstanding (ids start at 1)
  reqMsg : Option Bytes := none    -- the retained request (body), once first transmitted
  repMsg : Option Msg := none      -- the stored reply
  sendMsg : Option Bytes := none   -- accepted, not yet transmitted for the first time
  sendFor : Nat := 0               -- request id of the Send call that set sendMsg
  sendAbort : Bool := false        -- the pending `sendMsg` was abandoned by cancel (c.sendAbort == c.sendMsg)
  lastPipe : Option Nat := none
  queued : Bool := false
  receiveWait : Bool := false
  bestEffort : Bool := false
  failNoPeers : Bool := false
  resendTime : Nat := 60000        -- ms; 0 = retries disabled
  sendExpire : Nat := 0            -- ms; 0 = no deadline
  recvExpire : Nat := 0
  timer : Option Timer := none
deriving Repr, BEq

structure Pipe where
  id : Nat
  hold : Bool := false
  inflight : Option Msg := none
deriving Repr, BEq

/-- a blocked Send or Recv: the request id it began with, whether its deadline has expired, and the deadline timer -/
structure Parked where
  call : Nat
  ctx : Nat
  rid : Nat
  expired : Bool := false
  deadline : Option Timer := none
deriving Repr, BEq

structure State where
  ctxs : List Ctx := [{ id := 0 }]
  ctxByID : List (Nat × Nat) := []          -- (request id, context)
  sendQ : List Nat := []                     -- contexts waiting for a ready pipe
  readyQ : List Nat := []
  pipes : List Pipe := []
  nsent : Nat := 0
  parkedSend : List Parked := []   -- blocked Send calls (rid = the request being sent)
  parkedRecv : List Parked := []   -- blocked Recv calls (rid = the request whose reply is awaited)
  closed : Bool := false
  tprev : Nat := 0
  -- ghost: (ctx, 32-bit id carried by the reply returned by Recv, 32-bit id of the context's request at that moment)
  delivered : List (Nat × Nat × Nat) := []
  -- ghost: every transmission (pipe, request id, body)
  txlog : List (Nat × Nat × Bytes) := []
  -- ghost: what every Send call was given (request id, body)
  sent : List (Nat × Bytes) := []
  -- ghost: the request (by number) each reply returned by Recv was delivered for
  deliveredFor : List Nat := []
deriving Repr, BEq

def init : State := {}

def getCtx (s : State) (id : Nat) : Option Ctx := s.ctxs.find? (fun c => c.id = id)
def setCtx (s : State) (id : Nat) (f : Ctx → Ctx) : State := { s with ctxs := s.ctxs.map (fun c => if c.id = id then f c else c) }
def getPipe (s : State) (id : Nat) : Option Pipe := s.pipes.find? (fun p => p.id = id)
def setPipe (s : State) (id : Nat) (f : Pipe → Pipe) : State := { s with pipes := s.pipes.map (fun p => if p.id = id then f p else p) }

/-- `readyQ[0], readyQ[i] = readyQ[i], readyQ[0]` for the first i with readyQ[i] = p -/
def swapFront (q : List Nat) (p : Nat) : List Nat :=
  match q with
  | [] => []
  | h :: t =>
    if h == p then q else
    match t.idxOf? p with
    | some i => p :: t.set i h
    | none => q

/-- context.cancelSend -/
def cancelSend (s : State) (c : Nat) : State :=
  setCtx { s with sendQ := s.sendQ.filter (· != c) } c (fun x => { x with queued := false })

/-- re-evaluation of the wait loops of the calls blocked on context c (after a cond.Broadcast):
    Send waits while `sendMsg` is still its own message, its deadline has not expired, the context is open and
    (failNoPeers ⇒ a pipe exists); Recv waits while the request id is still the one it began with and no reply is stored -/
def wakeSends (s : State) (c : Nat) (x : Ctx) : State × List (Nat × Ev) :=
  let nopeers := x.failNoPeers && s.pipes.isEmpty
  let mine (p : Parked) : Bool := x.sendMsg.isSome && x.sendFor == p.rid
  let leaving := s.parkedSend.filter (fun p => p.ctx == c && (!(mine p) || p.expired || x.closed || nopeers || x.sendAbort))
  let sendEvs := leaving.map (fun p =>
    if mine p then (p.call, Ev.retErr p.call (if x.closed then "closed" else if nopeers then "nopeers" else if p.expired then "sendtimeout" else "canceled"))
    else (p.call, Ev.retErr p.call "ok"))
  let s1 := { s with parkedSend := s.parkedSend.filter (fun p => !(leaving.any (fun q => q.call == p.call))) }
  -- a Send that gives up clears what it had queued (and with it the context's request)
  let s2 := if leaving.any mine then
      setCtx { (cancelSend s1 c) with ctxByID := s1.ctxByID.filter (fun e => e.2 != c) } c (fun y => { y with sendMsg := none, reqID := 0, repMsg := none, sendAbort := false })
    else s1
  (s2, sendEvs)

def wakeRecv (s2 : State) (c : Nat) (nopeers : Bool) (sendEvs : List (Nat × Ev)) : State × List (Nat × Ev) :=
  match s2.parkedRecv.find? (fun p => p.ctx == c) with
  | none => (s2, sendEvs)
  | some pr =>
    match getCtx s2 c with
    | none => (s2, sendEvs)
    | some y =>
      if y.reqID == pr.rid && y.repMsg.isNone then (s2, sendEvs) else
      let s3 := { s2 with parkedRecv := s2.parkedRecv.filter (fun p => p.call != pr.call) }
      if y.reqID != pr.rid then
        -- the awaited request was abandoned (cancelled, timed out or replaced): whatever is there now belongs to a newer request
        let why := if y.closed then "closed" else if pr.expired then "recvtimeout" else if nopeers then "nopeers" else "canceled"
        (setCtx s3 c (fun z => { z with receiveWait := false }), sendEvs ++ [(pr.call, Ev.retErr pr.call why)])
      else
      match y.repMsg with
      | some m =>
        (setCtx { s3 with delivered := s3.delivered ++ [(c, beDec m.1, enc y.reqID)], ctxByID := s3.ctxByID.filter (fun e => e.2 != c), deliveredFor := s3.deliveredFor ++ [y.reqID] } c
            (fun z => { z with reqID := 0, repMsg := none, receiveWait := false }), sendEvs ++ [(pr.call, Ev.retMsg pr.call m.1 m.2)])
      | none => (s3, sendEvs)

def wake (s : State) (c : Nat) : State × List (Nat × Ev) :=
  match getCtx s c with
  | none => (s, [])
  | some x =>
    let r := wakeSends s c x
    wakeRecv r.1 c (x.failNoPeers && s.pipes.isEmpty) r.2

/-- context.cancel -/
def cancel (s : State) (c : Nat) : State :=
  let s1 := cancelSend s c
  match getCtx s1 c with
  | none => s1
  | some x =>
    setCtx { s1 with ctxByID := s1.ctxByID.filter (fun e => !(e.1 == x.reqID && x.reqID != 0) && e.2 != c) } c
      (fun y => { y with reqID := 0, repMsg := none, reqMsg := none, timer := none, sendAbort := y.sendMsg.isSome })

/-- one pairing of socket.send: context c (head of the send queue) is handed to pipe p (head of the ready queue) -/
def pumpStep (arm : Nat × Nat) (s : State) (c p : Nat) (sq rq : List Nat) (x : Ctx) (pp : Pipe) : State × List (Nat × Ev) :=
  let body := (x.sendMsg.orElse (fun _ => x.reqMsg)).getD []
  let first := x.sendMsg.isSome
  let s1 : State := { s with sendQ := sq, readyQ := rq, ctxByID := if first then s.ctxByID.filter (fun e => e.2 != c) ++ [(x.reqID, c)] else s.ctxByID, txlog := s.txlog ++ [(p, x.reqID, body)] }
  let s2 := setCtx s1 c (fun y => { y with queued := false, reqMsg := some body, sendMsg := none, lastPipe := some p, timer := if y.resendTime > 0 then some { id := y.reqID, tmin := arm.1, tmax := arm.2, period := y.resendTime } else y.timer })
  -- the Send call that was waiting for this first transmission returns
  let r3 : State × List (Nat × Ev) := if first then wake s2 c else (s2, [])
  if pp.hold then
    (setPipe r3.1 p (fun q => { q with inflight := some (idBytes x.reqID, body) }), r3.2)
  else
    -- the pipe's send returns at once and the pipe is ready again
    ({ r3.1 with readyQ := r3.1.readyQ ++ [p] }, r3.2 ++ [(p, Ev.tx p (idBytes x.reqID) body)])

/-- socket.send: pair waiting contexts with ready pipes -/
def pump : Nat → Nat × Nat → State → State × List (Nat × Ev)
  | 0, _, s => (s, [])
  | fuel+1, arm, s =>
    match s.sendQ, s.readyQ with
    | c :: sq, p :: rq =>
      match getCtx s c, getPipe s p with
      | some x, some pp =>
        let r := pumpStep arm s c p sq rq x pp
        let r2 := pump fuel arm r.1
        (r2.1, r.2 ++ r2.2)
      | _, _ => ({ s with sendQ := sq }, [])
    | _, _ => (s, [])

def fuelOf (s : State) : Nat := 2 * (s.sendQ.length + s.ctxs.length) + 4

/-- context.resendMessage(id) -/
def resend (s : State) (arm : Nat × Nat) (c id : Nat) : State × List (Nat × Ev) :=
  match getCtx s c with
  | none => (s, [])
  | some x =>
    if x.reqID == id && x.reqMsg.isSome && !x.queued then
      pump (fuelOf s + 2) arm (setCtx { s with sendQ := s.sendQ ++ [c] } c (fun y => { y with queued := true }))
    else (s, [])

def perms : List Nat → List (List Nat)
  | [] => [[]]
  | l => (l.flatMap (fun x => (perms (l.erase x)).map (fun p => x :: p))).take 24
termination_by l => l.length
decreasing_by
  simp_wf
  rename_i h
  have := List.length_erase_of_mem h
  have hpos : 0 < l.length := List.length_pos_of_mem h
  omega

/-- the pipes that completed a transmission during the current operation -/
def txPipes (evs : List (Nat × Ev)) : List Nat :=
  evs.filterMap (fun e => match e.2 with | Ev.tx p _ _ => some p | _ => none)

/-- every pipe that transmitted re-enters the ready queue from a goroutine of its own (`pipe.sendCtx`): when several
    did so during one operation, they are at the tail of the queue in the order in which those goroutines got the lock -/
def readyVariants (st : State × List (Nat × Ev)) : List (State × List (Nat × Ev)) :=
  let tp := txPipes st.2
  let fixed := st.1.readyQ.filter (fun p => !tp.contains p)
  let moving := st.1.readyQ.filter (fun p => tp.contains p)
  if moving.length < 2 || st.1.readyQ != fixed ++ moving then [st] else
  (perms moving).map (fun m => ({ st.1 with readyQ := fixed ++ m }, st.2))

/-- one round of retry timers at time `now`: a timer that fires re-sends (which re-arms it, no earlier than its own firing time) -/
def timerRound (now : Nat) (acc0 : List (State × List (Nat × Ev))) (ctxIds : List Nat) : List (State × List (Nat × Ev)) :=
  ctxIds.foldl (fun (acc : List (State × List (Nat × Ev))) cid =>
    acc.flatMap (fun (st : State × List (Nat × Ev)) =>
      match getCtx st.1 cid with
      | none => [st]
      | some c =>
        match c.timer with
        | none => [st]
        | some t =>
          let mayFire := decide (t.tmin + t.period ≤ now)
          let mustFire := decide (t.tmax + t.period + slack ≤ now)
          let fired :=
            let s1 := setCtx st.1 c.id (fun y => { y with timer := none })
            let r := resend s1 (t.tmin + t.period, now) c.id t.id
            (r.1, st.2 ++ r.2)
          if mustFire then readyVariants fired else if mayFire then st :: readyVariants fired else [st])) acc0

/-- a send / receive deadline fires: if its call is still waiting for the same thing, the call is marked expired and the
    context is cancelled (which wakes it) -/
def deadlineFired (st : State × List (Nat × Ev)) (isRecv : Bool) (p : Parked) : State × List (Nat × Ev) :=
  let s := st.1
  match getCtx s p.ctx with
  | none => st
  | some x =>
    let still := if isRecv then x.reqID == p.rid else (x.sendMsg.isSome && x.sendFor == p.rid)
    let mark (q : Parked) : Parked := if q.call == p.call then { q with expired := still, deadline := none } else q
    let s1 : State := if isRecv then { s with parkedRecv := s.parkedRecv.map mark } else { s with parkedSend := s.parkedSend.map mark }
    if still then
      let r := wake (cancel s1 p.ctx) p.ctx
      (r.1, st.2 ++ r.2)
    else (s1, st.2)

/-- the Send deadlines of context c that are due at `now` fire as well: their callbacks may already be waiting for the
    socket lock when a Recv deadline's callback cancels the request (`Timer.Stop` comes too late for them) -/
def expireSends (now : Nat) (s : State) (c : Nat) : State :=
  { s with parkedSend := s.parkedSend.map (fun q =>
      if q.ctx == c && (match q.deadline with | some t => decide (t.tmin + t.period ≤ now) | none => false)
      then { q with expired := true, deadline := none } else q) }

def recvStill (s : State) (p : Parked) : Bool :=
  match getCtx s p.ctx with
  | some x => x.reqID == p.rid
  | none => false

def deadlineFire (now : Nat) (st : State × List (Nat × Ev)) (isRecv : Bool) (p : Parked) (t : Timer) : List (State × List (Nat × Ev)) :=
  let mayFire := decide (t.tmin + t.period ≤ now)
  let mustFire := decide (t.tmax + t.period + slack ≤ now)
  let fired := if isRecv && recvStill st.1 p && expireSends now st.1 p.ctx != st.1
    then [deadlineFired st isRecv p, deadlineFired (expireSends now st.1 p.ctx, st.2) isRecv p]
    else [deadlineFired st isRecv p]
  if mustFire then fired else if mayFire then st :: fired else [st]

/-- send / receive deadlines at time `now` -/
def deadlineRound (now : Nat) (acc0 : List (State × List (Nat × Ev))) (calls : List Nat) : List (State × List (Nat × Ev)) :=
  calls.foldl (fun (acc : List (State × List (Nat × Ev))) call =>
    acc.flatMap (fun (st : State × List (Nat × Ev)) =>
      match st.1.parkedRecv.find? (fun p => p.call == call), st.1.parkedSend.find? (fun p => p.call == call) with
      | some p, _ => match p.deadline with
        | some t => deadlineFire now st true p t
        | none => [st]
      | none, some p => match p.deadline with
        | some t => deadlineFire now st false p t
        | none => [st]
      | none, none => [st])) acc0

def dedup (l : List (State × List (Nat × Ev))) : List (State × List (Nat × Ev)) :=
  l.foldl (fun acc x => if acc.any (fun y => y.1 == x.1 && y.2.map (·.2) == x.2.map (·.2)) then acc else acc ++ [x]) []

/-- retry timers at time `now`; a short period may elapse several times between two operations -/
def timerOutcomes (s : State) (now : Nat) : List (State × List (Nat × Ev)) :=
  let ids := s.ctxs.map (·.id)
  let calls := s.parkedRecv.map (·.call) ++ s.parkedSend.map (·.call)
  let r0 := dedup (deadlineRound now [(s, [])] calls)
  let r1 := dedup (timerRound now r0 ids)
  let r2 := dedup (timerRound now r1 ids)
  let r3 := dedup (timerRound now r2 ids)
  (dedup (timerRound now r3 ids)).take 96

def opTime (op : List String) : Nat :=
  match op.getLast? with
  | some t => if t.startsWith "@" then natOf (t.drop 1).toString else 0
  | none => 0

def stripTime (op : List String) : List String :=
  match op.getLast? with
  | some t => if t.startsWith "@" then op.dropLast else op
  | none => op

/-- removal of pipe p, synchronous part, for one context: fail-no-peers cancels; a request last sent on p is cancelled
    (retries disabled) or noted for re-sending -/
def dropOne (p : Nat) (acc : State × List (Nat × Ev) × List (Nat × Nat)) (c0 : Ctx) : State × List (Nat × Ev) × List (Nat × Nat) :=
  match getCtx acc.1 c0.id with
  | none => acc
  | some c =>
    if c.failNoPeers && acc.1.pipes.isEmpty then
      let r := wake (cancel acc.1 c.id) c.id
      (r.1, acc.2.1 ++ r.2, acc.2.2)
    else if c.lastPipe == some p && c.reqMsg.isSome then
      let s2 := setCtx acc.1 c.id (fun y => { y with lastPipe := none })
      if c.resendTime == 0 then
        let r := wake (cancel s2 c.id) c.id
        (r.1, acc.2.1 ++ r.2, acc.2.2)
      else (cancelSend s2 c.id, acc.2.1, acc.2.2 ++ [(c.id, c.reqID)])
    else acc

/-- the re-sends of one order -/
def dropResends (arm : Nat × Nat) (todo : List (Nat × Nat)) (start : State × List (Nat × Ev)) (order : List Nat) : State × List (Nat × Ev) :=
  order.foldl (fun (acc : State × List (Nat × Ev)) cid =>
    match todo.find? (fun t => t.1 == cid) with
    | none => acc
    | some t =>
      let r := resend acc.1 arm cid t.2
      (r.1, acc.2 ++ r.2)) start

/-- remove a pipe: requests last sent on it are re-sent at once (or cancelled when retries are disabled);
    the re-sends are started concurrently, so they may queue in any order -/
def dropPipe (s : State) (arm : Nat × Nat) (p : Nat) : List (State × List (Nat × Ev)) :=
  let s1 := { s with pipes := s.pipes.filter (fun q => q.id != p), readyQ := s.readyQ.filter (· != p) }
  let r := s1.ctxs.foldl (dropOne p) (s1, [], [])
  (perms (r.2.2.map (·.1))).flatMap (fun order => readyVariants (dropResends arm r.2.2 (r.1, r.2.1) order))

/-- Close of one context as part of socket close -/
def closeOne (acc : State × List (Nat × Ev)) (c : Ctx) : State × List (Nat × Ev) :=
  if c.closed then acc else
  let s1 := cancel (setCtx acc.1 c.id (fun y => { y with closed := true })) c.id
  let r := wake s1 c.id
  (r.1, acc.2 ++ r.2)

/-- call numbers name blocked calls: a number that still names a parked call is not given to another one (the harness
    numbers its calls consecutively; an operation breaking this is no part of any history) -/
def callBusy (s : State) (call : Nat) : Bool :=
  s.parkedSend.any (fun p => p.call == call) || s.parkedRecv.any (fun p => p.call == call)

def core (s : State) (now : Nat) (op : List String) : List (State × List Ev × List (Nat × Ev)) :=
  match op with
  | ["addpipe", p] =>
    if s.closed then [(s, [Ev.res "closed"], [])] else
    let s1 := { s with pipes := s.pipes ++ [{ id := natOf p }], readyQ := s.readyQ ++ [natOf p] }
    let (s2, evs) := pump (fuelOf s1) (s.tprev, now) s1
    [(s2, [Ev.res "ok"], evs)]
  | ["rmpipe", p] =>
    (dropPipe s (s.tprev, now) (natOf p)).map (fun r => (r.1, [], (natOf p, Ev.closed (natOf p)) :: r.2))
  | ["inject", p, b] =>
    let body := bytesOf b
    if (getPipe s (natOf p)).isNone then [(s, [], [])] else
    if body.length < 4 then [(s, [], [])] else
    let id := beDec (body.take 4)
    -- a pipe that has just answered is swapped to the front of the ready queue
    let s0 := { s with readyQ := swapFront s.readyQ (natOf p) }
    match s0.ctxByID.find? (fun e => enc e.1 == id) with
    | none => [(s0, [], [])]
    | some (rid, c) =>
      let s1 := cancelSend s0 c
      let s2 := setCtx { s1 with ctxByID := s1.ctxByID.filter (fun e => e.1 != rid) } c
        (fun y => { y with reqMsg := none, repMsg := some (body.take 4, body.drop 4), timer := none })
      let (s3, evs) := wake s2 c
      [(s3, [], evs)]
  | ["send", call, ctx, _, b] =>
    let call := natOf call
    let n := s.nsent + 1
    let s0 := { s with nsent := n, sent := s.sent ++ [(n, bytesOf b)] }
    match getCtx s (natOf ctx) with
    | none => []
    | some c =>
      if s.closed || c.closed then [(s0, [], [(call, Ev.retErr call "closed")])] else
      if c.failNoPeers && s.pipes.isEmpty then [(s0, [], [(call, Ev.retErr call "nopeers")])] else
      if callBusy s call then [] else
      -- abandon whatever was outstanding on this context
      let s1 := cancel s0 c.id
      let s2 := setCtx { s1 with sendQ := s1.sendQ ++ [c.id] } c.id (fun y => { y with reqID := n, queued := true, sendMsg := some (bytesOf b), sendFor := n, sendAbort := false })
      -- earlier calls blocked on this context wake up: a Recv fails with "canceled", an older Send returns
      let (s3, evs0) := wake s2 c.id
      let (s4, evs1) := pump (fuelOf s3) (s.tprev, now) { s3 with parkedSend := s3.parkedSend ++ [{ call := call, ctx := c.id, rid := n, deadline := if c.sendExpire > 0 && !c.bestEffort then some { id := n, tmin := s.tprev, tmax := now, period := c.sendExpire } else none }] }
      if c.bestEffort then
        [({ s4 with parkedSend := s4.parkedSend.filter (fun p => p.call != call) }, [],
          (call, Ev.retErr call "ok") :: (evs0 ++ evs1.filter (fun e => e.1 != call || !(e.2 == Ev.retErr call "ok"))))]
      else [(s4, [], evs0 ++ evs1)]
  | ["recv", call, ctx] =>
    let call := natOf call
    match getCtx s (natOf ctx) with
    | none => []
    | some c =>
      if s.closed || c.closed then [(s, [], [(call, Ev.retErr call "closed")])] else
      if c.failNoPeers && s.pipes.isEmpty then [(s, [], [(call, Ev.retErr call "nopeers")])] else
      if c.receiveWait || c.reqID == 0 then [(s, [], [(call, Ev.retErr call "protostate")])] else
      if callBusy s call then [] else
      let s1 := setCtx { s with parkedRecv := s.parkedRecv ++ [{ call := call, ctx := c.id, rid := c.reqID, deadline := if c.recvExpire > 0 then some { id := c.reqID, tmin := s.tprev, tmax := now, period := c.recvExpire } else none }] } c.id (fun y => { y with receiveWait := true })
      let (s2, evs) := wake s1 c.id
      [(s2, [], evs)]
  | ["setopt", ctx, "RETRY-TIME", ms] => [(setCtx s (natOf ctx) (fun c => { c with resendTime := natOf ms }), [Ev.res "ok"], [])]
  | ["setopt", ctx, "SEND-DEADLINE", ms] => [(setCtx s (natOf ctx) (fun c => { c with sendExpire := natOf ms }), [Ev.res "ok"], [])]
  | ["setopt", ctx, "RECV-DEADLINE", ms] => [(setCtx s (natOf ctx) (fun c => { c with recvExpire := natOf ms }), [Ev.res "ok"], [])]
  | ["setopt", ctx, "BEST-EFFORT", v] => [(setCtx s (natOf ctx) (fun c => { c with bestEffort := v == "true" }), [Ev.res "ok"], [])]
  | ["setopt", ctx, "FAIL-NO-PEERS", v] => [(setCtx s (natOf ctx) (fun c => { c with failNoPeers := v == "true" }), [Ev.res "ok"], [])]
  | ["hold", p, v] => [(setPipe s (natOf p) (fun x => { x with hold := v == "1" }), [], [])]
  | ["release", p, "ok"] =>
    match getPipe s (natOf p) with
    | none => []
    | some pp =>
      match pp.inflight with
      | none => []
      | some m =>
        let s1 := setPipe s pp.id (fun x => { x with inflight := none })
        let s2 := if s1.closed then s1 else { s1 with readyQ := s1.readyQ ++ [pp.id] }
        let (s3, evs) := pump (fuelOf s2) (s.tprev, now) s2
        [(s3, [], (pp.id, Ev.tx pp.id m.1 m.2) :: evs)]
  | ["release", p, "err"] =>
    (dropPipe s (s.tprev, now) (natOf p)).map (fun r => (r.1, [], (natOf p, Ev.closed (natOf p)) :: r.2))
  | ["openctx", id] =>
    if s.closed then [(s, [Ev.res "closed"], [])] else
    if (getCtx s (natOf id)).isSome then [] else     -- context ids are never reused
    match getCtx s 0 with
    | none => []
    | some d => [({ s with ctxs := s.ctxs ++ [{ id := natOf id, bestEffort := d.bestEffort, failNoPeers := d.failNoPeers, resendTime := d.resendTime, sendExpire := d.sendExpire, recvExpire := d.recvExpire }] }, [Ev.res "ok"], [])]
  | ["closectx", id] =>
    match getCtx s (natOf id) with
    | none => []
    | some c =>
      if c.closed then [(s, [Ev.res "closed"], [])] else
      let s1 := cancel (setCtx s c.id (fun y => { y with closed := true })) c.id
      let (s2, evs) := wake s1 c.id
      [(s2, [Ev.res "ok"], evs)]
  | ["sleep", _] => [(s, [], [])]
  | ["close"] =>
    if s.closed then [(s, [Ev.res "closed"], [])] else
    let r := s.ctxs.foldl closeOne ({ s with closed := true }, [])
    [(r.1, [Ev.res "ok"], r.2)]
  | _ => []

def step (s : State) (op : List String) : List (State × List Ev) :=
  let now := opTime op
  let op' := stripTime op
  (timerOutcomes s now).flatMap (fun (st : State × List (Nat × Ev)) =>
    (core st.1 now op').flatMap (fun (r : State × List Ev × List (Nat × Ev)) =>
      -- a timer armed by this very operation can already be due if the operation (or the harness) was slow
      (timerOutcomes { r.1 with tprev := now } now).map (fun (r2 : State × List (Nat × Ev)) =>
        (r2.1, r.2.1 ++ sortByKey (st.2 ++ r.2.2 ++ r2.2)))))

end Req
end Proto
end Model
