/-
  Model/Proto/PushQuiet.lean — PUSH: in every reachable state the scheduler has nothing left to do: no message is
  queued while a pipe is ready, and a Send is blocked only while the send queue is full.  (With a queue length of 0 the
  queue is always "full": the known finding D7.)
-/
import Model.Proto.PushLemmas
namespace Model
namespace Proto
namespace Push

/-- every ready pipe is connected -/
def Al (s : State) : Prop := ∀ p ∈ s.readyQ, (getPipe s p).isSome = true

def measure (s : State) : Nat := 2 * s.parkedSend.length + s.sendQ.length

theorem quiet_iff (s : State) : progress s = none ↔
    (s.readyQ = [] ∨ s.sendQ = []) ∧ (∀ c m rest, s.parkedSend = (c, m) :: rest → ¬ s.sendQ.length < s.sendCap) := by
  unfold progress
  cases hr : s.readyQ with
  | nil =>
    simp only []
    cases hp : s.parkedSend with
    | nil => simp
    | cons cm rest =>
      obtain ⟨c, m⟩ := cm
      simp only []
      by_cases hroom : s.sendQ.length < s.sendCap
      · simp [hroom]
      · simp [hroom]
  | cons p ready =>
    cases hq : s.sendQ with
    | nil =>
      simp only []
      cases hp : s.parkedSend with
      | nil => simp
      | cons cm rest =>
        obtain ⟨c, m⟩ := cm
        simp only []
        by_cases hroom : ([] : List Msg).length < s.sendCap
        · simp [hroom]
        · simp [hroom]
    | cons m q =>
      simp only []
      cases getPipe s p with
      | none => simp
      | some pp =>
        simp only []
        split <;> simp

theorem getPipe_setPipe_isSome (s : State) (id : Nat) (f : Pipe → Pipe) (hf : ∀ y, (f y).id = y.id) (q : Nat) :
    (getPipe (setPipe s id f) q).isSome = (getPipe s q).isSome := by
  unfold getPipe setPipe
  simp only [List.find?_map]
  have : ((fun x => decide (x.id = q)) ∘ fun x => if x.id = id then f x else x) = (fun x : Pipe => decide (x.id = q)) := by
    funext y
    simp only [Function.comp]
    split
    · rw [hf]
    · rfl
  rw [this]
  cases List.find? (fun x => decide (x.id = q)) s.pipes <;> rfl

theorem getPipe_id (s : State) (q : Nat) (pp : Pipe) (h : getPipe s q = some pp) : pp.id = q := by
  unfold getPipe at h
  simpa using List.find?_some h

theorem progress_Al (s : State) (h : Al s) (s' : State) (evs) (hp : progress s = some (s', evs)) : Al s' ∧ measure s' < measure s := by
  unfold progress at hp
  split at hp
  · rename_i p ready m q hr hq
    have hpa : (getPipe s p).isSome = true := h p (by rw [hr]; simp)
    split at hp
    · rename_i hnone
      rw [hnone] at hpa; cases hpa
    · split at hp
      · simp only [Option.some.injEq, Prod.mk.injEq] at hp
        obtain ⟨rfl, _⟩ := hp
        constructor
        · intro x hx
          have hx' : x ∈ ready := hx
          rw [getPipe_setPipe_isSome]
          case hf => intro y; rfl
          exact h x (by rw [hr]; exact List.mem_cons_of_mem _ hx')
        · show 2 * s.parkedSend.length + q.length < 2 * s.parkedSend.length + s.sendQ.length
          rw [hq]; simp
      · simp only [Option.some.injEq, Prod.mk.injEq] at hp
        obtain ⟨rfl, _⟩ := hp
        constructor
        · intro x hx
          have hx' : x ∈ ready ++ [p] := hx
          simp only [List.mem_append, List.mem_singleton] at hx'
          rcases hx' with hx' | rfl
          · exact h x (by rw [hr]; exact List.mem_cons_of_mem _ hx')
          · exact hpa
        · show 2 * s.parkedSend.length + q.length < 2 * s.parkedSend.length + s.sendQ.length
          rw [hq]; simp
  · split at hp
    · split at hp
      · rename_i call m rest hps hroom
        simp only [Option.some.injEq, Prod.mk.injEq] at hp
        obtain ⟨rfl, _⟩ := hp
        refine ⟨h, ?_⟩
        show 2 * rest.length + (s.sendQ ++ [m]).length < 2 * s.parkedSend.length + s.sendQ.length
        rw [hps]; simp; omega
      · simp at hp
    · simp at hp

theorem settle_quiet : ∀ (fuel : Nat) (s : State), Al s → measure s ≤ fuel → Al (settle fuel s).1 ∧ progress (settle fuel s).1 = none := by
  intro fuel
  induction fuel with
  | zero =>
    intro s h hm
    refine ⟨h, ?_⟩
    show progress s = none
    unfold measure at hm
    have h1 : s.parkedSend = [] := List.length_eq_zero_iff.mp (by omega)
    have h2 : s.sendQ = [] := List.length_eq_zero_iff.mp (by omega)
    rw [quiet_iff]
    exact ⟨Or.inr h2, by intro c m rest e; rw [h1] at e; cases e⟩
  | succ n ih =>
    intro s h hm
    simp only [settle]
    cases hp : progress s with
    | none => exact ⟨h, hp⟩
    | some r =>
      obtain ⟨s', evs⟩ := r
      obtain ⟨h1, h2⟩ := progress_Al s h s' evs hp
      exact ih s' h1 (by omega)

theorem settled_quiet (s : State) (pre evs) (h : Al s) : Al (settled s pre evs).1 ∧ progress (settled s pre evs).1 = none := by
  simp only [settled]
  apply settle_quiet _ s h
  unfold measure; omega

/-- both together -/
def AQ (s : State) : Prop := Al s ∧ progress s = none

theorem AQ_of (s s' : State) (h : AQ s) (hr : s'.readyQ = s.readyQ) (hq : s'.sendQ = s.sendQ) (hc : s'.sendCap = s.sendCap)
    (hps : s'.parkedSend = s.parkedSend ∨ s'.parkedSend = []) (hp : ∀ p, (getPipe s p).isSome = true → (getPipe s' p).isSome = true) : AQ s' := by
  constructor
  · intro p hpm
    rw [hr] at hpm
    exact hp p (h.1 p hpm)
  · have := (quiet_iff s).mp h.2
    rw [quiet_iff, hr, hq, hc]
    refine ⟨this.1, ?_⟩
    intro c m rest e
    rcases hps with e' | e'
    · rw [e'] at e; exact this.2 c m rest e
    · rw [e'] at e; cases e

theorem getPipe_filter_ne (s : State) (p q : Nat) (hne : q ≠ p) (rq : List Nat) (ps : List (Nat × Msg)) :
    getPipe { s with pipes := s.pipes.filter (fun x => x.id != p), readyQ := rq, parkedSend := ps } q = getPipe s q := by
  unfold getPipe
  show (s.pipes.filter (fun x => x.id != p)).find? _ = s.pipes.find? _
  induction s.pipes with
  | nil => rfl
  | cons a t ih =>
    by_cases ha : a.id = p
    · have h1 : (a.id != p) = false := by simp [ha]
      have h2 : decide (a.id = q) = false := by
        simp only [decide_eq_false_iff_not]
        intro e; exact hne (e.symm.trans ha)
      simp only [List.filter_cons, h1, List.find?_cons, h2]
      exact ih
    · have h1 : (a.id != p) = true := by simp [ha]
      simp only [List.filter_cons, h1, if_true, List.find?_cons]
      cases decide (a.id = q)
      · exact ih
      · rfl

theorem dropPipe_Al (s : State) (p : Nat) (h : Al s) : Al (dropPipe s p).1 := by
  unfold dropPipe
  simp only []
  split
  · intro q hq
    have hq' : q ∈ s.readyQ.filter (· != p) := hq
    obtain ⟨h1, h2⟩ := List.mem_filter.mp hq'
    rw [getPipe_filter_ne s p q (by simpa using h2)]
    exact h q h1
  · intro q hq
    have hq' : q ∈ s.readyQ.filter (· != p) := hq
    obtain ⟨h1, h2⟩ := List.mem_filter.mp hq'
    have := getPipe_filter_ne s p q (by simpa using h2) (s.readyQ.filter (· != p)) s.parkedSend
    show (getPipe { s with pipes := s.pipes.filter (fun x => x.id != p), readyQ := s.readyQ.filter (· != p) } q).isSome = true
    rw [show ({ s with pipes := s.pipes.filter (fun x => x.id != p), readyQ := s.readyQ.filter (· != p) } : State) = { s with pipes := s.pipes.filter (fun x => x.id != p), readyQ := s.readyQ.filter (· != p), parkedSend := s.parkedSend } from rfl, this]
    exact h q h1

theorem step_AQ (s : State) (op : List String) (h : AQ s) : ∀ o ∈ step s op, AQ o.1 := by
  intro o ho
  unfold step at ho
  split at ho
  · -- addpipe
    rename_i p
    split at ho
    · simp at ho; subst ho; exact h
    · simp at ho; subst ho
      apply settled_quiet
      intro q hq
      have hq' : q ∈ s.readyQ ++ [natOf p] := hq
      simp only [List.mem_append, List.mem_singleton] at hq'
      unfold getPipe
      show ((s.pipes ++ [({ id := natOf p } : Pipe)]).find? _).isSome = true
      rw [List.find?_isSome]
      rcases hq' with hq' | rfl
      · have := h.1 q hq'
        unfold getPipe at this
        rw [List.find?_isSome] at this
        obtain ⟨x, hx, hxq⟩ := this
        exact ⟨x, List.mem_append_left _ hx, hxq⟩
      · exact ⟨{ id := natOf p }, by simp, by simp⟩
  · simp at ho; subst ho; exact settled_quiet _ _ _ (dropPipe_Al s _ h.1)
  · simp at ho; subst ho; exact h
  · -- send
    split at ho
    · simp at ho; subst ho; exact h
    · split at ho
      · simp at ho; subst ho; exact h
      · simp only [] at ho
        have hAl : ∀ m : Msg, Al { s with sendQ := s.sendQ ++ [m], enq := s.enq ++ [m] } := fun m => h.1
        split at ho
        · split at ho
          · simp at ho
            rcases ho with rfl | rfl
            · exact settled_quiet _ _ _ (hAl _)
            · exact h
          · simp at ho; subst ho; exact h
        · split at ho
          · simp at ho; subst ho; exact settled_quiet _ _ _ (hAl _)
          · rename_i hroom
            simp at ho; subst ho
            refine ⟨h.1, ?_⟩
            have := (quiet_iff s).mp h.2
            rw [quiet_iff]
            refine ⟨this.1, ?_⟩
            intro c m rest e
            exact hroom
  · simp at ho; subst ho; exact h
  · simp at ho; subst ho; exact AQ_of s _ h rfl rfl rfl (Or.inl rfl) (fun p hp => hp)
  · simp at ho; subst ho; exact AQ_of s _ h rfl rfl rfl (Or.inl rfl) (fun p hp => hp)
  · simp at ho; subst ho; exact settled_quiet _ _ _ h.1
  · -- hold
    simp at ho; subst ho
    refine AQ_of s _ h rfl rfl rfl (Or.inl rfl) ?_
    intro q hq
    show (getPipe (setPipe s _ _) q).isSome = true
    rw [getPipe_setPipe_isSome]
    case hf => intro y; rfl
    exact hq
  · -- release ok
    split at ho
    · rename_i pp hpp
      split at ho
      · simp at ho; subst ho
        apply settled_quiet
        have hid := getPipe_id s _ pp hpp
        have hA1 : Al (setPipe s pp.id (fun x => { x with inflight := none })) := by
          intro q hq
          rw [getPipe_setPipe_isSome]
          case hf => intro y; rfl
          exact h.1 q hq
        split
        · exact hA1
        · intro q hq
          have hq' : q ∈ (setPipe s pp.id (fun x => { x with inflight := none })).readyQ ++ [pp.id] := hq
          simp only [List.mem_append, List.mem_singleton] at hq'
          rcases hq' with hq' | rfl
          · exact hA1 q hq'
          · show (getPipe (setPipe s pp.id (fun x => { x with inflight := none })) pp.id).isSome = true
            rw [getPipe_setPipe_isSome]
            case hf => intro y; rfl
            rw [hid, hpp]; rfl
      · simp at ho
    · simp at ho
  · simp at ho; subst ho; exact settled_quiet _ _ _ (dropPipe_Al s _ h.1)
  · simp at ho; subst ho; exact h
  · split at ho
    · simp at ho; subst ho; exact h
    · simp at ho; subst ho
      exact AQ_of s _ h rfl rfl rfl (Or.inr rfl) (fun p hp => hp)
  · simp at ho

theorem reach_AQ (s : State) (h : Reach s) : AQ s := by
  induction h with
  | init => exact ⟨by intro p hp; simp [init] at hp, by rw [quiet_iff]; exact ⟨Or.inl rfl, by intro c m rest e; simp [init] at e⟩⟩
  | step s op o _ ho ih => exact step_AQ s op ih o ho

/-- over every history: no accepted message waits while a connected pipe is ready, and a Send is blocked only while
    the send queue is full — so with a positive queue length a blocked Send means that no pipe is able to take a
    message (and with queue length 0 every Send blocks: finding D7) -/
theorem send_blocks_only_when_nobody_can_take (s : State) (h : Reach s) :
    (s.readyQ = [] ∨ s.sendQ = []) ∧ (s.parkedSend ≠ [] → s.sendCap ≤ s.sendQ.length ∧ (0 < s.sendCap → s.readyQ = [])) := by
  have hq := (quiet_iff s).mp (reach_AQ s h).2
  refine ⟨hq.1, ?_⟩
  intro hne
  cases hp : s.parkedSend with
  | nil => exact absurd hp hne
  | cons cm rest =>
    obtain ⟨c, m⟩ := cm
    have hfull := hq.2 c m rest hp
    have hfull' : s.sendCap ≤ s.sendQ.length := by omega
    refine ⟨hfull', ?_⟩
    intro hpos
    rcases hq.1 with e | e
    · exact e
    · rw [e] at hfull'; simp at hfull'; omega

end Push
end Proto
end Model
