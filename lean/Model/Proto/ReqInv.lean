/-
  Model/Proto/ReqInv.lean — the REQ history invariant: in every reachable state
    * every reply Recv has delivered carried the id of the context's request at that moment (ghost record `delivered`),
    * a stored reply carries the id of the context's current request,
    * every registered request id belongs to the context's current request,
    * context ids are unique.
-/
import Model.Proto.ReqLemmas
namespace Model
namespace Proto
namespace Req

structure J (s : State) : Prop where
  deliv : ∀ d ∈ s.delivered, d.2.1 = d.2.2
  rep : ∀ y ∈ s.ctxs, ∀ m, y.repMsg = some m → beDec m.1 = enc y.reqID
  reg : ∀ e ∈ s.ctxByID, ∀ y ∈ s.ctxs, y.id = e.2 → y.reqID = e.1
  uniq : (s.ctxs.map (·.id)).Nodup
  named : ∀ e ∈ s.ctxByID, e.2 ∈ s.ctxs.map (·.id)

theorem J_of_fields (s s' : State) (h : J s) (h1 : s'.delivered = s.delivered) (h2 : s'.ctxs = s.ctxs)
    (h3 : ∀ e ∈ s'.ctxByID, e ∈ s.ctxByID) : J s' := by
  constructor
  · rw [h1]; exact h.deliv
  · rw [h2]; exact h.rep
  · rw [h2]; intro e he; exact h.reg e (h3 e he)
  · rw [h2]; exact h.uniq
  · rw [h2]; intro e he; exact h.named e (h3 e he)

theorem getCtx_mem (s : State) (c : Nat) (y : Ctx) (h : getCtx s c = some y) : y ∈ s.ctxs ∧ y.id = c := by
  unfold getCtx at h
  exact ⟨List.mem_of_find?_eq_some h, by simpa using List.find?_some h⟩

theorem eq_of_nodup_map_id (l : List Ctx) (h : (l.map (·.id)).Nodup) (a b : Ctx) (ha : a ∈ l) (hb : b ∈ l)
    (hf : a.id = b.id) : a = b := by
  induction l with
  | nil => simp at ha
  | cons x xs ih =>
    simp only [List.map_cons, List.nodup_cons, List.mem_map, not_exists, not_and] at h
    simp only [List.mem_cons] at ha hb
    rcases ha with rfl | ha <;> rcases hb with rfl | hb
    · rfl
    · exact absurd hf.symm (h.1 b hb)
    · exact absurd hf (h.1 a ha)
    · exact ih h.2 ha hb

theorem setCtx_ids (s : State) (c : Nat) (f : Ctx → Ctx) (hid : ∀ y, (f y).id = y.id) :
    (setCtx s c f).ctxs.map (·.id) = s.ctxs.map (·.id) := by
  simp only [setCtx, List.map_map]
  apply List.map_congr_left
  intro y _
  simp only [Function.comp]
  split
  · exact hid y
  · rfl

/-- a context update that leaves the request id and the stored reply alone -/
theorem setCtx_J (s : State) (c : Nat) (f : Ctx → Ctx)
    (hf : ∀ y, (f y).reqID = y.reqID ∧ (f y).repMsg = y.repMsg ∧ (f y).id = y.id) (h : J s) : J (setCtx s c f) := by
  constructor
  · exact h.deliv
  · intro y hy m hm
    simp only [setCtx, List.mem_map] at hy
    obtain ⟨y0, hy0, rfl⟩ := hy
    split at hm
    · rename_i hc
      simp only [hc, if_true]
      rw [(hf y0).1]; rw [(hf y0).2.1] at hm; exact h.rep y0 hy0 m hm
    · rename_i hc
      simp only [hc, if_false]
      exact h.rep y0 hy0 m hm
  · intro e he y hy hid
    simp only [setCtx, List.mem_map] at hy
    obtain ⟨y0, hy0, rfl⟩ := hy
    split at hid
    · rename_i hc
      simp only [hc, if_true]
      rw [(hf y0).1]; rw [(hf y0).2.2] at hid; exact h.reg e he y0 hy0 hid
    · rename_i hc
      simp only [hc, if_false]
      exact h.reg e he y0 hy0 hid
  · rw [setCtx_ids s c f (fun y => (hf y).2.2)]; exact h.uniq
  · rw [setCtx_ids s c f (fun y => (hf y).2.2)]; exact h.named

/-- a context update that drops the stored reply, on a state whose registrations of that context have been removed -/
theorem reset_J (s : State) (c : Nat) (f : Ctx → Ctx) (reg' : List (Nat × Nat)) (dl : List (Nat × Nat × Nat)) (df : List Nat)
    (hf : ∀ y, (f y).repMsg = none ∧ (f y).id = y.id) (h : J s)
    (hsub : ∀ e ∈ reg', e ∈ s.ctxByID) (hno : ∀ e ∈ reg', e.2 ≠ c)
    (hd : ∀ d ∈ dl, d.2.1 = d.2.2) :
    J (setCtx { s with ctxByID := reg', delivered := dl, deliveredFor := df } c f) := by
  constructor
  · exact hd
  · intro y hy m hm
    simp only [setCtx, List.mem_map] at hy
    obtain ⟨y0, hy0, rfl⟩ := hy
    split at hm
    · rw [(hf y0).1] at hm; simp at hm
    · rename_i hc
      simp only [hc, if_false]
      exact h.rep y0 hy0 m hm
  · intro e he y hy hid
    simp only [setCtx, List.mem_map] at hy
    obtain ⟨y0, hy0, rfl⟩ := hy
    split at hid
    · rename_i hc
      rw [(hf y0).2] at hid
      exact absurd (hc.symm.trans hid).symm (by intro e'; exact hno e he e')
    · rename_i hc
      simp only [hc, if_false]
      exact h.reg e (hsub e he) y0 hy0 hid
  · show ((setCtx { s with ctxByID := reg', delivered := dl, deliveredFor := df } c f).ctxs.map (·.id)).Nodup
    rw [setCtx_ids _ c f (fun y => (hf y).2)]; exact h.uniq
  · intro e he
    show e.2 ∈ (setCtx { s with ctxByID := reg', delivered := dl, deliveredFor := df } c f).ctxs.map (·.id)
    rw [setCtx_ids _ c f (fun y => (hf y).2)]; exact h.named e (hsub e he)

theorem cancelSend_J (s : State) (c : Nat) (h : J s) : J (cancelSend s c) := by
  unfold cancelSend
  exact setCtx_J _ c (fun x => { x with queued := false }) (fun y => ⟨rfl, rfl, rfl⟩)
    (J_of_fields s _ h rfl rfl (fun e he => he))

theorem cancel_J (s : State) (c : Nat) (h : J s) : J (cancel s c) := by
  unfold cancel
  simp only []
  have h1 := cancelSend_J s c h
  split
  · exact h1
  · rename_i x _
    exact reset_J (cancelSend s c) c (fun y => { y with reqID := 0, repMsg := none, reqMsg := none, timer := none, sendAbort := y.sendMsg.isSome })
      ((cancelSend s c).ctxByID.filter (fun e => !(e.1 == x.reqID && x.reqID != 0) && e.2 != c)) (cancelSend s c).delivered (cancelSend s c).deliveredFor
      (fun y => ⟨rfl, rfl⟩) h1 (fun e he => (List.mem_filter.mp he).1)
      (fun e he => by have := (List.mem_filter.mp he).2; simp at this; exact this.2) h1.deliv

theorem getCtx_cancelSend (s : State) (c d : Nat) : getCtx (cancelSend s c) d = (getCtx s d).map (fun y => if y.id = c then { y with queued := false } else y) := by
  unfold cancelSend
  exact getCtx_setCtx _ c (fun x => { x with queued := false }) (fun _ => rfl) d

/-- after cancel the context has no registration left and no stored reply -/
theorem cancel_clears (s : State) (c : Nat) (x : Ctx) (hx : getCtx s c = some x) :
    (∀ e ∈ (cancel s c).ctxByID, e.2 ≠ c) ∧ (∀ y ∈ (cancel s c).ctxs, y.id = c → y.repMsg = none) := by
  have hsome : ∃ z, getCtx (cancelSend s c) c = some z := by
    rw [getCtx_cancelSend, hx]; exact ⟨_, rfl⟩
  obtain ⟨z, hz⟩ := hsome
  unfold cancel
  simp only [hz]
  constructor
  · intro e he
    have := (List.mem_filter.mp he).2
    simp at this
    exact this.2
  · intro y hy hyc
    simp only [setCtx, List.mem_map] at hy
    obtain ⟨y0, _, rfl⟩ := hy
    split
    · rfl
    · rename_i hne
      split at hyc
      · rename_i he; exact absurd he hne
      · exact absurd hyc hne

theorem wakeSends_J (s : State) (c : Nat) (x : Ctx) (h : J s) : J (wakeSends s c x).1 := by
  simp only [wakeSends]
  have h1 : J { s with parkedSend := s.parkedSend.filter (fun p => !((s.parkedSend.filter (fun p => p.ctx == c &&
      (!(x.sendMsg.isSome && x.sendFor == p.rid) || p.expired || x.closed || (x.failNoPeers && s.pipes.isEmpty) || x.sendAbort))).any (fun q => q.call == p.call))) } :=
    J_of_fields s _ h rfl rfl (fun e he => he)
  split
  · have h2 := cancelSend_J _ c h1
    exact reset_J (cancelSend _ c) c (fun y => { y with sendMsg := none, reqID := 0, repMsg := none, sendAbort := false })
      (s.ctxByID.filter (fun e => e.2 != c)) s.delivered s.deliveredFor (fun y => ⟨rfl, rfl⟩) h2
      (fun e he => (List.mem_filter.mp he).1)
      (fun e he => by have := (List.mem_filter.mp he).2; simpa using this) h.deliv
  · exact h1

theorem wakeRecv_J (s : State) (c : Nat) (np : Bool) (evs : List (Nat × Ev)) (h : J s) : J (wakeRecv s c np evs).1 := by
  unfold wakeRecv
  split
  · exact h
  · rename_i pr hpr
    split
    · exact h
    · rename_i y hy
      split
      · exact h
      · simp only []
        have h3 : J { s with parkedRecv := s.parkedRecv.filter (fun p => p.call != pr.call) } :=
          J_of_fields s _ h rfl rfl (fun e he => he)
        split
        · exact setCtx_J _ _ _ (fun z => ⟨rfl, rfl, rfl⟩) h3
        · split
          · rename_i m hm
            obtain ⟨hym, _⟩ := getCtx_mem s c y hy
            have hB := h.rep y hym m hm
            refine reset_J { s with parkedRecv := s.parkedRecv.filter (fun p => p.call != pr.call) } c
              (fun z => { z with reqID := 0, repMsg := none, receiveWait := false })
              (s.ctxByID.filter (fun e => e.2 != c)) (s.delivered ++ [(c, beDec m.1, enc y.reqID)]) (s.deliveredFor ++ [y.reqID])
              (fun z => ⟨rfl, rfl⟩) h3 (fun e he => (List.mem_filter.mp he).1)
              (fun e he => by have := (List.mem_filter.mp he).2; simpa using this) ?_
            intro d hd
            simp only [List.mem_append, List.mem_singleton] at hd
            rcases hd with hd | rfl
            · exact h.deliv d hd
            · exact hB
          · exact h3

theorem wake_J (s : State) (c : Nat) (h : J s) : J (wake s c).1 := by
  unfold wake
  split
  · exact h
  · exact wakeRecv_J _ c _ _ (wakeSends_J s c _ h)

theorem setPipe_J (s : State) (p : Nat) (f : Pipe → Pipe) (h : J s) : J (setPipe s p f) :=
  J_of_fields s _ h rfl rfl (fun e he => he)

/-- registering the id of the context's current request (first transmission) keeps the invariant -/
theorem register_J (s : State) (c : Nat) (x : Ctx) (hx : getCtx s c = some x) (sq rq : List Nat) (first : Bool)
    (tx : List (Nat × Nat × Bytes)) (h : J s) :
    J { s with sendQ := sq, readyQ := rq, ctxByID := if first then s.ctxByID.filter (fun e => e.2 != c) ++ [(x.reqID, c)] else s.ctxByID, txlog := tx } := by
  obtain ⟨hxm, hxid⟩ := getCtx_mem s c x hx
  constructor
  · exact h.deliv
  · exact h.rep
  · intro e he y hy hid
    simp only [] at he
    split at he
    · simp only [List.mem_append, List.mem_filter, List.mem_singleton] at he
      rcases he with ⟨he, _⟩ | rfl
      · exact h.reg e he y hy hid
      · have : y = x := eq_of_nodup_map_id s.ctxs h.uniq y x hy hxm (hid.trans hxid.symm)
        rw [this]
    · exact h.reg e he y hy hid
  · exact h.uniq
  · intro e he
    simp only [] at he
    split at he
    · simp only [List.mem_append, List.mem_filter, List.mem_singleton] at he
      rcases he with ⟨he, _⟩ | rfl
      · exact h.named e he
      · exact List.mem_map.mpr ⟨x, hxm, hxid⟩
    · exact h.named e he

theorem wakeIf_J (t : State) (c : Nat) (b : Bool) (h : J t) : J (if b = true then wake t c else (t, [])).1 := by
  cases b
  · exact h
  · exact wake_J t c h

theorem pumpStep_J (arm : Nat × Nat) (s : State) (c p : Nat) (sq rq : List Nat) (x : Ctx) (pp : Pipe)
    (hx : getCtx s c = some x) (h : J s) : J (pumpStep arm s c p sq rq x pp).1 := by
  have hreg := register_J s c x hx sq rq x.sendMsg.isSome (s.txlog ++ [(p, x.reqID, (x.sendMsg.orElse (fun _ => x.reqMsg)).getD [])]) h
  have hs2 := setCtx_J _ c (fun y => { y with queued := false, reqMsg := some ((x.sendMsg.orElse (fun _ => x.reqMsg)).getD []), sendMsg := none, lastPipe := some p, timer := if y.resendTime > 0 then some { id := y.reqID, tmin := arm.1, tmax := arm.2, period := y.resendTime } else y.timer })
    (fun y => ⟨rfl, rfl, rfl⟩) hreg
  simp only [pumpStep]
  split
  · exact setPipe_J _ _ _ (wakeIf_J _ c _ hs2)
  · exact J_of_fields _ _ (wakeIf_J _ c _ hs2) rfl rfl (fun e he => he)

/-- socket.send: pairing waiting contexts with ready pipes keeps the invariant -/
theorem pump_J : ∀ (fuel : Nat) (arm : Nat × Nat) (s : State), J s → J (pump fuel arm s).1 := by
  intro fuel
  induction fuel with
  | zero => intro arm s h; exact h
  | succ n ih =>
    intro arm s h
    simp only [pump]
    split
    · split
      · rename_i x pp hx hp
        exact ih arm _ (pumpStep_J arm s _ _ _ _ x pp hx h)
      · exact J_of_fields s _ h rfl rfl (fun e he => he)
    · exact h

theorem resend_J (s : State) (arm : Nat × Nat) (c id : Nat) (h : J s) : J (resend s arm c id).1 := by
  unfold resend
  split
  · exact h
  · split
    · apply pump_J
      exact setCtx_J _ c (fun y => { y with queued := true }) (fun y => ⟨rfl, rfl, rfl⟩) (J_of_fields s _ h rfl rfl (fun e he => he))
    · exact h

/-- folding a list of ids over a set of candidate states, each id mapping a state to some successor states -/
theorem foldl_flatMap_all {α β : Type} (P : β → Prop) (g : α → β → List β) (hg : ∀ a b, P b → ∀ r ∈ g a b, P r) :
    ∀ (ids : List α) (acc : List β), (∀ b ∈ acc, P b) → ∀ r ∈ ids.foldl (fun acc a => acc.flatMap (g a)) acc, P r := by
  intro ids
  induction ids with
  | nil => intro acc h r hr; exact h r hr
  | cons a as ih =>
    intro acc h
    simp only [List.foldl_cons]
    apply ih
    intro b hb
    simp only [List.mem_flatMap] at hb
    obtain ⟨b0, hb0, hb⟩ := hb
    exact hg a b0 (h b0 hb0) b hb

theorem readyVariants_J (st : State × List (Nat × Ev)) (h : J st.1) : ∀ r ∈ readyVariants st, J r.1 := by
  intro r hr
  unfold readyVariants at hr
  simp only [] at hr
  split at hr
  · simp at hr; subst hr; exact h
  · simp only [List.mem_map] at hr
    obtain ⟨m, _, rfl⟩ := hr
    exact J_of_fields st.1 _ h rfl rfl (fun e he => he)

theorem timerRound_J (now : Nat) (acc0 : List (State × List (Nat × Ev))) (ids : List Nat) (h : ∀ st ∈ acc0, J st.1) :
    ∀ st ∈ timerRound now acc0 ids, J st.1 := by
  unfold timerRound
  apply foldl_flatMap_all (fun st : State × List (Nat × Ev) => J st.1) _ _ ids acc0 h
  intro cid st hst r hr
  split at hr
  · simp at hr; subst hr; exact hst
  · rename_i c _
    split at hr
    · simp at hr; subst hr; exact hst
    · rename_i t _
      have hf : J (resend (setCtx st.1 c.id (fun y => { y with timer := none })) (t.tmin + t.period, now) c.id t.id).1 :=
        resend_J _ _ _ _ (setCtx_J _ _ _ (fun y => ⟨rfl, rfl, rfl⟩) hst)
      simp only [] at hr
      split at hr
      · refine readyVariants_J _ ?_ r hr; exact hf
      · split at hr
        · rw [List.mem_cons] at hr
          rcases hr with rfl | hr
          · exact hst
          · refine readyVariants_J _ ?_ r hr; exact hf
        · simp at hr; subst hr; exact hst

theorem deadlineFired_J (st : State × List (Nat × Ev)) (isRecv : Bool) (p : Parked) (h : J st.1) : J (deadlineFired st isRecv p).1 := by
  unfold deadlineFired
  cases isRecv
  · simp only [Bool.false_eq_true, if_false]
    split
    · exact h
    · split
      · exact wake_J _ _ (cancel_J _ _ (J_of_fields st.1 _ h rfl rfl (fun e he => he)))
      · exact J_of_fields st.1 _ h rfl rfl (fun e he => he)
  · simp only [if_true]
    split
    · exact h
    · split
      · exact wake_J _ _ (cancel_J _ _ (J_of_fields st.1 _ h rfl rfl (fun e he => he)))
      · exact J_of_fields st.1 _ h rfl rfl (fun e he => he)

theorem deadlineFire_J (now : Nat) (st : State × List (Nat × Ev)) (isRecv : Bool) (p : Parked) (t : Timer) (h : J st.1) :
    ∀ r ∈ deadlineFire now st isRecv p t, J r.1 := by
  intro r hr
  have hE : J (expireSends now st.1 p.ctx) := J_of_fields st.1 _ h rfl rfl (fun e he => he)
  have hfired : ∀ r ∈ (if (isRecv && recvStill st.1 p && expireSends now st.1 p.ctx != st.1) = true
      then [deadlineFired st isRecv p, deadlineFired (expireSends now st.1 p.ctx, st.2) isRecv p]
      else [deadlineFired st isRecv p]), J r.1 := by
    intro r hr
    split at hr
    · simp at hr
      rcases hr with rfl | rfl
      · exact deadlineFired_J st isRecv p h
      · exact deadlineFired_J (_, _) isRecv p hE
    · simp at hr; subst hr; exact deadlineFired_J st isRecv p h
  unfold deadlineFire at hr
  simp only [] at hr
  split at hr
  · exact hfired r hr
  · split at hr
    · rw [List.mem_cons] at hr
      rcases hr with rfl | hr
      · exact h
      · exact hfired r hr
    · simp at hr; subst hr; exact h

theorem deadlineRound_J (now : Nat) (acc0 : List (State × List (Nat × Ev))) (calls : List Nat) (h : ∀ st ∈ acc0, J st.1) :
    ∀ st ∈ deadlineRound now acc0 calls, J st.1 := by
  unfold deadlineRound
  apply foldl_flatMap_all (fun st : State × List (Nat × Ev) => J st.1) _ _ calls acc0 h
  intro call st hst r hr
  split at hr
  · split at hr
    · exact deadlineFire_J now st true _ _ hst r hr
    · simp at hr; subst hr; exact hst
  · split at hr
    · exact deadlineFire_J now st false _ _ hst r hr
    · simp at hr; subst hr; exact hst
  · simp at hr; subst hr; exact hst

theorem mem_dedup (l : List (State × List (Nat × Ev))) : ∀ x ∈ dedup l, x ∈ l := by
  unfold dedup
  have key : ∀ (l acc : List (State × List (Nat × Ev))), ∀ x ∈ l.foldl (fun acc x =>
      if acc.any (fun y => y.1 == x.1 && y.2.map (·.2) == x.2.map (·.2)) then acc else acc ++ [x]) acc, x ∈ acc ∨ x ∈ l := by
    intro l
    induction l with
    | nil => intro acc x hx; exact Or.inl hx
    | cons a as ih =>
      intro acc x hx
      simp only [List.foldl_cons] at hx
      rcases ih _ x hx with h | h
      · split at h
        · exact Or.inl h
        · simp only [List.mem_append, List.mem_singleton] at h
          rcases h with h | rfl
          · exact Or.inl h
          · exact Or.inr (by simp)
      · exact Or.inr (List.mem_cons_of_mem _ h)
  intro x hx
  rcases key l [] x hx with h | h
  · simp at h
  · exact h

theorem timerOutcomes_J (s : State) (now : Nat) (h : J s) : ∀ st ∈ timerOutcomes s now, J st.1 := by
  intro st hst
  unfold timerOutcomes at hst
  simp only [] at hst
  have h0 : ∀ st ∈ dedup (deadlineRound now [(s, [])] (s.parkedRecv.map (·.call) ++ s.parkedSend.map (·.call))), J st.1 :=
    fun st hst => deadlineRound_J now _ _ (by intro x hx; simp at hx; subst hx; exact h) st (mem_dedup _ st hst)
  have h1 := fun st hst => timerRound_J now _ (s.ctxs.map (·.id)) h0 st (mem_dedup _ st hst)
  have h2 := fun st hst => timerRound_J now _ (s.ctxs.map (·.id)) h1 st (mem_dedup _ st hst)
  have h3 := fun st hst => timerRound_J now _ (s.ctxs.map (·.id)) h2 st (mem_dedup _ st hst)
  have h4 := fun st hst => timerRound_J now _ (s.ctxs.map (·.id)) h3 st (mem_dedup _ st hst)
  exact h4 st (List.mem_of_mem_take hst)

theorem dropOne_J (p : Nat) (acc : State × List (Nat × Ev) × List (Nat × Nat)) (c0 : Ctx) (h : J acc.1) : J (dropOne p acc c0).1 := by
  unfold dropOne
  split
  · exact h
  · rename_i c _
    split
    · exact wake_J _ _ (cancel_J _ _ h)
    · split
      · have h2 := setCtx_J acc.1 c.id (fun y => { y with lastPipe := none }) (fun y => ⟨rfl, rfl, rfl⟩) h
        split
        · exact wake_J _ _ (cancel_J _ _ h2)
        · exact cancelSend_J _ _ h2
      · exact h

theorem foldl_J {α β : Type} (f : β → α → β) (P : β → Prop) (hf : ∀ b a, P b → P (f b a)) :
    ∀ (l : List α) (b : β), P b → P (l.foldl f b) := by
  intro l
  induction l with
  | nil => intro b h; exact h
  | cons a as ih => intro b h; exact ih _ (hf b a h)

theorem dropResends_J (arm : Nat × Nat) (todo : List (Nat × Nat)) (start : State × List (Nat × Ev)) (order : List Nat)
    (h : J start.1) : J (dropResends arm todo start order).1 := by
  unfold dropResends
  apply foldl_J _ (fun acc : State × List (Nat × Ev) => J acc.1) _ order start h
  intro acc cid hacc
  split
  · exact hacc
  · exact resend_J _ _ _ _ hacc

theorem dropPipe_J (s : State) (arm : Nat × Nat) (p : Nat) (h : J s) : ∀ r ∈ dropPipe s arm p, J r.1 := by
  intro r hr
  unfold dropPipe at hr
  simp only [List.mem_flatMap] at hr
  obtain ⟨order, _, hr⟩ := hr
  refine readyVariants_J _ ?_ r hr
  apply dropResends_J
  apply foldl_J (dropOne p) (fun acc : State × List (Nat × Ev) × List (Nat × Nat) => J acc.1) (fun b a hb => dropOne_J p b a hb)
  exact J_of_fields s _ h rfl rfl (fun e he => he)

theorem closeOne_J (acc : State × List (Nat × Ev)) (c : Ctx) (h : J acc.1) : J (closeOne acc c).1 := by
  unfold closeOne
  split
  · exact h
  · exact wake_J _ _ (cancel_J _ _ (setCtx_J _ _ (fun y => { y with closed := true }) (fun y => ⟨rfl, rfl, rfl⟩) h))

theorem getCtx_none_not_mem (s : State) (c : Nat) (h : (getCtx s c).isSome = false) : ∀ y ∈ s.ctxs, y.id ≠ c := by
  intro y hy e
  unfold getCtx at h
  have : s.ctxs.find? (fun x => decide (x.id = c)) = none := by
    cases hf : s.ctxs.find? (fun x => decide (x.id = c)) with
    | none => rfl
    | some z => rw [hf] at h; simp at h
  have := List.find?_eq_none.mp this y hy
  simp [e] at this

theorem core_J (s : State) (now : Nat) (op : List String) (h : J s) : ∀ r ∈ core s now op, J r.1 := by
  intro r hr
  unfold core at hr
  split at hr
  · -- addpipe
    split at hr
    · simp at hr; subst hr; exact h
    · simp at hr; subst hr
      exact pump_J _ _ _ (J_of_fields s _ h rfl rfl (fun e he => he))
  · -- rmpipe
    simp only [List.mem_map] at hr
    obtain ⟨r0, hr0, rfl⟩ := hr
    exact dropPipe_J s _ _ h r0 hr0
  · -- inject
    rename_i p b
    try simp only [] at hr
    split at hr
    · simp at hr; subst hr; exact h
    · split at hr
      · simp at hr; subst hr; exact h
      · try simp only [] at hr
        have h0 : ∀ q, J ({ s with readyQ := q } : State) := fun q => J_of_fields s _ h rfl rfl (fun e he => he)
        split at hr
        · simp at hr; subst hr; exact h0 _
        · rename_i rid c hfind
          simp at hr; subst hr
          apply wake_J
          -- the stored reply carries the registered id, which is the context's current request
          have hmem : (rid, c) ∈ s.ctxByID := List.mem_of_find?_eq_some hfind
          have hid : enc rid = beDec ((bytesOf b).take 4) := by
            have := List.find?_some hfind
            simpa using this
          have h1 := cancelSend_J _ c (h0 (swapFront s.readyQ (natOf p)))
          constructor
          · exact h1.deliv
          · intro y hy m hm
            simp only [setCtx, List.mem_map] at hy
            obtain ⟨y0, hy0, rfl⟩ := hy
            split at hm
            · rename_i hc
              simp only [Option.some.injEq] at hm
              subst hm
              simp only [hc, if_true]
              have := h1.reg (rid, c) hmem y0 hy0 hc
              show beDec _ = enc y0.reqID
              rw [this]; exact hid.symm
            · rename_i hc
              simp only [hc, if_false]
              exact h1.rep y0 hy0 m hm
          · intro e he y hy hyid
            simp only [setCtx, List.mem_map] at hy
            obtain ⟨y0, hy0, rfl⟩ := hy
            have he' : e ∈ s.ctxByID := (List.mem_filter.mp he).1
            split at hyid
            · rename_i hc
              simp only [hc, if_true]
              exact h1.reg e he' y0 hy0 hyid
            · rename_i hc
              simp only [hc, if_false]
              exact h1.reg e he' y0 hy0 hyid
          · show ((setCtx _ c _).ctxs.map (·.id)).Nodup
            rw [setCtx_ids]
            · exact h1.uniq
            · intro y; rfl
          · intro e he
            show e.2 ∈ (setCtx _ c _).ctxs.map (·.id)
            rw [setCtx_ids]
            · exact h1.named e (List.mem_filter.mp he).1
            · intro y; rfl
  · -- send
    rename_i call ctx hd b
    simp only [] at hr
    split at hr
    · simp at hr
    · rename_i c hc
      split at hr
      · simp at hr; subst hr; exact J_of_fields s _ h rfl rfl (fun e he => he)
      · split at hr
        · simp at hr; subst hr; exact J_of_fields s _ h rfl rfl (fun e he => he)
        · -- cancel, then the new request (not registered yet, no reply stored)
          have h0 : J { s with nsent := s.nsent + 1, sent := s.sent ++ [(s.nsent + 1, bytesOf b)] } := J_of_fields s _ h rfl rfl (fun e he => he)
          have h1 := cancel_J _ c.id h0
          have hcid : c.id = natOf ctx := getCtx_id s _ c hc
          have hc' : getCtx { s with nsent := s.nsent + 1, sent := s.sent ++ [(s.nsent + 1, bytesOf b)] } c.id = some c := by rw [hcid]; exact hc
          obtain ⟨hnone, hrepnone⟩ := cancel_clears { s with nsent := s.nsent + 1, sent := s.sent ++ [(s.nsent + 1, bytesOf b)] } c.id c hc'
          have h2 : J (setCtx { (cancel { s with nsent := s.nsent + 1, sent := s.sent ++ [(s.nsent + 1, bytesOf b)] } c.id) with sendQ := (cancel { s with nsent := s.nsent + 1, sent := s.sent ++ [(s.nsent + 1, bytesOf b)] } c.id).sendQ ++ [c.id] } c.id
              (fun y => { y with reqID := s.nsent + 1, queued := true, sendMsg := some (bytesOf b), sendFor := s.nsent + 1, sendAbort := false })) := by
            constructor
            · exact h1.deliv
            · intro y hy m hm
              simp only [setCtx, List.mem_map] at hy
              obtain ⟨y0, hy0, rfl⟩ := hy
              split at hm
              · rename_i hyc
                simp only [] at hm
                rw [hrepnone y0 hy0 hyc] at hm
                simp at hm
              · rename_i hyc
                simp only [hyc, if_false]
                exact h1.rep y0 hy0 m hm
            · intro e he y hy hyid
              simp only [setCtx, List.mem_map] at hy
              obtain ⟨y0, hy0, rfl⟩ := hy
              split at hyid
              · rename_i hyc
                exact absurd (hyc.symm.trans hyid).symm (hnone e he)
              · rename_i hyc
                simp only [hyc, if_false]
                exact h1.reg e he y0 hy0 hyid
            · show ((setCtx _ c.id _).ctxs.map (·.id)).Nodup
              rw [setCtx_ids]
              · exact h1.uniq
              · intro y; rfl
            · intro e he
              show e.2 ∈ (setCtx _ c.id _).ctxs.map (·.id)
              rw [setCtx_ids]
              · exact h1.named e he
              · intro y; rfl
          have h3 := wake_J _ c.id h2
          split at hr
          · simp at hr
          split at hr
          · simp at hr; subst hr
            refine J_of_fields (pump _ _ _).1 _ ?_ rfl rfl (fun e he => he)
            apply pump_J
            refine J_of_fields (wake _ _).1 _ ?_ rfl rfl (fun e he => he)
            exact h3
          · simp at hr; subst hr
            apply pump_J
            refine J_of_fields (wake _ _).1 _ ?_ rfl rfl (fun e he => he)
            exact h3
  · -- recv
    simp only [] at hr
    split at hr
    · simp at hr
    · split at hr
      · simp at hr; subst hr; exact h
      · split at hr
        · simp at hr; subst hr; exact h
        · split at hr
          · simp at hr; subst hr; exact h
          · split at hr
            · simp at hr
            simp at hr; subst hr
            exact wake_J _ _ (setCtx_J _ _ (fun y => { y with receiveWait := true }) (fun y => ⟨rfl, rfl, rfl⟩) (J_of_fields s _ h rfl rfl (fun e he => he)))
  · simp at hr; subst hr; exact setCtx_J s _ _ (fun y => ⟨rfl, rfl, rfl⟩) h
  · simp at hr; subst hr; exact setCtx_J s _ _ (fun y => ⟨rfl, rfl, rfl⟩) h
  · simp at hr; subst hr; exact setCtx_J s _ _ (fun y => ⟨rfl, rfl, rfl⟩) h
  · simp at hr; subst hr; exact setCtx_J s _ _ (fun y => ⟨rfl, rfl, rfl⟩) h
  · simp at hr; subst hr; exact setCtx_J s _ _ (fun y => ⟨rfl, rfl, rfl⟩) h
  · simp at hr; subst hr; exact setPipe_J s _ _ h
  · -- release ok
    split at hr
    · simp at hr
    · rename_i pp hpp
      split at hr
      · simp at hr
      · simp only [] at hr
        simp at hr; subst hr
        apply pump_J
        have h1 : J (setPipe s pp.id (fun x => { x with inflight := none })) := setPipe_J s _ _ h
        split
        · exact h1
        · exact J_of_fields (setPipe s pp.id (fun x => { x with inflight := none })) _ h1 rfl rfl (fun e he => he)
  · -- release err
    simp only [List.mem_map] at hr
    obtain ⟨r0, hr0, rfl⟩ := hr
    exact dropPipe_J s _ _ h r0 hr0
  · -- openctx
    split at hr
    · simp at hr; subst hr; exact h
    · split at hr
      · simp at hr
      · rename_i hfree
        split at hr
        · simp at hr
        · simp at hr; subst hr
          have hnew := getCtx_none_not_mem s _ (by simpa using hfree)
          constructor
          · exact h.deliv
          · intro y hy m hm
            simp only [List.mem_append, List.mem_singleton] at hy
            rcases hy with hy | rfl
            · exact h.rep y hy m hm
            · simp at hm
          · intro e he y hy hyid
            simp only [List.mem_append, List.mem_singleton] at hy
            rcases hy with hy | rfl
            · exact h.reg e he y hy hyid
            · -- registrations only name existing contexts, and the new id is fresh
              exfalso
              have := h.named e he
              simp only [List.mem_map] at this
              obtain ⟨z, hz, hzid⟩ := this
              exact hnew z hz (hzid.trans hyid.symm)
          · simp only [List.map_append, List.map_cons, List.map_nil]
            rw [List.nodup_append]
            refine ⟨h.uniq, by simp, ?_⟩
            intro a ha b hb
            simp only [List.mem_singleton] at hb
            subst hb
            simp only [List.mem_map] at ha
            obtain ⟨y, hy, rfl⟩ := ha
            exact hnew y hy
          · intro e he
            simp only [List.map_append, List.mem_append]
            exact Or.inl (h.named e he)
  · -- closectx
    split at hr
    · simp at hr
    · split at hr
      · simp at hr; subst hr; exact h
      · simp at hr; subst hr
        exact wake_J _ _ (cancel_J _ _ (setCtx_J _ _ (fun y => { y with closed := true }) (fun y => ⟨rfl, rfl, rfl⟩) h))
  · simp at hr; subst hr; exact h
  · -- close
    split at hr
    · simp at hr; subst hr; exact h
    · simp at hr; subst hr
      exact foldl_J closeOne (fun acc : State × List (Nat × Ev) => J acc.1) (fun b a hb => closeOne_J b a hb) _ _
        (J_of_fields s _ h rfl rfl (fun e he => he))
  · simp at hr

theorem step_J (s : State) (op : List String) (h : J s) : ∀ o ∈ step s op, J o.1 := by
  intro o ho
  simp only [step, List.mem_flatMap, List.mem_map] at ho
  obtain ⟨st, hst, r, hr, r2, hr2, rfl⟩ := ho
  have h1 := timerOutcomes_J s _ h st hst
  have h2 := core_J st.1 _ _ h1 r hr
  exact timerOutcomes_J { r.1 with tprev := opTime op } _ (J_of_fields r.1 _ h2 rfl rfl (fun e he => he)) r2 hr2

theorem init_J : J init := by
  constructor <;> simp [init]

/-- the states reachable by any sequence of operations (any interleaving of application calls on any number of
    contexts, replies of any content on any pipe, pipe additions and losses, held and failing transmissions, timer
    firings at any admissible time, context and socket close) -/
inductive Reach : State → Prop
  | init : Reach init
  | step (s : State) (op : List String) (o : State × List Ev) : Reach s → o ∈ step s op → Reach o.1

theorem reach_J (s : State) (h : Reach s) : J s := by
  induction h with
  | init => exact init_J
  | step s op o _ ho ih => exact step_J s op ih o ho

end Req
end Proto
end Model
