/-
  Model/Proto/ReqDue.lean — REQ: a Send deadline that is overdue has been delivered.
  In every reachable state, a parked Send whose deadline is overdue by more than the slack is no longer parked in any
  outcome of the timer processing that precedes the next operation — whatever else fires in the same instant (Recv
  deadlines of the same or other contexts, retry timers), in whatever order.
-/
import Model.Proto.ReqDeadline
namespace Model
namespace Proto
namespace Req

/-! ### parked Sends only ever leave during timer processing -/

theorem pumpStep_send_sub (arm : Nat × Nat) (s : State) (c p : Nat) (sq rq : List Nat) (x : Ctx) (pp : Pipe) :
    (pumpStep arm s c p sq rq x pp).1.parkedSend.Sublist s.parkedSend := by
  simp only [pumpStep]
  have hw : ∀ (t : State) (b : Bool), (if b = true then wake t c else (t, [])).1.parkedSend.Sublist t.parkedSend := by
    intro t b
    cases b
    · exact List.Sublist.refl _
    · exact (wake_parked_sub t c).1
  split
  · exact hw _ _
  · exact hw _ _

theorem pump_send_sub : ∀ (fuel : Nat) (arm : Nat × Nat) (s : State), (pump fuel arm s).1.parkedSend.Sublist s.parkedSend := by
  intro fuel
  induction fuel with
  | zero => intro arm s; exact List.Sublist.refl _
  | succ n ih =>
    intro arm s
    simp only [pump]
    split
    · split
      · exact List.Sublist.trans (ih arm _) (pumpStep_send_sub arm s _ _ _ _ _ _)
      · exact List.Sublist.refl _
    · exact List.Sublist.refl _

theorem resend_send_sub (s : State) (arm : Nat × Nat) (c id : Nat) : (resend s arm c id).1.parkedSend.Sublist s.parkedSend := by
  unfold resend
  split
  · exact List.Sublist.refl _
  · split
    · exact pump_send_sub _ _ _
    · exact List.Sublist.refl _

/-- no parked Send carries call number k -/
def Gone (k : Nat) (s : State) : Prop := ∀ q ∈ s.parkedSend, q.call ≠ k

theorem gone_of_sub (k : Nat) (s s' : State) (h : Gone k s) (hs : ∀ q ∈ s'.parkedSend, q ∈ s.parkedSend) : Gone k s' :=
  fun q hq => h q (hs q hq)

theorem timerRound_gone (k : Nat) (now : Nat) (acc0 : List (State × List (Nat × Ev))) (ids : List Nat) (h : ∀ st ∈ acc0, Gone k st.1) :
    ∀ st ∈ timerRound now acc0 ids, Gone k st.1 := by
  unfold timerRound
  apply foldl_flatMap_all (fun st : State × List (Nat × Ev) => Gone k st.1) _ _ ids acc0 h
  intro cid st hst r hr
  split at hr
  · simp at hr; subst hr; exact hst
  · rename_i c _
    split at hr
    · simp at hr; subst hr; exact hst
    · rename_i t _
      have hf : Gone k (resend (setCtx st.1 c.id (fun y => { y with timer := none })) (t.tmin + t.period, now) c.id t.id).1 :=
        gone_of_sub k (setCtx st.1 c.id (fun y => { y with timer := none })) _ hst (fun q hq => (resend_send_sub _ _ _ _).subset hq)
      have hv : ∀ r ∈ readyVariants ((resend (setCtx st.1 c.id (fun y => { y with timer := none })) (t.tmin + t.period, now) c.id t.id).1,
          st.2 ++ (resend (setCtx st.1 c.id (fun y => { y with timer := none })) (t.tmin + t.period, now) c.id t.id).2), Gone k r.1 := by
        intro r hr
        unfold readyVariants at hr
        simp only [] at hr
        split at hr
        · simp at hr; subst hr; exact hf
        · simp only [List.mem_map] at hr
          obtain ⟨m, _, rfl⟩ := hr
          exact hf
      simp only [] at hr
      split at hr
      · exact hv r hr
      · split at hr
        · rw [List.mem_cons] at hr
          rcases hr with rfl | hr
          · exact hst
          · exact hv r hr
        · simp at hr; subst hr; exact hst

theorem markIf_of_false (b : Parked → Bool) (v : Bool) (q : Parked) (h : b q = false) : markIf b v q = q := by
  unfold markIf; simp [h]

/-! ### one deadline firing -/

/-- a Send deadline fires (N: the call is still the pending one): the call leaves, nothing else is touched -/
theorem deadlineFired_send_leaves (st : State × List (Nat × Ev)) (p : Parked) (hp : p ∈ st.1.parkedSend) (h : N none st.1) :
    ∀ q ∈ (deadlineFired st false p).1.parkedSend, q ∈ st.1.parkedSend ∧ q.call ≠ p.call := by
  obtain ⟨x, hx, hsome, hfor, _⟩ := h.ok p hp (by simp)
  have hstill : (x.sendMsg.isSome && x.sendFor == p.rid) = true := by simp [hsome, hfor]
  intro q hq
  unfold deadlineFired at hq
  simp only [Bool.false_eq_true, if_false, hx, hstill, if_true] at hq
  -- q survived cancel + wake of p.ctx
  have hex1 : (getCtx ({ st.1 with parkedSend := st.1.parkedSend.map (fun q => if q.call == p.call then { q with expired := true, deadline := none } else q) } : State) p.ctx).isSome = true := by
    show (getCtx st.1 p.ctx).isSome = true
    rw [hx]; rfl
  have hctx := cancel_wakes_every_send _ p.ctx hex1 q hq
  have hsub := (wake_parked_sub (cancel ({ st.1 with parkedSend := st.1.parkedSend.map (fun q => if q.call == p.call then { q with expired := true, deadline := none } else q) } : State) p.ctx) p.ctx).1.subset hq
  rw [cancel_parkedSend] at hsub
  simp only [List.mem_map] at hsub
  obtain ⟨q0, hq0, rfl⟩ := hsub
  have hcs := nodup_calls_send st.1 h.calls
  by_cases hc : (q0.call == p.call) = true
  · have : q0 = p := eq_of_nodup_map_call st.1.parkedSend hcs q0 p hq0 hp (by simpa using hc)
    subst this
    simp only [hc, if_true] at hctx
    exact absurd rfl hctx
  · simp only [hc, if_false]
    exact ⟨hq0, by simpa using hc⟩

theorem deadlineFired_recv_sub (st : State × List (Nat × Ev)) (p : Parked) :
    ∀ q ∈ (deadlineFired st true p).1.parkedSend, q ∈ st.1.parkedSend := by
  intro q hq
  unfold deadlineFired at hq
  simp only [if_true] at hq
  split at hq
  · exact hq
  · split at hq
    · have := (wake_parked_sub _ p.ctx).1.subset hq
      rw [cancel_parkedSend] at this
      exact this
    · exact hq

/-- a Recv deadline of context c fires together with c's due Send deadlines: every Send on c leaves, the others stay as they are -/
theorem deadlineFired_recv_expire_sub (now : Nat) (st : State × List (Nat × Ev)) (p : Parked) (hstill : recvStill st.1 p = true) :
    ∀ q ∈ (deadlineFired (expireSends now st.1 p.ctx, st.2) true p).1.parkedSend, q ∈ st.1.parkedSend := by
  intro q hq
  unfold recvStill at hstill
  cases hx : getCtx st.1 p.ctx with
  | none => rw [hx] at hstill; cases hstill
  | some x =>
    rw [hx] at hstill
    simp only [] at hstill
    have hxe : getCtx (expireSends now st.1 p.ctx) p.ctx = some x := hx
    unfold deadlineFired at hq
    simp only [if_true, hxe, hstill] at hq
    have hex1 : (getCtx ({ (expireSends now st.1 p.ctx) with parkedRecv := (expireSends now st.1 p.ctx).parkedRecv.map (fun q => if q.call == p.call then { q with expired := true, deadline := none } else q) } : State) p.ctx).isSome = true := by
      show (getCtx st.1 p.ctx).isSome = true
      rw [hx]; rfl
    have hctx := cancel_wakes_every_send _ p.ctx hex1 q hq
    have hsub := (wake_parked_sub (cancel ({ (expireSends now st.1 p.ctx) with parkedRecv := (expireSends now st.1 p.ctx).parkedRecv.map (fun q => if q.call == p.call then { q with expired := true, deadline := none } else q) } : State) p.ctx) p.ctx).1.subset hq
    rw [cancel_parkedSend] at hsub
    have hsub' : q ∈ (expireSends now st.1 p.ctx).parkedSend := hsub
    rw [expireSends_eq] at hsub'
    simp only [List.mem_map] at hsub'
    obtain ⟨q0, hq0, rfl⟩ := hsub'
    have hq0c : q0.ctx ≠ p.ctx := by
      intro e
      exact hctx ((markIf_fields _ true q0).2.2.trans e)
    have hb : ∀ b' : Bool, (q0.ctx == p.ctx && b') = false := by
      intro b'
      have : (q0.ctx == p.ctx) = false := by simpa using hq0c
      simp [this]
    rw [markIf_of_false]
    · exact hq0
    · exact hb _

theorem deadlineFire_sub (now : Nat) (st : State × List (Nat × Ev)) (isRecv : Bool) (p : Parked) (t : Timer)
    (hp : isRecv = false → p ∈ st.1.parkedSend) (h : N none st.1) :
    ∀ r ∈ deadlineFire now st isRecv p t, ∀ q ∈ r.1.parkedSend, q ∈ st.1.parkedSend := by
  intro r hr
  have hbase : ∀ q ∈ (deadlineFired st isRecv p).1.parkedSend, q ∈ st.1.parkedSend := by
    cases isRecv
    · exact fun q hq => (deadlineFired_send_leaves st p (hp rfl) h q hq).1
    · exact deadlineFired_recv_sub st p
  have hfired : ∀ r ∈ (if (isRecv && recvStill st.1 p && expireSends now st.1 p.ctx != st.1) = true
      then [deadlineFired st isRecv p, deadlineFired (expireSends now st.1 p.ctx, st.2) isRecv p]
      else [deadlineFired st isRecv p]), ∀ q ∈ r.1.parkedSend, q ∈ st.1.parkedSend := by
    intro r hr
    split at hr
    · rename_i hcond
      simp only [Bool.and_eq_true] at hcond
      simp at hr
      rcases hr with rfl | rfl
      · exact hbase
      · have hisr : isRecv = true := hcond.1.1
        subst hisr
        exact deadlineFired_recv_expire_sub now st p hcond.1.2
    · simp at hr; subst hr; exact hbase
  unfold deadlineFire at hr
  simp only [] at hr
  split at hr
  · exact hfired r hr
  · split at hr
    · rw [List.mem_cons] at hr
      rcases hr with rfl | hr
      · exact fun q hq => hq
      · exact hfired r hr
    · simp at hr; subst hr; exact fun q hq => hq

/-! ### the round of deadlines -/

/-- what one call number does to one candidate state (the body of `deadlineRound`) -/
def stepCall (now : Nat) (call : Nat) (st : State × List (Nat × Ev)) : List (State × List (Nat × Ev)) :=
  match st.1.parkedRecv.find? (fun p => p.call == call), st.1.parkedSend.find? (fun p => p.call == call) with
  | some p, _ => match p.deadline with
    | some t => deadlineFire now st true p t
    | none => [st]
  | none, some p => match p.deadline with
    | some t => deadlineFire now st false p t
    | none => [st]
  | none, none => [st]

theorem deadlineRound_eq (now : Nat) (acc0 : List (State × List (Nat × Ev))) (calls : List Nat) :
    deadlineRound now acc0 calls = calls.foldl (fun acc call => acc.flatMap (stepCall now call)) acc0 := by
  unfold deadlineRound stepCall
  rfl

/-- the candidate states during the round: N holds and every parked Send is one of s's, unchanged -/
def Pre (s : State) (st : State × List (Nat × Ev)) : Prop := N none st.1 ∧ ∀ q ∈ st.1.parkedSend, q ∈ s.parkedSend

theorem stepCall_spec (s : State) (hs : N none s) (now : Nat) (p : Parked) (hp : p ∈ s.parkedSend) (t : Timer)
    (hd : p.deadline = some t) (hdue : t.tmax + t.period + slack ≤ now) (call : Nat) (st : State × List (Nat × Ev)) (h : Pre s st) :
    ∀ r ∈ stepCall now call st, Pre s r ∧ (Gone p.call st.1 → Gone p.call r.1) ∧ (call = p.call → Gone p.call r.1) := by
  intro r hr
  obtain ⟨hN, hR⟩ := h
  have hsub_spec : (∀ q ∈ r.1.parkedSend, q ∈ st.1.parkedSend) → N none r.1 →
      (Gone p.call st.1 → Pre s r ∧ (Gone p.call st.1 → Gone p.call r.1) ∧ (call = p.call → Gone p.call r.1)) := by
    intro hsub hNr hg
    exact ⟨⟨hNr, fun q hq => hR q (hsub q hq)⟩, fun _ => gone_of_sub _ _ _ hg hsub, fun _ => gone_of_sub _ _ _ hg hsub⟩
  unfold stepCall at hr
  split at hr
  · -- a parked Recv has this call number: then no parked Send has it
    rename_i _ _ pr hfind
    have hprm : pr ∈ st.1.parkedRecv := List.mem_of_find?_eq_some hfind
    have hprc : pr.call = call := by have := List.find?_some hfind; simpa using this
    have hnosend : call = p.call → Gone p.call st.1 := by
      intro e q hq hqc
      have hnd := hN.calls
      rw [List.map_append, List.nodup_append] at hnd
      exact hnd.2.2 pr.call (List.mem_map.mpr ⟨pr, hprm, rfl⟩) q.call (List.mem_map.mpr ⟨q, hq, rfl⟩) (by rw [hprc, e, hqc])
    split at hr
    · rename_i t' _
      have hsub := deadlineFire_sub now st true pr t' (by intro e; cases e) hN r hr
      have hNr := deadlineFire_N now st true pr t' (by intro e; cases e) hN r hr
      exact ⟨⟨hNr, fun q hq => hR q (hsub q hq)⟩, fun hg => gone_of_sub _ _ _ hg hsub, fun e => gone_of_sub _ _ _ (hnosend e) hsub⟩
    · simp at hr; subst hr
      exact ⟨⟨hN, hR⟩, fun hg => hg, hnosend⟩
  · rename_i _ _ p' hnone hfind
    have hp'm : p' ∈ st.1.parkedSend := List.mem_of_find?_eq_some hfind
    have hp'c : p'.call = call := by have := List.find?_some hfind; simpa using this
    -- if it is p's number, it is p itself
    have hsame : call = p.call → p' = p := by
      intro e
      exact eq_of_nodup_map_call s.parkedSend (nodup_calls_send s hs.calls) p' p (hR p' hp'm) hp (by rw [hp'c, e])
    split at hr
    · rename_i t' ht'
      have hsub := deadlineFire_sub now st false p' t' (fun _ => hp'm) hN r hr
      have hNr := deadlineFire_N now st false p' t' (fun _ => hp'm) hN r hr
      refine ⟨⟨hNr, fun q hq => hR q (hsub q hq)⟩, fun hg => gone_of_sub _ _ _ hg hsub, ?_⟩
      intro e
      have := hsame e
      subst this
      rw [hd] at ht'
      cases ht'
      -- overdue: it must fire, and firing removes the call
      unfold deadlineFire at hr
      simp only [hdue, decide_true, if_true, Bool.false_and, Bool.false_eq_true, if_false] at hr
      simp at hr; subst hr
      exact fun q hq => (deadlineFired_send_leaves st p' hp'm hN q hq).2
    · rename_i hnd
      simp at hr; subst hr
      refine ⟨⟨hN, hR⟩, fun hg => hg, ?_⟩
      intro e
      have := hsame e
      subst this
      rw [hd] at hnd
      cases hnd
  · rename_i _ _ hnoneR hnoneS
    simp at hr; subst hr
    refine ⟨⟨hN, hR⟩, fun hg => hg, ?_⟩
    intro e q hq hqc
    have := List.find?_eq_none.mp hnoneS q hq
    simp [hqc, e] at this

theorem deadlineRound_spec (s : State) (hs : N none s) (now : Nat) (p : Parked) (hp : p ∈ s.parkedSend) (t : Timer)
    (hd : p.deadline = some t) (hdue : t.tmax + t.period + slack ≤ now) :
    ∀ (calls : List Nat) (acc : List (State × List (Nat × Ev))), (∀ st ∈ acc, Pre s st) →
      ∀ r ∈ calls.foldl (fun acc call => acc.flatMap (stepCall now call)) acc,
        Pre s r ∧ ((p.call ∈ calls ∨ ∀ st ∈ acc, Gone p.call st.1) → Gone p.call r.1) := by
  intro calls
  induction calls with
  | nil =>
    intro acc h r hr
    refine ⟨h r hr, ?_⟩
    intro hor
    rcases hor with hin | hall
    · simp at hin
    · exact hall r hr
  | cons a tl ih =>
    intro acc h r hr
    simp only [List.foldl_cons] at hr
    have hpre' : ∀ st ∈ acc.flatMap (stepCall now a), Pre s st := by
      intro st hst
      simp only [List.mem_flatMap] at hst
      obtain ⟨st0, hst0, hst⟩ := hst
      exact (stepCall_spec s hs now p hp t hd hdue a st0 (h st0 hst0) st hst).1
    obtain ⟨hpr, himp⟩ := ih _ hpre' r hr
    refine ⟨hpr, ?_⟩
    intro hor
    apply himp
    rcases hor with hin | hall
    · simp only [List.mem_cons] at hin
      rcases hin with rfl | hin
      · right
        intro st hst
        simp only [List.mem_flatMap] at hst
        obtain ⟨st0, hst0, hst⟩ := hst
        exact (stepCall_spec s hs now p hp t hd hdue p.call st0 (h st0 hst0) st hst).2.2 rfl
      · left; exact hin
    · right
      intro st hst
      simp only [List.mem_flatMap] at hst
      obtain ⟨st0, hst0, hst⟩ := hst
      exact (stepCall_spec s hs now p hp t hd hdue a st0 (h st0 hst0) st hst).2.1 (hall st0 hst0)

/-- **an overdue Send deadline has been delivered**: in every reachable state, a parked Send whose deadline is overdue
    by more than the slack is parked in no outcome of the timer processing — whichever other deadlines and retry timers
    fire with it and in whatever order -/
theorem overdue_send_is_woken (s : State) (hs : Reach s) (now : Nat) (p : Parked) (hp : p ∈ s.parkedSend) (t : Timer)
    (hd : p.deadline = some t) (hdue : t.tmax + t.period + slack ≤ now) :
    ∀ st ∈ timerOutcomes s now, ∀ q ∈ st.1.parkedSend, q.call ≠ p.call := by
  have hN := reach_N s hs
  intro st hst
  unfold timerOutcomes at hst
  simp only [] at hst
  have h0 : ∀ st ∈ dedup (deadlineRound now [(s, [])] (s.parkedRecv.map (·.call) ++ s.parkedSend.map (·.call))), Gone p.call st.1 := by
    intro st hst
    have hst' := mem_dedup _ st hst
    rw [deadlineRound_eq] at hst'
    have := deadlineRound_spec s hN now p hp t hd hdue _ [(s, [])] (by
      intro b hb; simp at hb; subst hb; exact ⟨hN, fun q hq => hq⟩) st hst'
    apply this.2
    left
    simp only [List.mem_append, List.mem_map]
    exact Or.inr ⟨p, hp, rfl⟩
  have h1 := fun st hst => timerRound_gone p.call now _ (s.ctxs.map (·.id)) h0 st (mem_dedup _ st hst)
  have h2 := fun st hst => timerRound_gone p.call now _ (s.ctxs.map (·.id)) h1 st (mem_dedup _ st hst)
  have h3 := fun st hst => timerRound_gone p.call now _ (s.ctxs.map (·.id)) h2 st (mem_dedup _ st hst)
  have h4 := fun st hst => timerRound_gone p.call now _ (s.ctxs.map (·.id)) h3 st (mem_dedup _ st hst)
  exact h4 st (List.mem_of_mem_take hst)

end Req
end Proto
end Model
