import Model.Proto.Surveyor
namespace Model
namespace Proto
namespace Surveyor

/-- every queued response carries the id of the survey whose queue it is in, and every response ever
    delivered carried the id of the survey that was the context's current one when that Recv began -/
def Inv (s : State) : Prop :=
  (∀ v ∈ s.surveys, ∀ m ∈ v.q, beDec m.1 = enc v.id) ∧ (∀ d ∈ s.delivered, d.2.1 = d.2.2)

theorem inv_of_eq (s s' : State) (h : Inv s) (h1 : s'.surveys = s.surveys) (h2 : s'.delivered = s.delivered) : Inv s' := by
  unfold Inv; rw [h1, h2]; exact h

theorem cancel_inv (s : State) (id : Nat) (e : String) (h : Inv s) : Inv (cancel s id e).1 := by
  refine ⟨?_, h.2⟩
  intro v hv
  simp only [cancel, List.mem_filter] at hv
  exact h.1 v hv.1

theorem expire_inv (s : State) (now : Nat) (h : Inv s) : ∀ st ∈ expireOutcomes s now, Inv st.1 := by
  unfold expireOutcomes
  have key : ∀ (l : List Survey) (acc : List (State × List (Nat × Ev))), (∀ st ∈ acc, Inv st.1) →
      ∀ st ∈ l.foldl (fun (acc : List (State × List (Nat × Ev))) v =>
        let mayFire := v.expire != 0 && decide (v.tmin + v.expire ≤ now)
        let mustFire := v.expire != 0 && decide (v.tmax + v.expire + slack ≤ now)
        acc.flatMap (fun (st : State × List (Nat × Ev)) =>
          let fired := let r := cancel st.1 v.id "protostate"; (r.1, st.2 ++ r.2)
          if mustFire then [fired] else if mayFire then [st, fired] else [st])) acc, Inv st.1 := by
    intro l
    induction l with
    | nil => intro acc hacc st hst; exact hacc st hst
    | cons v vs ih =>
      intro acc hacc
      simp only [List.foldl_cons]
      apply ih
      intro st hst
      simp only [List.mem_flatMap] at hst
      obtain ⟨st0, hst0, hst⟩ := hst
      have h0 := hacc st0 hst0
      split at hst
      · simp at hst; subst hst; exact (cancel_inv st0.1 v.id "protostate" h0)
      · split at hst
        · simp at hst
          rcases hst with rfl | rfl
          · exact h0
          · exact (cancel_inv st0.1 v.id "protostate" h0)
        · simp at hst; subst hst; exact h0
  exact key s.surveys [(s, [])] (by intro st hst; simp at hst; subst hst; exact h)

theorem getSurvey_spec (s : State) (id : Nat) (v : Survey) (h : getSurvey s id = some v) : v ∈ s.surveys ∧ v.id = id := by
  unfold getSurvey at h
  exact ⟨List.mem_of_find?_eq_some h, by simpa using List.find?_some h⟩

theorem setCtx_inv (s : State) (id : Nat) (f : Ctx → Ctx) (h : Inv s) : Inv (setCtx s id f) :=
  inv_of_eq s _ h rfl rfl

theorem core_inv (s : State) (now : Nat) (op : List String) (h : Inv s) : ∀ r ∈ core s now op, Inv r.1 := by
  intro r hr
  unfold core at hr
  split at hr
  · split at hr <;> simp at hr <;> subst hr
    · exact h
    · exact inv_of_eq s _ h rfl rfl
  · simp at hr; subst hr; exact inv_of_eq s _ h rfl rfl
  · -- inject
    try simp only [] at hr
    split at hr
    · simp at hr; subst hr; exact h
    · split at hr
      · simp at hr; subst hr; exact h
      · rename_i v hfind
        have hvmem : v ∈ s.surveys := List.mem_of_find?_eq_some hfind
        have hvid := List.find?_some hfind
        simp only [beq_iff_eq] at hvid
        try simp only [] at hr
        split at hr
        · rename_i call ctx sid hp
          simp at hr; subst hr
          refine ⟨h.1, ?_⟩
          intro d hd
          simp only [List.mem_append, List.mem_singleton] at hd
          rcases hd with hd | rfl
          · exact h.2 d hd
          · have : sid = v.id := by simpa using List.find?_some hp
            simp only [this, hvid]
        · split at hr
          · simp at hr; subst hr
            refine ⟨?_, h.2⟩
            intro w hw m hm
            simp only [List.mem_map] at hw
            obtain ⟨w0, hw0, rfl⟩ := hw
            by_cases heq : w0.id = v.id
            · rw [if_pos heq] at hm ⊢
              simp only [List.mem_append, List.mem_singleton] at hm
              rcases hm with hm | rfl
              · exact h.1 w0 hw0 m hm
              · simp only [heq, hvid]
            · rw [if_neg heq] at hm ⊢
              exact h.1 w0 hw0 m hm
          · simp at hr; subst hr; exact h
  · -- send
    try simp only [] at hr
    split at hr
    · simp at hr
    · split at hr
      · simp at hr; subst hr; exact inv_of_eq s _ h rfl rfl
      · rename_i c _ _
        have hs0 : Inv { s with nsent := s.nsent + 1 } := inv_of_eq s _ h rfl rfl
        have hs1 : Inv (match c.surv with
            | some old => cancel { s with nsent := s.nsent + 1 } old "canceled"
            | none => ({ s with nsent := s.nsent + 1 }, [])).1 := by
          split
          · exact cancel_inv _ _ _ hs0
          · exact hs0
        try simp only [] at hr
        simp at hr; subst hr
        refine ⟨?_, hs1.2⟩
        intro v hv m hm
        simp only [setCtx, List.mem_append, List.mem_singleton] at hv
        rcases hv with hv | rfl
        · exact hs1.1 v hv m hm
        · simp at hm
  · -- recv
    try simp only [] at hr
    split at hr
    · simp at hr; subst hr; exact h
    · split at hr
      · simp at hr
      · split at hr
        · simp at hr; subst hr; exact h
        · split at hr
          · simp at hr; subst hr; exact h
          · rename_i _ sid _ _ v hget
            obtain ⟨hvmem, hvid⟩ := getSurvey_spec s sid v hget
            split at hr
            · rename_i m q hq
              simp at hr; subst hr
              refine ⟨?_, ?_⟩
              · intro w hw x hx
                simp only [List.mem_map] at hw
                obtain ⟨w0, hw0, rfl⟩ := hw
                by_cases heq : w0.id = sid
                · rw [if_pos heq] at hx ⊢
                  have hxq : x ∈ v.q := by rw [hq]; exact List.mem_cons_of_mem _ hx
                  have := h.1 v hvmem x hxq
                  rw [hvid] at this
                  simpa [heq] using this
                · rw [if_neg heq] at hx ⊢
                  exact h.1 w0 hw0 x hx
              · intro d hd
                simp only [List.mem_append, List.mem_singleton] at hd
                rcases hd with hd | rfl
                · exact h.2 d hd
                · have := h.1 v hvmem m (by rw [hq]; simp)
                  simp only [this, hvid]
            · simp at hr; subst hr; exact inv_of_eq s _ h rfl rfl
  · simp at hr; subst hr; exact setCtx_inv _ _ _ h
  · simp at hr; subst hr; exact setCtx_inv _ _ _ h
  · simp at hr; subst hr; exact inv_of_eq s _ h rfl rfl
  · simp at hr; subst hr; exact inv_of_eq s _ h rfl rfl
  · split at hr
    · simp at hr
    · try simp only [] at hr
      simp at hr; subst hr; exact inv_of_eq s _ h rfl rfl
  · simp at hr; subst hr; exact inv_of_eq s _ h rfl rfl
  · split at hr
    · simp at hr; subst hr; exact h
    · split at hr
      · simp at hr
      · simp at hr; subst hr; exact inv_of_eq s _ h rfl rfl
  · -- closectx
    split at hr
    · simp at hr
    · split at hr
      · simp at hr; subst hr; exact h
      · try simp only [] at hr
        simp at hr; subst hr
        apply setCtx_inv
        split
        · exact cancel_inv _ _ _ (inv_of_eq s _ h rfl rfl)
        · exact inv_of_eq s _ h rfl rfl
  · simp at hr; subst hr; exact h
  · split at hr
    · simp at hr; subst hr; exact h
    · try simp only [] at hr
      simp at hr; subst hr
      exact ⟨by intro v hv; simp at hv, h.2⟩
  · simp at hr

theorem step_inv (s : State) (op : List String) (h : Inv s) : ∀ o ∈ step s op, Inv o.1 := by
  intro o ho
  simp only [step, List.mem_flatMap, List.mem_map] at ho
  obtain ⟨st, hst, r, hr, r2, hr2, rfl⟩ := ho
  exact expire_inv { r.1 with tprev := opTime op } _ (inv_of_eq r.1 _ (core_inv st.1 _ _ (expire_inv s _ h st hst) r hr) rfl rfl) r2 hr2

inductive Reach : State → Prop
  | init : Reach init
  | step (s : State) (op : List String) (o : State × List Ev) : Reach s → o ∈ step s op → Reach o.1

theorem reach_inv (s : State) (h : Reach s) : Inv s := by
  induction h with
  | init => simp [Inv, init]
  | step s op o _ ho ih => exact step_inv s op ih o ho

end Surveyor
end Proto
end Model
