/-
  Model/Proto/Push.lean — XPUSH / PUSH (protocol/xpush/xpush.go): one send queue, a FIFO of ready pipes;
  the socket's sender pairs the head message with the head ready pipe; a pipe becomes ready again only
  after its send has returned.
-/
import Model.Proto.Fanout
namespace Model
namespace Proto
namespace Push

structure Pipe where
  id : Nat
  hold : Bool := false
  inflight : Option Msg := none
deriving Repr, BEq

structure State where
  sendQ : List Msg := []
  sendCap : Nat := 128
  readyQ : List Nat := []
  pipes : List Pipe := []
  parkedSend : List (Nat × Msg) := []
  bestEffort : Bool := false
  failNoPeers : Bool := false
  closed : Bool := false
  -- ghost history: what entered the send queue; which pipe each message was handed to
  enq : List Msg := []
  handed : List (Nat × Msg) := []
deriving Repr, BEq

def init : State := {}

def getPipe (s : State) (id : Nat) : Option Pipe := s.pipes.find? (fun p => p.id = id)
def setPipe (s : State) (id : Nat) (f : Pipe → Pipe) : State :=
  { s with pipes := s.pipes.map (fun p => if p.id = id then f p else p) }

def progress (s : State) : Option (State × List (Nat × Ev)) :=
  match s.readyQ, s.sendQ with
  | p :: ready, m :: q =>
    -- the scheduler only runs when len(sendQ) ≠ 0
    match getPipe s p with
    | none => some ({ s with readyQ := ready }, [])
    | some pp =>
      if pp.hold then some (setPipe { s with readyQ := ready, sendQ := q, handed := s.handed ++ [(p, m)] } p (fun x => { x with inflight := some m }), [])
      else some ({ s with readyQ := ready ++ [p], sendQ := q, handed := s.handed ++ [(p, m)] }, [(p, Ev.tx p m.1 m.2)])
  | _, _ =>
    match s.parkedSend with
    | (call, m) :: rest =>
      if s.sendQ.length < s.sendCap then some ({ s with parkedSend := rest, sendQ := s.sendQ ++ [m], enq := s.enq ++ [m] }, [(call, Ev.retErr call "ok")])
      else none
    | [] => none

def settle : Nat → State → State × List (Nat × Ev)
  | 0, s => (s, [])
  | fuel+1, s =>
    match progress s with
    | none => (s, [])
    | some (s', evs) =>
      let (s'', evs') := settle fuel s'
      (s'', evs ++ evs')

def settled (s : State) (pre : List Ev) (evs : List (Nat × Ev)) : State × List Ev :=
  let (s', more) := settle (3 * (s.sendQ.length + s.parkedSend.length) + 8) s
  (s', pre ++ sortByKey (evs ++ more))

def dropPipe (s : State) (p : Nat) : State × List (Nat × Ev) :=
  let s1 := { s with pipes := s.pipes.filter (fun x => x.id != p), readyQ := s.readyQ.filter (· != p) }
  if s1.failNoPeers && s1.pipes.isEmpty then
    ({ s1 with parkedSend := [] }, s.parkedSend.map (fun c => (c.1, Ev.retErr c.1 "nopeers")))
  else (s1, [])

def step (s : State) (op : List String) : List (State × List Ev) :=
  match op with
  | ["addpipe", p] =>
    if s.closed then [(s, [Ev.res "closed"])]
    else [settled { s with pipes := s.pipes ++ [{ id := natOf p }], readyQ := s.readyQ ++ [natOf p] } [Ev.res "ok"] []]
  | ["rmpipe", p] =>
    let (s', evs) := dropPipe s (natOf p)
    [settled s' [] ((natOf p, Ev.closed (natOf p)) :: evs)]
  | ["inject", _, _] => [(s, [])]
  | ["send", call, _, h, b] =>
    let call := natOf call
    let m : Msg := (bytesOf h, bytesOf b)
    if s.closed then [(s, [Ev.retErr call "closed"])] else
    if s.failNoPeers && s.pipes.isEmpty then [(s, [Ev.retErr call "nopeers"])] else
    let room := s.sendQ.length < s.sendCap
    if s.bestEffort then
      let dropped := (s, [Ev.retErr call "ok"])
      if room then [settled { s with sendQ := s.sendQ ++ [m], enq := s.enq ++ [m] } [] [(call, Ev.retErr call "ok")], dropped] else [dropped]
    else if room then [settled { s with sendQ := s.sendQ ++ [m], enq := s.enq ++ [m] } [] [(call, Ev.retErr call "ok")]]
    else [({ s with parkedSend := s.parkedSend ++ [(call, m)] }, [])]
  | ["recv", call, _] => [(s, [Ev.retErr (natOf call) "protoop"])]
  | ["setopt", _, "BEST-EFFORT", v] => [({ s with bestEffort := v == "true" }, [Ev.res "ok"])]
  | ["setopt", _, "FAIL-NO-PEERS", v] => [({ s with failNoPeers := v == "true" }, [Ev.res "ok"])]
  | ["setopt", _, "WRITEQ-LEN", n] =>
    -- the old queue is drained into the new one; Sends blocked on the old queue complete as it is drained
    let all := s.sendQ ++ s.parkedSend.map (·.2)
    let evs := s.parkedSend.map (fun c => (c.1, Ev.retErr c.1 "ok"))
    [settled { s with sendQ := all.take (natOf n), sendCap := natOf n, parkedSend := [], enq := s.enq ++ s.parkedSend.map (·.2) } [Ev.res "ok"] evs]
  | ["hold", p, v] => [(setPipe s (natOf p) (fun x => { x with hold := v == "1" }), [])]
  | ["release", p, "ok"] =>
    match getPipe s (natOf p) with
    | some pp =>
      match pp.inflight with
      | some m =>
        let s1 := setPipe s pp.id (fun x => { x with inflight := none })
        let s2 := if s1.closed then s1 else { s1 with readyQ := s1.readyQ ++ [pp.id] }
        [settled s2 [] [(pp.id, Ev.tx pp.id m.1 m.2)]]
      | none => []
    | none => []
  | ["release", p, "err"] =>
    let (s', evs) := dropPipe s (natOf p)
    [settled s' [] ((natOf p, Ev.closed (natOf p)) :: evs)]
  | ["openctx", _] => [(s, [Ev.res "protoop"])]
  | ["close"] =>
    if s.closed then [(s, [Ev.res "closed"])] else
    let evs := s.parkedSend.map (fun c => (c.1, Ev.retErr c.1 "closed"))
    [({ s with closed := true, parkedSend := [] }, Ev.res "ok" :: sortByKey evs)]
  | _ => []

end Push
end Proto
end Model
