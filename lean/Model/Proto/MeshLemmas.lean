import Model.Proto.Mesh
namespace Model
namespace Proto

/-- every event of a fan-out is a transmission of exactly the message to a selected pipe -/
theorem fanout_events (ps : List OutPipe) (sel : OutPipe → Bool) (m : Msg) :
    ∀ e ∈ (fanout ps sel m).2, ∃ p ∈ ps, sel p = true ∧ e = (p.id, Ev.tx p.id m.1 m.2) := by
  intro e he
  simp only [fanout, List.mem_flatMap, List.mem_map] at he
  obtain ⟨_, ⟨p, hp, rfl⟩, he⟩ := he
  by_cases hs : sel p = true
  · simp only [hs, if_true] at he
    unfold OutPipe.offer at he
    split at he
    · split at he
      · simp at he
      · simp at he; exact ⟨p, hp, hs, he⟩
    · split at he <;> simp at he
  · simp [hs] at he

/-- every selected idle pipe gets exactly the message -/
theorem fanout_idle (ps : List OutPipe) (sel : OutPipe → Bool) (m : Msg) (p : OutPipe) (hp : p ∈ ps)
    (hs : sel p = true) (hi : p.inflight = none) (hh : p.hold = false) :
    (p.id, Ev.tx p.id m.1 m.2) ∈ (fanout ps sel m).2 := by
  simp only [fanout, List.mem_flatMap, List.mem_map]
  refine ⟨_, ⟨p, hp, rfl⟩, ?_⟩
  simp [hs, OutPipe.offer, hi, hh]

/-- a pipe that is not selected is left exactly as it was -/
theorem fanout_unselected (ps : List OutPipe) (sel : OutPipe → Bool) (m : Msg) :
    (fanout ps sel m).1 = ps.map (fun p => if sel p then (p.offer m).1 else p) := by
  simp only [fanout, List.map_map]
  apply List.map_congr_left
  intro p _
  simp only [Function.comp]
  split <;> rfl

/-! ### loop-free STAR topologies: flooding reaches every member exactly once -/

/-- a forest in first-child / next-sibling form: `cons id children siblings` -/
inductive Forest where
  | nil
  | cons (id : Nat) (children : Forest) (siblings : Forest)

namespace Forest

def roots : Forest → List Nat
  | nil => []
  | cons id _ sib => id :: roots sib

def ids : Forest → List Nat
  | nil => []
  | cons id ch sib => id :: (ids ch ++ ids sib)

/-- the forwarding rule of one STAR member: every neighbour except the one it came from -/
def fwd (neighbours : List Nat) (src : Nat) : List Nat := neighbours.filter (fun n => n != src)

/-- members reached when `parent` hands the message to its neighbours `targets` among the trees of the forest;
    each member that receives it forwards by `fwd` to its own neighbours (its parent and its children) -/
def flood (targets : List Nat) (parent : Nat) : Forest → List Nat
  | nil => []
  | cons id ch sib =>
    (if targets.contains id then id :: flood (fwd (parent :: roots ch) parent) id ch else [])
      ++ flood targets parent sib

theorem roots_sub_ids (f : Forest) : ∀ r ∈ roots f, r ∈ ids f := by
  induction f with
  | nil => intro r hr; simp [roots] at hr
  | cons id ch sib _ ihs =>
    intro r hr
    simp only [roots, List.mem_cons] at hr
    simp only [ids, List.mem_cons, List.mem_append]
    rcases hr with rfl | hr
    · exact Or.inl rfl
    · exact Or.inr (Or.inr (ihs r hr))

/-- in a loop-free topology whose member ids are pairwise distinct, a message handed by `parent` to all the
    top-level members of the forest reaches every member of the forest, in preorder, each exactly once -/
theorem flood_all (f : Forest) : ∀ (targets : List Nat) (parent : Nat), (parent :: ids f).Nodup →
    (∀ r ∈ roots f, r ∈ targets) → flood targets parent f = ids f := by
  induction f with
  | nil => intro _ _ _ _; rfl
  | cons id ch sib ihc ihs =>
    intro targets parent hnd hsub
    have hid : targets.contains id = true := by
      simp only [List.contains_iff_mem]
      exact hsub id (by simp [roots])
    simp only [ids, List.nodup_cons, List.mem_cons, List.mem_append, not_or, List.nodup_append] at hnd
    obtain ⟨⟨hpi, hpc, hps⟩, ⟨hic, his⟩, hcn, hsn, hdisj⟩ := hnd
    have hch : ∀ r ∈ roots ch, r ∈ fwd (parent :: roots ch) parent := by
      intro r hr
      simp only [fwd, List.mem_filter, List.mem_cons, bne_iff_ne, ne_eq]
      refine ⟨Or.inr hr, ?_⟩
      intro e
      exact hpc (e ▸ roots_sub_ids ch r hr)
    have hndc : (id :: ids ch).Nodup := List.nodup_cons.mpr ⟨hic, hcn⟩
    have hnds : (parent :: ids sib).Nodup := List.nodup_cons.mpr ⟨hps, hsn⟩
    simp only [flood, hid, if_true, ids]
    rw [ihc _ id hndc hch, ihs targets parent hnds (fun r hr => hsub r (by simp [roots, hr]))]
    simp

/-- nobody receives twice and the sender does not receive its own message -/
theorem flood_exactly_once (f : Forest) (sender : Nat) (h : (sender :: ids f).Nodup) :
    (flood (roots f) sender f).Nodup ∧ sender ∉ flood (roots f) sender f ∧ ∀ m ∈ ids f, m ∈ flood (roots f) sender f := by
  rw [flood_all f (roots f) sender h (fun r hr => hr)]
  exact ⟨(List.nodup_cons.mp h).2, (List.nodup_cons.mp h).1, fun m hm => hm⟩

end Forest
end Proto
end Model
