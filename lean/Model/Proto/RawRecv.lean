/-
  Model/Proto/RawRecv.lean — the receive side of the raw request-id sockets XREQ and XSURVEYOR
  (protocol/xreq/xreq.go, protocol/xsurveyor/xsurveyor.go: `pipe.receiver`, `RecvMsg`, `SetOption(READQ-LEN)`, `Close`),
  the sockets devices are made of.  Every pipe's receiver goroutine reads a message, discards it when it is too short
  to carry a request id, makes its first four bytes the header, and offers it to the one shared receive queue, holding
  it while the queue is full.  A READQ-LEN change replaces the queue by an empty one of the new length: what was queued
  is gone, and every receiver drops the message it was holding (`case <-sizeQ: m.Free()`).  This is not XPULL
  (`Model/Proto/Pull.lean`), where queued messages move to the new queue and receivers retry.

  Ghost state: `rin`, every message read from a pipe (with the pipe), in reading order; `rout`, what Recv returned.

  Proved over every history (`reach_inv`): what Recv returned, followed by what is queued, followed by what the
  receivers hold, is — after gluing header and body together again — in order part of what was read from the pipes,
  and every one of those headers is exactly four bytes long.  So a message is delivered at most once, in arrival order
  (per connection: in the peer's send order), split exactly at byte four, nothing is invented; messages are lost only
  to a queue-length change, the removal of their pipe, or for being shorter than four bytes.
-/
import Model.Proto.Fanout
namespace Model
namespace Proto
namespace RawRecv

structure State where
  recvQ : List (Nat × Msg) := []      -- (pipe it came from, message)
  recvCap : Nat := 128
  pipes : List Nat := []
  held : List (Nat × Msg) := []          -- receivers holding a message for the full queue, in the order they blocked
  backlog : List (Nat × Bytes) := []     -- sent by peers, not yet read by the receivers (arrival order)
  parkedRecv : List Nat := []
  closed : Bool := false
  idLen : Nat := 4                       -- bytes of the body that become the header (XREQ, XSURVEYOR: 4; XSUB: 0)
  holds : Bool := true                   -- a receiver keeps its message while the queue is full (XSUB: drops it)
  -- ghost history: what the receivers read from each pipe; what Recv returned
  rin : List (Nat × Bytes) := []
  rout : List (Nat × Msg) := []
deriving Repr, BEq

def init : State := {}
/-- XSUB (protocol/xsub): nothing is split off, and a message that finds the queue full is dropped at once -/
def initSub : State := { idLen := 0, holds := false }

/-- a receiver that holds nothing reads the next message of its pipe -/
def nextBacklog (s : State) : Option (State × List (Nat × Ev)) :=
  match s.backlog.find? (fun pb => !(s.held.any (fun x => x.1 == pb.1))) with
  | some (p, b) =>
    if b.length < s.idLen then some ({ s with backlog := s.backlog.erase (p, b), rin := s.rin ++ [(p, b)] }, [])
    else some ({ s with backlog := s.backlog.erase (p, b), rin := s.rin ++ [(p, b)],
                        held := s.held ++ [(p, (b.take s.idLen, b.drop s.idLen))] }, [])
  | none => none

def progress (s : State) : Option (State × List (Nat × Ev)) :=
  match s.parkedRecv, s.recvQ with
  | call :: rest, m :: q => some ({ s with parkedRecv := rest, recvQ := q, rout := s.rout ++ [m] }, [(call, Ev.retMsg call m.2.1 m.2.2)])
  | _, _ =>
  match s.held with
  | (p, m) :: bl =>
    match s.parkedRecv with
    | call :: rest => some ({ s with parkedRecv := rest, held := bl, rout := s.rout ++ [(p, m)] }, [(call, Ev.retMsg call m.1 m.2)])
    | [] => if s.recvQ.length < s.recvCap then some ({ s with recvQ := s.recvQ ++ [(p, m)], held := bl }, [])
            else if s.holds then nextBacklog s else some ({ s with held := bl }, [])
  | [] => nextBacklog s

def settle : Nat → State → State × List (Nat × Ev)
  | 0, s => (s, [])
  | fuel+1, s =>
    match progress s with
    | none => (s, [])
    | some (s', evs) =>
      let (s'', evs') := settle fuel s'
      (s'', evs ++ evs')

def settled (s : State) (pre : List Ev) (evs : List (Nat × Ev)) : State × List Ev :=
  let (s', more) := settle (4 * (s.recvQ.length + s.held.length + s.backlog.length + s.parkedRecv.length) + 8) s
  (s', pre ++ sortByKey (evs ++ more))

def step (s : State) (op : List String) : List (State × List Ev) :=
  match op with
  | ["addpipe", p] =>
    if s.closed then [(s, [Ev.res "closed"])] else [({ s with pipes := s.pipes ++ [natOf p] }, [Ev.res "ok"])]
  | ["rmpipe", p] =>
    let p := natOf p
    [settled { s with pipes := s.pipes.erase p, held := s.held.filter (fun x => x.1 != p),
                      backlog := s.backlog.filter (fun x => x.1 != p) } [] [(p, Ev.closed p)]]
  | ["inject", p, b] =>
    if s.pipes.contains (natOf p) then [settled { s with backlog := s.backlog ++ [(natOf p, bytesOf b)] } [] []] else [(s, [])]
  | ["recv", call, _] =>
    let call := natOf call
    if s.closed then
      match s.recvQ with
      | [] => [(s, [Ev.retErr call "closed"])]
      | m :: q => [(s, [Ev.retErr call "closed"]), settled { s with recvQ := q, rout := s.rout ++ [m] } [] [(call, Ev.retMsg call m.2.1 m.2.2)]]
    else [settled { s with parkedRecv := s.parkedRecv ++ [call] } [] []]
  | ["setopt", _, "READQ-LEN", n] =>
    -- a new, empty queue; the receivers drop what they were holding
    [settled { s with recvQ := [], held := [], recvCap := natOf n } [Ev.res "ok"] []]
  | ["openctx", _] => [(s, [Ev.res "protoop"])]
  | ["close"] =>
    if s.closed then [(s, [Ev.res "closed"])] else
    let evs := s.parkedRecv.map (fun c => (c, Ev.retErr c "closed"))
    [({ s with closed := true, parkedRecv := [] }, Ev.res "ok" :: sortByKey evs)]
  | _ => []

inductive Reach : State → Prop
 | init : Reach init
 | initSub : Reach initSub
 | step (s : State) (op : List String) (r : State × List Ev) : Reach s → r ∈ step s op → Reach r.1

/-- header and body glued together again, with the pipe -/
def glue (x : Nat × Msg) : Nat × Bytes := (x.1, x.2.1 ++ x.2.2)

/-- the line of messages from the oldest returned to the most recently read -/
def line (s : State) : List (Nat × Msg) := s.rout ++ s.recvQ ++ s.held

structure Inv (s : State) : Prop where
  order : ((line s).map glue).Sublist s.rin
  hdr4 : ∀ x ∈ line s, x.2.1.length = s.idLen

theorem init_inv : Inv init := ⟨by simp [init, line], by simp [init, line]⟩
theorem initSub_inv : Inv initSub := ⟨by simp [initSub, line], by simp [initSub, line]⟩

theorem nextBacklog_inv (s : State) (h : Inv s) (s' : State) (evs) (hp : nextBacklog s = some (s', evs)) : Inv s' := by
  unfold nextBacklog at hp
  split at hp
  · rename_i p b _
    split at hp
    · simp only [Option.some.injEq, Prod.mk.injEq] at hp
      obtain ⟨rfl, _⟩ := hp
      refine ⟨?_, h.hdr4⟩
      have := h.order
      simp only [line] at this ⊢
      exact this.trans (List.sublist_append_left _ _)
    · rename_i hlen
      simp only [Option.some.injEq, Prod.mk.injEq] at hp
      obtain ⟨rfl, _⟩ := hp
      have hl : s.idLen ≤ b.length := by omega
      constructor
      · have h1 := List.Sublist.append h.order (List.Sublist.refl [((p, b) : Nat × Bytes)])
        have hg : glue (p, (b.take s.idLen, b.drop s.idLen)) = (p, b) := by simp [glue]
        simp only [line, List.map_append, List.map_cons, List.map_nil, hg] at h1 ⊢
        simpa [List.append_assoc] using h1
      · intro x hx
        simp only [line, List.mem_append, List.mem_singleton] at hx
        rcases hx with (hx | hx) | hx | rfl
        · exact h.hdr4 x (by simp [line, hx])
        · exact h.hdr4 x (by simp [line, hx])
        · exact h.hdr4 x (by simp [line, hx])
        · simp only [List.length_take]; omega
  · simp at hp

theorem progress_inv (s : State) (h : Inv s) (s' : State) (evs) (hp : progress s = some (s', evs)) : Inv s' := by
  unfold progress at hp
  split at hp
  · rename_i call rest m q hpr hq
    simp only [Option.some.injEq, Prod.mk.injEq] at hp
    obtain ⟨rfl, _⟩ := hp
    have e : line { s with parkedRecv := rest, recvQ := q, rout := s.rout ++ [m] } = line s := by
      simp [line, hq, List.append_assoc]
    exact ⟨by rw [e]; exact h.order, by rw [e]; exact h.hdr4⟩
  · rename_i hno
    split at hp
    · rename_i p m bl hbl
      split at hp
      · rename_i call rest hpr
        simp only [Option.some.injEq, Prod.mk.injEq] at hp
        obtain ⟨rfl, _⟩ := hp
        have hq : s.recvQ = [] := by
          cases hrq : s.recvQ with
          | nil => rfl
          | cons x xs => exact absurd hrq (by intro hh; exact hno call rest x xs hpr hh)
        have e : line { s with parkedRecv := rest, held := bl, rout := s.rout ++ [(p, m)] } = line s := by
          simp [line, hq, hbl, List.append_assoc]
        exact ⟨by rw [e]; exact h.order, by rw [e]; exact h.hdr4⟩
      · split at hp
        · simp only [Option.some.injEq, Prod.mk.injEq] at hp
          obtain ⟨rfl, _⟩ := hp
          have e : line { s with recvQ := s.recvQ ++ [(p, m)], held := bl } = line s := by
            simp [line, hbl, List.append_assoc]
          exact ⟨by rw [e]; exact h.order, by rw [e]; exact h.hdr4⟩
        · split at hp
          · exact nextBacklog_inv s h s' evs hp
          · simp only [Option.some.injEq, Prod.mk.injEq] at hp
            obtain ⟨rfl, _⟩ := hp
            have hl : (line { s with held := bl }).Sublist (line s) := by
              simp only [line, hbl]
              exact List.Sublist.append (List.Sublist.refl _) (List.sublist_cons_self _ _)
            exact ⟨(hl.map glue).trans h.order, fun x hx => h.hdr4 x (hl.subset hx)⟩
    · exact nextBacklog_inv s h s' evs hp

theorem settle_inv (fuel : Nat) (s : State) (h : Inv s) : Inv (settle fuel s).1 := by
  induction fuel generalizing s with
  | zero => simpa [settle] using h
  | succ n ih =>
    simp only [settle]
    cases hp : progress s with
    | none => simpa using h
    | some r =>
      obtain ⟨s', evs⟩ := r
      simp only []
      exact ih s' (progress_inv s h s' evs hp)

theorem settled_inv (s : State) (pre : List Ev) (evs) (h : Inv s) : Inv (settled s pre evs).1 := by
  unfold settled
  exact settle_inv _ s h

/-- an update that only shortens the line (and leaves `rin` alone) keeps the invariant -/
theorem shrink_inv (s t : State) (h : Inv s) (hr : t.rin = s.rin) (hi : t.idLen = s.idLen) (hl : (line t).Sublist (line s)) : Inv t :=
  ⟨by rw [hr]; exact (hl.map glue).trans h.order, fun x hx => by rw [hi]; exact h.hdr4 x (hl.subset hx)⟩

theorem same_inv (s t : State) (h : Inv s) (hr : t.rin = s.rin) (hi : t.idLen = s.idLen) (hl : line t = line s) : Inv t :=
  shrink_inv s t h hr hi (by rw [hl]; exact List.Sublist.refl _)

theorem step_inv (s : State) (op : List String) (h : Inv s) : ∀ o ∈ step s op, Inv o.1 := by
  intro o ho
  unfold step at ho
  split at ho
  · split at ho <;> simp at ho <;> subst ho
    · exact h
    · exact same_inv s _ h rfl rfl rfl
  · -- rmpipe
    simp only [] at ho
    simp at ho; subst ho
    apply settled_inv
    refine shrink_inv s _ h ?_ ?_ ?_
    · rfl
    · rfl
    simp only [line]
    exact List.Sublist.append (List.Sublist.refl _) (List.filter_sublist)
  · split at ho
    · simp at ho; subst ho; exact settled_inv _ _ _ (same_inv s _ h rfl rfl rfl)
    · simp at ho; subst ho; exact h
  · -- recv
    simp only [] at ho
    split at ho
    · split at ho
      · simp at ho; subst ho; exact h
      · rename_i m q hq
        simp at ho
        rcases ho with rfl | rfl
        · exact h
        · apply settled_inv
          refine same_inv s _ h ?_ ?_ ?_
          · rfl
          · rfl
          simp [line, hq, List.append_assoc]
    · simp at ho; subst ho; exact settled_inv _ _ _ (same_inv s _ h rfl rfl rfl)
  · -- READQ-LEN
    simp at ho; subst ho
    apply settled_inv
    refine shrink_inv s _ h ?_ ?_ ?_
    · rfl
    · rfl
    simp only [line, List.append_nil]
    exact (List.sublist_append_left _ _).trans (List.sublist_append_left _ _)
  · simp at ho; subst ho; exact h
  · split at ho
    · simp at ho; subst ho; exact h
    · simp at ho; subst ho; exact same_inv s _ h rfl rfl rfl
  · simp at ho

theorem reach_inv (s : State) (h : Reach s) : Inv s := by
  induction h with
  | init => exact init_inv
  | initSub => exact initSub_inv
  | step s op o _ ho ih => exact step_inv s op ih o ho

/-! the flavour (`idLen`, `holds`) never changes -/
def sameKind (s t : State) : Prop := t.idLen = s.idLen ∧ t.holds = s.holds

theorem nextBacklog_kind (s s' : State) (evs) (hp : nextBacklog s = some (s', evs)) : sameKind s s' := by
  unfold nextBacklog at hp
  split at hp
  · split at hp <;> simp only [Option.some.injEq, Prod.mk.injEq] at hp <;> obtain ⟨rfl, _⟩ := hp <;> exact ⟨rfl, rfl⟩
  · simp at hp

theorem progress_kind (s s' : State) (evs) (hp : progress s = some (s', evs)) : sameKind s s' := by
  unfold progress at hp
  split at hp
  · simp only [Option.some.injEq, Prod.mk.injEq] at hp; obtain ⟨rfl, _⟩ := hp; exact ⟨rfl, rfl⟩
  · split at hp
    · split at hp
      · simp only [Option.some.injEq, Prod.mk.injEq] at hp; obtain ⟨rfl, _⟩ := hp; exact ⟨rfl, rfl⟩
      · split at hp
        · simp only [Option.some.injEq, Prod.mk.injEq] at hp; obtain ⟨rfl, _⟩ := hp; exact ⟨rfl, rfl⟩
        · split at hp
          · exact nextBacklog_kind s s' evs hp
          · simp only [Option.some.injEq, Prod.mk.injEq] at hp; obtain ⟨rfl, _⟩ := hp; exact ⟨rfl, rfl⟩
    · exact nextBacklog_kind s s' evs hp

theorem settle_kind (fuel : Nat) (s : State) : sameKind s (settle fuel s).1 := by
  induction fuel generalizing s with
  | zero => exact ⟨rfl, rfl⟩
  | succ n ih =>
    simp only [settle]
    cases hp : progress s with
    | none => exact ⟨rfl, rfl⟩
    | some r =>
      obtain ⟨s', evs⟩ := r
      simp only []
      have h1 := progress_kind s s' evs hp
      have h2 := ih s'
      exact ⟨h2.1.trans h1.1, h2.2.trans h1.2⟩

theorem settled_kind (s : State) (pre : List Ev) (evs) : sameKind s (settled s pre evs).1 := by
  unfold settled
  exact settle_kind _ s

theorem step_kind (s : State) (op : List String) : ∀ o ∈ step s op, sameKind s o.1 := by
  intro o ho
  unfold step at ho
  split at ho
  · split at ho <;> simp at ho <;> subst ho <;> exact ⟨rfl, rfl⟩
  · simp only [] at ho
    simp at ho; subst ho
    exact settled_kind _ _ _
  · split at ho
    · simp at ho; subst ho; exact settled_kind _ _ _
    · simp at ho; subst ho; exact ⟨rfl, rfl⟩
  · simp only [] at ho
    split at ho
    · split at ho
      · simp at ho; subst ho; exact ⟨rfl, rfl⟩
      · simp at ho
        rcases ho with rfl | rfl
        · exact ⟨rfl, rfl⟩
        · exact settled_kind _ _ _
    · simp at ho; subst ho; exact settled_kind _ _ _
  · simp at ho; subst ho
    exact settled_kind _ _ _
  · simp at ho; subst ho; exact ⟨rfl, rfl⟩
  · split at ho
    · simp at ho; subst ho; exact ⟨rfl, rfl⟩
    · simp at ho; subst ho; exact ⟨rfl, rfl⟩
  · simp at ho

/-- the states a request-id socket (XREQ, XSURVEYOR) can reach, and the ones XSUB can reach -/
inductive ReachFrom (s0 : State) : State → Prop
 | init : ReachFrom s0 s0
 | step (s : State) (op : List String) (r : State × List Ev) : ReachFrom s0 s → r ∈ step s op → ReachFrom s0 r.1

theorem reachFrom_kind (s0 s : State) (h : ReachFrom s0 s) : sameKind s0 s := by
  induction h with
  | init => exact ⟨rfl, rfl⟩
  | step s op r _ hr ih =>
    have := step_kind s op r hr
    exact ⟨this.1.trans ih.1, this.2.trans ih.2⟩

theorem reachFrom_reach (s0 s : State) (h0 : Reach s0) (h : ReachFrom s0 s) : Reach s := by
  induction h with
  | init => exact h0
  | step s op r _ hr ih => exact Reach.step s op r ih hr

end RawRecv
end Proto
end Model
