/-
  Model/Proto/Surveyor.lean — SURVEYOR (protocol/surveyor/surveyor.go): every Send starts a new survey
  (fresh id, fresh bounded response queue, expiry timer) and abandons the context's previous one; responses
  are queued only for a registered (current, unexpired) survey id.
  Time: every operation line carries the harness's monotonic clock in ms; timers never fire early and are
  required to have fired once they are overdue by more than `slack`.
-/
import Model.Proto.Fanout
namespace Model
namespace Proto
namespace Surveyor

def slack : Nat := 250

structure Survey where
  id : Nat
  ctx : Nat
  q : List Msg := []
  cap : Nat
  tmin : Nat          -- the survey started no earlier than this …
  tmax : Nat          -- … and no later than this
  expire : Nat        -- survey time in ms (0 is documented as "no limit")
deriving Repr, BEq

structure Ctx where
  id : Nat
  closed : Bool := false
  surv : Option Nat := none
  recvQLen : Nat := 128
  survTime : Nat := 1000
deriving Repr, BEq

structure State where
  ctxs : List Ctx := [{ id := 0 }]
  surveys : List Survey := []
  pipes : List OutPipe := []
  sendQLen : Nat := 128
  nsent : Nat := 0                       -- surveys started so far (ids are 0x80000000 | n)
  parked : List (Nat × Nat × Nat) := []  -- blocked Recv: (call, ctx, survey id)
  closed : Bool := false
  tprev : Nat := 0
  -- ghost: responses delivered to the application: (ctx, 32-bit id carried by the response, 32-bit id of the context's survey when Recv began)
  delivered : List (Nat × Nat × Nat) := []
  -- ghost: the survey (by number) each delivered response was delivered for
  deliveredFor : List Nat := []
deriving Repr, BEq

def init : State := {}

def getCtx (s : State) (id : Nat) : Option Ctx := s.ctxs.find? (fun c => c.id = id)
def setCtx (s : State) (id : Nat) (f : Ctx → Ctx) : State := { s with ctxs := s.ctxs.map (fun c => if c.id = id then f c else c) }
def getSurvey (s : State) (id : Nat) : Option Survey := s.surveys.find? (fun v => v.id = id)

/-- the 32-bit id of the n-th survey: request bit set, counter in the low 31 bits -/
def enc (n : Nat) : Nat := 0x80000000 + n % 0x80000000
def idBytes (n : Nat) : Bytes := beEnc 4 (enc n)

/-- survey.cancel: unregister, detach from its context, wake a Recv blocked on it with `err` -/
def cancel (s : State) (id : Nat) (err : String) : State × List (Nat × Ev) :=
  let woken := s.parked.filter (fun p => p.2.2 == id)
  ({ s with surveys := s.surveys.filter (fun v => v.id != id),
            ctxs := s.ctxs.map (fun c => if c.surv == some id then { c with surv := none } else c),
            parked := s.parked.filter (fun p => p.2.2 != id) },
   woken.map (fun p => (p.1, Ev.retErr p.1 err)))

/-- expiry of timers at time `now`: each overdue survey must have expired, each due one may have -/
def expireOutcomes (s : State) (now : Nat) : List (State × List (Nat × Ev)) :=
  s.surveys.foldl (fun (acc : List (State × List (Nat × Ev))) v =>
    -- the timer was armed between tmin and tmax for `expire` ms (0 fires at once in this implementation)
    -- a survey time of 0 means "no limit": no timer
    let mayFire := v.expire != 0 && decide (v.tmin + v.expire ≤ now)
    let mustFire := v.expire != 0 && decide (v.tmax + v.expire + slack ≤ now)
    acc.flatMap (fun (st : State × List (Nat × Ev)) =>
      let fired := let r := cancel st.1 v.id "protostate"; (r.1, st.2 ++ r.2)
      if mustFire then [fired] else if mayFire then [st, fired] else [st])) [(s, [])]

def opTime (op : List String) : Nat :=
  match op.getLast? with
  | some t => if t.startsWith "@" then natOf (t.drop 1).toString else 0
  | none => 0

def stripTime (op : List String) : List String :=
  match op.getLast? with
  | some t => if t.startsWith "@" then op.dropLast else op
  | none => op

def core (s : State) (now : Nat) (op : List String) : List (State × List Ev × List (Nat × Ev)) :=
  match op with
  | ["addpipe", p] =>
    if s.closed then [(s, [Ev.res "closed"], [])]
    else [({ s with pipes := s.pipes ++ [{ id := natOf p, cap := s.sendQLen }] }, [Ev.res "ok"], [])]
  | ["rmpipe", p] => [({ s with pipes := removePipe s.pipes (natOf p) }, [], [(natOf p, Ev.closed (natOf p))])]
  | ["inject", _, b] =>
    let body := bytesOf b
    if body.length < 4 then [(s, [], [])] else
    let id := beDec (body.take 4)
    match s.surveys.find? (fun v => enc v.id == id) with
    | none => [(s, [], [])]
    | some v =>
      let m : Msg := (body.take 4, body.drop 4)
      match s.parked.find? (fun p => p.2.2 == v.id) with
      | some (call, ctx, sid) =>
        [({ s with parked := s.parked.filter (fun p => p.1 != call), delivered := s.delivered ++ [(ctx, beDec m.1, enc sid)], deliveredFor := s.deliveredFor ++ [sid] }, [], [(call, Ev.retMsg call m.1 m.2)])]
      | none =>
        if v.q.length < v.cap then
          [({ s with surveys := s.surveys.map (fun w => if w.id == v.id then { w with q := w.q ++ [m] } else w) }, [], [])]
        else [(s, [], [])]
  | ["send", call, ctx, _, b] =>
    let call := natOf call
    let n := s.nsent + 1
    let s0 := { s with nsent := n }
    match getCtx s (natOf ctx) with
    | none => []
    | some c =>
      if s.closed || c.closed then [(s0, [], [(call, Ev.retErr call "closed")])] else
      -- abandon the previous survey of this context, start the new one, broadcast it
      let (s1, evs1) := match c.surv with
        | some old => cancel s0 old "canceled"
        | none => (s0, [])
      let sv : Survey := { id := n, ctx := c.id, cap := c.recvQLen, tmin := s.tprev, tmax := now, expire := c.survTime }
      let s2 := setCtx { s1 with surveys := s1.surveys ++ [sv] } c.id (fun x => { x with surv := some n })
      let (ps, evs2) := fanout s2.pipes (fun _ => true) (idBytes n, bytesOf b)
      [({ s2 with pipes := ps }, [], (call, Ev.retErr call "ok") :: (evs1 ++ evs2))]
  | ["recv", call, ctx] =>
    let call := natOf call
    if s.closed then [(s, [], [(call, Ev.retErr call "closed")])] else
    match getCtx s (natOf ctx) with
    | none => []
    | some c =>
      match c.surv with
      | none => [(s, [], [(call, Ev.retErr call "protostate")])]
      | some sid =>
        match getSurvey s sid with
        | none => [(s, [], [(call, Ev.retErr call "protostate")])]
        | some v =>
          match v.q with
          | m :: q =>
            [({ s with surveys := s.surveys.map (fun w => if w.id == sid then { w with q := q } else w),
                        delivered := s.delivered ++ [(c.id, beDec m.1, enc sid)], deliveredFor := s.deliveredFor ++ [sid] }, [], [(call, Ev.retMsg call m.1 m.2)])]
          | [] => [({ s with parked := s.parked ++ [(call, c.id, sid)] }, [], [])]
  | ["setopt", ctx, "SURVEY-TIME", ms] => [(setCtx s (natOf ctx) (fun c => { c with survTime := natOf ms }), [Ev.res "ok"], [])]
  | ["setopt", ctx, "READQ-LEN", n] => [(setCtx s (natOf ctx) (fun c => { c with recvQLen := natOf n }), [Ev.res "ok"], [])]
  | ["setopt", _, "WRITEQ-LEN", n] => [({ s with sendQLen := natOf n }, [Ev.res "ok"], [])]
  | ["hold", p, v] => [({ s with pipes := modifyPipe s.pipes (natOf p) (fun x => { x with hold := v == "1" }) }, [], [])]
  | ["release", p, "ok"] =>
    match findPipe s.pipes (natOf p) with
    | none => []
    | some x =>
      let (x', evs) := x.releaseOk
      [({ s with pipes := modifyPipe s.pipes x.id (fun _ => x') }, [], evs)]
  | ["release", p, "err"] => [({ s with pipes := removePipe s.pipes (natOf p) }, [], [(natOf p, Ev.closed (natOf p))])]
  | ["openctx", id] =>
    if s.closed then [(s, [Ev.res "closed"], [])] else
    match getCtx s 0 with
    | none => []
    | some m => [({ s with ctxs := s.ctxs ++ [{ id := natOf id, recvQLen := m.recvQLen, survTime := m.survTime }] }, [Ev.res "ok"], [])]
  | ["closectx", id] =>
    match getCtx s (natOf id) with
    | none => []
    | some c =>
      if c.closed then [(s, [Ev.res "closed"], [])] else
      let woken := s.parked.filter (fun p => p.2.1 == c.id)
      let s1 := { s with parked := s.parked.filter (fun p => p.2.1 != c.id) }
      let (s2, _) := match c.surv with
        | some sid => cancel s1 sid "closed"
        | none => (s1, [])
      [(setCtx s2 c.id (fun x => { x with closed := true, surv := none }), [Ev.res "ok"], woken.map (fun p => (p.1, Ev.retErr p.1 "closed")))]
  | ["sleep", _] => [(s, [], [])]
  | ["close"] =>
    if s.closed then [(s, [Ev.res "closed"], [])] else
    let evs := s.parked.map (fun p => (p.1, Ev.retErr p.1 "closed"))
    [({ s with closed := true, parked := [], surveys := [],
               ctxs := s.ctxs.map (fun c => { c with closed := true, surv := none }) }, [Ev.res "ok"], evs)]
  | _ => []

/-- one trace line: timers that are (or may be) due fire first, then the operation -/
def step (s : State) (op : List String) : List (State × List Ev) :=
  let now := opTime op
  let op' := stripTime op
  (expireOutcomes s now).flatMap (fun (st : State × List (Nat × Ev)) =>
    (core st.1 now op').flatMap (fun (r : State × List Ev × List (Nat × Ev)) =>
      -- a survey started by this very operation can already have expired if the operation (or the harness) was slow
      (expireOutcomes { r.1 with tprev := now } now).map (fun (r2 : State × List (Nat × Ev)) =>
        (r2.1, r.2.1 ++ sortByKey (st.2 ++ r.2.2 ++ r2.2)))))

end Surveyor
end Proto
end Model
