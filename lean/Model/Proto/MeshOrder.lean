/-
  Model/Proto/MeshOrder.lean — BUS / STAR: every peer's pipe is handed each copy at most once and in order, over
  every history (sends, forwarding by a STAR hub, slow and failing peers, Close).
-/
import Model.Proto.MeshQuiet
import Model.Proto.PubOrder
namespace Model
namespace Proto

theorem fanout_ord (ps : List OutPipe) (sel : OutPipe → Bool) (m : Msg) (h : ∀ p ∈ ps, p.Ord) : ∀ p ∈ (fanout ps sel m).1, p.Ord := by
  intro p hp
  simp only [fanout, List.map_map, List.mem_map, Function.comp] at hp
  obtain ⟨p0, hp0, rfl⟩ := hp
  split
  · exact OutPipe.offer_ord p0 m (h p0 hp0)
  · exact h p0 hp0

namespace Mesh

def POrd (s : State) : Prop := ∀ p ∈ s.pipes, p.Ord

theorem POrd_of (s s' : State) (h : POrd s) (hp : s'.pipes = s.pipes) : POrd s' := by
  unfold POrd; rw [hp]; exact h

theorem nextBacklog_pord (s : State) (h : POrd s) (s' : State) (evs) (hp : progress.nextBacklog s = some (s', evs)) : POrd s' := by
  unfold progress.nextBacklog at hp
  split at hp
  · simp only [] at hp
    split at hp
    · split at hp
      · simp only [Option.some.injEq, Prod.mk.injEq] at hp
        obtain ⟨rfl, _⟩ := hp
        exact POrd_of s _ h rfl
      · simp only [Option.some.injEq, Prod.mk.injEq] at hp
        obtain ⟨rfl, _⟩ := hp
        intro p hpm
        exact fanout_ord s.pipes _ _ h p hpm
    · simp only [Option.some.injEq, Prod.mk.injEq] at hp
      obtain ⟨rfl, _⟩ := hp
      exact POrd_of s _ h rfl
  · simp at hp

theorem progress_pord (s : State) (h : POrd s) (s' : State) (evs) (hp : progress s = some (s', evs)) : POrd s' := by
  unfold progress at hp
  split at hp
  · simp only [Option.some.injEq, Prod.mk.injEq] at hp
    obtain ⟨rfl, _⟩ := hp
    exact POrd_of s _ h rfl
  · split at hp
    · split at hp
      · simp only [Option.some.injEq, Prod.mk.injEq] at hp
        obtain ⟨rfl, _⟩ := hp
        exact POrd_of s _ h rfl
      · split at hp
        · simp only [Option.some.injEq, Prod.mk.injEq] at hp
          obtain ⟨rfl, _⟩ := hp
          exact POrd_of s _ h rfl
        · exact nextBacklog_pord s h s' evs hp
    · exact nextBacklog_pord s h s' evs hp

theorem settle_pord (fuel : Nat) (s : State) (h : POrd s) : POrd (settle fuel s).1 := by
  induction fuel generalizing s with
  | zero => simpa [settle] using h
  | succ n ih =>
    simp only [settle]
    cases hp : progress s with
    | none => simpa using h
    | some r =>
      obtain ⟨s', evs⟩ := r
      exact ih s' (progress_pord s h s' evs hp)

theorem settled_pord (s : State) (pre evs) (h : POrd s) : POrd (settled s pre evs).1 := by
  simp only [settled]; exact settle_pord _ s h

theorem dropPipe_pord (s : State) (p : Nat) (h : POrd s) : POrd (dropPipe s p) := by
  intro q hq
  exact h q (List.mem_filter.mp hq).1

theorem dropAll_pord (l : List Nat) : ∀ (s : State), POrd s → POrd (l.foldl dropPipe s) := by
  induction l with
  | nil => intro s h; exact h
  | cons p ps ih => intro s h; exact ih _ (dropPipe_pord s p h)

theorem step_pord (s : State) (op : List String) (h : POrd s) : ∀ o ∈ step s op, POrd o.1 := by
  intro o ho
  unfold step at ho
  split at ho
  · split at ho
    · simp at ho; subst ho; exact h
    · simp at ho; subst ho
      intro p hp
      simp only [List.mem_append, List.mem_singleton] at hp
      rcases hp with hp | rfl
      · exact h p hp
      · exact ⟨by simp, fun _ => rfl⟩
  · simp at ho; subst ho; exact settled_pord _ _ _ (dropPipe_pord s _ h)
  · split at ho
    · simp at ho; subst ho; exact settled_pord _ _ _ (POrd_of s _ h rfl)
    · simp at ho; subst ho; exact h
  · -- send
    split at ho
    · simp at ho; subst ho; exact h
    · split at ho
      · simp at ho; subst ho; exact h
      · simp only [] at ho
        simp at ho; subst ho
        intro p hp
        exact fanout_ord s.pipes _ _ h p hp
  · -- recv
    split at ho
    · split at ho
      · split at ho
        · simp at ho; subst ho; exact h
        · simp at ho
          rcases ho with rfl | rfl
          · exact h
          · exact settled_pord _ _ _ (POrd_of s _ h rfl)
      · simp at ho
        rcases ho with rfl | rfl
        · exact h
        · exact settled_pord _ _ _ (POrd_of s _ h rfl)
    · simp at ho; subst ho; exact settled_pord _ _ _ (POrd_of s _ h rfl)
  · simp at ho; subst ho; exact POrd_of s _ h rfl
  · simp at ho; subst ho; exact POrd_of s _ h rfl
  · split at ho
    · simp at ho; subst ho; exact settled_pord _ _ _ (POrd_of s _ h rfl)
    · split at ho
      · simp at ho; subst ho; exact settled_pord _ _ _ (POrd_of s _ h rfl)
      · simp at ho
  · -- hold
    simp at ho; subst ho
    intro p hp
    simp only [modifyPipe, List.mem_map] at hp
    obtain ⟨p0, hp0, rfl⟩ := hp
    split
    · exact ⟨(h p0 hp0).sub, (h p0 hp0).idle⟩
    · exact h p0 hp0
  · -- release ok
    split at ho
    · simp at ho
    · rename_i x hx
      simp only [] at ho
      simp at ho; subst ho
      have hxm : x ∈ s.pipes := List.mem_of_find?_eq_some hx
      apply settled_pord
      intro p hp
      simp only [modifyPipe, List.mem_map] at hp
      obtain ⟨p0, hp0, rfl⟩ := hp
      split
      · exact OutPipe.releaseOk_ord x (h x hxm)
      · exact h p0 hp0
  · simp at ho; subst ho; exact settled_pord _ _ _ (dropPipe_pord s _ h)
  · simp at ho; subst ho; exact h
  · -- close
    split at ho
    · simp at ho; subst ho; exact h
    · simp only [] at ho
      simp at ho; subst ho
      refine POrd_of _ _ (dropAll_pord _ s h) rfl
  · simp at ho

theorem reach_pord (f : Flavor) (g : GExpr) (s : State) (h : Reach f g s) : POrd s := by
  induction h with
  | init => intro p hp; simp [init] at hp
  | step s op o _ ho ih => exact step_pord s op ih o ho

/-- over every history of a BUS or STAR socket: for every peer, the copies handed to its pipe — completed, in
    progress, queued — are, in order, part of what was offered to that pipe: a message is delivered to a directly
    connected peer at most once (never duplicated by the sender, by forwarding or by a slow peer) and in order -/
theorem per_peer_order (f : Flavor) (g : GExpr) (s : State) (h : Reach f g s) :
    ∀ p ∈ s.pipes, (p.sent ++ p.inflight.toList ++ p.q).Sublist p.offered :=
  fun p hp => (reach_pord f g s h p hp).sub

end Mesh
end Proto
end Model
