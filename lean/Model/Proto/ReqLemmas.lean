import Model.Proto.Req
namespace Model
namespace Proto
namespace Req

theorem setCtx_ctxByID (s : State) (c : Nat) (f : Ctx → Ctx) : (setCtx s c f).ctxByID = s.ctxByID := rfl
theorem cancelSend_ctxByID (s : State) (c : Nat) : (cancelSend s c).ctxByID = s.ctxByID := rfl

/-- re-evaluating the wait loops never registers or unregisters a request id -/
theorem wake_ctxByID (s : State) (c : Nat) : (wake s c).1.ctxByID = s.ctxByID := by
  unfold wake
  split
  · rfl
  · simp only []
    split
    · split <;> rfl
    · split
      · split <;> rfl
      · split
        · split <;> rfl
        · split
          · split <;> rfl
          · split <;> (split <;> rfl)

end Req
end Proto
end Model

namespace Model
namespace Proto
namespace Req

theorem getCtx_setCtx (s : State) (c : Nat) (f : Ctx → Ctx) (hf : ∀ y, (f y).id = y.id) (d : Nat) :
    getCtx (setCtx s c f) d = (getCtx s d).map (fun y => if y.id = c then f y else y) := by
  unfold getCtx setCtx
  simp only [List.find?_map]
  have : ((fun x => decide (x.id = d)) ∘ fun c_1 => if c_1.id = c then f c_1 else c_1) = (fun x => decide (x.id = d)) := by
    funext y
    simp only [Function.comp]
    split
    · rw [hf]
    · rfl
  rw [this]

theorem getCtx_id (s : State) (d : Nat) (x : Ctx) (h : getCtx s d = some x) : x.id = d := by
  unfold getCtx at h
  simpa using List.find?_some h

end Req
end Proto
end Model
