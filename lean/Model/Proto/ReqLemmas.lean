import Model.Proto.Req
namespace Model
namespace Proto
namespace Req

theorem setCtx_ctxByID (s : State) (c : Nat) (f : Ctx → Ctx) : (setCtx s c f).ctxByID = s.ctxByID := rfl
theorem cancelSend_ctxByID (s : State) (c : Nat) : (cancelSend s c).ctxByID = s.ctxByID := rfl

theorem wakeSends_ctxByID (s : State) (c : Nat) (x : Ctx) : ∀ e ∈ (wakeSends s c x).1.ctxByID, e ∈ s.ctxByID := by
  intro e he
  simp only [wakeSends] at he
  split at he
  · exact (List.mem_filter.mp he).1
  · exact he

theorem wakeRecv_ctxByID (s : State) (c : Nat) (np : Bool) (evs : List (Nat × Ev)) :
    ∀ e ∈ (wakeRecv s c np evs).1.ctxByID, e ∈ s.ctxByID := by
  intro e he
  unfold wakeRecv at he
  split at he
  · exact he
  · split at he
    · exact he
    · split at he
      · exact he
      · simp only [] at he
        split at he
        · exact he
        · split at he
          · exact (List.mem_filter.mp he).1
          · exact he

/-- re-evaluating the wait loops never registers a request id (it may drop the registrations of the context) -/
theorem wake_ctxByID (s : State) (c : Nat) : ∀ e ∈ (wake s c).1.ctxByID, e ∈ s.ctxByID := by
  intro e he
  unfold wake at he
  split at he
  · exact he
  · exact wakeSends_ctxByID s c _ e (wakeRecv_ctxByID _ c _ _ e he)

end Req
end Proto
end Model

namespace Model
namespace Proto
namespace Req

theorem getCtx_setCtx (s : State) (c : Nat) (f : Ctx → Ctx) (hf : ∀ y, (f y).id = y.id) (d : Nat) :
    getCtx (setCtx s c f) d = (getCtx s d).map (fun y => if y.id = c then f y else y) := by
  unfold getCtx setCtx
  simp only [List.find?_map]
  have : ((fun x => decide (x.id = d)) ∘ fun c_1 => if c_1.id = c then f c_1 else c_1) = (fun x => decide (x.id = d)) := by
    funext y
    simp only [Function.comp]
    split
    · rw [hf]
    · rfl
  rw [this]

theorem getCtx_id (s : State) (d : Nat) (x : Ctx) (h : getCtx s d = some x) : x.id = d := by
  unfold getCtx at h
  simpa using List.find?_some h

theorem perms_length_aux : ∀ (n : Nat) (l : List Nat), l.length = n → ∀ m ∈ perms l, m.length = l.length := by
  intro n
  induction n with
  | zero =>
    intro l hl m hm
    have : l = [] := List.length_eq_zero_iff.mp hl
    subst this
    rw [perms] at hm
    simp at hm; subst hm; rfl
  | succ n ih =>
    intro l hl m hm
    cases l with
    | nil => simp at hl
    | cons a t =>
      rw [perms] at hm
      case x_1 => intro h; cases h
      have hm := List.mem_of_mem_take hm
      simp only [List.mem_flatMap, List.mem_map] at hm
      obtain ⟨x, hx, p, hp, rfl⟩ := hm
      have hlen : ((a :: t).erase x).length = n := by
        rw [List.length_erase_of_mem hx]; simp at hl ⊢; omega
      have := ih _ hlen p hp
      simp only [List.length_cons]
      rw [this, hlen]; simp at hl; omega

theorem perms_length (l m : List Nat) (h : m ∈ perms l) : m.length = l.length :=
  perms_length_aux l.length l rfl m h

end Req
end Proto
end Model
