/-
  Model/Proto/Sub.lean — SUB (protocol/sub/sub.go): contexts with subscriptions and a bounded
  drop-oldest queue; every arriving message is offered to every context.
-/
import Model.Proto.Common
namespace Model
namespace Proto
namespace Sub

structure Ctx where
  id     : Nat
  subs   : List Bytes
  q      : List Bytes          -- oldest first
  cap    : Nat
  parked : List Nat            -- calls blocked in Recv on this context (FIFO)
  closed : Bool
  -- ghost: the matching messages offered to this context while it was open, in arrival order, and what its Recvs returned
  seen   : List Bytes := []
  got    : List Bytes := []
deriving Repr, BEq

structure State where
  ctxs    : List Ctx           -- context 0 is the socket's own (master) context
  closed  : Bool
  pipes   : List Nat
  defCap  : Nat
  -- ghost: every published message that reached the socket, in arrival order
  arrived : List Bytes := []
deriving Repr, BEq

def init : State := { ctxs := [{ id := 0, subs := [], q := [], cap := 128, parked := [], closed := false }], closed := false, pipes := [], defCap := 128 }

def Ctx.matches (c : Ctx) (body : Bytes) : Bool := c.subs.any (fun s => isPrefix s body)

/-- one arriving message offered to one context: direct hand-off to a parked Recv, else enqueue,
    dropping the oldest when full -/
def Ctx.offer (c : Ctx) (body : Bytes) : Ctx × List (Nat × Ev) :=
  if c.closed || !c.matches body then (c, []) else
  match c.parked with
  | call :: rest => ({ c with parked := rest, seen := c.seen ++ [body], got := c.got ++ [body] }, [(call, retMsg call [] body)])
  | [] =>
    if c.q.length < c.cap then ({ c with q := c.q ++ [body], seen := c.seen ++ [body] }, [])
    else if c.cap = 0 then (c, [])           -- a queue of length zero never has room: the message is dropped
    else ({ c with q := c.q.tail ++ [body], seen := c.seen ++ [body] }, [])

def Ctx.subscribe (c : Ctx) (t : Bytes) : Ctx :=
  if c.subs.contains t then c else { c with subs := c.subs ++ [t] }

/-- remove the first equal subscription and prune the queue with the remaining ones -/
def Ctx.unsubscribe (c : Ctx) (t : Bytes) : Option Ctx :=
  if c.subs.contains t then
    let subs' := c.subs.erase t
    let c' := { c with subs := subs' }
    some { c' with q := c.q.filter (fun m => c'.matches m) }
  else none

def modifyCtx (s : State) (id : Nat) (f : Ctx → Ctx) : State :=
  { s with ctxs := s.ctxs.map (fun c => if c.id = id then f c else c) }

def getCtx (s : State) (id : Nat) : Option Ctx := s.ctxs.find? (fun c => c.id = id)

/-- deliver one published message to every context -/
def deliver (s : State) (body : Bytes) : State × List (Nat × Ev) :=
  let rs := s.ctxs.map (fun c => c.offer body)
  ({ s with ctxs := rs.map (·.1), arrived := s.arrived ++ [body] }, rs.flatMap (·.2))

def wake (c : Ctx) (e : String) : List (Nat × Ev) := c.parked.map (fun call => (call, retErr call e))

/-- the step function; a list of allowed (state, observation) outcomes -/
def step (s : State) (op : List String) : List (State × List Ev) :=
  match op with
  | ["addpipe", p] => if s.closed then [(s, [Ev.res "closed"])] else [({ s with pipes := s.pipes ++ [natOf p] }, [Ev.res "ok"])]
  | ["rmpipe", p] => [({ s with pipes := s.pipes.erase (natOf p) }, [closedEv (natOf p)])]
  | ["inject", _, b] =>
    let (s', evs) := deliver s (bytesOf b)
    [(s', sortByKey evs)]
  | ["send", call, _, _, _] => [(s, [Ev.retErr (natOf call) "protoop"])]   -- SUB cannot send, open or closed
  | ["recv", call, ctx] =>
    let call := natOf call
    match getCtx s (natOf ctx) with
    | none => []
    | some c =>
      if c.closed then
        -- select between the closed channel and a non-empty queue: either may win
        match c.q with
        | [] => [(s, [retErr call "closed"])]
        | m :: rest => [(s, [retErr call "closed"]), (modifyCtx s c.id (fun c => { c with q := c.q.tail, got := c.got ++ c.q.take 1 }), [retMsg call [] m])]
      else match c.q with
        | m :: rest => [(modifyCtx s c.id (fun c => { c with q := c.q.tail, got := c.got ++ c.q.take 1 }), [retMsg call [] m])]
        | [] => [(modifyCtx s c.id (fun c => { c with parked := c.parked ++ [call] }), [])]
  | ["setopt", ctx, "SUBSCRIBE", t] =>
    [(modifyCtx s (natOf ctx) (fun c => c.subscribe (bytesOf t)), [Ev.res "ok"])]
  | ["setopt", ctx, "UNSUBSCRIBE", t] =>
    match getCtx s (natOf ctx) with
    | none => []
    | some c =>
      match c.unsubscribe (bytesOf t) with
      | some c' => [(modifyCtx s c.id (fun _ => c'), [Ev.res "ok"])]
      | none => [(s, [Ev.res "badvalue"])]
  | ["setopt", ctx, "READQ-LEN", n] =>
    -- a new, empty queue of the new capacity replaces the old one
    [(modifyCtx s (natOf ctx) (fun c => { c with q := [], cap := natOf n }), [Ev.res "ok"])]
  | ["openctx", id] =>
    if s.closed then [(s, [Ev.res "closed"])] else
    if (getCtx s (natOf id)).isSome then [] else     -- context ids are never reused
    let cap := match getCtx s 0 with | some m => m.cap | none => s.defCap
    [({ s with ctxs := s.ctxs ++ [{ id := natOf id, subs := [], q := [], cap := cap, parked := [], closed := false }] }, [Ev.res "ok"])]
  | ["closectx", id] =>
    match getCtx s (natOf id) with
    | none => []
    | some c =>
      if c.closed then [(s, [Ev.res "closed"])] else
      [(modifyCtx s c.id (fun c => { c with closed := true, parked := [] }), (Ev.res "ok" :: sortByKey (wake c "closed")))]
  | ["close"] =>
    if s.closed then [(s, [Ev.res "closed"])] else
    let evs := s.ctxs.flatMap (fun c => if c.closed then [] else wake c "closed")
    [({ s with closed := true, ctxs := s.ctxs.map (fun c => { c with closed := true, parked := [] }) }, (Ev.res "ok" :: sortByKey evs))]
  | _ => []

end Sub
end Proto
end Model
