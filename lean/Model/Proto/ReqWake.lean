import Model.Proto.ReqInv
namespace Model.Proto.Req

theorem wakeRecv_parkedSend (s : State) (c : Nat) (np : Bool) (evs : List (Nat × Ev)) :
    (wakeRecv s c np evs).1.parkedSend = s.parkedSend := by
  unfold wakeRecv
  split
  · rfl
  · split
    · rfl
    · split
      · rfl
      · simp only []
        split
        · rfl
        · split <;> rfl

/-- after `cancel`, the abandon mark is set exactly when a message is still waiting for its first transmission -/
theorem cancel_marks_pending (s : State) (c : Nat) (y : Ctx) (h : getCtx (cancel s c) c = some y) :
    y.sendAbort = y.sendMsg.isSome := by
  unfold cancel at h
  simp only [] at h
  split at h
  · rename_i hn
    rw [h] at hn; cases hn
  · rename_i x hx
    rw [getCtx_setCtx] at h
    case hf => intro y; rfl
    have hx' : getCtx { cancelSend s c with ctxByID := (cancelSend s c).ctxByID.filter (fun e => !(e.1 == x.reqID && x.reqID != 0) && e.2 != c) } c = some x := hx
    rw [hx'] at h
    have hid := getCtx_id _ _ _ hx
    simp only [Option.map_some, hid, if_true, Option.some.injEq] at h
    subst h
    rfl

/-- **cancel never leaves a Send asleep**: whatever cancels a context's request (a receive deadline, a send deadline,
    a lost connection with retries disabled, the last peer leaving, Close), once the waiters re-evaluate their
    conditions no Send on that context is still parked -/
theorem cancel_wakes_every_send (s : State) (c : Nat) (h : (getCtx s c).isSome = true) :
    ∀ q ∈ (wake (cancel s c) c).1.parkedSend, q.ctx ≠ c := by
  intro q hq
  unfold wake at hq
  split at hq
  · rename_i hn
    -- the context still exists after cancel
    exfalso
    have : (getCtx (cancel s c) c).isSome = true := by
      unfold cancel
      simp only []
      split
      · rename_i hn'
        rw [getCtx_cancelSend] at hn'
        cases hg : getCtx s c with
        | none => rw [hg] at h; cases h
        | some z => rw [hg] at hn'; cases hn'
      · rename_i x hx
        rw [getCtx_setCtx]
        case hf => intro y; rfl
        have hx' : getCtx { cancelSend s c with ctxByID := (cancelSend s c).ctxByID.filter (fun e => !(e.1 == x.reqID && x.reqID != 0) && e.2 != c) } c = some x := hx
        rw [hx']; rfl
    rw [hn] at this; cases this
  · rename_i y hy
    rw [wakeRecv_parkedSend] at hq
    have hmark := cancel_marks_pending s c y hy
    simp only [wakeSends] at hq
    have hq' : q ∈ (cancel s c).parkedSend.filter (fun p => !(((cancel s c).parkedSend.filter (fun p => p.ctx == c &&
        (!(y.sendMsg.isSome && y.sendFor == p.rid) || p.expired || y.closed || (y.failNoPeers && (cancel s c).pipes.isEmpty) || y.sendAbort))).any (fun r => r.call == p.call))) := by
      split at hq
      · simpa [cancelSend, setCtx] using hq
      · exact hq
    obtain ⟨hqm, hqf⟩ := List.mem_filter.mp hq'
    intro hc
    have hleave : q ∈ (cancel s c).parkedSend.filter (fun p => p.ctx == c &&
        (!(y.sendMsg.isSome && y.sendFor == p.rid) || p.expired || y.closed || (y.failNoPeers && (cancel s c).pipes.isEmpty) || y.sendAbort)) := by
      apply List.mem_filter.mpr
      refine ⟨hqm, ?_⟩
      rw [hmark]
      cases y.sendMsg.isSome <;> simp [hc]
    have : ((cancel s c).parkedSend.filter (fun p => p.ctx == c &&
        (!(y.sendMsg.isSome && y.sendFor == p.rid) || p.expired || y.closed || (y.failNoPeers && (cancel s c).pipes.isEmpty) || y.sendAbort))).any (fun r => r.call == q.call) = true :=
      List.any_eq_true.mpr ⟨q, hleave, by simp⟩
    rw [this] at hqf
    cases hqf

end Model.Proto.Req
