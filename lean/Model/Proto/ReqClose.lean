/-
  Model/Proto/ReqClose.lean — REQ: no call stays parked on a closed context, and Close wakes everything.
  Invariant K over all histories: every parked Recv waits for a real request (rid ≠ 0), there is at most one per
  context, and every parked call belongs to an open context (whose receiveWait flag is set, for a Recv).
  `K (some c)` is the same with context c exempted (the moment between marking c closed and waking its waiters).
-/
import Model.Proto.ReqWake
namespace Model
namespace Proto
namespace Req

structure K (ex : Option Nat) (s : State) : Prop where
  rid : ∀ p ∈ s.parkedRecv, p.rid ≠ 0
  nd : (s.parkedRecv.map (·.ctx)).Nodup
  rlive : ∀ p ∈ s.parkedRecv, some p.ctx ≠ ex → ∃ x ∈ s.ctxs, x.id = p.ctx ∧ x.closed = false ∧ x.receiveWait = true
  slive : ∀ p ∈ s.parkedSend, some p.ctx ≠ ex → ∃ x ∈ s.ctxs, x.id = p.ctx ∧ x.closed = false

theorem nodup_map_sublist {α β} (f : α → β) {l l' : List α} (h : l'.Sublist l) (hn : (l.map f).Nodup) : (l'.map f).Nodup :=
  List.Nodup.sublist (List.Sublist.map f h) hn

/-- fewer parked calls, same contexts -/
theorem K_sub (ex : Option Nat) (s s' : State) (h : K ex s) (hc : s'.ctxs = s.ctxs)
    (hr : s'.parkedRecv.Sublist s.parkedRecv) (hs : ∀ p ∈ s'.parkedSend, p ∈ s.parkedSend) : K ex s' := by
  constructor
  · intro p hp; exact h.rid p (hr.subset hp)
  · exact nodup_map_sublist _ hr h.nd
  · intro p hp hne; rw [hc]; exact h.rlive p (hr.subset hp) hne
  · intro p hp hne; rw [hc]; exact h.slive p (hs p hp) hne

theorem K_same (ex : Option Nat) (s s' : State) (h : K ex s) (hc : s'.ctxs = s.ctxs)
    (hr : s'.parkedRecv = s.parkedRecv) (hs : s'.parkedSend = s.parkedSend) : K ex s' :=
  K_sub ex s s' h hc (by rw [hr]; exact List.Sublist.refl _) (by rw [hs]; intro p hp; exact hp)

theorem setCtx_mem (s : State) (c : Nat) (f : Ctx → Ctx) (x : Ctx) (hx : x ∈ s.ctxs) :
    (if x.id = c then f x else x) ∈ (setCtx s c f).ctxs := by
  simp only [setCtx, List.mem_map]
  exact ⟨x, hx, rfl⟩

/-- a context update that keeps id, closed and receiveWait -/
theorem setCtx_K (ex : Option Nat) (s : State) (c : Nat) (f : Ctx → Ctx)
    (hf : ∀ y, (f y).id = y.id ∧ (f y).closed = y.closed ∧ (f y).receiveWait = y.receiveWait) (h : K ex s) : K ex (setCtx s c f) := by
  constructor
  · exact h.rid
  · exact h.nd
  · intro p hp hne
    obtain ⟨x, hx, h1, h2, h3⟩ := h.rlive p hp hne
    refine ⟨_, setCtx_mem s c f x hx, ?_⟩
    split
    · exact ⟨(hf x).1.trans h1, (hf x).2.1.trans h2, (hf x).2.2.trans h3⟩
    · exact ⟨h1, h2, h3⟩
  · intro p hp hne
    obtain ⟨x, hx, h1, h2⟩ := h.slive p hp hne
    refine ⟨_, setCtx_mem s c f x hx, ?_⟩
    split
    · exact ⟨(hf x).1.trans h1, (hf x).2.1.trans h2⟩
    · exact ⟨h1, h2⟩

theorem cancelSend_K (ex : Option Nat) (s : State) (c : Nat) (h : K ex s) : K ex (cancelSend s c) := by
  unfold cancelSend
  exact setCtx_K ex _ c _ (fun y => ⟨rfl, rfl, rfl⟩) (K_same ex s _ h rfl rfl rfl)

theorem cancel_K (ex : Option Nat) (s : State) (c : Nat) (h : K ex s) : K ex (cancel s c) := by
  unfold cancel
  simp only []
  have h1 := cancelSend_K ex s c h
  split
  · exact h1
  · exact setCtx_K ex _ c _ (fun y => ⟨rfl, rfl, rfl⟩) (K_same ex _ _ h1 rfl rfl rfl)

theorem wakeSends_K (ex : Option Nat) (s : State) (c : Nat) (x : Ctx) (h : K ex s) : K ex (wakeSends s c x).1 := by
  simp only [wakeSends]
  have h1 : K ex { s with parkedSend := s.parkedSend.filter (fun p => !((s.parkedSend.filter (fun p => p.ctx == c &&
      (!(x.sendMsg.isSome && x.sendFor == p.rid) || p.expired || x.closed || (x.failNoPeers && s.pipes.isEmpty) || x.sendAbort))).any (fun q => q.call == p.call))) } :=
    K_sub ex s _ h rfl (List.Sublist.refl _) (fun p hp => (List.mem_filter.mp hp).1)
  split
  · exact setCtx_K ex _ c _ (fun y => ⟨rfl, rfl, rfl⟩) (K_same ex _ _ (cancelSend_K ex _ c h1) rfl rfl rfl)
  · exact h1

theorem eq_of_nodup_map_ctx (l : List Parked) (h : (l.map (·.ctx)).Nodup) (a b : Parked) (ha : a ∈ l) (hb : b ∈ l)
    (hf : a.ctx = b.ctx) : a = b := by
  induction l with
  | nil => simp at ha
  | cons x xs ih =>
    simp only [List.map_cons, List.nodup_cons, List.mem_map, not_exists, not_and] at h
    simp only [List.mem_cons] at ha hb
    rcases ha with rfl | ha <;> rcases hb with rfl | hb
    · rfl
    · exact absurd hf.symm (h.1 b hb)
    · exact absurd hf (h.1 a ha)
    · exact ih h.2 ha hb

/-- the one Recv parked on context c leaves and the context's receiveWait flag is cleared -/
theorem unparkRecv_K (ex : Option Nat) (s : State) (c : Nat) (pr : Parked) (f : Ctx → Ctx)
    (hf : ∀ y, (f y).id = y.id ∧ (f y).closed = y.closed) (hpr : pr ∈ s.parkedRecv) (hc : pr.ctx = c)
    (dl : List (Nat × Nat × Nat)) (reg : List (Nat × Nat)) (df : List Nat) (h : K ex s) :
    K ex (setCtx { s with parkedRecv := s.parkedRecv.filter (fun p => p.call != pr.call), delivered := dl, ctxByID := reg, deliveredFor := df } c f) := by
  have hsub : (s.parkedRecv.filter (fun p => p.call != pr.call)).Sublist s.parkedRecv := List.filter_sublist
  constructor
  · intro p hp; exact h.rid p (hsub.subset hp)
  · exact nodup_map_sublist _ hsub h.nd
  · intro p hp hne
    have hp0 : p ∈ s.parkedRecv := hsub.subset hp
    have hpc : p.call ≠ pr.call := by
      have := (List.mem_filter.mp hp).2
      simpa using this
    have hpctx : p.ctx ≠ c := by
      intro e
      have := eq_of_nodup_map_ctx s.parkedRecv h.nd p pr hp0 hpr (e.trans hc.symm)
      exact hpc (by rw [this])
    obtain ⟨x, hx, h1, h2, h3⟩ := h.rlive p hp0 hne
    refine ⟨x, ?_, h1, h2, h3⟩
    have := setCtx_mem { s with parkedRecv := s.parkedRecv.filter (fun p => p.call != pr.call), delivered := dl, ctxByID := reg, deliveredFor := df } c f x hx
    have hxc : ¬ x.id = c := by rw [h1]; exact hpctx
    simpa [hxc] using this
  · intro p hp hne
    obtain ⟨x, hx, h1, h2⟩ := h.slive p hp hne
    refine ⟨_, setCtx_mem { s with parkedRecv := s.parkedRecv.filter (fun p => p.call != pr.call), delivered := dl, ctxByID := reg, deliveredFor := df } c f x hx, ?_⟩
    split
    · exact ⟨(hf x).1.trans h1, (hf x).2.trans h2⟩
    · exact ⟨h1, h2⟩

theorem wakeRecv_K (ex : Option Nat) (s : State) (c : Nat) (np : Bool) (evs : List (Nat × Ev)) (h : K ex s) : K ex (wakeRecv s c np evs).1 := by
  unfold wakeRecv
  split
  · exact h
  · rename_i pr hpr
    have hmem : pr ∈ s.parkedRecv := List.mem_of_find?_eq_some hpr
    have hctx : pr.ctx = c := by have := List.find?_some hpr; simpa using this
    split
    · exact h
    · split
      · exact h
      · simp only []
        split
        · exact unparkRecv_K ex s c pr (fun z => { z with receiveWait := false }) (fun z => ⟨rfl, rfl⟩) hmem hctx s.delivered s.ctxByID s.deliveredFor h
        · split
          · exact unparkRecv_K ex s c pr (fun z => { z with reqID := 0, repMsg := none, receiveWait := false }) (fun z => ⟨rfl, rfl⟩) hmem hctx _ _ _ h
          · exact K_sub ex s _ h rfl List.filter_sublist (fun p hp => hp)

theorem wake_K (ex : Option Nat) (s : State) (c : Nat) (h : K ex s) : K ex (wake s c).1 := by
  unfold wake
  split
  · exact h
  · exact wakeRecv_K ex _ c _ _ (wakeSends_K ex s c _ h)

theorem wakeIf_K (ex : Option Nat) (t : State) (c : Nat) (b : Bool) (h : K ex t) : K ex (if b = true then wake t c else (t, [])).1 := by
  cases b
  · exact h
  · exact wake_K ex t c h

theorem pumpStep_K (ex : Option Nat) (arm : Nat × Nat) (s : State) (c p : Nat) (sq rq : List Nat) (x : Ctx) (pp : Pipe)
    (h : K ex s) : K ex (pumpStep arm s c p sq rq x pp).1 := by
  have h1 : K ex { s with sendQ := sq, readyQ := rq, ctxByID := if x.sendMsg.isSome then s.ctxByID.filter (fun e => e.2 != c) ++ [(x.reqID, c)] else s.ctxByID, txlog := s.txlog ++ [(p, x.reqID, (x.sendMsg.orElse (fun _ => x.reqMsg)).getD [])] } := K_same ex s _ h rfl rfl rfl
  have hs2 := setCtx_K ex _ c (fun y => { y with queued := false, reqMsg := some ((x.sendMsg.orElse (fun _ => x.reqMsg)).getD []), sendMsg := none, lastPipe := some p, timer := if y.resendTime > 0 then some { id := y.reqID, tmin := arm.1, tmax := arm.2, period := y.resendTime } else y.timer })
    (fun y => ⟨rfl, rfl, rfl⟩) h1
  simp only [pumpStep]
  split
  · exact K_same ex _ _ (wakeIf_K ex _ c _ hs2) rfl rfl rfl
  · exact K_same ex _ _ (wakeIf_K ex _ c _ hs2) rfl rfl rfl

theorem pump_K (ex : Option Nat) : ∀ (fuel : Nat) (arm : Nat × Nat) (s : State), K ex s → K ex (pump fuel arm s).1 := by
  intro fuel
  induction fuel with
  | zero => intro arm s h; exact h
  | succ n ih =>
    intro arm s h
    simp only [pump]
    split
    · split
      · rename_i x pp hx hp
        exact ih arm _ (pumpStep_K ex arm s _ _ _ _ x pp h)
      · exact K_same ex s _ h rfl rfl rfl
    · exact h

theorem resend_K (ex : Option Nat) (s : State) (arm : Nat × Nat) (c id : Nat) (h : K ex s) : K ex (resend s arm c id).1 := by
  unfold resend
  split
  · exact h
  · split
    · apply pump_K
      exact setCtx_K ex _ c (fun y => { y with queued := true }) (fun y => ⟨rfl, rfl, rfl⟩) (K_same ex s _ h rfl rfl rfl)
    · exact h

theorem readyVariants_K (ex : Option Nat) (st : State × List (Nat × Ev)) (h : K ex st.1) : ∀ r ∈ readyVariants st, K ex r.1 := by
  intro r hr
  unfold readyVariants at hr
  simp only [] at hr
  split at hr
  · simp at hr; subst hr; exact h
  · simp only [List.mem_map] at hr
    obtain ⟨m, _, rfl⟩ := hr
    exact K_same ex st.1 _ h rfl rfl rfl

theorem timerRound_K (ex : Option Nat) (now : Nat) (acc0 : List (State × List (Nat × Ev))) (ids : List Nat) (h : ∀ st ∈ acc0, K ex st.1) :
    ∀ st ∈ timerRound now acc0 ids, K ex st.1 := by
  unfold timerRound
  apply foldl_flatMap_all (fun st : State × List (Nat × Ev) => K ex st.1) _ _ ids acc0 h
  intro cid st hst r hr
  split at hr
  · simp at hr; subst hr; exact hst
  · rename_i c _
    split at hr
    · simp at hr; subst hr; exact hst
    · rename_i t _
      have hf : K ex (resend (setCtx st.1 c.id (fun y => { y with timer := none })) (t.tmin + t.period, now) c.id t.id).1 :=
        resend_K ex _ _ _ _ (setCtx_K ex _ _ _ (fun y => ⟨rfl, rfl, rfl⟩) hst)
      simp only [] at hr
      split at hr
      · refine readyVariants_K ex _ ?_ r hr; exact hf
      · split at hr
        · rw [List.mem_cons] at hr
          rcases hr with rfl | hr
          · exact hst
          · refine readyVariants_K ex _ ?_ r hr; exact hf
        · simp at hr; subst hr; exact hst

/-- marking parked calls (expired flag, deadline) changes nothing the invariant looks at -/
theorem K_markRecv (ex : Option Nat) (s : State) (fr : Parked → Parked)
    (hr : ∀ q, (fr q).ctx = q.ctx ∧ (fr q).rid = q.rid) (h : K ex s) : K ex { s with parkedRecv := s.parkedRecv.map fr } := by
  constructor
  · intro p hp
    simp only [List.mem_map] at hp
    obtain ⟨q, hq, rfl⟩ := hp
    rw [(hr q).2]; exact h.rid q hq
  · simp only [List.map_map]
    have : ((fun x => x.ctx) ∘ fr) = (fun x => x.ctx) := by funext q; exact (hr q).1
    rw [this]; exact h.nd
  · intro p hp hne
    simp only [List.mem_map] at hp
    obtain ⟨q, hq, rfl⟩ := hp
    rw [(hr q).1] at hne ⊢
    exact h.rlive q hq hne
  · exact h.slive

theorem K_markSend (ex : Option Nat) (s : State) (fs : Parked → Parked)
    (hs : ∀ q, (fs q).ctx = q.ctx) (h : K ex s) : K ex { s with parkedSend := s.parkedSend.map fs } := by
  constructor
  · exact h.rid
  · exact h.nd
  · exact h.rlive
  · intro p hp hne
    simp only [List.mem_map] at hp
    obtain ⟨q, hq, rfl⟩ := hp
    rw [hs q] at hne ⊢
    exact h.slive q hq hne

theorem deadlineFired_K (ex : Option Nat) (st : State × List (Nat × Ev)) (isRecv : Bool) (p : Parked) (h : K ex st.1) :
    K ex (deadlineFired st isRecv p).1 := by
  unfold deadlineFired
  cases isRecv
  · simp only [Bool.false_eq_true, if_false]
    split
    · exact h
    · have hm : ∀ still : Bool, K ex { st.1 with parkedSend := st.1.parkedSend.map (fun q => if q.call == p.call then { q with expired := still, deadline := none } else q) } :=
        fun still => K_markSend ex st.1 _ (fun q => by split <;> rfl) h
      split
      · exact wake_K ex _ _ (cancel_K ex _ _ (hm _))
      · exact hm _
  · simp only [if_true]
    split
    · exact h
    · have hm : ∀ still : Bool, K ex { st.1 with parkedRecv := st.1.parkedRecv.map (fun q => if q.call == p.call then { q with expired := still, deadline := none } else q) } :=
        fun still => K_markRecv ex st.1 _ (fun q => by split <;> exact ⟨rfl, rfl⟩) h
      split
      · exact wake_K ex _ _ (cancel_K ex _ _ (hm _))
      · exact hm _

theorem expireSends_K (ex : Option Nat) (now : Nat) (s : State) (c : Nat) (h : K ex s) : K ex (expireSends now s c) := by
  unfold expireSends
  refine K_markSend ex s _ (fun q => ?_) h
  show (if (q.ctx == c && (match q.deadline with | some t => decide (t.tmin + t.period ≤ now) | none => false)) = true then ({ q with expired := true, deadline := none } : Parked) else q).ctx = q.ctx
  cases (q.ctx == c && (match q.deadline with | some t => decide (t.tmin + t.period ≤ now) | none => false)) <;> rfl

theorem deadlineFire_K (ex : Option Nat) (now : Nat) (st : State × List (Nat × Ev)) (isRecv : Bool) (p : Parked) (t : Timer) (h : K ex st.1) :
    ∀ r ∈ deadlineFire now st isRecv p t, K ex r.1 := by
  intro r hr
  have hE : K ex (expireSends now st.1 p.ctx) := expireSends_K ex now st.1 p.ctx h
  have hfired : ∀ r ∈ (if (isRecv && recvStill st.1 p && expireSends now st.1 p.ctx != st.1) = true
      then [deadlineFired st isRecv p, deadlineFired (expireSends now st.1 p.ctx, st.2) isRecv p]
      else [deadlineFired st isRecv p]), K ex r.1 := by
    intro r hr
    split at hr
    · simp at hr
      rcases hr with rfl | rfl
      · exact deadlineFired_K ex st isRecv p h
      · exact deadlineFired_K ex (_, _) isRecv p hE
    · simp at hr; subst hr; exact deadlineFired_K ex st isRecv p h
  unfold deadlineFire at hr
  simp only [] at hr
  split at hr
  · exact hfired r hr
  · split at hr
    · rw [List.mem_cons] at hr
      rcases hr with rfl | hr
      · exact h
      · exact hfired r hr
    · simp at hr; subst hr; exact h

theorem deadlineRound_K (ex : Option Nat) (now : Nat) (acc0 : List (State × List (Nat × Ev))) (calls : List Nat) (h : ∀ st ∈ acc0, K ex st.1) :
    ∀ st ∈ deadlineRound now acc0 calls, K ex st.1 := by
  unfold deadlineRound
  apply foldl_flatMap_all (fun st : State × List (Nat × Ev) => K ex st.1) _ _ calls acc0 h
  intro call st hst r hr
  split at hr
  · split at hr
    · exact deadlineFire_K ex now st true _ _ hst r hr
    · simp at hr; subst hr; exact hst
  · split at hr
    · exact deadlineFire_K ex now st false _ _ hst r hr
    · simp at hr; subst hr; exact hst
  · simp at hr; subst hr; exact hst

theorem timerOutcomes_K (ex : Option Nat) (s : State) (now : Nat) (h : K ex s) : ∀ st ∈ timerOutcomes s now, K ex st.1 := by
  intro st hst
  unfold timerOutcomes at hst
  simp only [] at hst
  have h0 : ∀ st ∈ dedup (deadlineRound now [(s, [])] (s.parkedRecv.map (·.call) ++ s.parkedSend.map (·.call))), K ex st.1 :=
    fun st hst => deadlineRound_K ex now _ _ (by intro b hb; simp at hb; subst hb; exact h) st (mem_dedup _ st hst)
  have h1 := fun st hst => timerRound_K ex now _ (s.ctxs.map (·.id)) h0 st (mem_dedup _ st hst)
  have h2 := fun st hst => timerRound_K ex now _ (s.ctxs.map (·.id)) h1 st (mem_dedup _ st hst)
  have h3 := fun st hst => timerRound_K ex now _ (s.ctxs.map (·.id)) h2 st (mem_dedup _ st hst)
  have h4 := fun st hst => timerRound_K ex now _ (s.ctxs.map (·.id)) h3 st (mem_dedup _ st hst)
  exact h4 st (List.mem_of_mem_take hst)

theorem foldl_K {α β : Type} (f : β → α → β) (P : β → Prop) (hf : ∀ b a, P b → P (f b a)) :
    ∀ (l : List α) (b : β), P b → P (l.foldl f b) := by
  intro l
  induction l with
  | nil => intro b h; exact h
  | cons a as ih => intro b h; exact ih _ (hf b a h)

theorem dropOne_K (ex : Option Nat) (p : Nat) (acc : State × List (Nat × Ev) × List (Nat × Nat)) (c0 : Ctx) (h : K ex acc.1) : K ex (dropOne p acc c0).1 := by
  unfold dropOne
  split
  · exact h
  · rename_i c _
    split
    · exact wake_K ex _ _ (cancel_K ex _ _ h)
    · split
      · have h2 := setCtx_K ex acc.1 c.id (fun y => { y with lastPipe := none }) (fun y => ⟨rfl, rfl, rfl⟩) h
        split
        · exact wake_K ex _ _ (cancel_K ex _ _ h2)
        · exact cancelSend_K ex _ _ h2
      · exact h

theorem dropResends_K (ex : Option Nat) (arm : Nat × Nat) (todo : List (Nat × Nat)) (start : State × List (Nat × Ev)) (order : List Nat)
    (h : K ex start.1) : K ex (dropResends arm todo start order).1 := by
  unfold dropResends
  apply foldl_K _ (fun acc : State × List (Nat × Ev) => K ex acc.1) _ order start h
  intro acc cid hacc
  split
  · exact hacc
  · exact resend_K ex _ _ _ _ hacc

theorem dropPipe_K (ex : Option Nat) (s : State) (arm : Nat × Nat) (p : Nat) (h : K ex s) : ∀ r ∈ dropPipe s arm p, K ex r.1 := by
  intro r hr
  unfold dropPipe at hr
  simp only [List.mem_flatMap] at hr
  obtain ⟨order, _, hr⟩ := hr
  refine readyVariants_K ex _ ?_ r hr
  apply dropResends_K
  apply foldl_K (dropOne p) (fun acc : State × List (Nat × Ev) × List (Nat × Nat) => K ex acc.1) (fun b a hb => dropOne_K ex p b a hb)
  exact K_same ex s _ h rfl rfl rfl

/-! ### closing a context -/

/-- (id, closed) of every context, in order -/
def clo (s : State) : List (Nat × Bool) := s.ctxs.map (fun y => (y.id, y.closed))

theorem setCtx_clo (s : State) (c : Nat) (f : Ctx → Ctx) (hf : ∀ y, (f y).id = y.id ∧ (f y).closed = y.closed) :
    clo (setCtx s c f) = clo s := by
  simp only [clo, setCtx, List.map_map]
  apply List.map_congr_left
  intro y _
  simp only [Function.comp]
  split
  · rw [(hf y).1, (hf y).2]
  · rfl

theorem cancelSend_clo (s : State) (c : Nat) : clo (cancelSend s c) = clo s := by
  unfold cancelSend
  exact setCtx_clo _ c _ (fun y => ⟨rfl, rfl⟩)

theorem cancel_clo (s : State) (c : Nat) : clo (cancel s c) = clo s := by
  unfold cancel
  simp only []
  split
  · exact cancelSend_clo s c
  · refine Eq.trans ?_ (cancelSend_clo s c)
    exact setCtx_clo _ c _ (fun y => ⟨rfl, rfl⟩)

theorem wakeSends_clo (s : State) (c : Nat) (x : Ctx) : clo (wakeSends s c x).1 = clo s := by
  simp only [wakeSends]
  split
  · refine Eq.trans ?_ (cancelSend_clo _ c)
    · exact setCtx_clo _ c _ (fun y => ⟨rfl, rfl⟩)
  · rfl

theorem wakeRecv_clo (s : State) (c : Nat) (np : Bool) (evs : List (Nat × Ev)) : clo (wakeRecv s c np evs).1 = clo s := by
  unfold wakeRecv
  split
  · rfl
  · split
    · rfl
    · split
      · rfl
      · simp only []
        split
        · exact setCtx_clo _ c _ (fun y => ⟨rfl, rfl⟩)
        · split
          · exact setCtx_clo _ c _ (fun y => ⟨rfl, rfl⟩)
          · rfl

theorem wake_clo (s : State) (c : Nat) : clo (wake s c).1 = clo s := by
  unfold wake
  split
  · rfl
  · rw [wakeRecv_clo]; exact wakeSends_clo s c _

theorem getCtx_isSome_of_clo (s : State) (c : Nat) (b : Bool) (h : (c, b) ∈ clo s) : (getCtx s c).isSome = true := by
  simp only [clo, List.mem_map, Prod.mk.injEq] at h
  obtain ⟨y, hy, hid, _⟩ := h
  unfold getCtx
  cases hf : s.ctxs.find? (fun x => decide (x.id = c)) with
  | some z => rfl
  | none =>
    have := List.find?_eq_none.mp hf y hy
    simp [hid] at this

/-- exempting c: whatever happens to context c, the other contexts' waiters keep their witnesses -/
theorem setCtx_K_ex (s : State) (c : Nat) (f : Ctx → Ctx) (h : K none s) : K (some c) (setCtx s c f) := by
  constructor
  · exact h.rid
  · exact h.nd
  · intro p hp hne
    have hpc : p.ctx ≠ c := fun e => hne (by rw [e])
    obtain ⟨x, hx, h1, h2, h3⟩ := h.rlive p hp (by simp)
    refine ⟨x, ?_, h1, h2, h3⟩
    have := setCtx_mem s c f x hx
    have hxc : ¬ x.id = c := by rw [h1]; exact hpc
    simpa [hxc] using this
  · intro p hp hne
    have hpc : p.ctx ≠ c := fun e => hne (by rw [e])
    obtain ⟨x, hx, h1, h2⟩ := h.slive p hp (by simp)
    refine ⟨x, ?_, h1, h2⟩
    have := setCtx_mem s c f x hx
    have hxc : ¬ x.id = c := by rw [h1]; exact hpc
    simpa [hxc] using this

theorem K_unexempt (s : State) (c : Nat) (h : K (some c) s) (hr : ∀ q ∈ s.parkedRecv, q.ctx ≠ c) (hs : ∀ q ∈ s.parkedSend, q.ctx ≠ c) : K none s := by
  constructor
  · exact h.rid
  · exact h.nd
  · intro p hp _
    exact h.rlive p hp (by intro e; exact hr p hp (by simpa using e))
  · intro p hp _
    exact h.slive p hp (by intro e; exact hs p hp (by simpa using e))

theorem cancel_reqID (s : State) (c : Nat) (y : Ctx) (h : getCtx (cancel s c) c = some y) : y.reqID = 0 := by
  unfold cancel at h
  simp only [] at h
  split at h
  · rename_i hn
    rw [h] at hn; cases hn
  · rename_i x hx
    rw [getCtx_setCtx] at h
    case hf => intro y; rfl
    have hx' : getCtx { cancelSend s c with ctxByID := (cancelSend s c).ctxByID.filter (fun e => !(e.1 == x.reqID && x.reqID != 0) && e.2 != c) } c = some x := hx
    rw [hx'] at h
    have hid := getCtx_id _ _ _ hx
    simp only [Option.map_some, hid, if_true, Option.some.injEq] at h
    subst h
    rfl

theorem wakeSends_reqID (s : State) (c : Nat) (x : Ctx) (hx : getCtx s c = some x) (h0 : x.reqID = 0) (y : Ctx)
    (h : getCtx (wakeSends s c x).1 c = some y) : y.reqID = 0 := by
  simp only [wakeSends] at h
  split at h
  · rw [getCtx_setCtx] at h
    case hf => intro y; rfl
    cases hg : getCtx (let s1 : State := { s with parkedSend := _ }; { (cancelSend s1 c) with ctxByID := s1.ctxByID.filter (fun e => e.2 != c) }) c with
    | none => rw [hg] at h; cases h
    | some z =>
      rw [hg] at h
      have hid := getCtx_id _ _ _ hg
      simp only [Option.map_some, hid, if_true, Option.some.injEq] at h
      subst h
      rfl
  · change getCtx s c = some y at h
    rw [hx] at h
    cases h
    exact h0

theorem mem_clo_of_getCtx (s : State) (c : Nat) (y : Ctx) (h : getCtx s c = some y) : (c, y.closed) ∈ clo s := by
  obtain ⟨hm, hid⟩ := getCtx_mem s c y h
  simp only [clo, List.mem_map, Prod.mk.injEq]
  exact ⟨y, hm, hid, rfl⟩

theorem cancel_getCtx_isSome (s : State) (c : Nat) (h : (getCtx s c).isSome = true) : (getCtx (cancel s c) c).isSome = true := by
  cases hg : getCtx s c with
  | none => rw [hg] at h; cases h
  | some z =>
    have := mem_clo_of_getCtx s c z hg
    rw [← cancel_clo s c] at this
    exact getCtx_isSome_of_clo _ c _ this

theorem wakeSends_parkedRecv (s : State) (c : Nat) (x : Ctx) : (wakeSends s c x).1.parkedRecv = s.parkedRecv := by
  simp only [wakeSends]
  split <;> rfl

theorem cancel_parkedRecv (s : State) (c : Nat) : (cancel s c).parkedRecv = s.parkedRecv := by
  unfold cancel cancelSend
  simp only []
  split <;> rfl

theorem wakeRecv_clears (s : State) (c : Nat) (np : Bool) (evs : List (Nat × Ev))
    (hk : ∀ p ∈ s.parkedRecv, p.rid ≠ 0) (hnd : (s.parkedRecv.map (·.ctx)).Nodup)
    (h0 : ∀ y, getCtx s c = some y → y.reqID = 0) (hex : (getCtx s c).isSome = true) :
    ∀ q ∈ (wakeRecv s c np evs).1.parkedRecv, q.ctx ≠ c := by
  intro q hq hqc
  unfold wakeRecv at hq
  split at hq
  · rename_i hnone
    have := List.find?_eq_none.mp hnone q hq
    simp [hqc] at this
  · rename_i pr hpr
    have hmem : pr ∈ s.parkedRecv := List.mem_of_find?_eq_some hpr
    have hctx : pr.ctx = c := by have := List.find?_some hpr; simpa using this
    have hfilter : q ∈ s.parkedRecv.filter (fun p => p.call != pr.call) → False := by
      intro hf
      obtain ⟨hq0, hcall⟩ := List.mem_filter.mp hf
      have := eq_of_nodup_map_ctx s.parkedRecv hnd q pr hq0 hmem (hqc.trans hctx.symm)
      rw [this] at hcall
      simp at hcall
    split at hq
    · rename_i hn
      rw [hn] at hex; cases hex
    · rename_i y hy
      split at hq
      · rename_i hcond
        simp only [Bool.and_eq_true, beq_iff_eq] at hcond
        have := h0 y hy
        exact hk pr hmem (by rw [← hcond.1, this])
      · simp only [] at hq
        split at hq
        · exact hfilter hq
        · split at hq
          · exact hfilter hq
          · exact hfilter hq

/-- once the context's request has been cancelled no Recv stays parked on it -/
theorem wake_clears_recv (s : State) (c : Nat) (hex : (getCtx s c).isSome = true)
    (hk : ∀ p ∈ s.parkedRecv, p.rid ≠ 0) (hnd : (s.parkedRecv.map (·.ctx)).Nodup) :
    ∀ q ∈ (wake (cancel s c) c).1.parkedRecv, q.ctx ≠ c := by
  have hsome := cancel_getCtx_isSome s c hex
  unfold wake
  split
  · rename_i hn
    rw [hn] at hsome; cases hsome
  · rename_i y hy
    have hpr : (wakeSends (cancel s c) c y).1.parkedRecv = s.parkedRecv := by
      rw [wakeSends_parkedRecv, cancel_parkedRecv]
    apply wakeRecv_clears
    · rw [hpr]; exact hk
    · rw [hpr]; exact hnd
    · intro y' hy'
      exact wakeSends_reqID (cancel s c) c y hy (cancel_reqID s c y hy) y' hy'
    · have := mem_clo_of_getCtx _ c y hy
      rw [← wakeSends_clo (cancel s c) c y] at this
      exact getCtx_isSome_of_clo _ c _ this

/-- **closing a context wakes everything parked on it**, and leaves the invariant intact -/
theorem closeCtx_K (s : State) (c : Nat) (hex : (getCtx s c).isSome = true) (h : K none s) :
    K none (wake (cancel (setCtx s c (fun y => { y with closed := true })) c) c).1 := by
  have h1 : K (some c) (setCtx s c (fun y => { y with closed := true })) := setCtx_K_ex s c _ h
  have hex1 : (getCtx (setCtx s c (fun y => { y with closed := true })) c).isSome = true := by
    rw [getCtx_setCtx]
    case hf => intro y; rfl
    cases hg : getCtx s c with
    | none => rw [hg] at hex; cases hex
    | some z => rfl
  have h3 := wake_K (some c) _ c (cancel_K (some c) _ c h1)
  apply K_unexempt _ c h3
  · exact wake_clears_recv _ c hex1 h1.rid h1.nd
  · exact cancel_wakes_every_send _ c hex1

theorem closeOne_K (acc : State × List (Nat × Ev)) (c : Ctx) (hex : (getCtx acc.1 c.id).isSome = true) (h : K none acc.1) :
    K none (closeOne acc c).1 := by
  unfold closeOne
  split
  · exact h
  · exact closeCtx_K acc.1 c.id hex h

theorem closeOne_clo (acc : State × List (Nat × Ev)) (c : Ctx) :
    clo (closeOne acc c).1 = if c.closed then clo acc.1 else (clo acc.1).map (fun e => if e.1 = c.id then (e.1, true) else e) := by
  unfold closeOne
  split
  · rfl
  · simp only []
    rw [wake_clo, cancel_clo]
    simp only [clo, setCtx, List.map_map]
    apply List.map_congr_left
    intro y _
    simp only [Function.comp]
    split <;> rfl

theorem witness_of_clo (s : State) (c : Nat) (h : (c, false) ∈ clo s) : ∃ x ∈ s.ctxs, x.id = c ∧ x.closed = false := by
  simp only [clo, List.mem_map, Prod.mk.injEq] at h
  obtain ⟨y, hy, hid, hc⟩ := h
  exact ⟨y, hy, hid, hc⟩

theorem K_addSend (ex : Option Nat) (s : State) (p : Parked) (hw : ∃ x ∈ s.ctxs, x.id = p.ctx ∧ x.closed = false) (h : K ex s) :
    K ex { s with parkedSend := s.parkedSend ++ [p] } := by
  constructor
  · exact h.rid
  · exact h.nd
  · exact h.rlive
  · intro q hq hne
    simp only [List.mem_append, List.mem_singleton] at hq
    rcases hq with hq | rfl
    · exact h.slive q hq hne
    · exact hw

theorem K_appendCtx (ex : Option Nat) (s : State) (n : Ctx) (h : K ex s) : K ex { s with ctxs := s.ctxs ++ [n] } := by
  constructor
  · exact h.rid
  · exact h.nd
  · intro p hp hne
    obtain ⟨x, hx, hr⟩ := h.rlive p hp hne
    exact ⟨x, List.mem_append_left _ hx, hr⟩
  · intro p hp hne
    obtain ⟨x, hx, hr⟩ := h.slive p hp hne
    exact ⟨x, List.mem_append_left _ hx, hr⟩

/-- a Recv parks: the context had no Recv in progress, so it is the only one -/
theorem K_addRecv (s : State) (c : Ctx) (np : Parked) (hJ : J s) (hc : getCtx s c.id = some c) (hopen : c.closed = false)
    (hrw : c.receiveWait = false) (hrid : np.rid ≠ 0) (hctx : np.ctx = c.id) (h : K none s) :
    K none (setCtx { s with parkedRecv := s.parkedRecv ++ [np] } c.id (fun y => { y with receiveWait := true })) := by
  obtain ⟨hcm, _⟩ := getCtx_mem s c.id c hc
  have hnone : ∀ p ∈ s.parkedRecv, p.ctx ≠ c.id := by
    intro p hp e
    obtain ⟨x, hx, h1, _, h3⟩ := h.rlive p hp (by simp)
    have : x = c := eq_of_nodup_map_id s.ctxs hJ.uniq x c hx hcm (h1.trans e)
    rw [this, hrw] at h3
    cases h3
  constructor
  · intro p hp
    simp only [setCtx, List.mem_append, List.mem_singleton] at hp
    rcases hp with hp | rfl
    · exact h.rid p hp
    · exact hrid
  · show ((s.parkedRecv ++ [np]).map (·.ctx)).Nodup
    simp only [List.map_append, List.map_cons, List.map_nil]
    rw [List.nodup_append]
    refine ⟨h.nd, by simp, ?_⟩
    intro a ha b hb
    simp only [List.mem_singleton] at hb
    subst hb
    simp only [List.mem_map] at ha
    obtain ⟨q, hq, rfl⟩ := ha
    rw [hctx]
    exact hnone q hq
  · intro p hp _
    simp only [setCtx, List.mem_append, List.mem_singleton] at hp
    rcases hp with hp | rfl
    · obtain ⟨x, hx, h1, h2, h3⟩ := h.rlive p hp (by simp)
      refine ⟨x, ?_, h1, h2, h3⟩
      have := setCtx_mem { s with parkedRecv := s.parkedRecv ++ [np] } c.id (fun y => { y with receiveWait := true }) x hx
      have hxc : ¬ x.id = c.id := by rw [h1]; exact hnone p hp
      simpa [hxc] using this
    · refine ⟨{ c with receiveWait := true }, ?_, hctx.symm, hopen, rfl⟩
      have := setCtx_mem s c.id (fun y => { y with receiveWait := true }) c hcm
      simpa [setCtx] using this
  · intro p hp _
    obtain ⟨x, hx, h1, h2⟩ := h.slive p hp (by simp)
    refine ⟨_, setCtx_mem { s with parkedRecv := s.parkedRecv ++ [np] } c.id (fun y => { y with receiveWait := true }) x hx, ?_⟩
    split
    · exact ⟨h1, h2⟩
    · exact ⟨h1, h2⟩

theorem foldl_mem {α β : Type} (f : β → α → β) (P : β → Prop) :
    ∀ (l : List α) (b : β), (∀ b a, a ∈ l → P b → P (f b a)) → P b → P (l.foldl f b) := by
  intro l
  induction l with
  | nil => intro b _ h; exact h
  | cons a as ih =>
    intro b hf h
    exact ih _ (fun b' a' ha' hb' => hf b' a' (List.mem_cons_of_mem _ ha') hb') (hf b a (by simp) h)

theorem closeOne_ids (acc : State × List (Nat × Ev)) (c : Ctx) : (clo (closeOne acc c).1).map Prod.fst = (clo acc.1).map Prod.fst := by
  rw [closeOne_clo]
  split
  · rfl
  · simp only [List.map_map]
    apply List.map_congr_left
    intro e _
    simp only [Function.comp]
    split <;> rfl

theorem getCtx_isSome_of_ids (s : State) (c : Nat) (h : c ∈ (clo s).map Prod.fst) : (getCtx s c).isSome = true := by
  simp only [List.mem_map] at h
  obtain ⟨e, he, rfl⟩ := h
  exact getCtx_isSome_of_clo s e.1 e.2 he

theorem core_K (s : State) (now : Nat) (op : List String) (hJ : J s) (h : K none s) : ∀ r ∈ core s now op, K none r.1 := by
  intro r hr
  unfold core at hr
  split at hr
  · -- addpipe
    split at hr
    · simp at hr; subst hr; exact h
    · simp at hr; subst hr
      exact pump_K none _ _ _ (K_same none s _ h rfl rfl rfl)
  · -- rmpipe
    simp only [List.mem_map] at hr
    obtain ⟨r0, hr0, rfl⟩ := hr
    exact dropPipe_K none s _ _ h r0 hr0
  · -- inject
    rename_i p b
    try simp only [] at hr
    split at hr
    · simp at hr; subst hr; exact h
    · split at hr
      · simp at hr; subst hr; exact h
      · try simp only [] at hr
        have h0 : ∀ q, K none ({ s with readyQ := q } : State) := fun q => K_same none s _ h rfl rfl rfl
        split at hr
        · simp at hr; subst hr; exact h0 _
        · rename_i rid c hfind
          simp at hr; subst hr
          apply wake_K
          have h1 := cancelSend_K none _ c (h0 (swapFront s.readyQ (natOf p)))
          exact setCtx_K none _ c _ (fun y => ⟨rfl, rfl, rfl⟩) (K_same none _ _ h1 rfl rfl rfl)
  · -- send
    rename_i call ctx hd b
    simp only [] at hr
    split at hr
    · simp at hr
    · rename_i c hc
      split at hr
      · simp at hr; subst hr; exact K_same none s _ h rfl rfl rfl
      · rename_i hclosed
        split at hr
        · simp at hr; subst hr; exact K_same none s _ h rfl rfl rfl
        · have hcid : c.id = natOf ctx := getCtx_id s _ c hc
          have hopen : c.closed = false := by
            simp only [Bool.or_eq_true, not_or, Bool.not_eq_true] at hclosed
            exact hclosed.2
          have h0 : K none { s with nsent := s.nsent + 1, sent := s.sent ++ [(s.nsent + 1, bytesOf b)] } := K_same none s _ h rfl rfl rfl
          have h1 := cancel_K none _ c.id h0
          have h2 : K none (setCtx { (cancel { s with nsent := s.nsent + 1, sent := s.sent ++ [(s.nsent + 1, bytesOf b)] } c.id) with sendQ := (cancel { s with nsent := s.nsent + 1, sent := s.sent ++ [(s.nsent + 1, bytesOf b)] } c.id).sendQ ++ [c.id] } c.id (fun y => { y with reqID := s.nsent + 1, queued := true, sendMsg := some (bytesOf b), sendFor := s.nsent + 1, sendAbort := false })) :=
            setCtx_K none _ c.id _ (fun y => ⟨rfl, rfl, rfl⟩) (K_same none _ _ h1 rfl rfl rfl)
          have h3 := wake_K none _ c.id h2
          -- the context is still there and still open
          have hclo : (c.id, false) ∈ clo s := by
            have := mem_clo_of_getCtx s (natOf ctx) c hc
            rw [hopen, ← hcid] at this; exact this
          have hclo3 : (c.id, false) ∈ clo (wake (setCtx { (cancel { s with nsent := s.nsent + 1, sent := s.sent ++ [(s.nsent + 1, bytesOf b)] } c.id) with sendQ := (cancel { s with nsent := s.nsent + 1, sent := s.sent ++ [(s.nsent + 1, bytesOf b)] } c.id).sendQ ++ [c.id] } c.id (fun y => { y with reqID := s.nsent + 1, queued := true, sendMsg := some (bytesOf b), sendFor := s.nsent + 1, sendAbort := false })) c.id).1 := by
            rw [wake_clo]
            have e1 : clo (setCtx { (cancel { s with nsent := s.nsent + 1, sent := s.sent ++ [(s.nsent + 1, bytesOf b)] } c.id) with sendQ := (cancel { s with nsent := s.nsent + 1, sent := s.sent ++ [(s.nsent + 1, bytesOf b)] } c.id).sendQ ++ [c.id] } c.id (fun y => { y with reqID := s.nsent + 1, queued := true, sendMsg := some (bytesOf b), sendFor := s.nsent + 1, sendAbort := false })) = clo (cancel { s with nsent := s.nsent + 1, sent := s.sent ++ [(s.nsent + 1, bytesOf b)] } c.id) :=
              setCtx_clo _ c.id _ (fun y => ⟨rfl, rfl⟩)
            rw [e1, cancel_clo]
            exact hclo
          have hw := witness_of_clo _ c.id hclo3
          split at hr
          · simp at hr
          split at hr
          · simp at hr; subst hr
            refine K_sub none (pump _ _ _).1 _ ?_ rfl (List.Sublist.refl _) (fun p hp => (List.mem_filter.mp hp).1)
            apply pump_K
            exact K_addSend none _ _ hw h3
          · simp at hr; subst hr
            apply pump_K
            exact K_addSend none _ _ hw h3
  · -- recv
    rename_i call ctx
    simp only [] at hr
    split at hr
    · simp at hr
    · rename_i c hc
      split at hr
      · simp at hr; subst hr; exact h
      · rename_i hclosed
        split at hr
        · simp at hr; subst hr; exact h
        · split at hr
          · simp at hr; subst hr; exact h
          · rename_i hguard
            split at hr
            · simp at hr
            simp at hr; subst hr
            have hcid : c.id = natOf ctx := getCtx_id s _ c hc
            have hopen : c.closed = false := by
              simp only [Bool.or_eq_true, not_or, Bool.not_eq_true] at hclosed
              exact hclosed.2
            simp only [Bool.or_eq_true, beq_iff_eq, not_or, Bool.not_eq_true] at hguard
            apply wake_K
            exact K_addRecv s c _ hJ (by rw [hcid]; exact hc) hopen hguard.1 hguard.2 rfl h
  · simp at hr; subst hr; exact setCtx_K none s _ _ (fun y => ⟨rfl, rfl, rfl⟩) h
  · simp at hr; subst hr; exact setCtx_K none s _ _ (fun y => ⟨rfl, rfl, rfl⟩) h
  · simp at hr; subst hr; exact setCtx_K none s _ _ (fun y => ⟨rfl, rfl, rfl⟩) h
  · simp at hr; subst hr; exact setCtx_K none s _ _ (fun y => ⟨rfl, rfl, rfl⟩) h
  · simp at hr; subst hr; exact setCtx_K none s _ _ (fun y => ⟨rfl, rfl, rfl⟩) h
  · simp at hr; subst hr; exact K_same none s _ h rfl rfl rfl
  · -- release ok
    split at hr
    · simp at hr
    · rename_i pp hpp
      split at hr
      · simp at hr
      · simp only [] at hr
        simp at hr; subst hr
        apply pump_K
        have h1 : K none (setPipe s pp.id (fun x => { x with inflight := none })) := K_same none s _ h rfl rfl rfl
        split
        · exact h1
        · exact K_same none _ _ h1 rfl rfl rfl
  · -- release err
    simp only [List.mem_map] at hr
    obtain ⟨r0, hr0, rfl⟩ := hr
    exact dropPipe_K none s _ _ h r0 hr0
  · -- openctx
    split at hr
    · simp at hr; subst hr; exact h
    · split at hr
      · simp at hr
      · split at hr
        · simp at hr
        · simp at hr; subst hr
          exact K_appendCtx none s _ h
  · -- closectx
    split at hr
    · simp at hr
    · rename_i c hc
      split at hr
      · simp at hr; subst hr; exact h
      · simp at hr; subst hr
        have hcid := getCtx_id s _ c hc
        apply closeCtx_K s c.id _ h
        rw [hcid, hc]; rfl
  · simp at hr; subst hr; exact h
  · -- close
    split at hr
    · simp at hr; subst hr; exact h
    · simp at hr; subst hr
      have := foldl_mem closeOne (fun acc : State × List (Nat × Ev) => K none acc.1 ∧ (clo acc.1).map Prod.fst = (clo s).map Prod.fst)
        s.ctxs ({ s with closed := true }, []) ?_ ⟨K_same none s _ h rfl rfl rfl, rfl⟩
      · exact this.1
      · intro acc c hcm hacc
        refine ⟨closeOne_K acc c ?_ hacc.1, (closeOne_ids acc c).trans hacc.2⟩
        apply getCtx_isSome_of_ids
        rw [hacc.2]
        simp only [clo, List.map_map, List.mem_map]
        exact ⟨c, hcm, rfl⟩
  · simp at hr

theorem init_K : K none init := by
  constructor <;> simp [init]

theorem step_K (s : State) (op : List String) (hJ : J s) (h : K none s) : ∀ o ∈ step s op, K none o.1 := by
  intro o ho
  simp only [step, List.mem_flatMap, List.mem_map] at ho
  obtain ⟨st, hst, r, hr, r2, hr2, rfl⟩ := ho
  have h1 := timerOutcomes_K none s _ h st hst
  have j1 := timerOutcomes_J s _ hJ st hst
  have h2 := core_K st.1 _ _ j1 h1 r hr
  exact timerOutcomes_K none { r.1 with tprev := opTime op } _ (K_same none r.1 _ h2 rfl rfl rfl) r2 hr2

theorem reach_K (s : State) (h : Reach s) : K none s := by
  induction h with
  | init => exact init_K
  | step s op o hs ho ih => exact step_K s op (reach_J s hs) ih o ho

/-! ### Socket close -/

theorem cancel_sclosed (s : State) (c : Nat) : (cancel s c).closed = s.closed := by
  unfold cancel cancelSend
  simp only []
  split <;> rfl

theorem wakeSends_sclosed (s : State) (c : Nat) (x : Ctx) : (wakeSends s c x).1.closed = s.closed := by
  simp only [wakeSends]
  split <;> rfl

theorem wakeRecv_sclosed (s : State) (c : Nat) (np : Bool) (evs : List (Nat × Ev)) : (wakeRecv s c np evs).1.closed = s.closed := by
  unfold wakeRecv
  split
  · rfl
  · split
    · rfl
    · split
      · rfl
      · simp only []
        split
        · rfl
        · split <;> rfl

theorem wake_sclosed (s : State) (c : Nat) : (wake s c).1.closed = s.closed := by
  unfold wake
  split
  · rfl
  · rw [wakeRecv_sclosed, wakeSends_sclosed]

theorem closeOne_sclosed (acc : State × List (Nat × Ev)) (c : Ctx) : (closeOne acc c).1.closed = acc.1.closed := by
  unfold closeOne
  split
  · rfl
  · simp only []
    rw [wake_sclosed, cancel_sclosed]
    rfl

theorem closeFold_sclosed : ∀ (l : List Ctx) (acc : State × List (Nat × Ev)), (l.foldl closeOne acc).1.closed = acc.1.closed := by
  intro l
  induction l with
  | nil => intro acc; rfl
  | cons c t ih => intro acc; simp only [List.foldl_cons]; rw [ih, closeOne_sclosed]

/-- after the fold over all contexts every context is closed -/
theorem closeFold_all_closed : ∀ (l : List Ctx) (acc : State × List (Nat × Ev)),
    (∀ e ∈ clo acc.1, e.2 = false → ∃ c ∈ l, c.id = e.1 ∧ c.closed = false) → ∀ e ∈ clo (l.foldl closeOne acc).1, e.2 = true := by
  intro l
  induction l with
  | nil =>
    intro acc h e he
    cases hb : e.2 with
    | true => rfl
    | false => obtain ⟨c, hc, _⟩ := h e he hb; simp at hc
  | cons c t ih =>
    intro acc h
    simp only [List.foldl_cons]
    apply ih
    intro e' he' hopen
    rw [closeOne_clo] at he'
    split at he'
    · rename_i hcc
      obtain ⟨c', hc', hid, hcl⟩ := h e' he' hopen
      simp only [List.mem_cons] at hc'
      rcases hc' with rfl | hc'
      · rw [hcc] at hcl; cases hcl
      · exact ⟨c', hc', hid, hcl⟩
    · simp only [List.mem_map] at he'
      obtain ⟨e, he, rfl⟩ := he'
      split at hopen
      · cases hopen
      · rename_i hne
        obtain ⟨c', hc', hid, hcl⟩ := h e he hopen
        simp only [List.mem_cons] at hc'
        rcases hc' with rfl | hc'
        · exact absurd hid.symm hne
        · refine ⟨c', hc', ?_, hcl⟩
          simp only [hne, if_false]; exact hid

/-- **Close wakes every call**: in any reachable state of an open REQ socket — any number of contexts, Sends waiting
    for a pipe, Recvs waiting for replies, deadlines and retries pending — after Close no Send and no Recv is parked
    any more and the socket is closed -/
theorem close_wakes_all (s : State) (hs : Reach s) (hopen : s.closed = false) (now : Nat) :
    ∀ r ∈ core s now ["close"], r.1.closed = true ∧ r.1.parkedSend = [] ∧ r.1.parkedRecv = [] := by
  intro r hr
  have hK := core_K s now ["close"] (reach_J s hs) (reach_K s hs) r hr
  simp only [core, hopen] at hr
  simp at hr; subst hr
  have hall := closeFold_all_closed s.ctxs ({ s with closed := true }, []) (by
    intro e he hopen
    simp only [clo, List.mem_map] at he
    obtain ⟨y, hy, rfl⟩ := he
    exact ⟨y, hy, rfl, hopen⟩)
  refine ⟨by rw [closeFold_sclosed], ?_, ?_⟩
  · cases hp : (s.ctxs.foldl closeOne ({ s with closed := true }, [])).1.parkedSend with
    | nil => rfl
    | cons p t =>
      exfalso
      obtain ⟨x, hx, _, hcl⟩ := hK.slive p (by rw [hp]; simp) (by simp)
      have := hall (x.id, x.closed) (by simp only [clo, List.mem_map]; exact ⟨x, hx, rfl⟩)
      simp only at this
      rw [hcl] at this; cases this
  · cases hp : (s.ctxs.foldl closeOne ({ s with closed := true }, [])).1.parkedRecv with
    | nil => rfl
    | cons p t =>
      exfalso
      obtain ⟨x, hx, _, hcl, _⟩ := hK.rlive p (by rw [hp]; simp) (by simp)
      have := hall (x.id, x.closed) (by simp only [clo, List.mem_map]; exact ⟨x, hx, rfl⟩)
      simp only at this
      rw [hcl] at this; cases this

/-- **closing a context wakes its own waiters**: in any reachable state, after closectx no call is parked on that
    context (and the invariant, hence every other context's waiters, is untouched) -/
theorem closectx_wakes_its_waiters (s : State) (hs : Reach s) (now : Nat) (id : String) (c : Ctx)
    (hc : getCtx s (natOf id) = some c) (hopen : c.closed = false) :
    ∀ r ∈ core s now ["closectx", id], (∀ q ∈ r.1.parkedSend, q.ctx ≠ c.id) ∧ (∀ q ∈ r.1.parkedRecv, q.ctx ≠ c.id) := by
  intro r hr
  have hK := reach_K s hs
  simp only [core, hc, hopen] at hr
  simp at hr; subst hr
  have hcid := getCtx_id s _ c hc
  have hex1 : (getCtx (setCtx s c.id (fun y => { y with closed := true })) c.id).isSome = true := by
    rw [getCtx_setCtx]
    case hf => intro y; rfl
    rw [hcid, hc]; rfl
  have h1 : K (some c.id) (setCtx s c.id (fun y => { y with closed := true })) := setCtx_K_ex s c.id _ hK
  exact ⟨cancel_wakes_every_send _ c.id hex1, wake_clears_recv _ c.id hex1 h1.rid h1.nd⟩

end Req
end Proto
end Model
