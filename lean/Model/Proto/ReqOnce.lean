/-
  Model/Proto/ReqOnce.lean — REQ: each request yields at most one delivered reply, over every history.
  Ghost list `deliveredFor`: the request number each reply returned by Recv was delivered for.  Invariant A: the list
  has no duplicates; its entries are positive numbers that were given out; and no context is still working on a
  request that has been delivered for (so neither a duplicate nor a late retry answer can be delivered for it).
-/
import Model.Proto.ReqDead
namespace Model
namespace Proto
namespace Req

structure A (s : State) : Prop where
  rid : ∀ p ∈ s.parkedRecv, p.rid ≠ 0
  bound : ∀ k ∈ s.deliveredFor, k ≠ 0 ∧ k ≤ s.nsent
  done : ∀ k ∈ s.deliveredFor, ∀ d x, getCtx s d = some x → x.reqID ≠ k
  once : s.deliveredFor.Nodup

theorem A_same (s s' : State) (h : A s) (hc : s'.ctxs = s.ctxs) (hd : s'.deliveredFor = s.deliveredFor) (hn : s.nsent ≤ s'.nsent)
    (hp : ∀ p ∈ s'.parkedRecv, p.rid ≠ 0) : A s' := by
  have hg : ∀ d, getCtx s' d = getCtx s d := fun d => by unfold getCtx; rw [hc]
  refine ⟨hp, ?_, ?_, by rw [hd]; exact h.once⟩
  · intro k hk; rw [hd] at hk
    exact ⟨(h.bound k hk).1, Nat.le_trans (h.bound k hk).2 hn⟩
  · intro k hk d x hx; rw [hd] at hk
    exact h.done k hk d x (by rw [← hg]; exact hx)

/-- an update of context c that keeps the request number or clears it -/
theorem setCtx_A (s : State) (c : Nat) (f : Ctx → Ctx) (hid : ∀ y, (f y).id = y.id)
    (hf : ∀ y, getCtx s c = some y → (f y).reqID = y.reqID ∨ (f y).reqID = 0) (h : A s) : A (setCtx s c f) := by
  refine ⟨h.rid, h.bound, ?_, h.once⟩
  intro k hk d x' hx'
  by_cases hdc : d = c
  · subst hdc
    cases hg : getCtx s d with
    | none => rw [getCtx_setCtx_none s d f hid hg d, hg] at hx'; cases hx'
    | some y =>
      rw [getCtx_setCtx_eq s d f hid y hg] at hx'; cases hx'
      rcases hf y hg with e | e
      · rw [e]; exact h.done k hk d y hg
      · rw [e]; exact fun e0 => (h.bound k hk).1 e0.symm
  · rw [getCtx_setCtx_ne s c d f hid hdc] at hx'
    exact h.done k hk d x' hx'

theorem cancelSend_A (s : State) (c : Nat) (h : A s) : A (cancelSend s c) := by
  unfold cancelSend
  exact setCtx_A _ c _ (fun y => rfl) (fun y _ => Or.inl rfl) (A_same s _ h rfl rfl (Nat.le_refl _) h.rid)

theorem cancel_A (s : State) (c : Nat) (h : A s) : A (cancel s c) := by
  unfold cancel
  simp only []
  have h1 := cancelSend_A s c h
  split
  · exact h1
  · rename_i x hx
    have h2 : A { cancelSend s c with ctxByID := (cancelSend s c).ctxByID.filter (fun e => !(e.1 == x.reqID && x.reqID != 0) && e.2 != c) } :=
      A_same _ _ h1 rfl rfl (Nat.le_refl _) h1.rid
    exact setCtx_A _ c _ (fun y => rfl) (fun y _ => Or.inr rfl) h2

theorem wakeSends_A (s : State) (c : Nat) (x : Ctx) (h : A s) : A (wakeSends s c x).1 := by
  simp only [wakeSends]
  have h1 : A { s with parkedSend := s.parkedSend.filter (fun p => !((s.parkedSend.filter (fun p => p.ctx == c &&
      (!(x.sendMsg.isSome && x.sendFor == p.rid) || p.expired || x.closed || (x.failNoPeers && s.pipes.isEmpty) || x.sendAbort))).any (fun q => q.call == p.call))) } :=
    A_same s _ h rfl rfl (Nat.le_refl _) h.rid
  split
  · have h2 := cancelSend_A _ c h1
    have h3 : A { (cancelSend { s with parkedSend := s.parkedSend.filter (fun p => !((s.parkedSend.filter (fun p => p.ctx == c &&
        (!(x.sendMsg.isSome && x.sendFor == p.rid) || p.expired || x.closed || (x.failNoPeers && s.pipes.isEmpty) || x.sendAbort))).any (fun q => q.call == p.call))) } c) with
        ctxByID := s.ctxByID.filter (fun e => e.2 != c) } := A_same _ _ h2 rfl rfl (Nat.le_refl _) h2.rid
    exact setCtx_A _ c _ (fun y => rfl) (fun y _ => Or.inr rfl) h3
  · exact h1

/-- a reply is returned for context c's current request y.reqID, which no other context shares and which has not been
    delivered for before: the context forgets the request -/
theorem deliver_A (S : State) (c : Nat) (y : Ctx) (F : Ctx → Ctx) (hy : getCtx S c = some y) (hid : ∀ z, (F z).id = z.id)
    (hF : ∀ z, (F z).reqID = 0) (hu : ∀ d x, d ≠ c → getCtx S d = some x → x.reqID ≠ y.reqID) (hnz : y.reqID ≠ 0)
    (hcid : y.reqID ≤ S.nsent) (h : A S) : A (setCtx { S with deliveredFor := S.deliveredFor ++ [y.reqID] } c F) := by
  have hnew : y.reqID ∉ S.deliveredFor := fun hm => h.done _ hm c y hy rfl
  constructor
  · exact h.rid
  · intro k hk
    have hk' : k ∈ S.deliveredFor ++ [y.reqID] := hk
    simp only [List.mem_append, List.mem_singleton] at hk'
    rcases hk' with hk' | rfl
    · exact h.bound k hk'
    · exact ⟨hnz, hcid⟩
  · intro k hk d x' hx'
    have hk' : k ∈ S.deliveredFor ++ [y.reqID] := hk
    simp only [List.mem_append, List.mem_singleton] at hk'
    have hknz : k ≠ 0 := by
      rcases hk' with hk' | rfl
      · exact (h.bound k hk').1
      · exact hnz
    by_cases hdc : d = c
    · subst hdc
      rw [getCtx_setCtx_eq { S with deliveredFor := S.deliveredFor ++ [y.reqID] } d F hid y hy] at hx'
      cases hx'
      rw [hF]; exact fun e0 => hknz e0.symm
    · rw [getCtx_setCtx_ne { S with deliveredFor := S.deliveredFor ++ [y.reqID] } c d F hid hdc] at hx'
      have hx0 : getCtx S d = some x' := hx'
      rcases hk' with hk' | rfl
      · exact h.done k hk' d x' hx0
      · exact hu d x' hdc hx0
  · show (S.deliveredFor ++ [y.reqID]).Nodup
    rw [List.nodup_append]
    refine ⟨h.once, by simp, ?_⟩
    intro a ha b hb
    simp only [List.mem_singleton] at hb
    subst hb
    exact fun e0 => hnew (e0 ▸ ha)

/-- the only place a reply is returned -/
theorem wakeRecv_A (s : State) (c : Nat) (np : Bool) (evs : List (Nat × Ev)) (hT : T s) (h : A s) : A (wakeRecv s c np evs).1 := by
  unfold wakeRecv
  split
  · exact h
  · rename_i pr hpr
    have hprm : pr ∈ s.parkedRecv := List.mem_of_find?_eq_some hpr
    split
    · exact h
    · rename_i y hy
      split
      · exact h
      · simp only []
        have hfil : ∀ p ∈ s.parkedRecv.filter (fun p => p.call != pr.call), p.rid ≠ 0 := fun p hp => h.rid p (List.mem_filter.mp hp).1
        have h3 : ∀ (dl : List (Nat × Nat × Nat)) (reg : List (Nat × Nat)),
            A { s with parkedRecv := s.parkedRecv.filter (fun p => p.call != pr.call), delivered := dl, ctxByID := reg } :=
          fun dl reg => A_same s _ h rfl rfl (Nat.le_refl _) hfil
        split
        · exact setCtx_A _ c _ (fun y => rfl) (fun y _ => Or.inl rfl) (h3 _ _)
        · rename_i hne
          have hrid : y.reqID = pr.rid := by simpa using hne
          split
          · rename_i m hm
            exact deliver_A { s with parkedRecv := s.parkedRecv.filter (fun p => p.call != pr.call), delivered := s.delivered ++ [(c, beDec m.1, enc y.reqID)], ctxByID := s.ctxByID.filter (fun e => e.2 != c) }
              c y (fun z => { z with reqID := 0, repMsg := none, receiveWait := false }) hy (fun z => rfl) (fun z => rfl)
              (fun d x hdc hx e0 => hdc (hT.uniq d c x y hx hy e0 (by rw [e0, hrid]; exact h.rid pr hprm)))
              (by rw [hrid]; exact h.rid pr hprm) (hT.ctx c y hy).cid (h3 _ _)
          · exact h3 _ _

theorem wake_A (s : State) (c : Nat) (hT : T s) (h : A s) : A (wake s c).1 := by
  unfold wake
  split
  · exact h
  · rename_i x hx
    exact wakeRecv_A _ c _ _ (wakeSends_T s c x hx hT) (wakeSends_A s c x h)

def TA (s : State) : Prop := T s ∧ A s

theorem ite_wake_A (b : Bool) (s2 : State) (c : Nat) (hT : T s2) (h : A s2) :
    A (if b = true then wake s2 c else (s2, [])).1 := by
  cases b
  · exact h
  · exact wake_A s2 c hT h

theorem pumpTail_A (r3 : State × List (Nat × Ev)) (hold : Bool) (p : Nat) (f : Pipe → Pipe) (ev : List (Nat × Ev))
    (h : A r3.1) :
    A (if hold = true then (setPipe r3.1 p f, r3.2) else ({ r3.1 with readyQ := r3.1.readyQ ++ [p] }, r3.2 ++ ev)).1 := by
  cases hold
  · exact A_same _ _ h rfl rfl (Nat.le_refl _) h.rid
  · exact A_same _ _ h rfl rfl (Nat.le_refl _) h.rid

theorem pumpStep_A (arm : Nat × Nat) (s : State) (c p : Nat) (sq rq : List Nat) (x : Ctx) (pp : Pipe)
    (hs : s.sendQ = c :: sq) (hx : getCtx s c = some x) (hT : T s) (h : A s) : A (pumpStep arm s c p sq rq x pp).1 := by
  have h1 : A { s with sendQ := sq, readyQ := rq, ctxByID := if x.sendMsg.isSome then s.ctxByID.filter (fun e => e.2 != c) ++ [(x.reqID, c)] else s.ctxByID, txlog := s.txlog ++ [(p, x.reqID, (x.sendMsg.orElse (fun _ => x.reqMsg)).getD [])] } :=
    A_same s _ h rfl rfl (Nat.le_refl _) h.rid
  have h2 := setCtx_A _ c (fun y => { y with queued := false, reqMsg := some ((x.sendMsg.orElse (fun _ => x.reqMsg)).getD []), sendMsg := none, lastPipe := some p, timer := if y.resendTime > 0 then some { id := y.reqID, tmin := arm.1, tmax := arm.2, period := y.resendTime } else y.timer })
    (fun y => rfl) (fun y _ => Or.inl rfl) h1
  unfold pumpStep
  exact pumpTail_A _ _ _ _ _ (ite_wake_A _ _ _ (pumpMid_T arm s c p sq rq x hs hx hT) h2)

theorem pump_TA : ∀ (fuel : Nat) (arm : Nat × Nat) (s : State), TA s → TA (pump fuel arm s).1 := by
  intro fuel
  induction fuel with
  | zero => intro arm s h; exact h
  | succ n ih =>
    intro arm s h
    simp only [pump]
    split
    · rename_i c sq p rq hsq hrq
      split
      · rename_i x pp hx hp
        exact ih arm _ ⟨pumpStep_T arm s c p sq rq x pp hsq hx h.1, pumpStep_A arm s c p sq rq x pp hsq hx h.1 h.2⟩
      · exact ⟨T_same s _ h.1 rfl rfl rfl rfl (fun q hq => by rw [hsq]; exact List.mem_cons_of_mem _ hq),
          A_same s _ h.2 rfl rfl (Nat.le_refl _) h.2.rid⟩
    · exact h

theorem resend_TA (s : State) (arm : Nat × Nat) (c id : Nat) (h : TA s) : TA (resend s arm c id).1 := by
  obtain ⟨hT, hA⟩ := h
  unfold resend
  split
  · exact ⟨hT, hA⟩
  · rename_i x hx
    split
    · rename_i hc
      simp only [Bool.and_eq_true] at hc
      have hcx := hT.ctx c x hx
      have hrep : x.repMsg = none := by
        cases hr : x.repMsg with
        | none => rfl
        | some r =>
          have := hcx.replied (by rw [hr]; rfl)
          rw [this] at hc; exact absurd hc.1.2 (by simp)
      have hT1 := T_enqueue s c x hx (hcx.named hc.1.2) hrep (Or.inr hc.1.2) hT
      have hA1 : A { s with sendQ := s.sendQ ++ [c] } := A_same s _ hA rfl rfl (Nat.le_refl _) hA.rid
      apply pump_TA
      exact ⟨setCtx_T _ c (fun y => { y with queued := true }) (fun y => ⟨rfl, rfl, rfl, rfl, rfl⟩) hT1,
        setCtx_A _ c _ (fun y => rfl) (fun y _ => Or.inl rfl) hA1⟩
    · exact ⟨hT, hA⟩

theorem readyVariants_TA (st : State × List (Nat × Ev)) (h : TA st.1) : ∀ r ∈ readyVariants st, TA r.1 := by
  intro r hr
  refine ⟨readyVariants_T st h.1 r hr, ?_⟩
  unfold readyVariants at hr
  simp only [] at hr
  split at hr
  · simp at hr; subst hr; exact h.2
  · simp only [List.mem_map] at hr
    obtain ⟨m, _, rfl⟩ := hr
    exact A_same st.1 _ h.2 rfl rfl (Nat.le_refl _) h.2.rid

theorem timerRound_TA (now : Nat) (acc0 : List (State × List (Nat × Ev))) (ids : List Nat) (h : ∀ st ∈ acc0, TA st.1) :
    ∀ st ∈ timerRound now acc0 ids, TA st.1 := by
  unfold timerRound
  apply foldl_flatMap_all (fun st : State × List (Nat × Ev) => TA st.1) _ _ ids acc0 h
  intro cid st hst r hr
  split at hr
  · simp at hr; subst hr; exact hst
  · rename_i c _
    split at hr
    · simp at hr; subst hr; exact hst
    · rename_i t _
      have hf : TA (resend (setCtx st.1 c.id (fun y => { y with timer := none })) (t.tmin + t.period, now) c.id t.id).1 :=
        resend_TA _ _ _ _ ⟨setCtx_T _ _ _ (fun y => ⟨rfl, rfl, rfl, rfl, rfl⟩) hst.1,
          setCtx_A _ _ _ (fun y => rfl) (fun y _ => Or.inl rfl) hst.2⟩
      simp only [] at hr
      split at hr
      · refine readyVariants_TA _ ?_ r hr; exact hf
      · split at hr
        · rw [List.mem_cons] at hr
          rcases hr with rfl | hr
          · exact hst
          · refine readyVariants_TA _ ?_ r hr; exact hf
        · simp at hr; subst hr; exact hst

theorem mark_rid (pc : Nat) (v : Bool) (l : List Parked) (h : ∀ p ∈ l, p.rid ≠ 0) :
    ∀ p ∈ l.map (fun q => if q.call == pc then { q with expired := v, deadline := none } else q), p.rid ≠ 0 := by
  intro p hp
  simp only [List.mem_map] at hp
  obtain ⟨q, hq, rfl⟩ := hp
  cases (q.call == pc)
  · exact h q hq
  · exact h q hq

theorem deadlineFired_TA (st : State × List (Nat × Ev)) (isRecv : Bool) (p : Parked) (h : TA st.1) :
    TA (deadlineFired st isRecv p).1 := by
  refine ⟨deadlineFired_T st isRecv p h.1, ?_⟩
  obtain ⟨hT, hA⟩ := h
  unfold deadlineFired
  cases isRecv
  · simp only [Bool.false_eq_true, if_false]
    split
    · exact hA
    · have hmT : ∀ still : Bool, T { st.1 with parkedSend := st.1.parkedSend.map (fun q => if q.call == p.call then { q with expired := still, deadline := none } else q) } :=
        fun still => T_same st.1 _ hT rfl rfl rfl rfl (fun q hq => hq)
      have hm : ∀ still : Bool, A { st.1 with parkedSend := st.1.parkedSend.map (fun q => if q.call == p.call then { q with expired := still, deadline := none } else q) } :=
        fun still => A_same st.1 _ hA rfl rfl (Nat.le_refl _) hA.rid
      split
      · exact wake_A _ _ (cancel_T _ _ (hmT _)) (cancel_A _ _ (hm _))
      · exact hm _
  · simp only [if_true]
    split
    · exact hA
    · have hmT : ∀ still : Bool, T { st.1 with parkedRecv := st.1.parkedRecv.map (fun q => if q.call == p.call then { q with expired := still, deadline := none } else q) } :=
        fun still => T_same st.1 _ hT rfl rfl rfl rfl (fun q hq => hq)
      have hm : ∀ still : Bool, A { st.1 with parkedRecv := st.1.parkedRecv.map (fun q => if q.call == p.call then { q with expired := still, deadline := none } else q) } :=
        fun still => A_same st.1 _ hA rfl rfl (Nat.le_refl _) (mark_rid p.call still st.1.parkedRecv hA.rid)
      split
      · exact wake_A _ _ (cancel_T _ _ (hmT _)) (cancel_A _ _ (hm _))
      · exact hm _

theorem expireSends_TA (now : Nat) (s : State) (c : Nat) (h : TA s) : TA (expireSends now s c) :=
  ⟨expireSends_T now s c h.1, A_same s _ h.2 rfl rfl (Nat.le_refl _) h.2.rid⟩

theorem deadlineFire_TA (now : Nat) (st : State × List (Nat × Ev)) (isRecv : Bool) (p : Parked) (t : Timer) (h : TA st.1) :
    ∀ r ∈ deadlineFire now st isRecv p t, TA r.1 := by
  intro r hr
  have hE : TA (expireSends now st.1 p.ctx) := expireSends_TA now st.1 p.ctx h
  have hfired : ∀ r ∈ (if (isRecv && recvStill st.1 p && expireSends now st.1 p.ctx != st.1) = true
      then [deadlineFired st isRecv p, deadlineFired (expireSends now st.1 p.ctx, st.2) isRecv p]
      else [deadlineFired st isRecv p]), TA r.1 := by
    intro r hr
    split at hr
    · simp at hr
      rcases hr with rfl | rfl
      · exact deadlineFired_TA st isRecv p h
      · exact deadlineFired_TA (_, _) isRecv p hE
    · simp at hr; subst hr; exact deadlineFired_TA st isRecv p h
  unfold deadlineFire at hr
  simp only [] at hr
  split at hr
  · exact hfired r hr
  · split at hr
    · rw [List.mem_cons] at hr
      rcases hr with rfl | hr
      · exact h
      · exact hfired r hr
    · simp at hr; subst hr; exact h

theorem deadlineRound_TA (now : Nat) (acc0 : List (State × List (Nat × Ev))) (calls : List Nat) (h : ∀ st ∈ acc0, TA st.1) :
    ∀ st ∈ deadlineRound now acc0 calls, TA st.1 := by
  unfold deadlineRound
  apply foldl_flatMap_all (fun st : State × List (Nat × Ev) => TA st.1) _ _ calls acc0 h
  intro call st hst r hr
  split at hr
  · split at hr
    · exact deadlineFire_TA now st true _ _ hst r hr
    · simp at hr; subst hr; exact hst
  · split at hr
    · exact deadlineFire_TA now st false _ _ hst r hr
    · simp at hr; subst hr; exact hst
  · simp at hr; subst hr; exact hst

theorem timerOutcomes_TA (s : State) (now : Nat) (h : TA s) : ∀ st ∈ timerOutcomes s now, TA st.1 := by
  intro st hst
  unfold timerOutcomes at hst
  simp only [] at hst
  have h0 : ∀ st ∈ dedup (deadlineRound now [(s, [])] (s.parkedRecv.map (·.call) ++ s.parkedSend.map (·.call))), TA st.1 :=
    fun st hst => deadlineRound_TA now _ _ (by intro b hb; simp at hb; subst hb; exact h) st (mem_dedup _ st hst)
  have h1 := fun st hst => timerRound_TA now _ (s.ctxs.map (·.id)) h0 st (mem_dedup _ st hst)
  have h2 := fun st hst => timerRound_TA now _ (s.ctxs.map (·.id)) h1 st (mem_dedup _ st hst)
  have h3 := fun st hst => timerRound_TA now _ (s.ctxs.map (·.id)) h2 st (mem_dedup _ st hst)
  have h4 := fun st hst => timerRound_TA now _ (s.ctxs.map (·.id)) h3 st (mem_dedup _ st hst)
  exact h4 st (List.mem_of_mem_take hst)

theorem dropOne_TA (p : Nat) (acc : State × List (Nat × Ev) × List (Nat × Nat)) (c0 : Ctx) (h : TA acc.1) : TA (dropOne p acc c0).1 := by
  refine ⟨dropOne_T p acc c0 h.1, ?_⟩
  obtain ⟨hT, hA⟩ := h
  unfold dropOne
  split
  · exact hA
  · rename_i c _
    split
    · exact wake_A _ _ (cancel_T _ _ hT) (cancel_A _ _ hA)
    · split
      · have hT2 := setCtx_T acc.1 c.id (fun y => { y with lastPipe := none }) (fun y => ⟨rfl, rfl, rfl, rfl, rfl⟩) hT
        have h2 := setCtx_A acc.1 c.id (fun y => { y with lastPipe := none }) (fun y => rfl) (fun y _ => Or.inl rfl) hA
        split
        · exact wake_A _ _ (cancel_T _ _ hT2) (cancel_A _ _ h2)
        · exact cancelSend_A _ _ h2
      · exact hA

theorem dropResends_TA (arm : Nat × Nat) (todo : List (Nat × Nat)) (start : State × List (Nat × Ev)) (order : List Nat)
    (h : TA start.1) : TA (dropResends arm todo start order).1 := by
  unfold dropResends
  apply foldl_K _ (fun acc : State × List (Nat × Ev) => TA acc.1) _ order start h
  intro acc cid hacc
  split
  · exact hacc
  · exact resend_TA _ _ _ _ hacc

theorem dropPipe_TA (s : State) (arm : Nat × Nat) (p : Nat) (h : TA s) : ∀ r ∈ dropPipe s arm p, TA r.1 := by
  intro r hr
  unfold dropPipe at hr
  simp only [List.mem_flatMap] at hr
  obtain ⟨order, _, hr⟩ := hr
  refine readyVariants_TA _ ?_ r hr
  apply dropResends_TA
  apply foldl_K (dropOne p) (fun acc : State × List (Nat × Ev) × List (Nat × Nat) => TA acc.1) (fun b a hb => dropOne_TA p b a hb)
  exact ⟨T_same s _ h.1 rfl rfl rfl rfl (fun q hq => hq), A_same s _ h.2 rfl rfl (Nat.le_refl _) h.2.rid⟩

theorem closeOne_TA (acc : State × List (Nat × Ev)) (c : Ctx) (h : TA acc.1) : TA (closeOne acc c).1 := by
  refine ⟨closeOne_T acc c h.1, ?_⟩
  unfold closeOne
  split
  · exact h.2
  · exact wake_A _ _ (cancel_T _ _ (setCtx_T _ _ _ (fun y => ⟨rfl, rfl, rfl, rfl, rfl⟩) h.1))
      (cancel_A _ _ (setCtx_A _ _ _ (fun y => rfl) (fun y _ => Or.inl rfl) h.2))

theorem pump_A (fuel : Nat) (arm : Nat × Nat) (s : State) (hT : T s) (h : A s) : A (pump fuel arm s).1 :=
  (pump_TA fuel arm s ⟨hT, h⟩).2

/-- context c is given a number that has not been delivered for -/
theorem setCtx_A_fresh (S : State) (c : Nat) (f : Ctx → Ctx) (hid : ∀ y, (f y).id = y.id) (n : Nat) (hf : ∀ y, (f y).reqID = n)
    (hn : ∀ k ∈ S.deliveredFor, k ≠ n) (h : A S) : A (setCtx S c f) := by
  refine ⟨h.rid, h.bound, ?_, h.once⟩
  intro k hk d x' hx'
  by_cases hdc : d = c
  · subst hdc
    cases hg : getCtx S d with
    | none => rw [getCtx_setCtx_none S d f hid hg d, hg] at hx'; cases hx'
    | some y =>
      rw [getCtx_setCtx_eq S d f hid y hg] at hx'; cases hx'
      rw [hf]; exact fun e0 => hn k hk e0.symm
  · rw [getCtx_setCtx_ne S c d f hid hdc] at hx'
    exact h.done k hk d x' hx'

theorem A_appendCtx (s : State) (n : Ctx) (h0 : n.reqID = 0) (h : A s) : A { s with ctxs := s.ctxs ++ [n] } := by
  refine ⟨h.rid, h.bound, ?_, h.once⟩
  intro k hk d x hx
  rw [getCtx_append] at hx
  cases hg : getCtx s d with
  | some y =>
    rw [hg] at hx; simp at hx; subst hx
    exact h.done k hk d y hg
  | none =>
    rw [hg] at hx
    simp only [Option.none_or] at hx
    split at hx
    · cases hx; rw [h0]; exact fun e0 => (h.bound k hk).1 e0.symm
    · cases hx

theorem core_A (s : State) (now : Nat) (op : List String) (hT : T s) (h : A s) : ∀ r ∈ core s now op, A r.1 := by
  intro r hr
  unfold core at hr
  split at hr
  · -- addpipe
    split at hr
    · simp at hr; subst hr; exact h
    · simp at hr; subst hr
      exact pump_A _ _ _ (T_same s _ hT rfl rfl rfl rfl (fun q hq => hq)) (A_same s _ h rfl rfl (Nat.le_refl _) h.rid)
  · -- rmpipe
    simp only [List.mem_map] at hr
    obtain ⟨r0, hr0, rfl⟩ := hr
    exact (dropPipe_TA s _ _ ⟨hT, h⟩ r0 hr0).2
  · -- inject
    rename_i p b
    try simp only [] at hr
    split at hr
    · simp at hr; subst hr; exact h
    · split at hr
      · simp at hr; subst hr; exact h
      · try simp only [] at hr
        have hT0 : ∀ q, T ({ s with readyQ := q } : State) := fun q => T_same s _ hT rfl rfl rfl rfl (fun q hq => hq)
        have h0 : ∀ q, A ({ s with readyQ := q } : State) := fun q => A_same s _ h rfl rfl (Nat.le_refl _) h.rid
        split at hr
        · simp at hr; subst hr; exact h0 _
        · rename_i rid c hfind
          simp at hr; subst hr
          have hT1 := cancelSend_T _ c (hT0 (swapFront s.readyQ (natOf p)))
          have h1 := cancelSend_A _ c (h0 (swapFront s.readyQ (natOf p)))
          apply wake_A
          · exact storeReply_T _ c _ (cancelSend_not_queued _ c) (T_same _ _ hT1 rfl rfl rfl rfl (fun q hq => hq))
          · exact setCtx_A _ c _ (fun y => rfl) (fun y _ => Or.inl rfl) (A_same _ _ h1 rfl rfl (Nat.le_refl _) h1.rid)
  · -- send
    rename_i call ctx hd b
    simp only [] at hr
    split at hr
    · simp at hr
    · rename_i c hc
      have h0 : A { s with nsent := s.nsent + 1, sent := s.sent ++ [(s.nsent + 1, bytesOf b)] } := A_same s _ h rfl rfl (Nat.le_succ _) h.rid
      split at hr
      · simp at hr; subst hr; exact h0
      · split at hr
        · simp at hr; subst hr; exact h0
        · split at hr
          · simp at hr
          have hcid : c.id = natOf ctx := getCtx_id s _ c hc
          have hc0 : getCtx s c.id = some c := by rw [hcid]; exact hc
          obtain ⟨y1, hy1, hrm, hrp⟩ := cancel_getCtx_cleared s c.id c hc0
          have hT2 : T (setCtx { (cancel { s with nsent := s.nsent + 1, sent := s.sent ++ [(s.nsent + 1, bytesOf b)] } c.id) with sendQ := (cancel { s with nsent := s.nsent + 1, sent := s.sent ++ [(s.nsent + 1, bytesOf b)] } c.id).sendQ ++ [c.id] } c.id (fun y => { y with reqID := s.nsent + 1, queued := true, sendMsg := some (bytesOf b), sendFor := s.nsent + 1, sendAbort := false })) := by
            rw [cancel_nsent_comm]
            have hse : (cancel s c.id).sent = s.sent := by
              unfold cancel cancelSend
              simp only []
              split <;> rfl
            have := send_T (cancel s c.id) c.id (s.nsent + 1) y1 (bytesOf b) (by rw [cancel_nsent]; omega) hy1 hrm hrp (cancel_T s c.id hT)
            rw [hse] at this
            exact this
          have h1 := cancel_A _ c.id h0
          have h1' : A { (cancel { s with nsent := s.nsent + 1, sent := s.sent ++ [(s.nsent + 1, bytesOf b)] } c.id) with sendQ := (cancel { s with nsent := s.nsent + 1, sent := s.sent ++ [(s.nsent + 1, bytesOf b)] } c.id).sendQ ++ [c.id] } :=
            A_same _ _ h1 rfl rfl (Nat.le_refl _) h1.rid
          -- the new number has not been delivered for: it has not been given out before
          have h2 : A (setCtx { (cancel { s with nsent := s.nsent + 1, sent := s.sent ++ [(s.nsent + 1, bytesOf b)] } c.id) with sendQ := (cancel { s with nsent := s.nsent + 1, sent := s.sent ++ [(s.nsent + 1, bytesOf b)] } c.id).sendQ ++ [c.id] } c.id (fun y => { y with reqID := s.nsent + 1, queued := true, sendMsg := some (bytesOf b), sendFor := s.nsent + 1, sendAbort := false })) := by
            have hdf : (cancel { s with nsent := s.nsent + 1, sent := s.sent ++ [(s.nsent + 1, bytesOf b)] } c.id).deliveredFor = s.deliveredFor := by
              unfold cancel cancelSend
              simp only []
              split <;> rfl
            refine setCtx_A_fresh _ c.id _ (fun y => rfl) (s.nsent + 1) (fun y => rfl) ?_ h1'
            intro k hk
            have hk0 : k ∈ s.deliveredFor := by rw [← hdf]; exact hk
            have := (h.bound k hk0).2
            omega
          have hT3 := wake_T _ c.id hT2
          have h3 := wake_A _ c.id hT2 h2
          have hTadd : ∀ (ps : List Parked), T { (wake (setCtx { (cancel { s with nsent := s.nsent + 1, sent := s.sent ++ [(s.nsent + 1, bytesOf b)] } c.id) with sendQ := (cancel { s with nsent := s.nsent + 1, sent := s.sent ++ [(s.nsent + 1, bytesOf b)] } c.id).sendQ ++ [c.id] } c.id (fun y => { y with reqID := s.nsent + 1, queued := true, sendMsg := some (bytesOf b), sendFor := s.nsent + 1, sendAbort := false })) c.id).1 with parkedSend := ps } :=
            fun ps => T_same _ _ hT3 rfl rfl rfl rfl (fun q hq => hq)
          have hadd : ∀ (ps : List Parked), A { (wake (setCtx { (cancel { s with nsent := s.nsent + 1, sent := s.sent ++ [(s.nsent + 1, bytesOf b)] } c.id) with sendQ := (cancel { s with nsent := s.nsent + 1, sent := s.sent ++ [(s.nsent + 1, bytesOf b)] } c.id).sendQ ++ [c.id] } c.id (fun y => { y with reqID := s.nsent + 1, queued := true, sendMsg := some (bytesOf b), sendFor := s.nsent + 1, sendAbort := false })) c.id).1 with parkedSend := ps } :=
            fun ps => A_same _ _ h3 rfl rfl (Nat.le_refl _) h3.rid
          split at hr
          · simp at hr; subst hr
            have key : ∀ S : State, A S → ∀ f : Parked → Bool, A { S with parkedSend := S.parkedSend.filter f } :=
              fun S hS f => A_same S _ hS rfl rfl (Nat.le_refl _) hS.rid
            exact key _ (pump_A _ _ _ (hTadd _) (hadd _)) _
          · simp at hr; subst hr
            exact pump_A _ _ _ (hTadd _) (hadd _)
  · -- recv
    rename_i call ctx
    simp only [] at hr
    split at hr
    · simp at hr
    · rename_i c hc
      split at hr
      · simp at hr; subst hr; exact h
      · split at hr
        · simp at hr; subst hr; exact h
        · split at hr
          · simp at hr; subst hr; exact h
          · rename_i hstate
            split at hr
            · simp at hr
            simp at hr; subst hr
            have hrid : c.reqID ≠ 0 := by
              simp only [Bool.or_eq_true, not_or, Bool.not_eq_true, beq_eq_false_iff_ne] at hstate
              exact hstate.2
            have hT1 : T { s with parkedRecv := s.parkedRecv ++ [{ call := natOf call, ctx := c.id, rid := c.reqID, deadline := if c.recvExpire > 0 then some { id := c.reqID, tmin := s.tprev, tmax := now, period := c.recvExpire } else none }] } :=
              T_same s _ hT rfl rfl rfl rfl (fun q hq => hq)
            have h1 : A { s with parkedRecv := s.parkedRecv ++ [{ call := natOf call, ctx := c.id, rid := c.reqID, deadline := if c.recvExpire > 0 then some { id := c.reqID, tmin := s.tprev, tmax := now, period := c.recvExpire } else none }] } := by
              refine A_same s _ h rfl rfl (Nat.le_refl _) ?_
              intro p hp
              have hp' : p ∈ s.parkedRecv ++ [{ call := natOf call, ctx := c.id, rid := c.reqID, deadline := if c.recvExpire > 0 then some { id := c.reqID, tmin := s.tprev, tmax := now, period := c.recvExpire } else none }] := hp
              simp only [List.mem_append, List.mem_singleton] at hp'
              rcases hp' with hp' | rfl
              · exact h.rid p hp'
              · exact hrid
            apply wake_A
            · exact setCtx_T _ _ _ (fun y => ⟨rfl, rfl, rfl, rfl, rfl⟩) hT1
            · exact setCtx_A _ _ _ (fun y => rfl) (fun y _ => Or.inl rfl) h1
  · simp at hr; subst hr; exact setCtx_A s _ _ (fun y => rfl) (fun y _ => Or.inl rfl) h
  · simp at hr; subst hr; exact setCtx_A s _ _ (fun y => rfl) (fun y _ => Or.inl rfl) h
  · simp at hr; subst hr; exact setCtx_A s _ _ (fun y => rfl) (fun y _ => Or.inl rfl) h
  · simp at hr; subst hr; exact setCtx_A s _ _ (fun y => rfl) (fun y _ => Or.inl rfl) h
  · simp at hr; subst hr; exact setCtx_A s _ _ (fun y => rfl) (fun y _ => Or.inl rfl) h
  · simp at hr; subst hr; exact A_same s _ h rfl rfl (Nat.le_refl _) h.rid
  · -- release ok
    split at hr
    · simp at hr
    · rename_i pp hpp
      split at hr
      · simp at hr
      · simp only [] at hr
        simp at hr; subst hr
        have hT1 : T (setPipe s pp.id (fun x => { x with inflight := none })) := T_same s _ hT rfl rfl rfl rfl (fun q hq => hq)
        have h1 : A (setPipe s pp.id (fun x => { x with inflight := none })) := A_same s _ h rfl rfl (Nat.le_refl _) h.rid
        apply pump_A
        · split
          · exact hT1
          · exact T_same _ _ hT1 rfl rfl rfl rfl (fun q hq => hq)
        · split
          · exact h1
          · exact A_same _ _ h1 rfl rfl (Nat.le_refl _) h1.rid
  · -- release err
    simp only [List.mem_map] at hr
    obtain ⟨r0, hr0, rfl⟩ := hr
    exact (dropPipe_TA s _ _ ⟨hT, h⟩ r0 hr0).2
  · -- openctx
    split at hr
    · simp at hr; subst hr; exact h
    · split at hr
      · simp at hr
      · split at hr
        · simp at hr
        · simp at hr; subst hr
          exact A_appendCtx s _ rfl h
  · -- closectx
    split at hr
    · simp at hr
    · rename_i c hc
      split at hr
      · simp at hr; subst hr; exact h
      · simp at hr; subst hr
        exact wake_A _ _ (cancel_T _ _ (setCtx_T _ _ _ (fun y => ⟨rfl, rfl, rfl, rfl, rfl⟩) hT))
          (cancel_A _ _ (setCtx_A _ _ _ (fun y => rfl) (fun y _ => Or.inl rfl) h))
  · simp at hr; subst hr; exact h
  · -- close
    split at hr
    · simp at hr; subst hr; exact h
    · simp at hr; subst hr
      exact (foldl_K closeOne (fun acc : State × List (Nat × Ev) => TA acc.1) (fun b a hb => closeOne_TA b a hb) s.ctxs _
        ⟨T_same s _ hT rfl rfl rfl rfl (fun q hq => hq), A_same s _ h rfl rfl (Nat.le_refl _) h.rid⟩).2
  · simp at hr

theorem step_TA (s : State) (op : List String) (h : TA s) : ∀ o ∈ step s op, TA o.1 := by
  intro o ho
  simp only [step, List.mem_flatMap, List.mem_map] at ho
  obtain ⟨st, hst, r, hr, r2, hr2, rfl⟩ := ho
  have h1 := timerOutcomes_TA s _ h st hst
  have h2T := core_T st.1 _ _ h1.1 r hr
  have h2A := core_A st.1 _ _ h1.1 h1.2 r hr
  exact timerOutcomes_TA { r.1 with tprev := opTime op } _
    ⟨T_same r.1 _ h2T rfl rfl rfl rfl (fun q hq => hq), A_same r.1 _ h2A rfl rfl (Nat.le_refl _) h2A.rid⟩ r2 hr2

theorem reach_A (s : State) (h : Reach s) : A s := by
  have : TA s := by
    induction h with
    | init =>
      refine ⟨init_T, ?_, ?_, ?_, ?_⟩
      · intro p hp; simp [init] at hp
      · intro k hk; simp [init] at hk
      · intro k hk; simp [init] at hk
      · simp [init]
    | step s op o _ ho ih => exact step_TA s op ih o ho
  exact this.2

/-- over every history: each request yields at most one delivered reply — the list of the requests that the replies
    returned by Recv were delivered for has no duplicates, however many duplicate, late, retried or foreign replies
    arrived on however many pipes; and a request delivered for is one that was really made -/
theorem at_most_one_reply_per_request (s : State) (h : Reach s) :
    s.deliveredFor.Nodup ∧ ∀ k ∈ s.deliveredFor, k ≠ 0 ∧ k ≤ s.nsent :=
  ⟨(reach_A s h).once, (reach_A s h).bound⟩

/-- the ghost list is what Recv returns: the one place of the model that emits "Recv returned a message" (`wakeRecv`)
    either leaves the list alone and emits no such event, or appends the context's current request number and emits
    exactly one, carrying the stored reply -/
theorem wakeRecv_logs_what_it_returns (s : State) (c : Nat) (np : Bool) (evs : List (Nat × Ev)) :
    ((wakeRecv s c np evs).1.deliveredFor = s.deliveredFor ∧
      ∀ e ∈ (wakeRecv s c np evs).2, e ∈ evs ∨ ∃ call why, e = (call, Ev.retErr call why)) ∨
    (∃ (y : Ctx) (m : Msg) (pr : Parked), getCtx s c = some y ∧ y.repMsg = some m ∧ y.reqID = pr.rid ∧
      (wakeRecv s c np evs).1.deliveredFor = s.deliveredFor ++ [y.reqID] ∧
      (wakeRecv s c np evs).2 = evs ++ [(pr.call, Ev.retMsg pr.call m.1 m.2)]) := by
  unfold wakeRecv
  split
  · exact Or.inl ⟨rfl, fun e he => Or.inl he⟩
  · rename_i pr _
    split
    · exact Or.inl ⟨rfl, fun e he => Or.inl he⟩
    · rename_i y hy
      split
      · exact Or.inl ⟨rfl, fun e he => Or.inl he⟩
      · simp only []
        split
        · left
          refine ⟨rfl, ?_⟩
          intro e he
          simp only [List.mem_append, List.mem_singleton] at he
          rcases he with he | rfl
          · exact Or.inl he
          · exact Or.inr ⟨_, _, rfl⟩
        · rename_i hne
          split
          · rename_i m hm
            right
            exact ⟨y, m, pr, hy, hm, by simpa using hne, rfl, rfl⟩
          · exact Or.inl ⟨rfl, fun e he => Or.inl he⟩

end Req
end Proto
end Model
