/-
  Model/Proto/RepPipes.lean — REP / RESPONDENT / XREP / XRESPONDENT: a Send that is blocked waits on a pipe that is still
  connected (invariant M over all histories, every flavour), and the removal of a pipe releases every Send blocked on
  it.  Together with the core theorem that Socket.Close removes every pipe, this is what ends the raw sockets' blocked
  Sends at Close (they have no close case of their own beyond the pipe's).
-/
import Model.Proto.RepClose
namespace Model
namespace Proto
namespace Rep

def M (s : State) : Prop := ∀ x ∈ s.parkedSend, ∃ p ∈ s.pipes, p.id = x.pipe

theorem M_sub (s s' : State) (h : M s) (hs : ∀ x ∈ s'.parkedSend, x ∈ s.parkedSend)
    (hp : ∀ p ∈ s.pipes, ∃ p' ∈ s'.pipes, p'.id = p.id) : M s' := by
  intro x hx
  obtain ⟨p, hp1, hp2⟩ := h x (hs x hx)
  obtain ⟨p', hp'1, hp'2⟩ := hp p hp1
  exact ⟨p', hp'1, hp'2.trans hp2⟩

theorem M_same (s s' : State) (h : M s) (hs : s'.parkedSend = s.parkedSend) (hp : s'.pipes = s.pipes) : M s' :=
  M_sub s s' h (by rw [hs]; exact fun x hx => hx) (by rw [hp]; exact fun p hp => ⟨p, hp, rfl⟩)

theorem offer_id (p : OutPipe) (m : Msg) : (p.offer m).1.id = p.id := by
  unfold OutPipe.offer
  split
  · split <;> rfl
  · split <;> rfl

theorem drain_id (fuel : Nat) (p : OutPipe) : (OutPipe.drain fuel p).1.id = p.id := by
  induction fuel generalizing p with
  | zero => rfl
  | succ n ih =>
    simp only [OutPipe.drain]
    split
    · rfl
    · split
      · rfl
      · simp only []
        exact ih _

theorem releaseOk_id (p : OutPipe) : p.releaseOk.1.id = p.id := by
  unfold OutPipe.releaseOk
  split
  · rfl
  · simp only []
    exact drain_id _ _

theorem modifyPipe_ids (ps : List OutPipe) (id : Nat) (f : OutPipe → OutPipe) (hf : ∀ y ∈ ps, y.id = id → (f y).id = y.id) :
    ∀ p ∈ ps, ∃ p' ∈ modifyPipe ps id f, p'.id = p.id := by
  intro p hp
  refine ⟨if p.id = id then f p else p, ?_, ?_⟩
  · simp only [modifyPipe, List.mem_map]
    exact ⟨p, hp, rfl⟩
  · split
    · rename_i h; exact hf p hp h
    · rfl

theorem findPipe_mem (ps : List OutPipe) (id : Nat) (p : OutPipe) (h : findPipe ps id = some p) : p ∈ ps ∧ p.id = id := by
  unfold findPipe at h
  exact ⟨List.mem_of_find?_eq_some h, by simpa using List.find?_some h⟩

theorem deliverTo_M (s : State) (c call p : Nat) (m : Msg) (h : M s) : M (deliverTo s c call p m).1 := by
  unfold deliverTo
  split
  · exact M_same s _ h rfl rfl
  · exact h

theorem nextBacklog_M (s : State) (h : M s) (s' : State) (evs) (hp : progress.nextBacklog s = some (s', evs)) : M s' := by
  unfold progress.nextBacklog at hp
  split at hp
  · simp only [] at hp
    split at hp <;> (simp only [Option.some.injEq, Prod.mk.injEq] at hp; obtain ⟨rfl, _⟩ := hp; exact M_same s _ h rfl rfl)
  · simp at hp

theorem progress_M (s : State) (h : M s) (s' : State) (evs) (hp : progress s = some (s', evs)) : M s' := by
  unfold progress at hp
  split at hp
  · split at hp
    · simp only [] at hp
      simp only [Option.some.injEq, Prod.mk.injEq] at hp
      obtain ⟨rfl, _⟩ := hp
      refine M_sub s _ h (fun x hx => (List.mem_filter.mp hx).1) ?_
      exact modifyPipe_ids s.pipes _ _ (fun y _ hy => (offer_id _ _).trans hy.symm)
    · simp at hp
  · split at hp
    · simp only [] at hp
      simp only [Option.some.injEq, Prod.ext_iff] at hp
      rw [← hp.1]
      exact deliverTo_M _ _ _ _ _ (M_same s _ h rfl rfl)
    · split at hp
      · split at hp
        · simp only [] at hp
          simp only [Option.some.injEq, Prod.ext_iff] at hp
          rw [← hp.1]
          exact deliverTo_M _ _ _ _ _ (M_same s _ h rfl rfl)
        · split at hp
          · simp only [Option.some.injEq, Prod.mk.injEq] at hp
            obtain ⟨rfl, _⟩ := hp
            exact M_same s _ h rfl rfl
          · exact nextBacklog_M s h s' evs hp
      · exact nextBacklog_M s h s' evs hp

theorem settle_M (fuel : Nat) (s : State) (h : M s) : M (settle fuel s).1 := by
  induction fuel generalizing s with
  | zero => simpa [settle] using h
  | succ n ih =>
    simp only [settle]
    cases hp : progress s with
    | none => simpa using h
    | some r =>
      obtain ⟨s', evs⟩ := r
      exact ih s' (progress_M s h s' evs hp)

theorem settled_M (s : State) (pre evs) (h : M s) : M (settled s pre evs).1 := by
  simp only [settled]; exact settle_M _ s h

/-- the pipe goes away: no Send is blocked on it any more, and every other blocked Send still has its pipe -/
theorem dropPipe_M (s : State) (p : Nat) (h : M s) : M (dropPipe s p).1 := by
  have key : ∀ x ∈ s.parkedSend.filter (fun x => x.pipe != p), ∃ q ∈ removePipe s.pipes p, q.id = x.pipe := by
    intro x hx
    obtain ⟨hx1, hx2⟩ := List.mem_filter.mp hx
    have hne : x.pipe ≠ p := by simpa using hx2
    obtain ⟨q, hq1, hq2⟩ := h x hx1
    refine ⟨q, ?_, hq2⟩
    simp only [removePipe, List.mem_filter]
    exact ⟨hq1, by simpa [hq2] using hne⟩
  unfold dropPipe
  simp only []
  split <;> exact key

theorem dropPipe_releases (s : State) (p : Nat) : ∀ x ∈ (dropPipe s p).1.parkedSend, x.pipe ≠ p := by
  intro x hx
  have : x ∈ s.parkedSend.filter (fun x => x.pipe != p) := by
    unfold dropPipe at hx
    simp only [] at hx
    split at hx <;> exact hx
  simpa using (List.mem_filter.mp this).2

theorem closeCtx_M (s : State) (c : Nat) (h : M s) : M (closeCtx s c).1 := by
  unfold closeCtx
  simp only []
  exact M_sub s _ h (fun x hx => (List.mem_filter.mp hx).1) (fun p hp => ⟨p, hp, rfl⟩)

theorem sendTo_M (s : State) (call ctx p : Nat) (m : Msg) (orig : Bytes) (rp : Nat) (rh : Bytes) (h : M s) :
    ∀ o ∈ sendTo s call ctx p m orig rp rh, M o.1 := by
  intro o ho
  unfold sendTo at ho
  split at ho
  · split at ho
    · simp at ho
    · simp at ho; subst ho; exact h
  · split at ho
    · simp at ho; subst ho; exact h
    · rename_i op hop
      obtain ⟨hop1, hop2⟩ := findPipe_mem _ _ _ hop
      have hsent : ∀ rs, M { s with pipes := modifyPipe s.pipes p (fun _ => (op.offer m).1), replies := rs } := by
        intro rs
        refine M_sub s _ h (fun x hx => hx) ?_
        exact modifyPipe_ids s.pipes p _ (fun y _ hy => by rw [offer_id, hop2, hy])
      try simp only [] at ho
      split at ho
      · split at ho
        · simp at ho
          rcases ho with rfl | rfl
          · exact settled_M _ _ _ (hsent _)
          · exact h
        · simp at ho; subst ho; exact h
      · split at ho
        · simp at ho; subst ho; exact settled_M _ _ _ (hsent _)
        · simp at ho; subst ho
          intro x hx
          simp only [List.mem_append, List.mem_singleton] at hx
          rcases hx with hx | rfl
          · exact h x hx
          · exact ⟨op, hop1, hop2⟩

theorem closeAll_M (l : List Ctx) (acc : State × List (Nat × Ev)) (h : M acc.1) :
    M (l.foldl (fun (acc : State × List (Nat × Ev)) c => if c.closed then acc else
                let (s', evs) := closeCtx acc.1 c.id; (s', acc.2 ++ evs)) acc).1 := by
  induction l generalizing acc with
  | nil => simpa using h
  | cons c cs ih =>
    simp only [List.foldl_cons]
    apply ih
    split
    · exact h
    · exact closeCtx_M _ _ h

theorem step_M (s : State) (op : List String) (h : M s) : ∀ o ∈ step s op, M o.1 := by
  intro o ho
  unfold step at ho
  split at ho
  · -- addpipe
    split at ho <;> simp at ho <;> subst ho
    · exact h
    · exact M_sub s _ h (fun x hx => hx) (fun p hp => ⟨p, List.mem_append_left _ hp, rfl⟩)
  · -- rmpipe
    (try simp only [] at ho); simp at ho; subst ho
    exact settled_M _ _ _ (dropPipe_M s _ h)
  · -- inject
    split at ho
    · simp at ho; subst ho; exact settled_M _ _ _ (M_same s _ h rfl rfl)
    · simp at ho; subst ho; exact h
  · -- recv
    try simp only [] at ho
    split at ho
    · split at ho
      · simp at ho
      · split at ho
        · simp at ho; subst ho; exact h
        · split at ho
          · simp at ho; subst ho; exact h
          · try simp only [] at ho
            simp at ho; subst ho
            apply settled_M
            split <;> exact M_same s _ h rfl rfl
    · split at ho
      · split at ho
        · simp at ho; subst ho; exact h
        · simp at ho
          rcases ho with rfl | rfl
          · exact h
          · exact settled_M _ _ _ (M_same s _ h rfl rfl)
      · simp at ho; subst ho
        exact settled_M _ _ _ (M_same s _ h rfl rfl)
  · -- send
    try simp only [] at ho
    split at ho
    · split at ho
      · simp at ho
      · split at ho
        · simp at ho; subst ho; exact h
        · split at ho
          · simp at ho; subst ho; exact h
          · try simp only [] at ho
            split at ho
            · simp at ho
            · refine sendTo_M _ _ _ _ _ _ _ _ ?_ o ho
              exact M_same s _ h rfl rfl
    · split at ho
      · simp at ho; subst ho; exact h
      · try simp only [] at ho
        split at ho
        · simp at ho; subst ho; exact h
        · exact sendTo_M _ _ _ _ _ _ _ _ h o ho
  · simp at ho; subst ho; exact M_same s _ h rfl rfl
  · simp at ho; subst ho; exact M_same s _ h rfl rfl
  · simp at ho; subst ho; exact M_same s _ h rfl rfl
  · simp at ho; subst ho; exact h
  · -- expire
    split at ho
    · simp at ho
    · simp at ho; subst ho
      exact M_sub s _ h (fun x hx => (List.mem_filter.mp hx).1) (fun p hp => ⟨p, hp, rfl⟩)
  · -- hold
    simp at ho; subst ho
    exact M_sub s _ h (fun x hx => hx) (modifyPipe_ids s.pipes _ _ (fun y _ _ => rfl))
  · -- release ok
    split at ho
    · simp at ho
    · rename_i x hx
      obtain ⟨_, hx2⟩ := findPipe_mem _ _ _ hx
      simp only [] at ho; simp at ho; subst ho
      refine settled_M _ _ _ (M_sub s _ h (fun y hy => hy) ?_)
      exact modifyPipe_ids s.pipes x.id _ (fun y _ hy => by rw [releaseOk_id, hy])
  · -- release err
    (try simp only [] at ho); simp at ho; subst ho
    exact settled_M _ _ _ (dropPipe_M s _ h)
  · -- openctx
    split at ho
    · simp at ho; subst ho; exact h
    · split at ho
      · simp at ho; subst ho; exact h
      · simp at ho; subst ho
        exact M_same s _ h rfl rfl
  · -- closectx
    split at ho
    · simp at ho
    · split at ho
      · simp at ho; subst ho; exact h
      · simp only [] at ho; simp at ho; subst ho
        exact closeCtx_M s _ h
  · -- close
    split at ho
    · simp at ho; subst ho; exact h
    · split at ho
      · simp only [] at ho; simp at ho; subst ho
        exact M_same _ _ (closeAll_M s.ctxs (s, []) h) rfl rfl
      · simp only [] at ho; simp at ho; subst ho
        exact M_same s _ h rfl rfl
  · simp at ho

theorem init_M (f : Flavor) (site : HopSite) : M (init f site) := by
  cases f <;> (intro x hx; simp [init] at hx)

theorem reach_M (f : Flavor) (site : HopSite) (s : State) (h : Reach f site s) : M s := by
  induction h with
  | init => exact init_M f site
  | step s op o _ ho ih => exact step_M s op ih o ho

end Rep
end Proto
end Model
