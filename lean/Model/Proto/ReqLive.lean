/-
  Model/Proto/ReqLive.lean — REQ: an outstanding request is never stranded, over every history.
  A context that retains a request (transmitted, not yet answered or abandoned) is always *served*: it is in the send
  queue waiting for a ready pipe, or the pipe that last carried the request is still connected, or its retry timer is
  running for this very request.  So whatever sequence of pipe losses, timer firings, late replies and cancellations of
  other requests happens, there is always something that will transmit it again or is still carrying it.
-/
import Model.Proto.ReqReady
namespace Model
namespace Proto
namespace Req

/-- how a retained request is looked after -/
def Served (s : State) (d : Nat) (x : Ctx) : Prop :=
  d ∈ s.sendQ ∨ (∃ p, x.lastPipe = some p ∧ (getPipe s p).isSome = true) ∨ (∃ t, x.timer = some t ∧ t.id = x.reqID)

/-- `P` names contexts that are exempt for the moment (in the middle of a pipe removal) -/
structure Lv (P : Nat → Ctx → Prop) (s : State) : Prop where
  flag : ∀ d x, getCtx s d = some x → x.queued = true → d ∈ s.sendQ
  live : ∀ d x, getCtx s d = some x → x.reqMsg.isSome = true → Served s d x ∨ P d x

theorem Served_mono (s s' : State) (d : Nat) (x : Ctx) (hq : ∀ c ∈ s.sendQ, c ∈ s'.sendQ)
    (hp : ∀ p, (getPipe s p).isSome = true → (getPipe s' p).isSome = true) (h : Served s d x) : Served s' d x := by
  rcases h with h | ⟨p, h1, h2⟩ | h
  · exact Or.inl (hq d h)
  · exact Or.inr (Or.inl ⟨p, h1, hp p h2⟩)
  · exact Or.inr (Or.inr h)

theorem Lv_same (P : Nat → Ctx → Prop) (s s' : State) (h : Lv P s) (hc : s'.ctxs = s.ctxs) (hq : ∀ c ∈ s.sendQ, c ∈ s'.sendQ)
    (hp : ∀ p, (getPipe s p).isSome = true → (getPipe s' p).isSome = true) : Lv P s' := by
  have hg : ∀ d, getCtx s' d = getCtx s d := fun d => by unfold getCtx; rw [hc]
  constructor
  · intro d x hx hqd; exact hq d (h.flag d x (by rw [← hg]; exact hx) hqd)
  · intro d x hx hm
    rcases h.live d x (by rw [← hg]; exact hx) hm with h1 | h1
    · exact Or.inl (Served_mono s s' d x hq hp h1)
    · exact Or.inr h1

theorem Lv_eq (P : Nat → Ctx → Prop) (s s' : State) (h : Lv P s) (hc : s'.ctxs = s.ctxs) (hq : s'.sendQ = s.sendQ)
    (hp : s'.pipes = s.pipes) : Lv P s' :=
  Lv_same P s s' h hc (fun c hcq => by rw [hq]; exact hcq) (fun p hpp => by unfold getPipe at hpp ⊢; rw [hp]; exact hpp)

/-- an update of context c, given how the new value is looked after -/
theorem setCtx_Lv (P : Nat → Ctx → Prop) (s : State) (c : Nat) (f : Ctx → Ctx) (hid : ∀ y, (f y).id = y.id)
    (hflag : ∀ y, getCtx s c = some y → (f y).queued = true → c ∈ s.sendQ)
    (hlive : ∀ y, getCtx s c = some y → (f y).reqMsg.isSome = true → Served s c (f y) ∨ P c (f y))
    (h : Lv P s) : Lv P (setCtx s c f) := by
  constructor
  · intro d x' hx' hqd
    by_cases hdc : d = c
    · subst hdc
      cases hg : getCtx s d with
      | none => rw [getCtx_setCtx_none s d f hid hg d, hg] at hx'; cases hx'
      | some y =>
        rw [getCtx_setCtx_eq s d f hid y hg] at hx'; cases hx'
        exact hflag y hg hqd
    · rw [getCtx_setCtx_ne s c d f hid hdc] at hx'
      exact h.flag d x' hx' hqd
  · intro d x' hx' hm
    by_cases hdc : d = c
    · subst hdc
      cases hg : getCtx s d with
      | none => rw [getCtx_setCtx_none s d f hid hg d, hg] at hx'; cases hx'
      | some y =>
        rw [getCtx_setCtx_eq s d f hid y hg] at hx'; cases hx'
        rcases hlive y hg hm with h1 | h1
        · exact Or.inl (Served_mono s _ d _ (fun c hc => hc) (fun p hp => hp) h1)
        · exact Or.inr h1
    · rw [getCtx_setCtx_ne s c d f hid hdc] at hx'
      rcases h.live d x' hx' hm with h1 | h1
      · exact Or.inl (Served_mono s _ d _ (fun c hc => hc) (fun p hp => hp) h1)
      · exact Or.inr h1

/-- an update that leaves alone what `Served` and the flag look at -/
theorem setCtx_Lv_keep (P : Nat → Ctx → Prop) (s : State) (c : Nat) (f : Ctx → Ctx)
    (hf : ∀ y, (f y).id = y.id ∧ (f y).queued = y.queued ∧ (f y).reqMsg = y.reqMsg ∧ (f y).lastPipe = y.lastPipe ∧ (f y).timer = y.timer ∧ (f y).reqID = y.reqID)
    (hP : ∀ y, P c y → P c (f y)) (h : Lv P s) : Lv P (setCtx s c f) := by
  refine setCtx_Lv P s c f (fun y => (hf y).1) ?_ ?_ h
  · intro y hy hq
    rw [(hf y).2.1] at hq
    exact h.flag c y hy hq
  · intro y hy hm
    rw [(hf y).2.2.1] at hm
    rcases h.live c y hy hm with h1 | h1
    · left
      rcases h1 with h1 | ⟨p, h1, h2⟩ | ⟨t, h1, h2⟩
      · exact Or.inl h1
      · exact Or.inr (Or.inl ⟨p, by rw [(hf y).2.2.2.1]; exact h1, h2⟩)
      · exact Or.inr (Or.inr ⟨t, by rw [(hf y).2.2.2.2.1]; exact h1, by rw [(hf y).2.2.2.2.2]; exact h2⟩)
    · exact Or.inr (hP y h1)

/-- context c gives up its place in the send queue and its request: nothing retained, nothing to look after -/
theorem dequeue_Lv (P : Nat → Ctx → Prop) (s : State) (c : Nat) (f : Ctx → Ctx) (hid : ∀ y, (f y).id = y.id)
    (hq : ∀ y, (f y).queued = false) (hm : ∀ y, getCtx s c = some y → (f y).reqMsg = none) (h : Lv P s) :
    Lv P (setCtx { s with sendQ := s.sendQ.filter (· != c) } c f) := by
  constructor
  · intro d x' hx' hqd
    by_cases hdc : d = c
    · subst hdc
      cases hg : getCtx s d with
      | none =>
        have hg' : getCtx { s with sendQ := s.sendQ.filter (· != d) } d = none := hg
        rw [getCtx_setCtx_none _ d f hid hg' d, hg'] at hx'; cases hx'
      | some y =>
        have hg' : getCtx { s with sendQ := s.sendQ.filter (· != d) } d = some y := hg
        rw [getCtx_setCtx_eq _ d f hid y hg'] at hx'; cases hx'
        rw [hq] at hqd; cases hqd
    · rw [getCtx_setCtx_ne _ c d f hid hdc] at hx'
      have := h.flag d x' hx' hqd
      show d ∈ s.sendQ.filter (· != c)
      exact List.mem_filter.mpr ⟨this, by simpa using hdc⟩
  · intro d x' hx' hmm
    by_cases hdc : d = c
    · subst hdc
      cases hg : getCtx s d with
      | none =>
        have hg' : getCtx { s with sendQ := s.sendQ.filter (· != d) } d = none := hg
        rw [getCtx_setCtx_none _ d f hid hg' d, hg'] at hx'; cases hx'
      | some y =>
        have hg' : getCtx { s with sendQ := s.sendQ.filter (· != d) } d = some y := hg
        rw [getCtx_setCtx_eq _ d f hid y hg'] at hx'; cases hx'
        rw [hm y hg] at hmm; cases hmm
    · rw [getCtx_setCtx_ne _ c d f hid hdc] at hx'
      rcases h.live d x' hx' hmm with h1 | h1
      · left
        rcases h1 with h1 | h1 | h1
        · exact Or.inl (List.mem_filter.mpr ⟨h1, by simpa using hdc⟩)
        · exact Or.inr (Or.inl h1)
        · exact Or.inr (Or.inr h1)
      · exact Or.inr h1

/-- context c left the send queue and retains nothing; everything else is as it was -/
theorem Lv_char (P : Nat → Ctx → Prop) (s s' : State) (c : Nat)
    (hq : ∀ d ∈ s.sendQ, d ≠ c → d ∈ s'.sendQ)
    (hp : ∀ p, (getPipe s p).isSome = true → (getPipe s' p).isSome = true)
    (hne : ∀ d, d ≠ c → getCtx s' d = getCtx s d)
    (hc : ∀ y, getCtx s' c = some y → y.reqMsg = none ∧ y.queued = false)
    (h : Lv P s) : Lv P s' := by
  constructor
  · intro d x hx hqd
    by_cases hdc : d = c
    · subst hdc
      rw [(hc x hx).2] at hqd; cases hqd
    · rw [hne d hdc] at hx
      exact hq d (h.flag d x hx hqd) hdc
  · intro d x hx hm
    by_cases hdc : d = c
    · subst hdc
      rw [(hc x hx).1] at hm; cases hm
    · rw [hne d hdc] at hx
      rcases h.live d x hx hm with h1 | h1
      · left
        rcases h1 with h1 | ⟨p, h1, h2⟩ | h1
        · exact Or.inl (hq d h1 hdc)
        · exact Or.inr (Or.inl ⟨p, h1, hp p h2⟩)
        · exact Or.inr (Or.inr h1)
      · exact Or.inr h1

theorem cancelSend_getCtx_ne (s : State) (c d : Nat) (hdc : d ≠ c) : getCtx (cancelSend s c) d = getCtx s d := by
  rw [getCtx_cancelSend]
  cases hg : getCtx s d with
  | none => rfl
  | some z =>
    have := getCtx_id s d z hg
    simp [this, hdc]

theorem cancel_getCtx_ne (s : State) (c d : Nat) (hdc : d ≠ c) : getCtx (cancel s c) d = getCtx s d := by
  unfold cancel
  simp only []
  split
  · exact cancelSend_getCtx_ne s c d hdc
  · rw [getCtx_setCtx_ne (h := hdc)]
    case hf => intro y; rfl
    exact cancelSend_getCtx_ne s c d hdc

theorem cancel_getCtx_self (s : State) (c : Nat) (y : Ctx) (h : getCtx (cancel s c) c = some y) : y.reqMsg = none ∧ y.queued = false := by
  unfold cancel at h
  simp only [] at h
  split at h
  · rename_i hn
    rw [h] at hn; cases hn
  · rename_i x hx
    rw [getCtx_setCtx] at h
    case hf => intro y; rfl
    have hx' : getCtx { cancelSend s c with ctxByID := (cancelSend s c).ctxByID.filter (fun e => !(e.1 == x.reqID && x.reqID != 0) && e.2 != c) } c = some x := hx
    rw [hx'] at h
    have hid := getCtx_id _ _ _ hx
    simp only [Option.map_some, hid, if_true, Option.some.injEq] at h
    subst h
    refine ⟨rfl, ?_⟩
    -- the flag was cleared by cancelSend
    rw [getCtx_cancelSend] at hx
    cases hg : getCtx s c with
    | none => rw [hg] at hx; cases hx
    | some z =>
      rw [hg] at hx
      have hz := getCtx_id s c z hg
      simp only [Option.map_some, hz, if_true, Option.some.injEq] at hx
      subst hx
      rfl

theorem cancel_Lv (P : Nat → Ctx → Prop) (s : State) (c : Nat) (h : Lv P s) : Lv P (cancel s c) := by
  refine Lv_char P s _ c ?_ ?_ (fun d hdc => cancel_getCtx_ne s c d hdc) (fun y hy => cancel_getCtx_self s c y hy) h
  · intro d hd hdc
    rw [(cancel_pr s c).2.2]
    exact List.mem_filter.mpr ⟨hd, by simpa using hdc⟩
  · intro p hp
    unfold getPipe at hp ⊢
    rw [(cancel_pr s c).1]; exact hp

/-- exemptions that do not look at what a wake-up changes -/
def StableP (P : Nat → Ctx → Prop) : Prop :=
  ∀ d (y y' : Ctx), y'.queued = y.queued → y'.reqMsg = y.reqMsg → y'.lastPipe = y.lastPipe → y'.reqID = y.reqID → P d y → P d y'

theorem stable_false : StableP (fun _ _ => False) := fun _ _ _ _ _ _ _ h => h

theorem wakeSends_Lv (P : Nat → Ctx → Prop) (s : State) (c : Nat) (x : Ctx) (hx : getCtx s c = some x) (hT : T s) (h : Lv P s) :
    Lv P (wakeSends s c x).1 := by
  simp only [wakeSends]
  have h1 : Lv P { s with parkedSend := s.parkedSend.filter (fun p => !((s.parkedSend.filter (fun p => p.ctx == c &&
      (!(x.sendMsg.isSome && x.sendFor == p.rid) || p.expired || x.closed || (x.failNoPeers && s.pipes.isEmpty) || x.sendAbort))).any (fun q => q.call == p.call))) } :=
    Lv_eq P s _ h rfl rfl rfl
  split
  · rename_i hany
    obtain ⟨q, _, hqm⟩ := List.any_eq_true.mp hany
    simp only [Bool.and_eq_true] at hqm
    have hsome : x.sendMsg.isSome = true := hqm.1
    have hnone : x.reqMsg = none := (hT.ctx c x hx).excl hsome
    have hx2 : getCtx (cancelSend { s with parkedSend := s.parkedSend.filter (fun p => !((s.parkedSend.filter (fun p => p.ctx == c &&
        (!(x.sendMsg.isSome && x.sendFor == p.rid) || p.expired || x.closed || (x.failNoPeers && s.pipes.isEmpty) || x.sendAbort))).any (fun q => q.call == p.call))) } c) c = some { x with queued := false } := by
      rw [getCtx_cancelSend]
      show (getCtx s c).map _ = _
      rw [hx]
      have := getCtx_id s c x hx
      simp [this]
    refine Lv_char P s _ c ?_ ?_ ?_ ?_ h
    · intro d hd hdc
      show d ∈ s.sendQ.filter (· != c)
      exact List.mem_filter.mpr ⟨hd, by simpa using hdc⟩
    · intro p hp; exact hp
    · intro d hdc
      rw [getCtx_setCtx_ne (h := hdc)]
      case hf => intro y; rfl
      exact cancelSend_getCtx_ne _ c d hdc
    · intro y hy
      have hx3 : getCtx { (cancelSend { s with parkedSend := s.parkedSend.filter (fun p => !((s.parkedSend.filter (fun p => p.ctx == c &&
          (!(x.sendMsg.isSome && x.sendFor == p.rid) || p.expired || x.closed || (x.failNoPeers && s.pipes.isEmpty) || x.sendAbort))).any (fun q => q.call == p.call))) } c) with
          ctxByID := s.ctxByID.filter (fun e => e.2 != c) } c = some { x with queued := false } := hx2
      rw [getCtx_setCtx_eq (x := { x with queued := false }) (hx := hx3)] at hy
      case hf => intro y; rfl
      cases hy
      exact ⟨hnone, rfl⟩
  · exact h1

theorem wakeRecv_Lv (P : Nat → Ctx → Prop) (hst : StableP P) (s : State) (c : Nat) (np : Bool) (evs : List (Nat × Ev)) (hT : T s) (h : Lv P s) :
    Lv P (wakeRecv s c np evs).1 := by
  unfold wakeRecv
  split
  · exact h
  · rename_i pr _
    split
    · exact h
    · rename_i y hy
      split
      · exact h
      · simp only []
        have h3 : ∀ (dl : List (Nat × Nat × Nat)) (reg : List (Nat × Nat)) (df : List Nat),
            Lv P { s with parkedRecv := s.parkedRecv.filter (fun p => p.call != pr.call), delivered := dl, ctxByID := reg, deliveredFor := df } :=
          fun dl reg df => Lv_eq P s _ h rfl rfl rfl
        split
        · exact setCtx_Lv_keep P _ c _ (fun z => ⟨rfl, rfl, rfl, rfl, rfl, rfl⟩) (fun z hz => hst c z _ rfl rfl rfl rfl hz) (h3 _ _ _)
        · split
          · rename_i m hm
            have hnone : y.reqMsg = none := (hT.ctx c y hy).replied (by rw [hm]; rfl)
            refine setCtx_Lv P _ c _ (fun z => rfl) ?_ ?_ (h3 _ _ _)
            · intro z hz hq
              exact (h3 _ _ _).flag c z hz hq
            · intro z hz hmm
              have hz' : getCtx s c = some z := hz
              rw [hy] at hz'; cases hz'
              have : y.reqMsg.isSome = true := hmm
              rw [hnone] at this; cases this
          · exact h3 _ _ _

theorem wake_Lv (P : Nat → Ctx → Prop) (hst : StableP P) (s : State) (c : Nat) (hT : T s) (h : Lv P s) : Lv P (wake s c).1 := by
  unfold wake
  split
  · exact h
  · rename_i x hx
    exact wakeRecv_Lv P hst _ c _ _ (wakeSends_T s c x hx hT) (wakeSends_Lv P s c x hx hT h)

/-- the head of the send queue is handed to a connected pipe -/
theorem handoff_Lv (P : Nat → Ctx → Prop) (s S1 : State) (c p : Nat) (sq : List Nat) (f : Ctx → Ctx)
    (hc1 : S1.ctxs = s.ctxs) (hq1 : S1.sendQ = sq) (hp1 : S1.pipes = s.pipes) (hs : s.sendQ = c :: sq)
    (halive : (getPipe s p).isSome = true) (hid : ∀ y, (f y).id = y.id) (hfq : ∀ y, (f y).queued = false)
    (hfl : ∀ y, (f y).lastPipe = some p) (h : Lv P s) : Lv P (setCtx S1 c f) := by
  have hg : ∀ d, getCtx S1 d = getCtx s d := fun d => by unfold getCtx; rw [hc1]
  have hal : ∀ q, (getPipe s q).isSome = true → (getPipe (setCtx S1 c f) q).isSome = true := by
    intro q hq
    show (getPipe S1 q).isSome = true
    unfold getPipe at hq ⊢
    rw [hp1]; exact hq
  constructor
  · intro d x' hx' hqd
    by_cases hdc : d = c
    · subst hdc
      cases hgc : getCtx S1 d with
      | none => rw [getCtx_setCtx_none S1 d f hid hgc d, hgc] at hx'; cases hx'
      | some y =>
        rw [getCtx_setCtx_eq S1 d f hid y hgc] at hx'; cases hx'
        rw [hfq] at hqd; cases hqd
    · rw [getCtx_setCtx_ne S1 c d f hid hdc, hg] at hx'
      have := h.flag d x' hx' hqd
      rw [hs] at this
      show d ∈ S1.sendQ
      rw [hq1]
      simp only [List.mem_cons] at this
      rcases this with e | e
      · exact absurd e hdc
      · exact e
  · intro d x' hx' hm
    by_cases hdc : d = c
    · subst hdc
      cases hgc : getCtx S1 d with
      | none => rw [getCtx_setCtx_none S1 d f hid hgc d, hgc] at hx'; cases hx'
      | some y =>
        rw [getCtx_setCtx_eq S1 d f hid y hgc] at hx'; cases hx'
        exact Or.inl (Or.inr (Or.inl ⟨p, hfl y, hal p halive⟩))
    · rw [getCtx_setCtx_ne S1 c d f hid hdc, hg] at hx'
      rcases h.live d x' hx' hm with h1 | h1
      · left
        rcases h1 with h1 | ⟨q, h1, h2⟩ | h1
        · rw [hs] at h1
          simp only [List.mem_cons] at h1
          rcases h1 with e | e
          · exact absurd e hdc
          · exact Or.inl (by show d ∈ S1.sendQ; rw [hq1]; exact e)
        · exact Or.inr (Or.inl ⟨q, h1, hal q h2⟩)
        · exact Or.inr (Or.inr h1)
      · exact Or.inr h1

theorem setPipe_Lv (P : Nat → Ctx → Prop) (s : State) (p : Nat) (f : Pipe → Pipe) (hf : ∀ y, (f y).id = y.id) (h : Lv P s) : Lv P (setPipe s p f) := by
  refine Lv_same P s _ h rfl (fun c hc => hc) ?_
  intro q hq
  rw [getPipe_setPipe s p f hf q]
  cases hg : getPipe s q with
  | none => rw [hg] at hq; cases hq
  | some y => rfl

theorem ite_wake_Lv (P : Nat → Ctx → Prop) (hst : StableP P) (b : Bool) (s2 : State) (c : Nat) (hT : T s2) (h : Lv P s2) :
    Lv P (if b = true then wake s2 c else (s2, [])).1 := by
  cases b
  · exact h
  · exact wake_Lv P hst s2 c hT h

theorem pumpStep_Lv (P : Nat → Ctx → Prop) (hst : StableP P) (arm : Nat × Nat) (s : State) (c p : Nat) (sq rq : List Nat) (x : Ctx) (pp : Pipe)
    (hs : s.sendQ = c :: sq) (hx : getCtx s c = some x) (hp : (getPipe s p).isSome = true) (hT : T s) (h : Lv P s) :
    Lv P (pumpStep arm s c p sq rq x pp).1 := by
  have h2 := handoff_Lv P s { s with sendQ := sq, readyQ := rq, ctxByID := if x.sendMsg.isSome then s.ctxByID.filter (fun e => e.2 != c) ++ [(x.reqID, c)] else s.ctxByID, txlog := s.txlog ++ [(p, x.reqID, (x.sendMsg.orElse (fun _ => x.reqMsg)).getD [])] }
    c p sq (fun y => { y with queued := false, reqMsg := some ((x.sendMsg.orElse (fun _ => x.reqMsg)).getD []), sendMsg := none, lastPipe := some p, timer := if y.resendTime > 0 then some { id := y.reqID, tmin := arm.1, tmax := arm.2, period := y.resendTime } else y.timer })
    rfl rfl rfl hs hp (fun y => rfl) (fun y => rfl) (fun y => rfl) h
  have hT2 := pumpMid_T arm s c p sq rq x hs hx hT
  have key : ∀ (r3 : State × List (Nat × Ev)), Lv P r3.1 → ∀ (f : Pipe → Pipe), (∀ y, (f y).id = y.id) → ∀ ev,
      Lv P (if pp.hold = true then (setPipe r3.1 p f, r3.2) else ({ r3.1 with readyQ := r3.1.readyQ ++ [p] }, r3.2 ++ ev)).1 := by
    intro r3 h3 f hf ev
    cases pp.hold
    · exact Lv_eq P _ _ h3 rfl rfl rfl
    · exact setPipe_Lv P _ _ _ hf h3
  unfold pumpStep
  refine key _ ?_ (fun q => { q with inflight := some (idBytes x.reqID, (x.sendMsg.orElse (fun _ => x.reqMsg)).getD []) }) (fun y => rfl) _
  exact ite_wake_Lv P hst _ _ c hT2 h2

/-- while the scheduler runs: needs the head of the send queue to name a context and the head of the ready queue a pipe -/
theorem pump_Lv (P : Nat → Ctx → Prop) (hst : StableP P) : ∀ (fuel : Nat) (arm : Nat × Nat) (s : State), T s → R s → Lv P s → Lv P (pump fuel arm s).1 := by
  intro fuel
  induction fuel with
  | zero => intro arm s _ _ h; exact h
  | succ n ih =>
    intro arm s hT hR h
    simp only [pump]
    split
    · rename_i c sq p rq hsq hrq
      split
      · rename_i x pp hx hp
        exact ih arm _ (pumpStep_T arm s c p sq rq x pp hsq hx hT) (pumpStep_R arm s c p sq rq x pp hrq hR)
          (pumpStep_Lv P hst arm s c p sq rq x pp hsq hx (by rw [hp]; rfl) hT h)
      · rename_i hno
        obtain ⟨x, hx, _⟩ := hT.queued c (by rw [hsq]; simp)
        have hp := hR p (by rw [hrq]; simp)
        cases hg : getPipe s p with
        | none => rw [hg] at hp; cases hp
        | some pp => exact absurd hg (hno x pp hx)
    · exact h

theorem resend_Lv (P : Nat → Ctx → Prop) (hst : StableP P) (s : State) (arm : Nat × Nat) (c id : Nat) (hW : W s) (h : Lv P s) :
    Lv P (resend s arm c id).1 := by
  obtain ⟨hT, hR, _⟩ := hW
  unfold resend
  split
  · exact h
  · rename_i x hx
    split
    · rename_i hc
      simp only [Bool.and_eq_true] at hc
      have hcx := hT.ctx c x hx
      have hrep : x.repMsg = none := by
        cases hr : x.repMsg with
        | none => rfl
        | some r =>
          have := hcx.replied (by rw [hr]; rfl)
          rw [this] at hc; exact absurd hc.1.2 (by simp)
      have hT1 := T_enqueue s c x hx (hcx.named hc.1.2) hrep (Or.inr hc.1.2) hT
      have hR1 : R { s with sendQ := s.sendQ ++ [c] } := R_same s _ hR rfl (fun p hp => hp)
      have hL1 : Lv P { s with sendQ := s.sendQ ++ [c] } := Lv_same P s _ h rfl (fun d hd => List.mem_append_left _ hd) (fun p hp => hp)
      apply pump_Lv P hst
      · exact setCtx_T _ c (fun y => { y with queued := true }) (fun y => ⟨rfl, rfl, rfl, rfl, rfl⟩) hT1
      · exact R_same _ _ hR1 rfl (fun p hp => hp)
      · refine setCtx_Lv P _ c _ (fun y => rfl) ?_ ?_ hL1
        · intro y _ _
          show c ∈ s.sendQ ++ [c]
          simp
        · intro y _ _
          exact Or.inl (Or.inl (by show c ∈ s.sendQ ++ [c]; simp))
    · exact h

abbrev NoEx : Nat → Ctx → Prop := fun _ _ => False

theorem Lv_weaken (P P' : Nat → Ctx → Prop) (s : State) (h : Lv P s) (hPP : ∀ d x, getCtx s d = some x → x.reqMsg.isSome = true → P d x → Served s d x ∨ P' d x) : Lv P' s := by
  refine ⟨h.flag, ?_⟩
  intro d x hx hm
  rcases h.live d x hx hm with h1 | h1
  · exact Or.inl h1
  · exact hPP d x hx hm h1

/-- a retry timer fires: the timer is gone, and the request it was running for is queued again -/
theorem timerFire_Lv (s : State) (arm : Nat × Nat) (c : Ctx) (t : Timer) (hc : getCtx s c.id = some c) (ht : c.timer = some t)
    (hW : W s) (h : Lv NoEx s) :
    Lv NoEx (resend (setCtx s c.id (fun y => { y with timer := none })) arm c.id t.id).1 := by
  -- without the timer the context is still looked after, or it is exactly what resend will queue
  have h1 : Lv (fun d x => d = c.id ∧ x.reqID = t.id ∧ x.queued = false) (setCtx s c.id (fun y => { y with timer := none })) := by
    refine setCtx_Lv _ s c.id _ (fun y => rfl) ?_ ?_ (Lv_weaken NoEx _ s h (fun _ _ _ _ hf => False.elim hf))
    · intro y hy hq; exact h.flag c.id y hy hq
    · intro y hy hm
      rw [hc] at hy; cases hy
      rcases h.live c.id c hc hm with h2 | h2
      · rcases h2 with h2 | h2 | ⟨t', h3, h4⟩
        · exact Or.inl (Or.inl h2)
        · exact Or.inl (Or.inr (Or.inl h2))
        · rw [ht] at h3; cases h3
          by_cases hq : c.queued = true
          · exact Or.inl (Or.inl (h.flag c.id c hc hq))
          · exact Or.inr ⟨rfl, h4.symm, by simpa using hq⟩
      · exact False.elim h2
  have hW1 : W (setCtx s c.id (fun y => { y with timer := none })) := setCtx_W s c.id _ (fun y => ⟨rfl, rfl, rfl, rfl, rfl⟩) hW
  have hc1 : getCtx (setCtx s c.id (fun y => { y with timer := none })) c.id = some { c with timer := none } :=
    getCtx_setCtx_eq s c.id (fun y => { y with timer := none }) (fun y => rfl) c hc
  unfold resend
  simp only [hc1]
  split
  · rename_i hcond
    simp only [Bool.and_eq_true] at hcond
    obtain ⟨hT, hR, _⟩ := hW1
    have hcx := hT.ctx c.id _ hc1
    have hrep : c.repMsg = none := by
      cases hr : c.repMsg with
      | none => rfl
      | some r =>
        have := hcx.replied (by show c.repMsg.isSome = true; rw [hr]; rfl)
        have h2 : c.reqMsg.isSome = true := hcond.1.2
        have h3 : c.reqMsg = none := this
        rw [h3] at h2; cases h2
    have hT1 := T_enqueue _ c.id _ hc1 (hcx.named hcond.1.2) hrep (Or.inr hcond.1.2) hT
    apply pump_Lv NoEx stable_false
    · exact setCtx_T _ c.id (fun y => { y with queued := true }) (fun y => ⟨rfl, rfl, rfl, rfl, rfl⟩) hT1
    · exact R_same _ _ hR rfl (fun p hp => hp)
    · -- queued again: nobody is exempt any more
      have hL1 : Lv (fun d x => d = c.id ∧ x.reqID = t.id ∧ x.queued = false) { (setCtx s c.id (fun y => { y with timer := none })) with sendQ := (setCtx s c.id (fun y => { y with timer := none })).sendQ ++ [c.id] } :=
        Lv_same _ _ _ h1 rfl (fun d hd => List.mem_append_left _ hd) (fun p hp => hp)
      have hL2 := setCtx_Lv _ _ c.id (fun y => { y with queued := true }) (fun y => rfl)
        (fun y _ _ => by show c.id ∈ s.sendQ ++ [c.id]; simp)
        (fun y _ _ => Or.inl (Or.inl (by show c.id ∈ s.sendQ ++ [c.id]; simp))) hL1
      refine Lv_weaken _ NoEx _ hL2 ?_
      intro d x hx _ hP
      obtain ⟨rfl, _, hq⟩ := hP
      exact Or.inl (Or.inl (by show c.id ∈ s.sendQ ++ [c.id]; simp))
  · rename_i hcond
    refine Lv_weaken _ NoEx _ h1 ?_
    intro d x hx hm hP
    obtain ⟨rfl, hid, hq⟩ := hP
    rw [hc1] at hx; cases hx
    exfalso
    apply hcond
    simp only [Bool.and_eq_true, Bool.not_eq_true', beq_iff_eq]
    exact ⟨⟨hid, hm⟩, hq⟩

theorem readyVariants_Lv (P : Nat → Ctx → Prop) (st : State × List (Nat × Ev)) (h : Lv P st.1) : ∀ r ∈ readyVariants st, Lv P r.1 := by
  intro r hr
  unfold readyVariants at hr
  simp only [] at hr
  split at hr
  · simp at hr; subst hr; exact h
  · simp only [List.mem_map] at hr
    obtain ⟨m, _, rfl⟩ := hr
    exact Lv_eq P st.1 _ h rfl rfl rfl

/-- W together with "nobody stranded" -/
def WL (s : State) : Prop := W s ∧ Lv NoEx s

theorem readyVariants_WL (st : State × List (Nat × Ev)) (h : WL st.1) : ∀ r ∈ readyVariants st, WL r.1 :=
  fun r hr => ⟨readyVariants_W st h.1 r hr, readyVariants_Lv NoEx st h.2 r hr⟩

theorem timerRound_WL (now : Nat) (acc0 : List (State × List (Nat × Ev))) (ids : List Nat) (h : ∀ st ∈ acc0, WL st.1) :
    ∀ st ∈ timerRound now acc0 ids, WL st.1 := by
  unfold timerRound
  apply foldl_flatMap_all (fun st : State × List (Nat × Ev) => WL st.1) _ _ ids acc0 h
  intro cid st hst r hr
  split at hr
  · simp at hr; subst hr; exact hst
  · rename_i c hc
    have hcid := getCtx_id st.1 cid c hc
    split at hr
    · simp at hr; subst hr; exact hst
    · rename_i t ht
      have hf : WL (resend (setCtx st.1 c.id (fun y => { y with timer := none })) (t.tmin + t.period, now) c.id t.id).1 :=
        ⟨resend_W _ _ _ _ (setCtx_W _ _ _ (fun y => ⟨rfl, rfl, rfl, rfl, rfl⟩) hst.1),
         timerFire_Lv st.1 _ c t (by rw [hcid]; exact hc) ht hst.1 hst.2⟩
      simp only [] at hr
      split at hr
      · refine readyVariants_WL _ ?_ r hr; exact hf
      · split at hr
        · rw [List.mem_cons] at hr
          rcases hr with rfl | hr
          · exact hst
          · refine readyVariants_WL _ ?_ r hr; exact hf
        · simp at hr; subst hr; exact hst

theorem cancel_WL (s : State) (c : Nat) (h : WL s) : WL (cancel s c) := ⟨cancel_W s c h.1, cancel_Lv NoEx s c h.2⟩
theorem wake_WL (s : State) (c : Nat) (h : WL s) : WL (wake s c).1 := ⟨wake_W s c h.1, wake_Lv NoEx stable_false s c h.1.1 h.2⟩

theorem WL_same (s s' : State) (h : WL s) (hc : s'.ctxs = s.ctxs) (ht : s'.txlog = s.txlog) (hn : s'.nsent = s.nsent)
    (hse : s'.sent = s.sent) (hq : s'.sendQ = s.sendQ) (hp : s'.pipes = s.pipes) (hr : s'.readyQ = s.readyQ) : WL s' :=
  ⟨W_same s s' h.1 hc ht hn hse hq hp hr, Lv_eq NoEx s s' h.2 hc hq hp⟩

theorem setCtx_WL (s : State) (c : Nat) (f : Ctx → Ctx)
    (hf : ∀ y, (f y).id = y.id ∧ (f y).reqID = y.reqID ∧ (f y).reqMsg = y.reqMsg ∧ (f y).sendMsg = y.sendMsg ∧ (f y).repMsg = y.repMsg)
    (hg : ∀ y, (f y).queued = y.queued ∧ (f y).lastPipe = y.lastPipe ∧ (f y).timer = y.timer)
    (h : WL s) : WL (setCtx s c f) :=
  ⟨setCtx_W s c f hf h.1, setCtx_Lv_keep NoEx s c f (fun y => ⟨(hf y).1, (hg y).1, (hf y).2.2.1, (hg y).2.1, (hg y).2.2, (hf y).2.1⟩) (fun _ hy => hy) h.2⟩

theorem deadlineFired_WL (st : State × List (Nat × Ev)) (isRecv : Bool) (p : Parked) (h : WL st.1) :
    WL (deadlineFired st isRecv p).1 := by
  unfold deadlineFired
  cases isRecv
  · simp only [Bool.false_eq_true, if_false]
    split
    · exact h
    · have hm : ∀ still : Bool, WL { st.1 with parkedSend := st.1.parkedSend.map (fun q => if q.call == p.call then { q with expired := still, deadline := none } else q) } :=
        fun still => WL_same st.1 _ h rfl rfl rfl rfl rfl rfl rfl
      split
      · exact wake_WL _ _ (cancel_WL _ _ (hm _))
      · exact hm _
  · simp only [if_true]
    split
    · exact h
    · have hm : ∀ still : Bool, WL { st.1 with parkedRecv := st.1.parkedRecv.map (fun q => if q.call == p.call then { q with expired := still, deadline := none } else q) } :=
        fun still => WL_same st.1 _ h rfl rfl rfl rfl rfl rfl rfl
      split
      · exact wake_WL _ _ (cancel_WL _ _ (hm _))
      · exact hm _

theorem expireSends_WL (now : Nat) (s : State) (c : Nat) (h : WL s) : WL (expireSends now s c) :=
  WL_same s _ h rfl rfl rfl rfl rfl rfl rfl

theorem deadlineFire_WL (now : Nat) (st : State × List (Nat × Ev)) (isRecv : Bool) (p : Parked) (t : Timer) (h : WL st.1) :
    ∀ r ∈ deadlineFire now st isRecv p t, WL r.1 := by
  intro r hr
  have hE : WL (expireSends now st.1 p.ctx) := expireSends_WL now st.1 p.ctx h
  have hfired : ∀ r ∈ (if (isRecv && recvStill st.1 p && expireSends now st.1 p.ctx != st.1) = true
      then [deadlineFired st isRecv p, deadlineFired (expireSends now st.1 p.ctx, st.2) isRecv p]
      else [deadlineFired st isRecv p]), WL r.1 := by
    intro r hr
    split at hr
    · simp at hr
      rcases hr with rfl | rfl
      · exact deadlineFired_WL st isRecv p h
      · exact deadlineFired_WL (_, _) isRecv p hE
    · simp at hr; subst hr; exact deadlineFired_WL st isRecv p h
  unfold deadlineFire at hr
  simp only [] at hr
  split at hr
  · exact hfired r hr
  · split at hr
    · rw [List.mem_cons] at hr
      rcases hr with rfl | hr
      · exact h
      · exact hfired r hr
    · simp at hr; subst hr; exact h

theorem deadlineRound_WL (now : Nat) (acc0 : List (State × List (Nat × Ev))) (calls : List Nat) (h : ∀ st ∈ acc0, WL st.1) :
    ∀ st ∈ deadlineRound now acc0 calls, WL st.1 := by
  unfold deadlineRound
  apply foldl_flatMap_all (fun st : State × List (Nat × Ev) => WL st.1) _ _ calls acc0 h
  intro call st hst r hr
  split at hr
  · split at hr
    · exact deadlineFire_WL now st true _ _ hst r hr
    · simp at hr; subst hr; exact hst
  · split at hr
    · exact deadlineFire_WL now st false _ _ hst r hr
    · simp at hr; subst hr; exact hst
  · simp at hr; subst hr; exact hst

theorem timerOutcomes_WL (s : State) (now : Nat) (h : WL s) : ∀ st ∈ timerOutcomes s now, WL st.1 := by
  intro st hst
  unfold timerOutcomes at hst
  simp only [] at hst
  have h0 : ∀ st ∈ dedup (deadlineRound now [(s, [])] (s.parkedRecv.map (·.call) ++ s.parkedSend.map (·.call))), WL st.1 :=
    fun st hst => deadlineRound_WL now _ _ (by intro b hb; simp at hb; subst hb; exact h) st (mem_dedup _ st hst)
  have h1 := fun st hst => timerRound_WL now _ (s.ctxs.map (·.id)) h0 st (mem_dedup _ st hst)
  have h2 := fun st hst => timerRound_WL now _ (s.ctxs.map (·.id)) h1 st (mem_dedup _ st hst)
  have h3 := fun st hst => timerRound_WL now _ (s.ctxs.map (·.id)) h2 st (mem_dedup _ st hst)
  have h4 := fun st hst => timerRound_WL now _ (s.ctxs.map (·.id)) h3 st (mem_dedup _ st hst)
  exact h4 st (List.mem_of_mem_take hst)

theorem closeOne_WL (acc : State × List (Nat × Ev)) (c : Ctx) (h : WL acc.1) : WL (closeOne acc c).1 := by
  unfold closeOne
  split
  · exact h
  · exact wake_WL _ _ (cancel_WL _ _ (setCtx_WL _ _ _ (fun y => ⟨rfl, rfl, rfl, rfl, rfl⟩) (fun y => ⟨rfl, rfl, rfl⟩) h))

/-! ### losing a pipe -/

/-- context c is rebuilt (it left the send queue); every other context is as it was -/
theorem Lv_char2 (P P' : Nat → Ctx → Prop) (s s' : State) (c : Nat)
    (hq : ∀ d ∈ s.sendQ, d ≠ c → d ∈ s'.sendQ)
    (hp : ∀ p, (getPipe s p).isSome = true → (getPipe s' p).isSome = true)
    (hne : ∀ d, d ≠ c → getCtx s' d = getCtx s d)
    (hc : ∀ y, getCtx s' c = some y → y.queued = false ∧ (y.reqMsg.isSome = true → Served s' c y ∨ P' c y))
    (hPP : ∀ d x, d ≠ c → P d x → P' d x)
    (h : Lv P s) : Lv P' s' := by
  constructor
  · intro d x hx hqd
    by_cases hdc : d = c
    · subst hdc
      rw [(hc x hx).1] at hqd; cases hqd
    · rw [hne d hdc] at hx
      exact hq d (h.flag d x hx hqd) hdc
  · intro d x hx hm
    by_cases hdc : d = c
    · subst hdc
      exact (hc x hx).2 hm
    · rw [hne d hdc] at hx
      rcases h.live d x hx hm with h1 | h1
      · left
        rcases h1 with h1 | ⟨q, h1, h2⟩ | h1
        · exact Or.inl (hq d h1 hdc)
        · exact Or.inr (Or.inl ⟨q, h1, hp q h2⟩)
        · exact Or.inr (Or.inr h1)
      · exact Or.inr (hPP d x hdc h1)

/-- who is exempt while pipe p is being removed: contexts last served by p that have not been looked at yet, and
    contexts noted for re-sending -/
def Pd (p : Nat) (rem : List Nat) (todo : List (Nat × Nat)) : Nat → Ctx → Prop :=
  fun d x => (x.lastPipe = some p ∧ d ∈ rem) ∨ (x.queued = false ∧ (d, x.reqID) ∈ todo)

theorem stable_Pd (p : Nat) (rem : List Nat) (todo : List (Nat × Nat)) : StableP (Pd p rem todo) := by
  intro d y y' hq _ hl hr hP
  rcases hP with ⟨h1, h2⟩ | ⟨h1, h2⟩
  · exact Or.inl ⟨by rw [hl]; exact h1, h2⟩
  · exact Or.inr ⟨by rw [hq]; exact h1, by rw [hr]; exact h2⟩

structure DropInv (p : Nat) (rem : List Nat) (acc : State × List (Nat × Ev) × List (Nat × Nat)) : Prop where
  w : W acc.1
  lv : Lv (Pd p rem acc.2.2) acc.1
  fresh : ∀ t ∈ acc.2.2, t.1 ∉ rem
  uniq : ∀ t ∈ acc.2.2, ∀ t' ∈ acc.2.2, t.1 = t'.1 → t = t'

theorem Pd_drop_head (p c0 : Nat) (rem : List Nat) (todo todo' : List (Nat × Nat)) (hsub : ∀ t ∈ todo, t ∈ todo') (d : Nat) (x : Ctx)
    (hd : d ≠ c0) (h : Pd p (c0 :: rem) todo d x) : Pd p rem todo' d x := by
  rcases h with ⟨h1, h2⟩ | ⟨h1, h2⟩
  · simp only [List.mem_cons] at h2
    rcases h2 with e | e
    · exact absurd e hd
    · exact Or.inl ⟨h1, e⟩
  · exact Or.inr ⟨h1, hsub _ h2⟩

theorem dropOne_step (p : Nat) (c0 : Ctx) (rem : List Nat) (acc : State × List (Nat × Ev) × List (Nat × Nat))
    (hnd : c0.id ∉ rem) (h : DropInv p (c0.id :: rem) acc) : DropInv p rem (dropOne p acc c0) := by
  have hfresh' : ∀ t ∈ acc.2.2, t.1 ∉ rem := fun t ht hm => h.fresh t ht (List.mem_cons_of_mem _ hm)
  unfold dropOne
  split
  · -- no such context
    rename_i hnone
    refine ⟨h.w, ?_, hfresh', h.uniq⟩
    refine Lv_weaken _ _ _ h.lv ?_
    intro d x hx _ hP
    have hd : d ≠ c0.id := by
      intro e; subst e
      rw [hx] at hnone; cases hnone
    exact Or.inr (Pd_drop_head p c0.id rem _ _ (fun t ht => ht) d x hd hP)
  · rename_i c hc
    have hcid : c.id = c0.id := getCtx_id _ _ c hc
    have hc' : getCtx acc.1 c.id = some c := by rw [hcid]; exact hc
    -- cancelling context c (after any update of it that keeps its id) leaves nothing of it to look after
    have hcancel : ∀ (S : State), (∀ d, d ≠ c.id → getCtx S d = getCtx acc.1 d) → (∀ d ∈ acc.1.sendQ, d ∈ S.sendQ) →
        (∀ q, (getPipe acc.1 q).isSome = true → (getPipe S q).isSome = true) →
        Lv (Pd p rem acc.2.2) (cancel S c.id) := by
      intro S hS hSq hSp
      refine Lv_char2 _ _ acc.1 _ c.id ?_ ?_ ?_ ?_ ?_ h.lv
      · intro d hd hdc
        rw [(cancel_pr S c.id).2.2]
        exact List.mem_filter.mpr ⟨hSq d hd, by simpa using hdc⟩
      · intro q hq
        have := hSp q hq
        unfold getPipe at this ⊢
        rw [(cancel_pr S c.id).1]; exact this
      · intro d hdc
        rw [cancel_getCtx_ne S c.id d hdc]; exact hS d hdc
      · intro y hy
        obtain ⟨h1, h2⟩ := cancel_getCtx_self S c.id y hy
        exact ⟨h2, by intro hm; rw [h1] at hm; cases hm⟩
      · intro d x hdc hP
        exact Pd_drop_head p c0.id rem _ _ (fun t ht => ht) d x (by rw [← hcid]; exact hdc) hP
    split
    · -- fail-no-peers with no pipe left: cancelled
      refine ⟨wake_W _ _ (cancel_W _ _ h.w), ?_, hfresh', h.uniq⟩
      exact wake_Lv _ (stable_Pd p rem _) _ c.id (cancel_T _ _ h.w.1) (hcancel acc.1 (fun d _ => rfl) (fun d hd => hd) (fun q hq => hq))
    · split
      · rename_i hcond
        have hW2 : W (setCtx acc.1 c.id (fun y => { y with lastPipe := none })) := setCtx_W acc.1 c.id _ (fun y => ⟨rfl, rfl, rfl, rfl, rfl⟩) h.w
        have hS : ∀ d, d ≠ c.id → getCtx (setCtx acc.1 c.id (fun y => { y with lastPipe := none })) d = getCtx acc.1 d :=
          fun d hdc => getCtx_setCtx_ne acc.1 c.id d _ (fun y => rfl) hdc
        split
        · -- retries disabled: cancelled
          refine ⟨wake_W _ _ (cancel_W _ _ hW2), ?_, hfresh', h.uniq⟩
          exact wake_Lv _ (stable_Pd p rem _) _ c.id
            (cancel_T _ _ (setCtx_T _ _ _ (fun y => ⟨rfl, rfl, rfl, rfl, rfl⟩) h.w.1))
            (hcancel _ hS (fun d hd => hd) (fun q hq => hq))
        · -- noted for re-sending
          refine ⟨cancelSend_W _ _ hW2, ?_, ?_, ?_⟩
          · have hget : getCtx (cancelSend (setCtx acc.1 c.id (fun y => { y with lastPipe := none })) c.id) c.id = some { c with lastPipe := none, queued := false } := by
              rw [getCtx_cancelSend, getCtx_setCtx_eq acc.1 c.id (fun y => { y with lastPipe := none }) (fun y => rfl) c hc']
              simp
            refine Lv_char2 _ _ acc.1 _ c.id ?_ ?_ ?_ ?_ ?_ h.lv
            · intro d hd hdc
              show d ∈ acc.1.sendQ.filter (· != c.id)
              exact List.mem_filter.mpr ⟨hd, by simpa using hdc⟩
            · intro q hq; exact hq
            · intro d hdc
              rw [cancelSend_getCtx_ne _ c.id d hdc]; exact hS d hdc
            · intro y hy
              rw [hget] at hy; cases hy
              refine ⟨rfl, fun _ => Or.inr (Or.inr ⟨rfl, ?_⟩)⟩
              show (c.id, c.reqID) ∈ acc.2.2 ++ [(c.id, c.reqID)]
              simp
            · intro d x hdc hP
              exact Pd_drop_head p c0.id rem _ _ (fun t ht => List.mem_append_left _ ht) d x (by rw [← hcid]; exact hdc) hP
          · intro t ht
            have ht' : t ∈ acc.2.2 ++ [(c.id, c.reqID)] := ht
            simp only [List.mem_append, List.mem_singleton] at ht'
            rcases ht' with ht' | rfl
            · exact hfresh' t ht'
            · show c.id ∉ rem
              rw [hcid]; exact hnd
          · intro t ht t' ht' e
            have h1 : t ∈ acc.2.2 ++ [(c.id, c.reqID)] := ht
            have h2 : t' ∈ acc.2.2 ++ [(c.id, c.reqID)] := ht'
            simp only [List.mem_append, List.mem_singleton] at h1 h2
            have hold : ∀ u ∈ acc.2.2, u.1 ≠ c.id := by
              intro u hu e'
              exact h.fresh u hu (by rw [e', hcid]; simp)
            rcases h1 with h1 | rfl <;> rcases h2 with h2 | rfl
            · exact h.uniq t h1 t' h2 e
            · exact absurd e (hold t h1)
            · exact absurd e.symm (hold t' h2)
            · rfl
      · -- this context was not being served by p
        rename_i hcond
        refine ⟨h.w, ?_, hfresh', h.uniq⟩
        refine Lv_weaken _ _ _ h.lv ?_
        intro d x hx hm hP
        by_cases hd : d = c0.id
        · subst hd
          rw [hc] at hx; cases hx
          rcases hP with ⟨h1, _⟩ | ⟨h1, h2⟩
          · exfalso
            apply hcond
            simp [h1, hm]
          · exact absurd h2 (fun hmem => h.fresh _ hmem (by simp))
        · exact Or.inr (Pd_drop_head p c0.id rem _ _ (fun t ht => ht) d x hd hP)

theorem dropFold (p : Nat) : ∀ (l : List Ctx) (acc : State × List (Nat × Ev) × List (Nat × Nat)),
    (l.map (·.id)).Nodup → DropInv p (l.map (·.id)) acc → DropInv p [] (l.foldl (dropOne p) acc) := by
  intro l
  induction l with
  | nil => intro acc _ h; exact h
  | cons c0 cs ih =>
    intro acc hnd h
    simp only [List.map_cons, List.nodup_cons] at hnd
    simp only [List.foldl_cons]
    exact ih _ hnd.2 (dropOne_step p c0 _ acc hnd.1 h)

theorem perms_mem'_aux : ∀ (n : Nat) (l : List Nat), l.length = n → ∀ m ∈ perms l, ∀ x ∈ l, x ∈ m := by
  intro n
  induction n with
  | zero =>
    intro l hl m _ x hx
    have : l = [] := List.length_eq_zero_iff.mp hl
    subst this; cases hx
  | succ n ih =>
    intro l hl m hm x hx
    cases l with
    | nil => simp at hl
    | cons a t =>
      rw [perms] at hm
      case x_1 => intro h; cases h
      have hm := List.mem_of_mem_take hm
      simp only [List.mem_flatMap, List.mem_map] at hm
      obtain ⟨y, hy, q, hq, rfl⟩ := hm
      have hlen : ((a :: t).erase y).length = n := by
        rw [List.length_erase_of_mem hy]; simp at hl ⊢; omega
      by_cases hxy : x = y
      · subst hxy; simp
      · exact List.mem_cons_of_mem _ (ih _ hlen q hq x ((List.mem_erase_of_ne hxy).mpr hx))

theorem perms_mem' (l m : List Nat) (h : m ∈ perms l) : ∀ x ∈ l, x ∈ m := perms_mem'_aux l.length l rfl m h

/-- who is exempt while the noted contexts are being re-sent: those not yet re-sent -/
def Pq (todo : List (Nat × Nat)) (rem : List Nat) : Nat → Ctx → Prop :=
  fun d x => x.queued = false ∧ (d, x.reqID) ∈ todo ∧ d ∈ rem

theorem stable_Pq (todo : List (Nat × Nat)) (rem : List Nat) : StableP (Pq todo rem) := by
  intro d y y' hq _ _ hr hP
  exact ⟨by rw [hq]; exact hP.1, by rw [hr]; exact hP.2.1, hP.2.2⟩

theorem Pq_drop_head (todo : List (Nat × Nat)) (cid : Nat) (rem : List Nat) (d : Nat) (x : Ctx) (hd : d ≠ cid)
    (h : Pq todo (cid :: rem) d x) : Pq todo rem d x := by
  refine ⟨h.1, h.2.1, ?_⟩
  have := h.2.2
  simp only [List.mem_cons] at this
  rcases this with e | e
  · exact absurd e hd
  · exact e

theorem resend_Lv_q (todo : List (Nat × Nat)) (huniq : ∀ t ∈ todo, ∀ t' ∈ todo, t.1 = t'.1 → t = t') (s : State) (arm : Nat × Nat)
    (cid : Nat) (rem : List Nat) (t : Nat × Nat) (ht : t ∈ todo) (htc : t.1 = cid) (hW : W s) (h : Lv (Pq todo (cid :: rem)) s) :
    Lv (Pq todo rem) (resend s arm cid t.2).1 := by
  obtain ⟨hT, hR, _⟩ := hW
  unfold resend
  split
  · rename_i hnone
    refine Lv_weaken _ _ _ h ?_
    intro d x hx _ hP
    have hd : d ≠ cid := by
      intro e; subst e
      rw [hx] at hnone; cases hnone
    exact Or.inr (Pq_drop_head todo cid rem d x hd hP)
  · rename_i x hx
    split
    · rename_i hcond
      simp only [Bool.and_eq_true] at hcond
      have hcx := hT.ctx cid x hx
      have hrep : x.repMsg = none := by
        cases hr : x.repMsg with
        | none => rfl
        | some r =>
          have := hcx.replied (by rw [hr]; rfl)
          rw [this] at hcond; exact absurd hcond.1.2 (by simp)
      have hT1 := T_enqueue s cid x hx (hcx.named hcond.1.2) hrep (Or.inr hcond.1.2) hT
      apply pump_Lv _ (stable_Pq todo rem)
      · exact setCtx_T _ cid (fun y => { y with queued := true }) (fun y => ⟨rfl, rfl, rfl, rfl, rfl⟩) hT1
      · exact R_same _ _ hR rfl (fun p hp => hp)
      · have hL1 : Lv (Pq todo (cid :: rem)) { s with sendQ := s.sendQ ++ [cid] } :=
          Lv_same _ s _ h rfl (fun d hd => List.mem_append_left _ hd) (fun p hp => hp)
        have hL2 := setCtx_Lv _ _ cid (fun y => { y with queued := true }) (fun y => rfl)
          (fun y _ _ => by show cid ∈ s.sendQ ++ [cid]; simp)
          (fun y _ _ => Or.inl (Or.inl (by show cid ∈ s.sendQ ++ [cid]; simp))) hL1
        refine Lv_weaken _ _ _ hL2 ?_
        intro d y hy _ hP
        by_cases hd : d = cid
        · subst hd
          exact Or.inl (Or.inl (by show d ∈ s.sendQ ++ [d]; simp))
        · exact Or.inr (Pq_drop_head todo cid rem d y hd hP)
    · rename_i hcond
      refine Lv_weaken _ _ _ h ?_
      intro d y hy hm hP
      by_cases hd : d = cid
      · subst hd
        rw [hx] at hy; cases hy
        exfalso
        apply hcond
        have : t = (d, x.reqID) := huniq t ht _ hP.2.1 htc
        simp only [Bool.and_eq_true, Bool.not_eq_true', beq_iff_eq]
        refine ⟨⟨?_, hm⟩, hP.1⟩
        rw [this]
      · exact Or.inr (Pq_drop_head todo cid rem d y hd hP)

theorem resendFold (arm : Nat × Nat) (todo : List (Nat × Nat)) (huniq : ∀ t ∈ todo, ∀ t' ∈ todo, t.1 = t'.1 → t = t') :
    ∀ (order : List Nat) (start : State × List (Nat × Ev)), W start.1 → Lv (Pq todo order) start.1 →
      W (dropResends arm todo start order).1 ∧ Lv (Pq todo []) (dropResends arm todo start order).1 := by
  intro order
  induction order with
  | nil => intro start hW h; exact ⟨hW, h⟩
  | cons cid rest ih =>
    intro start hW h
    unfold dropResends
    simp only [List.foldl_cons]
    have key : W (match todo.find? (fun (t : Nat × Nat) => t.1 == cid) with
          | none => start
          | some t => ((resend start.1 arm cid t.2).1, start.2 ++ (resend start.1 arm cid t.2).2)).1 ∧
        Lv (Pq todo rest) (match todo.find? (fun (t : Nat × Nat) => t.1 == cid) with
          | none => start
          | some t => ((resend start.1 arm cid t.2).1, start.2 ++ (resend start.1 arm cid t.2).2)).1 := by
      split
      · rename_i hnone
        refine ⟨hW, Lv_weaken _ _ _ h ?_⟩
        intro d x _ _ hP
        have hd : d ≠ cid := by
          intro e; subst e
          have := List.find?_eq_none.mp hnone _ hP.2.1
          simp at this
        exact Or.inr (Pq_drop_head todo cid rest d x hd hP)
      · rename_i t hfind
        have htm := List.mem_of_find?_eq_some hfind
        have htc : t.1 = cid := by simpa using List.find?_some hfind
        exact ⟨resend_W _ _ _ _ hW, resend_Lv_q todo huniq start.1 arm cid rest t htm htc hW h⟩
    exact ih _ key.1 key.2

theorem dropPipe_WL (s : State) (arm : Nat × Nat) (p : Nat) (hJ : J s) (h : WL s) : ∀ r ∈ dropPipe s arm p, WL r.1 := by
  intro r hr
  obtain ⟨hW, hL⟩ := h
  -- the state without the pipe
  have hW1 : W { s with pipes := s.pipes.filter (fun q => q.id != p), readyQ := s.readyQ.filter (· != p) } := by
    refine ⟨T_same s _ hW.1 rfl rfl rfl rfl (fun q hq => hq), ?_, ?_⟩
    · intro q hq
      have hq' : q ∈ s.readyQ.filter (· != p) := hq
      obtain ⟨hq1, hq2⟩ := List.mem_filter.mp hq'
      have hne : q ≠ p := by simpa using hq2
      rw [getPipe_filter_ne s p q hne]
      exact hW.2.1 q hq1
    · refine Q_shrink s _ hW.2.2 (fun e => e) ?_
      intro e
      show s.readyQ.filter _ = []
      rw [e]; rfl
  have hL1 : Lv (Pd p (s.ctxs.map (·.id)) []) { s with pipes := s.pipes.filter (fun q => q.id != p), readyQ := s.readyQ.filter (· != p) } := by
    constructor
    · exact hL.flag
    · intro d x hx hm
      have hx0 : getCtx s d = some x := hx
      rcases hL.live d x hx0 hm with h1 | h1
      · rcases h1 with h1 | ⟨q, h1, h2⟩ | h1
        · exact Or.inl (Or.inl h1)
        · by_cases hqp : q = p
          · subst hqp
            obtain ⟨hmem, hid⟩ := getCtx_mem s d x hx0
            exact Or.inr (Or.inl ⟨h1, by rw [← hid]; exact List.mem_map.mpr ⟨x, hmem, rfl⟩⟩)
          · exact Or.inl (Or.inr (Or.inl ⟨q, h1, by rw [getPipe_filter_ne s p q hqp]; exact h2⟩))
        · exact Or.inl (Or.inr (Or.inr h1))
      · exact False.elim h1
  have hfold := dropFold p s.ctxs ({ s with pipes := s.pipes.filter (fun q => q.id != p), readyQ := s.readyQ.filter (· != p) }, [], [])
    hJ.uniq ⟨hW1, hL1, (by intro t ht; cases ht), (by intro t ht; cases ht)⟩
  unfold dropPipe at hr
  simp only [List.mem_flatMap] at hr
  obtain ⟨order, horder, hr⟩ := hr
  -- every noted context is in the order of the re-sends
  have hLq : Lv (Pq (s.ctxs.foldl (dropOne p) ({ s with pipes := s.pipes.filter (fun q => q.id != p), readyQ := s.readyQ.filter (· != p) }, [], [])).2.2 order)
      (s.ctxs.foldl (dropOne p) ({ s with pipes := s.pipes.filter (fun q => q.id != p), readyQ := s.readyQ.filter (· != p) }, [], [])).1 := by
    refine Lv_weaken _ _ _ hfold.lv ?_
    intro d x _ _ hP
    rcases hP with ⟨_, h2⟩ | ⟨h1, h2⟩
    · cases h2
    · refine Or.inr ⟨h1, h2, ?_⟩
      apply perms_mem' _ order horder
      exact List.mem_map.mpr ⟨_, h2, rfl⟩
  have hres := resendFold arm _ hfold.uniq order
    ((s.ctxs.foldl (dropOne p) ({ s with pipes := s.pipes.filter (fun q => q.id != p), readyQ := s.readyQ.filter (· != p) }, [], [])).1,
     (s.ctxs.foldl (dropOne p) ({ s with pipes := s.pipes.filter (fun q => q.id != p), readyQ := s.readyQ.filter (· != p) }, [], [])).2.1)
    hfold.w hLq
  refine readyVariants_WL _ ⟨hres.1, ?_⟩ r hr
  refine Lv_weaken _ _ _ hres.2 ?_
  intro d x _ _ hP
  exact absurd hP.2.2 (by simp)

theorem cancelSend_getCtx_self (s : State) (c : Nat) (z : Ctx) (h : getCtx (cancelSend s c) c = some z) : z.queued = false := by
  rw [getCtx_cancelSend] at h
  cases hg : getCtx s c with
  | none => rw [hg] at h; cases h
  | some y =>
    rw [hg] at h
    have hy := getCtx_id s c y hg
    simp only [Option.map_some, hy, if_true, Option.some.injEq] at h
    subst h
    rfl

theorem Lv_appendCtx (P : Nat → Ctx → Prop) (s : State) (n : Ctx) (hq : n.queued = false) (hm : n.reqMsg = none) (h : Lv P s) :
    Lv P { s with ctxs := s.ctxs ++ [n] } := by
  have hback : ∀ d x, getCtx { s with ctxs := s.ctxs ++ [n] } d = some x → getCtx s d = some x ∨ x = n := by
    intro d x hx
    rw [getCtx_append] at hx
    cases hg : getCtx s d with
    | some y => rw [hg] at hx; simp at hx; left; rw [hx]
    | none =>
      rw [hg] at hx
      simp only [Option.none_or] at hx
      split at hx
      · cases hx; right; rfl
      · cases hx
  constructor
  · intro d x hx hqd
    rcases hback d x hx with h1 | rfl
    · exact h.flag d x h1 hqd
    · rw [hq] at hqd; cases hqd
  · intro d x hx hmm
    rcases hback d x hx with h1 | rfl
    · rcases h.live d x h1 hmm with h2 | h2
      · exact Or.inl (Served_mono s _ d x (fun c hc => hc) (fun p hp => hp) h2)
      · exact Or.inr h2
    · rw [hm] at hmm; cases hmm

theorem core_Lv (s : State) (now : Nat) (op : List String) (hJ : J s) (hW : W s) (h : Lv NoEx s) : ∀ r ∈ core s now op, Lv NoEx r.1 := by
  intro r hr
  obtain ⟨hT, hR, hQ⟩ := hW
  unfold core at hr
  split at hr
  · -- addpipe
    rename_i p
    split at hr
    · simp at hr; subst hr; exact h
    · simp at hr; subst hr
      apply pump_Lv NoEx stable_false
      · exact T_same s _ hT rfl rfl rfl rfl (fun q hq => hq)
      · intro q hq
        have hq' : q ∈ s.readyQ ++ [natOf p] := hq
        simp only [List.mem_append, List.mem_singleton] at hq'
        rcases hq' with hq' | rfl
        · exact getPipe_append s _ q (hR q hq') _
        · unfold getPipe
          show ((s.pipes ++ [({ id := natOf p } : Pipe)]).find? _).isSome = true
          rw [List.find?_isSome]
          exact ⟨{ id := natOf p }, by simp, by simp⟩
      · exact Lv_same NoEx s _ h rfl (fun c hc => hc) (fun q hq => getPipe_append s _ q hq _)
  · -- rmpipe
    simp only [List.mem_map] at hr
    obtain ⟨r0, hr0, rfl⟩ := hr
    exact (dropPipe_WL s _ _ hJ ⟨⟨hT, hR, hQ⟩, h⟩ r0 hr0).2
  · -- inject
    rename_i p b
    try simp only [] at hr
    split at hr
    · simp at hr; subst hr; exact h
    · split at hr
      · simp at hr; subst hr; exact h
      · try simp only [] at hr
        have h0 : Lv NoEx ({ s with readyQ := swapFront s.readyQ (natOf p) } : State) := Lv_eq NoEx s _ h rfl rfl rfl
        have hT0 : T ({ s with readyQ := swapFront s.readyQ (natOf p) } : State) := T_same s _ hT rfl rfl rfl rfl (fun q hq => hq)
        split at hr
        · simp at hr; subst hr; exact h0
        · rename_i rid c hfind
          simp at hr; subst hr
          have hT1 := cancelSend_T _ c hT0
          apply wake_Lv NoEx stable_false
          · exact storeReply_T _ c _ (cancelSend_not_queued _ c) (T_same _ _ hT1 rfl rfl rfl rfl (fun q hq => hq))
          · refine Lv_char NoEx { s with readyQ := swapFront s.readyQ (natOf p) } _ c ?_ ?_ ?_ ?_ h0
            · intro d hd hdc
              show d ∈ s.sendQ.filter (· != c)
              exact List.mem_filter.mpr ⟨hd, by simpa using hdc⟩
            · intro q hq; exact hq
            · intro d hdc
              rw [getCtx_setCtx_ne (h := hdc)]
              case hf => intro y; rfl
              exact cancelSend_getCtx_ne _ c d hdc
            · intro y hy
              cases hg : getCtx (cancelSend { s with readyQ := swapFront s.readyQ (natOf p) } c) c with
              | none =>
                have hg' : getCtx { (cancelSend { s with readyQ := swapFront s.readyQ (natOf p) } c) with ctxByID := (cancelSend { s with readyQ := swapFront s.readyQ (natOf p) } c).ctxByID.filter (fun e => e.1 != rid) } c = none := hg
                rw [getCtx_setCtx_none (hn := hg')] at hy
                case hid => intro y; rfl
                rw [hg'] at hy; cases hy
              | some z =>
                have hg' : getCtx { (cancelSend { s with readyQ := swapFront s.readyQ (natOf p) } c) with ctxByID := (cancelSend { s with readyQ := swapFront s.readyQ (natOf p) } c).ctxByID.filter (fun e => e.1 != rid) } c = some z := hg
                rw [getCtx_setCtx_eq (x := z) (hx := hg')] at hy
                case hf => intro y; rfl
                cases hy
                exact ⟨rfl, cancelSend_getCtx_self _ c z hg⟩
  · -- send
    rename_i call ctx hd b
    simp only [] at hr
    split at hr
    · simp at hr
    · rename_i c hc
      have h0 : Lv NoEx { s with nsent := s.nsent + 1, sent := s.sent ++ [(s.nsent + 1, bytesOf b)] } := Lv_eq NoEx s _ h rfl rfl rfl
      have hR0 : R { s with nsent := s.nsent + 1, sent := s.sent ++ [(s.nsent + 1, bytesOf b)] } := R_same s _ hR rfl (fun q hq => hq)
      split at hr
      · simp at hr; subst hr; exact h0
      · split at hr
        · simp at hr; subst hr; exact h0
        · split at hr
          · simp at hr
          have hcid : c.id = natOf ctx := getCtx_id s _ c hc
          have hc0 : getCtx s c.id = some c := by rw [hcid]; exact hc
          obtain ⟨y1, hy1, hrm, hrp⟩ := cancel_getCtx_cleared s c.id c hc0
          have hT2 : T (setCtx { (cancel { s with nsent := s.nsent + 1, sent := s.sent ++ [(s.nsent + 1, bytesOf b)] } c.id) with sendQ := (cancel { s with nsent := s.nsent + 1, sent := s.sent ++ [(s.nsent + 1, bytesOf b)] } c.id).sendQ ++ [c.id] } c.id (fun y => { y with reqID := s.nsent + 1, queued := true, sendMsg := some (bytesOf b), sendFor := s.nsent + 1, sendAbort := false })) := by
            rw [cancel_nsent_comm]
            have hse : (cancel s c.id).sent = s.sent := by
              unfold cancel cancelSend
              simp only []
              split <;> rfl
            have := send_T (cancel s c.id) c.id (s.nsent + 1) y1 (bytesOf b) (by rw [cancel_nsent]; omega) hy1 hrm hrp (cancel_T s c.id hT)
            rw [hse] at this
            exact this
          have h1 := cancel_Lv NoEx _ c.id h0
          have hR1 := cancel_R _ c.id hR0
          have h1' : Lv NoEx { (cancel { s with nsent := s.nsent + 1, sent := s.sent ++ [(s.nsent + 1, bytesOf b)] } c.id) with sendQ := (cancel { s with nsent := s.nsent + 1, sent := s.sent ++ [(s.nsent + 1, bytesOf b)] } c.id).sendQ ++ [c.id] } :=
            Lv_same NoEx _ _ h1 rfl (fun d hd => List.mem_append_left _ hd) (fun q hq => hq)
          have h2 : Lv NoEx (setCtx { (cancel { s with nsent := s.nsent + 1, sent := s.sent ++ [(s.nsent + 1, bytesOf b)] } c.id) with sendQ := (cancel { s with nsent := s.nsent + 1, sent := s.sent ++ [(s.nsent + 1, bytesOf b)] } c.id).sendQ ++ [c.id] } c.id (fun y => { y with reqID := s.nsent + 1, queued := true, sendMsg := some (bytesOf b), sendFor := s.nsent + 1, sendAbort := false })) := by
            refine setCtx_Lv NoEx _ c.id _ (fun y => rfl) ?_ ?_ h1'
            · intro y _ _
              show c.id ∈ (cancel { s with nsent := s.nsent + 1, sent := s.sent ++ [(s.nsent + 1, bytesOf b)] } c.id).sendQ ++ [c.id]
              simp
            · intro y _ _
              exact Or.inl (Or.inl (by show c.id ∈ (cancel { s with nsent := s.nsent + 1, sent := s.sent ++ [(s.nsent + 1, bytesOf b)] } c.id).sendQ ++ [c.id]; simp))
          have hR2 : R (setCtx { (cancel { s with nsent := s.nsent + 1, sent := s.sent ++ [(s.nsent + 1, bytesOf b)] } c.id) with sendQ := (cancel { s with nsent := s.nsent + 1, sent := s.sent ++ [(s.nsent + 1, bytesOf b)] } c.id).sendQ ++ [c.id] } c.id (fun y => { y with reqID := s.nsent + 1, queued := true, sendMsg := some (bytesOf b), sendFor := s.nsent + 1, sendAbort := false })) :=
            R_same _ _ hR1 rfl (fun q hq => hq)
          have hT3 := wake_T _ c.id hT2
          have hR3 := wake_R _ c.id hR2
          have h3 := wake_Lv NoEx stable_false _ c.id hT2 h2
          have hTadd : ∀ (ps : List Parked), T { (wake (setCtx { (cancel { s with nsent := s.nsent + 1, sent := s.sent ++ [(s.nsent + 1, bytesOf b)] } c.id) with sendQ := (cancel { s with nsent := s.nsent + 1, sent := s.sent ++ [(s.nsent + 1, bytesOf b)] } c.id).sendQ ++ [c.id] } c.id (fun y => { y with reqID := s.nsent + 1, queued := true, sendMsg := some (bytesOf b), sendFor := s.nsent + 1, sendAbort := false })) c.id).1 with parkedSend := ps } :=
            fun ps => T_same _ _ hT3 rfl rfl rfl rfl (fun q hq => hq)
          have hRadd : ∀ (ps : List Parked), R { (wake (setCtx { (cancel { s with nsent := s.nsent + 1, sent := s.sent ++ [(s.nsent + 1, bytesOf b)] } c.id) with sendQ := (cancel { s with nsent := s.nsent + 1, sent := s.sent ++ [(s.nsent + 1, bytesOf b)] } c.id).sendQ ++ [c.id] } c.id (fun y => { y with reqID := s.nsent + 1, queued := true, sendMsg := some (bytesOf b), sendFor := s.nsent + 1, sendAbort := false })) c.id).1 with parkedSend := ps } :=
            fun ps => R_same _ _ hR3 rfl (fun q hq => hq)
          have hLadd : ∀ (ps : List Parked), Lv NoEx { (wake (setCtx { (cancel { s with nsent := s.nsent + 1, sent := s.sent ++ [(s.nsent + 1, bytesOf b)] } c.id) with sendQ := (cancel { s with nsent := s.nsent + 1, sent := s.sent ++ [(s.nsent + 1, bytesOf b)] } c.id).sendQ ++ [c.id] } c.id (fun y => { y with reqID := s.nsent + 1, queued := true, sendMsg := some (bytesOf b), sendFor := s.nsent + 1, sendAbort := false })) c.id).1 with parkedSend := ps } :=
            fun ps => Lv_eq NoEx _ _ h3 rfl rfl rfl
          have keyL : ∀ S : State, Lv NoEx S → ∀ f : Parked → Bool, Lv NoEx { S with parkedSend := S.parkedSend.filter f } :=
            fun S hS f => Lv_eq NoEx S _ hS rfl rfl rfl
          split at hr
          · simp at hr; subst hr
            exact keyL _ (pump_Lv NoEx stable_false _ _ _ (hTadd _) (hRadd _) (hLadd _)) _
          · simp at hr; subst hr
            exact pump_Lv NoEx stable_false _ _ _ (hTadd _) (hRadd _) (hLadd _)
  · -- recv
    rename_i call ctx
    simp only [] at hr
    split at hr
    · simp at hr
    · rename_i c hc
      split at hr
      · simp at hr; subst hr; exact h
      · split at hr
        · simp at hr; subst hr; exact h
        · split at hr
          · simp at hr; subst hr; exact h
          · split at hr
            · simp at hr
            simp at hr; subst hr
            have hT1 : T { s with parkedRecv := s.parkedRecv ++ [{ call := natOf call, ctx := c.id, rid := c.reqID, deadline := if c.recvExpire > 0 then some { id := c.reqID, tmin := s.tprev, tmax := now, period := c.recvExpire } else none }] } :=
              T_same s _ hT rfl rfl rfl rfl (fun q hq => hq)
            have h1 : Lv NoEx { s with parkedRecv := s.parkedRecv ++ [{ call := natOf call, ctx := c.id, rid := c.reqID, deadline := if c.recvExpire > 0 then some { id := c.reqID, tmin := s.tprev, tmax := now, period := c.recvExpire } else none }] } :=
              Lv_eq NoEx s _ h rfl rfl rfl
            apply wake_Lv NoEx stable_false
            · exact setCtx_T _ _ _ (fun y => ⟨rfl, rfl, rfl, rfl, rfl⟩) hT1
            · exact setCtx_Lv_keep NoEx _ _ _ (fun y => ⟨rfl, rfl, rfl, rfl, rfl, rfl⟩) (fun _ hy => hy) h1
  · simp at hr; subst hr; exact setCtx_Lv_keep NoEx s _ _ (fun y => ⟨rfl, rfl, rfl, rfl, rfl, rfl⟩) (fun _ hy => hy) h
  · simp at hr; subst hr; exact setCtx_Lv_keep NoEx s _ _ (fun y => ⟨rfl, rfl, rfl, rfl, rfl, rfl⟩) (fun _ hy => hy) h
  · simp at hr; subst hr; exact setCtx_Lv_keep NoEx s _ _ (fun y => ⟨rfl, rfl, rfl, rfl, rfl, rfl⟩) (fun _ hy => hy) h
  · simp at hr; subst hr; exact setCtx_Lv_keep NoEx s _ _ (fun y => ⟨rfl, rfl, rfl, rfl, rfl, rfl⟩) (fun _ hy => hy) h
  · simp at hr; subst hr; exact setCtx_Lv_keep NoEx s _ _ (fun y => ⟨rfl, rfl, rfl, rfl, rfl, rfl⟩) (fun _ hy => hy) h
  · -- hold
    simp at hr; subst hr
    exact setPipe_Lv NoEx s _ _ (fun y => rfl) h
  · -- release ok
    split at hr
    · simp at hr
    · rename_i pp hpp
      split at hr
      · simp at hr
      · simp only [] at hr
        simp at hr; subst hr
        have hid := getPipe_id s _ pp hpp
        have hT1 : T (setPipe s pp.id (fun x => { x with inflight := none })) := T_same s _ hT rfl rfl rfl rfl (fun q hq => hq)
        have hR1 : R (setPipe s pp.id (fun x => { x with inflight := none })) := setPipe_R s _ _ (fun y => rfl) hR
        have hL1 : Lv NoEx (setPipe s pp.id (fun x => { x with inflight := none })) := setPipe_Lv NoEx s _ _ (fun y => rfl) h
        have halive : (getPipe (setPipe s pp.id (fun x => { x with inflight := none })) pp.id).isSome = true := by
          rw [getPipe_setPipe s pp.id (fun x => { x with inflight := none }) (fun y => rfl) pp.id, hid, hpp]; rfl
        apply pump_Lv NoEx stable_false
        · split
          · exact hT1
          · exact T_same _ _ hT1 rfl rfl rfl rfl (fun q hq => hq)
        · split
          · exact hR1
          · intro q hq
            have hq' : q ∈ (setPipe s pp.id (fun x => { x with inflight := none })).readyQ ++ [pp.id] := hq
            simp only [List.mem_append, List.mem_singleton] at hq'
            rcases hq' with hq' | rfl
            · exact hR1 q hq'
            · exact halive
        · split
          · exact hL1
          · exact Lv_eq NoEx _ _ hL1 rfl rfl rfl
  · -- release err
    simp only [List.mem_map] at hr
    obtain ⟨r0, hr0, rfl⟩ := hr
    exact (dropPipe_WL s _ _ hJ ⟨⟨hT, hR, hQ⟩, h⟩ r0 hr0).2
  · -- openctx
    split at hr
    · simp at hr; subst hr; exact h
    · split at hr
      · simp at hr
      · split at hr
        · simp at hr
        · simp at hr; subst hr
          exact Lv_appendCtx NoEx s _ rfl rfl h
  · -- closectx
    split at hr
    · simp at hr
    · rename_i c hc
      split at hr
      · simp at hr; subst hr; exact h
      · simp at hr; subst hr
        have h1 := setCtx_WL s c.id (fun y => { y with closed := true }) (fun y => ⟨rfl, rfl, rfl, rfl, rfl⟩) (fun y => ⟨rfl, rfl, rfl⟩) ⟨⟨hT, hR, hQ⟩, h⟩
        exact (wake_WL _ c.id (cancel_WL _ c.id h1)).2
  · simp at hr; subst hr; exact h
  · -- close
    split at hr
    · simp at hr; subst hr; exact h
    · simp at hr; subst hr
      have hW0 : WL ({ s with closed := true } : State) := WL_same s _ ⟨⟨hT, hR, hQ⟩, h⟩ rfl rfl rfl rfl rfl rfl rfl
      exact (foldl_K closeOne (fun acc : State × List (Nat × Ev) => WL acc.1) (fun b a hb => closeOne_WL b a hb) s.ctxs ({ s with closed := true }, []) hW0).2
  · simp at hr

theorem step_WL (s : State) (op : List String) (hJ : J s) (h : WL s) : ∀ o ∈ step s op, WL o.1 := by
  intro o ho
  simp only [step, List.mem_flatMap, List.mem_map] at ho
  obtain ⟨st, hst, r, hr, r2, hr2, rfl⟩ := ho
  have h1 := timerOutcomes_WL s _ h st hst
  have hJ1 := timerOutcomes_J s _ hJ st hst
  have h2W := core_W st.1 _ _ h1.1 r hr
  have h2L := core_Lv st.1 _ _ hJ1 h1.1 h1.2 r hr
  exact timerOutcomes_WL { r.1 with tprev := opTime op } _ (WL_same r.1 _ ⟨h2W, h2L⟩ rfl rfl rfl rfl rfl rfl rfl) r2 hr2

theorem reach_WL (s : State) (h : Reach s) : WL s := by
  induction h with
  | init =>
    refine ⟨⟨init_T, by intro p hp; simp [init] at hp, Or.inl rfl⟩, ?_, ?_⟩
    · intro d x hx hq
      have : x = { id := 0 } := by
        unfold getCtx at hx
        have := List.mem_of_find?_eq_some hx
        simpa [init] using this
      subst this; cases hq
    · intro d x hx hm
      have : x = { id := 0 } := by
        unfold getCtx at hx
        have := List.mem_of_find?_eq_some hx
        simpa [init] using this
      subst this; cases hm
  | step s op o hs ho ih => exact step_WL s op (reach_J s hs) ih o ho

/-- over every history: an outstanding request is never stranded.  In every reachable state, a context that retains a
    request (transmitted, not yet answered, cancelled or closed) is waiting in the send queue for a ready pipe, or the
    pipe that last carried the request is still connected, or its retry timer is running for this very request — and a
    context flagged as queued really is in the send queue.  Whatever sequence of pipe losses (with retries enabled or
    disabled), timer firings, late replies, new requests on other contexts and closes led here -/
theorem outstanding_request_is_never_stranded (s : State) (h : Reach s) :
    ∀ d x, getCtx s d = some x → x.reqMsg.isSome = true →
      d ∈ s.sendQ ∨ (∃ p, x.lastPipe = some p ∧ (getPipe s p).isSome = true) ∨ (∃ t, x.timer = some t ∧ t.id = x.reqID) := by
  intro d x hx hm
  rcases (reach_WL s h).2.live d x hx hm with h1 | h1
  · exact h1
  · exact False.elim h1

end Req
end Proto
end Model
