import Model.Proto.Pair
namespace Model
namespace Proto
namespace Pair

/-- what the peer has been handed, plus what is in flight, plus what is queued, is — in order — part of what
    entered the send queue (so nothing is duplicated, reordered or invented, whatever faults occur);
    and the same for the receive side -/
def Inv (s : State) : Prop :=
  (s.txd ++ s.inflight.toList ++ s.sendQ).Sublist s.enq ∧
  (s.rout ++ s.recvQ ++ s.inhand.toList).Sublist s.rin

theorem sublist_drop_mid {α} (a b c d : List α) (h : (a ++ b ++ c).Sublist d) : (a ++ c).Sublist d := by
  refine List.Sublist.trans ?_ h
  rw [List.append_assoc]
  exact List.Sublist.append (List.Sublist.refl a) (List.sublist_append_right b c)

theorem sublist_drop_last {α} (a b d : List α) (h : (a ++ b).Sublist d) : a.Sublist d :=
  List.Sublist.trans (List.sublist_append_left a b) h

theorem progressRecv_inv (s : State) (h : Inv s) (s' : State) (evs) (hp : progress.progressRecv s = some (s', evs)) : Inv s' := by
  obtain ⟨h1, h2⟩ := h
  unfold progress.progressRecv at hp
  split at hp
  · rename_i call rest m q hpr hq
    simp only [Option.some.injEq, Prod.mk.injEq] at hp
    obtain ⟨rfl, _⟩ := hp
    refine ⟨h1, ?_⟩
    simp only [hq] at h2
    simpa [List.append_assoc] using h2
  · rename_i hno
    split at hp
    · rename_i m hin
      split at hp
      · rename_i call rest hpr
        simp only [Option.some.injEq, Prod.mk.injEq] at hp
        obtain ⟨rfl, _⟩ := hp
        refine ⟨h1, ?_⟩
        have hq : s.recvQ = [] := by
          cases hrq : s.recvQ with
          | nil => rfl
          | cons x xs => exact absurd hrq (by intro hh; exact hno call rest x xs hpr hh)
        simp only [hin, Option.toList_some, hq, List.append_nil] at h2
        simpa [hq] using h2
      · split at hp
        · simp only [Option.some.injEq, Prod.mk.injEq] at hp
          obtain ⟨rfl, _⟩ := hp
          refine ⟨h1, ?_⟩
          simp only [hin, Option.toList_some] at h2
          simpa [List.append_assoc] using h2
        · simp at hp
    · rename_i hin
      split at hp
      · rename_i p b rest hpeer hb
        simp only [Option.some.injEq, Prod.mk.injEq] at hp
        obtain ⟨rfl, _⟩ := hp
        refine ⟨h1, ?_⟩
        simp only [hin, Option.toList_none, List.append_nil] at h2
        simp only [Option.toList_some]
        exact List.Sublist.append h2 (List.Sublist.refl _)
      · simp at hp

theorem progress_inv (s : State) (h : Inv s) (s' : State) (evs) (hp : progress s = some (s', evs)) : Inv s' := by
  unfold progress at hp
  split at hp
  · rename_i p m rest hpeer hinf hq
    obtain ⟨h1, h2⟩ := h
    split at hp
    · simp only [Option.some.injEq, Prod.mk.injEq] at hp
      obtain ⟨rfl, _⟩ := hp
      refine ⟨?_, h2⟩
      simp only [hinf, hq, Option.toList_none, List.append_nil] at h1
      simpa [List.append_assoc] using h1
    · simp only [Option.some.injEq, Prod.mk.injEq] at hp
      obtain ⟨rfl, _⟩ := hp
      refine ⟨?_, h2⟩
      simp only [hinf, hq, Option.toList_none, List.append_nil] at h1
      simpa [hinf, List.append_assoc] using h1
  · split at hp
    · rename_i call m rest hps
      split at hp
      · simp only [Option.some.injEq, Prod.mk.injEq] at hp
        obtain ⟨rfl, _⟩ := hp
        obtain ⟨h1, h2⟩ := h
        refine ⟨?_, h2⟩
        have := List.Sublist.append h1 (List.Sublist.refl [m])
        simpa [List.append_assoc] using this
      · exact progressRecv_inv s h s' evs hp
    · exact progressRecv_inv s h s' evs hp

theorem settle_inv (fuel : Nat) (s : State) (h : Inv s) : Inv (settle fuel s).1 := by
  induction fuel generalizing s with
  | zero => simpa [settle] using h
  | succ n ih =>
    simp only [settle]
    cases hp : progress s with
    | none => simpa using h
    | some r =>
      obtain ⟨s', evs⟩ := r
      simp only
      exact ih s' (progress_inv s h s' evs hp)

theorem settled_inv (s : State) (pre evs) (h : Inv s) : Inv (settled s pre evs).1 := by
  simp only [settled]
  exact settle_inv _ s h

theorem dropPeer_inv (s : State) (h : Inv s) : Inv (dropPeer s) := by
  obtain ⟨h1, h2⟩ := h
  refine ⟨?_, ?_⟩
  · simp only [dropPeer, Option.toList_none, List.append_nil]
    exact sublist_drop_mid _ _ _ _ h1
  · simp only [dropPeer, Option.toList_none, List.append_nil]
    exact sublist_drop_last _ _ _ h2

/-- every outcome of every operation preserves the history invariant -/
theorem step_inv (s : State) (op : List String) (h : Inv s) : ∀ o ∈ step s op, Inv o.1 := by
  intro o ho
  unfold step at ho
  split at ho
  · -- addpipe
    split at ho
    · simp at ho; subst ho; exact h
    · split at ho
      · simp at ho; subst ho; exact h
      · simp at ho; subst ho; exact settled_inv _ _ _ h
  · -- rmpipe
    split at ho
    · simp at ho; subst ho; exact settled_inv _ _ _ (dropPeer_inv s h)
    · simp at ho; subst ho; exact h
  · -- inject
    split at ho
    · simp at ho; subst ho; exact settled_inv _ _ _ h
    · simp at ho; subst ho; exact h
  · -- send
    have henq : ∀ m : Msg, Inv { s with sendQ := s.sendQ ++ [m], enq := s.enq ++ [m] } := by
      intro m
      obtain ⟨h1, h2⟩ := h
      refine ⟨?_, h2⟩
      have := List.Sublist.append h1 (List.Sublist.refl [m])
      simpa [List.append_assoc] using this
    split at ho
    · simp at ho; subst ho; exact h
    · split at ho
      · split at ho
        · simp at ho
          rcases ho with rfl | rfl
          · exact settled_inv _ _ _ (henq _)
          · exact h
        · simp at ho; subst ho; exact h
      · split at ho
        · simp at ho; subst ho; exact settled_inv _ _ _ (henq _)
        · simp at ho; subst ho; exact h
  · -- recv
    split at ho
    · split at ho
      · rename_i hq
        split at ho
        · simp at ho; subst ho; exact h
        · rename_i m hm
          simp at ho
          rcases ho with rfl | rfl
          · exact h
          · apply settled_inv
            obtain ⟨h1, h2⟩ := h
            refine ⟨h1, ?_⟩
            simp only [hq, hm] at h2
            simpa [List.append_assoc, hq] using h2
      · rename_i m q hq
        simp at ho
        rcases ho with rfl | rfl
        · exact h
        · apply settled_inv
          obtain ⟨h1, h2⟩ := h
          refine ⟨h1, ?_⟩
          simp only [hq] at h2
          simpa [List.append_assoc] using h2
    · simp at ho; subst ho; exact settled_inv _ _ _ h
  · -- best effort
    simp at ho; subst ho; exact h
  · -- READQ-LEN
    simp at ho; subst ho
    apply settled_inv
    obtain ⟨h1, h2⟩ := h
    refine ⟨h1, ?_⟩
    simp only [Option.toList_none, List.append_nil]
    exact sublist_drop_last _ _ _ (sublist_drop_last _ _ _ h2)
  · -- WRITEQ-LEN
    simp at ho; subst ho
    apply settled_inv
    obtain ⟨h1, h2⟩ := h
    refine ⟨?_, ?_⟩
    · simp only [List.append_nil]
      exact sublist_drop_last _ _ _ h1
    · simp only [Option.toList_none, List.append_nil]
      exact sublist_drop_last _ _ _ h2
  · -- hold
    split at ho <;> simp at ho <;> subst ho <;> exact h
  · -- release ok
    split at ho
    · rename_i m hin
      split at ho
      · simp at ho; subst ho
        apply settled_inv
        obtain ⟨h1, h2⟩ := h
        refine ⟨?_, h2⟩
        simp only [hin, Option.toList_some] at h1
        simpa [List.append_assoc] using h1
      · simp at ho
    · simp at ho
  · -- release err
    split at ho
    · simp at ho; subst ho; exact settled_inv _ _ _ (dropPeer_inv s h)
    · simp at ho
  · -- openctx
    simp at ho; subst ho; exact h
  · -- close
    split at ho
    · simp at ho; subst ho; exact h
    · simp at ho; subst ho; exact h
  · simp at ho

inductive Reach : State → Prop
  | init : Reach init
  | step (s : State) (op : List String) (o : State × List Ev) : Reach s → o ∈ step s op → Reach o.1

theorem reach_inv (s : State) (h : Reach s) : Inv s := by
  induction h with
  | init => simp [Inv, init]
  | step s op o _ ho ih => exact step_inv s op ih o ho

end Pair
end Proto
end Model
