/-
  Model/InprocPipe.lean — an established inproc connection (transport/inproc/inproc.go: `inproc.Send`, `Recv`, `Close`):
  two ends, one unbuffered channel per direction, one close channel per end; every Send and Recv selects on its channel
  and on both close channels.

  A Send copies header and body into one new message and completes exactly when a Recv at the other end takes it; a
  Recv yields that copy; closing either end makes every Send and Recv parked at either end fail with the closed error,
  and every later one too.  Which of several parked calls of one kind meets a newcomer is the runtime's choice: `step`
  returns every outcome.  `dir` is the end a message is sent from (0: the accepting side, 1: the dialling side).

  Ghost state: `sent`, the messages whose Send returned nil, and `recvd`, the messages Recv returned, both in order and
  with their direction.

  Proved over all histories (`reach_inv`): `recvd = sent` — in each direction exactly the messages whose Send succeeded
  are received, once each, in that order, as header followed by body; no Send and Recv that could meet are both parked;
  once either end is closed nobody is parked.
-/
namespace Model
namespace InprocPipe

abbrev Bytes := List Nat

structure State where
  parkedSend : List (Nat × Nat × Bytes) := []   -- (dir, call, header ++ body)
  parkedRecv : List (Nat × Nat) := []           -- (dir of the flow it reads, call)
  closed0 : Bool := false
  closed1 : Bool := false
  sent : List (Nat × Bytes) := []
  recvd : List (Nat × Bytes) := []
deriving Repr, DecidableEq, BEq

def init : State := {}

inductive Op
 | send (dir call : Nat) (hdr body : Bytes)
 | recv (dir call : Nat)          -- a Recv at the end opposite to `dir`
 | close (e : Nat)
deriving Repr, DecidableEq

def anyClosed (s : State) : Bool := s.closed0 || s.closed1

def hexDigit (n : Nat) : Char := if n < 10 then Char.ofNat (48 + n) else Char.ofNat (87 + n)
def hex (b : Bytes) : String := if b.isEmpty then "-" else String.ofList (b.flatMap (fun x => [hexDigit (x / 16 % 16), hexDigit (x % 16)]))

def insertTok (x : Nat × String) : List (Nat × String) → List (Nat × String)
 | [] => [x]
 | y :: ys => if x.1 ≤ y.1 then x :: y :: ys else y :: insertTok x ys
def render (res : Option String) (rets : List (Nat × String)) : List String :=
  (match res with | some r => [s!"res:{r}"] | none => []) ++ (rets.foldr insertTok []).map (fun t => s!"ret:{t.1}:{t.2}")

def step (s : State) : Op → List (State × List String)
 | .send dir call hdr body =>
   if anyClosed s then [(s, render none [(call, "closed")])] else
   let rs := s.parkedRecv.filter (fun r => r.1 = dir)
   if rs.isEmpty then [({ s with parkedSend := s.parkedSend ++ [(dir, call, hdr ++ body)] }, render none [])] else
   rs.map (fun r =>
     ({ s with parkedRecv := s.parkedRecv.filter (fun q => q ≠ r), sent := s.sent ++ [(dir, hdr ++ body)],
               recvd := s.recvd ++ [(dir, hdr ++ body)] },
      render none [(call, "ok"), (r.2, "msg:" ++ hex (hdr ++ body))]))
 | .recv dir call =>
   if anyClosed s then [(s, render none [(call, "closed")])] else
   let ss := s.parkedSend.filter (fun x => x.1 = dir)
   if ss.isEmpty then [({ s with parkedRecv := s.parkedRecv ++ [(dir, call)] }, render none [])] else
   ss.map (fun x =>
     ({ s with parkedSend := s.parkedSend.filter (fun q => q ≠ x), sent := s.sent ++ [(dir, x.2.2)],
               recvd := s.recvd ++ [(dir, x.2.2)] },
      render none [(x.2.1, "ok"), (call, "msg:" ++ hex x.2.2)]))
 | .close e =>
   [({ s with closed0 := s.closed0 || e == 0, closed1 := s.closed1 || e != 0, parkedSend := [], parkedRecv := [] },
     render (some "ok") (s.parkedSend.map (fun x => (x.2.1, "closed")) ++ s.parkedRecv.map (fun r => (r.2, "closed"))))]

inductive Reach : State → Prop
 | init : Reach init
 | step (s : State) (o : Op) (r : State × List String) : Reach s → r ∈ step s o → Reach r.1

structure Inv (s : State) : Prop where
  same : s.recvd = s.sent
  quiet : ∀ x ∈ s.parkedSend, ∀ r ∈ s.parkedRecv, x.1 ≠ r.1
  closedEmpty : anyClosed s = true → s.parkedSend = [] ∧ s.parkedRecv = []

theorem init_inv : Inv init := ⟨rfl, by simp [init], by simp [init]⟩

theorem step_inv (s : State) (o : Op) (r : State × List String) (h : Inv s) (hr : r ∈ step s o) : Inv r.1 := by
  cases o with
  | send dir call hdr body =>
    simp only [step] at hr
    split at hr
    · simp at hr; subst hr; exact h
    · rename_i hc
      have hopen : anyClosed s = false := by simpa using hc
      split at hr
      · rename_i hemp
        simp at hr; subst hr
        refine ⟨h.same, ?_, ?_⟩
        · intro x hx q hq
          simp only [List.mem_append, List.mem_singleton] at hx
          rcases hx with hx | rfl
          · exact h.quiet x hx q hq
          · intro he
            have : q ∈ s.parkedRecv.filter (fun r => r.1 = dir) := by simp [hq, he.symm]
            have hnil : s.parkedRecv.filter (fun r => r.1 = dir) = [] := by simpa using hemp
            rw [hnil] at this
            cases this
        · intro hcl
          simp only [anyClosed] at hcl hopen
          rw [hopen] at hcl
          cases hcl
      · simp only [List.mem_map] at hr
        obtain ⟨q, _, rfl⟩ := hr
        refine ⟨by simp [h.same], ?_, ?_⟩
        · intro x hx q' hq'
          exact h.quiet x hx q' (List.mem_filter.1 hq').1
        · intro hcl
          simp only [anyClosed] at hcl hopen
          rw [hopen] at hcl
          cases hcl
  | recv dir call =>
    simp only [step] at hr
    split at hr
    · simp at hr; subst hr; exact h
    · rename_i hc
      have hopen : anyClosed s = false := by simpa using hc
      split at hr
      · rename_i hemp
        simp at hr; subst hr
        refine ⟨h.same, ?_, ?_⟩
        · intro x hx q hq
          simp only [List.mem_append, List.mem_singleton] at hq
          rcases hq with hq | rfl
          · exact h.quiet x hx q hq
          · intro he
            have : x ∈ s.parkedSend.filter (fun y => y.1 = dir) := by simp [hx, he]
            have hnil : s.parkedSend.filter (fun y => y.1 = dir) = [] := by simpa using hemp
            rw [hnil] at this
            cases this
        · intro hcl
          simp only [anyClosed] at hcl hopen
          rw [hopen] at hcl
          cases hcl
      · simp only [List.mem_map] at hr
        obtain ⟨q, _, rfl⟩ := hr
        refine ⟨by simp [h.same], ?_, ?_⟩
        · intro x hx q' hq'
          exact h.quiet x (List.mem_filter.1 hx).1 q' hq'
        · intro hcl
          simp only [anyClosed] at hcl hopen
          rw [hopen] at hcl
          cases hcl
  | close e =>
    simp only [step] at hr
    simp at hr; subst hr
    exact ⟨h.same, by simp, by simp⟩

theorem reach_inv {s : State} (h : Reach s) : Inv s := by
  induction h with
  | init => exact init_inv
  | step s o r _ hr ih => exact step_inv s o r ih hr

end InprocPipe
end Model
