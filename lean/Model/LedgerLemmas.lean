import Model.Ledger
namespace Model
namespace Ledger

theorem eq_of_nodup_map {α β : Type} (f : α → β) (l : List α) (h : (l.map f).Nodup) (a b : α) (ha : a ∈ l) (hb : b ∈ l)
    (hf : f a = f b) : a = b := by
  induction l with
  | nil => simp at ha
  | cons x xs ih =>
    simp only [List.map_cons, List.nodup_cons, List.mem_map, not_exists, not_and] at h
    simp only [List.mem_cons] at ha hb
    rcases ha with rfl | ha <;> rcases hb with rfl | hb
    · rfl
    · exact absurd hf.symm (h.1 b hb)
    · exact absurd hf (h.1 a ha)
    · exact ih h.2 ha hb

theorem get_mem (s : State) (m : MsgId) (x : Msg) (h : get s m = some x) : x ∈ s.msgs ∧ x.id = m := by
  unfold get at h
  exact ⟨List.mem_of_find?_eq_some h, by simpa using List.find?_some h⟩

/-- replacing a message by one with the same id that satisfies the per-message facts keeps the invariant -/
theorem set_inv (s : State) (x y : Msg) (hi : Inv s) (hx : x ∈ s.msgs) (hid : y.id = x.id)
    (hc : y.refcnt = y.owners.length) (hp : y.pooled = true ↔ y.owners = []) : Inv (set s y) := by
  have hmap : (set s y).msgs = s.msgs.map (fun z => if z.id = y.id then y else z) := rfl
  constructor
  · intro z hz
    rw [hmap, List.mem_map] at hz
    obtain ⟨z0, hz0, rfl⟩ := hz
    split
    · exact hc
    · exact hi.count z0 hz0
  · intro z hz
    rw [hmap, List.mem_map] at hz
    obtain ⟨z0, hz0, rfl⟩ := hz
    split
    · exact hp
    · exact hi.pooled z0 hz0
  · intro z hz
    rw [hmap, List.mem_map] at hz
    obtain ⟨z0, hz0, rfl⟩ := hz
    show _ < s.next
    split
    · rw [hid]; exact hi.ids x hx
    · exact hi.ids z0 hz0
  · have : (set s y).msgs.map (·.id) = s.msgs.map (·.id) := by
      rw [hmap, List.map_map]
      apply List.map_congr_left
      intro z _
      simp only [Function.comp]
      split
      · rename_i h; exact h.symm
      · rfl
    rw [this]; exact hi.nodup

theorem append_inv (s : State) (y : Msg) (hi : Inv s) (hid : y.id = s.next)
    (hc : y.refcnt = y.owners.length) (hp : y.pooled = true ↔ y.owners = []) :
    Inv { s with msgs := s.msgs ++ [y], next := s.next + 1 } := by
  constructor
  · intro z hz
    simp only [List.mem_append, List.mem_singleton] at hz
    rcases hz with hz | rfl
    · exact hi.count z hz
    · exact hc
  · intro z hz
    simp only [List.mem_append, List.mem_singleton] at hz
    rcases hz with hz | rfl
    · exact hi.pooled z hz
    · exact hp
  · intro z hz
    simp only [List.mem_append, List.mem_singleton] at hz
    rcases hz with hz | rfl
    · exact Nat.lt_succ_of_lt (hi.ids z hz)
    · show z.id < s.next + 1
      rw [hid]; exact Nat.lt_succ_self _
  · simp only [List.map_append, List.map_cons, List.map_nil]
    rw [List.nodup_append]
    refine ⟨hi.nodup, by simp, ?_⟩
    intro a ha b hb
    simp only [List.mem_singleton] at hb
    subst hb
    simp only [List.mem_map] at ha
    obtain ⟨z, hz, rfl⟩ := ha
    have h1 := hi.ids z hz
    intro heq
    rw [heq, hid] at h1
    exact Nat.lt_irrefl _ h1

theorem bad_inv (s : State) (w : String) (hi : Inv s) : Inv { s with bad := s.bad ++ [w] } :=
  ⟨hi.count, hi.pooled, hi.ids, hi.nodup⟩

theorem erase_len (l : List Owner) (o : Owner) (h : l.contains o = true) : ((l.erase o).length : Int) = (l.length : Int) - 1 := by
  have hm : o ∈ l := by simpa using h
  have := List.length_erase_of_mem hm
  have hpos : 0 < l.length := List.length_pos_of_mem hm
  omega

/-- dropping one reference: the count follows the owners, and the buffer is pooled exactly when no owner is left -/
theorem dropped_facts (x : Msg) (o : Owner) (hc : x.refcnt = x.owners.length) (ho : x.owners.contains o = true) :
    let x' : Msg := { x with refcnt := x.refcnt - 1, owners := x.owners.erase o }
    (x'.refcnt = x'.owners.length) ∧ (decide (x'.refcnt = 0) = true ↔ x'.owners = []) := by
  have hl := erase_len x.owners o ho
  constructor
  · show x.refcnt - 1 = ((x.owners.erase o).length : Int)
    rw [hl, hc]
  · show decide (x.refcnt - 1 = 0) = true ↔ x.owners.erase o = []
    rw [decide_eq_true_iff, hc, ← hl]
    constructor
    · intro h
      exact List.eq_nil_of_length_eq_zero (by omega)
    · intro h; rw [h]; rfl

theorem step_inv (s : State) (op : Op) (hi : Inv s) : Inv (step s op).1 := by
  cases op with
  | new o reuse =>
    simp only [step]
    split
    · rename_i x hx
      split
      · -- a pooled buffer is handed out again
        cases hr : reuse with
        | none => simp [hr] at hx
        | some r =>
          simp only [hr, Option.bind_some] at hx
          obtain ⟨hxm, _⟩ := get_mem s r x hx
          exact set_inv s x _ hi hxm rfl (by simp) (by simp)
      · exact bad_inv s _ hi
    · exact append_inv s _ hi rfl (by simp) (by simp)
  | clone o o' m =>
    simp only [step]
    split
    · rename_i x hx
      obtain ⟨hxm, _⟩ := get_mem s m x hx
      split
      · exact bad_inv s _ hi
      · refine set_inv s x _ hi hxm rfl ?_ ?_
        · simp only [List.length_append, List.length_cons, List.length_nil]
          rw [hi.count x hxm]; omega
        · rename_i hcond
          simp only [Bool.or_eq_true, not_or, Bool.not_eq_true] at hcond
          simp [hcond.1]
    · exact bad_inv s _ hi
  | free o m =>
    simp only [step]
    split
    · rename_i x hx
      obtain ⟨hxm, _⟩ := get_mem s m x hx
      split
      · exact bad_inv s _ hi
      · rename_i hcond
        simp only [Bool.or_eq_true, not_or, Bool.not_eq_true, Bool.not_eq_false'] at hcond
        have hf := dropped_facts x o (hi.count x hxm) (by simpa using hcond.2)
        exact set_inv s x _ hi hxm rfl hf.1 hf.2
    · exact bad_inv s _ hi
  | makeUnique o m reuse =>
    simp only [step]
    split
    · rename_i x hx
      obtain ⟨hxm, hxid⟩ := get_mem s m x hx
      split
      · exact bad_inv s _ hi
      · split
        · exact hi
        · rename_i hcond _
          simp only [Bool.or_eq_true, not_or, Bool.not_eq_true, Bool.not_eq_false'] at hcond
          have hf := dropped_facts x o (hi.count x hxm) (by simpa using hcond.2)
          split
          · rename_i r hr
            split
            · rename_i hrp
              cases hre : reuse with
              | none => simp [hre] at hr
              | some rid =>
                simp only [hre, Option.bind_some] at hr
                obtain ⟨hrm, _⟩ := get_mem s rid r hr
                have h0 : Inv (set s { r with refcnt := 1, owners := [o], body := x.body, pooled := false }) :=
                  set_inv s r _ hi hrm rfl (by simp) (by simp)
                -- x is still there: it is not the pooled buffer
                have hne : x.id ≠ r.id := by
                  intro e
                  have hxr : x = r := by
                    have hnd := hi.nodup
                    exact eq_of_nodup_map (·.id) s.msgs hnd x r hxm hrm e
                  rw [hxr] at hcond
                  rw [hrp] at hcond
                  exact absurd hcond.1 (by simp)
                have hx0 : x ∈ (set s { r with refcnt := 1, owners := [o], body := x.body, pooled := false }).msgs := by
                  simp only [set, List.mem_map]
                  exact ⟨x, hxm, by simp [hne]⟩
                exact set_inv _ x _ h0 hx0 rfl hf.1 hf.2
            · exact bad_inv s _ hi
          · have h0 := append_inv s { id := s.next, refcnt := 1, owners := [o], body := x.body, pooled := false } hi rfl (by simp) (by simp)
            have hx0 : x ∈ ({ s with msgs := s.msgs ++ [{ id := s.next, refcnt := 1, owners := [o], body := x.body, pooled := false }], next := s.next + 1 } : State).msgs :=
              List.mem_append_left _ hxm
            exact set_inv _ x _ h0 hx0 rfl hf.1 hf.2
    · exact bad_inv s _ hi
  | write o m b =>
    simp only [step]
    split
    · rename_i x hx
      obtain ⟨hxm, _⟩ := get_mem s m x hx
      split
      · exact bad_inv s _ hi
      · split
        · exact bad_inv s _ hi
        · exact set_inv s x _ hi hxm rfl (hi.count x hxm) (hi.pooled x hxm)
    · exact bad_inv s _ hi

theorem init_inv : Inv {} := ⟨by simp, by simp, by simp, by simp⟩

theorem run_inv (s : State) (ops : List Op) (hi : Inv s) : Inv (run s ops) := by
  induction ops generalizing s with
  | nil => exact hi
  | cons op rest ih => exact ih _ (step_inv s op hi)

end Ledger
end Model
