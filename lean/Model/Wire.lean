/-
  Model/Wire.lean — SP stream mapping: handshake header and length-prefixed frames
  (transport/conn.go, transport/connipc_posix.go), WebSocket frame payload (ws.go),
  inproc copy.  Parametrised by facts regenerated from the Go source (`WireParams`).
-/
import Model.Bytes
import Model.GExpr
namespace Model
namespace Wire

/-- facts the extractor reads from transport/conn.go and connipc_posix.go -/
structure WireParams where
  lenWidth   : Nat        -- bytes of the length prefix (make([]byte, 8) / PutUint64)
  bigEndian  : Bool       -- binary.BigEndian
  lenCounts  : List String -- operands summed into the length: ["Header","Body"]
  sendOrder  : List String -- net.Buffers order after the length bytes: ["Header","Body"]
  ipcPrefix  : Nat        -- lbyte[0] = 1
  ipcLenWidth: Nat        -- make([]byte, 9) - 1
  recvGuard  : GExpr      -- reject condition over sz, maxrx in conn.Recv
  ipcRecvGuard : GExpr    -- the same in connipc.Recv
  bodySlice  : GExpr      -- upper bound of msg.Body[0:…] as an expression over sz
deriving Repr

/-- a message as the transport sees it -/
structure Msg where
  hdr  : Bytes
  body : Bytes
deriving Repr, DecidableEq

def Msg.payload (m : Msg) : Bytes := m.hdr ++ m.body

/-- the specification the generated guard must be equivalent to:
    reject iff the announced size is negative, or a limit is set and the size exceeds it -/
def rejectSpec (sz maxrx : Int) : Bool := decide (sz < 0 ∨ (maxrx > 0 ∧ sz > maxrx))

def guardEnv (sz maxrx : Int) : Env := fun n => if n = "sz" then sz else if n = "maxrx" then maxrx else 0

/-- the size guard as read from the source -/
def rejects (g : GExpr) (sz maxrx : Int) : Bool := g.holds (guardEnv sz maxrx)

/-- two's-complement reading of the 8 length bytes as Go's `int64` -/
def asInt64 (u : Nat) : Int := if u < 2 ^ 63 then Int.ofNat u else Int.ofNat u - 2 ^ 64

/-- conn.Send / connipc.Send: the bytes written for one message -/
def encode (ipc : Bool) (m : Msg) : Bytes :=
  (if ipc then [1] else []) ++ beEnc 8 (m.hdr.length + m.body.length) ++ m.hdr ++ m.body

inductive Dec where
  | msg (payload rest : Bytes)
  | tooLong
  | needMore
deriving Repr, DecidableEq

/-- conn.Recv / connipc.Recv on the bytes available so far (`g` = the source's guard) -/
def decode (g : GExpr) (ipc : Bool) (maxrx : Nat) (s : Bytes) : Dec :=
  let s1 := if ipc then s.drop 1 else s
  if (ipc && s.isEmpty) || s1.length < 8 then .needMore else
  let sz := asInt64 (beDec (s1.take 8))
  if rejects g sz maxrx then .tooLong else
  let r := s1.drop 8
  if r.length < sz.toNat then .needMore else .msg (r.take sz.toNat) (r.drop sz.toNat)

/-- decode a whole stream: the delivered payloads, then how the stream ended -/
inductive End where | clean | dropped | partialFrame
deriving Repr, DecidableEq

def decodeAll (g : GExpr) (ipc : Bool) (maxrx : Nat) : Nat → Bytes → List Bytes × End
  | 0, _ => ([], .partialFrame)
  | fuel+1, s =>
    if s.isEmpty then ([], .clean) else
    match decode g ipc maxrx s with
    | .msg p rest =>
      let (ps, e) := decodeAll g ipc maxrx fuel rest
      (p :: ps, e)
    | .tooLong => ([], .dropped)
    | .needMore => ([], .partialFrame)

/-- 8-byte SP handshake header: 00 'S' 'P' 00 proto(be16) 00 00 -/
def header (proto : Nat) : Bytes := [0, 0x53, 0x50, 0] ++ beEnc 2 proto ++ [0, 0]

inductive HsErr where | ok | badHeader | badVersion | badProto | short
deriving Repr, DecidableEq

/-- conn.handshake's validation of the peer's 8 bytes (check order as in the source) -/
def checkHeader (peer : Nat) (h : Bytes) : HsErr :=
  match h with
  | [z, s, p, v, p1, p0, r1, r0] =>
    if z != 0 || s != 0x53 || p != 0x50 || beDec [r1, r0] != 0 then .badHeader
    else if v != 0 then .badVersion
    else if beDec [p1, p0] != peer then .badProto
    else .ok
  | _ => .short

end Wire
end Model

namespace Model
namespace Wire

/-- the handshake fields of a received 8-byte header as an environment for the generated checks -/
def hsEnv (zero s p ver proto res peer : Int) : Env := fun n =>
  if n = "Zero" then zero else if n = "S" then s else if n = "P" then p else if n = "Version" then ver
  else if n = "Proto" then proto else if n = "Reserved" then res else if n = "peer" then peer else 0

/-- evaluate reject conditions in source order; the first that holds names the error -/
def firstFail (cs : List (GExpr × String)) (ρ : Env) : String :=
  match cs with
  | [] => "ok"
  | c :: cs => if c.1.holds ρ then c.2 else firstFail cs ρ

def hsSpec (zero s p ver proto res peer : Int) : String :=
  if zero ≠ 0 ∨ s ≠ 0x53 ∨ p ≠ 0x50 ∨ res ≠ 0 then "ErrBadHeader"
  else if ver ≠ 0 then "ErrBadVersion"
  else if proto ≠ peer then "ErrBadProto" else "ok"

/-- obligation on the regenerated handshake checks -/
def HsChecksOK (cs : List (GExpr × String)) : Prop :=
  ∀ zero s p ver proto res peer : Int, firstFail cs (hsEnv zero s p ver proto res peer) = hsSpec zero s p ver proto res peer

/-- validation of a received header with the generated checks (binary.Read big-endian into connHeader) -/
def checkHeaderGen (cs : List (GExpr × String)) (peer : Nat) (h : Bytes) : String :=
  match h with
  | [z, s, p, v, p1, p0, r1, r0] =>
    firstFail cs (hsEnv z.toNat s.toNat p.toNat v.toNat (beDec [p1, p0]) (beDec [r1, r0]) peer)
  | _ => "short"

end Wire
end Model
