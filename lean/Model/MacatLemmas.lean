import Model.Macat
namespace Model
namespace Macat

theorem hexVal_hexDigit : ∀ n : Fin 16, hexVal8 (hexDigitLower n.val) = some n.val := by decide

theorem unquote_cons_ne (c : UInt8) (rest : Bytes) (h : c ≠ 0x5c) : unquote (c :: rest) = (unquote rest).map (c :: ·) := by
  rw [unquote.eq_def]
  split <;> simp_all

theorem byte_split (b : UInt8) : UInt8.ofNat (b.toNat / 16 * 16 + b.toNat % 16) = b := by
  have : b.toNat / 16 * 16 + b.toNat % 16 = b.toNat := by omega
  rw [this]; simp

theorem unquote_hex (b : UInt8) (rest : Bytes) :
    unquote (0x5c :: 0x78 :: hexDigitLower (b.toNat / 16) :: hexDigitLower (b.toNat % 16) :: rest) = (unquote rest).map (b :: ·) := by
  have hb := UInt8.toNat_lt b
  have h1 := hexVal_hexDigit ⟨b.toNat / 16, by omega⟩
  have h2 := hexVal_hexDigit ⟨b.toNat % 16, by omega⟩
  simp only at h1 h2
  rw [unquote.eq_def]
  simp only [h1, h2, byte_split]

/-- decoding the escapes of one byte, followed by anything, gives back the byte -/
theorem unquote_quoteByte (b : UInt8) (rest : Bytes) :
    unquote (quoteByte refParams b ++ rest) = (unquote rest).map (b :: ·) := by
  by_cases h1 : b = 0x0a
  · subst h1; rw [show quoteByte refParams 0x0a = [0x5c, 0x6e] by decide]; simp [unquote]
  by_cases h2 : b = 0x0d
  · subst h2; rw [show quoteByte refParams 0x0d = [0x5c, 0x72] by decide]; simp [unquote]
  by_cases h3 : b = 0x5c
  · subst h3; rw [show quoteByte refParams 0x5c = [0x5c, 0x5c] by decide]; simp [unquote]
  by_cases h4 : b = 0x22
  · subst h4; rw [show quoteByte refParams 0x22 = [0x5c, 0x22] by decide]; simp [unquote]
  have hn : refParams.escapes.find? (fun e => e.1 == b.toNat) = none := by
    have e1 : b.toNat ≠ 0x0a := fun e => h1 (UInt8.toNat_inj.mp (by simpa using e))
    have e2 : b.toNat ≠ 0x0d := fun e => h2 (UInt8.toNat_inj.mp (by simpa using e))
    have e3 : b.toNat ≠ 0x5c := fun e => h3 (UInt8.toNat_inj.mp (by simpa using e))
    have e4 : b.toNat ≠ 0x22 := fun e => h4 (UInt8.toNat_inj.mp (by simpa using e))
    have f1 : ((10:Nat) == b.toNat) = false := by simpa using Ne.symm e1
    have f2 : ((13:Nat) == b.toNat) = false := by simpa using Ne.symm e2
    have f3 : ((92:Nat) == b.toNat) = false := by simpa using Ne.symm e3
    have f4 : ((34:Nat) == b.toNat) = false := by simpa using Ne.symm e4
    simp [refParams, List.find?, f1, f2, f3, f4]
  by_cases hp : isPrint b = true
  · simp only [quoteByte, hn, hp, if_true, List.cons_append, List.nil_append]
    exact unquote_cons_ne b rest h3
  · simp only [quoteByte, hn, hp]
    simp only [refParams, List.map_cons, List.map_nil, List.cons_append, List.nil_append, Bool.false_eq_true, if_false]
    exact unquote_hex b rest

end Macat
end Model
