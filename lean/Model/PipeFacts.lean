/-
  Model/PipeFacts.lean — what a pipe's read-only facts must say about the connection it is (cmd/corr/c13pipe.go,
  `po.check <transport> <variant> <fact>` lines; C13, last clause).
  A connection has two socket addresses; the listener-side pipe and the dialer-side pipe are two views of it.
-/
namespace Model
namespace PipeFacts

structure Conn where
  accAddr : String      -- the address of the accepted end (listener side)
  dialAddr : String     -- the address of the connecting end (dialer side)
deriving Repr, DecidableEq

inductive Side where | listener | dialer
deriving Repr, DecidableEq

/-- (LOCAL-ADDR, REMOTE-ADDR) as each end must report them -/
def view (c : Conn) : Side → String × String
  | .listener => (c.accAddr, c.dialAddr)
  | .dialer => (c.dialAddr, c.accAddr)

def tlsTransport (t : String) : Bool := t == "tls+tcp" || t == "wss"
def credTransport (t : String) : Bool := t == "ipc"

/-- admissible observation of one fact -/
def allowed (transport fact : String) : List String :=
  match fact with
  | "connect" => ["ok"]
  | "creator-l" | "creator-d" | "address-l" | "address-d" => ["true"]
  | "mirror-listener-local" | "mirror-dialer-local" => ["true"]
  | "wildcard-reported" => ["false"]
  | "tls-l" | "tls-d" => if tlsTransport transport then ["complete"] else ["absent"]
  | "cred-l" | "cred-d" => if credTransport transport then ["self"] else ["absent"]
  | _ => []

/-- the two ends are mirror images: what one calls local the other calls remote -/
theorem views_mirror (c : Conn) :
    (view c .listener).1 = (view c .dialer).2 ∧ (view c .listener).2 = (view c .dialer).1 := ⟨rfl, rfl⟩

/-- no fact may be reported differently on the two ends of a transport: the table is side-symmetric -/
theorem sides_agree (t : String) :
    allowed t "tls-l" = allowed t "tls-d" ∧ allowed t "cred-l" = allowed t "cred-d" ∧
    allowed t "creator-l" = allowed t "creator-d" ∧ allowed t "address-l" = allowed t "address-d" := ⟨rfl, rfl, rfl, rfl⟩

/-- a completed TLS state is demanded exactly on the TLS transports, and an incomplete one is never admitted -/
theorem tls_state_exact (t : String) : ("complete" ∈ allowed t "tls-l" ↔ tlsTransport t = true) ∧
    ("absent" ∈ allowed t "tls-l" ↔ tlsTransport t = false) := by
  unfold allowed
  cases h : tlsTransport t <;> simp

/-- every fact has exactly one admissible observation (nothing is left open), for every transport -/
theorem deterministic (t f : String) : (allowed t f).length ≤ 1 := by
  unfold allowed
  split <;> (try split) <;> simp

end PipeFacts
end Model
