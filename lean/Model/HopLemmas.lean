import Model.Hop
namespace Model
namespace Hop

theorem parseBT_words (P : HopSite) (hwf : WellFormed P) (ttl : Nat) (ws : List Word) (idw : Word) (payload : Bytes)
    (hws : ∀ w ∈ ws, w.top = false) (hid : idw.top = true) :
    ∀ (i : Nat) (hdr : Bytes),
    parseBT P ttl (P.init + i) hdr (flat ws ++ idw.bytes ++ payload) =
      if i + ws.length + 1 ≤ ttl then some (hdr ++ flat ws ++ idw.bytes, payload) else none := by
  induction ws with
  | nil =>
    intro i hdr
    unfold parseBT
    rw [hwf i ttl]
    simp only [flat, List.flatMap_nil, List.nil_append, Word.bytes, List.cons_append, List.length_nil,
      Nat.add_zero, List.append_nil]
    have : (idw.a &&& 0x80 != 0) = true := hid
    by_cases h : i + 1 > ttl
    · have h2 : ¬ (i + 1 ≤ ttl) := by omega
      simp [h, h2]
    · have h2 : i + 1 ≤ ttl := by omega
      simp [h, h2, this]
  | cons w ws ih =>
    intro i hdr
    have hw : (w.a &&& 0x80 != 0) = false := hws w (by simp)
    have ih' := ih (fun x hx => hws x (by simp [hx])) (i + 1) (hdr ++ [w.a, w.b, w.c, w.d])
    unfold parseBT
    rw [hwf i ttl]
    simp only [flat, List.flatMap_cons, Word.bytes, List.cons_append, List.nil_append, List.append_assoc,
      List.length_cons] at ih' ⊢
    by_cases h : i + 1 > ttl
    · have h2 : ¬ (i + (ws.length + 1) + 1 ≤ ttl) := by omega
      simp [h, h2]
    · simp only [h, decide_false, hw, Bool.false_eq_true, if_false]
      rw [← Nat.add_assoc] at ih'
      rw [ih']
      have : (i + 1 + ws.length + 1 ≤ ttl) = (i + (ws.length + 1) + 1 ≤ ttl) := by
        apply propext; constructor <;> intro h <;> omega
      simp [this]

/-- C09 core: a request that crossed k = |ws| + 1 connections is delivered iff k ≤ ttl,
    with exactly the k words moved to the header and the payload untouched -/
theorem recv_words (P : HopSite) (hwf : WellFormed P) (ttl : Nat) (hdr0 : Bytes) (ws : List Word) (idw : Word)
    (payload : Bytes) (hws : ∀ w ∈ ws, w.top = false) (hid : idw.top = true) :
    recv P ttl hdr0 (flat ws ++ idw.bytes ++ payload) =
      if ws.length + 1 ≤ ttl then some (hdr0 ++ flat ws ++ idw.bytes, payload) else none := by
  unfold recv
  have := parseBT_words P hwf ttl ws idw payload hws hid 0 hdr0
  simpa using this

/-- whatever the body, a delivered message's header ++ body is hdr0 ++ the received body: nothing invented -/
theorem parseBT_conserves (P : HopSite) (ttl : Nat) :
    ∀ (body : Bytes) (hops : Nat) (hdr h b : Bytes), parseBT P ttl hops hdr body = some (h, b) → h ++ b = hdr ++ body := by
  intro body
  induction body using List.rec with
  | nil => intro hops hdr h b hp; unfold parseBT at hp; split at hp <;> simp at hp
  | cons x xs ih =>
    -- strong induction on length is simpler
    intro hops hdr h b hp
    exact (aux P ttl (x :: xs).length (x :: xs) (Nat.le_refl _) hops hdr h b hp)
where
  aux (P : HopSite) (ttl : Nat) : ∀ (n : Nat) (body : Bytes), body.length ≤ n → ∀ (hops : Nat) (hdr h b : Bytes),
      parseBT P ttl hops hdr body = some (h, b) → h ++ b = hdr ++ body := by
    intro n
    induction n with
    | zero =>
      intro body hl hops hdr h b hp
      have : body = [] := List.eq_nil_of_length_eq_zero (by omega)
      subst this
      unfold parseBT at hp; split at hp <;> simp at hp
    | succ n ih =>
      intro body hl hops hdr h b hp
      unfold parseBT at hp
      split at hp
      · simp at hp
      · split at hp
        · rename_i a b' c d rest
          split at hp
          · simp only [Option.some.injEq, Prod.mk.injEq] at hp
            obtain ⟨rfl, rfl⟩ := hp
            simp
          · have := ih rest (by simp at hl; omega) _ _ _ _ hp
            rw [this]; simp
        · simp at hp

end Hop
end Model
