import Model.Wire
namespace Model
namespace Wire

/-- the obligation on the regenerated size guard -/
def GuardOK (g : GExpr) : Prop := ∀ sz maxrx : Int, rejects g sz maxrx = rejectSpec sz maxrx

theorem asInt64_of_lt {n : Nat} (h : n < 2 ^ 63) : asInt64 n = (n : Int) := by
  unfold asInt64; simp [h]

theorem asInt64_neg_of_ge {n : Nat} (h : 2 ^ 63 ≤ n) (h2 : n < 2 ^ 64) : asInt64 n < 0 := by
  unfold asInt64
  have : ¬ n < 2 ^ 63 := by omega
  simp only [this, if_false]
  have : (Int.ofNat n) < (2:Int) ^ 64 := by
    have := Int.ofNat_lt.mpr h2
    simpa using this
  simp at this ⊢
  omega

theorem rejectSpec_false_of_fits {n maxrx : Nat} (h : maxrx = 0 ∨ n ≤ maxrx) :
    rejectSpec (n : Int) (maxrx : Int) = false := by
  unfold rejectSpec
  simp only [decide_eq_false_iff_not]
  omega

theorem rejectSpec_true_of_exceeds {n maxrx : Nat} (h0 : 0 < maxrx) (h : maxrx < n) :
    rejectSpec (n : Int) (maxrx : Int) = true := by
  unfold rejectSpec
  simp only [decide_eq_true_eq]
  omega

/-- the core of every framing theorem: decoding what `encode` wrote, followed by anything -/
theorem decode_encode_aux (g : GExpr) (hg : GuardOK g) (ipc : Bool) (maxrx : Nat) (p rest : Bytes)
    (hlen : p.length < 2 ^ 63) (hfit : maxrx = 0 ∨ p.length ≤ maxrx) :
    decode g ipc maxrx ((if ipc then [1] else []) ++ beEnc 8 p.length ++ p ++ rest) = .msg p rest := by
  have h64 : p.length < 256 ^ 8 := by
    have : (2:Nat) ^ 63 < 256 ^ 8 := by decide
    omega
  have hdec : beDec (beEnc 8 p.length) = p.length := beDec_beEnc_of_lt 8 _ h64
  have hrej : rejects g (p.length : Int) (maxrx : Int) = false := by
    rw [hg]; exact rejectSpec_false_of_fits hfit
  unfold decode
  cases ipc
  · simp only [Bool.false_eq_true, if_false, List.nil_append, Bool.false_and, Bool.false_or]
    have hl : ¬ (beEnc 8 p.length ++ p ++ rest).length < 8 := by simp
    have ht : (beEnc 8 p.length ++ p ++ rest).take 8 = beEnc 8 p.length := by
      rw [List.append_assoc, List.take_left' (by simp)]
    have hd : (beEnc 8 p.length ++ p ++ rest).drop 8 = p ++ rest := by
      rw [List.append_assoc, List.drop_left' (by simp)]
    simp only [hl, decide_false, ht, hdec, asInt64_of_lt hlen, hd]
    simp [hrej, List.take_left', List.drop_left']
  · simp only [if_true, List.cons_append, List.nil_append, List.drop_succ_cons, List.drop_zero,
      List.isEmpty_cons, Bool.and_false, Bool.false_or]
    have hl : ¬ (beEnc 8 p.length ++ (p ++ rest)).length < 8 := by simp
    have ht : (beEnc 8 p.length ++ (p ++ rest)).take 8 = beEnc 8 p.length := by
      rw [List.take_left' (by simp)]
    have hd : (beEnc 8 p.length ++ (p ++ rest)).drop 8 = p ++ rest := by
      rw [List.drop_left' (by simp)]
    simp only [List.append_assoc, hl, decide_false, ht, hdec, asInt64_of_lt hlen, hd]
    simp [hrej, List.take_left', List.drop_left']

theorem encode_eq (ipc : Bool) (m : Msg) (rest : Bytes) :
    encode ipc m ++ rest = (if ipc then [1] else []) ++ beEnc 8 m.payload.length ++ m.payload ++ rest := by
  unfold encode Msg.payload
  simp [List.append_assoc]

theorem encode_length (ipc : Bool) (m : Msg) :
    (encode ipc m).length = (if ipc then 1 else 0) + 8 + m.payload.length := by
  unfold encode Msg.payload; cases ipc <;> simp <;> omega

theorem encode_ne_nil (ipc : Bool) (m : Msg) : encode ipc m ≠ [] := by
  intro h
  have := congrArg List.length h
  rw [encode_length] at this
  simp at this

end Wire
end Model
