/-
  Model/Own.lean — ownership IR of a Go function body and the verified reference-balance checker.

  cmd/owngen translates every function of the library that handles a `*Message` through a local variable or a
  parameter into a `Stmt`.  The state is, per message variable, the number of references to a message the goroutine
  holds *through that variable* and whether the variable is nil; per local `error` variable, whether it is nil.

    gain v    v is non-nil and stands for one more reference (result of NewMessage / Dup / a channel receive, the
              non-nil result of RecvMsg / Recv, `v.Clone()`)
    drop v    one reference held through v is given up (`v.Free()`, `ch <- v`, a consuming call such as a successful
              `SendMsg(v)` or `go f(v)`, a store into a struct field or composite literal, `return v`); nothing
              happens when v is nil (as in `Message.Free`)
    use v     the message is read or written through v: v must be non-nil and stand for a reference (a use after
              the last drop is a use-after-release)
    fresh v   v becomes nil / stands for nothing (declaration, `v = nil`, the start of an assignment); what it stood
              for is left to the garbage collector — a leak, which is not what this checker is about
    setf f b  flag f (true = the variable is nil) is set: `err = nil`, `err = ErrClosed`
    test f b  the branch is taken only when flag f is b (`if m == nil`, `if err != nil`): no execution continues
              otherwise
    scope vs s   the variables vs are declared inside s (a loop body): leaving s resets them

  A call that may fail is a choice: `err := p.SendMsg(m)` is `ite (seq (drop m) (setf err true)) (setf err false)`,
  `m, err := r.RecvMsg()` is `seq (fresh m) (ite (seq (gain m) (setf err true)) (setf err false))`.

  `Exec` is the big-step semantics (any branch may be taken, a loop runs any number of times).  The outcome `bad` is
  a release of a reference not held (double free) or a use of a message through a variable that is nil or whose last
  reference was given up.  A function's contract says what each variable stands for on entry and, per kind of
  return (0: fall-through / plain return / `return nil`; 1: `return err`), how many references a parameter must
  still stand for on exit ("on failure the message stays with the caller").  `meets` accepts a body only if no
  execution goes bad and every execution leaves the function, by a return of a kind the contract names or by falling
  off the end, still holding what the contract requires for that kind.  `meets_sound` is the theorem that this is
  what the checker establishes.
-/
namespace Model
namespace Own

abbrev Var := Nat

/-- per variable: references held through it (message variables), and whether it is nil (message and error variables) -/
structure St where
  cnt : List Nat
  nl : List Bool
deriving DecidableEq, Repr

def St.count (σ : St) (v : Var) : Nat := σ.cnt.getD v 0
def St.isNil (σ : St) (v : Var) : Bool := σ.nl.getD v true
def St.gain (σ : St) (v : Var) : St := { cnt := σ.cnt.set v (σ.count v + 1), nl := σ.nl.set v false }
def St.dec (σ : St) (v : Var) : St := { σ with cnt := σ.cnt.set v (σ.count v - 1) }
def St.fresh (σ : St) (v : Var) : St := { cnt := σ.cnt.set v 0, nl := σ.nl.set v true }
def St.setf (σ : St) (f : Var) (b : Bool) : St := { σ with nl := σ.nl.set f b }
def St.reset (σ : St) : List Var → St
 | [] => σ
 | v :: vs => (σ.fresh v).reset vs

inductive Exit | normal | brk (l : Nat) | cont (l : Nat) | ret (k : Nat)
deriving DecidableEq, Repr

inductive Stmt
 | skip
 | gain (v : Var) | drop (v : Var) | use (v : Var) | fresh (v : Var)
 | setf (f : Var) (b : Bool) | test (f : Var) (b : Bool)
 | seq (a b : Stmt) | ite (a b : Stmt)
 | loop (l : Nat) (body : Stmt)
 | block (l : Nat) (body : Stmt)
 | scope (vs : List Var) (body : Stmt)
 | brk (l : Nat) | cont (l : Nat) | ret (k : Nat)
 | abort                 -- panic: the process terminates here (no execution continues)
deriving Repr, DecidableEq

inductive Out | ok (σ : St) (e : Exit) | bad
deriving DecidableEq, Repr

/-- `none`: iterate again; `some e`: the loop ends with exit `e` -/
def loopExit (l : Nat) : Exit → Option Exit
 | .normal => none
 | .cont l' => if l' = l then none else some (.cont l')
 | .brk l' => if l' = l then some .normal else some (.brk l')
 | .ret k => some (.ret k)

def blockExit (l : Nat) : Exit → Exit
 | .brk l' => if l' = l then .normal else .brk l'
 | e => e

inductive Exec : Stmt → St → Out → Prop
 | skip σ : Exec .skip σ (.ok σ .normal)
 | gainOk v σ : v < σ.cnt.length → v < σ.nl.length → Exec (.gain v) σ (.ok (σ.gain v) .normal)
 | gainBad v σ : ¬ (v < σ.cnt.length ∧ v < σ.nl.length) → Exec (.gain v) σ .bad
 | dropNil v σ : σ.isNil v = true → Exec (.drop v) σ (.ok σ .normal)
 | dropOk v σ : σ.isNil v = false → 1 ≤ σ.count v → Exec (.drop v) σ (.ok (σ.dec v) .normal)
 | dropBad v σ : σ.isNil v = false → σ.count v = 0 → Exec (.drop v) σ .bad     -- released what is not held
 | useOk v σ : σ.isNil v = false → 1 ≤ σ.count v → Exec (.use v) σ (.ok σ .normal)
 | useBad v σ : σ.isNil v = true ∨ σ.count v = 0 → Exec (.use v) σ .bad          -- nil, or used after the last release
 | fresh v σ : Exec (.fresh v) σ (.ok (σ.fresh v) .normal)
 | setf f b σ : Exec (.setf f b) σ (.ok (σ.setf f b) .normal)
 | test f b σ : σ.isNil f = b → Exec (.test f b) σ (.ok σ .normal)
 | seqN a b σ σ' o : Exec a σ (.ok σ' .normal) → Exec b σ' o → Exec (.seq a b) σ o
 | seqE a b σ σ' e : e ≠ .normal → Exec a σ (.ok σ' e) → Exec (.seq a b) σ (.ok σ' e)
 | seqBad a b σ : Exec a σ .bad → Exec (.seq a b) σ .bad
 | iteL a b σ o : Exec a σ o → Exec (.ite a b) σ o
 | iteR a b σ o : Exec b σ o → Exec (.ite a b) σ o
 | brk l σ : Exec (.brk l) σ (.ok σ (.brk l))
 | cont l σ : Exec (.cont l) σ (.ok σ (.cont l))
 | ret k σ : Exec (.ret k) σ (.ok σ (.ret k))
 | loopZero l body σ : Exec (.loop l body) σ (.ok σ .normal)
 | loopIter l body σ σ' e o : Exec body σ (.ok σ' e) → loopExit l e = none →
      Exec (.loop l body) σ' o → Exec (.loop l body) σ o
 | loopOut l body σ σ' e e' : Exec body σ (.ok σ' e) → loopExit l e = some e' →
      Exec (.loop l body) σ (.ok σ' e')
 | loopBad l body σ : Exec body σ .bad → Exec (.loop l body) σ .bad
 | blockOk l body σ σ' e : Exec body σ (.ok σ' e) → Exec (.block l body) σ (.ok σ' (blockExit l e))
 | blockBad l body σ : Exec body σ .bad → Exec (.block l body) σ .bad
 | scopeOk vs body σ σ' e : Exec body σ (.ok σ' e) → Exec (.scope vs body) σ (.ok (σ'.reset vs) e)
 | scopeBad vs body σ : Exec body σ .bad → Exec (.scope vs body) σ .bad

/-- abstract result: the possible (state, exit) pairs; `none` = some execution may go bad -/
def bindN : List (St × Exit) → (St → Option (List (St × Exit))) → Option (List (St × Exit))
 | [], _ => some []
 | r :: rs, k =>
    match bindN rs k with
    | none => none
    | some accl =>
      if r.2 = .normal then
        match k r.1 with
        | none => none
        | some l => some (l ++ accl)
      else some (r :: accl)

def check : Stmt → St → Option (List (St × Exit))
 | .skip, σ => some [(σ, .normal)]
 | .gain v, σ => if v < σ.cnt.length ∧ v < σ.nl.length then some [(σ.gain v, .normal)] else none
 | .drop v, σ => if σ.isNil v then some [(σ, .normal)] else if 1 ≤ σ.count v then some [(σ.dec v, .normal)] else none
 | .use v, σ => if σ.isNil v = false ∧ 1 ≤ σ.count v then some [(σ, .normal)] else none
 | .fresh v, σ => some [(σ.fresh v, .normal)]
 | .setf f b, σ => some [(σ.setf f b, .normal)]
 | .test f b, σ => if σ.isNil f = b then some [(σ, .normal)] else some []
 | .seq a b, σ => match check a σ with
     | none => none
     | some rs => bindN rs (check b)
 | .ite a b, σ => match check a σ, check b σ with
     | some x, some y => some (x ++ y)
     | _, _ => none
 | .brk l, σ => some [(σ, .brk l)]
 | .cont l, σ => some [(σ, .cont l)]
 | .ret k, σ => some [(σ, .ret k)]
 | .abort, _ => some []
 | .loop l body, σ => match check body σ with
     | none => none
     | some rs =>
        -- an exit that iterates again must be in exactly the state the loop was entered in
        if rs.all (fun r => match loopExit l r.2 with | none => decide (r.1 = σ) | some _ => true) then
          some ((σ, .normal) :: rs.filterMap (fun r => (loopExit l r.2).map (fun e => (r.1, e))))
        else none
 | .block l body, σ => match check body σ with
     | none => none
     | some rs => some (rs.map (fun r => (r.1, blockExit l r.2)))
 | .scope vs body, σ => match check body σ with
     | none => none
     | some rs => some (rs.map (fun r => (r.1.reset vs, r.2)))

theorem bindN_sound (rs : List (St × Exit)) (k : St → Option (List (St × Exit)))
    (out : List (St × Exit)) (hb : bindN rs k = some out) :
    (∀ r ∈ rs, r.2 ≠ .normal → r ∈ out) ∧
    (∀ r ∈ rs, r.2 = .normal → ∃ l, k r.1 = some l ∧ ∀ x ∈ l, x ∈ out) := by
  induction rs generalizing out with
  | nil => simp
  | cons r rs ih =>
    simp only [bindN] at hb
    cases hacc : bindN rs k with
    | none => simp [hacc] at hb
    | some accl =>
      have ih' := ih accl hacc
      simp only [hacc] at hb
      by_cases hn : r.2 = .normal
      · simp only [hn, if_true] at hb
        cases hk : k r.1 with
        | none => simp [hk] at hb
        | some l =>
          simp only [hk, Option.some.injEq] at hb
          subst hb
          constructor
          · intro x hx hne
            rcases List.mem_cons.mp hx with rfl | hx
            · exact absurd hn hne
            · exact List.mem_append_right _ (ih'.1 x hx hne)
          · intro x hx hxn
            rcases List.mem_cons.mp hx with rfl | hx
            · exact ⟨l, hk, fun y hy => List.mem_append_left _ hy⟩
            · obtain ⟨l', hl', hsub⟩ := ih'.2 x hx hxn
              exact ⟨l', hl', fun y hy => List.mem_append_right _ (hsub y hy)⟩
      · simp only [hn, if_false, Option.some.injEq] at hb
        subst hb
        constructor
        · intro x hx hne
          rcases List.mem_cons.mp hx with rfl | hx
          · exact List.mem_cons_self
          · exact List.mem_cons_of_mem _ (ih'.1 x hx hne)
        · intro x hx hxn
          rcases List.mem_cons.mp hx with rfl | hx
          · exact absurd hxn hn
          · obtain ⟨l', hl', hsub⟩ := ih'.2 x hx hxn
            exact ⟨l', hl', fun y hy => List.mem_cons_of_mem _ (hsub y hy)⟩

/-- every execution of `s` from `σ` is one of the outcomes the checker lists (and none goes bad) -/
theorem check_sound : ∀ (s : Stmt) (σ : St) (o : Out), Exec s σ o →
    ∀ outs, check s σ = some outs → ∃ σ' e, o = .ok σ' e ∧ (σ', e) ∈ outs := by
  intro s σ o hex
  induction hex with
  | skip σ => intro outs hc; simp [check] at hc; subst hc; exact ⟨σ, .normal, rfl, by simp⟩
  | gainOk v σ h1 h2 => intro outs hc; simp [check, h1, h2] at hc; subst hc; exact ⟨_, _, rfl, by simp⟩
  | gainBad v σ hv => intro outs hc; simp only [check, hv, if_false] at hc; cases hc
  | dropNil v σ hv => intro outs hc; simp [check, hv] at hc; subst hc; exact ⟨_, _, rfl, by simp⟩
  | dropOk v σ hn hv => intro outs hc; simp [check, hn, hv] at hc; subst hc; exact ⟨_, _, rfl, by simp⟩
  | dropBad v σ hn hv => intro outs hc; simp [check, hn, hv] at hc
  | useOk v σ hn hv => intro outs hc; simp [check, hn, hv] at hc; subst hc; exact ⟨_, _, rfl, by simp⟩
  | useBad v σ hv =>
    intro outs hc
    have : ¬ (σ.isNil v = false ∧ 1 ≤ σ.count v) := by
      rcases hv with h | h
      · simp [h]
      · omega
    simp only [check, this, if_false] at hc; cases hc
  | fresh v σ => intro outs hc; simp [check] at hc; subst hc; exact ⟨_, _, rfl, by simp⟩
  | setf f b σ => intro outs hc; simp [check] at hc; subst hc; exact ⟨_, _, rfl, by simp⟩
  | test f b σ hf => intro outs hc; simp [check, hf] at hc; subst hc; exact ⟨_, _, rfl, by simp⟩
  | seqN a b σ σ' o _ _ iha ihb =>
    intro outs hc
    simp only [check] at hc
    cases hca : check a σ with
    | none => simp [hca] at hc
    | some rs =>
      simp only [hca] at hc
      obtain ⟨h1, e1, heq, hmem⟩ := iha rs hca
      cases heq
      obtain ⟨l, hl, hsub⟩ := (bindN_sound rs (check b) outs hc).2 _ hmem rfl
      obtain ⟨h2, e2, heq2, hmem2⟩ := ihb l hl
      exact ⟨h2, e2, heq2, hsub _ hmem2⟩
  | seqE a b σ σ' e hne _ iha =>
    intro outs hc
    simp only [check] at hc
    cases hca : check a σ with
    | none => simp [hca] at hc
    | some rs =>
      simp only [hca] at hc
      obtain ⟨h1, e1, heq, hmem⟩ := iha rs hca
      cases heq
      exact ⟨_, _, rfl, (bindN_sound rs (check b) outs hc).1 _ hmem hne⟩
  | seqBad a b σ _ iha =>
    intro outs hc
    simp only [check] at hc
    cases hca : check a σ with
    | none => simp [hca] at hc
    | some rs =>
      obtain ⟨h1, e1, heq, _⟩ := iha rs hca
      cases heq
  | iteL a b σ o _ ih =>
    intro outs hc
    simp only [check] at hc
    cases hca : check a σ with
    | none => simp [hca] at hc
    | some x =>
      cases hcb : check b σ with
      | none => simp [hca, hcb] at hc
      | some y =>
        simp [hca, hcb] at hc; subst hc
        obtain ⟨h', e, heq, hm⟩ := ih x hca
        exact ⟨h', e, heq, List.mem_append_left _ hm⟩
  | iteR a b σ o _ ih =>
    intro outs hc
    simp only [check] at hc
    cases hca : check a σ with
    | none => simp [hca] at hc
    | some x =>
      cases hcb : check b σ with
      | none => simp [hca, hcb] at hc
      | some y =>
        simp [hca, hcb] at hc; subst hc
        obtain ⟨h', e, heq, hm⟩ := ih y hcb
        exact ⟨h', e, heq, List.mem_append_right _ hm⟩
  | brk l σ => intro outs hc; simp [check] at hc; subst hc; exact ⟨_, _, rfl, by simp⟩
  | cont l σ => intro outs hc; simp [check] at hc; subst hc; exact ⟨_, _, rfl, by simp⟩
  | ret k σ => intro outs hc; simp [check] at hc; subst hc; exact ⟨_, _, rfl, by simp⟩
  | loopZero l body σ =>
    intro outs hc
    simp only [check] at hc
    cases hcb : check body σ with
    | none => simp [hcb] at hc
    | some rs =>
      simp only [hcb] at hc
      split at hc
      · simp at hc; subst hc; exact ⟨σ, .normal, rfl, by simp⟩
      · simp at hc
  | loopIter l body σ σ' e o _ hle _ ihb ihl =>
    intro outs hc
    have hc0 := hc
    simp only [check] at hc
    cases hcb : check body σ with
    | none => simp [hcb] at hc
    | some rs =>
      simp only [hcb] at hc
      split at hc
      · rename_i hall
        obtain ⟨h1, e1, heq, hmem⟩ := ihb rs hcb
        cases heq
        have := List.all_eq_true.mp hall _ hmem
        simp [hle] at this
        subst this
        exact ihl outs hc0
      · simp at hc
  | loopOut l body σ σ' e e' _ hle ihb =>
    intro outs hc
    simp only [check] at hc
    cases hcb : check body σ with
    | none => simp [hcb] at hc
    | some rs =>
      simp only [hcb] at hc
      split at hc
      · simp at hc; subst hc
        obtain ⟨h1, e1, heq, hmem⟩ := ihb rs hcb
        cases heq
        refine ⟨σ', e', rfl, List.mem_cons_of_mem _ ?_⟩
        simp only [List.mem_filterMap]
        exact ⟨(σ', e), hmem, by simp [hle]⟩
      · simp at hc
  | loopBad l body σ _ ihb =>
    intro outs hc
    simp only [check] at hc
    cases hcb : check body σ with
    | none => simp [hcb] at hc
    | some rs =>
      obtain ⟨h1, e1, heq, _⟩ := ihb rs hcb
      cases heq
  | blockOk l body σ σ' e _ ihb =>
    intro outs hc
    simp only [check] at hc
    cases hcb : check body σ with
    | none => simp [hcb] at hc
    | some rs =>
      simp only [hcb, Option.some.injEq] at hc
      subst hc
      obtain ⟨h1, e1, heq, hmem⟩ := ihb rs hcb
      cases heq
      exact ⟨σ', blockExit l e, rfl, List.mem_map.mpr ⟨(σ', e), hmem, rfl⟩⟩
  | blockBad l body σ _ ihb =>
    intro outs hc
    simp only [check] at hc
    cases hcb : check body σ with
    | none => simp [hcb] at hc
    | some rs =>
      obtain ⟨h1, e1, heq, _⟩ := ihb rs hcb
      cases heq
  | scopeOk vs body σ σ' e _ ihb =>
    intro outs hc
    simp only [check] at hc
    cases hcb : check body σ with
    | none => simp [hcb] at hc
    | some rs =>
      simp only [hcb, Option.some.injEq] at hc
      subst hc
      obtain ⟨h1, e1, heq, hmem⟩ := ihb rs hcb
      cases heq
      exact ⟨σ'.reset vs, e, rfl, List.mem_map.mpr ⟨(σ', e), hmem, rfl⟩⟩
  | scopeBad vs body σ _ ihb =>
    intro outs hc
    simp only [check] at hc
    cases hcb : check body σ with
    | none => simp [hcb] at hc
    | some rs =>
      obtain ⟨h1, e1, heq, _⟩ := ihb rs hcb
      cases heq

/-- a function as the generator emits it, with its contract -/
structure Fn where
  name : String                    -- package-qualified name
  vars : List String               -- the variables, by number (message variables and error variables)
  entry : St                       -- on entry: an owned parameter stands for one reference and is not nil
  exits : List (List (Var × Nat))  -- exits[k]: references the variables must still stand for when the function
                                   -- leaves by a return of kind k (a Send that fails leaves the message with its caller)
  body : Stmt
deriving Repr

def holds (σ : St) (req : List (Var × Nat)) : Bool := req.all (fun r => σ.isNil r.1 = false && decide (r.2 ≤ σ.count r.1))

/-- a function leaves properly if its body ends by a return of a kind the contract names or by falling off the end
    (kind 0) — never by a stray break / continue — still holding what the contract requires for that kind -/
def exitOK (exits : List (List (Var × Nat))) (r : St × Exit) : Bool :=
  match r.2 with
  | .normal => match exits[0]? with | some req => holds r.1 req | none => false
  | .ret k => match exits[k]? with | some req => holds r.1 req | none => false
  | _ => false

def Fn.meets (f : Fn) : Bool :=
  match check f.body f.entry with
  | none => false
  | some outs => outs.all (exitOK f.exits)

/-- what an exit is allowed to be, as a proposition -/
def Leaves (exits : List (List (Var × Nat))) (σ : St) (e : Exit) : Prop :=
  ∃ k req, (e = .normal ∧ k = 0 ∨ e = .ret k) ∧ exits[k]? = some req ∧
    ∀ r ∈ req, σ.isNil r.1 = false ∧ r.2 ≤ σ.count r.1

/-- soundness: if the checker accepts, no execution of the body — any branch, any number of loop iterations — releases
    a reference it does not hold or touches a message through a nil variable or after giving up the last reference
    it held through that variable; every execution ends by return or fall-through, and the variables the contract
    names for that kind of return (the caller's message, when a Send fails) still stand for their references -/
theorem meets_sound (f : Fn) (hb : f.meets = true) (o : Out) (hex : Exec f.body f.entry o) :
    ∃ σ e, o = .ok σ e ∧ Leaves f.exits σ e := by
  unfold Fn.meets at hb
  cases hc : check f.body f.entry with
  | none => simp [hc] at hb
  | some outs =>
    simp only [hc] at hb
    obtain ⟨σ', e, heq, hm⟩ := check_sound f.body _ o hex outs hc
    have h := List.all_eq_true.mp hb _ hm
    refine ⟨σ', e, heq, ?_⟩
    unfold exitOK at h
    have hh : ∀ req, holds σ' req = true → ∀ r ∈ req, σ'.isNil r.1 = false ∧ r.2 ≤ σ'.count r.1 := by
      intro req hq r hr
      have := List.all_eq_true.mp hq r hr
      simpa using this
    cases e with
    | normal =>
      simp only at h
      cases hx : f.exits[0]? with
      | none => simp [hx] at h
      | some req => simp only [hx] at h; exact ⟨0, req, Or.inl ⟨rfl, rfl⟩, hx, hh req h⟩
    | ret k =>
      simp only at h
      cases hx : f.exits[k]? with
      | none => simp [hx] at h
      | some req => simp only [hx] at h; exact ⟨k, req, Or.inr rfl, hx, hh req h⟩
    | brk l => simp at h
    | cont l => simp at h

/-- in particular no execution goes bad -/
theorem meets_never_bad (f : Fn) (hb : f.meets = true) : ¬ Exec f.body f.entry .bad := by
  intro hex
  obtain ⟨_, _, h, _⟩ := meets_sound f hb _ hex
  cases h

-- the shapes this checker was designed around (variable 0: the message m; variable 1: err)
def st1 (c : Nat) (n : Bool) : St := { cnt := [c, 0], nl := [n, true] }
/-- a receiver loop: `for { m := recv(); if m == nil {break}; if short(m) {m.Free(); continue};
    select {case q <- m: default: m.Free()} }` -/
def receiverOK : Stmt :=
  .loop 1 (.scope [0] (.seq (.fresh 0) (.seq (.ite (.gain 0) .skip) (.seq (.ite (.seq (.test 0 true) (.brk 1)) (.test 0 false))
    (.seq (.use 0) (.seq (.ite (.seq (.drop 0) (.cont 1)) .skip) (.ite (.drop 0) (.drop 0))))))))
example : Fn.meets { name := "", vars := ["m", "err"], entry := st1 0 true, exits := [[]], body := receiverOK } = true := by decide
/-- the same with a second Free after the queue took the message -/
def receiverDouble : Stmt :=
  .loop 1 (.scope [0] (.seq (.fresh 0) (.seq (.ite (.gain 0) .skip) (.seq (.ite (.seq (.test 0 true) (.brk 1)) (.test 0 false))
    (.seq (.use 0) (.seq (.ite (.seq (.drop 0) (.cont 1)) .skip) (.seq (.ite (.drop 0) (.drop 0)) (.drop 0))))))))
example : Fn.meets { name := "", vars := ["m", "err"], entry := st1 0 true, exits := [[]], body := receiverDouble } = false := by decide
/-- fan-out Send: `if closed {return ErrClosed}; for range pipes { m.Clone(); select {case q <- m: default: m.Free()} }; m.Free(); return nil` -/
def fanoutOK : Stmt :=
  .seq (.ite (.ret 1) .skip) (.seq (.loop 1 (.seq (.use 0) (.seq (.gain 0) (.ite (.drop 0) (.drop 0))))) (.seq (.drop 0) (.ret 0)))
example : Fn.meets { name := "", vars := ["m", "err"], entry := st1 1 false, exits := [[], [(0, 1)]], body := fanoutOK } = true := by decide
/-- fan-out that frees the caller's message also on the error return -/
def fanoutErrFree : Stmt :=
  .seq (.ite (.seq (.drop 0) (.ret 1)) .skip) (.seq (.loop 1 (.seq (.use 0) (.seq (.gain 0) (.ite (.drop 0) (.drop 0))))) (.seq (.drop 0) (.ret 0)))
example : Fn.meets { name := "", vars := ["m", "err"], entry := st1 1 false, exits := [[], [(0, 1)]], body := fanoutErrFree } = false := by decide
/-- sender: `if err := p.SendMsg(m); err != nil { m.Free(); return }` — and with the Free also on success -/
def senderOK : Stmt :=
  .seq (.ite (.seq (.drop 0) (.setf 1 true)) (.setf 1 false)) (.ite (.seq (.test 1 false) (.seq (.drop 0) (.ret 0))) (.test 1 true))
def senderDouble : Stmt :=
  .seq (.ite (.seq (.drop 0) (.setf 1 true)) (.setf 1 false)) (.seq (.drop 0) (.ret 0))
example : Fn.meets { name := "", vars := ["m", "err"], entry := st1 1 false, exits := [[]], body := senderOK } = true := by decide
example : Fn.meets { name := "", vars := ["m", "err"], entry := st1 1 false, exits := [[]], body := senderDouble } = false := by decide
/-- use after the message was handed to a queue -/
example : Fn.meets { name := "", vars := ["m", "err"], entry := st1 1 false, exits := [[]], body := .seq (.drop 0) (.use 0) } = false := by decide

end Own
end Model
